import PrysmVerif.Generated.C14
import PrysmVerif.Lemmas.C14
/-!
# C14 — writing then reading an instrument file returns the same map

Every theorem quantifies over **all** shapes / values / cut points (no bound).  Definitions opened from
`Generated.C14` are regenerated from the current `prysm/io.py` / `prysm/interferogram.py` on every run, so the
kernel re-checks these statements against what the source says now.  Rounding to floating point is not the
subject of any theorem: where a 32-bit header field is involved, the rounding enters as an arbitrary function
`r32` and the statement holds for every such function.
-/
set_option linter.unusedTactic false
set_option linter.unreachableTactic false
set_option linter.unusedVariables false

namespace C14
open Model.C14 C14L
open Generated.C14 hiding zygoInvalid zygoWritePre zygoReadValue zygoWriteFlip zygoReadFlip cvWriteFlip cvReadFlip cvScale cvWritePre cvReadValue

/-! ## translated obligations: the generated glue equals the hand model (∀ inputs) -/

/-- every header field occupies exactly `calcsize(fmt)` bytes inside the 834-byte buffer -/
theorem header_sizes_match : rowsWellFormed zygoTable = true := by decide +kernel

/-- no two header fields share a byte: `dx`, wavelength, width, height are never clobbered by another field -/
theorem header_fields_disjoint : disjointRows zygoTable = true := by decide +kernel

/-- the fields the reader takes shape and scaling from sit where the model reads them; no intensity block is declared -/
theorem gen_table_fields :
    fieldSpec zygoTable "cn_width" = some (.big, 1, .u16, offWidth, offWidth + 2) ∧
    fieldSpec zygoTable "cn_height" = some (.big, 1, .u16, offHeight, offHeight + 2) ∧
    fieldSpec zygoTable "scale_factor" = some (.big, 1, .f32, offScale, offScale + 4) ∧
    fieldSpec zygoTable "wavelength" = some (.big, 1, .f32, offWvl, offWvl + 4) ∧
    fieldSpec zygoTable "obliquity_factor" = some (.big, 1, .f32, offObliq, offObliq + 4) ∧
    fieldSpec zygoTable "lateral_resolution" = some (.big, 1, .f32, offLatRes, offLatRes + 4) ∧
    fieldSpec zygoTable "phase_res" = some (.big, 1, .u16, offPhaseRes, offPhaseRes + 2) ∧
    fieldIntDflt zygoTable "header_size" = some headerLen ∧
    fieldIntDflt zygoTable "ac_width" = some 0 ∧ fieldIntDflt zygoTable "ac_height" = some 0 ∧
    fieldIntDflt zygoTable "ac_n_buckets" = some 0 := by
  and_intros <;> decide +kernel

/-- sentinel, resolution table and header length of the source are those of the model -/
theorem gen_constants :
    Generated.C14.zygoInvalid = Model.C14.zygoInvalid ∧ zygoWriterInvalid = Model.C14.zygoInvalid ∧
    zygoHeaderLen = headerLen ∧ zygoPhaseRes = [(0, 4096), (1, phaseRes1), (2, 131072)] := by decide

/-- the writer overrides exactly the fields the model overrides, with the same sources
(width from `shape[1]`, height from `shape[0]`, `dx/1e3`, `wavelength/1e6`, unit scale and obliquity, 15-bit resolution) -/
theorem gen_writer_sets : zygoWriterSets = writerSets := by decide +kernel

/-- the reader takes `(rows, cols)` from `(cn_height, cn_width)`, the scaling from the four header fields the
writer sets, and the header length from `header_size`; invalid samples are those `>=` the Zygo sentinel / `==` NDA;
the Code V reader guards against a last number that runs into the end of the file (warn + invalidate, before the mask) -/
theorem gen_reader_keys :
    zygoReadShapeKeys = ("cn_height", "cn_width") ∧ zygoHeaderLenKey = "header_size" ∧
    zygoReaderInvalidTest = .ge ∧ cvReaderMaskTest = .eq ∧ cvReaderTrailingCheck = true ∧
    zygoReadScaleKeys = [("W", "wavelength"), ("S", "scale_factor"), ("O", "obliquity_factor"), ("res", "phase_res")] := by
  decide

/-- both sides of both formats flip rows of the 2-D map and nothing else -/
theorem gen_flips :
    Generated.C14.zygoWriteFlip = Model.C14.zygoWriteFlip ∧ Generated.C14.zygoReadFlip = Model.C14.zygoReadFlip ∧
    Generated.C14.cvWriteFlip = Model.C14.cvWriteFlip ∧ Generated.C14.cvReadFlip = Model.C14.cvReadFlip := by decide

/-- the Zygo quantisation arithmetic of the source is the model's, for every input and every rounding of the header
wavelength (proved by `ring`, so re-associations of the source are accepted) -/
theorem gen_zygo_quant (r32 : ℚ → ℚ) (x wvl n W S O R : ℚ) :
    Generated.C14.zygoWritePre r32 x wvl = Model.C14.zygoWritePre r32 x wvl ∧
    Generated.C14.zygoReadValue n W S O R = Model.C14.zygoReadValue n W S O R := by
  constructor <;> simp only [Generated.C14.zygoWritePre, Model.C14.zygoWritePre,
    Generated.C14.zygoReadValue, Model.C14.zygoReadValue] <;> ring

/-- the truncation repair of the source is the model's: zero-extend `contents[header_len + 2·ilen:]` by `missing` bytes,
overwrite the slice `[-⌈missing/4⌉:]` with the invalid sentinel, warn unconditionally -/
theorem gen_truncation :
    zygoMissing = modelMissing ∧ zygoBacktrack = modelBacktrack ∧ zygoTailLower = modelTailLower ∧
    zygoTailValue = Model.C14.zygoInvalid ∧ (∀ hdr ilen : Int, zygoExtOffset hdr ilen = hdr + ilen * 2) ∧ zygoTruncWarns = true := by
  refine ⟨?_, ?_, ?_, by decide, ?_, by decide⟩
  · funext plen flen hdr ilen; simp only [zygoMissing, modelMissing] <;> omega
  · funext m; simp only [zygoBacktrack, modelBacktrack, pyCeilDiv] <;> omega
  · funext b; simp only [zygoTailLower, modelTailLower] <;> omega
  · intro hdr ilen; simp only [zygoExtOffset] <;> omega

/-- the Code V header declares unit wavelength and the sentinel the writer stores; the scale choice is the model's -/
theorem gen_codev (mn mx eps x s n wvl ssz : ℚ) :
    cvHeaderWvl = 1 ∧ cvHeaderNDA = cvNDA ∧ cvWriterNDA = cvNDA ∧
    Generated.C14.cvScale mn mx eps = Model.C14.cvScale mn mx eps ∧
    Generated.C14.cvWritePre x s = Model.C14.cvWritePre x s ∧
    Generated.C14.cvReadValue n wvl ssz = Model.C14.cvReadValue n wvl ssz := by
  refine ⟨by norm_num [cvHeaderWvl], by decide, by decide, ?_, ?_, ?_⟩
  · simp only [Generated.C14.cvScale, Model.C14.cvScale]
    all_goals (try split_ifs) <;> simp_all
  · simp only [Generated.C14.cvWritePre, Model.C14.cvWritePre] <;> ring
  · simp only [Generated.C14.cvReadValue, Model.C14.cvReadValue] <;> ring

/-! ## the property -/

/-- a sample written as big-endian `int32` reads back unchanged, for every 32-bit value -/
theorem be32_roundtrip (v : Int) (h1 : -2147483648 ≤ v) (h2 : v < 2147483648) : de32 (be32 v) = v :=
  C14L.be32_roundtrip v h1 h2

/-- every header field reads back exactly the bytes that were packed into it, whatever the other fields contain -/
theorem header_field_readback (a : WArgs) (r : Row) (hr : r ∈ zygoTable) (hp : r.isPad = false) (i : Nat) (hi : i < r.size) :
    (headerBytes zygoTable zygoWriterSets a).getD (r.lo + i) 0 = (r.payload a (lookupSrc zygoWriterSets r.name)).getD i 0 :=
  C14L.header_field_readback zygoTable zygoWriterSets a header_sizes_match header_fields_disjoint r hr hp i hi

/-- the slice of a written file that a header field occupies is exactly the bytes packed into it (strings included) -/
theorem header_bytes_roundtrip (a : WArgs) (vals : List Float) (r : Row) (hr : r ∈ zygoTable) (hp : r.isPad = false) :
    fileSlice (zygoFile zygoTable zygoWriterSets a vals) r.lo r.hi = r.payload a (lookupSrc zygoWriterSets r.name) :=
  C14L.header_bytes_roundtrip zygoTable zygoWriterSets a vals header_sizes_match header_fields_disjoint r hr hp

/-- a numeric header field whose packed bytes are `packNum v` (hypothesis `hraw`, discharged per field below and for all
default-valued fields in `header_default_roundtrip`) unpacks to `v`, in the field's own byte order -/
theorem header_value_roundtrip (a : WArgs) (vals : List Float) (r : Row) (hr : r ∈ zygoTable) (hp : r.isPad = false)
    (v : Nat) (hv : v < 256 ^ r.size) (hraw : (lookupSrc zygoWriterSets r.name).raw a r = packNum r.endian r.size v) :
    r.unpack (zygoFile zygoTable zygoWriterSets a vals) = v :=
  C14L.header_value_roundtrip zygoTable zygoWriterSets a vals header_sizes_match header_fields_disjoint r hr hp v hv hraw

/-- numeric formats of the table carry no repeat count -/
def numericCountOne (rows : List Row) : Bool :=
  rows.all fun r => (r.code == .str || r.code == .pad || r.code == .chr) || r.count == 1

/-- every numeric row of the generated table is a single value (no repeat count) -/
theorem gen_table_counts : numericCountOne zygoTable = true := by decide +kernel

/-- EVERY header field the writer leaves at its default (all rows of the generated table, either byte order) unpacks to that
default from the written file: unsigned integers to their value, float32 fields to the float32 bit pattern of the default -/
theorem header_default_roundtrip (a : WArgs) (vals : List Float) (r : Row) (hr : r ∈ zygoTable) (hp : r.isPad = false)
    (hk : lookupSrc zygoWriterSets r.name = .keep) :
    (∀ v, r.dflt = .int v → (r.code = .u16 ∨ r.code = .u32 ∨ r.code = .u8) → v < 256 ^ r.size →
      r.unpack (zygoFile zygoTable zygoWriterSets a vals) = v) ∧
    (∀ b, r.dflt = .flt b → r.code = .f32 →
      r.unpack (zygoFile zygoTable zygoWriterSets a vals) = f32Bits (Float.ofBits (UInt64.ofNat b))) := by
  have hc := gen_table_counts
  simp only [numericCountOne, List.all_eq_true] at hc
  have hcr := hc r hr
  constructor
  · intro v hd hcode hv
    apply header_value_roundtrip a vals r hr hp v hv
    rw [hk]
    rcases hcode with h | h | h <;>
      · have hcnt : r.count = 1 := by simpa [h] using hcr
        simp only [Src.raw, hd, Row.rawDflt, h, Row.size, hcnt, Code.unit]
  · intro b hd hcode
    have hcnt : r.count = 1 := by simpa [hcode] using hcr
    have hs : r.size = 4 := by simp [Row.size, hcnt, hcode, Code.unit]
    apply header_value_roundtrip a vals r hr hp _ (by rw [hs]; exact f32Bits_lt _)
    rw [hk]
    simp only [Src.raw, hd, Row.rawDflt, hcode, hs]


/-- the row of the generated table called `name` -/
def rowOf (name : String) : Row :=
  (zygoTable.find? (fun r => r.name == name)).getD ⟨"", .native, 0, .pad, 0, 0, .int 0⟩

/-- the shape the reader decodes from a written file is the shape of the map: rows from `cn_height`, columns from `cn_width` -/
theorem zygo_shape_roundtrip (a : WArgs) (vals : List Float) (hw : a.w < 65536) (hh : a.h < 65536) :
    hdrU16 (zygoFile zygoTable zygoWriterSets a vals) offHeight = a.h ∧
    hdrU16 (zygoFile zygoTable zygoWriterSets a vals) offWidth = a.w := by
  constructor
  · refine field_u16 zygoTable zygoWriterSets header_sizes_match header_fields_disjoint (rowOf "cn_height") _ _ a vals hh (by decide +kernel) (by decide +kernel) (by decide +kernel) (by decide +kernel) ?_
    rw [show lookupSrc zygoWriterSets (rowOf "cn_height").name = .shape 0 from by decide +kernel]
    simp only [Src.raw, Row.rawDflt, show (rowOf "cn_height").code = .u16 from by decide +kernel,
      show (rowOf "cn_height").endian = .big from by decide +kernel, packNum]
    try rfl
  · refine field_u16 zygoTable zygoWriterSets header_sizes_match header_fields_disjoint (rowOf "cn_width") _ _ a vals hw (by decide +kernel) (by decide +kernel) (by decide +kernel) (by decide +kernel) ?_
    rw [show lookupSrc zygoWriterSets (rowOf "cn_width").name = .shape 1 from by decide +kernel]
    simp only [Src.raw, Row.rawDflt, show (rowOf "cn_width").code = .u16 from by decide +kernel,
      show (rowOf "cn_width").endian = .big from by decide +kernel, packNum]
    try rfl

/-- the scaling fields of a written file read back bit for bit: the float32 of `dx/1e3` and of `wavelength/1e6`, unit scale
factor and obliquity, 15-bit phase resolution — which is what `zygo_quant_error` assumes the reader multiplies with -/
theorem zygo_scaling_fields_readback (a : WArgs) (vals : List Float) :
    hdrU32 (zygoFile zygoTable zygoWriterSets a vals) offLatRes = f32Bits (a.dx / 1000.0) ∧
    hdrU32 (zygoFile zygoTable zygoWriterSets a vals) offWvl = f32Bits (a.wvl / 1000000.0) ∧
    hdrU32 (zygoFile zygoTable zygoWriterSets a vals) offScale = f32Bits (Float.ofBits 0x3FF0000000000000) ∧
    hdrU32 (zygoFile zygoTable zygoWriterSets a vals) offObliq = f32Bits (Float.ofBits 0x3FF0000000000000) ∧
    hdrU16 (zygoFile zygoTable zygoWriterSets a vals) offPhaseRes = 1 := by
  refine ⟨?_, ?_, ?_, ?_, ?_⟩
  · refine field_u32 zygoTable zygoWriterSets header_sizes_match header_fields_disjoint (rowOf "lateral_resolution") _ _ a vals (f32Bits_lt _) (by decide +kernel) (by decide +kernel) (by decide +kernel) (by decide +kernel) ?_
    rw [show lookupSrc zygoWriterSets (rowOf "lateral_resolution").name = .dxMmToM from by decide +kernel]
    simp only [Src.raw, show (rowOf "lateral_resolution").endian = .big from by decide +kernel, packNum]
  · refine field_u32 zygoTable zygoWriterSets header_sizes_match header_fields_disjoint (rowOf "wavelength") _ _ a vals (f32Bits_lt _) (by decide +kernel) (by decide +kernel) (by decide +kernel) (by decide +kernel) ?_
    rw [show lookupSrc zygoWriterSets (rowOf "wavelength").name = .wvlUmToM from by decide +kernel]
    simp only [Src.raw, show (rowOf "wavelength").endian = .big from by decide +kernel, packNum]
  · refine field_u32 zygoTable zygoWriterSets header_sizes_match header_fields_disjoint (rowOf "scale_factor") _ _ a vals (f32Bits_lt _) (by decide +kernel) (by decide +kernel) (by decide +kernel) (by decide +kernel) ?_
    rw [show lookupSrc zygoWriterSets (rowOf "scale_factor").name = .constFlt 0x3FF0000000000000 from by decide +kernel]
    simp only [Src.raw, Row.rawDflt, show (rowOf "scale_factor").code = .f32 from by decide +kernel,
      show (rowOf "scale_factor").endian = .big from by decide +kernel, packNum]
    try rfl
  · refine field_u32 zygoTable zygoWriterSets header_sizes_match header_fields_disjoint (rowOf "obliquity_factor") _ _ a vals (f32Bits_lt _) (by decide +kernel) (by decide +kernel) (by decide +kernel) (by decide +kernel) ?_
    rw [show lookupSrc zygoWriterSets (rowOf "obliquity_factor").name = .constFlt 0x3FF0000000000000 from by decide +kernel]
    simp only [Src.raw, Row.rawDflt, show (rowOf "obliquity_factor").code = .f32 from by decide +kernel,
      show (rowOf "obliquity_factor").endian = .big from by decide +kernel, packNum]
    try rfl
  · refine field_u16 zygoTable zygoWriterSets header_sizes_match header_fields_disjoint (rowOf "phase_res") _ _ a vals (by decide) (by decide +kernel) (by decide +kernel) (by decide +kernel) (by decide +kernel) ?_
    rw [show lookupSrc zygoWriterSets (rowOf "phase_res").name = .constInt 1 from by decide +kernel]
    simp only [Src.raw, Row.rawDflt, show (rowOf "phase_res").code = .u16 from by decide +kernel,
      show (rowOf "phase_res").endian = .big from by decide +kernel, packNum]
    try rfl

/-- the reader's multiplier is the inverse of the writer's, when both use the wavelength as the header stores it:
one count is worth `Generated.C14.zygoReadValue 1 W 1 1 32768` nanometres on both sides, for every rounding `r32` of the header field -/
theorem zygo_step_consistent (r32 : ℚ → ℚ) (x wvl : ℚ) (hW : r32 (zygoWvlWrite wvl) ≠ 0) :
    Generated.C14.zygoWritePre r32 x wvl = x / Generated.C14.zygoReadValue 1 (r32 (zygoWvlWrite wvl)) 1 1 phaseRes1 := by
  simp only [Generated.C14.zygoWritePre, Generated.C14.zygoReadValue, Model.C14.zygoWritePre, Model.C14.zygoReadValue, zygoWvlWrite, phaseRes1] at *
  push_cast
  field_simp

/-- Zygo: a valid sample comes back within one quantisation step of the file (`q` nm per count, `q > 0`) -/
theorem quant_error (x q : ℚ) (hq : 0 < q) : |x - q * (truncRat (x / q) : ℚ)| < q := quant_error_lemma x q hq

/-- Zygo, end to end in exact arithmetic over the source's own formulas: write (`trunc`), read with the header's
wavelength, unit scale/obliquity and 15-bit resolution — the error is below the value of one count -/
theorem zygo_quant_error (r32 : ℚ → ℚ) (x wvl : ℚ) (hW : 0 < r32 (zygoWvlWrite wvl)) :
    |x - Generated.C14.zygoReadValue (truncRat (Generated.C14.zygoWritePre r32 x wvl)) (r32 (zygoWvlWrite wvl)) 1 1 phaseRes1|
      < Generated.C14.zygoReadValue 1 (r32 (zygoWvlWrite wvl)) 1 1 phaseRes1 := by
  rw [zygo_step_consistent r32 x wvl hW.ne']
  have hq : 0 < Generated.C14.zygoReadValue 1 (r32 (zygoWvlWrite wvl)) 1 1 phaseRes1 := by
    simp only [Generated.C14.zygoReadValue, Model.C14.zygoReadValue, phaseRes1]; positivity
  have e : ∀ n : ℚ, Generated.C14.zygoReadValue n (r32 (zygoWvlWrite wvl)) 1 1 phaseRes1
      = Generated.C14.zygoReadValue 1 (r32 (zygoWvlWrite wvl)) 1 1 phaseRes1 * n := by
    intro n; simp only [Generated.C14.zygoReadValue, Model.C14.zygoReadValue]; ring
  rw [e (truncRat _ : ℚ)]
  exact quant_error_lemma x _ hq

/-- Zygo, over the source's own invalid test (`zygoReaderInvalidTest`) and sentinels (writer's and reader's): an invalid
sample always decodes as invalid; a valid sample inside the format range never does, survives the big-endian byte
encoding, and comes back within one step -/
theorem sentinel_sound (q : ℚ) (hq : 0 < q) :
    zygoDecodeG zygoReaderInvalidTest Generated.C14.zygoInvalid q (de32 (be32 zygoWriterInvalid)) = none ∧
    ∀ v : ℚ, |v / q| < 2147483640 →
      zygoDecodeG zygoReaderInvalidTest Generated.C14.zygoInvalid q (de32 (be32 (zygoEncode q (some v))))
        = some ((truncRat (v / q) : ℚ) * q) ∧
      |v - (truncRat (v / q) : ℚ) * q| < q := by
  have e1 : zygoReaderInvalidTest = .ge := gen_reader_keys.2.2.1
  have e2 : Generated.C14.zygoInvalid = 2147483640 := by decide
  have e3 : zygoWriterInvalid = 2147483640 := by decide
  rw [e1, e2, e3]
  constructor
  · rw [be32_roundtrip _ (by decide) (by decide)]
    simp [zygoDecodeG, Cmp.holds]
  · intro v hv
    have hb := (truncRat_bounds (v / q)).2
    have h1 : |(truncRat (v / q) : ℚ)| < 2147483640 := lt_of_le_of_lt hb hv
    have h2 : |truncRat (v / q)| < 2147483640 := by exact_mod_cast h1
    rw [abs_lt] at h2
    simp only [zygoEncode]
    rw [be32_roundtrip _ (by omega) (by omega)]
    refine ⟨?_, ?_⟩
    · have hn : Cmp.holds .ge (truncRat (v / q)) 2147483640 = false := by
        simp only [Cmp.holds, decide_eq_false_iff_not]; omega
      simp only [zygoDecodeG, hn]
      simp
    · rw [mul_comm]; exact quant_error_lemma v q hq

/-- orientation: a written map reads back with every sample in its own place iff reader and writer apply the same flip -/
theorem orientation_iff (kw kr : Flip) :
    (∀ h w i, i < h * w → flipIdx kw h w (flipIdx kr h w i) = i) ↔ kw = kr := by
  constructor
  · intro H
    have H0 := H 2 2 0 (by decide)
    cases kw <;> cases kr <;> first | rfl | exact absurd H0 (by decide)
  · rintro rfl h w i hi
    cases kw
    · rfl
    · exact flipIdx_rows_rows h w i hi
    · exact flipIdx_cols_cols h w i hi
    · exact flipIdx_both_both h w i hi

/-- Zygo orientation: for every shape, output sample `i` is input sample `i` (rows and columns both in place) -/
theorem orientation_roundtrip (h w i : Nat) (hi : i < h * w) :
    flipIdx Generated.C14.zygoWriteFlip h w (flipIdx Generated.C14.zygoReadFlip h w i) = i :=
  (orientation_iff _ _).2 (by decide) h w i hi

/-- what the reversal of the flat buffer does instead (the reader of the pinned tree): a left-right mirror of every row -/
theorem flat_reverse_is_mirror (h w i : Nat) (hi : i < h * w) :
    flipIdx .rows h w (flipIdx .both h w i) = flipIdx .cols h w i := rows_then_both h w i hi

/-- Code V orientation: same statement for the grid INT pair -/
theorem codev_orientation_roundtrip (h w i : Nat) (hi : i < h * w) :
    flipIdx Generated.C14.cvWriteFlip h w (flipIdx Generated.C14.cvReadFlip h w i) = i :=
  (orientation_iff _ _).2 (by decide) h w i hi

/-- the dimension the writer puts in `GRD` token `k` (1 or 2) for an `h × w` map -/
def grdTok (h w k : Nat) : Nat :=
  let ax := if k = 1 then cvGrdWriteAxes.1 else cvGrdWriteAxes.2
  if ax = 0 then h else w

/-- Code V shape: the reader reshapes to the shape that was written, for every `h × w` (non-square included) -/
theorem codev_shape_roundtrip (h w : Nat) :
    (grdTok h w cvGrdReadToks.1, grdTok h w cvGrdReadToks.2) = (h, w) := by
  simp [grdTok, cvGrdReadToks, cvGrdWriteAxes]

/-- Code V scale: every valid sample maps into the `int16` range, and the scale is positive (so it can be divided out) -/
theorem codev_scale_in_range (mn mx eps x : ℚ) (he : 0 < eps) (he1 : eps ≤ 1) (h1 : mn ≤ x) (h2 : x ≤ mx) :
    |x * Generated.C14.cvScale mn mx eps| ≤ 32767 ∧ 0 < Generated.C14.cvScale mn mx eps := by
  rw [(gen_codev mn mx eps 0 0 0 0 0).2.2.2.1]
  simp only [Model.C14.cvScale]
  have ha : |x| ≤ max (if mn < 0 then -mn else mn) (if mx < 0 then -mx else mx) := by
    rw [abs_le]
    constructor
    · have : -(if mn < 0 then -mn else mn) ≤ mn := by split_ifs <;> linarith
      have := le_max_left (if mn < 0 then -mn else mn) (if mx < 0 then -mx else mx)
      linarith
    · have : mx ≤ (if mx < 0 then -mx else mx) := by split_ifs <;> linarith
      have := le_max_right (if mn < 0 then -mn else mn) (if mx < 0 then -mx else mx)
      linarith
  generalize max (if mn < 0 then -mn else mn) (if mx < 0 then -mx else mx) = p at ha
  have hp0 : 0 ≤ p := le_trans (abs_nonneg x) ha
  split_ifs with hc
  · constructor
    · rw [abs_mul]; norm_num
      have : |x| < 1 := by linarith
      linarith
    · norm_num
  · push Not at hc
    have hp : 0 < p := lt_of_lt_of_le he hc
    constructor
    · rw [abs_mul, abs_of_pos (by positivity : (0:ℚ) < 32767 / p)]
      rw [mul_div_assoc', div_le_iff₀ hp]
      nlinarith
    · positivity

/-- Code V quantisation: a valid sample comes back within half a step (`1000·wvl/ssz` nm per count), for every scale `s > 0` -/
theorem codev_round_error (x s : ℚ) (hs : 0 < s) :
    |x - Generated.C14.cvReadValue (pyRoundRat (Generated.C14.cvWritePre x s)) cvHeaderWvl s|
      ≤ Generated.C14.cvReadValue 1 cvHeaderWvl s / 2 := by
  have hw : cvHeaderWvl = 1 := (gen_codev 0 0 0 0 0 0 0 0).1
  simp only [Generated.C14.cvReadValue, Generated.C14.cvWritePre, Model.C14.cvReadValue, Model.C14.cvWritePre, hw]
  have h := pyRoundRat_error (x / 1000 * s)
  have e : x - (pyRoundRat (x / 1000 * s) : ℚ) * (1000 * 1 / s)
      = (1000 / s) * (x / 1000 * s - (pyRoundRat (x / 1000 * s) : ℚ)) := by field_simp
  rw [e, abs_mul, abs_of_pos (by positivity : (0:ℚ) < 1000 / s)]
  have : (1000 / s) * |x / 1000 * s - (pyRoundRat (x / 1000 * s) : ℚ)| ≤ (1000 / s) * (1 / 2) :=
    mul_le_mul_of_nonneg_left h (by positivity)
  calc _ ≤ (1000 / s) * (1 / 2) := this
    _ = 1 * (1000 * 1 / s) / 2 := by ring

/-- Code V sentinel: a valid sample (scaled into range by `codev_scale_in_range`) is never written as `NDA`, an
invalid one always is, and the reader's `== NDA` test recovers exactly the invalid ones -/
theorem codev_sentinel_sound (s wvl ssz : ℚ) :
    cvDecode wvl ssz (cvEncode s none) = none ∧
    ∀ v : ℚ, |Model.C14.cvWritePre v s| ≤ 32767 → cvDecode wvl ssz (cvEncode s (some v)) ≠ none := by
  constructor
  · simp [cvDecode, cvEncode]
  · intro v hv
    have := pyRoundRat_abs_le _ 32767 (by exact_mod_cast hv)
    rw [abs_le] at this
    have hn : ¬ cvEncode s (some v) = cvNDA := by simp only [cvEncode, cvNDA]; omega
    simp only [cvDecode]
    rw [if_neg hn]
    simp

/-- the writer produces one integer per sample -/
theorem length_cvCountsF (vals : List Float) : (cvCountsF vals).2.length = vals.length := by
  simp [cvCountsF]

/-- the GRD token order of both sides is the model's: writer emits `(cols, rows)`, reader reshapes to `(second, first)` -/
theorem gen_codev_dims (h w : Nat) :
    (grdTok h w 1, grdTok h w 2) = cvHeaderDims h w ∧
    ∀ t1 t2 : Nat, ((if cvGrdReadToks.1 = 1 then t1 else t2), (if cvGrdReadToks.2 = 1 then t1 else t2)) = cvReadShape t1 t2 := by
  constructor
  · simp [grdTok, cvGrdWriteAxes, cvHeaderDims]
  · intro t1 t2; simp [cvGrdReadToks, cvReadShape]

/-- Code V, end to end over the model (GRD tokens + flips + sample order together): for every `h × w` map the reader,
given the header tokens and the integers the writer produced, returns shape `(h, w)` and every integer (the NDA of a NaN
included) in its own place, without a warning -/
theorem codev_model_roundtrip (h w : Nat) (nda : Int) (vals : List Float) (hl : vals.length = h * w) :
    cvReadInts (cvHeaderDims h w).1 (cvHeaderDims h w).2 nda true (cvWriteF h w vals).2
      = some (h, w, (cvCountsF vals).2, false) := by
  have hc := length_cvCountsF vals
  simp only [cvWriteF, cvReadInts, cvHeaderDims, cvReadShape, Bool.true_or, if_true, length_permute, hc, hl]
  simp only [ne_eq, not_true_eq_false, if_false, Bool.not_true, Bool.false_and]
  rw [permute_permute (cvCountsF vals).2 (flipIdx Model.C14.cvWriteFlip h w) (flipIdx Model.C14.cvReadFlip h w)
    (by intro i hi; rw [hc, hl] at hi ⊢; exact flipIdx_lt _ _ _ _ hi)
    (by intro i hi; rw [hc, hl] at hi; exact (orientation_iff _ _).2 rfl h w i hi)]

/-- Code V truncation, on the TEXT of the data block (tokens separated by newlines as `np.savetxt` writes them, any
integer parser): for EVERY cut point the repaired reader either rejects (a whole number is missing) or warns and returns
the full-size map with every number but the last unchanged and the last one — the only one that can have lost digits —
marked invalid.  Never a full array of plausible numbers (replaces the former known finding `codev-last-token-cut`) -/
theorem codev_truncation_safe (t1 t2 : Nat) (nda : Int) (parse : List Char → Int) (toks : List (List Char))
    (hc : ∀ t ∈ toks, CleanTok t) (hn : toks.length = (cvReadShape t1 t2).1 * (cvReadShape t1 t2).2)
    (k : Nat) (hk : k < (cvDataText toks).length) :
    cvReadText t1 t2 nda parse ((cvDataText toks).take k) = none ∨
    cvReadText t1 t2 nda parse ((cvDataText toks).take k)
      = some ((cvReadShape t1 t2).1, (cvReadShape t1 t2).2,
              permute 0 (toks.dropLast.map parse ++ [nda]) (flipIdx Model.C14.cvReadFlip (cvReadShape t1 t2).1 (cvReadShape t1 t2).2), true) := by
  obtain ⟨c1, c2⟩ := cut_tokens toks hc k hk
  generalize hr : splitWS ((cvDataText toks).take k) [] = r at c1 c2
  by_cases hlen : r.length = toks.length
  · obtain ⟨e1, e2, e3⟩ := c2 hlen
    right
    have hne : (r.map parse).isEmpty = false := by
      cases r with
      | nil => exact absurd rfl e3
      | cons a b => rfl
    simp only [cvReadText, cvReadInts, hr, e1, hne, Bool.false_or, Bool.false_eq_true, if_false]
    have hl2 : ((r.map parse).dropLast ++ [nda]).length = (cvReadShape t1 t2).1 * (cvReadShape t1 t2).2 := by
      have : 0 < r.length := List.length_pos_of_ne_nil e3
      simp only [List.length_append, List.length_dropLast, List.length_map, List.length_singleton]; omega
    rw [if_neg (by rw [hl2]; simp)]
    have : (r.map parse).dropLast = toks.dropLast.map parse := by
      rw [← List.map_dropLast, e2]
    simp [this]
  · left
    have hlt : r.length < toks.length := by omega
    simp only [cvReadText, cvReadInts, hr]
    rw [if_pos]
    split_ifs with hb
    · simp only [List.length_map]; omega
    · have hne : r ≠ [] := by
        intro h0; subst h0; simp at hb
      have : 0 < r.length := List.length_pos_of_ne_nil hne
      simp only [List.length_append, List.length_dropLast, List.length_map, List.length_singleton]; omega

/-- … and the complete text reads back every number, without a warning -/
theorem codev_full_text_reads_back (t1 t2 : Nat) (nda : Int) (parse : List Char → Int) (toks : List (List Char))
    (hc : ∀ t ∈ toks, CleanTok t) (hn : toks.length = (cvReadShape t1 t2).1 * (cvReadShape t1 t2).2) (hne : toks ≠ []) :
    cvReadText t1 t2 nda parse (cvDataText toks)
      = some ((cvReadShape t1 t2).1, (cvReadShape t1 t2).2,
              permute 0 (toks.map parse) (flipIdx Model.C14.cvReadFlip (cvReadShape t1 t2).1 (cvReadShape t1 t2).2), false) := by
  simp only [cvReadText, cvReadInts, splitWS_data toks hc, endsWS_data toks hne, Bool.true_or, if_true, List.length_map, hn]
  simp

/-- every header line the writer can emit (each `typ` in SUR/WFR/FIL, with and without NNB) consists of keywords the
reader understands, with the number of values it expects, and carries the GRD/WVL/SSZ/NDA entries the reader requires -/
theorem codev_header_accepted :
    cvWriterHeaders.all (fun hd => acceptsHeader cvReaderTokens 32 hd && hd.contains "GRD" && hd.contains "WVL" && hd.contains "NDA" && hd.contains "SSZ") = true := by
  decide +kernel

/-- the number of text lines the writer lays the data out in divides the number of samples for every map size, so the
layout reshape never raises (in particular above 585 samples, where the divisor search actually runs) -/
theorem codev_layout_divides (size : Nat) (h : 1 ≤ size) : cvWidth size ∣ size ∧ 1 ≤ cvWidth size := by
  simp only [cvWidth, cvLines]
  exact ⟨(widthSearch_dvd size 585 585 (by decide) (by decide)).1, (widthSearch_dvd size 585 585 (by decide) (by decide)).2.1⟩


/-- the reader's counts with the truncation arithmetic and sentinel GENERATED from the source -/
def readCountsGen (f : List Nat) (n : Nat) : Option (List Int) :=
  readCountsG zygoMissing zygoBacktrack zygoTailLower zygoTailValue f n

/-- bridge: the function the driver executes (`Model.readCounts`) is the reader over the generated arithmetic -/
theorem readCountsGen_eq : readCountsGen = readCounts := by
  funext f n
  simp only [readCountsGen, readCounts, gen_truncation.1, gen_truncation.2.1, gen_truncation.2.2.1, gen_truncation.2.2.2.1]

/-- truncation, over the source's own repair arithmetic (`zygoMissing`, `zygoBacktrack`, `zygoTailLower`, `zygoTailValue`):
for EVERY cut point inside a written Zygo file, the reader either raises (cut inside the header) or warns and returns all
`n` samples with every sample whose four bytes are not all present marked invalid and every complete sample unchanged —
never a full array of plausible numbers -/
theorem truncation_safe (hdr : List Nat) (s : List Int) (hh : hdr.length = headerLen)
    (hs : ∀ j, j < s.length → -2147483648 ≤ s.getD j 0 ∧ s.getD j 0 < 2147483648)
    (k : Nat) (hk : k < headerLen + 4 * s.length) :
    (k < headerLen ∧ readCountsGen ((hdr ++ bodyBytes s).take k) s.length = none) ∨
    (headerLen ≤ k ∧ readWarns ((hdr ++ bodyBytes s).take k) s.length = true ∧ zygoTruncWarns = true ∧
      ∃ r, readCountsGen ((hdr ++ bodyBytes s).take k) s.length = some r ∧ r.length = s.length ∧
      ∀ j, j < s.length → r.getD j 0 = if headerLen + 4 * (j + 1) ≤ k then s.getD j 0 else Generated.C14.zygoInvalid) := by
  rw [readCountsGen_eq, show Generated.C14.zygoInvalid = Model.C14.zygoInvalid from gen_constants.1]
  rcases truncation_safe_lemma hdr s hh hs k hk with h | ⟨h1, h2⟩
  · exact Or.inl h
  · refine Or.inr ⟨h1, ?_, gen_truncation.2.2.2.2.2, h2⟩
    have hlen : ((hdr ++ bodyBytes s).take k).length = k := by
      rw [List.length_take, List.length_append, length_bodyBytes, hh]; omega
    simp only [readWarns, hlen, Bool.and_eq_true, decide_eq_true_eq]
    exact ⟨h1, hk⟩

/-- a cut in the data block leaves the header intact: the cut file still declares the shape and scaling of the whole map -/
theorem cut_keeps_header (f : List Nat) (k lo : Nat) (hk : headerLen ≤ k) (hlo : lo + 4 ≤ headerLen) :
    hdrU16 (f.take k) lo = hdrU16 f lo ∧ hdrU32 (f.take k) lo = hdrU32 f lo := by
  simp only [hdrU16, hdrU32, getD_take']
  rw [if_pos (by omega), if_pos (by omega), if_pos (by omega), if_pos (by omega)]
  exact ⟨rfl, rfl⟩

/-- the complete file reads back every sample (no warning) -/
theorem full_file_reads_back (hdr : List Nat) (s : List Int) (hh : hdr.length = headerLen)
    (hs : ∀ j, j < s.length → -2147483648 ≤ s.getD j 0 ∧ s.getD j 0 < 2147483648) :
    ∃ r, readCountsGen (hdr ++ bodyBytes s) s.length = some r ∧ r.length = s.length ∧
      (∀ j, j < s.length → r.getD j 0 = s.getD j 0) ∧ readWarns (hdr ++ bodyBytes s) s.length = false := by
  rw [readCountsGen_eq]
  have hlen : (hdr ++ bodyBytes s).length = headerLen + 4 * s.length := by
    rw [List.length_append, length_bodyBytes, hh]
  simp only [readCounts, readCountsG, readWarns, hlen, sampleAtA_toArray]
  rw [if_neg (by omega), if_pos (by simp only [modelMissing]; push_cast; omega)]
  refine ⟨_, rfl, by simp, ?_, by simp⟩
  intro j hj
  rw [getD_map_range _ _ _ hj, ← hh, sampleAt_body, C14L.be32_roundtrip _ (hs j hj).1 (hs j hj).2]

/-- a NaN sample is written as the invalid sentinel -/
theorem nan_written_as_sentinel (wvl x : Float) (h : x.isNaN = true) : zygoCountF wvl x = Model.C14.zygoInvalid := by
  simp [zygoCountF, h]

/-- Zygo, end to end over the model (header + bytes + flips together, reader arithmetic generated from the source): for
every shape and every map whose counts fit `int32`, reading the written file returns every integer sample (the sentinel
of a NaN included) in its own place, with no warning; the shape decoded from the file is `zygo_shape_roundtrip` -/
theorem zygo_model_roundtrip (a : WArgs) (vals : List Float) (hl : vals.length = a.h * a.w)
    (hr : ∀ v ∈ vals, -2147483648 ≤ zygoCountF a.wvl v ∧ zygoCountF a.wvl v < 2147483648) :
    ∃ r, readCountsGen (zygoFile Generated.C14.zygoTable Generated.C14.zygoWriterSets a vals) (a.h * a.w) = some r ∧
      permute 0 r (flipIdx Generated.C14.zygoReadFlip a.h a.w) = vals.map (zygoCountF a.wvl) ∧
      readWarns (zygoFile Generated.C14.zygoTable Generated.C14.zygoWriterSets a vals) (a.h * a.w) = false := by
  rw [readCountsGen_eq]
  show ∃ r, readCounts (zygoFile Generated.C14.zygoTable Generated.C14.zygoWriterSets a vals) (a.h * a.w) = some r ∧
      permute 0 r (flipIdx Generated.C14.zygoReadFlip a.h a.w) = vals.map (zygoCountF a.wvl) ∧
      readWarns (zygoFile Generated.C14.zygoTable Generated.C14.zygoWriterSets a vals) (a.h * a.w) = false
  have hc : (vals.map (zygoCountF a.wvl)).length = a.h * a.w := by simp [hl]
  generalize hcs : vals.map (zygoCountF a.wvl) = counts at hc
  have hrange : ∀ c ∈ counts, -2147483648 ≤ c ∧ c < 2147483648 := by
    intro c hcm; rw [← hcs] at hcm
    obtain ⟨v, hv, rfl⟩ := List.mem_map.1 hcm
    exact hr v hv
  have hsl : (permute 0 counts (flipIdx Model.C14.zygoWriteFlip a.h a.w)).length = a.h * a.w := by
    rw [length_permute, hc]
  have hfull := full_file_reads_back (headerBytes Generated.C14.zygoTable Generated.C14.zygoWriterSets a)
    (permute 0 counts (flipIdx Model.C14.zygoWriteFlip a.h a.w)) (length_headerBytes _ _ a) (by
      intro j hj
      rcases getD_mem_or_zero counts (flipIdx Model.C14.zygoWriteFlip a.h a.w j) with h | h
      · rw [permute_getD _ _ _ (by rw [length_permute] at hj; exact hj)]; exact hrange _ h
      · rw [permute_getD _ _ _ (by rw [length_permute] at hj; exact hj), h]; decide)
  rw [hsl, readCountsGen_eq] at hfull
  obtain ⟨r, h1, h2, h3, h4⟩ := hfull
  refine ⟨r, by simpa only [zygoFile, hcs] using h1, ?_, by simpa only [zygoFile, hcs] using h4⟩
  have hrs : r = permute 0 counts (flipIdx Model.C14.zygoWriteFlip a.h a.w) :=
    eq_of_getD _ _ (by rw [h2, hsl]) (fun i hi => h3 i (by rw [h2] at hi; exact hi))
  rw [hrs, (gen_flips).2.1]
  apply permute_permute
  · intro i hi; rw [hc] at hi ⊢; exact flipIdx_lt _ _ _ _ hi
  · intro i hi; rw [hc] at hi
    exact (orientation_iff _ _).2 (by decide) a.h a.w i hi

/-- Interferogram save/load: the unit conversions around the file layer are exact inverses (mm→m→mm, µm→m→µm) -/
theorem ifg_units_roundtrip (dx wvl : ℚ) :
    ifgDxRead (zygoDxWrite dx) = dx ∧ ifgWvlRead (zygoWvlWrite wvl) = wvl ∧ ifgSavePassesDataDxWavelength = true := by
  refine ⟨?_, ?_, by decide⟩ <;> simp only [ifgDxRead, zygoDxWrite, ifgWvlRead, zygoWvlWrite] <;> ring

/-- … and through a header field that rounds with relative error at most `u` (float32: `u = 2⁻²⁴`) the spacing and the
wavelength come back with relative error at most `u` -/
theorem ifg_units_rounded (r32 : ℚ → ℚ) (u : ℚ) (hr : ∀ y, |r32 y - y| ≤ u * |y|) (dx wvl : ℚ) :
    |ifgDxRead (r32 (zygoDxWrite dx)) - dx| ≤ u * |dx| ∧ |ifgWvlRead (r32 (zygoWvlWrite wvl)) - wvl| ≤ u * |wvl| := by
  constructor
  · have h := hr (zygoDxWrite dx)
    simp only [ifgDxRead, zygoDxWrite] at *
    have e : r32 (dx / 1000) * 1000 - dx = 1000 * (r32 (dx / 1000) - dx / 1000) := by ring
    rw [e, abs_mul, abs_of_pos (by norm_num : (0:ℚ) < 1000)]
    rw [abs_div, abs_of_pos (by norm_num : (0:ℚ) < 1000)] at h
    linarith
  · have h := hr (zygoWvlWrite wvl)
    simp only [ifgWvlRead, zygoWvlWrite] at *
    have e : r32 (wvl / 1000000) * 1000000 - wvl = 1000000 * (r32 (wvl / 1000000) - wvl / 1000000) := by ring
    rw [e, abs_mul, abs_of_pos (by norm_num : (0:ℚ) < 1000000)]
    rw [abs_div, abs_of_pos (by norm_num : (0:ℚ) < 1000000)] at h
    linarith

/-! ## non-vacuity: the hypotheses are met by concrete instances -/
example : de32 (be32 (-123456789)) = -123456789 := by decide
example : flipIdx .rows 2 3 (flipIdx .both 2 3 0) = 2 := by decide    -- pinned reader: sample (0,0) comes back at (0,2)
example : (grdTok 4 5 cvGrdReadToks.1, grdTok 4 5 cvGrdReadToks.2) = (4, 5) := by decide
example : |(-2 : ℚ) * Generated.C14.cvScale (-2) (-1) (1 / 4503599627370496)| ≤ 32767 :=
  (codev_scale_in_range (-2) (-1) (1 / 4503599627370496) (-2) (by norm_num) (by norm_num) (by norm_num) (by norm_num)).1
example : (0 : ℚ) < (fun y => y) (zygoWvlWrite (6328 / 10000)) := by norm_num [zygoWvlWrite]
example : readCounts ((List.replicate 834 0 ++ bodyBytes [5, -7]).take 839) 2 = some [5, 2147483640] := by decide +kernel
example : readCounts ((List.replicate 834 0 ++ bodyBytes [5, -7]).take 833) 2 = none := by decide +kernel


/-! ## file layout: header length and intensity block (session 3) -/

/-- the file layout of the source's reader is the model's: `ilen = ac_width·ac_height·max(ac_n_buckets,1)` 16-bit native
intensity samples start at `header_size`, the big-endian `int32` phase block starts exactly where the intensity block ends
(no gap, no overlap), the truncation repair re-reads from that same offset and counts the missing bytes from it; frames
are `(bucket, row, column)`, `first`/`last`/`avg` select frame 0 / −1 / the mean; the keys are the header fields of those names -/
theorem gen_zygo_layout (iw ih ib pw ph hdr ilen plen flen : Int) :
    zygoBuckets ib = modelBuckets ib ∧ zygoIlen iw ih ib = modelIlen iw ih ib ∧ zygoPlen pw ph = ph * pw ∧
    zygoIntOffset hdr = modelIntOffset hdr ∧ zygoIntCount ilen = ilen ∧ zygoIntDtype = "u16native" ∧
    zygoPhaseOffset hdr ilen = modelPhaseOffset hdr ilen ∧
    zygoPhaseOffset hdr ilen = zygoIntOffset hdr + 2 * zygoIntCount ilen ∧
    zygoExtOffset hdr ilen = zygoPhaseOffset hdr ilen ∧
    zygoMissing plen flen hdr ilen = 4 * zygoPhaseCount plen - (flen - zygoPhaseOffset hdr ilen) ∧
    zygoPhaseCount plen = plen ∧ zygoPhaseDtype = "i32big" ∧ zygoIntShape = ["ib", "ih", "iw"] ∧
    zygoFrameSel = modelFrameSel ∧
    zygoLayoutKeys = [("iw", "ac_width"), ("ih", "ac_height"), ("ib", "ac_n_buckets"), ("pw", "cn_width"), ("ph", "cn_height"),
      ("header_len", "header_size")] := by
  have hb : zygoBuckets ib = modelBuckets ib := by simp only [zygoBuckets, modelBuckets]
  refine ⟨hb, ?_, ?_, ?_, ?_, by decide, ?_, ?_, ?_, ?_, ?_, by decide, by decide, by decide, by decide⟩
  · simp only [zygoIlen, modelIlen, hb]
  · simp only [zygoPlen]; ring
  · simp only [zygoIntOffset, modelIntOffset]
  · simp only [zygoIntCount]
  · simp only [zygoPhaseOffset, modelPhaseOffset]
  · simp only [zygoPhaseOffset, zygoIntOffset, zygoIntCount, modelPhaseOffset, modelIntOffset] <;> ring
  · simp only [zygoPhaseOffset, zygoExtOffset, modelPhaseOffset]
  · simp only [zygoMissing, zygoPhaseOffset, zygoPhaseCount, modelMissing, modelPhaseOffset] <;> ring
  · simp only [zygoPhaseCount]

/-- the header offsets the model reader uses for the layout fields are those of the generated table (big-endian, 2/2/2/4 bytes) -/
theorem gen_layout_offsets :
    ((rowOf "ac_width").lo, (rowOf "ac_width").size, (rowOf "ac_width").endian) = (offAcWidth, 2, .big) ∧
    ((rowOf "ac_height").lo, (rowOf "ac_height").size, (rowOf "ac_height").endian) = (offAcHeight, 2, .big) ∧
    ((rowOf "ac_n_buckets").lo, (rowOf "ac_n_buckets").size, (rowOf "ac_n_buckets").endian) = (offAcBuckets, 2, .big) ∧
    ((rowOf "header_size").lo, (rowOf "header_size").size, (rowOf "header_size").endian) = (offHeaderSize, 4, .big) := by
  decide +kernel

/-- every file the library writes declares the layout it has: `header_size` reads back as 834 (the length of the header
the writer emits), the intensity block is declared empty (`ac_width = ac_height = ac_n_buckets = 0`), so the reader's phase
offset `header_size + 2·ilen` is 834, the first byte after the written header — for every map, spacing and wavelength -/
theorem zygo_written_layout (a : WArgs) (vals : List Float) :
    let f := zygoFile zygoTable zygoWriterSets a vals
    hdrU32 f offHeaderSize = headerLen ∧ hdrU16 f offAcWidth = 0 ∧ hdrU16 f offAcHeight = 0 ∧ hdrU16 f offAcBuckets = 0 ∧
    zygoPhaseOffset (hdrU32 f offHeaderSize) (zygoIlen (hdrU16 f offAcWidth) (hdrU16 f offAcHeight) (hdrU16 f offAcBuckets))
      = (headerBytes zygoTable zygoWriterSets a).length := by
  have h1 : hdrU32 (zygoFile zygoTable zygoWriterSets a vals) offHeaderSize = 834 := by
    refine field_u32 zygoTable zygoWriterSets header_sizes_match header_fields_disjoint (rowOf "header_size") _ _ a vals (by decide) (by decide +kernel) (by decide +kernel) (by decide +kernel) (by decide +kernel) ?_
    rw [show lookupSrc zygoWriterSets (rowOf "header_size").name = .keep from by decide +kernel]
    simp only [Src.raw, Row.rawDflt, show (rowOf "header_size").code = .u32 from by decide +kernel,
      show (rowOf "header_size").endian = .big from by decide +kernel, show (rowOf "header_size").dflt = .int 834 from by decide +kernel, packNum]
    try rfl
  have h2 : hdrU16 (zygoFile zygoTable zygoWriterSets a vals) offAcWidth = 0 := by
    refine field_u16 zygoTable zygoWriterSets header_sizes_match header_fields_disjoint (rowOf "ac_width") _ _ a vals (by decide) (by decide +kernel) (by decide +kernel) (by decide +kernel) (by decide +kernel) ?_
    rw [show lookupSrc zygoWriterSets (rowOf "ac_width").name = .keep from by decide +kernel]
    simp only [Src.raw, Row.rawDflt, show (rowOf "ac_width").code = .u16 from by decide +kernel,
      show (rowOf "ac_width").endian = .big from by decide +kernel, show (rowOf "ac_width").dflt = .int 0 from by decide +kernel, packNum]
    try rfl
  have h3 : hdrU16 (zygoFile zygoTable zygoWriterSets a vals) offAcHeight = 0 := by
    refine field_u16 zygoTable zygoWriterSets header_sizes_match header_fields_disjoint (rowOf "ac_height") _ _ a vals (by decide) (by decide +kernel) (by decide +kernel) (by decide +kernel) (by decide +kernel) ?_
    rw [show lookupSrc zygoWriterSets (rowOf "ac_height").name = .keep from by decide +kernel]
    simp only [Src.raw, Row.rawDflt, show (rowOf "ac_height").code = .u16 from by decide +kernel,
      show (rowOf "ac_height").endian = .big from by decide +kernel, show (rowOf "ac_height").dflt = .int 0 from by decide +kernel, packNum]
    try rfl
  have h4 : hdrU16 (zygoFile zygoTable zygoWriterSets a vals) offAcBuckets = 0 := by
    refine field_u16 zygoTable zygoWriterSets header_sizes_match header_fields_disjoint (rowOf "ac_n_buckets") _ _ a vals (by decide) (by decide +kernel) (by decide +kernel) (by decide +kernel) (by decide +kernel) ?_
    rw [show lookupSrc zygoWriterSets (rowOf "ac_n_buckets").name = .keep from by decide +kernel]
    simp only [Src.raw, Row.rawDflt, show (rowOf "ac_n_buckets").code = .u16 from by decide +kernel,
      show (rowOf "ac_n_buckets").endian = .big from by decide +kernel, show (rowOf "ac_n_buckets").dflt = .int 0 from by decide +kernel, packNum]
    try rfl
  intro f
  refine ⟨h1, h2, h3, h4, ?_⟩
  show zygoPhaseOffset (hdrU32 (zygoFile zygoTable zygoWriterSets a vals) offHeaderSize) _ = _
  rw [h1, h2, h3, h4, length_headerBytes]
  decide


/-- the general-layout reader over the GENERATED truncation arithmetic -/
def readCountsAtGen (hdr ilen : Nat) (f : List Nat) (n : Nat) : Option (List Int) :=
  readCountsAtG zygoMissing zygoBacktrack zygoTailLower zygoTailValue hdr ilen f n

theorem readCountsAtGen_eq : readCountsAtGen = readCountsAt := by
  funext hdr ilen f n
  simp only [readCountsAtGen, readCountsAt, gen_truncation.1, gen_truncation.2.1, gen_truncation.2.2.1, gen_truncation.2.2.2.1]

/-- an intensity block is transparent for the height map: whatever header length `hdr` and intensity block (`2·ilen`
bytes of ANY content) precede the phase block, the reader returns for the phase bytes `g` exactly what it returns for a
library-written file (834-byte header, no intensity) with the same phase bytes — complete or cut anywhere -/
theorem intensity_block_transparent (hdr ilen : Nat) (pre g : List Nat) (n : Nat) (hp : pre.length = hdr + ilen * 2)
    (hdr0 : List Nat) (h0 : hdr0.length = headerLen) :
    readCountsAtGen hdr ilen (pre ++ g) n = readCountsGen (hdr0 ++ g) n := by
  rw [readCountsAtGen_eq, readCountsGen_eq, readCountsAt_rebase hdr ilen pre g n hp]
  have := readCountsAt_rebase headerLen 0 hdr0 g n (by rw [h0]; omega)
  rw [← this]
  simp only [readCountsAt, readCountsAtG, readCounts, readCountsG, Nat.zero_mul, Nat.add_zero, Nat.cast_zero]

/-- truncation for files WITH an intensity block (instrument files; any header length): for EVERY cut point the reader
raises (cut inside the header or the intensity block) or warns and returns exactly the complete samples, all others invalid -/
theorem truncation_safe_layout (hdr ilen : Nat) (pre : List Nat) (s : List Int) (hp : pre.length = hdr + ilen * 2)
    (hs : ∀ j, j < s.length → -2147483648 ≤ s.getD j 0 ∧ s.getD j 0 < 2147483648)
    (k : Nat) (hk : k < hdr + ilen * 2 + 4 * s.length) :
    (k < hdr + ilen * 2 ∧ readCountsAtGen hdr ilen ((pre ++ bodyBytes s).take k) s.length = none) ∨
    (hdr + ilen * 2 ≤ k ∧ readWarnsAt hdr ilen ((pre ++ bodyBytes s).take k) s.length = true ∧
      ∃ r, readCountsAtGen hdr ilen ((pre ++ bodyBytes s).take k) s.length = some r ∧ r.length = s.length ∧
      ∀ j, j < s.length → r.getD j 0 = if hdr + ilen * 2 + 4 * (j + 1) ≤ k then s.getD j 0 else Generated.C14.zygoInvalid) := by
  have hlen : ((pre ++ bodyBytes s).take k).length = k := by
    rw [List.length_take, List.length_append, length_bodyBytes, hp]; omega
  by_cases hc : k < hdr + ilen * 2
  · left; refine ⟨hc, ?_⟩
    rw [readCountsAtGen_eq]
    simp only [readCountsAt, readCountsAtG, hlen, if_pos hc]
  · right
    have hc' : hdr + ilen * 2 ≤ k := by omega
    refine ⟨hc', ?_, ?_⟩
    · simp only [readWarnsAt, hlen, Bool.and_eq_true, decide_eq_true_eq]; exact ⟨hc', hk⟩
    · have htake : (pre ++ bodyBytes s).take k = pre ++ (bodyBytes s).take (k - (hdr + ilen * 2)) := by
        rw [List.take_append, ← hp]
        rw [List.take_of_length_le (by omega)]
      obtain ⟨z, hz⟩ : ∃ z : List Nat, z.length = headerLen := ⟨List.replicate headerLen 0, List.length_replicate⟩
      have htake0 : (z ++ bodyBytes s).take (headerLen + (k - (hdr + ilen * 2))) = z ++ (bodyBytes s).take (k - (hdr + ilen * 2)) := by
        rw [List.take_append, List.take_of_length_le (by omega), hz, Nat.add_sub_cancel_left]
      rw [htake, intensity_block_transparent hdr ilen pre _ s.length hp z hz, ← htake0]
      rcases truncation_safe z s hz hs (headerLen + (k - (hdr + ilen * 2))) (by omega) with h | ⟨h1, _, _, r, hr1, hr2, hr3⟩
      · omega
      · refine ⟨r, hr1, hr2, fun j hj => ?_⟩
        rw [hr3 j hj]
        by_cases hq : hdr + ilen * 2 + 4 * (j + 1) ≤ k
        · rw [if_pos hq, if_pos (by omega)]
        · rw [if_neg hq, if_neg (by omega)]

/-- … and the complete file reads back every sample without a warning, whatever the intensity block holds -/
theorem full_file_layout_reads_back (hdr ilen : Nat) (pre : List Nat) (s : List Int) (hp : pre.length = hdr + ilen * 2)
    (hs : ∀ j, j < s.length → -2147483648 ≤ s.getD j 0 ∧ s.getD j 0 < 2147483648) :
    ∃ r, readCountsAtGen hdr ilen (pre ++ bodyBytes s) s.length = some r ∧ r.length = s.length ∧
      (∀ j, j < s.length → r.getD j 0 = s.getD j 0) ∧ readWarnsAt hdr ilen (pre ++ bodyBytes s) s.length = false := by
  obtain ⟨z, hz⟩ : ∃ z : List Nat, z.length = headerLen := ⟨List.replicate headerLen 0, List.length_replicate⟩
  obtain ⟨r, h1, h2, h3, _⟩ := full_file_reads_back z s hz hs
  refine ⟨r, ?_, h2, h3, ?_⟩
  · rw [intensity_block_transparent hdr ilen pre _ s.length hp z hz]; exact h1
  · simp only [readWarnsAt, List.length_append, length_bodyBytes, hp]
    simp

example : readCountsAt 840 3 ((List.replicate 840 7 ++ intensityBytes [1, 2, 65535] ++ bodyBytes [5, -7]).take 851) 2
    = some [5, 2147483640] := by decide +kernel
example : readCountsAt 840 3 ((List.replicate 840 7 ++ intensityBytes [1, 2, 65535] ++ bodyBytes [5, -7]).take 845) 2 = none := by decide +kernel
example : (List.range 3).map (intensityAt (List.replicate 840 7 ++ intensityBytes [1, 2, 65535]) 840) = [1, 2, 65535] := by decide +kernel

/-! ## declared scaling factors and resolution codes (session 3) -/

/-- the resolution table of the source is the table the model reader looks the header code up in -/
theorem gen_phase_res_table : zygoPhaseRes = modelPhaseRes := by decide

/-- every resolution factor of the source's table is positive (so every declared step below is) -/
theorem phase_res_pos (res : Nat) (R : Int) (h : (res, R) ∈ zygoPhaseRes) : 0 < R := by
  simp only [zygoPhaseRes, List.mem_cons, Prod.mk.injEq, List.mem_nil_iff, or_false] at h
  omega

/-- declared factors: a file that declares scale factor `S`, obliquity `O` and a resolution code with factor `R` reads
every count as `S·O·32768/R` times what a library-written file (unit factors, code 1) reads for the same count — the
statement the correspondence checks on instrument-style files, here over the source's own scaling formula -/
theorem zygo_declared_factors (n W S O : ℚ) (res : Nat) (R : Int) (h : (res, R) ∈ zygoPhaseRes) :
    Generated.C14.zygoReadValue n W S O R = Generated.C14.zygoReadValue n W 1 1 phaseRes1 * (S * O * phaseRes1 / R) := by
  have hR : (0 : ℚ) < (R : ℚ) := by exact_mod_cast phase_res_pos res R h
  simp only [Generated.C14.zygoReadValue, Model.C14.zygoReadValue, phaseRes1]
  push_cast
  field_simp

/-- one quantisation step, for EVERY resolution code of the table and every declared positive scale / obliquity /
wavelength: counts `trunc(x / step)` with `step` = the value the reader gives one count read back within one step of `x`
(the library's writer is the case `S = O = 1`, code 1: `zygo_quant_error`) -/
theorem zygo_quant_error_any_resolution (x W S O : ℚ) (res : Nat) (R : Int) (h : (res, R) ∈ zygoPhaseRes)
    (hW : 0 < W) (hS : 0 < S) (hO : 0 < O) :
    |x - Generated.C14.zygoReadValue (truncRat (x / Generated.C14.zygoReadValue 1 W S O R)) W S O R|
      < Generated.C14.zygoReadValue 1 W S O R := by
  have hR : (0 : ℚ) < (R : ℚ) := by exact_mod_cast phase_res_pos res R h
  have hq : 0 < Generated.C14.zygoReadValue 1 W S O R := by
    simp only [Generated.C14.zygoReadValue, Model.C14.zygoReadValue]; positivity
  have e : ∀ n : ℚ, Generated.C14.zygoReadValue n W S O R = Generated.C14.zygoReadValue 1 W S O R * n := by
    intro n; simp only [Generated.C14.zygoReadValue, Model.C14.zygoReadValue]; ring
  rw [e]
  exact quant_error x _ hq

example : ((2 : Nat), (131072 : Int)) ∈ zygoPhaseRes := by decide
example : phaseResOf modelPhaseRes 3 = none ∧ phaseResOf modelPhaseRes 0 = some 4096 := by decide

/-! ## re-saving a loaded map; Code V wavelength units (session 3) -/

theorem truncRat_intCast (n : ℤ) : truncRat (n : ℚ) = n := by
  simp only [truncRat]; split_ifs <;> simp

/-- saving a map that was read from a file: in exact arithmetic the writer's counts of the reader's values are the
counts of the file again (`trunc(n·q / q) = n`), for every count, wavelength rounding and step — the one-count loss the
correspondence observes on re-saved interferograms (family `ifg.history`) is floating-point only and stays within one step -/
theorem zygo_requantise_exact (r32 : ℚ → ℚ) (wvl : ℚ) (n : ℤ) (hW : r32 (zygoWvlWrite wvl) ≠ 0) :
    truncRat (Generated.C14.zygoWritePre r32 (Generated.C14.zygoReadValue n (r32 (zygoWvlWrite wvl)) 1 1 phaseRes1) wvl) = n := by
  rw [zygo_step_consistent r32 _ wvl hW]
  have e : Generated.C14.zygoReadValue n (r32 (zygoWvlWrite wvl)) 1 1 phaseRes1
      / Generated.C14.zygoReadValue 1 (r32 (zygoWvlWrite wvl)) 1 1 phaseRes1 = (n : ℚ) := by
    simp only [Generated.C14.zygoReadValue, Model.C14.zygoReadValue, phaseRes1]
    push_cast
    field_simp
  rw [e, truncRat_intCast]

/-- Code V units: a file that declares a physical wavelength `w` with the scale given per that wavelength (`SSZ·w`)
reads every count as the same nanometres as the library's `WVL 1.0` file — over the source's own scaling formula -/
theorem codev_unit_invariant (n w ssz : ℚ) (hw : w ≠ 0) (hs : ssz ≠ 0) :
    Generated.C14.cvReadValue n w (ssz * w) = Generated.C14.cvReadValue n 1 ssz := by
  simp only [Generated.C14.cvReadValue, Model.C14.cvReadValue]
  field_simp

example : (fun y : ℚ => y) (zygoWvlWrite (6328 / 10000)) ≠ 0 := by norm_num [zygoWvlWrite]

/-! ## intensity read-back; Code V preamble (session 3) -/

/-- the intensity block reads back: sample `i` of a block of 16-bit values stored little-endian after a header (any prefix)
is the value stored, whatever follows the block -/
theorem intensity_roundtrip (pre v rest : List Nat) (hv : ∀ x ∈ v, x < 65536) (i : Nat) (hi : i < v.length) :
    intensityAt (pre ++ (intensityBytes v ++ rest)) pre.length i = v.getD i 0 :=
  C14L.intensity_roundtrip pre v rest hv i hi

/-- the comment loop of the source's Code V reader is the model's: strip blanks and tabs, test for `!`, skip to the character
after the next newline (raise when there is none); then title and header are the next two lines -/
theorem gen_codev_preamble :
    cvCommentStrip = cvStripChars.map Char.toNat ∧ cvCommentMarkerCode = Model.C14.cvCommentMarker.toNat ∧
    cvCommentLoopOk = true ∧ cvTitleHeaderSplit = true := by decide

/-- Code V preamble, over the strip characters and marker GENERATED from the source: any number of comment lines (each
starting, after those characters, with the marker) is skipped, the next line is the title, the next the header, the rest
the data block — for every title, header and data text -/
theorem codev_preamble_roundtrip (cs : List (List Char))
    (hc : ∀ l ∈ cs, isBangG (cvCommentStrip.map Char.ofNat) (Char.ofNat cvCommentMarkerCode) l = true ∧ '\n' ∉ l)
    (title hdr data : List Char) (ht : '\n' ∉ title) (hh : '\n' ∉ hdr)
    (hr : isBangG (cvCommentStrip.map Char.ofNat) (Char.ofNat cvCommentMarkerCode) (title ++ '\n' :: (hdr ++ '\n' :: data)) = false) :
    cvPreambleG (cvCommentStrip.map Char.ofNat) (Char.ofNat cvCommentMarkerCode)
      (cs.flatMap (· ++ ['\n']) ++ (title ++ '\n' :: (hdr ++ '\n' :: data))) = some (title, hdr, data) :=
  preamble_roundtrip _ _ cs hc title hdr data ht hh hr

example : cvPreamble [' ', '!', 'a', '\n', '!', '\n', 'T', ' ', '1', '\n', 'G', '\n', '5', '\n'] = some (['T', ' ', '1'], ['G'], ['5', '\n']) := by decide
example : cvPreamble ['!', ' ', 'a'] = none := by decide

/-! ## order-free Code V headers; frame selection (session 3, second pass) -/

/-- the keyword scan accepts ANY sequence of keyword groups (a keyword of the table followed by as many values as the table
says) — in any order, any number of them: acceptance does not depend on the order the writer happens to use -/
theorem acceptsHeader_groups (table : List (String × Nat)) (gs : List (String × List String))
    (h : ∀ g ∈ gs, ∃ p, table.find? (fun p => p.1 == g.1) = some p ∧ p.2 = g.2.length)
    (fuel : Nat) (hf : gs.length ≤ fuel) :
    acceptsHeader table fuel (gs.flatMap fun g => g.1 :: g.2) = true := by
  induction gs generalizing fuel with
  | nil => cases fuel <;> simp [acceptsHeader]
  | cons g gs ih =>
    cases fuel with
    | zero => simp at hf
    | succ f =>
      obtain ⟨p, hp, hl⟩ := h g (by simp)
      simp only [List.flatMap_cons, List.cons_append, acceptsHeader, hp, hl, List.length_append, List.drop_left]
      simp only [ge_iff_le, Nat.le_add_right, decide_true, Bool.true_and]
      exact ih (fun x hx => h x (by simp [hx])) f (by simpa using hf)

/-- Code V headers in any keyword order: every header made of keyword groups of the reader's GENERATED table is accepted,
whatever their order (the writer's order, any permutation of it, other programs' orders); the keyword test of the source
is on the upper-cased token (the translator only recognises `params[i].upper() == KEY` tests), so case is immaterial too -/
theorem codev_header_order_free (gs : List (String × List String))
    (h : ∀ g ∈ gs, cvReaderTokens.find? (fun p => p.1 == g.1) = some (g.1, g.2.length)) :
    acceptsHeader cvReaderTokens gs.length (gs.flatMap fun g => g.1 :: g.2) = true :=
  acceptsHeader_groups cvReaderTokens gs (fun g hg => ⟨_, h g hg, rfl⟩) gs.length (Nat.le_refl _)

example : ∀ g ∈ [("NDA", ["-32768"]), ("SSZ", ["2.5"]), ("WVL", ["0.5"]), ("SUR", []), ("GRD", ["3", "2"])],
    cvReaderTokens.find? (fun p => p.1 == g.1) = some (g.1, g.2.length) := by decide

/-- frame selection over the GENERATED action table: `first` returns frame 0 and `last` frame `ib − 1` of the `ib ≥ 1` frames
of `px` pixels each (Python index −1), `avg` is the per-pixel mean branch -/
theorem select_frame_first_last (ib px : Nat) (raw : Array Nat) (hib : 1 ≤ ib) :
    (zygoFrameSel.lookup "first").map (fun s => selectFrame s ib px raw)
      = some ((List.range px).map fun i => Float.ofNat (raw.getD (0 * px + i) 0)) ∧
    (zygoFrameSel.lookup "last").map (fun s => selectFrame s ib px raw)
      = some ((List.range px).map fun i => Float.ofNat (raw.getD ((ib - 1) * px + i) 0)) ∧
    zygoFrameSel.lookup "avg" = some none := by
  have e : zygoFrameSel = modelFrameSel := by decide
  have h1 : (((ib : Int) + -1).toNat) = ib - 1 := by omega
  rw [e]
  refine ⟨?_, ?_, by decide⟩
  · simp [modelFrameSel, List.lookup, selectFrame]
  · simp [modelFrameSel, List.lookup, selectFrame, h1]
end C14
