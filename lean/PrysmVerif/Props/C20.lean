import PrysmVerif.Generated.C20
import PrysmVerif.Lemmas.C20Jones
import PrysmVerif.Lemmas.C20Mueller
import PrysmVerif.Lemmas.C20Cone
import Mathlib.Analysis.SpecialFunctions.Trigonometric.Basic
import Mathlib.Analysis.SpecialFunctions.Exp
/-!
# C20 — Jones and Mueller calculus preserve the algebra of polarisation optics

Definitions under `Generated.C20` are regenerated from `prysm/x/polarization.py` on every run: each constructor is the
chain of entry writes the source performs on the zero matrix, followed by the products the source forms.
`c s` stand for `cos θ, sin θ`, `u` for `e^{iδ}`, `ch sh` for `cos(δ/2), sin(δ/2)`, `mI` for `-i`; every theorem holds
for all values with the stated laws (`c² + s² = 1`, `u ū = 1`, `mI² = -1`, reality `star x = x`).
-/
set_option linter.unusedTactic false
set_option linter.unreachableTactic false
set_option linter.unusedVariables false
set_option linter.unusedSimpArgs false
set_option linter.unusedSectionVars false
set_option linter.unnecessarySeqFocus false

namespace C20
open Generated.C20 C17Num C20Jones
open Model.C20 (M22 V2)

/-! ## translated obligations -/
section gen
variable {K : Type} [Field K]

theorem gen_rot (c s : K) : rotTable c s = Model.C20.rot c s := by
  simp [rotTable, Model.C20.rot, M22.set, M22.zero]

theorem gen_retarder (u c s : K) : retarder u c s = Model.C20.retarder u c s := by
  simp only [retarder, gen_rot, Model.C20.retarder, Model.C20.sandwich, M22.set, M22.zero, ofInt_eq]

theorem gen_diattenuator (α c s : K) : diattenuator α c s = Model.C20.diattenuator α c s := by
  simp only [diattenuator, gen_rot, Model.C20.diattenuator, Model.C20.sandwich, M22.set, M22.zero, ofInt_eq]

/-- the isotropic term `-i cos(δ/2)` is written to BOTH diagonal entries -/
theorem gen_vortex (mI ch sh c s cr sr : K) : vortex mI ch sh c s cr sr = Model.C20.vortex mI ch sh c s cr sr := by
  simp only [vortex, gen_rot, Model.C20.vortex, Model.C20.sandwich, M22.set, M22.zero, ofInt_eq]

/-- half- and quarter-wave plates are linear retarders of retardance `π`, `π/2`; the polariser is the diattenuator
with `α = 0` -/
theorem gen_wrappers (pi : K) : hwpRetardance pi = pi ∧ qwpRetardance pi = pi / 2 ∧ polarizerAlpha pi = 0 := by
  refine ⟨?_, ?_, ?_⟩ <;> simp [hwpRetardance, qwpRetardance, polarizerAlpha]

theorem gen_muellerU (I : K) : muellerU I = Model.C20.muellerU I := by
  funext r c
  rcases r with _ | _ | _ | _ | r <;> rcases c with _ | _ | _ | _ | c <;> simp [muellerU, Model.C20.muellerU]

theorem gen_pauli (I : K) (k : Nat) : pauliTable I k = Model.C20.pauli I k := by
  rcases k with _ | _ | _ | k <;> simp [pauliTable, Model.C20.pauli, M22.set, M22.zero]

theorem gen_pauliCoeff (I : K) (J : M22 K) (k : Nat) : pauliCoeff I J k = Model.C20.pauliCoeff I J k := by
  rcases k with _ | _ | _ | k <;> simp [pauliCoeff, Model.C20.pauliCoeff]

/-- documented default arguments: orientation 0 for every element, vortex retardance `π` and rotation 0, broadcast path -/
theorem gen_defaults (pi : K) :
    retarderThetaDefault pi = 0 ∧ diattenuatorThetaDefault pi = 0 ∧ hwpThetaDefault pi = 0 ∧ qwpThetaDefault pi = 0 ∧
    polarizerThetaDefault pi = 0 ∧ vortexRetardanceDefault pi = pi ∧ vortexRotateDefault pi = 0 ∧
    muellerBroadcastDefault = true := by
  refine ⟨?_, ?_, ?_, ?_, ?_, ?_, ?_, by decide⟩ <;>
    simp [retarderThetaDefault, diattenuatorThetaDefault, hwpThetaDefault, qwpThetaDefault, polarizerThetaDefault,
      vortexRetardanceDefault, vortexRotateDefault]

end gen

/-- structure of the source, three-valued recognisers (`false` = recognised and wrong, e.g. kron operands swapped or an einsum that is not
the Kronecker ordering; an unrecognised shape makes the item `untranslatable`, is reported as TIE-DEGRADED and widens the
correspondence instead): `_empty_jones` is all zeros; `jones_to_mueller` returns `real(U @ kron(conj J, J) @ inv U)` in both
the broadcast and the `np.kron` branch; `broadcast_kron` is the Kronecker product; a 2-D (scalar) field passes through
the adapter unchanged; the five documented propagation routines are supported -/
theorem gen_structure :
    emptyJonesIsZeros = true ∧ muellerIsRealOfUKronConjJJUinv = true ∧ broadcastKronIsKronecker = true ∧
    adapterScalarPassThrough = true ∧
    (∀ f ∈ ["focus", "unfocus", "focus_fixed_sampling", "unfocus_fixed_sampling", "angular_spectrum"], f ∈ supportedFuncs) := by
  decide

/-! ## rotations -/
section jones
variable {K : Type} [Field K]

/-- `R(θ) R(θ)ᵀ = 1`, `det R(θ) = 1` -/
theorem rotation_orthogonal (c s : K) (h : c ^ 2 + s ^ 2 = 1) :
    (rotTable c s).mul (rotTable c s).transpose = M22.one ∧
    (rotTable c s).a * (rotTable c s).d - (rotTable c s).b * (rotTable c s).c = 1 := by
  rw [gen_rot]
  refine ⟨?_, ?_⟩
  · apply M22.ext' <;> simp only [Model.C20.rot, M22.mul, M22.transpose, M22.one, ofInt_eq] <;> push_cast <;>
      first | ring1 | linear_combination h
  · simp only [Model.C20.rot]; linear_combination h

/-- rotations compose by the angle-addition formulas (so they form a group; `R(-θ) = R(θ)⁻¹`) -/
theorem rotation_compose (c s c' s' : K) :
    (rotTable c s).mul (rotTable c' s') = rotTable (c * c' - s * s') (s * c' + c * s') := by
  simp only [gen_rot, rot_mul]

/-! ## retarders -/

/-- every linear retarder (hence every half- and quarter-wave plate) is unitary, for all retardances and orientations -/
theorem retarder_unitary [StarRing K] (u c s : K) (hc : star c = c) (hs : star s = s) (h : c ^ 2 + s ^ 2 = 1)
    (hu : u * star u = 1) :
    (retarder u c s).mul (conjT (retarder u c s)) = M22.one ∧ (conjT (retarder u c s)).mul (retarder u c s) = M22.one := by
  simp only [retarder, gen_rot]
  constructor
  · apply sandwich_unitary c s hc hs h
    apply M22.ext' <;> simp [M22.mul, conjT, M22.one, M22.set, M22.zero, hu]
  · apply sandwich_unitary' c s hc hs h
    apply M22.ext' <;> simp [M22.mul, conjT, M22.one, M22.set, M22.zero, mul_comm (star u) u, hu]

/-- the vector vortex retarder is unitary for every charge, azimuth, retardance and rotation -/
theorem vortex_unitary [StarRing K] (mI ch sh c s cr sr : K) (hI : mI ^ 2 = -1) (hIs : star mI = -mI)
    (hch : star ch = ch) (hsh : star sh = sh) (hc : star c = c) (hs : star s = s) (hcr : star cr = cr) (hsr : star sr = sr)
    (hd : ch ^ 2 + sh ^ 2 = 1) (ht : c ^ 2 + s ^ 2 = 1) (hr : cr ^ 2 + sr ^ 2 = 1) :
    (vortex mI ch sh c s cr sr).mul (conjT (vortex mI ch sh c s cr sr)) = M22.one ∧
    (conjT (vortex mI ch sh c s cr sr)).mul (vortex mI ch sh c s cr sr) = M22.one := by
  simp only [vortex, gen_rot]
  constructor
  · apply sandwich_unitary cr sr hcr hsr hr
    apply M22.ext' <;>
      simp only [M22.mul, M22.add, M22.smul, M22.set, M22.zero, conjT, M22.one, ofInt_eq, star_add, star_mul', star_neg, hIs, hch, hsh, hc, hs, Int.cast_zero, Int.cast_one, star_one,
        star_zero] <;> push_cast
    · linear_combination sh ^ 2 * ht + hd - ch ^ 2 * hI
    · ring
    · ring
    · linear_combination sh ^ 2 * ht + hd - ch ^ 2 * hI
  · apply sandwich_unitary' cr sr hcr hsr hr
    apply M22.ext' <;>
      simp only [M22.mul, M22.add, M22.smul, M22.set, M22.zero, conjT, M22.one, ofInt_eq, star_add, star_mul', star_neg, hIs, hch, hsh, hc, hs, Int.cast_zero, Int.cast_one, star_one,
        star_zero] <;> push_cast
    · linear_combination sh ^ 2 * ht + hd - ch ^ 2 * hI
    · ring
    · ring
    · linear_combination sh ^ 2 * ht + hd - ch ^ 2 * hI

/-- retarders with a common axis compose by multiplying their phases: two quarter-wave plates make a half-wave plate,
and a half-wave plate (`u = -1`) is an involution -/
theorem retarder_compose (u v c s : K) (h : c ^ 2 + s ^ 2 = 1) :
    (retarder u c s).mul (retarder v c s) = retarder (u * v) c s ∧
    (retarder (-1) c s).mul (retarder (-1) c s) = M22.one := by
  have key : ∀ u v : K, (retarder u c s).mul (retarder v c s) = retarder (u * v) c s := by
    intro u v
    simp only [gen_retarder, Model.C20.retarder, Model.C20.sandwich]
    calc (((Model.C20.rot c (-s)).mul ⟨Num.ofInt 1, Num.ofInt 0, Num.ofInt 0, u⟩).mul (Model.C20.rot c s)).mul
          (((Model.C20.rot c (-s)).mul ⟨Num.ofInt 1, Num.ofInt 0, Num.ofInt 0, v⟩).mul (Model.C20.rot c s))
        = (Model.C20.rot c (-s)).mul ((⟨Num.ofInt 1, Num.ofInt 0, Num.ofInt 0, u⟩ : M22 K).mul
            (((Model.C20.rot c s).mul (Model.C20.rot c (-s))).mul
              ((⟨Num.ofInt 1, Num.ofInt 0, Num.ofInt 0, v⟩ : M22 K).mul (Model.C20.rot c s)))) := by
          simp only [m_mul_assoc]
      _ = ((Model.C20.rot c (-s)).mul ⟨Num.ofInt 1, Num.ofInt 0, Num.ofInt 0, u * v⟩).mul (Model.C20.rot c s) := by
          rw [rot_mul_neg c s h, m_one_mul, ← m_mul_assoc, ← m_mul_assoc]
          congr 1
          rw [m_mul_assoc]
          congr 1
          apply M22.ext' <;> simp [M22.mul]
  refine ⟨key u v, ?_⟩
  rw [key]
  simp only [gen_retarder, Model.C20.retarder, Model.C20.sandwich]
  have e : (⟨Num.ofInt 1, Num.ofInt 0, Num.ofInt 0, (-1 : K) * -1⟩ : M22 K) = M22.one := by
    apply M22.ext' <;> simp [M22.one]
  rw [e, m_mul_one, rot_neg_mul c s h]

/-! ## diattenuators and polarisers -/

/-- closed form of the rotated diattenuator -/
theorem diattenuator_form (α c s : K) :
    diattenuator α c s = ⟨c ^ 2 + α * s ^ 2, (1 - α) * (c * s), (1 - α) * (c * s), s ^ 2 + α * c ^ 2⟩ := by
  rw [gen_diattenuator]
  apply M22.ext' <;> simp only [Model.C20.diattenuator, Model.C20.sandwich, Model.C20.rot, M22.mul, ofInt_eq] <;>
    push_cast <;> ring

/-- an ideal polariser is idempotent, at every orientation -/
theorem polarizer_idempotent (pi c s : K) (h : c ^ 2 + s ^ 2 = 1) :
    (diattenuator (polarizerAlpha pi) c s).mul (diattenuator (polarizerAlpha pi) c s) = diattenuator (polarizerAlpha pi) c s := by
  rw [(gen_wrappers pi).2.2, diattenuator_form]
  apply M22.ext' <;> simp only [M22.mul] <;> ring_nf
  · linear_combination (c ^ 2) * h
  · linear_combination (c * s) * h
  · linear_combination (c * s) * h
  · linear_combination (s ^ 2) * h

/-- Malus: a polariser at `θ` maps the field `(x, y)` to `(c x + s y)·(c, s)`; the transmitted intensity of a real field is
`(c x + s y)²` — `cos² θ` for `x`-polarised light, `cos²(θ - φ)` for light polarised at `φ` -/
theorem malus (pi c s x y : K) (h : c ^ 2 + s ^ 2 = 1) :
    let P := diattenuator (polarizerAlpha pi) c s
    (P.a * x + P.b * y = (c * x + s * y) * c ∧ P.c * x + P.d * y = (c * x + s * y) * s) ∧
    (P.a * x + P.b * y) ^ 2 + (P.c * x + P.d * y) ^ 2 = (c * x + s * y) ^ 2 ∧
    (P.a * 1 + P.b * 0) ^ 2 + (P.c * 1 + P.d * 0) ^ 2 = c ^ 2 := by
  simp only [(gen_wrappers pi).2.2, diattenuator_form]
  refine ⟨⟨by ring, by ring⟩, ?_, ?_⟩
  · linear_combination ((c * x + s * y) ^ 2) * h
  · linear_combination (c ^ 2) * h

/-! ## rotating an element = conjugating it with the rotation matrix -/

/-- `element(θ) = R(-θ) · element(0) · R(θ)` for retarders and diattenuators (`cos 0 = 1`, `sin 0 = 0`).  For these two the
source BUILDS the element this way, so this is close to a restatement of the generated definition (what it adds is that the
un-rotated element really is the bare diagonal core); the content of the clause is in `rotate_compose` and, for the vortex
retarder, in `vortex_rotate_eq_conj`. -/
theorem rotate_eq_conj (u α c s : K) :
    retarder u c s = ((rotTable c (-s)).mul (retarder u 1 0)).mul (rotTable c s) ∧
    diattenuator α c s = ((rotTable c (-s)).mul (diattenuator α 1 0)).mul (rotTable c s) := by
  simp only [gen_retarder, gen_diattenuator, gen_rot]
  constructor <;> apply M22.ext' <;>
    simp only [Model.C20.retarder, Model.C20.diattenuator, Model.C20.sandwich, Model.C20.rot, M22.mul, ofInt_eq] <;>
    push_cast <;> ring

/-- rotating an already rotated element adds the angles -/
theorem rotate_compose (u α c s c' s' : K) :
    ((rotTable c' (-s')).mul (retarder u c s)).mul (rotTable c' s') = retarder u (c * c' - s * s') (s * c' + c * s') ∧
    ((rotTable c' (-s')).mul (diattenuator α c s)).mul (rotTable c' s') =
      diattenuator α (c * c' - s * s') (s * c' + c * s') := by
  simp only [gen_retarder, gen_diattenuator, gen_rot]
  constructor <;> apply M22.ext' <;>
    simp only [Model.C20.retarder, Model.C20.diattenuator, Model.C20.sandwich, Model.C20.rot, M22.mul, ofInt_eq] <;>
    push_cast <;> ring

/-- the `rotate` argument of the vector vortex retarder conjugates the un-rotated element with the rotation matrix:
`vortex(…, rotate = ρ) = R(-ρ) · vortex(…, rotate = 0) · R(ρ)` (over the generated chain of writes and products) -/
theorem vortex_rotate_eq_conj (mI ch sh c s cr sr : K) :
    vortex mI ch sh c s cr sr = ((rotTable cr (-sr)).mul (vortex mI ch sh c s 1 0)).mul (rotTable cr sr) := by
  simp only [vortex, gen_rot]
  apply M22.ext' <;>
    simp only [Model.C20.vortex, Model.C20.sandwich, Model.C20.rot, M22.mul, M22.add, M22.smul, M22.set, M22.zero, ofInt_eq] <;>
    push_cast <;> ring

/-! ## Pauli decomposition -/

/-- `Σ_k c_k σ_k = J` for an arbitrary 2×2 matrix (`I² = -1`, characteristic ≠ 2) -/
theorem pauli_reconstruct (I : K) (hI : I ^ 2 = -1) (h2 : (2 : K) ≠ 0) (J : M22 K) :
    (((M22.smul (pauliCoeff I J 0) (pauliTable I 0)).add (M22.smul (pauliCoeff I J 1) (pauliTable I 1))).add
      (M22.smul (pauliCoeff I J 2) (pauliTable I 2))).add (M22.smul (pauliCoeff I J 3) (pauliTable I 3)) = J := by
  simp only [gen_pauli, gen_pauliCoeff]
  apply M22.ext' <;> simp only [Model.C20.pauli, Model.C20.pauliCoeff, M22.smul, M22.add, ofInt_eq] <;> push_cast <;>
    field_simp
  · ring
  · linear_combination (J.c - J.b) * hI
  · linear_combination (J.b - J.c) * hI
  · ring

end jones

/-! ## the propagation adapter -/

/-- the adapter reads each of the four components exactly once and writes result `k` back to the entry it was read from -/
theorem gen_adapter :
    adapterWrites = adapterReads ∧ adapterReads.Nodup ∧ adapterReads.length = 4 ∧
    (∀ p ∈ adapterReads, p.1 < 2 ∧ p.2 < 2) := by decide

/-- hence polarised propagation is the scalar propagator applied to each Jones component, reassembled in place -/
theorem adapter_componentwise {α β : Type} [Num α] [Num β] (prop : α → β) (J : M22 α) (z : β) :
    let outs := adapterReads.map fun p => prop (J.get p.1 p.2)
    let out := (adapterWrites.zip outs).foldl (fun (m : M22 β) w => m.set w.1.1 w.1.2 w.2) ⟨z, z, z, z⟩
    out = Model.C20.adapter prop J := by
  simp [adapterReads, adapterWrites, M22.set, M22.get, Model.C20.adapter, M22.map]

/-! ## Jones → Mueller -/
section mueller
open C20Mueller Matrix Complex

/-- `Re (U (J̄ ⊗ J) U⁻¹)` with the generated `U` -/
noncomputable def muellerOf (J : M22 ℂ) : Matrix (Fin 4) (Fin 4) ℝ := muellerU (Generated.C20.muellerU Complex.I) (toMat J)

theorem muellerOf_eq (J : M22 ℂ) : muellerOf J = mueller (toMat J) := by
  simp only [muellerOf, gen_muellerU]

/-- the generated `U` (before scaling) satisfies `U · Uᴴ/2 = 1`, i.e. `U/√2` is unitary -/
theorem mueller_basis_unitary :
    Umat (Generated.C20.muellerU Complex.I) * Vmat (Generated.C20.muellerU Complex.I) = 1 ∧
    Vmat (Generated.C20.muellerU Complex.I) * Umat (Generated.C20.muellerU Complex.I) = 1 := by
  rw [gen_muellerU]; exact ⟨U_mul_V, V_mul_U⟩

/-- `U (J̄ ⊗ J) U⁻¹` is a real matrix for every complex `J` (so taking the real part loses nothing) -/
theorem mueller_real (J : M22 ℂ) (i j : Fin 4) :
    (muellerCU (Generated.C20.muellerU Complex.I) (toMat J) i j).im = 0 := by
  rw [gen_muellerU]; exact muellerC_real (toMat J) i j

/-- the Jones → Mueller map is multiplicative, and maps the identity to the identity -/
theorem mueller_mul (A B : M22 ℂ) :
    muellerOf (A.mul B) = muellerOf A * muellerOf B ∧ muellerOf (M22.one : M22 ℂ) = 1 := by
  simp only [muellerOf_eq, toMat_mul, toMat_one]
  refine ⟨C20Mueller.mueller_mul _ _, ?_⟩
  have h := muellerC_one
  rw [muellerC_eq_ofReal] at h
  ext i j
  have hij := congrFun (congrFun h i) j
  simp only [Matrix.map_apply, Matrix.one_apply] at hij ⊢
  apply Complex.ofReal_injective
  rw [hij]; split <;> simp

/-- a unitary Jones matrix has an orthogonal Mueller matrix with `M₀₀ = 1` -/
theorem unitary_to_orthogonal (J : M22 ℂ) (h : J.mul (conjT J) = M22.one) :
    muellerOf J * (muellerOf J)ᵀ = 1 ∧ muellerOf J 0 0 = 1 := by
  have h' : toMat J * (toMat J)ᴴ = 1 := by rw [← toMat_conjT, ← toMat_mul, h, toMat_one]
  simp only [muellerOf_eq]
  exact ⟨mueller_orthogonal _ h', mueller_00 _ h'⟩

/-! ### composed corollaries with the real functions (`c = cos θ`, `s = sin θ`, `u = e^{iδ}`, `mI = -i`) -/

theorem star_ofReal' (x : ℝ) : star ((x : ℝ) : ℂ) = x := by rw [Complex.star_def, Complex.conj_ofReal]

theorem cos_sq_add_sin_sq' (θ : ℝ) : ((Real.cos θ : ℝ) : ℂ) ^ 2 + ((Real.sin θ : ℝ) : ℂ) ^ 2 = 1 := by
  exact_mod_cast Real.cos_sq_add_sin_sq θ

theorem exp_mul_star (δ : ℝ) : Complex.exp (δ * I) * star (Complex.exp (δ * I)) = 1 := by
  rw [Complex.star_def, ← Complex.exp_conj, ← Complex.exp_add]; simp

/-- the Mueller matrix of EVERY linear retarder the library builds (retardance `δ`, orientation `θ`) is orthogonal with
`M₀₀ = 1` -/
theorem retarder_mueller_orthogonal (δ θ : ℝ) :
    let J := retarder (Complex.exp (δ * I)) ((Real.cos θ : ℝ) : ℂ) ((Real.sin θ : ℝ) : ℂ)
    muellerOf J * (muellerOf J)ᵀ = 1 ∧ muellerOf J 0 0 = 1 :=
  unitary_to_orthogonal _ (retarder_unitary _ _ _ (star_ofReal' _) (star_ofReal' _) (cos_sq_add_sin_sq' θ) (exp_mul_star δ)).1

/-- the same for the vector vortex retarder of every charge `q`, azimuth `θ`, retardance `δ` and rotation `ρ` -/
theorem vortex_mueller_orthogonal (q θ δ ρ : ℝ) :
    let J := vortex (-I) ((Real.cos (δ / 2) : ℝ) : ℂ) ((Real.sin (δ / 2) : ℝ) : ℂ) ((Real.cos (θ * q) : ℝ) : ℂ)
      ((Real.sin (θ * q) : ℝ) : ℂ) ((Real.cos ρ : ℝ) : ℂ) ((Real.sin ρ : ℝ) : ℂ)
    muellerOf J * (muellerOf J)ᵀ = 1 ∧ muellerOf J 0 0 = 1 :=
  unitary_to_orthogonal _ (vortex_unitary _ _ _ _ _ _ _ (by simp) (by simp) (star_ofReal' _) (star_ofReal' _) (star_ofReal' _)
    (star_ofReal' _) (star_ofReal' _) (star_ofReal' _) (cos_sq_add_sin_sq' _) (cos_sq_add_sin_sq' _) (cos_sq_add_sin_sq' _)).1

/-- the wave plates with the retardances the source passes on: `e^{iπ} = -1`, `e^{iπ/2} = i`; hence a half-wave plate is an
involution and two quarter-wave plates make a half-wave plate, at every orientation -/
theorem wave_plates (θ : ℝ) :
    let c := ((Real.cos θ : ℝ) : ℂ); let s := ((Real.sin θ : ℝ) : ℂ)
    let uh := Complex.exp ((hwpRetardance (Real.pi : ℂ)) * I); let uq := Complex.exp ((qwpRetardance (Real.pi : ℂ)) * I)
    uh = -1 ∧ uq = I ∧ (retarder uh c s).mul (retarder uh c s) = M22.one ∧
    (retarder uq c s).mul (retarder uq c s) = retarder uh c s := by
  intro c s uh uq
  have hh : uh = -1 := by
    simp only [uh, (gen_wrappers (Real.pi : ℂ)).1]; exact Complex.exp_pi_mul_I
  have hq : uq = I := by
    simp only [uq, (gen_wrappers (Real.pi : ℂ)).2.1]; exact Complex.exp_pi_div_two_mul_I
  have hcs : c ^ 2 + s ^ 2 = 1 := cos_sq_add_sin_sq' θ
  refine ⟨hh, hq, ?_, ?_⟩
  · rw [hh]; exact (retarder_compose (-1) (-1) c s hcs).2
  · rw [(retarder_compose uq uq c s hcs).1, hq, hh]; congr 1; simp

end mueller

/-! ## Jones vectors and Malus' law with the library's own constructors (Session 3) -/

section vectors
variable {K : Type} [Field K]

omit [Field K] in
theorem V2.ext' {u v : V2 K} (hx : u.x = v.x) (hy : u.y = v.y) : u = v := by
  cases u; cases v; simp_all

/-- translated obligation: `linear_pol_vector` writes `(cos φ, sin φ)` in BOTH the array and the scalar branch, converts degrees by
`φ·π/180` before taking cos / sin, and degrees are the default unit -/
theorem gen_linpol (pi φ c s : K) :
    linPolArray c s = Model.C20.linPol c s ∧ linPolScalar c s = Model.C20.linPol c s ∧
    linPolAngleFromDegrees pi φ = φ * pi / 180 ∧ linPolDegreesDefault = true := by
  refine ⟨?_, ?_, ?_, by decide⟩
  · apply V2.ext' <;> simp [linPolArray, Model.C20.linPol, V2.set, V2.zero]
  · apply V2.ext' <;> simp [linPolScalar, Model.C20.linPol, V2.set, V2.zero]
  · simp only [linPolAngleFromDegrees, ofInt_eq]; push_cast; ring

/-- translated obligation: `circular_pol_vector` writes `(1, i)/√2` for 'left' (the default), `(1, -i)/√2` for 'right', and rejects
any other handedness -/
theorem gen_circpol (I r2 : K) (left : Bool) :
    circPol I r2 left = Model.C20.circPol I r2 left ∧ circDefaultLeft = true ∧ circUnknownHandednessRaises = true := by
  refine ⟨?_, by decide, by decide⟩
  cases left <;> apply V2.ext' <;> simp [circPol, Model.C20.circPol, V2.set, V2.zero]

/-- the Jones vectors the library builds have unit intensity; the two circular states are orthogonal (`r2 = √2`, `I = i`) -/
theorem pol_vectors_unit [StarRing K] (c s I r2 : K) (h : c ^ 2 + s ^ 2 = 1) (hc : star c = c) (hs : star s = s)
    (hI : I ^ 2 = -1) (hIs : star I = -I) (hr : r2 ^ 2 = 2) (hrs : star r2 = r2) (h2 : (2 : K) ≠ 0) :
    (star (linPolArray c s).x * (linPolArray c s).x + star (linPolArray c s).y * (linPolArray c s).y = 1) ∧
    (∀ left, star (circPol I r2 left).x * (circPol I r2 left).x + star (circPol I r2 left).y * (circPol I r2 left).y = 1) ∧
    star (circPol I r2 true).x * (circPol I r2 false).x + star (circPol I r2 true).y * (circPol I r2 false).y = 0 := by
  have hr0 : r2 ≠ 0 := by intro h0; rw [h0] at hr; simp at hr; exact h2 hr.symm
  refine ⟨?_, ?_, ?_⟩
  · rw [(gen_linpol 0 0 c s).1]; simp only [Model.C20.linPol, hc, hs]; linear_combination h
  · intro left
    rw [(gen_circpol I r2 left).1]
    cases left <;> simp only [Model.C20.circPol, ↓reduceIte, Bool.false_eq_true, ofInt_eq, star_div₀, star_neg, hIs, hrs, Int.cast_one, star_one] <;>
      field_simp <;> linear_combination -hI - hr
  · rw [(gen_circpol I r2 true).1, (gen_circpol I r2 false).1]
    simp only [Model.C20.circPol, ↓reduceIte, Bool.false_eq_true, ofInt_eq, star_div₀, star_neg, hIs, hrs, Int.cast_one, star_one]
    field_simp; linear_combination hI

/-- Malus' law with the library's own constructors: an ideal polariser at `θ` (`c s`) maps light linearly polarised at `φ`
(`c' s'`, as `linear_pol_vector` builds it) to `(c c' + s s')·(c, s)`, transmitted intensity `(c c' + s s')²` -/
theorem malus_pol_vector (pi c s c' s' : K) (h : c ^ 2 + s ^ 2 = 1) :
    let out := (diattenuator (polarizerAlpha pi) c s).mulVec (linPolArray c' s')
    out = V2.smul (c * c' + s * s') (linPolArray c s) ∧ out.x ^ 2 + out.y ^ 2 = (c * c' + s * s') ^ 2 := by
  obtain ⟨⟨h1, h2⟩, h3, _⟩ := malus pi c s c' s' h
  simp only [(gen_linpol 0 0 c' s').1, (gen_linpol 0 0 c s).1, Model.C20.linPol, M22.mulVec, V2.smul] at *
  refine ⟨?_, h3⟩
  apply V2.ext' <;> simp only [h1, h2] <;> ring

/-- an ideal polariser transmits half of circularly polarised light, at every orientation and for both handednesses -/
theorem polarizer_on_circular [StarRing K] (pi c s I r2 : K) (left : Bool) (h : c ^ 2 + s ^ 2 = 1) (hc : star c = c) (hs : star s = s)
    (hI : I ^ 2 = -1) (hIs : star I = -I) (hr : r2 ^ 2 = 2) (hrs : star r2 = r2) (h2 : (2 : K) ≠ 0) :
    let out := (diattenuator (polarizerAlpha pi) c s).mulVec (circPol I r2 left)
    star out.x * out.x + star out.y * out.y = 1 / 2 := by
  have hr0 : r2 ≠ 0 := by intro h0; rw [h0] at hr; simp at hr; exact h2 hr.symm
  simp only [(gen_wrappers pi).2.2, diattenuator_form, (gen_circpol I r2 left).1]
  cases left <;>
    simp only [Model.C20.circPol, ↓reduceIte, Bool.false_eq_true, M22.mulVec, ofInt_eq, Int.cast_one, star_add, star_mul', star_div₀, star_neg, star_sub, star_pow, star_one,
      star_zero, hc, hs, hIs, hrs] <;> field_simp <;> ring_nf
  all_goals linear_combination (-2 * (c ^ 2 * s ^ 2 + s ^ 4)) * hI + 2 * (c ^ 2 + s ^ 2 + 1) * h - hr
end vectors

/-- Malus' law in its textbook form, with the real cosine: polariser at `θ`, input linearly polarised at `φ` as the library builds
it: transmitted intensity `cos²(θ - φ)` -/
theorem malus_cos_sq (θ φ : ℝ) :
    let out := (diattenuator (polarizerAlpha Real.pi) (Real.cos θ) (Real.sin θ)).mulVec (linPolArray (Real.cos φ) (Real.sin φ))
    out.x ^ 2 + out.y ^ 2 = Real.cos (θ - φ) ^ 2 := by
  intro out
  rw [(malus_pol_vector Real.pi _ _ (Real.cos φ) (Real.sin φ) (Real.cos_sq_add_sin_sq θ)).2, Real.cos_sub]

/-- non-vacuity of the circular-vector hypotheses: `r2 = √2`, `I = i` over `ℂ` -/
example : (((Real.sqrt 2 : ℝ) : ℂ)) ^ 2 = 2 ∧ star (((Real.sqrt 2 : ℝ) : ℂ)) = ((Real.sqrt 2 : ℝ) : ℂ) ∧
    Complex.I ^ 2 = -1 ∧ star Complex.I = -Complex.I := by
  refine ⟨?_, ?_, by simp, by simp⟩
  · exact_mod_cast Real.sq_sqrt (by norm_num : (0 : ℝ) ≤ 2)
  · rw [Complex.star_def, Complex.conj_ofReal]

/-! ## second pass: index maps of the remaining helpers, Mueller-Stokes intertwining, rotation covariance -/

section wiring2
variable {K : Type} [Field K]

/-- translated obligation: `broadcast_kron` (einsum + reshape) is the Kronecker product in NumPy's ordering, entry by entry -/
theorem gen_kron (a b : M22 K) (r c : Nat) : kronEntry a b r c = Model.C20.kron a b r c := by
  simp only [kronEntry, Model.C20.kron]

/-- translated obligation: `apply_polarization_optic` multiplies every Jones entry by the scalar field sample -/
theorem gen_apply_optic (f : K) (J : M22 K) : applyOptic f J = M22.smul f J := by
  apply M22.ext' <;> simp only [applyOptic, M22.smul] <;> ring

/-- a spatially uniform polarisation optic commutes with polarised propagation: for every propagator that is homogeneous
(`prop (k x) = k prop x`; every linear propagator is), propagating `J · field` component-wise gives `J · prop field` -/
theorem adapter_uniform_optic (prop : K → K) (h : ∀ k x, prop (k * x) = k * prop x) (f : K) (J : M22 K) :
    Model.C20.adapter prop (applyOptic f J) = applyOptic (prop f) J := by
  rw [gen_apply_optic, gen_apply_optic]
  apply M22.ext' <;> simp only [Model.C20.adapter, M22.map, M22.smul] <;> rw [mul_comm f _, h, mul_comm]

end wiring2

/-- second-pass structural facts: every component call of the adapter forwards the remaining positional and keyword arguments and
the result container appends `(2, 2)` to a component result; `add_jones_propagation` replaces exactly the listed functions by their
adapted versions, the default list being `supported_propagation_funcs` -/
theorem gen_structure2 : adapterForwardsArgumentsAndShape = true ∧ addJonesWrapsEachListedFunctionInPlace = true := by decide

section mueller2
open C20Mueller Matrix Kronecker Complex

/-- the generated Kronecker index map IS Mathlib's Kronecker product under the column convention `(j, k) ↦ 2 j + k` used by the
Mueller theorems -/
theorem kron_eq_kronecker (A B : M22 ℂ) (i j k l : Fin 2) :
    kronEntry A B (2 * i.val + k.val) (2 * j.val + l.val) = (toMat A ⊗ₖ toMat B) (i, k) (j, l) := by
  rw [gen_kron]
  fin_cases i <;> fin_cases j <;> fin_cases k <;> fin_cases l <;>
    simp [Model.C20.kron, M22.get, toMat, Matrix.kroneckerMap_apply]

/-- Mueller-side rotation covariance of every element: `M(R(-θ) J R(θ)) = M(R(θ))⁻¹ M(J) M(R(θ))` -/
theorem mueller_rotation_covariance (J : M22 ℂ) (c s : ℂ) (h : c ^ 2 + s ^ 2 = 1) :
    muellerOf (((rotTable c (-s)).mul J).mul (rotTable c s)) = muellerOf (rotTable c (-s)) * muellerOf J * muellerOf (rotTable c s) ∧
    muellerOf (rotTable c (-s)) * muellerOf (rotTable c s) = 1 := by
  refine ⟨by rw [(mueller_mul _ _).1, (mueller_mul _ _).1], ?_⟩
  rw [← (mueller_mul _ _).1, gen_rot, gen_rot, rot_neg_mul c s h]; exact (mueller_mul M22.one M22.one).2

/-- coherency form of the Stokes vector of a Jones vector: `U (Ē ⊗ E)` (rows: `s₀ s₁ s₂ s₃`) -/
noncomputable def stokesC (E : Matrix (Fin 2) (Fin 1) ℂ) : Matrix (Fin 4) (Fin 1 × Fin 1) ℂ :=
  Umat U0 * ((E.map (starRingEnd ℂ)) ⊗ₖ E)

/-- the Mueller matrix acts on Stokes vectors as the Jones matrix acts on fields: `M(J) · S(E) = S(J E)` for every complex `J`, `E` -/
theorem mueller_stokes (J : Matrix (Fin 2) (Fin 2) ℂ) (E : Matrix (Fin 2) (Fin 1) ℂ) :
    muellerC J * stokesC E = stokesC (J * E) := by
  simp only [muellerCU, stokesC, Matrix.map_mul, Matrix.mul_kronecker_mul]
  calc Umat U0 * (cj J ⊗ₖ J) * Vmat U0 * (Umat U0 * (E.map (starRingEnd ℂ) ⊗ₖ E))
      = Umat U0 * (cj J ⊗ₖ J) * ((Vmat U0 * Umat U0) * (E.map (starRingEnd ℂ) ⊗ₖ E)) := by simp only [Matrix.mul_assoc]
    _ = Umat U0 * (cj J ⊗ₖ J * E.map (starRingEnd ℂ) ⊗ₖ E) := by rw [V_mul_U, Matrix.one_mul, Matrix.mul_assoc]
    _ = _ := by rfl

/-- the Stokes vector of a fully polarised field lies ON the cone: `s₀ = |E_x|² + |E_y|² ≥ 0` and `s₀² = s₁² + s₂² + s₃²` -/
theorem stokes_pure (E : Matrix (Fin 2) (Fin 1) ℂ) :
    stokesC E 0 (0, 0) = ((normSq (E 0 0) + normSq (E 1 0) : ℝ) : ℂ) ∧
    stokesC E 0 (0, 0) ^ 2 = stokesC E 1 (0, 0) ^ 2 + stokesC E 2 (0, 0) ^ 2 + stokesC E 3 (0, 0) ^ 2 := by
  have e : ∀ r : Fin 4, stokesC E r (0, 0) =
      U0 r 0 * (starRingEnd ℂ (E 0 0) * E 0 0) + U0 r 1 * (starRingEnd ℂ (E 0 0) * E 1 0) +
      U0 r 2 * (starRingEnd ℂ (E 1 0) * E 0 0) + U0 r 3 * (starRingEnd ℂ (E 1 0) * E 1 0) := by
    intro r
    simp [stokesC, Matrix.mul_apply, Fintype.sum_prod_type, Fin.sum_univ_two, Umat, Matrix.kroneckerMap_apply]
    ring
  refine ⟨?_, ?_⟩
  · rw [e]; simp [Model.C20.muellerU, ofInt_eq, Complex.normSq_eq_conj_mul_self]
  · rw [e, e, e, e]; simp [Model.C20.muellerU, ofInt_eq]; ring_nf; simp [Complex.I_sq] <;> ring

/-- depolarisation-free Mueller matrices map the boundary of the Stokes cone into itself: for every complex Jones matrix `J` and
every fully polarised input `E`, the output Stokes vector `M(J) S(E)` has `s₀ = |(J E)_x|² + |(J E)_y|² ≥ 0` and
`s₀² = s₁² + s₂² + s₃²`.  (The interior of the cone — partially polarised inputs — is `stokes_cone_preserved` below.) -/
theorem mueller_preserves_pure_cone (J : Matrix (Fin 2) (Fin 2) ℂ) (E : Matrix (Fin 2) (Fin 1) ℂ) :
    (muellerC J * stokesC E) 0 (0, 0) = ((normSq ((J * E) 0 0) + normSq ((J * E) 1 0) : ℝ) : ℂ) ∧
    (muellerC J * stokesC E) 0 (0, 0) ^ 2 = (muellerC J * stokesC E) 1 (0, 0) ^ 2 + (muellerC J * stokesC E) 2 (0, 0) ^ 2 +
      (muellerC J * stokesC E) 3 (0, 0) ^ 2 := by
  rw [mueller_stokes]; exact stokes_pure (J * E)

/-- the full clause: every real Stokes vector in the closed cone `s₀ ≥ √(s₁² + s₂² + s₃²)` (fully or partially polarised light) is mapped
into the cone by the Mueller matrix of every Jones matrix -/
def stokes_cone_full : Prop :=
  ∀ (J : Matrix (Fin 2) (Fin 2) ℂ) (S : Fin 4 → ℝ), 0 ≤ S 0 → S 1 ^ 2 + S 2 ^ 2 + S 3 ^ 2 ≤ S 0 ^ 2 →
    let S' := (mueller J).mulVec S
    0 ≤ S' 0 ∧ S' 1 ^ 2 + S' 2 ^ 2 + S' 3 ^ 2 ≤ S' 0 ^ 2

/-- `stokes_cone_full` holds (third pass; via the coherency matrix: `S₀² - |S⃗|² = 4 det C`, `C ↦ J̄ C Jᵀ`, `S₀ = tr C` a sum of two positive
semidefinite forms) -/
theorem stokes_cone_full_proved : stokes_cone_full := by
  intro J S h0 hc
  exact ⟨(C20Cone.stokes_cone J S h0 hc).1, (C20Cone.stokes_cone J S h0 hc).2.1⟩

/-- depolarisation-free Mueller matrices preserve the Stokes cone, over the GENERATED `U` table: for every complex Jones matrix `J` and every
Stokes vector with `S₀ ≥ 0`, `S₁² + S₂² + S₃² ≤ S₀²`, the image `S' = M(J) S` has `S'₀ ≥ 0`, `|S⃗'|² ≤ S'₀²`, and
`S'₀² - |S⃗'|² = |det J|² (S₀² - |S⃗|²)` (Lorentz property: the degree of polarisation cannot be pushed above one) -/
theorem stokes_cone_preserved (J : M22 ℂ) (S : Fin 4 → ℝ) (h0 : 0 ≤ S 0) (hc : S 1 ^ 2 + S 2 ^ 2 + S 3 ^ 2 ≤ S 0 ^ 2) :
    let S' := (muellerOf J).mulVec S
    0 ≤ S' 0 ∧ S' 1 ^ 2 + S' 2 ^ 2 + S' 3 ^ 2 ≤ S' 0 ^ 2 ∧
    S' 0 ^ 2 - (S' 1 ^ 2 + S' 2 ^ 2 + S' 3 ^ 2) = normSq (J.a * J.d - J.b * J.c) * (S 0 ^ 2 - (S 1 ^ 2 + S 2 ^ 2 + S 3 ^ 2)) := by
  have h := C20Cone.stokes_cone (toMat J) S h0 hc
  have hd : (toMat J).det = J.a * J.d - J.b * J.c := by simp [toMat, Matrix.det_fin_two]
  rw [hd] at h
  simpa only [muellerOf_eq] using h

/-- non-vacuity: unpolarised light `(1, 0, 0, 0)` and fully polarised `(1, 1, 0, 0)` satisfy the cone hypotheses -/
example : (0 : ℝ) ≤ ![1, 0, 0, 0] 0 ∧ (![1, 1, 0, 0] 1 : ℝ) ^ 2 + ![1, 1, 0, 0] 2 ^ 2 + ![1, 1, 0, 0] 3 ^ 2 ≤ ![1, 1, 0, 0] 0 ^ 2 := by
  constructor <;> simp

/-- non-vacuity: a homogeneous propagator (multiplication by a transfer value) satisfies the hypothesis of `adapter_uniform_optic` -/
example (H : ℂ) : ∀ k x : ℂ, (fun y => H * y) (k * x) = k * (fun y => H * y) x := by intro k x; ring
end mueller2

/-! ## non-vacuity -/
section examples
open Complex
/-- the hypotheses of `retarder_unitary` / `vortex_unitary` hold for the real thing -/
example (θ δ : ℝ) :
    star ((Real.cos θ : ℝ) : ℂ) = (Real.cos θ : ℝ) ∧ ((Real.cos θ : ℝ) : ℂ) ^ 2 + ((Real.sin θ : ℝ) : ℂ) ^ 2 = 1 ∧
    Complex.exp (δ * I) * star (Complex.exp (δ * I)) = 1 ∧ (-I) ^ 2 = -1 ∧ star (-I) = -(-I) := by
  refine ⟨by rw [Complex.star_def, Complex.conj_ofReal], ?_, ?_, by simp, by simp⟩
  · exact_mod_cast Real.cos_sq_add_sin_sq θ
  · rw [Complex.star_def, ← Complex.exp_conj, ← Complex.exp_add]; simp
/-- a polariser at 3-4-5 orientation is idempotent -/
example : (diattenuator (polarizerAlpha (0 : ℚ)) (3 / 5) (4 / 5)).mul (diattenuator (polarizerAlpha (0 : ℚ)) (3 / 5) (4 / 5))
    = diattenuator (polarizerAlpha (0 : ℚ)) (3 / 5) (4 / 5) := polarizer_idempotent 0 _ _ (by norm_num)
end examples

end C20
