import PrysmVerif.Generated.C18
import PrysmVerif.Lemmas.C18
import Mathlib.Tactic.FieldSimp
import Mathlib.Tactic.LinearCombination
import Mathlib.Algebra.Order.Field.Basic
import Mathlib.Algebra.Order.Floor.Ring
import Mathlib.Analysis.SpecialFunctions.Sqrt
import PrysmVerif.Lemmas.PyArith
import Mathlib.Algebra.BigOperators.Group.List.Basic
import Mathlib.Algebra.BigOperators.Ring.List
/-!
# C18 — segmented apertures tile exactly; mask primitives respect their geometry   (partial)

Integer statements are over `Int`/`Nat` for every ring number, window position and grid size; real-valued
statements are over any linearly ordered field `K`, with `w` standing for `√3` (`w² = 3`, `w > 0`) and `(c, s)` for
a cosine/sine pair.  Theorems whose subject lives in `Generated.C18` are re-checked against the current prysm
source on every run.

NOT proved here (trusted / compared only): that qhull's `find_simplex` decides membership in the polygon spanned by
the generated vertices (so "the rasterised mask is the slab hexagon" is compared, not proved); keystone windows and
spider cut-outs (compared only); area up to rasterisation (numerical).
-/
set_option linter.unusedTactic false
set_option linter.unreachableTactic false
set_option linter.unusedSectionVars false
set_option linter.unusedVariables false
set_option linter.unusedSimpArgs false

namespace C18
open Model.C18 Lemmas.C18

/-! ## translated obligations -/

/-- `hex_dirs`, `add_hex`, `hex_dir` are the model's six directions, component-wise sum and `i mod 6` -/
theorem gen_hex_dirs : Generated.C18.hexDirs = Model.C18.hexDirs ∧ Generated.C18.hexAdd = Hex.add ∧
    Generated.C18.hexRingDirs = Model.C18.hexDirs := by
  refine ⟨rfl, ?_, by decide⟩
  funext a b; rfl

/-- `hex_ring(k)` is the model's ring walk (start `(−k, k, 0)`, six sides of `k` tiles, rolled by `k`), for every `k` -/
theorem gen_hex_ring (k : Nat) : Generated.C18.hexRing k = Model.C18.hexRing k := by
  first
    | rfl
    | simp only [Generated.C18.hexRing, Model.C18.hexRing, Generated.C18.hexRingRoll, Generated.C18.hexRingSideLen,
        Generated.C18.hexRingStart, Int.toNat_natCast, gen_hex_dirs.2.1, gen_hex_dirs.2.2]

/-- `_local_window` clamps both axes the way the model does — the clamp is translated AS WRITTEN (two `if`s in sequence or
`min(max(v, 0), n)`) and proved equal to the model clamp for all integers -/
theorem gen_window (c ic s n : Int) :
    Generated.C18.windowLoX c ic s n = windowLo c ic s n ∧ Generated.C18.windowHiX c ic s n = windowHi c ic s n ∧
    Generated.C18.windowLoY c ic s n = windowLo c ic s n ∧ Generated.C18.windowHiY c ic s n = windowHi c ic s n := by
  simp only [Generated.C18.windowLoX, Generated.C18.windowHiX, Generated.C18.windowLoY, Generated.C18.windowHiY,
    windowLo, windowHi, clamp] <;>
  (refine ⟨?_, ?_, ?_, ?_⟩ <;> first | trivial | rfl | omega | (split_ifs <;> omega))

/-- structural facts read off the AST: the hexagonal aperture mask is the OR of the local masks written through
their windows; `compose_opd` accumulates `tile * mask` into `out[window]`; rectangle / offset_circle wiring -/
theorem gen_structure :
    Generated.C18.hexMaskIsUnionOfLocalMasks = true ∧ Generated.C18.composeAccumulatesMaskedTiles = true ∧
    Generated.C18.rectangleRotatesCoordinates = true ∧ Generated.C18.offsetCircleIsCircleOfShiftedRadius = true := by
  decide

/-! ## rings: the documented number of segments, all distinct -/

/-- ring `k` has `6k` pairwise distinct cells, each on the plane `q + r + s = 0` at cube distance exactly `k` —
for EVERY `k` -/
theorem hex_ring_card (k : Nat) :
    (Generated.C18.hexRing k).length = 6 * k ∧ (Generated.C18.hexRing k).Nodup ∧
    ∀ h ∈ Generated.C18.hexRing k, h.q + h.r + h.s = 0 ∧ h.norm = k := by
  rw [gen_hex_ring]
  refine ⟨length_hexRing k, nodup_hexRing k, ?_⟩
  intro h hh
  obtain ⟨i, hi, j, hj, rfl⟩ := (mem_hexRing k h).mp hh
  exact side_props k i j hi hj

/-- cells of different rings are different (their cube distances differ), so all segment centres are distinct -/
theorem hex_rings_disjoint (k k' : Nat) (hk : k ≠ k') (h : Hex) (h1 : h ∈ Generated.C18.hexRing k) :
    h ∉ Generated.C18.hexRing k' := by
  intro h2
  have a := ((hex_ring_card k).2.2 h h1).2
  have b := ((hex_ring_card k').2.2 h h2).2
  omega

/-- ids: ring `i` receives the ids `prev+1 … prev+6i` where `prev` is the last id of ring `i−1`; hence ring `i`
starts at `1 + 3i(i−1)` and an aperture with `R` rings has `1 + 3R(R+1)` segments before exclusion -/
theorem segment_ids (i : Nat) (prev : Int) (hprev : prev = 3 * i * (i + 1)) :
    Generated.C18.idsLo prev (6 * (i + 1)) = 1 + 3 * ((i : Int) + 1) * i ∧
    Generated.C18.idsHi prev (6 * (i + 1)) - 1 = 3 * ((i : Int) + 1) * (i + 2) := by
  simp only [Generated.C18.idsLo, Generated.C18.idsHi]
  subst hprev
  constructor <;> ring

/-- last id handed out after ring `i`, by the generated id arithmetic (`ids = arange(prev+1, prev+1+len)`, `prev = ids[-1]`),
with `len = 6i` cells in ring `i` (`hex_ring_card`) -/
def lastId : Nat → Int
  | 0 => 0
  | i + 1 => Generated.C18.idsHi (lastId i) (6 * ((i : Int) + 1)) - 1

/-- THE DOCUMENTED NUMBER OF SEGMENTS, by induction over the rings: after `R` rings the last id is `3R(R+1)`, i.e. there are
`1 + 3R(R+1)` segments before exclusion, and ring `i+1` starts at id `1 + 3i(i+1)` -/
theorem segment_count (R : Nat) :
    lastId R = 3 * (R : Int) * (R + 1) ∧ Generated.C18.idsLo (lastId R) (6 * ((R : Int) + 1)) = 1 + 3 * (R : Int) * (R + 1) := by
  have h : ∀ n : Nat, lastId n = 3 * (n : Int) * (n + 1) := by
    intro n
    induction n with
    | zero => simp [lastId]
    | succ n ih =>
      simp only [lastId, Generated.C18.idsHi, ih]
      push_cast
      ring
  refine ⟨h R, ?_⟩
  simp only [Generated.C18.idsLo, h R]
  ring

/-! ## session 3: the number of segments under exclusion -/

/-- ids of ring `i` in the model of the aperture: `ringFirstId i … ringFirstId i + 6i − 1`, in walk order -/
theorem ring_ids (i : Nat) :
    (((List.range (6 * i)).zip (hexRing i)).map fun (p : Nat × Hex) => (ringFirstId i + p.1, p.2)).map Prod.fst
      = List.range' (ringFirstId i) (6 * i) := by
  rw [List.map_map]
  have h : (Prod.fst ∘ fun (p : Nat × Hex) => (ringFirstId i + p.1, p.2)) = (fun n => ringFirstId i + n) ∘ Prod.fst := by
    funext p; rfl
  rw [h, ← List.map_map, List.map_fst_zip (by rw [List.length_range, length_hexRing]), List.range'_eq_map_range]

/-- ids of rings `1 … R` concatenated: `1 … 3R(R+1)` with no gap and no repeat, for EVERY `R` -/
theorem rings_ids (R : Nat) :
    (((List.range R).map fun j =>
      let i := j + 1
      (List.range (6 * i)).zip (hexRing i) |>.map fun (p : Nat × Hex) => (ringFirstId i + p.1, p.2)).flatten).map Prod.fst
      = List.range' 1 (3 * R * (R + 1)) := by
  induction R with
  | zero => simp
  | succ R ih =>
    rw [List.range_succ, List.map_append, List.flatten_append, List.map_append, ih]
    simp only [List.map_cons, List.map_nil, List.flatten_cons, List.flatten_nil, List.append_nil]
    rw [ring_ids]
    have e1 : ringFirstId (R + 1) = 1 + 3 * R * (R + 1) := by
      simp only [ringFirstId, Nat.add_sub_cancel]; ring
    have e2 : 3 * (R + 1) * (R + 1 + 1) = 3 * R * (R + 1) + 6 * (R + 1) := by ring
    rw [e1, e2, List.range'_append_1]

/-- the model aperture (the one the driver op `hexap` runs against the real `segment_ids`) numbers its segments `0 … 3R(R+1)` -/
theorem all_segment_ids (R : Nat) : (allSegments R).map Prod.fst = List.range (1 + 3 * R * (R + 1)) := by
  simp only [allSegments, List.map_cons]
  rw [rings_ids, List.range_eq_range', Nat.add_comm 1, List.range'_succ]

/-- THE DOCUMENTED NUMBER OF SEGMENTS UNDER EXCLUSION, every ring count and every exclusion set (repeats and ids that do not
exist allowed): kept + (existing ids named in `exclude`) = `1 + 3R(R+1)` -/
theorem segments_after_exclusion (R : Nat) (ex : List Nat) :
    (segments R ex).length + ((List.range (1 + 3 * R * (R + 1))).filter fun i => ex.contains i).length = 1 + 3 * R * (R + 1) := by
  have h := all_segment_ids R
  have hl : (allSegments R).length = 1 + 3 * R * (R + 1) := by
    have := congrArg List.length h; simpa using this
  rw [← h, List.filter_map, List.length_map]
  simp only [segments]
  have := List.length_eq_length_filter_add (l := allSegments R) (fun p => !ex.contains p.1)
  rw [← hl, this]
  congr 2
  apply List.filter_congr
  intro p _
  simp
/-- the ids that survive are exactly the non-excluded ones of `0 … 3R(R+1)`, in increasing order -/
theorem segment_ids_after_exclusion (R : Nat) (ex : List Nat) :
    (segments R ex).map Prod.fst = (List.range (1 + 3 * R * (R + 1))).filter fun i => !ex.contains i := by
  rw [← all_segment_ids, List.filter_map]
  rfl
/-- two rings, centre and id 5 excluded, id 99 does not exist: 17 of 19 segments remain -/
example : (segments 2 [0, 5, 99]).length = 17 := by decide

/-! ## windows -/

/-- the generated clamp always yields `0 ≤ lo ≤ hi ≤ n` (a valid, possibly empty slice) with at most `2s` samples,
and exactly `[c+ic−s, c+ic+s)` when that fits in the array -/
theorem window_in_bounds (c ic s n : Int) (hs : 0 ≤ s) (hn : 0 ≤ n) :
    0 ≤ Generated.C18.windowLoX c ic s n ∧ Generated.C18.windowLoX c ic s n ≤ Generated.C18.windowHiX c ic s n ∧
    Generated.C18.windowHiX c ic s n ≤ n ∧ Generated.C18.windowHiX c ic s n - Generated.C18.windowLoX c ic s n ≤ 2 * s ∧
    (0 ≤ c + ic - s → c + ic + s ≤ n →
      Generated.C18.windowLoX c ic s n = c + ic - s ∧ Generated.C18.windowHiX c ic s n = c + ic + s) ∧
    0 ≤ Generated.C18.windowLoY c ic s n ∧ Generated.C18.windowLoY c ic s n ≤ Generated.C18.windowHiY c ic s n ∧
    Generated.C18.windowHiY c ic s n ≤ n := by
  obtain ⟨h1, h2, h3, h4⟩ := gen_window c ic s n
  rw [h1, h2, h3, h4]
  simp only [windowLo, windowHi, clamp]
  refine ⟨?_, ?_, ?_, ?_, ?_, ?_, ?_, ?_⟩ <;> split_ifs <;> omega

/-- `samples_per_seg = int(rseg/dx + 2)` is `⌊rseg/dx⌋ + 2` for a non-negative ratio (the offset the model and the driver use),
and the centre index is `ceil(n/2)` -/
theorem samples_per_seg (b : Rat) (hb : 0 ≤ b) (n : Int) :
    Generated.C18.samplesPerSeg b = ((⌊b⌋ + spsOffset : Int) : Rat) ∧ Generated.C18.centreIndexX n = centreIndex n ∧
    Generated.C18.centreIndexY n = centreIndex n := by
  refine ⟨?_, rfl, rfl⟩
  unfold Generated.C18.samplesPerSeg pyTruncRat spsOffset
  have h2 : ¬ (b + 2 < 0) := by linarith
  first
    | (rw [if_neg h2, Rat.floor_eq_intFloor]; simp)
    | (simp only [spsOffset]; push_cast; rw [if_neg h2, Rat.floor_eq_intFloor]; simp)

/-- THE WINDOW CONTAINS THE WHOLE HEXAGON: with `a = centre/dx`, `ia = int(a)` (any integer within one sample of `a`),
`b = rseg/dx`, `s = ⌊b⌋ + 2` (generated `samples_per_seg`), origin sample `n // 2` and the code's centre index `ceil(n/2)`,
every sample `i` whose coordinate lies within `± rseg` of the segment centre satisfies `lo ≤ i < hi` for the unclamped window
`[c + ia − s, c + ia + s)` — both parities of `n`, either sign of the centre.  (With the former `+ 1` one line of samples
could be cut off: below the window for odd `n`, above it for even `n`.) -/
theorem window_covers {K : Type} [Field K] [LinearOrder K] [IsStrictOrderedRing K]
    (n ia fb i : Int) (a b : K) (hia : |a - (ia : K)| < 1) (hfb : (fb : K) ≤ b ∧ b < (fb : K) + 1)
    (hin : a - b ≤ ((i - n / 2 : Int) : K) ∧ ((i - n / 2 : Int) : K) ≤ a + b) :
    let c := Generated.C18.centreIndexX n
    let s := fb + spsOffset
    c + ia - s ≤ i ∧ i < c + ia - s + 2 * s := by
  intro c s
  have hc : c = -((-n) / 2) := rfl
  have hs : s = fb + 2 := rfl
  obtain ⟨h1, h2⟩ := abs_lt.mp hia
  obtain ⟨g1, g2⟩ := hin
  have lo : ((ia - fb - 2 : Int) : K) < ((i - n / 2 : Int) : K) := by
    push_cast at g1 ⊢; linarith [hfb.2]
  have hi : ((i - n / 2 : Int) : K) < ((ia + fb + 2 : Int) : K) := by
    push_cast at g2 ⊢; linarith [hfb.2]
  have lo' := Int.cast_lt.mp lo
  have hi' := Int.cast_lt.mp hi
  refine ⟨by omega, by omega⟩

/-! ## hexagons do not overlap -/

/-- integer lemma: a non-zero cube vector (`q + r + s = 0`) has a pairwise coordinate difference of size `≥ 2` -/
theorem cube_diff_ge_two (q r s : Int) (h0 : q + r + s = 0) (hne : ¬ (q = 0 ∧ r = 0 ∧ s = 0)) :
    (r - s ≥ 2 ∨ r - s ≤ -2) ∨ (q - s ≥ 2 ∨ q - s ≤ -2) ∨ (q - r ≥ 2 ∨ q - r ≤ -2) := by omega

section geometry
variable {K : Type} [Field K] [LinearOrder K] [IsStrictOrderedRing K]

/-- `hex_to_xy` (both orientations) and the radii of `_composite_hexagonal_aperture` are the model's formulas -/
theorem gen_centres (w radius q r D gap : K) (hw : w ≠ 0) :
    Generated.C18.center90 w radius q r = center90 w radius q r ∧
    Generated.C18.center0 w radius q r = center0 w radius q r ∧
    Generated.C18.circumradius w D gap = circumradius w D ∧ Generated.C18.pitch w D gap = pitch w D gap := by
  refine ⟨?_, ?_, ?_, ?_⟩ <;> first
    | rfl
    | (simp only [Generated.C18.center90, Generated.C18.center0, Generated.C18.circumradius, Generated.C18.pitch,
        center90, center0, circumradius, pitch]; done)
    | (simp only [Generated.C18.center90, Generated.C18.center0, center90, center0, Prod.mk.injEq]
       constructor <;> first | trivial | rfl | (field_simp; done) | (field_simp; ring))
    | (simp only [Generated.C18.circumradius, Generated.C18.pitch, circumradius, pitch]
       first | (field_simp; done) | (field_simp; ring))

/-- the hexagon's apothem is half the requested flat-to-flat diameter, and the clear distance between the facing
edges of two neighbouring hexagons (`√3·pitch − 2·apothem`) is exactly the requested separation -/
theorem hex_gap (w D gap : K) (hw : w * w = 3) (hw0 : 0 < w) :
    Generated.C18.circumradius w D gap * w / 2 = D / 2 ∧
    w * Generated.C18.pitch w D gap - 2 * (Generated.C18.circumradius w D gap * w / 2) = gap := by
  have h0 : w ≠ 0 := ne_of_gt hw0
  simp only [Generated.C18.circumradius, Generated.C18.pitch, circumradius, pitch]
  constructor <;> field_simp <;> ring

/-- projections of the difference of two lattice centres on the three slab normals are `(pitch·√3/2)` times the
pairwise differences of the cube coordinates — both orientations -/
theorem centre_projections (w P : K) (hw : w * w = 3) (hw0 : 0 < w) (q r s q' r' s' : Int)
    (h0 : q + r + s = 0) (h0' : q' + r' + s' = 0) :
    let c := Generated.C18.center90 w P (q : K) (r : K)
    let c' := Generated.C18.center90 w P (q' : K) (r' : K)
    let d := Generated.C18.center0 w P (q : K) (r : K)
    let d' := Generated.C18.center0 w P (q' : K) (r' : K)
    slabs90 w (c.1 - c'.1) (c.2 - c'.2) =
      (P * w / 2 * (((r - s) - (r' - s') : Int) : K), P * w / 2 * (((q - s) - (q' - s') : Int) : K),
        P * w / 2 * (((q - r) - (q' - r') : Int) : K)) ∧
    slabs0 w (d.1 - d'.1) (d.2 - d'.2) =
      (P * w / 2 * (((q - s) - (q' - s') : Int) : K), P * w / 2 * (((r - s) - (r' - s') : Int) : K),
        P * w / 2 * (((q - r) - (q' - r') : Int) : K)) := by
  have h0w : w ≠ 0 := ne_of_gt hw0
  have es : (s : K) = -(q : K) - r := by
    have : ((q + r + s : Int) : K) = 0 := by rw [h0]; simp
    push_cast at this; linear_combination this
  have es' : (s' : K) = -(q' : K) - r' := by
    have : ((q' + r' + s' : Int) : K) = 0 := by rw [h0']; simp
    push_cast at this; linear_combination this
  have e2w : (1 : K) / (2 / w) = w / 2 := by field_simp
  simp only [Generated.C18.center90, Generated.C18.center0, center90, center0, slabs90, slabs0, Prod.mk.injEq, e2w]
  push_cast
  rw [es, es']
  refine ⟨⟨?_, ?_, ?_⟩, ⟨?_, ?_, ?_⟩⟩ <;> ring

/-- NO POINT OF THE PLANE BELONGS TO TWO SEGMENTS: two different lattice hexagons (any cube coordinates, hence any
ring count), flat-to-flat diameter `D > 0`, separation `gap > 0`, either orientation, are disjoint as closed sets -/
theorem hex_disjoint (rot90 : Bool) (w D gap : K) (hw : w * w = 3) (hw0 : 0 < w) (hD : 0 < D) (hg : 0 < gap)
    (h h' : Hex) (h0 : h.q + h.r + h.s = 0) (h0' : h'.q + h'.r + h'.s = 0) (hne : h ≠ h') (px py : K) :
    let P := Generated.C18.pitch w D gap
    let a := Generated.C18.circumradius w D gap * w / 2
    let c := if rot90 then Generated.C18.center90 w P (h.q : K) (h.r : K) else Generated.C18.center0 w P (h.q : K) (h.r : K)
    let c' := if rot90 then Generated.C18.center90 w P (h'.q : K) (h'.r : K) else Generated.C18.center0 w P (h'.q : K) (h'.r : K)
    ¬ (inHex rot90 w a c.1 c.2 px py ∧ inHex rot90 w a c'.1 c'.2 px py) := by
  intro P a c c'
  have hgap := (hex_gap w D gap hw hw0).2
  have hT : a < P * w / 2 := by
    have : w * P - 2 * a = gap := hgap
    linarith
  obtain ⟨q, r, s⟩ := h
  obtain ⟨q', r', s'⟩ := h'
  simp only at h0 h0'
  have hd : ¬ (q - q' = 0 ∧ r - r' = 0 ∧ s - s' = 0) := by
    rintro ⟨e1, e2, e3⟩
    apply hne
    have : q = q' := by omega
    have : r = r' := by omega
    have : s = s' := by omega
    subst_vars; rfl
  have hcube := cube_diff_ge_two (q - q') (r - r') (s - s') (by omega) hd
  have hproj := centre_projections w P hw hw0 q r s q' r' s' h0 h0'
  simp only at hproj
  obtain ⟨hp90, hp0⟩ := hproj
  have hTpos : 0 < P * w / 2 := by
    have ha : 0 < a := by
      have := (hex_gap w D gap hw hw0).1
      show 0 < Generated.C18.circumradius w D gap * w / 2
      rw [this]; linarith
    linarith
  -- a cast integer of size ≥ 2 moves the projection by at least 2T > 2a
  have key : ∀ m : Int, (m ≥ 2 ∨ m ≤ -2) → ∀ u v : K, -a ≤ u → u ≤ a → -a ≤ v → v ≤ a →
      u - v = P * w / 2 * (m : K) → False := by
    intro m hm u v hu1 hu2 hv1 hv2 huv
    rcases hm with hm | hm
    · have : (2 : K) ≤ (m : K) := by exact_mod_cast hm
      nlinarith [mul_le_mul_of_nonneg_left this hTpos.le]
    · have : (m : K) ≤ -2 := by exact_mod_cast hm
      nlinarith [mul_le_mul_of_nonneg_left this hTpos.le]
  rintro ⟨hin, hin'⟩
  cases rot90
  · -- orientation 0
    simp only [c, c', Bool.false_eq_true, if_false, inHex, inSlabs, slabs, slabs0] at hin hin'
    simp only [slabs0, Prod.mk.injEq] at hp0
    obtain ⟨e1, e2, e3⟩ := hp0
    obtain ⟨⟨a1, a2⟩, ⟨a3, a4⟩, ⟨a5, a6⟩⟩ := hin
    obtain ⟨⟨b1, b2⟩, ⟨b3, b4⟩, ⟨b5, b6⟩⟩ := hin'
    rcases hcube with hc | hc | hc
    · exact key ((r - s) - (r' - s')) (by omega) _ _ b3 b4 a3 a4 (by rw [← e2]; ring)
    · exact key ((q - s) - (q' - s')) (by omega) _ _ b1 b2 a1 a2 (by rw [← e1]; ring)
    · exact key ((q - r) - (q' - r')) (by omega) _ _ b5 b6 a5 a6 (by rw [← e3]; ring)
  · simp only [c, c', if_true, inHex, inSlabs, slabs, slabs90] at hin hin'
    simp only [slabs90, Prod.mk.injEq] at hp90
    obtain ⟨e1, e2, e3⟩ := hp90
    obtain ⟨⟨a1, a2⟩, ⟨a3, a4⟩, ⟨a5, a6⟩⟩ := hin
    obtain ⟨⟨b1, b2⟩, ⟨b3, b4⟩, ⟨b5, b6⟩⟩ := hin'
    rcases hcube with hc | hc | hc
    · exact key ((r - s) - (r' - s')) (by omega) _ _ b1 b2 a1 a2 (by rw [← e1]; ring)
    · exact key ((q - s) - (q' - s')) (by omega) _ _ b3 b4 a3 a4 (by rw [← e2]; ring)
    · exact key ((q - r) - (q' - r')) (by omega) _ _ b5 b6 a5 a6 (by rw [← e3]; ring)

/-- the six vertices `regular_polygon(6, ρ, rotation ∈ {90, 0})` hands to qhull all lie in the closed slab hexagon of
apothem `ρ√3/2` around the same centre (they are its corners), for both orientations -/
theorem hex_vertices_in_slabs (w rho x0 y0 : K) (hw : w * w = 3) (hw0 : 0 < w) (hr : 0 ≤ rho) :
    (∀ v ∈ Generated.C18.hexVertices90 w rho x0 y0, inHex true w (rho * w / 2) x0 y0 v.1 v.2) ∧
    (∀ v ∈ Generated.C18.hexVertices0 w rho x0 y0, inHex false w (rho * w / 2) x0 y0 v.1 v.2) := by
  have hrw : 0 ≤ rho * w := mul_nonneg hr hw0.le
  constructor
  · intro v hv
    simp only [Generated.C18.hexVertices90, hexVertices90, List.mem_cons, List.not_mem_nil, or_false] at hv
    rcases hv with rfl | rfl | rfl | rfl | rfl | rfl <;>
      simp only [inHex, inSlabs, slabs, if_true, slabs90] <;>
      refine ⟨⟨?_, ?_⟩, ⟨?_, ?_⟩, ⟨?_, ?_⟩⟩ <;> nlinarith
  · intro v hv
    simp only [Generated.C18.hexVertices0, hexVertices0, List.mem_cons, List.not_mem_nil, or_false] at hv
    rcases hv with rfl | rfl | rfl | rfl | rfl | rfl <;>
      simp only [inHex, inSlabs, slabs, Bool.false_eq_true, if_false, slabs0] <;>
      refine ⟨⟨?_, ?_⟩, ⟨?_, ?_⟩, ⟨?_, ?_⟩⟩ <;> nlinarith

/-- a slab `−a ≤ · ≤ a` is convex -/
theorem slab_convex (a u v t : K) (ht0 : 0 ≤ t) (ht1 : t ≤ 1) (hu : -a ≤ u ∧ u ≤ a) (hv : -a ≤ v ∧ v ≤ a) :
    -a ≤ (1 - t) * u + t * v ∧ (1 - t) * u + t * v ≤ a := by
  have h1t : 0 ≤ 1 - t := by linarith
  constructor
  · nlinarith [mul_le_mul_of_nonneg_left hu.1 h1t, mul_le_mul_of_nonneg_left hv.1 ht0]
  · nlinarith [mul_le_mul_of_nonneg_left hu.2 h1t, mul_le_mul_of_nonneg_left hv.2 ht0]

/-- the slab hexagon is convex -/
theorem hex_convex (rot90 : Bool) (w a cx cy px py qx qy t : K) (ht0 : 0 ≤ t) (ht1 : t ≤ 1)
    (hp : inHex rot90 w a cx cy px py) (hq : inHex rot90 w a cx cy qx qy) :
    inHex rot90 w a cx cy ((1 - t) * px + t * qx) ((1 - t) * py + t * qy) := by
  cases rot90
  · simp only [inHex, inSlabs, slabs, Bool.false_eq_true, if_false, slabs0] at hp hq ⊢
    obtain ⟨p1, p2, p3⟩ := hp
    obtain ⟨q1, q2, q3⟩ := hq
    have r1 := slab_convex a _ _ t ht0 ht1 p1 q1
    have r2 := slab_convex a _ _ t ht0 ht1 p2 q2
    have r3 := slab_convex a _ _ t ht0 ht1 p3 q3
    refine ⟨?_, ?_, ?_⟩
    · convert r1 using 2 <;> ring
    · convert r2 using 2 <;> ring
    · convert r3 using 2 <;> ring
  · simp only [inHex, inSlabs, slabs, if_true, slabs90] at hp hq ⊢
    obtain ⟨p1, p2, p3⟩ := hp
    obtain ⟨q1, q2, q3⟩ := hq
    have r1 := slab_convex a _ _ t ht0 ht1 p1 q1
    have r2 := slab_convex a _ _ t ht0 ht1 p2 q2
    have r3 := slab_convex a _ _ t ht0 ht1 p3 q3
    refine ⟨?_, ?_, ?_⟩
    · convert r1 using 2 <;> ring
    · convert r2 using 2 <;> ring
    · convert r3 using 2 <;> ring

/-- convex hull of a finite set of points, generated by vertices and segment mixing -/
inductive InHull (vs : List (K × K)) : K × K → Prop
  | vertex (v : K × K) (h : v ∈ vs) : InHull vs v
  | mix (p q : K × K) (t : K) (hp : InHull vs p) (hq : InHull vs q) (ht0 : 0 ≤ t) (ht1 : t ≤ 1) :
      InHull vs ((1 - t) * p.1 + t * q.1, (1 - t) * p.2 + t * q.2)

/-- THE MISSING CONVEXITY STEP: the convex hull of the six vertices `regular_polygon(6, ρ, …)` hands to qhull lies inside the
closed slab hexagon of apothem `ρ√3/2` (both orientations).  With qhull's `find_simplex` = hull membership (trusted) every
rasterised segment mask is a subset of its slab hexagon, so `hex_disjoint` applies to the masks. -/
theorem hex_hull_in_slabs (w rho x0 y0 : K) (hw : w * w = 3) (hw0 : 0 < w) (hr : 0 ≤ rho) (p : K × K) :
    (InHull (Generated.C18.hexVertices90 w rho x0 y0) p → inHex true w (rho * w / 2) x0 y0 p.1 p.2) ∧
    (InHull (Generated.C18.hexVertices0 w rho x0 y0) p → inHex false w (rho * w / 2) x0 y0 p.1 p.2) := by
  have hv := hex_vertices_in_slabs w rho x0 y0 hw hw0 hr
  constructor
  · intro h
    induction h with
    | vertex v hv' => exact hv.1 v hv'
    | mix p q t _ _ ht0 ht1 ihp ihq => exact hex_convex true w _ x0 y0 p.1 p.2 q.1 q.2 t ht0 ht1 ihp ihq
  · intro h
    induction h with
    | vertex v hv' => exact hv.2 v hv'
    | mix p q t _ _ ht0 ht1 ihp ihq => exact hex_convex false w _ x0 y0 p.1 p.2 q.1 q.2 t ht0 ht1 ihp ihq

/-- the slab hexagon has the symmetry of its shape: it is invariant under the point reflection through its centre
and under the mirror in both coordinate axes through the centre (both orientations) -/
theorem hex_symmetric (rot90 : Bool) (w a cx cy dx dy : K) :
    (inHex rot90 w a cx cy (cx + dx) (cy + dy) ↔ inHex rot90 w a cx cy (cx - dx) (cy - dy)) ∧
    (inHex rot90 w a cx cy (cx + dx) (cy + dy) ↔ inHex rot90 w a cx cy (cx - dx) (cy + dy)) ∧
    (inHex rot90 w a cx cy (cx + dx) (cy + dy) ↔ inHex rot90 w a cx cy (cx + dx) (cy - dy)) := by
  cases rot90 <;>
    simp only [inHex, inSlabs, slabs, Bool.false_eq_true, if_false, if_true, slabs0, slabs90, add_sub_cancel_left,
      sub_sub_cancel_left] <;>
    refine ⟨?_, ?_, ?_⟩ <;> constructor <;> rintro ⟨⟨h1, h2⟩, ⟨h3, h4⟩, ⟨h5, h6⟩⟩ <;>
    refine ⟨⟨?_, ?_⟩, ⟨?_, ?_⟩, ⟨?_, ?_⟩⟩ <;> linarith

/-- the hexagon grows with its size parameter -/
theorem hex_mono (rot90 : Bool) (w a a' cx cy px py : K) (h : a ≤ a') :
    inHex rot90 w a cx cy px py → inHex rot90 w a' cx cy px py := by
  simp only [inHex, inSlabs]
  rintro ⟨⟨h1, h2⟩, ⟨h3, h4⟩, ⟨h5, h6⟩⟩
  refine ⟨⟨?_, ?_⟩, ⟨?_, ?_⟩, ⟨?_, ?_⟩⟩ <;> linarith

end geometry

/-! ## per-segment optical path error: confined to its segment, linear in the coefficients -/
section opd
variable {K : Type} [Field K]

/-- segment `k` of an aperture: geometry `geo k` (window + local mask) carrying the tile `T k = Σ_m c_{k,m} B_{k,m}` -/
def segs (n : Nat) (geo : Nat → Seg K) (T : Nat → Int → Int → K) : List (Seg K) :=
  (List.range n).map fun k => { geo k with tile := T k }

/-- sample `(i, j)` is a transmitting sample of segment `g` (inside its window and its local mask) -/
def onSeg (g : Seg K) (i j : Int) : Prop :=
  (g.ylo ≤ i ∧ i < g.yhi ∧ g.xlo ≤ j ∧ j < g.xhi) ∧ g.mask (i - g.ylo) (j - g.xlo) = true

/-- the accumulation loop of `compose_opd` computes `out₀ + Σ_segments contribution` -/
theorem compose_eq_sum (out0 : Int → Int → K) (gs : List (Seg K)) (i j : Int) :
    compose out0 gs i j = out0 i j + (gs.map fun g => g.contrib i j).sum := by
  induction gs generalizing out0 with
  | nil => simp [compose]
  | cons g gs ih => simp only [compose, ih, List.map_cons, List.sum_cons]; ring

theorem contrib_off (g : Seg K) (i j : Int) (h : ¬ onSeg g i j) : g.contrib i j = 0 := by
  unfold Seg.contrib
  unfold onSeg at h
  split_ifs with h1 h2
  · exact absurd ⟨h1, h2⟩ h
  · rfl
  · rfl

/-- composition is linear in the coefficient arrays: tiles `a·T₁ + b·T₂` compose to `a·(…T₁) + b·(…T₂)` —
any number of segments, any windows, overlapping or not -/
theorem opd_linear (n : Nat) (geo : Nat → Seg K) (T1 T2 : Nat → Int → Int → K) (a b : K) (i j : Int) :
    compose (fun _ _ => 0) (segs n geo fun k u v => a * T1 k u v + b * T2 k u v) i j =
      a * compose (fun _ _ => 0) (segs n geo T1) i j + b * compose (fun _ _ => 0) (segs n geo T2) i j := by
  simp only [compose_eq_sum, segs, List.map_map, zero_add]
  rw [← List.sum_map_mul_left, ← List.sum_map_mul_left, ← List.sum_map_add]
  congr 1
  apply List.map_congr_left
  intro k _
  simp only [Function.comp, Seg.contrib]
  split_ifs <;> ring

/-- a coefficient change on segment `t` changes the output ONLY on the transmitting samples of segment `t` -/
theorem opd_confined (n t : Nat) (geo : Nat → Seg K) (T T' : Nat → Int → Int → K) (out0 : Int → Int → K)
    (hsame : ∀ k, k ≠ t → T k = T' k) (i j : Int) (hoff : ¬ onSeg (geo t) i j) :
    compose out0 (segs n geo T) i j = compose out0 (segs n geo T') i j := by
  simp only [compose_eq_sum, segs, List.map_map]
  congr 2
  apply List.map_congr_left
  intro k _
  simp only [Function.comp]
  by_cases hk : k = t
  · subst hk
    rw [contrib_off _ i j (by simpa [onSeg] using hoff), contrib_off _ i j (by simpa [onSeg] using hoff)]
  · rw [hsame k hk]

/-- a unit piston on segment `t < n` (all other coefficients zero) produces exactly the indicator of segment `t` -/
theorem opd_unit_piston (n t : Nat) (ht : t < n) (geo : Nat → Seg K) (i j : Int) [Decidable (onSeg (geo t) i j)] :
    compose (fun _ _ => 0) (segs n geo fun k _ _ => if k = t then 1 else 0) i j =
      if onSeg (geo t) i j then 1 else 0 := by
  simp only [compose_eq_sum, segs, List.map_map, zero_add]
  have hterm : ∀ k, ((fun g : Seg K => g.contrib i j) ∘ fun k => { geo k with tile := fun _ _ => if k = t then (1 : K) else 0 }) k
      = if k = t then (if onSeg (geo t) i j then (1 : K) else 0) else 0 := by
    intro k
    simp only [Function.comp, Seg.contrib, onSeg]
    by_cases hk : k = t
    · subst hk
      simp only [if_true]
      by_cases hw : (geo k).ylo ≤ i ∧ i < (geo k).yhi ∧ (geo k).xlo ≤ j ∧ j < (geo k).xhi
      · by_cases hm : (geo k).mask (i - (geo k).ylo) (j - (geo k).xlo) = true
        · simp [hw, hm]
        · simp [hw, hm]
      · simp [hw]
    · simp only [hk, if_false]; split_ifs <;> rfl
  rw [List.map_congr_left (fun k _ => hterm k)]
  rw [List.sum_map_ite_eq]
  simp [ht]

end opd

/-! ## mask primitives: exactly the analytic inequality, monotone in the size parameter, symmetric -/
section prims
variable {K : Type} [Field K] [LinearOrder K] [IsStrictOrderedRing K]

/-- `circle`, `annulus`, `rectangle`, `rotated_ellipse` and a spider vane ARE their analytic inequalities
(closed boundaries; the vane is an open strip on the positive half axis) -/
theorem prims_are_inequalities (ρ rin rout r width height a b c s x y : K) :
    (Generated.C18.circle ρ r ↔ r ≤ ρ) ∧
    (Generated.C18.annulus rin rout r ↔ rin ≤ r ∧ r ≤ rout) ∧
    (Generated.C18.rectangle width height x y ↔ |x| ≤ width ∧ |y| ≤ height) ∧
    (Generated.C18.ellipse a b c s x y ↔ (x * c + y * s) ^ 2 / a ^ 2 + (x * s - y * c) ^ 2 / b ^ 2 ≤ 1) ∧
    (Generated.C18.vane abs width x y ↔ 0 < x ∧ |y| < width / 2) := by
  refine ⟨Iff.rfl, Iff.rfl, ?_, ?_, Iff.rfl⟩
  · simp only [Generated.C18.rectangle, Model.C18.rectangle, abs_le]
    constructor
    · rintro ⟨⟨h1, h2⟩, h3, h4⟩; exact ⟨⟨h4, h3⟩, h2, h1⟩
    · rintro ⟨⟨h1, h2⟩, h3, h4⟩; exact ⟨⟨h4, h3⟩, h2, h1⟩
  · simp only [Generated.C18.ellipse, Model.C18.ellipse, not_lt, gt_iff_lt, sq]

/-- every primitive grows with its size parameter(s) -/
theorem prims_monotone (ρ ρ' rin rin' rout rout' r width width' height height' a a' b b' c s x y : K) :
    (ρ ≤ ρ' → Generated.C18.circle ρ r → Generated.C18.circle ρ' r) ∧
    (rin' ≤ rin → rout ≤ rout' → Generated.C18.annulus rin rout r → Generated.C18.annulus rin' rout' r) ∧
    (width ≤ width' → height ≤ height' → Generated.C18.rectangle width height x y →
      Generated.C18.rectangle width' height' x y) ∧
    (0 < a → a ≤ a' → 0 < b → b ≤ b' → Generated.C18.ellipse a b c s x y → Generated.C18.ellipse a' b' c s x y) ∧
    (width ≤ width' → Generated.C18.vane abs width x y → Generated.C18.vane abs width' x y) := by
  refine ⟨?_, ?_, ?_, ?_, ?_⟩
  · intro h h1; exact le_trans h1 h
  · rintro h1 h2 ⟨h3, h4⟩; exact ⟨le_trans h1 h3, le_trans h4 h2⟩
  · rintro h1 h2 ⟨⟨h3, h4⟩, h5, h6⟩
    exact ⟨⟨le_trans h3 h2, by linarith⟩, le_trans h5 h1, by linarith⟩
  · intro ha haa hb hbb
    simp only [Generated.C18.ellipse, Model.C18.ellipse, not_lt, gt_iff_lt]
    intro h
    have e1 : (x * c + y * s) * (x * c + y * s) / (a' * a') ≤ (x * c + y * s) * (x * c + y * s) / (a * a) :=
      div_le_div_of_nonneg_left (mul_self_nonneg _) (mul_pos ha ha) (by nlinarith)
    have e2 : (x * s - y * c) * (x * s - y * c) / (b' * b') ≤ (x * s - y * c) * (x * s - y * c) / (b * b) :=
      div_le_div_of_nonneg_left (mul_self_nonneg _) (mul_pos hb hb) (by nlinarith)
    linarith
  · intro h
    simp only [Generated.C18.vane, Model.C18.vane]
    rintro ⟨h1, h2⟩
    exact ⟨h1, by linarith⟩

/-- symmetry about the grid origin: circle and annulus depend on the radius only; the rectangle is invariant under both
axis mirrors; the ellipse under the point reflection for every rotation, and under both axis mirrors when it is
axis-aligned (`(c,s) = (1,0)`); a vane under the mirror in its own axis -/
theorem prims_symmetric (width height a b c s x y : K) :
    (Generated.C18.rectangle width height x y ↔ Generated.C18.rectangle width height (-x) y) ∧
    (Generated.C18.rectangle width height x y ↔ Generated.C18.rectangle width height x (-y)) ∧
    (Generated.C18.ellipse a b c s x y ↔ Generated.C18.ellipse a b c s (-x) (-y)) ∧
    (Generated.C18.ellipse a b 1 0 x y ↔ Generated.C18.ellipse a b 1 0 (-x) y) ∧
    (Generated.C18.ellipse a b 1 0 x y ↔ Generated.C18.ellipse a b 1 0 x (-y)) ∧
    (Generated.C18.vane abs width x y ↔ Generated.C18.vane abs width x (-y)) := by
  refine ⟨?_, ?_, ?_, ?_, ?_, ?_⟩
  · simp only [Generated.C18.rectangle, Model.C18.rectangle, neg_le_neg_iff]
    constructor <;> rintro ⟨h1, h2, h3⟩ <;> exact ⟨h1, by linarith, by linarith⟩
  · simp only [Generated.C18.rectangle, Model.C18.rectangle, neg_le_neg_iff]
    constructor <;> rintro ⟨⟨h1, h2⟩, h3⟩ <;> exact ⟨⟨by linarith, by linarith⟩, h3⟩
  · simp only [Generated.C18.ellipse, Model.C18.ellipse]
    rw [show (-x * c + -y * s) * (-x * c + -y * s) = (x * c + y * s) * (x * c + y * s) by ring,
      show (-x * s - -y * c) * (-x * s - -y * c) = (x * s - y * c) * (x * s - y * c) by ring]
  · simp only [Generated.C18.ellipse, Model.C18.ellipse]
    rw [show (-x * 1 + y * 0) * (-x * 1 + y * 0) = (x * 1 + y * 0) * (x * 1 + y * 0) by ring,
      show (-x * 0 - y * 1) * (-x * 0 - y * 1) = (x * 0 - y * 1) * (x * 0 - y * 1) by ring]
  · simp only [Generated.C18.ellipse, Model.C18.ellipse]
    rw [show (x * 1 + -y * 0) * (x * 1 + -y * 0) = (x * 1 + y * 0) * (x * 1 + y * 0) by ring,
      show (x * 0 - -y * 1) * (x * 0 - -y * 1) = (x * 0 - y * 1) * (x * 0 - y * 1) by ring]
  · simp only [Generated.C18.vane, Model.C18.vane, abs_neg]

end prims

/-! ## keystone apertures: rings and sectors are disjoint (strict inequalities on disjoint intervals) -/
section keystone
variable {K : Type} [Field K] [LinearOrder K] [IsStrictOrderedRing K]

/-- the keystone glue of `_composite_keystone_aperture` is the model's: ring radii recurrence, `arc & ang_mask` -/
theorem gen_keystone (outerPrev gap inner width rin rout lo hi r t : K) :
    Generated.C18.keyInner outerPrev gap = keyInner outerPrev gap ∧ Generated.C18.keyOuter inner width = keyOuter inner width ∧
    (Generated.C18.keySector rin rout lo hi r t ↔ keySector rin rout lo hi r t) := by
  refine ⟨by first | rfl | simp only [Generated.C18.keyInner, keyInner], by first | rfl | simp only [Generated.C18.keyOuter, keyOuter],
    Iff.rfl⟩

/-- a keystone sector is `rin < r ≤ rout ∧ lo < t < hi` (the XOR of the two discs, when `rin ≤ rout`), and the ring radii
follow `inner = previous outer + gap`, `outer = inner + width` -/
theorem keystone_sector_iff (rin rout lo hi r t : K) (h : rin ≤ rout) :
    Generated.C18.keySector rin rout lo hi r t ↔ (rin < r ∧ r ≤ rout) ∧ (lo < t ∧ t < hi) := by
  simp only [Generated.C18.keySector, Model.C18.keySector, not_le, gt_iff_lt]
  constructor
  · rintro ⟨h1 | h1, h2⟩
    · exact absurd (lt_of_lt_of_le h1.2 (le_trans h1.1 h)) (lt_irrefl _)
    · exact ⟨h1, h2⟩
  · rintro ⟨h1, h2⟩
    exact ⟨Or.inr h1, h2⟩

/-- two sectors of the same ring whose angular intervals do not overlap (`hi ≤ lo'`: consecutive segments share the
bound `angle + arc`) have no common point — the strict inequalities exclude the shared ray itself -/
theorem keystone_sectors_disjoint (rin rout lo hi lo' hi' r t : K) (hord : hi ≤ lo') :
    ¬ (Generated.C18.keySector rin rout lo hi r t ∧ Generated.C18.keySector rin rout lo' hi' r t) := by
  simp only [Generated.C18.keySector, Model.C18.keySector, gt_iff_lt]
  rintro ⟨⟨_, _, h2⟩, ⟨_, h3, _⟩⟩
  exact absurd (lt_of_lt_of_le h2 hord) (not_lt.mpr h3.le)

/-- sectors of different rings are disjoint for every positive radial gap and ring width, and the central disc
`r ≤ R₀` is disjoint from the first ring (`rin = R₀ + gap`) -/
theorem keystone_rings_disjoint (outerPrev gap width width' gap' lo hi lo' hi' r t : K)
    (hg : 0 < gap) (hg' : 0 < gap') (hw : 0 ≤ width) (hw' : 0 ≤ width') :
    let rin := Generated.C18.keyInner outerPrev gap
    let rout := Generated.C18.keyOuter rin width
    let rin' := Generated.C18.keyInner rout gap'
    let rout' := Generated.C18.keyOuter rin' width'
    ¬ (Generated.C18.keySector rin rout lo hi r t ∧ Generated.C18.keySector rin' rout' lo' hi' r t) ∧
    ¬ (Generated.C18.circle outerPrev r ∧ Generated.C18.keySector rin rout lo hi r t) := by
  intro rin rout rin' rout'
  have e1 : rin = outerPrev + gap := by simp only [rin, Generated.C18.keyInner, Model.C18.keyInner]
  have e2 : rout = rin + width := by simp only [rout, Generated.C18.keyOuter, Model.C18.keyOuter]
  have e3 : rin' = rout + gap' := by simp only [rin', Generated.C18.keyInner, Model.C18.keyInner]
  have e4 : rout' = rin' + width' := by simp only [rout', Generated.C18.keyOuter, Model.C18.keyOuter]
  constructor
  · rw [keystone_sector_iff _ _ _ _ _ _ (by linarith), keystone_sector_iff _ _ _ _ _ _ (by linarith)]
    rintro ⟨⟨⟨_, h1⟩, _⟩, ⟨⟨h2, _⟩, _⟩⟩
    linarith
  · rw [keystone_sector_iff _ _ _ _ _ _ (by linarith)]
    simp only [Generated.C18.circle, Model.C18.circle]
    rintro ⟨h1, ⟨⟨h2, _⟩, _⟩⟩
    linarith

end keystone

/-! ## session 3: keystone wrap-around branches and first-claim ownership -/
section keystone_wrap
variable {K : Type} [Field K] [LinearOrder K] [IsStrictOrderedRing K]

/-- the angular mask of a keystone WITH its two wrap-around branches (`if lo < π < hi … elif lo ≥ π …`), translated
from the current source, is the model's -/
theorem gen_keystone_wrap (pi lo hi t : K) : Generated.C18.keyAng pi lo hi t ↔ keyAng pi lo hi t := by
  first
    | exact Iff.rfl
    | (simp only [Generated.C18.keyAng, Model.C18.keyAng]; tauto)

/-- for every polar angle `t ∈ [−π, π]` (the range of `arctan2`) and EVERY interval `(lo, hi)`, the three-branch angular
mask of the source says exactly "`t` or `t + 2π` lies in `(lo, hi)`": the wrap-around logic is membership modulo one turn -/
theorem keystone_wrap_iff (pi lo hi t : K) (ht : -pi ≤ t ∧ t ≤ pi) :
    Generated.C18.keyAng pi lo hi t ↔ (lo < t ∧ t < hi) ∨ (lo < t + 2 * pi ∧ t + 2 * pi < hi) := by
  rw [gen_keystone_wrap]
  obtain ⟨h1, h2⟩ := ht
  simp only [keyAng, gt_iff_lt, ge_iff_le]
  constructor
  · rintro (⟨⟨a, b⟩, (c | c)⟩ | ⟨_, (⟨⟨a, b⟩, c, d⟩ | ⟨_, c⟩)⟩)
    · exact Or.inl c
    · exact Or.inr ⟨by linarith, by linarith⟩
    · exact Or.inr ⟨by linarith, by linarith⟩
    · exact Or.inl c
  · rintro (⟨a, b⟩ | ⟨a, b⟩)
    · by_cases c1 : lo < pi ∧ pi < hi
      · exact Or.inl ⟨c1, Or.inl ⟨a, b⟩⟩
      · exact Or.inr ⟨c1, Or.inr ⟨fun hc => by linarith [hc.1], a, b⟩⟩
    · by_cases c1 : lo < pi ∧ pi < hi
      · exact Or.inl ⟨c1, Or.inr (by linarith)⟩
      · refine Or.inr ⟨c1, Or.inl ⟨⟨?_, by linarith⟩, by linarith, by linarith⟩⟩
        by_contra hc
        exact c1 ⟨not_le.mp hc, by linarith⟩

/-- two keystones of one ring whose angular intervals follow each other round the circle (`hi₁ ≤ lo₂` and
`hi₂ ≤ lo₁ + 2π`: the second may run through the branch cut at `±π` and come back to the first) have no polar angle in
common — also when either of them takes a wrap-around branch -/
theorem keystone_wrap_disjoint (pi lo1 hi1 lo2 hi2 t : K) (hpi : 0 < pi) (ht : -pi ≤ t ∧ t ≤ pi)
    (h12 : hi1 ≤ lo2) (h21 : hi2 ≤ lo1 + 2 * pi) :
    ¬ (Generated.C18.keyAng pi lo1 hi1 t ∧ Generated.C18.keyAng pi lo2 hi2 t) := by
  rw [keystone_wrap_iff _ _ _ _ ht, keystone_wrap_iff _ _ _ _ ht]
  rintro ⟨(⟨a, b⟩ | ⟨a, b⟩), (⟨c, d⟩ | ⟨c, d⟩)⟩ <;> linarith

/-- where a keystone's arc starts, as translated from the two `while` loops and `hi = lo + arc_rad` of the current source: when
both loops have stopped `lo ∈ [−π, π]`; each pass moves `lo` by exactly one turn; the second loop cannot undo the first
(`lo < −π → lo + 2π ≤ π`); `hi` is `lo + arc` and nothing moves `lo` or `hi` afterwards -/
theorem gen_keystone_start (pi angle lo arc : K) (hpi : 0 < pi) :
    (¬ Generated.C18.keyLoDownCond pi lo → ¬ Generated.C18.keyLoUpCond pi lo → -pi ≤ lo ∧ lo ≤ pi) ∧
    Generated.C18.keyLoDownStep pi lo = lo - 2 * pi ∧ Generated.C18.keyLoUpStep pi lo = lo + 2 * pi ∧
    (Generated.C18.keyLoUpCond pi lo → ¬ Generated.C18.keyLoDownCond pi (Generated.C18.keyLoUpStep pi lo)) ∧
    Generated.C18.keyHi angle lo arc = lo + arc ∧ Generated.C18.keyHiUntouched = true := by
  refine ⟨?_, by first | rfl | (simp only [Generated.C18.keyLoDownStep]), by first | rfl | (simp only [Generated.C18.keyLoUpStep]),
    ?_, by first | rfl | (simp only [Generated.C18.keyHi]), by decide⟩
  · simp only [Generated.C18.keyLoDownCond, Generated.C18.keyLoUpCond, not_lt, gt_iff_lt]
    intro a b; exact ⟨b, a⟩
  · simp only [Generated.C18.keyLoDownCond, Generated.C18.keyLoUpCond, Generated.C18.keyLoUpStep, not_lt, gt_iff_lt]
    intro a; linarith

/-- COMPLETENESS of the wrap-around logic: with the arc start in `[−π, π]` (what `gen_keystone_start` establishes for every ring
rotation) and an arc of at most one turn, a sample whose polar angle `t ∈ [−π, π]` lies in the keystone's angular interval after
ANY whole number `k` of turns is in the mask — together with `keystone_wrap_iff` the mask IS membership modulo `2π` -/
theorem keystone_wrap_complete (pi lo arc t : K) (k : ℤ) (hpi : 0 < pi) (ht : -pi ≤ t ∧ t ≤ pi) (hlo : -pi ≤ lo ∧ lo ≤ pi)
    (harc : arc ≤ 2 * pi) (h : lo < t + 2 * pi * k ∧ t + 2 * pi * k < Generated.C18.keyHi lo lo arc) :
    Generated.C18.keyAng pi lo (Generated.C18.keyHi lo lo arc) t := by
  have hk : Generated.C18.keyHi lo lo arc = lo + arc := (gen_keystone_start pi lo lo arc hpi).2.2.2.2.1
  rw [hk] at h ⊢
  rw [keystone_wrap_iff _ _ _ _ ht]
  obtain ⟨h1, h2⟩ := h
  have k0 : (0 : K) ≤ k ∨ (k : K) ≤ -1 := by
    rcases le_or_gt 0 k with h | h
    · exact Or.inl (by exact_mod_cast h)
    · exact Or.inr (by have : k ≤ -1 := by omega
                       exact_mod_cast this)
  have k1 : (k : K) ≤ 1 ∨ (2 : K) ≤ k := by
    rcases le_or_gt k 1 with h | h
    · exact Or.inl (by exact_mod_cast h)
    · exact Or.inr (by have : (2 : ℤ) ≤ k := by omega
                       exact_mod_cast this)
  rcases k0 with k0 | k0
  · rcases k1 with k1 | k1
    · have : (k : K) = 0 ∨ (k : K) = 1 := by
        have : k = 0 ∨ k = 1 := by
          have a : (0 : ℤ) ≤ k := by exact_mod_cast k0
          have b : k ≤ (1 : ℤ) := by exact_mod_cast k1
          omega
        rcases this with h | h
        · exact Or.inl (by exact_mod_cast h)
        · exact Or.inr (by exact_mod_cast h)
      rcases this with e | e
      · rw [e] at h1 h2; exact Or.inl ⟨by linarith, by linarith⟩
      · rw [e] at h1 h2; exact Or.inr ⟨by linarith, by linarith⟩
    · nlinarith [ht.1, hlo.2]
  · nlinarith [ht.2, hlo.1]

/-- non-vacuity of `keystone_wrap_complete`: start `3`, arc `1`, angle `−3` one turn later (`π ≈ 22/7`) -/
example : (0 : ℚ) < 22 / 7 ∧ (-(22 / 7 : ℚ) ≤ -3 ∧ (-3 : ℚ) ≤ 22 / 7) ∧ (-(22 / 7 : ℚ) ≤ 3 ∧ (3 : ℚ) ≤ 22 / 7) ∧ (1 : ℚ) ≤ 2 * (22 / 7) ∧
    ((3 : ℚ) < -3 + 2 * (22 / 7) * (1 : ℤ) ∧ (-3 : ℚ) + 2 * (22 / 7) * (1 : ℤ) < Generated.C18.keyHi 3 3 1) := by
  rw [(gen_keystone_start (22 / 7 : ℚ) 3 3 1 (by norm_num)).2.2.2.2.1]; norm_num

/-- start angle of keystone `k`, arc and default rotation, translated from the ring loop of `_composite_keystone_aperture`
(`np.radians` is the parameter `rad`), are the model's -/
theorem gen_keystone_angles (rad : K → K) (pi k nseg rot : K) :
    Generated.C18.keyAngle rad pi k nseg rot = keyAngle rad pi k nseg rot ∧ Generated.C18.keyArc rad nseg = keyArc rad nseg ∧
    Generated.C18.keyDefaultRot nseg = keyDefaultRot nseg := by
  refine ⟨?_, ?_, ?_⟩ <;> first | rfl | (simp only [Generated.C18.keyAngle, Generated.C18.keyArc, Generated.C18.keyDefaultRot, keyAngle, keyArc, keyDefaultRot]; done) | (simp only [Generated.C18.keyAngle, Generated.C18.keyArc, Generated.C18.keyDefaultRot, keyAngle, keyArc, keyDefaultRot]; ring_nf)

/-- with `rad x = x·π/180`: the translated start angles advance by exactly one arc per keystone, `nseg` arcs make one turn, and the
default rotation (`None`) starts the first keystone one arc after `−π` — for EVERY rotation in degrees and every segment count -/
theorem keystone_angles_progress (rad : K → K) (pi nseg rot : K) (j : ℕ) (hrad : ∀ x, rad x = x * (pi / 180)) (hn : nseg ≠ 0) :
    Generated.C18.keyAngle rad pi (j : K) nseg rot = Generated.C18.keyAngle rad pi 0 nseg rot + j * Generated.C18.keyArc rad nseg ∧
    nseg * Generated.C18.keyArc rad nseg = 2 * pi ∧
    Generated.C18.keyAngle rad pi 0 nseg (Generated.C18.keyDefaultRot nseg) = Generated.C18.keyArc rad nseg - pi := by
  simp only [(gen_keystone_angles rad pi _ nseg _).1, (gen_keystone_angles rad pi 0 nseg rot).2.1,
    (gen_keystone_angles rad pi 0 nseg rot).2.2, keyAngle, keyArc, keyDefaultRot, hrad]
  refine ⟨by ring, by field_simp; ring, by ring⟩

/-- THE ROTATION FIX PINNED: two different keystones `j < k < N` of one ring, whose arc starts are `a₀ + j·arc` and `a₀ + k·arc` moved by
ANY whole numbers of turns (what the translated `while` loops do: `gen_keystone_start`), `N·arc = 2π`: no polar angle `t ∈ [−π, π]`
is in both angular masks (wrap-around branches included) — for every ring rotation `a₀`, however large or negative -/
theorem keystone_ring_disjoint (pi arc a0 t : K) (N j k : ℕ) (mj mk : ℤ) (hpi : 0 < pi) (harc : 0 < arc)
    (hN : (N : K) * arc = 2 * pi) (hjk : j < k) (hk : k < N) (ht : -pi ≤ t ∧ t ≤ pi) :
    ¬ (Generated.C18.keyAng pi (a0 + j * arc + 2 * pi * mj) (a0 + j * arc + 2 * pi * mj + arc) t ∧
       Generated.C18.keyAng pi (a0 + k * arc + 2 * pi * mk) (a0 + k * arc + 2 * pi * mk + arc) t) := by
  rw [keystone_wrap_iff _ _ _ _ ht, keystone_wrap_iff _ _ _ _ ht]
  -- t + 2π e ∈ (lo, lo + arc) with e ∈ {0, 1}
  have key : ∀ (p q : ℤ), (a0 + j * arc < t + 2 * pi * p ∧ t + 2 * pi * p < a0 + j * arc + arc) →
      (a0 + k * arc < t + 2 * pi * q ∧ t + 2 * pi * q < a0 + k * arc + arc) → False := by
    intro p q ⟨h1, h2⟩ ⟨h3, h4⟩
    have hkj : (j : K) + 1 ≤ k := by exact_mod_cast hjk
    have hkN : (k : K) + 1 ≤ N := by exact_mod_cast hk
    have hj0 : (0 : K) ≤ j := Nat.cast_nonneg j
    -- 2π (q − p) ∈ ((k − j − 1) arc, (k − j + 1) arc) ⊂ (0, 2π)
    have lo' : 0 < 2 * pi * ((q - p : ℤ) : K) := by
      push_cast
      nlinarith [mul_nonneg (sub_nonneg.mpr hkj) harc.le]
    have hi' : 2 * pi * ((q - p : ℤ) : K) < 2 * pi := by
      push_cast
      nlinarith [mul_nonneg (sub_nonneg.mpr hkN) harc.le, mul_nonneg hj0 harc.le]
    have d1 : (0 : K) < ((q - p : ℤ) : K) := by
      by_contra hc
      have := mul_nonpos_of_nonneg_of_nonpos (by linarith : (0 : K) ≤ 2 * pi) (not_lt.mp hc)
      linarith
    have d2 : ((q - p : ℤ) : K) < 1 := by
      by_contra hc
      have := mul_le_mul_of_nonneg_left (not_lt.mp hc) (by linarith : (0 : K) ≤ 2 * pi)
      linarith
    have e1 : (0 : ℤ) < q - p := by exact_mod_cast d1
    have e2 : q - p < (1 : ℤ) := by exact_mod_cast d2
    omega
  rintro ⟨(⟨a, b⟩ | ⟨a, b⟩), (⟨c, d⟩ | ⟨c, d⟩)⟩
  · exact key (-mj) (-mk) ⟨by push_cast; linarith, by push_cast; linarith⟩ ⟨by push_cast; linarith, by push_cast; linarith⟩
  · exact key (-mj) (1 - mk) ⟨by push_cast; linarith, by push_cast; linarith⟩ ⟨by push_cast; linarith, by push_cast; linarith⟩
  · exact key (1 - mj) (-mk) ⟨by push_cast; linarith, by push_cast; linarith⟩ ⟨by push_cast; linarith, by push_cast; linarith⟩
  · exact key (1 - mj) (1 - mk) ⟨by push_cast; linarith, by push_cast; linarith⟩ ⟨by push_cast; linarith, by push_cast; linarith⟩
/-- non-vacuity of `keystone_ring_disjoint`: six keystones, `π ≈ 22/7`, arc `22/21` -/
example : (0 : ℚ) < 22 / 7 ∧ (0 : ℚ) < 22 / 21 ∧ ((6 : ℕ) : ℚ) * (22 / 21) = 2 * (22 / 7) ∧ 0 < 1 ∧ 1 < 6 := by norm_num

/-- non-vacuity: a keystone straddling the cut (`lo = 3 < π ≈ 22/7 < hi = 4`) owns an angle just below `−π + 1` through the
wrap-around branch, and its follower `(4, 5)` does not -/
example : Generated.C18.keyAng (22 / 7 : ℚ) 3 4 (-3) ∧ ¬ Generated.C18.keyAng (22 / 7 : ℚ) 4 5 (-3) := by
  rw [keystone_wrap_iff _ _ _ _ (by norm_num), keystone_wrap_iff _ _ _ _ (by norm_num)]
  norm_num

end keystone_wrap

/-- the tail of the per-segment loop of `_composite_hexagonal_aperture` (`local_mask &= ~mask[window]`,
`local_masks.append`, `mask[window] |= local_mask`), translated per sample, is the model's first-claim step -/
theorem gen_claim (prev m : Bool) : Generated.C18.claimStep prev m = claimStep prev m := by
  cases prev <;> cases m <;> rfl

/-- invariant of the construction loop at one sample, for ANY number of segments and any polygon masks (overlapping,
touching, or apart): the aperture mask ends as the OR of everything, and the stored local masks contain exactly one
`true` if some segment covers the sample (and the mask was clear before) and none otherwise -/
theorem claims_invariant (ms : List Bool) (prev : Bool) :
    (claims Generated.C18.claimStep prev ms).2 = (prev || ms.any id) ∧
    (claims Generated.C18.claimStep prev ms).1.length = ms.length ∧
    (claims Generated.C18.claimStep prev ms).1.count true = (if (!prev && ms.any id) then 1 else 0) := by
  induction ms generalizing prev with
  | nil => cases prev <;> simp [claims]
  | cons m ms ih =>
    have h := ih (Generated.C18.claimStep prev m).2
    simp only [claims, gen_claim] at h ⊢
    cases prev <;> cases m <;> simp_all [claimStep]

/-- NO sample belongs to two segments of a composite hexagonal aperture — for every ring count, exclusion set, gap ≥ 0
(touching hexagons included) and whatever the polygon rasteriser returns: among the stored local masks at most one is set -/
theorem claims_exclusive (ms : List Bool) : (claims Generated.C18.claimStep false ms).1.count true ≤ 1 := by
  rw [(claims_invariant ms false).2.2]; split <;> omega

/-- the aperture mask is exactly the union of the polygon masks, and a sample transmits iff EXACTLY one stored segment
mask holds it ("every transmitting sample belongs to exactly one segment") -/
theorem claims_union (ms : List Bool) :
    (claims Generated.C18.claimStep false ms).2 = ms.any id ∧
    ((claims Generated.C18.claimStep false ms).2 = true ↔ (claims Generated.C18.claimStep false ms).1.count true = 1) := by
  obtain ⟨h1, _, h3⟩ := claims_invariant ms false
  rw [h1, h3]
  cases h : ms.any id <;> simp

/-- three segments, the second and third both covering the sample: the second owns it -/
example : claims Generated.C18.claimStep false [false, true, true] = ([false, true, false], true) := by decide

/-! ## non-vacuity -/

/-- `√3` instantiates the hypotheses on `w` -/
example : ∃ w : ℝ, w * w = 3 ∧ 0 < w :=
  ⟨Real.sqrt 3, Real.mul_self_sqrt (by norm_num), Real.sqrt_pos.mpr (by norm_num)⟩

example : (Generated.C18.hexRing 3).length = 18 ∧ (⟨3, -1, -2⟩ : Hex) ∈ Generated.C18.hexRing 3 := by decide

/-- a clamped and an unclamped window -/
example : Generated.C18.windowLoX 32 25 12 64 = 45 ∧ Generated.C18.windowHiX 32 25 12 64 = 64 ∧
    Generated.C18.windowLoX 32 5 12 64 = 25 ∧ Generated.C18.windowHiX 32 5 12 64 = 49 := by decide

/-- two distinct cube cells on the plane `q + r + s = 0` (hypotheses of `hex_disjoint`) -/
example : ((⟨1, -1, 0⟩ : Hex) ≠ ⟨0, 1, -1⟩) ∧ (1 : Int) + -1 + 0 = 0 := by decide

end C18
