import PrysmVerif.Generated.C19
import PrysmVerif.Lemmas.C19
import PrysmVerif.Lemmas.C19Matrix
import Mathlib.Analysis.SpecialFunctions.Sqrt
import Mathlib.Analysis.Calculus.Deriv.Mul
import Mathlib.Analysis.Calculus.Deriv.Add
import Mathlib.Analysis.Calculus.Deriv.Inv
/-!
# C19 — ray tracing obeys Snell's law and keeps rays on surfaces   (partial)

Scalars: any linearly ordered field `K` (`ℝ`, `ℚ`, …).  `sqrt : K → K` is a parameter; the only facts used
are `0 ≤ x → sqrt x * sqrt x = x` and `0 ≤ sqrt x` (instantiated with `Real.sqrt` at the end of the file).
`cost sint` stand for `cos t, sin t` with `cost² + sint² = 1`.

Theorems whose subject lives in `Generated.C19` are re-checked against the current prysm source on every run.
NOT proved here (trusted / compared only): convergence of the Newton iteration, IEEE rounding, the batch
(masking) bookkeeping of `newton_raphson_solve_s`, Q-type surfaces.
-/
set_option linter.unusedTactic false
set_option linter.unreachableTactic false
set_option linter.unusedSectionVars false
set_option linter.unusedVariables false

namespace C19
open Model.C19 Lemmas.C19
open Generated.C19 (refractCallNormal reflectCallNormal)
open Generated.C19 renaming reflect → gReflect, refract → gRefract

variable {K : Type} [Field K] [LinearOrder K] [IsStrictOrderedRing K]

/-! ## translated obligations: the generated glue equals the hand model (∀ inputs) -/

/-- `spencer_and_murty.reflect` is the model's mirror formula -/
theorem gen_reflect (S r : V3 K) : Generated.C19.reflect S r = Model.C19.reflect S r := by
  first
    | rfl
    | (simp only [Generated.C19.reflect, Model.C19.reflect]; done)
    | (simp only [Generated.C19.reflect, Model.C19.reflect, V3.sub, V3.smul, V3.dot]
       refine V3.ext' ?_ ?_ ?_ <;> ring)

/-- the laws through which `np.sqrt` and `np.copysign` enter the refraction theorems (instantiated with the real functions at
the end of the file) -/
structure RootLaws (sqrt : K → K) (csgn : K → K → K) : Prop where
  sq : ∀ x, 0 ≤ x → sqrt x * sqrt x = x
  nonneg : ∀ x, 0 ≤ sqrt x
  cs : ∀ a b, csgn a b = if b < 0 then -|a| else |a|

/-- `<` as the Boolean test the executable model takes -/
def ltK (a b : K) : Bool := decide (a < b)

/-- `spencer_and_murty.refract` is the model's Snell formula for a normal of any length, the root carrying the sign of `r·S` -/
theorem gen_refract (sqrt : K → K) (csgn : K → K → K) (h : RootLaws sqrt csgn) (n n' : K) (S r : V3 K) :
    Generated.C19.refract sqrt csgn ltK n n' S r = Model.C19.refract sqrt ltK n n' S r := by
  first
    | rfl
    | (simp only [Generated.C19.refract, Model.C19.refract, h.cs, abs_of_nonneg (h.nonneg _), ltK, decide_eq_true_eq]; done)
    | (simp only [Generated.C19.refract, Model.C19.refract, h.cs, abs_of_nonneg (h.nonneg _), ltK, decide_eq_true_eq,
         V3.add, V3.sub, V3.smul, V3.dot]
       ring_nf)

/-- `raytrace` hands `reflect` and `refract` exactly the vector returned by `intersect`, i.e. the un-normalised
surface gradient `(−F_x, −F_y, 1)` (so both formulas must cope with a normal of any length) -/
theorem gen_call_normals (sqrt : K → K) (g : V3 K) :
    refractCallNormal sqrt g = g ∧ reflectCallNormal sqrt g = g := by
  constructor <;> simp only [refractCallNormal, reflectCallNormal]

/-- `transform_to_local_coords` / `transform_to_global_coords` are the model's frame maps; `raytrace` hands
the transpose to the global leg -/
theorem gen_frames (P X S : V3 K) (R : M3 K) :
    Generated.C19.toLocalP P R X S = toLocalP P (some R) X ∧
    Generated.C19.toLocalS P R X S = toLocalS (some R) S ∧
    Generated.C19.toLocalPNoR P X S = toLocalP P none X ∧
    Generated.C19.toLocalSNoR P X S = toLocalS none S ∧
    Generated.C19.toGlobalP P (M3.transpose R) X S = toGlobalP P (some R) X ∧
    Generated.C19.toGlobalS P (M3.transpose R) X S = toGlobalS (some R) S ∧
    Generated.C19.toGlobalPNoR P X S = toGlobalP P none X ∧
    Generated.C19.toGlobalSNoR P X S = toGlobalS none S ∧
    Generated.C19.globalLegUsesTranspose = true := by
  refine ⟨?_, ?_, ?_, ?_, ?_, ?_, ?_, ?_, ?_⟩ <;>
    first | rfl | simp only [Generated.C19.toLocalP, Generated.C19.toLocalS, Generated.C19.toLocalPNoR,
      Generated.C19.toLocalSNoR, Generated.C19.toGlobalP, Generated.C19.toGlobalS, Generated.C19.toGlobalPNoR,
      Generated.C19.toGlobalSNoR, toLocalP, toLocalS, toGlobalP, toGlobalS]

/-- `coordinates.make_rotation_matrix` is `Rx · Ry · Rz` -/
theorem gen_rotation (c1 s1 c2 s2 c3 s3 : K) :
    Generated.C19.rotation c1 s1 c2 s2 c3 s3 = Model.C19.rotation c1 s1 c2 s2 c3 s3 := by
  simp only [Generated.C19.rotation, Model.C19.rotation, rotX, rotY, rotZ]

/-- `Surface.sag_normal` returns `(−F_x, −F_y, 1)` -/
theorem gen_normalOfGrad (fx fy : K) : Generated.C19.normalOfGrad fx fy = Model.C19.normalOfGrad fx fy := by
  simp only [Generated.C19.normalOfGrad, Model.C19.normalOfGrad]

/-- `surface_normal_from_cylindrical_derivatives` is the model's total polar→Cartesian map -/
theorem gen_cyl (fp ft r cost sint : K) :
    (Generated.C19.cylNormalX fp ft r cost sint, Generated.C19.cylNormalY fp ft r cost sint)
      = cylNormalTotal (fun r => decide (r = 0)) fp ft r cost sint := by
  simp only [Generated.C19.cylNormalX, Generated.C19.cylNormalY, cylNormalTotal, decide_eq_true_eq]

/-- `conic_sag`, `conic_sag_der`, `phi_spheroid` are the model's `c ρ²/(1+φ)`, `c ρ/φ`, `φ = √(1 − (1+κ)c²ρ²)` -/
theorem gen_conic (sqrt : K → K) (c k rho rhosq phi : K) :
    Generated.C19.conicSag sqrt c k rhosq = conicSag c rhosq (sqrt (phiSq c k rhosq)) ∧
    Generated.C19.conicSagDer sqrt c k rho = conicSagDer c rho (sqrt (phiSq c k (rho * rho))) ∧
    Generated.C19.phiSpheroid sqrt c k rhosq = sqrt (phiSq c k rhosq) ∧
    Generated.C19.conicSagPhi c k rhosq phi = conicSag c rhosq phi := by
  refine ⟨?_, ?_, ?_, ?_⟩ <;> first
    | rfl
    | (simp only [Generated.C19.conicSag, Generated.C19.conicSagDer, Generated.C19.phiSpheroid,
        Generated.C19.conicSagPhi, conicSag, conicSagDer, phiSq]; done)
    | (simp only [Generated.C19.conicSag, Generated.C19.conicSagDer, Generated.C19.phiSpheroid,
        Generated.C19.conicSagPhi, conicSag, conicSagDer, phiSq]
       ring_nf)

/-- the closure `Surface.off_axis_conic(...).FFp` is the parent conic evaluated at shifted coordinates -/
theorem gen_offaxis_ffp (sqrt : K → K) (c k dx dy x y : K) :
    (Generated.C19.offAxisFFpZ sqrt c k dx dy x y, Generated.C19.offAxisFFpX sqrt c k dx dy x y,
      Generated.C19.offAxisFFpY sqrt c k dx dy x y) = sagGrad sqrt (.offAxis c k dx dy) x y := by
  simp only [Generated.C19.offAxisFFpZ, Generated.C19.offAxisFFpX, Generated.C19.offAxisFFpY, sagGrad,
    Generated.C19.phiSpheroid, Generated.C19.conicSagPhi, conicSag, phiSq]

/-- `intersect` first steps to the vertex plane with `s0 = −Z0/m` -/
theorem gen_vertex_plane (P0 S : V3 K) : Generated.C19.toVertexPlane P0 S = Model.C19.toVertexPlane P0 S := by
  simp only [Generated.C19.toVertexPlane, Model.C19.toVertexPlane]

/-- one Newton update of `newton_raphson_solve_s` is the model's `newtonStep` -/
theorem gen_newton (sqrt : K → K) (sh : Shape K) (P1 S : V3 K) (sj : K) :
    let Pj := Generated.C19.newtonPoint abs P1 S sj 0 ⟨0, 0, 0⟩
    let sr := sagNormal sqrt sh Pj.x Pj.y
    (Pj, sr.2, Generated.C19.newtonNext abs P1 S sj sr.1 sr.2) = newtonStep sqrt sh P1 S sj := by
  simp only [Generated.C19.newtonPoint, Generated.C19.newtonNext, Generated.C19.newtonF, Generated.C19.newtonFp, newtonStep]

/-- structural facts read off the AST of the current source -/
theorem gen_structure :
    Generated.C19.multiDotIsRowwiseDot = true ∧ Generated.C19.refractIndicesThreaded = true ∧
    Generated.C19.conicUsesSagDerAndZeroAzimuthal = true ∧ Generated.C19.newtonStartsOnVertexPlane = true := by decide

/-! ## reflection -/

/-- reflection preserves length, for every non-zero (not necessarily unit) normal vector -/
theorem reflect_norm (S r : V3 K) (h : r ≠ ⟨0, 0, 0⟩) :
    V3.dot (gReflect S r) (gReflect S r) = V3.dot S S := by
  have hp := normSq_pos h
  rcases S with ⟨k, l, m⟩; rcases r with ⟨a, b, c⟩
  simp only [Generated.C19.reflect, Model.C19.reflect, V3.dot, V3.sub, V3.smul] at *
  have h2 : a ^ 2 + b ^ 2 + c ^ 2 ≠ 0 := by nlinarith
  have h3 : a * a + b * b + c * c ≠ 0 := ne_of_gt hp
  field_simp
  ring

/-- mirror law: the normal component is reversed and the tangential part is unchanged
(`S' − S` is a multiple of `r`) -/
theorem reflect_mirror (S r : V3 K) (h : r ≠ ⟨0, 0, 0⟩) :
    V3.dot (gReflect S r) r = -V3.dot S r ∧ V3.cross (V3.sub (gReflect S r) S) r = ⟨0, 0, 0⟩ := by
  have hp := normSq_pos h
  rcases S with ⟨k, l, m⟩; rcases r with ⟨a, b, c⟩
  simp only [Generated.C19.reflect, Model.C19.reflect, V3.dot, V3.sub, V3.smul, V3.cross] at *
  have h2 : a ^ 2 + b ^ 2 + c ^ 2 ≠ 0 := by nlinarith
  have h3 : a * a + b * b + c * c ≠ 0 := ne_of_gt hp
  refine ⟨?_, ?_⟩
  · field_simp; ring
  · refine V3.ext' ?_ ?_ ?_ <;> simp only [] <;> ring

/-- as traced: with the vector `raytrace` actually hands to `reflect` -/
theorem reflect_traced (sqrt : K → K) (S g : V3 K) (h : g ≠ ⟨0, 0, 0⟩) :
    let S' := gReflect S (reflectCallNormal sqrt g)
    V3.dot S' S' = V3.dot S S ∧ V3.dot S' g = -V3.dot S g ∧ V3.cross (V3.sub S' S) g = ⟨0, 0, 0⟩ := by
  have e : reflectCallNormal sqrt g = g := (gen_call_normals sqrt g).2
  simp only [e]
  exact ⟨reflect_norm S g h, (reflect_mirror S g h).1, (reflect_mirror S g h).2⟩

/-! ## refraction -/

/-- everything about one refraction, for every unit incident direction and every NON-ZERO normal vector of any length (the
tracer hands over the un-normalised surface gradient), below the critical angle (`radicand ≥ 0`), whichever way the surface is
crossed: `|S'| = 1`; `n'(S' × r) = n(S × r)` (plane of incidence and `n' sin i' = n sin i`); and `S'·r = ±√radicand` with the
sign of `S·r` -/
theorem refract_facts (sqrt : K → K) (csgn : K → K → K) (h : RootLaws sqrt csgn) (n n' : K) (S r : V3 K)
    (hr : r ≠ ⟨0, 0, 0⟩) (hS : V3.dot S S = 1) (hn' : n' ≠ 0) (hrad : 0 ≤ radicand n n' S r) :
    let S' := gRefract sqrt csgn ltK n n' S r
    V3.dot S' S' = 1 ∧ V3.smul n' (V3.cross S' r) = V3.smul n (V3.cross S r) ∧
    V3.dot S' r = if V3.dot r S < 0 then -sqrt (radicand n n' S r) else sqrt (radicand n n' S r) := by
  intro S'
  have e : S' = Model.C19.refract sqrt ltK n n' S r := gen_refract sqrt csgn h n n' S r
  rw [e]
  have hσ := h.sq _ hrad
  by_cases hc : V3.dot r S < 0
  · have hσ' : (-sqrt (radicand n n' S r)) * (-sqrt (radicand n n' S r)) = radicand n n' S r := by rw [neg_mul_neg]; exact hσ
    have := refract_core n n' _ S r hr hS hn' hσ'
    simp only [Model.C19.refract, ltK, decide_eq_true_eq, hc, if_true]
    exact this
  · have := refract_core n n' _ S r hr hS hn' hσ
    simp only [Model.C19.refract, ltK, decide_eq_true_eq, hc, if_false]
    exact this

/-- `|S'| = 1` -/
theorem refract_unit (sqrt : K → K) (csgn : K → K → K) (h : RootLaws sqrt csgn) (n n' : K) (S r : V3 K)
    (hr : r ≠ ⟨0, 0, 0⟩) (hS : V3.dot S S = 1) (hn' : n' ≠ 0) (hrad : 0 ≤ radicand n n' S r) :
    V3.dot (gRefract sqrt csgn ltK n n' S r) (gRefract sqrt csgn ltK n n' S r) = 1 :=
  (refract_facts sqrt csgn h n n' S r hr hS hn' hrad).1

/-- Snell's law in vector form, `n' (S' × r) = n (S × r)`: the refracted ray lies in the plane of incidence and
`n' sin i' = n sin i` -/
theorem refract_snell (sqrt : K → K) (csgn : K → K → K) (h : RootLaws sqrt csgn) (n n' : K) (S r : V3 K)
    (hr : r ≠ ⟨0, 0, 0⟩) (hS : V3.dot S S = 1) (hn' : n' ≠ 0) (hrad : 0 ≤ radicand n n' S r) :
    V3.smul n' (V3.cross (gRefract sqrt csgn ltK n n' S r) r) = V3.smul n (V3.cross S r) :=
  (refract_facts sqrt csgn h n n' S r hr hS hn' hrad).2.1

/-- THE REFRACTED RAY CONTINUES THROUGH THE SURFACE: `S'·r` has the sign of `S·r` (the ray leaves on the side it was heading
for), also for a ray that travels against the normal vector (towards `−z` in the surface frame, e.g. after a mirror) -/
theorem refract_continues (sqrt : K → K) (csgn : K → K → K) (h : RootLaws sqrt csgn) (n n' : K) (S r : V3 K)
    (hr : r ≠ ⟨0, 0, 0⟩) (hS : V3.dot S S = 1) (hn' : n' ≠ 0) (hrad : 0 ≤ radicand n n' S r) :
    (0 ≤ V3.dot S r → 0 ≤ V3.dot (gRefract sqrt csgn ltK n n' S r) r) ∧
    (V3.dot S r < 0 → V3.dot (gRefract sqrt csgn ltK n n' S r) r ≤ 0) := by
  have h3 := (refract_facts sqrt csgn h n n' S r hr hS hn' hrad).2.2
  have hc : V3.dot r S = V3.dot S r := by simp only [V3.dot]; ring
  have h0 := h.nonneg (radicand n n' S r)
  rw [h3, hc]
  constructor
  · intro hp; rw [if_neg (not_lt.mpr hp)]; exact h0
  · intro hn; rw [if_pos hn]; linarith

/-- the scalar law of sines: with `cos i = (S·r)/|r|`, `cos i' = (S'·r)/|r|`:
`n'² (1 − cos² i') = n² (1 − cos² i)` -/
theorem refract_snell_sines (sqrt : K → K) (csgn : K → K → K) (h : RootLaws sqrt csgn) (n n' : K) (S r : V3 K)
    (hr : r ≠ ⟨0, 0, 0⟩) (hS : V3.dot S S = 1) (hn' : n' ≠ 0) (hrad : 0 ≤ radicand n n' S r) :
    let S' := gRefract sqrt csgn ltK n n' S r
    n' * n' * (1 - V3.dot S' r * V3.dot S' r / V3.dot r r) = n * n * (1 - V3.dot S r * V3.dot S r / V3.dot r r) := by
  intro S'
  have h1 := (refract_facts sqrt csgn h n n' S r hr hS hn' hrad).2.2
  have hp : V3.dot r r ≠ 0 := ne_of_gt (normSq_pos hr)
  have hσ := h.sq _ hrad
  have hc : V3.dot r S = V3.dot S r := by simp only [V3.dot]; ring
  have hsq : V3.dot S' r * V3.dot S' r = radicand n n' S r := by
    show V3.dot (gRefract sqrt csgn ltK n n' S r) r * V3.dot (gRefract sqrt csgn ltK n n' S r) r = _
    rw [h1]; split_ifs
    · rw [neg_mul_neg]; exact hσ
    · exact hσ
  rw [hsq]
  unfold radicand
  rw [hc]
  field_simp
  ring

/-- as traced: with the vector `raytrace` actually hands to `refract` (the surface gradient `g ≠ 0`), the
outgoing direction has unit length and obeys Snell's law about the true normal direction `g` -/
theorem refract_traced (sqrt : K → K) (csgn : K → K → K) (h : RootLaws sqrt csgn) (n n' : K) (S g : V3 K)
    (hg : g ≠ ⟨0, 0, 0⟩) (hS : V3.dot S S = 1) (hn' : n' ≠ 0) (hrad : 0 ≤ radicand n n' S g) :
    let S' := gRefract sqrt csgn ltK n n' S (refractCallNormal sqrt g)
    V3.dot S' S' = 1 ∧ V3.smul n' (V3.cross S' g) = V3.smul n (V3.cross S g) := by
  have e : refractCallNormal sqrt g = g := (gen_call_normals sqrt g).1
  simp only [e]
  exact ⟨refract_unit sqrt csgn h n n' S g hg hS hn' hrad, refract_snell sqrt csgn h n n' S g hg hS hn' hrad⟩

/-- with a UNIT normal pointing along the ray (`r·S ≥ 0`) the code's formula is Spencer & Murty's printed one -/
theorem refract_unit_normal (sqrt : K → K) (csgn : K → K → K) (h : RootLaws sqrt csgn) (n n' : K) (S r : V3 K)
    (hr : V3.dot r r = 1) (hc : 0 ≤ V3.dot r S) :
    gRefract sqrt csgn ltK n n' S r = refractUnit sqrt n n' S r := by
  rw [gen_refract sqrt csgn h]
  simp only [Model.C19.refract, refractUnit, hr, div_one, ltK, decide_eq_true_eq, not_lt.mpr hc, if_false]

/-- going into the denser medium there is never total internal reflection (hypothesis `hrad` is automatic) -/
theorem refract_no_tir (n n' : K) (S r : V3 K) (hS : V3.dot S S = 1) (hn : 0 < n) (hnn : n ≤ n') :
    0 ≤ radicand n n' S r := radicand_nonneg_of_le n n' S r hS hn hnn

/-! ## frames: an exact rigid motion -/

/-- `RᵀR = I ⇒` leaving the surface frame undoes entering it, for points and for directions -/
theorem rigid_roundtrip (P X S : V3 K) (R : M3 K) (hR : M3.mul (M3.transpose R) R = M3.one) :
    Generated.C19.toGlobalP P (M3.transpose R) (Generated.C19.toLocalP P R X S) S = X ∧
    Generated.C19.toGlobalS P (M3.transpose R) X (Generated.C19.toLocalS P R X S) = S := by
  rcases R with ⟨⟨a, b, c⟩, ⟨d, e, f⟩, ⟨g, h, i⟩⟩
  rcases X with ⟨x, y, z⟩; rcases S with ⟨k, l, m⟩; rcases P with ⟨p, q, r⟩
  simp only [M3.mul, M3.transpose, M3.one, M3.col0, M3.col1, M3.col2, V3.dot, M3.mk.injEq, V3.mk.injEq] at hR
  obtain ⟨⟨h00, h01, h02⟩, ⟨h10, h11, h12⟩, ⟨h20, h21, h22⟩⟩ := hR
  simp only [Generated.C19.toGlobalP, Generated.C19.toLocalP, Generated.C19.toGlobalS, Generated.C19.toLocalS,
    toLocalP, toLocalS, toGlobalP, toGlobalS, M3.mulVec, M3.transpose, V3.dot, V3.sub, V3.add]
  constructor
  · refine V3.ext' ?_ ?_ ?_ <;> simp only []
    · linear_combination (x - p) * h00 + (y - q) * h01 + (z - r) * h02
    · linear_combination (x - p) * h10 + (y - q) * h11 + (z - r) * h12
    · linear_combination (x - p) * h20 + (y - q) * h21 + (z - r) * h22
  · refine V3.ext' ?_ ?_ ?_ <;> simp only []
    · linear_combination k * h00 + l * h01 + m * h02
    · linear_combination k * h10 + l * h11 + m * h12
    · linear_combination k * h20 + l * h21 + m * h22

/-- without a rotation the frame change is a pure translation and is undone exactly -/
theorem rigid_roundtrip_noR (P X S : V3 K) :
    Generated.C19.toGlobalPNoR P (Generated.C19.toLocalPNoR P X S) S = X ∧
    Generated.C19.toGlobalSNoR P X (Generated.C19.toLocalSNoR P X S) = S := by
  rcases X with ⟨x, y, z⟩; rcases P with ⟨p, q, r⟩
  simp only [Generated.C19.toGlobalPNoR, Generated.C19.toLocalPNoR, Generated.C19.toGlobalSNoR,
    Generated.C19.toLocalSNoR, toLocalP, toLocalS, toGlobalP, toGlobalS, V3.sub, V3.add, sub_add_cancel, and_self]

/-- `RᵀR = I ⇒` entering the frame preserves scalar products (hence lengths, angles, direction-cosine
normalisation) and distances between points -/
theorem rigid_isometry (P X Y S T : V3 K) (R : M3 K) (hR : M3.mul (M3.transpose R) R = M3.one) :
    V3.dot (Generated.C19.toLocalS P R X S) (Generated.C19.toLocalS P R X T) = V3.dot S T ∧
    V3.dot (V3.sub (Generated.C19.toLocalP P R X S) (Generated.C19.toLocalP P R Y S))
           (V3.sub (Generated.C19.toLocalP P R X S) (Generated.C19.toLocalP P R Y S))
      = V3.dot (V3.sub X Y) (V3.sub X Y) := by
  rcases R with ⟨⟨a, b, c⟩, ⟨d, e, f⟩, ⟨g, h, i⟩⟩
  rcases X with ⟨x, y, z⟩; rcases Y with ⟨x', y', z'⟩; rcases S with ⟨k, l, m⟩; rcases T with ⟨k', l', m'⟩
  rcases P with ⟨p, q, r⟩
  simp only [M3.mul, M3.transpose, M3.one, M3.col0, M3.col1, M3.col2, V3.dot, M3.mk.injEq, V3.mk.injEq] at hR
  obtain ⟨⟨h00, h01, h02⟩, ⟨h10, h11, h12⟩, ⟨h20, h21, h22⟩⟩ := hR
  simp only [Generated.C19.toLocalP, Generated.C19.toLocalS, toLocalP, toLocalS, M3.mulVec, V3.dot, V3.sub]
  constructor
  · linear_combination (k * k') * h00 + (k * l') * h01 + (k * m') * h02 + (l * k') * h10 + (l * l') * h11
      + (l * m') * h12 + (m * k') * h20 + (m * l') * h21 + (m * m') * h22
  · linear_combination ((x - x') * (x - x')) * h00 + ((x - x') * (y - y')) * h01 + ((x - x') * (z - z')) * h02
      + ((y - y') * (x - x')) * h10 + ((y - y') * (y - y')) * h11 + ((y - y') * (z - z')) * h12
      + ((z - z') * (x - x')) * h20 + ((z - z') * (y - y')) * h21 + ((z - z') * (z - z')) * h22

/-- the matrix `make_rotation_matrix` builds is orthogonal for all three angles (`cᵢ² + sᵢ² = 1`) -/
theorem rotation_orthogonal (c1 s1 c2 s2 c3 s3 : K) (h1 : c1 * c1 + s1 * s1 = 1) (h2 : c2 * c2 + s2 * s2 = 1)
    (h3 : c3 * c3 + s3 * s3 = 1) :
    let R := Generated.C19.rotation c1 s1 c2 s2 c3 s3
    M3.mul (M3.transpose R) R = M3.one ∧ M3.mul R (M3.transpose R) = M3.one := by
  have hx : M3.mul (M3.transpose (rotX c1 s1)) (rotX c1 s1) = M3.one := by
    simp only [rotX, M3.mul, M3.transpose, M3.one, M3.col0, M3.col1, M3.col2, V3.dot]
    refine M3.ext' ?_ ?_ ?_ <;> refine V3.ext' ?_ ?_ ?_ <;> simp only [] <;>
      first | (linear_combination h1) | ring
  have hy : M3.mul (M3.transpose (rotY c2 s2)) (rotY c2 s2) = M3.one := by
    simp only [rotY, M3.mul, M3.transpose, M3.one, M3.col0, M3.col1, M3.col2, V3.dot]
    refine M3.ext' ?_ ?_ ?_ <;> refine V3.ext' ?_ ?_ ?_ <;> simp only [] <;>
      first | (linear_combination h2) | ring
  have hz : M3.mul (M3.transpose (rotZ c3 s3)) (rotZ c3 s3) = M3.one := by
    simp only [rotZ, M3.mul, M3.transpose, M3.one, M3.col0, M3.col1, M3.col2, V3.dot]
    refine M3.ext' ?_ ?_ ?_ <;> refine V3.ext' ?_ ?_ ?_ <;> simp only [] <;>
      first | (linear_combination h3) | ring
  have h := orth_mul (orth_mul hx hy) hz
  intro R
  have e : R = Model.C19.rotation c1 s1 c2 s2 c3 s3 := gen_rotation c1 s1 c2 s2 c3 s3
  rw [e]
  exact ⟨h, orth_comm h⟩

/-- a right inverse is enough: `R Rᵀ = I ⇒ RᵀR = I` (so the hypotheses of the rigid-motion theorems hold for
every orthogonal matrix, however it is presented) -/
theorem orthogonal_either_side (R : M3 K) (h : M3.mul R (M3.transpose R) = M3.one) :
    M3.mul (M3.transpose R) R = M3.one := by
  have : M3.mul (M3.transpose (M3.transpose R)) (M3.transpose R) = M3.one := by
    rcases R with ⟨⟨a, b, c⟩, ⟨d, e, f⟩, ⟨g, h', i⟩⟩
    simpa only [M3.transpose] using h
  exact orth_comm this

/-! ## surfaces: the hit point is on the surface, the vector used as the normal is the true normal -/

/-- the conic sag `z = cρ²/(1+φ)` satisfies the conic equation `cρ² − 2z + (1+κ)c z² = 0` for every curvature,
conic constant and radius with `1 − (1+κ)c²ρ² ≥ 0` -/
theorem conic_on_surface (sqrt : K → K) (hs : ∀ x, 0 ≤ x → sqrt x * sqrt x = x) (hs0 : ∀ x, 0 ≤ sqrt x)
    (c k rhosq : K) (h : 0 ≤ phiSq c k rhosq) :
    let z := Generated.C19.conicSag sqrt c k rhosq
    c * rhosq - 2 * z + (1 + k) * c * (z * z) = 0 := by
  intro z
  have e : z = conicSag c rhosq (sqrt (phiSq c k rhosq)) := (gen_conic sqrt c k 0 rhosq 0).1
  have hφ := hs _ h
  have h1 : 1 + sqrt (phiSq c k rhosq) ≠ 0 := ne_of_gt (by linarith [hs0 (phiSq c k rhosq)])
  rw [e]
  generalize sqrt (phiSq c k rhosq) = φ at *
  simp only [conicSag, phiSq] at *
  field_simp
  linear_combination (c * rhosq) * hφ

/-- the vector `(−F_x, −F_y, 1)` the tracer works with is parallel to the gradient of the conic's implicit
equation `G = cρ² − 2z + (1+κ)c z²`, i.e. it IS the surface normal: `−2φ · (−F_x, −F_y, 1) = ∇G` -/
theorem conic_normal (sqrt : K → K) (hs : ∀ x, 0 ≤ x → sqrt x * sqrt x = x) (hs0 : ∀ x, 0 ≤ sqrt x)
    (c k x y : K) (h : 0 < phiSq c k (x * x + y * y)) :
    let φ := sqrt (phiSq c k (x * x + y * y))
    let zn := sagNormal sqrt (.conic c k) x y
    V3.smul (-2 * φ) zn.2 = ⟨2 * c * x, 2 * c * y, -2 + 2 * (1 + k) * c * zn.1⟩ := by
  have hφ := hs _ h.le
  have h0 : sqrt (phiSq c k (x * x + y * y)) ≠ 0 := by
    intro h0; rw [h0, mul_zero] at hφ; exact absurd hφ.symm (ne_of_gt h)
  have h1 : 1 + sqrt (phiSq c k (x * x + y * y)) ≠ 0 := ne_of_gt (by linarith [hs0 (phiSq c k (x * x + y * y))])
  simp only [sagNormal, sagGrad, Model.C19.normalOfGrad, V3.smul, conicSag]
  generalize sqrt (phiSq c k (x * x + y * y)) = φ at *
  simp only [phiSq] at hφ
  refine V3.ext' ?_ ?_ ?_ <;> simp only [] <;> field_simp
  all_goals first | ring1 | linear_combination (-1 : K) * hφ

/-- the same for the off-axis conic (the parent conic seen from the shifted origin), with the gradient the
CODE computes in `Surface.off_axis_conic(...).FFp` -/
theorem offaxis_normal (sqrt : K → K) (hs : ∀ x, 0 ≤ x → sqrt x * sqrt x = x) (hs0 : ∀ x, 0 ≤ sqrt x)
    (c k dx dy x y : K) (h : 0 < phiSq c k ((x + dx) * (x + dx) + (y + dy) * (y + dy))) :
    let φ := sqrt (phiSq c k ((x + dx) * (x + dx) + (y + dy) * (y + dy)))
    let z := Generated.C19.offAxisFFpZ sqrt c k dx dy x y
    let n := Generated.C19.normalOfGrad (Generated.C19.offAxisFFpX sqrt c k dx dy x y)
      (Generated.C19.offAxisFFpY sqrt c k dx dy x y)
    c * ((x + dx) * (x + dx) + (y + dy) * (y + dy)) - 2 * z + (1 + k) * c * (z * z) = 0 ∧
    V3.smul (-2 * φ) n = ⟨2 * c * (x + dx), 2 * c * (y + dy), -2 + 2 * (1 + k) * c * z⟩ := by
  have hφ := hs _ h.le
  set A := (x + dx) * (x + dx) + (y + dy) * (y + dy) with hA
  have h0 : sqrt (phiSq c k A) ≠ 0 := by
    intro h0; rw [h0, mul_zero] at hφ; exact absurd hφ.symm (ne_of_gt h)
  have h1 : 1 + sqrt (phiSq c k A) ≠ 0 := ne_of_gt (by linarith [hs0 (phiSq c k A)])
  have e := gen_offaxis_ffp sqrt c k dx dy x y
  simp only [sagGrad, Prod.mk.injEq] at e
  obtain ⟨ez, ex, ey⟩ := e
  simp only [ez, ex, ey, gen_normalOfGrad, Model.C19.normalOfGrad, V3.smul, conicSag, ← hA]
  generalize sqrt (phiSq c k A) = φ at *
  simp only [phiSq] at hφ
  refine ⟨?_, ?_⟩
  · field_simp
    linear_combination (c * A) * hφ
  · refine V3.ext' ?_ ?_ ?_ <;> simp only [] <;> field_simp
    all_goals first | ring1 | linear_combination (-1 : K) * hφ

/-- real analysis (no parameters): over `ℝ` with the real square root, `conic_sag_der` IS the derivative of
`conic_sag` with respect to the radial coordinate, wherever `1 − (1+κ)c²ρ² > 0` -/
theorem conic_sag_derivative (c k ρ : ℝ) (h : 0 < phiSq c k (ρ * ρ)) :
    HasDerivAt (fun t : ℝ => Generated.C19.conicSag Real.sqrt c k (t * t))
      (Generated.C19.conicSagDer Real.sqrt c k ρ) ρ := by
  have e1 : (fun t : ℝ => Generated.C19.conicSag Real.sqrt c k (t * t)) =
      fun t : ℝ => conicSag c (t * t) (Real.sqrt (phiSq c k (t * t))) := by
    funext t; exact (gen_conic Real.sqrt c k 0 (t * t) 0).1
  rw [e1, (gen_conic Real.sqrt c k ρ 0 0).2.1]
  have h0 : HasDerivAt (fun t : ℝ => t * t) (1 * ρ + ρ * 1) ρ := HasDerivAt.mul (hasDerivAt_id' ρ) (hasDerivAt_id' ρ)
  have hu : HasDerivAt (fun t : ℝ => phiSq c k (t * t)) (-((1 + k) * (c * c) * (1 * ρ + ρ * 1))) ρ := by
    have h1 := HasDerivAt.const_mul ((1 + k) * (c * c)) h0
    exact HasDerivAt.const_sub 1 h1
  have hs := HasDerivAt.sqrt hu (ne_of_gt h)
  have hden := HasDerivAt.const_add 1 hs
  have hnum : HasDerivAt (fun t : ℝ => c * (t * t)) (c * (1 * ρ + ρ * 1)) ρ := HasDerivAt.const_mul c h0
  have hφpos : 0 < Real.sqrt (phiSq c k (ρ * ρ)) := Real.sqrt_pos.mpr h
  have hne : 1 + Real.sqrt (phiSq c k (ρ * ρ)) ≠ 0 := by positivity
  have hd := HasDerivAt.fun_div hnum hden hne
  simp only [conicSag, conicSagDer]
  refine hd.congr_deriv ?_
  have hφ2 : Real.sqrt (phiSq c k (ρ * ρ)) * Real.sqrt (phiSq c k (ρ * ρ)) = phiSq c k (ρ * ρ) :=
    Real.mul_self_sqrt h.le
  have hφ0 : Real.sqrt (phiSq c k (ρ * ρ)) ≠ 0 := ne_of_gt hφpos
  generalize Real.sqrt (phiSq c k (ρ * ρ)) = φ at *
  simp only [phiSq] at hφ2
  field_simp
  linear_combination (2 * c * ρ) * hφ2

/-! ## the polar route to the gradient, and the axis of symmetry -/

/-- `surface_normal_from_cylindrical_derivatives` never divides by zero — in particular not for the
on-axis point `r = 0` (in IEEE arithmetic `1/0 * 0` would be NaN) -/
theorem cyl_normal_defined (fp ft r cost sint : K) :
    ∀ d ∈ Generated.C19.cylNormalDenoms fp ft r cost sint, d ≠ 0 := by
  intro d hd
  simp only [Generated.C19.cylNormalDenoms, List.mem_cons, List.not_mem_nil, or_false] at hd
  subst hd
  split_ifs with h
  · exact one_ne_zero
  · exact h

/-- off the axis it is the chain rule `f_x = f_r ∂r/∂x + f_t ∂t/∂x`, `∂r/∂x = x/r`, `∂t/∂x = −y/r²` (and the
same for `y`), with `x = r cos t`, `y = r sin t` -/
theorem cyl_normal_chain_rule (fp ft r cost sint : K) (hr : r ≠ 0) :
    Generated.C19.cylNormalX fp ft r cost sint = fp * ((r * cost) / r) + ft * (-(r * sint) / (r * r)) ∧
    Generated.C19.cylNormalY fp ft r cost sint = fp * ((r * sint) / r) + ft * ((r * cost) / (r * r)) := by
  have e := gen_cyl fp ft r cost sint
  simp only [cylNormalTotal, Prod.mk.injEq, decide_eq_true_eq, hr, if_false] at e
  obtain ⟨ex, ey⟩ := e
  rw [ex, ey]
  constructor <;> field_simp <;> ring

/-- on the axis (`r = 0`, where `f_t = 0`) the result is `(f_r cos t, f_r sin t)`; for a rotationally symmetric
surface `f_r(0) = 0`, so the normal is `(0, 0, 1)` -/
theorem cyl_normal_on_axis (fp cost sint : K) :
    Generated.C19.cylNormalX fp 0 0 cost sint = fp * cost ∧ Generated.C19.cylNormalY fp 0 0 cost sint = fp * sint := by
  have e := gen_cyl fp 0 0 cost sint
  simp only [cylNormalTotal, Prod.mk.injEq, decide_eq_true_eq, if_true, zero_div, zero_mul, sub_zero, add_zero] at e
  exact e

/-- the gradient the CODE computes for a conic (radial derivative `cρ/φ`, azimuthal derivative `0`, polar route)
is the Cartesian gradient `(c x/φ, c y/φ)` at every point of the surface, the vertex included (a ray along the axis of
symmetry is traced like any other ray).  At the rim `φ = 0` both sides are `x/0`, equal only by the field convention `x/0 = 0`;
the statement carries content for `φ ≠ 0`, which is the surface's domain -/
theorem conic_code_gradient (sqrt : K → K) (c k r cost sint : K) (hcs : cost * cost + sint * sint = 1) :
    let dr := Generated.C19.conicSagDer sqrt c k r
    let g := sagGrad sqrt (.conic c k) (r * cost) (r * sint)
    Generated.C19.conicSag sqrt c k (r * r) = g.1 ∧
    Generated.C19.cylNormalX dr 0 r cost sint = g.2.1 ∧ Generated.C19.cylNormalY dr 0 r cost sint = g.2.2 ∧
    Generated.C19.conicUsesSagDerAndZeroAzimuthal = true := by
  have hsq : r * cost * (r * cost) + r * sint * (r * sint) = r * r := by linear_combination (r * r) * hcs
  have e := gen_cyl (Generated.C19.conicSagDer sqrt c k r) 0 r cost sint
  simp only [cylNormalTotal, Prod.mk.injEq, zero_div, zero_mul, sub_zero, add_zero] at e
  obtain ⟨ex, ey⟩ := e
  have ec := gen_conic sqrt c k r (r * r) 0
  refine ⟨?_, ?_, ?_, by decide⟩
  · simp only [ec.1, sagGrad, hsq]
  · rw [ex]; simp only [ec.2.1, sagGrad, hsq, conicSagDer]; ring
  · rw [ey]; simp only [ec.2.1, sagGrad, hsq, conicSagDer]; ring

/-- at the vertex of a conic the sag is `0` and the normal is `(0, 0, 1)`, whatever `sqrt` does -/
theorem conic_vertex (sqrt : K → K) (c k : K) :
    sagNormal sqrt (.conic c k) 0 0 = (0, ⟨0, 0, 1⟩) := by
  simp only [sagNormal, sagGrad, conicSag, Model.C19.normalOfGrad, mul_zero, add_zero, zero_div, neg_zero]

/-- the public polar functions `off_axis_conic_sag / off_axis_conic_der` (section shifted in x) ARE the parent conic at
shifted coordinates: sag `= c A/(1+φ)` with `A = (x+s)² + y²`, and `(∂_r, ∂_t)` are the chain-rule images
`f_x cos t + f_y sin t`, `r (f_y cos t − f_x sin t)` of the Cartesian gradient `c (x+s, y)/φ` -/
theorem offaxis_polar_dx (sqrt : K → K) (c k r cost sint s φ : K) (hcs : cost * cost + sint * sint = 1)
    (hφdef : φ = sqrt (phiSq c k ((r * cost + s) * (r * cost + s) + r * sint * (r * sint))))
    (hφ : φ * φ = phiSq c k ((r * cost + s) * (r * cost + s) + r * sint * (r * sint)))
    (h0 : φ ≠ 0) (h1 : 1 + φ ≠ 0) :
    let A := (r * cost + s) * (r * cost + s) + r * sint * (r * sint)
    let fx := c * (r * cost + s) / φ
    let fy := c * (r * sint) / φ
    Generated.C19.offAxisSagDx sqrt c k r cost sint s = conicSag c A φ ∧
    Generated.C19.offAxisDerRDx sqrt c k r cost sint s = fx * cost + fy * sint ∧
    Generated.C19.offAxisDerTDx sqrt c k r cost sint s = r * (fy * cost - fx * sint) := by
  intro A fx fy
  have hagg : r * r + 2 * s * r * cost + s * s = A := by
    show _ = (r * cost + s) * (r * cost + s) + r * sint * (r * sint)
    linear_combination (-(r * r)) * hcs
  have hagg' : (r * cost + s) * (r * cost + s) + r * sint * (r * sint) = A := rfl
  simp only [Generated.C19.offAxisSagDx, Generated.C19.offAxisDerRDx, Generated.C19.offAxisDerTDx, hagg, hagg', conicSag,
    phiSq]
  have e : sqrt (1 - (1 + k) * (c * c) * A) = φ := by rw [hφdef]; rfl
  simp only [e]
  simp only [phiSq] at hφ
  refine ⟨trivial, ?_, ?_⟩
  · simp only [fx, fy] <;> field_simp <;> first
      | linear_combination (c * (r + s * cost)) * hφ - (c * r * (1 + φ) ^ 2) * hcs
      | ring1
  · simp only [fx, fy] <;> field_simp <;> first
      | linear_combination (-(c * r * s * sint)) * hφ
      | ring1

/-- the same for a section shifted in y -/
theorem offaxis_polar_dy (sqrt : K → K) (c k r cost sint s φ : K) (hcs : cost * cost + sint * sint = 1)
    (hφdef : φ = sqrt (phiSq c k (r * cost * (r * cost) + (r * sint + s) * (r * sint + s))))
    (hφ : φ * φ = phiSq c k (r * cost * (r * cost) + (r * sint + s) * (r * sint + s)))
    (h0 : φ ≠ 0) (h1 : 1 + φ ≠ 0) :
    let A := r * cost * (r * cost) + (r * sint + s) * (r * sint + s)
    let fx := c * (r * cost) / φ
    let fy := c * (r * sint + s) / φ
    Generated.C19.offAxisSagDy sqrt c k r cost sint s = conicSag c A φ ∧
    Generated.C19.offAxisDerRDy sqrt c k r cost sint s = fx * cost + fy * sint ∧
    Generated.C19.offAxisDerTDy sqrt c k r cost sint s = r * (fy * cost - fx * sint) := by
  intro A fx fy
  have hagg : r * r + 2 * s * r * sint + s * s = A := by
    show _ = r * cost * (r * cost) + (r * sint + s) * (r * sint + s)
    linear_combination (-(r * r)) * hcs
  have hagg' : r * cost * (r * cost) + (r * sint + s) * (r * sint + s) = A := rfl
  simp only [Generated.C19.offAxisSagDy, Generated.C19.offAxisDerRDy, Generated.C19.offAxisDerTDy, hagg, hagg', conicSag,
    phiSq]
  have e : sqrt (1 - (1 + k) * (c * c) * A) = φ := by rw [hφdef]; rfl
  simp only [e]
  simp only [phiSq] at hφ
  refine ⟨trivial, ?_, ?_⟩
  · simp only [fx, fy] <;> field_simp <;> first
      | linear_combination (c * (r + s * sint)) * hφ - (c * r * (1 + φ) ^ 2) * hcs
      | ring1
  · simp only [fx, fy] <;> field_simp <;> first
      | linear_combination (c * r * s * cost) * hφ
      | ring1

/-- feeding polar derivatives that are the chain-rule images of a Cartesian gradient `(f_x, f_y)` through
`surface_normal_from_cylindrical_derivatives` gives `(f_x, f_y)` back, off the axis -/
theorem cyl_normal_roundtrip (fx fy r cost sint : K) (hr : r ≠ 0) (hcs : cost * cost + sint * sint = 1) :
    Generated.C19.cylNormalX (fx * cost + fy * sint) (r * (fy * cost - fx * sint)) r cost sint = fx ∧
    Generated.C19.cylNormalY (fx * cost + fy * sint) (r * (fy * cost - fx * sint)) r cost sint = fy := by
  have e := gen_cyl (fx * cost + fy * sint) (r * (fy * cost - fx * sint)) r cost sint
  simp only [cylNormalTotal, Prod.mk.injEq, decide_eq_true_eq, hr, if_false] at e
  obtain ⟨ex, ey⟩ := e
  rw [ex, ey]
  constructor <;> field_simp
  · first | linear_combination fx * hcs | linear_combination (fx * r) * hcs
  · first | linear_combination fy * hcs | linear_combination (fy * r) * hcs

/-! ## intersection -/

/-- `intersect` first moves the ray to the plane `z = 0` of the surface frame (needs `m ≠ 0`) -/
theorem vertex_plane (P0 S : V3 K) (hm : S.z ≠ 0) : (Generated.C19.toVertexPlane P0 S).z = 0 := by
  rw [gen_vertex_plane]
  simp only [Model.C19.toVertexPlane, V3.add, V3.smul]
  field_simp
  ring

/-- the ONLY statement made about the solver: if the Newton iteration stops (`|s_{j+1} − s_j| < ε · max(1, |P_j|_∞)`) then the
residual `F = Z_j − sag(X_j, Y_j)` at the point `P_j = P1 + s_j S` it returns (the point BEFORE the last update) satisfies
`|F| < ε · max(1, |P_j|_∞) · |F'|`, `F' = S·r`, in exact arithmetic; the generated scale is the model's and is `≥ 1`.
Convergence itself, the per-ray masking and rounding are NOT proved. -/
theorem newton_postcondition (P1 S r : V3 K) (sj sag eps : K)
    (hFp : Generated.C19.newtonFp abs P1 S sj sag r ≠ 0)
    (hstop : Generated.C19.newtonDelta abs P1 S sj sag r <
      eps * Generated.C19.newtonScale abs max (Generated.C19.newtonPoint abs P1 S sj sag r)) :
    let Pj := Generated.C19.newtonPoint abs P1 S sj sag r
    |Pj.z - sag| < eps * Generated.C19.newtonScale abs max Pj * |V3.dot S r| ∧
    Generated.C19.newtonScale abs max Pj = newtonScale ltK Pj ∧ 1 ≤ Generated.C19.newtonScale abs max Pj := by
  intro Pj
  refine ⟨?_, ?_, ?_⟩
  · simp only [Generated.C19.newtonFp, Generated.C19.newtonDelta] at hFp hstop
    have hpos : 0 < |V3.dot S r| := abs_pos.mpr hFp
    rw [sub_sub_cancel_left, abs_neg, abs_div, div_lt_iff₀ hpos] at hstop
    simpa only [Pj, Generated.C19.newtonPoint] using hstop
  · simp only [Generated.C19.newtonScale, newtonScale, ltK, decide_eq_true_eq]
    have habs : ∀ v : K, (if v < 0 then -v else v) = |v| := by
      intro v; split_ifs with h
      · exact (abs_of_neg h).symm
      · exact (abs_of_nonneg (not_lt.mp h)).symm
    have hmax : ∀ a b : K, (if a < b then b else a) = max a b := by
      intro a b; split_ifs with h
      · exact (max_eq_right h.le).symm
      · exact (max_eq_left (not_lt.mp h)).symm
    simp only [habs, hmax]
  · simp only [Generated.C19.newtonScale]
    exact le_max_left _ _

/-! ## session 3: closed forms the Newton iteration must agree with (planes: convergence PROVED; conics: exact root) -/

/-- along any ray the conic's implicit equation is the quadratic `A s² + 2 B s + C` (so a ray meets a conic in at most two points) -/
theorem conic_ray_quadratic (c k s : K) (P S : V3 K) :
    conicImplicit c k (V3.add P (V3.smul s S)) = conicA c k S * (s * s) + 2 * conicB c k P S * s + conicC c k P := by
  simp only [conicImplicit, conicA, conicB, conicC, V3.add, V3.smul]
  ring

/-- the closed-form intersection `P + s S`, `s = C / (√(B² − AC) − B)`, lies on the conic `cρ² − 2z + (1+κ)c z² = 0` — every
curvature (the plane `c = 0` included), conic constant, ray origin and direction for which the discriminant is non-negative -/
theorem conic_closed_form_hit (sqrt : K → K) (hs : ∀ x, 0 ≤ x → sqrt x * sqrt x = x)
    (c k : K) (P S : V3 K)
    (hD : 0 ≤ conicB c k P S * conicB c k P S - conicA c k S * conicC c k P)
    (hden : sqrt (conicB c k P S * conicB c k P S - conicA c k S * conicC c k P) - conicB c k P S ≠ 0) :
    conicImplicit c k (conicHit sqrt c k P S) = 0 := by
  rw [conicHit, conic_ray_quadratic]
  simp only [conicHitS]
  have hσ := hs _ hD
  generalize sqrt (conicB c k P S * conicB c k P S - conicA c k S * conicC c k P) = σ at *
  generalize conicA c k S = A at *
  generalize conicB c k P S = B at *
  generalize conicC c k P = C at *
  field_simp
  linear_combination C * hσ

/-- a point of the implicit conic on the vertex branch (`1 − (1+κ)c z ≥ 0`) IS a point of the sag function the code evaluates
(translated `conic_sag`): `z = cρ²/(1+φ)`.  With `conic_on_surface` (the converse): on that branch `G = 0 ⟺ z = sag(x, y)`, so the
closed-form hit and the point Newton converges to (`F = z − sag = 0`) are the same point -/
theorem conic_implicit_is_sag (sqrt : K → K) (hs : ∀ x, 0 ≤ x → sqrt x * sqrt x = x) (hs0 : ∀ x, 0 ≤ sqrt x)
    (c k : K) (P : V3 K) (hG : conicImplicit c k P = 0) (hbr : 0 ≤ 1 - (1 + k) * c * P.z) :
    P.z = Generated.C19.conicSag sqrt c k (P.x * P.x + P.y * P.y) := by
  rw [(gen_conic sqrt c k 0 (P.x * P.x + P.y * P.y) 0).1]
  have hu : phiSq c k (P.x * P.x + P.y * P.y) = (1 - (1 + k) * c * P.z) * (1 - (1 + k) * c * P.z) := by
    simp only [phiSq, conicImplicit] at *
    linear_combination (-(1 + k) * c) * hG
  have hnn : 0 ≤ phiSq c k (P.x * P.x + P.y * P.y) := by rw [hu]; exact mul_self_nonneg _
  have hφ : sqrt (phiSq c k (P.x * P.x + P.y * P.y)) = 1 - (1 + k) * c * P.z := by
    have h1 := hs _ hnn
    have h2 := hs0 (phiSq c k (P.x * P.x + P.y * P.y))
    generalize sqrt (phiSq c k (P.x * P.x + P.y * P.y)) = φ at h1 h2 ⊢
    rw [hu] at h1
    have : (φ - (1 - (1 + k) * c * P.z)) * (φ + (1 - (1 + k) * c * P.z)) = 0 := by linear_combination h1
    rcases mul_eq_zero.mp this with h | h
    · linarith
    · have : φ = 0 ∧ 1 - (1 + k) * c * P.z = 0 := ⟨by linarith, by linarith⟩
      linarith [this.1, this.2]
  rw [hφ]
  have hd : 1 + (1 - (1 + k) * c * P.z) ≠ 0 := ne_of_gt (by linarith)
  rw [conicSag, eq_div_iff hd]
  simp only [conicImplicit] at hG
  linear_combination -hG

/-- PLANES — convergence proved, not trusted: for every ray that is not parallel to the plane, every `eps > 0` and every iteration
budget ≥ 1, the Newton loop of `intersect` (model, with the code's stopping rule) stops in its FIRST pass and returns the exact
intersection with `z = 0` and the normal `(−0, −0, 1)` -/
theorem plane_intersect_converges (sqrt : K → K) (P0 S : V3 K) (eps : K) (fuel : Nat) (hm : S.z ≠ 0) (he : 0 < eps) :
    ∃ P r, intersect sqrt ltK Shape.plane P0 S eps (fuel + 1) = some (P, r) ∧
      P.z = 0 ∧ P.x = P0.x + (-P0.z / S.z) * S.x ∧ P.y = P0.y + (-P0.z / S.z) * S.y ∧ r = ⟨-0, -0, 1⟩ := by
  have hz : (Model.C19.toVertexPlane P0 S).z = 0 := by
    simp only [Model.C19.toVertexPlane, V3.add, V3.smul]; field_simp; ring
  simp only [intersect, newton, newtonStep, sagNormal, sagGrad, normalOfGrad]
  have hd : (0 : K) - ((V3.add (Model.C19.toVertexPlane P0 S) (V3.smul 0 S)).z - 0) / V3.dot S ⟨-0, -0, 1⟩ - 0 = 0 := by
    simp only [V3.add, V3.smul, V3.dot, hz]; simp
  simp only [hd]
  have hsc : (1 : K) ≤ newtonScale ltK (V3.add (Model.C19.toVertexPlane P0 S) (V3.smul 0 S)) := by
    simp only [newtonScale, ltK, decide_eq_true_eq]
    split_ifs <;> first | exact le_refl _ | (rename_i h; exact le_of_lt ‹_›) | linarith
  have : ltK (if ltK (0 : K) 0 = true then -(0 : K) else 0)
      (eps * newtonScale ltK (V3.add (Model.C19.toVertexPlane P0 S) (V3.smul 0 S))) = true := by
    simp only [ltK, lt_self_iff_false, decide_false, Bool.false_eq_true, if_false, decide_eq_true_eq]
    exact mul_pos he (by linarith)
  rw [if_pos this]
  refine ⟨_, _, rfl, ?_, ?_, ?_, rfl⟩
  · simp only [V3.add, V3.smul, hz]; simp
  · simp only [V3.add, V3.smul, Model.C19.toVertexPlane]; ring
  · simp only [V3.add, V3.smul, Model.C19.toVertexPlane]; ring

/-- the same on the TRANSLATED Newton update: on a plane one update from ANY `s_j` lands on the exact root `s = 0` of the
vertex-plane point, and started at `s = 0` (as `intersect` does) the step length is `0 < eps · scale` -/
theorem plane_newton_one_step (P1 S : V3 K) (sj : K) (hz : P1.z = 0) (hm : S.z ≠ 0) :
    Generated.C19.newtonNext abs P1 S sj 0 ⟨-0, -0, 1⟩ = 0 ∧ Generated.C19.newtonDelta abs P1 S 0 0 ⟨-0, -0, 1⟩ = 0 := by
  constructor
  · simp only [Generated.C19.newtonNext, V3.add, V3.smul, V3.dot, hz]
    have : (0 + sj * S.z - 0) / (S.x * -0 + S.y * -0 + S.z * 1) = sj := by
      rw [show S.x * -0 + S.y * -0 + S.z * 1 = S.z by ring, show (0 : K) + sj * S.z - 0 = sj * S.z by ring]
      exact mul_div_cancel_right₀ sj hm
    first
      | (rw [this]; ring)
      | (field_simp; ring)
  · simp only [Generated.C19.newtonDelta, V3.add, V3.smul, V3.dot, hz]
    simp

/-- non-vacuity of `conic_closed_form_hit` / `conic_implicit_is_sag`: sphere `c = 1/5`, axial ray from `(3, 0, 0)`: `A = 1/5`,
`B = −1`, `C = 9/5`, discriminant `16/25 = (4/5)²`, hit `z = 1 = sag(3)`, on the vertex branch -/
example : let P : V3 ℚ := ⟨3, 0, 0⟩; let S : V3 ℚ := ⟨0, 0, 1⟩
    conicB (1 / 5) 0 P S * conicB (1 / 5) 0 P S - conicA (1 / 5) 0 S * conicC (1 / 5) 0 P = 4 / 5 * (4 / 5) ∧
    conicImplicit (1 / 5 : ℚ) 0 ⟨3, 0, 1⟩ = 0 ∧ (0 : ℚ) ≤ 1 - (1 + 0) * (1 / 5) * 1 := by
  simp only [conicA, conicB, conicC, conicImplicit]; norm_num

/-! ## session 3: whole-trace composition — unit direction cosines through any prescription -/

/-- whatever the Newton loop of the model returns as the normal is a vector `(−F_x, −F_y, 1)`: its `z` component is 1, so it is never zero -/
theorem newton_normal_z (sqrt : K → K) (lt : K → K → Bool) (sh : Shape K) (P1 S : V3 K) (eps : K) :
    ∀ (fuel : Nat) (sj : K) (Pj r : V3 K), newton sqrt lt sh P1 S eps fuel sj = some (Pj, r) → r.z = 1 := by
  intro fuel
  induction fuel with
  | zero => intro sj Pj r h; simp [newton] at h
  | succ f ih =>
    intro sj Pj r h
    have hst : (newtonStep sqrt sh P1 S sj).2.1.z = 1 := by simp [newtonStep, sagNormal, normalOfGrad]
    simp only [newton] at h
    generalize newtonStep sqrt sh P1 S sj = st at h hst
    obtain ⟨Pj', r', s'⟩ := st
    simp only at h hst
    split at h <;> split at h
    all_goals first
      | (have h2 := congrArg Prod.snd (Option.some.inj h); simp only at h2; rw [← h2]; exact hst)
      | exact ih _ _ _ h

/-- an orthogonal matrix preserves the squared length of a direction vector -/
theorem mulVec_norm (R : M3 K) (hR : M3.mul (M3.transpose R) R = M3.one) (S : V3 K) :
    V3.dot (M3.mulVec R S) (M3.mulVec R S) = V3.dot S S := by
  rcases R with ⟨⟨a, b, c⟩, ⟨d, e, f⟩, ⟨g, h, i⟩⟩
  rcases S with ⟨k, l, m⟩
  simp only [M3.mul, M3.transpose, M3.one, M3.col0, M3.col1, M3.col2, V3.dot, M3.mk.injEq, V3.mk.injEq] at hR
  obtain ⟨⟨h00, h01, h02⟩, ⟨h10, h11, h12⟩, ⟨h20, h21, h22⟩⟩ := hR
  simp only [M3.mulVec, V3.dot]
  linear_combination (k * k) * h00 + (k * l) * h01 + (k * m) * h02 + (l * k) * h10 + (l * l) * h11
    + (l * m) * h12 + (m * k) * h20 + (m * l) * h21 + (m * m) * h22

/-- a frame rotation that is orthogonal on both sides (`RᵀR = I` and `R Rᵀ = I`; either implies the other: `orthogonal_either_side`) -/
def Orth (R : Option (M3 K)) : Prop :=
  ∀ M, R = some M → M3.mul (M3.transpose M) M = M3.one ∧ M3.mul (M3.transpose (M3.transpose M)) (M3.transpose M) = M3.one

/-- entering a surface frame keeps direction cosines normalised -/
theorem toLocalS_norm (R : Option (M3 K)) (h : Orth R) (S : V3 K) : V3.dot (toLocalS R S) (toLocalS R S) = V3.dot S S := by
  cases R with
  | none => rfl
  | some M => exact mulVec_norm M (h M rfl).1 S

/-- leaving a surface frame (through `Rᵀ`, as `raytrace` does) keeps direction cosines normalised -/
theorem toGlobalS_norm (R : Option (M3 K)) (h : Orth R) (S : V3 K) : V3.dot (toGlobalS R S) (toGlobalS R S) = V3.dot S S := by
  cases R with
  | none => rfl
  | some M => exact mulVec_norm (M3.transpose M) (h M rfl).2 S

/-- ONE SURFACE of the model tracer, any kind (mirror, refracting, evaluation), any shape, any frame: a unit direction in gives a
unit direction out (global frame), the local incident direction is the rotated input and the normal handed on is non-zero -/
theorem traceOne_unit (sqrt : K → K) (hs : ∀ x, 0 ≤ x → sqrt x * sqrt x = x) (eps : K) (maxiter : Nat)
    (sf : Surface K) (P S : V3 K) (n : K) (h : Hit K)
    (ht : traceOne sqrt ltK eps maxiter sf P S n = some h) (hS : V3.dot S S = 1) (hR : Orth sf.R)
    (hrefr : sf.kind = Kind.refract → sf.n ≠ 0 ∧ 0 ≤ radicand n sf.n h.Sloc h.r) :
    V3.dot h.Sg h.Sg = 1 ∧ h.Sloc = toLocalS sf.R S ∧ h.r.z = 1 := by
  unfold traceOne at ht
  simp only at ht
  cases hI : intersect sqrt ltK sf.shape (toLocalP sf.P sf.R P) (toLocalS sf.R S) eps maxiter with
  | none => rw [hI] at ht; simp at ht
  | some pr =>
    obtain ⟨Pj, r⟩ := pr
    rw [hI] at ht
    have hz : r.z = 1 := newton_normal_z sqrt ltK sf.shape _ _ eps maxiter 0 Pj r hI
    have hr : r ≠ ⟨0, 0, 0⟩ := by
      intro e; rw [e] at hz; simp at hz
    have hS0 : V3.dot (toLocalS sf.R S) (toLocalS sf.R S) = 1 := by rw [toLocalS_norm _ hR, hS]
    simp only [Option.some.injEq] at ht
    subst ht
    refine ⟨?_, rfl, hz⟩
    simp only
    rw [toGlobalS_norm _ hR]
    cases hk : sf.kind with
    | reflect =>
      simp only
      have hp := normSq_pos hr
      rcases hloc : toLocalS sf.R S with ⟨k, l, m⟩
      rw [hloc] at hS0
      rcases r with ⟨a, b, c⟩
      simp only [Model.C19.reflect, V3.dot, V3.sub, V3.smul] at *
      have h3 : a * a + b * b + c * c ≠ 0 := ne_of_gt hp
      field_simp
      linear_combination (a * a + b * b + c * c) ^ 2 * hS0
    | eval => simpa only using hS0
    | refract =>
      simp only [hk] at hrefr ⊢
      obtain ⟨hn', hrad⟩ := hrefr trivial
      have hσ := hs _ hrad
      by_cases hc : V3.dot r (toLocalS sf.R S) < 0
      · have hσ' : (-sqrt (radicand n sf.n (toLocalS sf.R S) r)) * (-sqrt (radicand n sf.n (toLocalS sf.R S) r))
            = radicand n sf.n (toLocalS sf.R S) r := by rw [neg_mul_neg]; exact hσ
        have := (refract_core n sf.n _ (toLocalS sf.R S) r hr hS0 hn' hσ').1
        simpa only [Model.C19.refract, ltK, decide_eq_true_eq, hc, if_true, radicand] using this
      · have := (refract_core n sf.n _ (toLocalS sf.R S) r hr hS0 hn' hσ).1
        simpa only [Model.C19.refract, ltK, decide_eq_true_eq, hc, if_false, radicand] using this
/-- below the critical angle at every refracting surface of the prescription, with the index in front of each surface threaded as
the tracer threads it -/
def NoTIR : List (Surface K) → List (Hit K) → K → Prop
  | [], [], _ => True
  | sf :: ss, h :: hs, n => (sf.kind = Kind.refract → sf.n ≠ 0 ∧ 0 ≤ radicand n sf.n h.Sloc h.r) ∧ NoTIR ss hs h.n
  | _, _, _ => False

/-- WHOLE-TRACE COMPOSITION: for every prescription (any number of surfaces, any mix of mirrors / refracting / evaluation surfaces,
planes / conics / off-axis conics, tilted and decentred orthogonal frames) the model tracer returns one hit per surface and EVERY
outgoing direction has unit length, provided the ray starts with unit direction cosines and stays below the critical angle at each
refracting surface (indices threaded as the tracer threads them) — by induction over the surface list -/
theorem trace_unit_directions (sqrt : K → K) (hsq : ∀ x, 0 ≤ x → sqrt x * sqrt x = x) (eps : K) (maxiter : Nat) :
    ∀ (surfs : List (Surface K)) (P S : V3 K) (n : K) (hits : List (Hit K)),
      trace sqrt ltK eps maxiter surfs P S n = some hits → V3.dot S S = 1 → (∀ sf ∈ surfs, Orth sf.R) →
      NoTIR surfs hits n → hits.length = surfs.length ∧ ∀ h ∈ hits, V3.dot h.Sg h.Sg = 1 := by
  intro surfs
  induction surfs with
  | nil =>
    intro P S n hits ht _ _ _
    simp only [trace, Option.some.injEq] at ht
    subst ht
    simp
  | cons sf ss ih =>
    intro P S n hits ht hS hO hN
    simp only [trace] at ht
    cases h1 : traceOne sqrt ltK eps maxiter sf P S n with
    | none => rw [h1] at ht; simp at ht
    | some h =>
      rw [h1] at ht
      simp only at ht
      cases h2 : trace sqrt ltK eps maxiter ss h.Pg h.Sg h.n with
      | none => rw [h2] at ht; simp at ht
      | some hs' =>
        rw [h2] at ht
        simp only [Option.some.injEq] at ht
        subst ht
        simp only [NoTIR] at hN
        have u := traceOne_unit sqrt hsq eps maxiter sf P S n h h1 hS (hO sf (List.mem_cons_self ..)) hN.1
        have r := ih h.Pg h.Sg h.n hs' h2 u.1 (fun sf' hm => hO sf' (List.mem_cons_of_mem _ hm)) hN.2
        refine ⟨by simp [r.1], ?_⟩
        intro h' hm
        rcases List.mem_cons.mp hm with e | e
        · rw [e]; exact u.1
        · exact r.2 h' e
/-- non-vacuity of `trace_unit_directions` / `trace_snell` / `trace_on_surface`: an axial ray onto a plane mirror is traced (convergence by `plane_intersect_converges`), all hypotheses hold -/
theorem plane_mirror_traced : ∃ hits, trace Real.sqrt ltK (1 / 10 : ℝ) 5 [⟨Kind.reflect, ⟨0, 0, 0⟩, none, Shape.plane, 1⟩] ⟨0, 0, -1⟩ ⟨0, 0, 1⟩ 1 = some hits ∧
    V3.dot (⟨0, 0, 1⟩ : V3 ℝ) ⟨0, 0, 1⟩ = 1 ∧ Orth (none : Option (M3 ℝ)) ∧
    NoTIR [⟨Kind.reflect, ⟨0, 0, 0⟩, none, Shape.plane, 1⟩] hits 1 := by
  obtain ⟨Pj, r, hI, _⟩ := plane_intersect_converges Real.sqrt (toLocalP (⟨0, 0, 0⟩ : V3 ℝ) none ⟨0, 0, -1⟩) (toLocalS none ⟨0, 0, 1⟩)
    (1 / 10) 4 (by simp [toLocalS]) (by norm_num)
  have hI' : intersect Real.sqrt ltK Shape.plane (toLocalP (⟨0, 0, 0⟩ : V3 ℝ) none ⟨0, 0, -1⟩) (toLocalS none ⟨0, 0, 1⟩) (1 / 10) 5
      = some (Pj, r) := hI
  cases ht : trace Real.sqrt ltK (1 / 10 : ℝ) 5 [⟨Kind.reflect, ⟨0, 0, 0⟩, none, Shape.plane, 1⟩] ⟨0, 0, -1⟩ ⟨0, 0, 1⟩ 1 with
  | none => simp only [trace, traceOne, hI', reduceCtorEq] at ht
  | some hits =>
    have hO : Orth (none : Option (M3 ℝ)) := by
      intro M h
      cases h
    refine ⟨hits, rfl, by simp [V3.dot], hO, ?_⟩
    simp only [trace, traceOne, hI', Option.some.injEq] at ht
    subst ht
    simp [NoTIR]

/-! ## second pass: Snell / reflection / on-surface through the whole trace, index bookkeeping -/

/-- what the tracer does at ONE surface, stated on the recorded hit: frame bookkeeping, law of reflection at a mirror, Snell's law in
vector form at a refracting surface with the index in front (`n`) and behind (`sf.n`), nothing at an evaluation surface, and the index
carried on to the next surface -/
def SurfaceLaw (sf : Surface K) (n : K) (h : Hit K) : Prop :=
  h.Sg = toGlobalS sf.R h.Sout ∧ h.Pg = toGlobalP sf.P sf.R h.Ploc ∧
  (sf.kind = Kind.reflect → V3.dot h.Sout h.r = -V3.dot h.Sloc h.r ∧ V3.cross (V3.sub h.Sout h.Sloc) h.r = ⟨0, 0, 0⟩ ∧ h.n = n) ∧
  (sf.kind = Kind.refract → V3.smul sf.n (V3.cross h.Sout h.r) = V3.smul n (V3.cross h.Sloc h.r) ∧ h.n = sf.n) ∧
  (sf.kind = Kind.eval → h.Sout = h.Sloc ∧ h.n = n)

/-- ONE SURFACE of the model tracer obeys `SurfaceLaw`: mirror law about the normal actually used, vector Snell law with the threaded
indices, frame bookkeeping, and the index handed on (unchanged by mirrors and evaluation surfaces, `sf.n` after a refracting surface) -/
theorem traceOne_laws (sqrt : K → K) (hs : ∀ x, 0 ≤ x → sqrt x * sqrt x = x) (eps : K) (maxiter : Nat)
    (sf : Surface K) (P S : V3 K) (n : K) (h : Hit K)
    (ht : traceOne sqrt ltK eps maxiter sf P S n = some h) (hS : V3.dot S S = 1) (hR : Orth sf.R)
    (hrefr : sf.kind = Kind.refract → sf.n ≠ 0 ∧ 0 ≤ radicand n sf.n h.Sloc h.r) :
    SurfaceLaw sf n h := by
  have hu := traceOne_unit sqrt hs eps maxiter sf P S n h ht hS hR hrefr
  unfold traceOne at ht
  simp only at ht
  cases hI : intersect sqrt ltK sf.shape (toLocalP sf.P sf.R P) (toLocalS sf.R S) eps maxiter with
  | none => rw [hI] at ht; simp at ht
  | some pr =>
    obtain ⟨Pj, r⟩ := pr
    rw [hI] at ht
    simp only [Option.some.injEq] at ht
    have hz : r.z = 1 := newton_normal_z sqrt ltK sf.shape _ _ eps maxiter 0 Pj r hI
    have hr : r ≠ ⟨0, 0, 0⟩ := by
      intro e; rw [e] at hz; simp at hz
    have hS0 : V3.dot (toLocalS sf.R S) (toLocalS sf.R S) = 1 := by rw [toLocalS_norm _ hR, hS]
    subst ht
    refine ⟨rfl, rfl, ?_, ?_, ?_⟩
    · intro hk
      simp only [hk]
      have := reflect_mirror (toLocalS sf.R S) r hr
      rw [gen_reflect] at this
      exact ⟨this.1, this.2, by first | rfl | trivial⟩
    · intro hk
      simp only [hk] at hrefr ⊢
      obtain ⟨hn', hrad⟩ := hrefr trivial
      have hσ := hs _ hrad
      refine ⟨?_, by first | rfl | trivial⟩
      by_cases hc : V3.dot r (toLocalS sf.R S) < 0
      · have hσ' : (-sqrt (radicand n sf.n (toLocalS sf.R S) r)) * (-sqrt (radicand n sf.n (toLocalS sf.R S) r))
            = radicand n sf.n (toLocalS sf.R S) r := by rw [neg_mul_neg]; exact hσ
        have := (refract_core n sf.n _ (toLocalS sf.R S) r hr hS0 hn' hσ').2.1
        simpa only [Model.C19.refract, ltK, decide_eq_true_eq, hc, if_true, radicand] using this
      · have := (refract_core n sf.n _ (toLocalS sf.R S) r hr hS0 hn' hσ).2.1
        simpa only [Model.C19.refract, ltK, decide_eq_true_eq, hc, if_false, radicand] using this
    · intro hk
      simp only [hk]
      exact ⟨by first | rfl | trivial, by first | rfl | trivial⟩

/-- the per-surface laws along a whole prescription, the index in front of each surface being the one the previous hit carries -/
def TraceLaws : List (Surface K) → List (Hit K) → K → Prop
  | [], [], _ => True
  | sf :: ss, h :: hs, n => SurfaceLaw sf n h ∧ TraceLaws ss hs h.n
  | _, _, _ => False

/-- WHOLE TRACE — SNELL AT EVERY REFRACTING SURFACE AND THE LAW OF REFLECTION AT EVERY MIRROR, through any prescription (any number / mix
of surfaces, shapes, orthogonal frames), by induction over the surface list: `n_before (S×r) = n_after (S'×r)` with `n_before` the index
the previous hit carries (so a mirror inside glass leaves the index of the glass in force), `S'·r = −S·r` and `(S'−S)×r = 0` at mirrors.
Hypotheses: unit start direction, orthogonal frames, below the critical angle (`NoTIR`); `r` is the vector the Newton loop returned -/
theorem trace_snell (sqrt : K → K) (hsq : ∀ x, 0 ≤ x → sqrt x * sqrt x = x) (eps : K) (maxiter : Nat) :
    ∀ (surfs : List (Surface K)) (P S : V3 K) (n : K) (hits : List (Hit K)),
      trace sqrt ltK eps maxiter surfs P S n = some hits → V3.dot S S = 1 → (∀ sf ∈ surfs, Orth sf.R) →
      NoTIR surfs hits n → TraceLaws surfs hits n := by
  intro surfs
  induction surfs with
  | nil =>
    intro P S n hits ht _ _ _
    simp only [trace, Option.some.injEq] at ht
    subst ht
    simp [TraceLaws]
  | cons sf ss ih =>
    intro P S n hits ht hS hO hN
    simp only [trace] at ht
    cases h1 : traceOne sqrt ltK eps maxiter sf P S n with
    | none => rw [h1] at ht; simp at ht
    | some h =>
      rw [h1] at ht
      simp only at ht
      cases h2 : trace sqrt ltK eps maxiter ss h.Pg h.Sg h.n with
      | none => rw [h2] at ht; simp at ht
      | some hs' =>
        rw [h2] at ht
        simp only [Option.some.injEq] at ht
        subst ht
        simp only [NoTIR] at hN
        have u := traceOne_unit sqrt hsq eps maxiter sf P S n h h1 hS (hO sf (List.mem_cons_self ..)) hN.1
        have l := traceOne_laws sqrt hsq eps maxiter sf P S n h h1 hS (hO sf (List.mem_cons_self ..)) hN.1
        exact ⟨l, ih h.Pg h.Sg h.n hs' h2 u.1 (fun sf' hm => hO sf' (List.mem_cons_of_mem _ hm)) hN.2⟩
/-- POST-CONDITION of the model's Newton loop, by induction over the iteration budget (convergence is NOT claimed): whatever it returns is
a point `P1 + s·S` of the ray, the normal vector of the surface at that point, and — when `F' = S·r ≠ 0` — a sag residual below
`eps · max(1, |P|_∞) · |F'|` -/
theorem newton_model_postcondition (sqrt : K → K) (sh : Shape K) (P1 S : V3 K) (eps : K) :
    ∀ (fuel : Nat) (sj : K) (Pj r : V3 K), newton sqrt ltK sh P1 S eps fuel sj = some (Pj, r) →
      ∃ s, Pj = V3.add P1 (V3.smul s S) ∧ r = (sagNormal sqrt sh Pj.x Pj.y).2 ∧
        (V3.dot S r ≠ 0 →
          |Pj.z - (sagNormal sqrt sh Pj.x Pj.y).1| < eps * newtonScale ltK Pj * |V3.dot S r|) := by
  intro fuel
  induction fuel with
  | zero => intro sj Pj r h; simp [newton] at h
  | succ f ih =>
    intro sj Pj r h
    simp only [newton] at h
    generalize hstep : newtonStep sqrt sh P1 S sj = st at h
    obtain ⟨Pj', r', s'⟩ := st
    simp only [newtonStep, Prod.mk.injEq] at hstep
    obtain ⟨hP, hr, hs'⟩ := hstep
    simp only at h
    have stop : |s' - sj| < eps * newtonScale ltK Pj' → some (Pj', r') = some (Pj, r) →
        ∃ s, Pj = V3.add P1 (V3.smul s S) ∧ r = (sagNormal sqrt sh Pj.x Pj.y).2 ∧
          (V3.dot S r ≠ 0 → |Pj.z - (sagNormal sqrt sh Pj.x Pj.y).1| < eps * newtonScale ltK Pj * |V3.dot S r|) := by
      intro hlt he
      have e := Option.some.inj he
      have e1 : Pj' = Pj := congrArg Prod.fst e
      have e2 : r' = r := congrArg Prod.snd e
      subst e1 e2
      refine ⟨sj, hP.symm, ?_, ?_⟩
      · rw [← hr, hP]
      · intro hF
        have hpos : 0 < |V3.dot S r'| := abs_pos.mpr hF
        have : |s' - sj| = |Pj'.z - (sagNormal sqrt sh Pj'.x Pj'.y).1| / |V3.dot S r'| := by
          rw [← hs', ← hr, hP, sub_sub_cancel_left, abs_neg, abs_div]
        rw [this, div_lt_iff₀ hpos] at hlt
        exact hlt
    split at h <;> split at h
    · rename_i hneg hst
      simp only [ltK, decide_eq_true_eq] at hneg hst
      exact stop (by rw [abs_of_neg hneg]; exact hst) h
    · exact ih _ _ _ h
    · rename_i hneg hst
      simp only [ltK, decide_eq_true_eq, not_lt] at hneg hst
      exact stop (by rw [abs_of_nonneg hneg]; exact hst) h
    · exact ih _ _ _ h
/-- Newton POST-CONDITION at one recorded hit (NOT convergence): the hit lies on the local incident ray through the vertex-plane point, the
recorded normal is the surface normal vector at the hit, and the sag residual is below `eps · max(1, |P|_∞) · |S·r|` -/
def OnSurfaceLaw (sqrt : K → K) (eps : K) (sf : Surface K) (P S : V3 K) (h : Hit K) : Prop :=
  h.Sloc = toLocalS sf.R S ∧
  ∃ s, h.Ploc = V3.add (Model.C19.toVertexPlane (toLocalP sf.P sf.R P) (toLocalS sf.R S)) (V3.smul s (toLocalS sf.R S)) ∧
    h.r = (sagNormal sqrt sf.shape h.Ploc.x h.Ploc.y).2 ∧
    (V3.dot h.Sloc h.r ≠ 0 →
      |h.Ploc.z - (sagNormal sqrt sf.shape h.Ploc.x h.Ploc.y).1| < eps * newtonScale ltK h.Ploc * |V3.dot h.Sloc h.r|)

/-- the post-condition at one surface of the model tracer -/
theorem traceOne_on_surface (sqrt : K → K) (eps : K) (maxiter : Nat) (sf : Surface K) (P S : V3 K) (n : K) (h : Hit K)
    (ht : traceOne sqrt ltK eps maxiter sf P S n = some h) : OnSurfaceLaw sqrt eps sf P S h := by
  unfold traceOne at ht
  simp only at ht
  cases hI : intersect sqrt ltK sf.shape (toLocalP sf.P sf.R P) (toLocalS sf.R S) eps maxiter with
  | none => rw [hI] at ht; simp at ht
  | some pr =>
    obtain ⟨Pj, r⟩ := pr
    rw [hI] at ht
    simp only [Option.some.injEq] at ht
    obtain ⟨s, h1, h2, h3⟩ := newton_model_postcondition sqrt sf.shape _ _ eps maxiter 0 Pj r hI
    subst ht
    exact ⟨rfl, s, h1, h2, h3⟩

/-- the post-condition along a whole prescription: each surface is met by the ray the previous hit sends on (global `Pg`, `Sg`) -/
def TraceOnSurface (sqrt : K → K) (eps : K) : List (Surface K) → List (Hit K) → V3 K → V3 K → Prop
  | [], [], _, _ => True
  | sf :: ss, h :: hs, P, S => OnSurfaceLaw sqrt eps sf P S h ∧ TraceOnSurface sqrt eps ss hs h.Pg h.Sg
  | _, _, _, _ => False

/-- WHOLE TRACE — ON-SURFACE UNDER THE NEWTON POST-CONDITION (clearly: IF the tracer returns hits, i.e. the iteration stopped at every
surface; convergence itself is proved only for planes, compared with the closed form for conics): every recorded hit of every
prescription lies on the ray sent on by the previous hit, within `eps·scale·|F'|` of the surface, with the true normal vector there -/
theorem trace_on_surface (sqrt : K → K) (eps : K) (maxiter : Nat) :
    ∀ (surfs : List (Surface K)) (P S : V3 K) (n : K) (hits : List (Hit K)),
      trace sqrt ltK eps maxiter surfs P S n = some hits → TraceOnSurface sqrt eps surfs hits P S := by
  intro surfs
  induction surfs with
  | nil =>
    intro P S n hits ht
    simp only [trace, Option.some.injEq] at ht
    subst ht
    simp [TraceOnSurface]
  | cons sf ss ih =>
    intro P S n hits ht
    simp only [trace] at ht
    cases h1 : traceOne sqrt ltK eps maxiter sf P S n with
    | none => rw [h1] at ht; simp at ht
    | some h =>
      rw [h1] at ht
      simp only at ht
      cases h2 : trace sqrt ltK eps maxiter ss h.Pg h.Sg h.n with
      | none => rw [h2] at ht; simp at ht
      | some hs' =>
        rw [h2] at ht
        simp only [Option.some.injEq] at ht
        subst ht
        exact ⟨traceOne_on_surface sqrt eps maxiter sf P S n h h1, ih h.Pg h.Sg h.n hs' h2⟩
/-- the index carried to the next surface, translated from the `if surf.typ == REFLECT / elif REFRACT / else` dispatch of `raytrace`:
unchanged by a mirror (NOT reset to the ambient index), the surface's index after a refraction, unchanged by an evaluation surface -/
theorem gen_index_threading (a n n' : K) :
    Generated.C19.indexAfter true false a n n' = n ∧ Generated.C19.indexAfter false true a n n' = n' ∧
    Generated.C19.indexAfter false false a n n' = n := by
  refine ⟨?_, ?_, ?_⟩ <;> simp [Generated.C19.indexAfter]

/-- the index bookkeeping of the model tracer (part of `SurfaceLaw`) IS the translated one, whatever the ambient index -/
theorem surface_index (sf : Surface K) (n a : K) (h : Hit K) (sl : SurfaceLaw sf n h) :
    h.n = Generated.C19.indexAfter (decide (sf.kind = Kind.reflect)) (decide (sf.kind = Kind.refract)) a n sf.n := by
  obtain ⟨_, _, h1, h2, h3⟩ := sl
  cases hk : sf.kind with
  | reflect => simp only [hk, decide_true, reduceCtorEq, decide_false]; rw [(gen_index_threading a n sf.n).1]; exact (h1 hk).2.2
  | refract => simp only [hk, decide_true, reduceCtorEq, decide_false]; rw [(gen_index_threading a n sf.n).2.1]; exact (h2 hk).2
  | eval => simp only [hk, decide_true, reduceCtorEq, decide_false]; rw [(gen_index_threading a n sf.n).2.2]; exact (h3 hk).2

/-- non-vacuity: the hypotheses of `trace_snell` and `trace_on_surface` are met by the traced plane mirror, and the conclusions follow -/
example : ∃ hits, TraceLaws [(⟨Kind.reflect, ⟨0, 0, 0⟩, none, Shape.plane, 1⟩ : Surface ℝ)] hits 1 ∧
    TraceOnSurface Real.sqrt (1 / 10 : ℝ) [⟨Kind.reflect, ⟨0, 0, 0⟩, none, Shape.plane, 1⟩] hits ⟨0, 0, -1⟩ ⟨0, 0, 1⟩ := by
  obtain ⟨hits, ht, hS, hO, hN⟩ := plane_mirror_traced
  refine ⟨hits, trace_snell Real.sqrt (fun _ h => Real.mul_self_sqrt h) _ _ _ _ _ _ hits ht hS ?_ hN,
    trace_on_surface Real.sqrt _ _ _ _ _ _ hits ht⟩
  intro sf hm
  rw [List.mem_singleton] at hm
  rw [hm]
  exact hO

/-! ## non-vacuity: the hypotheses are met by the real square root and by concrete rays -/

example : (∀ x : ℝ, 0 ≤ x → Real.sqrt x * Real.sqrt x = x) ∧ (∀ x : ℝ, 0 ≤ Real.sqrt x) :=
  ⟨fun _ h => Real.mul_self_sqrt h, Real.sqrt_nonneg⟩

/-- the real square root and `copysign` (as a function of reals) satisfy `RootLaws` -/
example : RootLaws Real.sqrt (fun a b : ℝ => if b < 0 then -|a| else |a|) :=
  ⟨fun _ h => Real.mul_self_sqrt h, Real.sqrt_nonneg, fun _ _ => rfl⟩

/-- a skew unit ray on an un-normalised normal, air → glass: all hypotheses of `refract_traced` hold -/
example : let S : V3 ℚ := ⟨3 / 5, 0, 4 / 5⟩; let g : V3 ℚ := ⟨-1 / 2, 1 / 4, 1⟩
    g ≠ ⟨0, 0, 0⟩ ∧ V3.dot S S = 1 ∧ 0 ≤ radicand (1 : ℚ) (3 / 2) S g := by
  refine ⟨by simp [V3.mk.injEq], by norm_num [V3.dot], ?_⟩
  exact radicand_nonneg_of_le _ _ _ _ (by norm_num [V3.dot]) (by norm_num) (by norm_num)

/-- three genuinely different rotation angles satisfying the hypotheses of `rotation_orthogonal` -/
example : (3 / 5 : ℚ) * (3 / 5) + 4 / 5 * (4 / 5) = 1 ∧ (5 / 13 : ℚ) * (5 / 13) + 12 / 13 * (12 / 13) = 1 ∧
    (8 / 17 : ℚ) * (8 / 17) + 15 / 17 * (15 / 17) = 1 := by norm_num

end C19
