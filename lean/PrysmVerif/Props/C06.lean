import PrysmVerif.Generated.C06
import PrysmVerif.Lemmas.C06Analysis
import PrysmVerif.Lemmas.C06Model
import PrysmVerif.Lemmas.C06Resample
import Mathlib.Data.Complex.Basic
import Mathlib.Tactic.IntervalCases
import Mathlib.Analysis.SpecialFunctions.Trigonometric.Deriv
/-!
# C06 — every backprop routine returns the true gradient of its forward routine

Layout: (1) translated obligations — the glue regenerated from the current source equals the hand model / has the
required form, for ALL arguments; (2) the property over the model with the generated facts plugged in:
linear nodes satisfy `⟨y, A x⟩ = ⟨B y, x⟩` for all sizes and data, non-linear nodes match directional
derivatives (exact polynomial expansions, or Mathlib `HasDerivAt`).
-/
set_option linter.unusedTactic false
set_option linter.unreachableTactic false
set_option linter.unusedVariables false
set_option linter.unusedSimpArgs false
set_option linter.unnecessarySeqFocus false
set_option linter.unusedSectionVars false

namespace C06
open Generated.C06 Finset C06L

/-! ## translated obligations: the Q / shift / sign glue of the propagation backprops -/

/-- closes an equation between two translated rational expressions (Q, shift): unfold `Q_for_sampling`, split the
`if shift != 0` conditionals, normalise -- so any algebraically equal spelling of the backprop's arithmetic is accepted -/
macro "glue_eq" : tactic =>
  `(tactic| (first
      | rfl
      | ring1
      | (simp only [qForSampling] <;> first | rfl | ring1 | (split_ifs <;> first | rfl | ring1 | (field_simp; ring1) | field_simp))
      | (split_ifs <;> first | rfl | ring1 | (field_simp; ring1) | field_simp)))

/-- `focus_fixed_sampling_backprop` hands `dft2_backprop` the forward's per-axis Q, the forward's shift (in output
samples) and the forward's input shape, for every shape / spacing / shift -/
theorem gen_ffs_backprop (a0 a1 b0 b1 idx pd wl odx sx sy : Rat) :
    ffsBackQy a0 a1 b0 b1 idx pd wl odx sx sy = ffsFwdQy a0 a1 b0 b1 idx pd wl odx sx sy ∧
    ffsBackQx a0 a1 b0 b1 idx pd wl odx sx sy = ffsFwdQx a0 a1 b0 b1 idx pd wl odx sx sy ∧
    ffsBackShiftX a0 a1 b0 b1 idx pd wl odx sx sy = ffsFwdShiftX a0 a1 b0 b1 idx pd wl odx sx sy ∧
    ffsBackShiftY a0 a1 b0 b1 idx pd wl odx sx sy = ffsFwdShiftY a0 a1 b0 b1 idx pd wl odx sx sy ∧
    ffsBackWired = true ∧ ffsFwdWired = true := by
  refine ⟨?_, ?_, ?_, ?_, ?_, ?_⟩ <;>
    simp only [ffsBackQy, ffsFwdQy, ffsBackQx, ffsFwdQx, ffsBackShiftX, ffsFwdShiftX, ffsBackShiftY, ffsFwdShiftY,
      ffsBackWired, ffsFwdWired] <;> glue_eq

theorem gen_ufs_backprop (a0 a1 b0 b1 idx pd wl odx sx sy : Rat) :
    ufsBackQy a0 a1 b0 b1 idx pd wl odx sx sy = ufsFwdQy a0 a1 b0 b1 idx pd wl odx sx sy ∧
    ufsBackQx a0 a1 b0 b1 idx pd wl odx sx sy = ufsFwdQx a0 a1 b0 b1 idx pd wl odx sx sy ∧
    ufsBackShiftX a0 a1 b0 b1 idx pd wl odx sx sy = ufsFwdShiftX a0 a1 b0 b1 idx pd wl odx sx sy ∧
    ufsBackShiftY a0 a1 b0 b1 idx pd wl odx sx sy = ufsFwdShiftY a0 a1 b0 b1 idx pd wl odx sx sy ∧
    ufsBackWired = true ∧ ufsFwdWired = true := by
  refine ⟨?_, ?_, ?_, ?_, ?_, ?_⟩ <;>
    simp only [ufsBackQy, ufsFwdQy, ufsBackQx, ufsFwdQx, ufsBackShiftX, ufsFwdShiftX, ufsBackShiftY, ufsFwdShiftY,
      ufsBackWired, ufsFwdWired] <;> glue_eq

/-- `to_fpm_and_back_backprop`: both adjoint legs use the Q and the shift of the forward leg they undo
(any pupil shape `(p0,p1)`, any mask shape `(m0,m1)`, any shift), the result carries no extra sign, and the mask is
conjugated exactly when it is complex -/
theorem gen_fpm_backprop (p0 p1 m0 m1 dx efl wl fdx sx sy : Rat) :
    fpmBackRetQy p0 p1 m0 m1 dx efl wl fdx sx sy = fpmFwdRetQy p0 p1 m0 m1 dx efl wl fdx sx sy ∧
    fpmBackRetQx p0 p1 m0 m1 dx efl wl fdx sx sy = fpmFwdRetQx p0 p1 m0 m1 dx efl wl fdx sx sy ∧
    fpmBackRetShiftX p0 p1 m0 m1 dx efl wl fdx sx sy = fpmFwdRetShiftX p0 p1 m0 m1 dx efl wl fdx sx sy ∧
    fpmBackRetShiftY p0 p1 m0 m1 dx efl wl fdx sx sy = fpmFwdRetShiftY p0 p1 m0 m1 dx efl wl fdx sx sy ∧
    fpmBackOutQy p0 p1 m0 m1 dx efl wl fdx sx sy = fpmFwdOutQy p0 p1 m0 m1 dx efl wl fdx sx sy ∧
    fpmBackOutQx p0 p1 m0 m1 dx efl wl fdx sx sy = fpmFwdOutQx p0 p1 m0 m1 dx efl wl fdx sx sy ∧
    fpmBackOutShiftX p0 p1 m0 m1 dx efl wl fdx sx sy = fpmFwdOutShiftX p0 p1 m0 m1 dx efl wl fdx sx sy ∧
    fpmBackOutShiftY p0 p1 m0 m1 dx efl wl fdx sx sy = fpmFwdOutShiftY p0 p1 m0 m1 dx efl wl fdx sx sy := by
  refine ⟨?_, ?_, ?_, ?_, ?_, ?_, ?_, ?_⟩ <;>
    simp only [fpmBackRetQy, fpmFwdRetQy, fpmBackRetQx, fpmFwdRetQx, fpmBackRetShiftX, fpmFwdRetShiftX,
      fpmBackRetShiftY, fpmFwdRetShiftY, fpmBackOutQy, fpmFwdOutQy, fpmBackOutQx, fpmFwdOutQx,
      fpmBackOutShiftX, fpmFwdOutShiftX, fpmBackOutShiftY, fpmFwdOutShiftY] <;> glue_eq

theorem gen_fpm_sign_conj :
    fpmBackSign = 1 ∧ fpmBackConjMaskIffComplex = true ∧ fpmBackWired = true ∧ fpmFwdWired = true := by
  decide

/-- `babinet_backprop` returns `cbar − B(cbar)` with the same `1 − fpm` mask and call arguments as the forward; what it hands to the
mask-and-back adjoint (`cbar`, obtained by symbolic execution of the body under each kind of Lyot stop, so if/else and default-then-override
give the same term) is the upstream gradient itself without a stop, `ȳ·L` for a real stop and `ȳ·conj(L)` for a complex one -/
theorem gen_babinet {C : Type} [Field C] (conj : C → C) (d L : C) :
    babinetBackCoef * fpmBackSign = -1 ∧ babinetMaskIsOneMinusInBoth = true ∧
    babinetFwdIsLyotTimesDataMinusField = true ∧ babinetBackSameCallArgs = true ∧
    babinetBackCbarNone conj d L = d ∧ babinetBackCbarReal conj d L = d * L ∧ babinetBackCbarComplex conj d L = d * conj L := by
  refine ⟨by decide, by decide, by decide, by decide, ?_, ?_, ?_⟩
  · first | rfl | (simp only [babinetBackCbarNone]; push_cast; ring)
  · first | rfl | (simp only [babinetBackCbarReal]; push_cast; ring)
  · first | rfl | (simp only [babinetBackCbarComplex]; push_cast; ring)

section
variable {K : Type} [Field K]

/-- the masked branches of the three cost functions only compress the inputs and scatter the gradient into zeros
(recognised statement shapes; the masked paths themselves are exercised numerically) -/
theorem gen_masked_costs :
    mseMaskedIsCompressScatter = true ∧ bgieMaskedIsCompressScatter = true ∧ nllMaskedIsCompressScatter = true := by decide

/-- `bias_and_gain_invariant_error` as translated is the recognised closed form (least-squares gain and bias) -/
theorem gen_bgie (n : Nat) (I D : Nat → K) :
    bgieCost n I D = Model.C06.bgieCost n I D ∧ bgieGrad n I D = Model.C06.bgieGrad n I D ∧
    bgieMaskedIsCompressScatter = true := ⟨rfl, rfl, rfl⟩

theorem gen_nll (lg : K → K) (n : Nat) (y yhat : Nat → K) :
    nllCost lg n y yhat = Model.C06.nllCost lg n y yhat ∧ nllGrad lg n y yhat = Model.C06.nllGrad n y yhat ∧
    nllMaskedIsCompressScatter = true := ⟨rfl, rfl, rfl⟩

/-- the translated activation nodes are the model's formulas -/
theorem gen_tanh (ex : K → K) (a x0 y0 x : K) :
    tanhFwd ex a x0 y0 x = Model.C06.tanhFwd ex a x0 y0 x ∧ tanhBack ex a x0 y0 x = Model.C06.tanhBack ex a x0 y0 x := by
  refine ⟨rfl, ?_⟩
  simp only [tanhBack, tanhFwd, Model.C06.tanhBack, Model.C06.tanhFwd, Num.npow, ofInt_eq] <;> (push_cast; ring)

theorem gen_arctan (atn : K → K) (a x0 y0 x : K) :
    arctanFwd atn a x0 y0 x = Model.C06.arctanFwd atn a x0 y0 x ∧ arctanBack atn a x0 y0 x = Model.C06.arctanBack a x0 x := by
  refine ⟨rfl, ?_⟩
  simp only [arctanBack, Model.C06.arctanBack, Num.npow, ofInt_eq] <;> (push_cast; ring)

theorem gen_softplus (ex lg : K → K) (a x0 y0 x : K) :
    softplusFwd ex lg a x0 y0 x = Model.C06.softplusFwd ex lg a x0 y0 x ∧
    softplusBack ex lg a x0 y0 x = Model.C06.softplusBack ex a x0 x := ⟨rfl, rfl⟩

theorem gen_sigmoid (ex : K → K) (a x0 y0 x : K) :
    sigmoidFwd ex a x0 y0 x = Model.C06.sigmoidFwd ex a x0 y0 x ∧
    sigmoidBack ex a x0 y0 x = Model.C06.sigmoidBack ex a x0 y0 x := ⟨rfl, rfl⟩

/-- softmax / Gumbel-softmax / discrete-encoder backprops are the model's formulas -/
theorem gen_softmax (n : Nat) (s g : Nat → K) (tau : K) (estBack : (Nat → K) → Nat → K) (levels : Nat → K) (gs : K) :
    softmaxBack n s g = Model.C06.softmaxBack n s g ∧ gumbelBack tau n s g = Model.C06.gumbelBack tau n s g ∧
    encoderBack estBack levels gs = Model.C06.encoderBack estBack levels gs := ⟨rfl, rfl, rfl⟩

theorem gen_encoder_axes :
    softmaxBackBroadcastsOverLevels = true ∧ softmaxFwdIsExpOverSumAlongLastAxis = true ∧
    encoderBackExpandsLastAxis = true := by decide

/-- `GumbelSoftmax.forward` as translated hands the inner softmax `(x + noise) / tau` (noise = every local that does not depend
on the logits), and `DiscreteEncoder.forward` as translated is the levels-weighted sum over the last axis -/
theorem gen_gumbel_encoder_forward (tau : K) (x gam levels s : Nat → K) (n i : Nat) :
    gumbelLogits tau x gam i = (x i + gam i) / tau ∧ encoderFwd n levels s = Model.C06.encoderFwd n levels s := by
  constructor
  · first | rfl | (simp only [gumbelLogits]; ring)
  · first
    | rfl
    | (simp only [encoderFwd, Model.C06.encoderFwd, sumTo_eq]; exact Finset.sum_congr rfl fun k _ => by ring)

/-- no backprop reads an attribute of `self` that the forward neither reads nor writes: parameters re-assigned on a live
node (temperature annealing, slopes, offsets, level sets, DM geometry) reach forward and backprop alike -/
theorem gen_live_attributes :
    backpropReadsLiveAttributesSoftmax = true ∧ backpropReadsLiveAttributesGumbelSoftmax = true ∧
    backpropReadsLiveAttributesDiscreteEncoder = true ∧ backpropReadsLiveAttributesTanh = true ∧
    backpropReadsLiveAttributesArctan = true ∧ backpropReadsLiveAttributesSoftplus = true ∧
    backpropReadsLiveAttributesSigmoid = true ∧ backpropReadsLiveAttributesDM = true := by decide

/-- no backprop flattens / reshapes an array in memory order (`order='K'/'A'/'F'`): element pairing never depends on how the
caller's array happens to be laid out -/
theorem gen_flatten_order : backpropsFlattenInCOrder = true := by decide

/-- `intensity_backprop` and `from_amp_and_phase_backprop_phase` are the model's formulas -/
theorem gen_wavefront (Ibar k : K) (E gbar g : Cx K) :
    intensityBack Ibar E = Model.C06.intensityBack Ibar E ∧ phaseBack k gbar g = Model.C06.phaseBack k gbar g ∧
    intensityFwdIsAbsSquared = true := ⟨rfl, rfl, rfl⟩

/-- the wavenumber the backprop multiplies by is the one in the forward's exponent (`exp(i·k·φ)`), both translated -/
theorem gen_phase_wavenumber (pi wavelength : K) : phaseBackK pi wavelength = phaseFwdK pi wavelength := by
  simp only [phaseBackK, phaseFwdK, ofInt_eq] <;> (push_cast; ring)

/-- `dft2_backprop` / `idft2_backprop` as TRANSLATED (matrix products, transposes, conjugates of the cached bases) are the
model's `dftBack`, the forwards are the model's `dft2` / `idft2`, and both sides look their bases up under the same key once the
backprop's shape arguments are read as the forward's input / output shapes -/
theorem gen_mdft_terms (conj : K → K) (M m n N : Nat) (Eo f y Ei : Model.C06.Mat K) {T : Type} (Q shift : T) (a b : Nat × Nat) :
    dft2FwdTerm M m n N Eo f Ei = Model.C06.dft2 M m n N Eo f Ei ∧
    dft2BackTerm conj M m n N Eo y Ei = Model.C06.dftBack conj M m n N Eo y Ei ∧
    idft2FwdTerm M m n N Eo f Ei = Model.C06.idft2 M m n N Eo f Ei ∧
    idft2BackTerm conj M m n N Eo y Ei = Model.C06.dftBack conj M m n N Eo y Ei ∧
    dft2BackKey Q shift a b = dft2FwdKey Q shift a b ∧ idft2BackKey Q shift a b = idft2FwdKey Q shift a b ∧
    dft2FwdKey Q shift a b ≠ idft2FwdKey Q shift a b := by
  refine ⟨?_, ?_, ?_, ?_, ?_, ?_, ?_⟩
  · first | rfl | (simp only [dft2FwdTerm, Model.C06.dft2, matmul_assoc] <;> first | done | rfl) | (simp only [dft2FwdTerm, Model.C06.dft2, ← matmul_assoc] <;> first | done | rfl)
  · first | rfl | (simp only [dft2BackTerm, Model.C06.dftBack, Model.C06.conjT, matmul_assoc] <;> first | done | rfl) | (simp only [dft2BackTerm, Model.C06.dftBack, Model.C06.conjT, ← matmul_assoc] <;> first | done | rfl)
  · first | rfl | (simp only [idft2FwdTerm, Model.C06.idft2, matmul_assoc] <;> first | done | rfl) | (simp only [idft2FwdTerm, Model.C06.idft2, ← matmul_assoc] <;> first | done | rfl)
  · first | rfl | (simp only [idft2BackTerm, Model.C06.dftBack, Model.C06.conjT, matmul_assoc] <;> first | done | rfl) | (simp only [idft2BackTerm, Model.C06.dftBack, Model.C06.conjT, ← matmul_assoc] <;> first | done | rfl)
  · rfl
  · rfl
  · simp [dft2FwdKey, idft2FwdKey]

/-- `sum_of_2d_modes` contracts the mode index with the weights; its backprop contracts exactly the two image axes of the
modes with the two axes of the upstream gradient (any spelling of `axes=`) -/
theorem gen_modal_axes :
    modalFwdAxes = [(0, 0)] ∧ modalBackAxes.length = 2 ∧ (∀ p, p ∈ modalBackAxes ↔ p = (1, 0) ∨ p = (2, 1)) := by
  refine ⟨by decide, by decide, ?_⟩
  intro p
  simp only [modalBackAxes, List.mem_cons, List.mem_nil_iff, or_false] <;> tauto

/-- `DM.render_backprop` performs the adjoint of every array operation of `DM.render`, in reverse order -/
theorem gen_dm_steps : dmBackSteps = (dmRenderSteps.map Model.C06.dmAdjointOf).reverse := by decide

end


section sg
variable {C : Type} [Field C]
theorem pyBound_mid (n : Nat) (b : Int) (h0 : 0 ≤ b) (h1 : b ≤ n) : Model.C06.pyBound n b = b := by
  unfold Model.C06.pyBound; simp only; split_ifs <;> omega

theorem gen_sg_forward_x (n : Nat) (x : Nat → C) (j : Nat) :
    Model.C06.sgApply n (sgForwardX n) x j = Model.C06.diffFwd n x j := by
  by_cases hn : 3 ≤ n
  · have h1 : Model.C06.pyBound n 1 = 1 := pyBound_mid n 1 (by omega) (by omega)
    have h2 : Model.C06.pyBound n 2 = 2 := pyBound_mid n 2 (by omega) (by omega)
    have h3 : Model.C06.pyBound n ((n : Int) - 1) = (n : Int) - 1 := pyBound_mid n _ (by omega) (by omega)
    have h4 : Model.C06.pyBound n (n : Int) = (n : Int) := pyBound_mid n _ (by omega) (by omega)
    simp only [sgForwardX, Model.C06.sgApply, List.foldl, Model.C06.sgRhs, Model.C06.diffFwd, ofInt_eq, h1, h2, h3, h4]
    by_cases hj : 1 ≤ j ∧ j + 1 < n
    · have hj' : (1 : Int) ≤ (j : Int) ∧ (j : Int) < (n : Int) - 1 := by omega
      rw [if_pos hj', if_pos hj]
      have e1 : ((2 : Int) + ((j : Int) - 1)).toNat = j + 1 := by omega
      have e2 : ((1 : Int) + ((j : Int) - 1)).toNat = j := by omega
      simp only [e1, e2]; push_cast; ring
    · have hj' : ¬ ((1 : Int) ≤ (j : Int) ∧ (j : Int) < (n : Int) - 1) := by omega
      rw [if_neg hj', if_neg hj]
  · have : n < 3 := by omega
    interval_cases n <;>
      simp [sgForwardX, Model.C06.sgApply, Model.C06.sgRhs, Model.C06.diffFwd, Model.C06.pyBound] <;> (first | omega | (rw [if_neg (by omega), if_neg (by omega)]))

theorem gen_sg_backprop_x (n : Nat) (y : Nat → C) (j : Nat) :
    Model.C06.sgApply n (sgBackpropX n) y j = Model.C06.diffBack n y j := by
  by_cases hn : 3 ≤ n
  · have h1 : Model.C06.pyBound n 1 = 1 := pyBound_mid n 1 (by omega) (by omega)
    have h2 : Model.C06.pyBound n 2 = 2 := pyBound_mid n 2 (by omega) (by omega)
    have h3 : Model.C06.pyBound n ((n : Int) - 1) = (n : Int) - 1 := pyBound_mid n _ (by omega) (by omega)
    have h4 : Model.C06.pyBound n (n : Int) = (n : Int) := pyBound_mid n _ (by omega) (by omega)
    simp only [sgBackpropX, Model.C06.sgApply, List.foldl, Model.C06.sgRhs, Model.C06.diffBack, ofInt_eq, h1, h2, h3, h4]
    have e1 : ((1 : Int) + ((j : Int) - 2)).toNat = j - 1 := by omega
    have e2 : ((1 : Int) + ((j : Int) - 1)).toNat = j := by omega
    by_cases ha : 2 ≤ j ∧ j < n <;> by_cases hb : 1 ≤ j ∧ j + 1 < n
    all_goals
      first
      | (have ha' : (2 : Int) ≤ (j : Int) ∧ (j : Int) < (n : Int) := by omega)
      | (have ha' : ¬ ((2 : Int) ≤ (j : Int) ∧ (j : Int) < (n : Int)) := by omega)
    all_goals
      first
      | (have hb' : (1 : Int) ≤ (j : Int) ∧ (j : Int) < (n : Int) - 1 := by omega)
      | (have hb' : ¬ ((1 : Int) ≤ (j : Int) ∧ (j : Int) < (n : Int) - 1) := by omega)
    all_goals
      simp only [ha, hb, ha', hb', if_true, if_false, e1, e2, and_self, not_false_eq_true]
      push_cast
      ring
  · have : n < 3 := by omega
    interval_cases n <;>
      simp [sgBackpropX, Model.C06.sgApply, Model.C06.sgRhs, Model.C06.diffBack, Model.C06.pyBound] <;>
      (try split_ifs) <;> (first | omega | (intros; omega) | simp)

theorem gen_sg_y_same_statements : sgForwardY = sgForwardX ∧ sgBackpropY = sgBackpropX := ⟨rfl, rfl⟩

theorem gen_sg_axes :
    sgForwardXEndAxis = 1 ∧ sgForwardXSliceAxis = 1 ∧ sgBackpropXEndAxis = 1 ∧ sgBackpropXSliceAxis = 1 ∧
    sgForwardYEndAxis = 0 ∧ sgForwardYSliceAxis = 0 ∧ sgBackpropYEndAxis = 0 ∧ sgBackpropYSliceAxis = 0 := by
  decide
end sg

/-! ## the property: linear nodes.  `C` is any field with an involutive ring automorphism `conj`
(`ℂ` with complex conjugation; `ℝ`/`ℚ` with the identity). `⟨a,b⟩ = Σ conj(a)·b`. -/
section linear
variable {C : Type} [Field C] (conj : C →+* C) (hc : ∀ a, conj (conj a) = a)
include hc

/-- matrix-DFT forward, over the TRANSLATED bodies of `dft2` and `dft2_backprop`: `⟨y, dft2(f)⟩ = ⟨dft2_backprop(y), f⟩` for all
rectangular sizes and ALL basis matrices (hence every Q, shape, shift) -/
theorem triple_product_adjoint (M m n N : Nat) (Eo Ei f y : Model.C06.Mat C) :
    Model.C06.ip2 conj M N y (dft2FwdTerm M m n N Eo f Ei)
      = Model.C06.ip2 conj m n (dft2BackTerm conj M m n N Eo y Ei) f := by
  have h := gen_mdft_terms (K := C) conj M m n N Eo f y Ei (0 : Nat) 0 (0, 0) (0, 0)
  rw [h.1, h.2.1]
  exact dft2_adjoint conj hc M m n N Eo Ei f y

/-- the same over the translated bodies of `idft2` (`Eout·(f·Ein)`) and `idft2_backprop` -/
theorem triple_product_adjoint_inverse (M m n N : Nat) (Eo Ei f y : Model.C06.Mat C) :
    Model.C06.ip2 conj M N y (idft2FwdTerm M m n N Eo f Ei)
      = Model.C06.ip2 conj m n (idft2BackTerm conj M m n N Eo y Ei) f := by
  have h := gen_mdft_terms (K := C) conj M m n N Eo f y Ei (0 : Nat) 0 (0, 0) (0, 0)
  rw [h.2.2.1, h.2.2.2.1]
  exact idft2_adjoint conj hc M m n N Eo Ei f y

/-- multiplication by a (complex) mask: the adjoint multiplies by the conjugate mask -/
theorem mask_mul_adjoint (m n : Nat) (k x y : Model.C06.Mat C) :
    Model.C06.ip2 conj m n y (Model.C06.hadamard x k)
      = Model.C06.ip2 conj m n (fun i j => y i j * conj (k i j)) x :=
  ip2_hadamard conj hc m n k x y

/-- `to_fpm_and_back_backprop` (with the sign and conjugation read off the source) is the adjoint of `to_fpm_and_back`,
for every pupil shape, every mask shape, every complex mask and all basis matrices of the two legs -/
theorem fpm_adjoint (p0 p1 M0 M1 : Nat) (Eo1 Ei1 mask Eo2 Ei2 x y : Model.C06.Mat C) :
    Model.C06.ip2 conj p0 p1 y (Model.C06.fpmFwd p0 p1 M0 M1 Eo1 Ei1 mask Eo2 Ei2 x)
      = Model.C06.ip2 conj p0 p1
          (Model.C06.fpmBack conj ((fpmBackSign : Int) : C) fpmBackConjMaskIffComplex p0 p1 M0 M1 Eo1 Ei1 mask Eo2 Ei2 y) x := by
  have h := fpm_adjoint' conj hc p0 p1 M0 M1 Eo1 Ei1 mask Eo2 Ei2 x y
  simpa [fpmBackSign, fpmBackConjMaskIffComplex] using h

/-- Babinet: the adjoint of `x ↦ L ⊙ (x − T x)` is `y ↦ conj L ⊙ y + coef·Tᴴ(conj L ⊙ y)` with the coefficient read
off `babinet_backprop`, whenever `B` is the adjoint of `T` (complex masks and Lyot stops included) -/
theorem babinet_adjoint (m n : Nat) (T B : Model.C06.Mat C → Model.C06.Mat C)
    (hTB : ∀ x y, Model.C06.ip2 conj m n y (T x) = Model.C06.ip2 conj m n (B y) x) (L x y : Model.C06.Mat C) :
    Model.C06.ip2 conj m n y (Model.C06.babinetFwd T L x)
      = Model.C06.ip2 conj m n (Model.C06.babinetBack conj ((babinetBackCoef : Int) : C) B L y) x := by
  have h := babinet_adjoint' conj hc m n T B hTB L x y
  simpa [babinetBackCoef] using h

omit hc in
/-- pad / crop with the offsets of `pad2d` / `crop_center` (translated from the source) are adjoint: `⟨y, pad x⟩ = ⟨crop y, x⟩`
for all sizes `m ≤ M`, `n ≤ N` of every parity -/
theorem pad_crop_adjoint (m n M N : Nat) (hm : m ≤ M) (hn : n ≤ N) (x y : Model.C06.Mat C) :
    Model.C06.ip2 conj M N y (Model.C06.pad2 m n (padSliceLo m M) (padSliceLo n N) x)
      = Model.C06.ip2 conj m n (Model.C06.crop2 (cropLo M m) (cropLo N n) y) x := by
  have e1 : cropLo (M : Int) (m : Int) = padSliceLo (m : Int) (M : Int) := by simp only [cropLo, padSliceLo]
  have e2 : cropLo (N : Int) (n : Int) = padSliceLo (n : Int) (N : Int) := by simp only [cropLo, padSliceLo]
  rw [e1, e2]
  exact pad2_crop2_adjoint conj m n M N _ _ (by simp only [padSliceLo]; omega) (by simp only [padSliceLo]; omega)
    (by simp only [padSliceLo]; omega) (by simp only [padSliceLo]; omega) x y

omit hc in
/-- the actuator lattice: strided scatter (`poke_arr[iyy, ixx] = actuators`) and strided gather are adjoint -/
theorem scatter_gather_adjoint (ky kx M N loy stepy lox stepx : Nat) (hsy : 0 < stepy) (hsx : 0 < stepx)
    (hy : loy + (ky - 1) * stepy < M ∨ ky = 0) (hx : lox + (kx - 1) * stepx < N ∨ kx = 0) (a y : Model.C06.Mat C) :
    Model.C06.ip2 conj M N y (Model.C06.scatter2 ky kx loy stepy lox stepx a)
      = Model.C06.ip2 conj ky kx (Model.C06.gather2 loy stepy lox stepx y) a := by
  unfold Model.C06.scatter2 Model.C06.gather2
  rw [adj_mapCols conj N ky M _ _ (scatter1_gather1_adjoint conj ky M loy stepy hsy hy),
    adj_mapRows conj ky kx N _ _ (scatter1_gather1_adjoint conj kx N lox stepx hsx hx)]

/-- Fourier filtering `x ↦ ifft2(fft2(x)·H)`: its adjoint is filtering with `conj H`.  Only the contract
`ifft = c·fftᴴ` (with `c` real) is used, for every size `m × n` (even or odd) -/
theorem circ_filter_adjoint (m n : Nat) (F1 F2 G1 G2 H x y : Model.C06.Mat C) (c1 c2 : C)
    (h1 : ∀ i j, G1 i j = c1 * conj (F1 j i)) (h2 : ∀ i j, G2 i j = c2 * conj (F2 j i))
    (hc1 : conj c1 = c1) (hc2 : conj c2 = c2) :
    Model.C06.ip2 conj m n y (Model.C06.filter2 m n F1 F2 G1 G2 H x)
      = Model.C06.ip2 conj m n (Model.C06.filter2 m n F1 F2 G1 G2 (fun i j => conj (H i j)) y) x :=
  filter2_adjoint' conj hc m n F1 F2 G1 G2 H x y c1 c2 h1 h2 hc1 hc2

omit hc in
/-- modal sum `w ↦ Σ_k w_k M_k` with self-conjugate (real) modes: the companion contracts both image axes -/
theorem modal_sum_adjoint (k m n : Nat) (modes : Nat → Model.C06.Mat C)
    (hreal : ∀ l i j, conj (modes l i j) = modes l i j) (w : Model.C06.Vec C) (d : Model.C06.Mat C) :
    Model.C06.ip2 conj m n d (Model.C06.modalSum k modes w) = Model.C06.ip conj k (Model.C06.modalBack m n modes d) w :=
  modal_adjoint' conj k m n modes hreal w d

omit hc in
/-- `SpatialGradient2D`: the translated `backprop_x` statements are the adjoint of the translated `forward_x`
statements, for every axis length `n` (including 0, 1, 2) -/
theorem shifted_difference_adjoint (n : Nat) (x y : Model.C06.Vec C) :
    Model.C06.ip conj n y (Model.C06.sgApply n (sgForwardX n) x)
      = Model.C06.ip conj n (Model.C06.sgApply n (sgBackpropX n) y) x := by
  have e1 : Model.C06.sgApply n (sgForwardX n) x = Model.C06.diffFwd n x := funext (gen_sg_forward_x n x)
  have e2 : Model.C06.sgApply n (sgBackpropX n) y = Model.C06.diffBack n y := funext (gen_sg_backprop_x n y)
  rw [e1, e2]; exact diff_adjoint' conj n x y

omit hc in
/-- the 2-D operators (`*_x` acts on every row, `*_y` on every column) are adjoint pairs for every `m × n` -/
theorem spatial_gradient_2d_adjoint (m n : Nat) (X Y : Model.C06.Mat C) :
    Model.C06.ip2 conj m n Y (Model.C06.mapRows (Model.C06.sgApply n (sgForwardX n)) X)
        = Model.C06.ip2 conj m n (Model.C06.mapRows (Model.C06.sgApply n (sgBackpropX n)) Y) X ∧
    Model.C06.ip2 conj m n Y (Model.C06.mapCols (Model.C06.sgApply m (sgForwardY m)) X)
        = Model.C06.ip2 conj m n (Model.C06.mapCols (Model.C06.sgApply m (sgBackpropY m)) Y) X := by
  constructor
  · exact adj_mapRows conj m n n _ _ (fun x y => shifted_difference_adjoint conj n x y) X Y
  · rw [gen_sg_y_same_statements.1, gen_sg_y_same_statements.2]
    exact adj_mapCols conj n m m _ _ (fun x y => shifted_difference_adjoint conj m x y) X Y
end linear


/-! ## the property: non-linear nodes -/
section nonlinear
variable {K : Type} [Field K]

/-- intensity node: `Σ Ibar·|E + tδ|²` is exactly `cost + t·Σ Re⟨2·Ibar·E, δ⟩ + t²·(…)`, so the directional derivative
of any cost through `|E|²` is `Re⟨intensity_backprop(Ibar), δ⟩` (real `Ibar`, complex `E`, every direction `δ`) -/
theorem intensity_grad (n : Nat) (Ibar : Nat → K) (E δ : Nat → Cx K) (t : K) :
    (∑ i ∈ range n, Ibar i * Cx.normSq (E i + Cx.smul t (δ i)))
      = (∑ i ∈ range n, Ibar i * Cx.normSq (E i))
        + t * (∑ i ∈ range n, Model.C06.reDot (intensityBack (Ibar i) (E i)) (δ i))
        + t ^ 2 * (∑ i ∈ range n, Ibar i * Cx.normSq (δ i)) := by
  simp only [Finset.mul_sum, ← Finset.sum_add_distrib]
  exact Finset.sum_congr rfl fun i _ => intensity_expand (Ibar i) t (E i) (δ i)

/-- phase node `g = A·exp(i k φ)`: a phase change `dφ` moves `g` by `i·k·g·dφ` (the derivation law `u' = i k u`);
pairing that with the upstream `gbar` gives `k·Im(gbar·conj g)`, which is what the backprop returns -/
theorem phase_grad (k : K) (gbar g : Cx K) :
    Model.C06.reDot gbar (Cx.smul k ((⟨0, 1⟩ : Cx K) * g)) = phaseBack k gbar g :=
  phase_core k gbar g

/-- mean-square error, RELATIVE to the translated pair (no hand model involved): the translated cost is an exact quadratic
along every direction, `cost(M + tδ) = cost(M) + t·⟨grad(M), δ⟩ + t²·cost(D + δ)`, so the translated gradient is the derivative of
the translated cost whatever normalisation convention the source uses (1/n, 1/(2n), …) -/
theorem mse_grad (n : Nat) (M D δ : Nat → K) (t : K) :
    mseCost n (fun i => M i + t * δ i) D
      = mseCost n M D + t * (∑ i ∈ range n, mseGrad n M D i * δ i) + t ^ 2 * mseCost n (fun i => D i + δ i) D := by
  simp only [mseCost, mseGrad, Model.C06.mseCost, Model.C06.mseGrad, sumTo_eq, ofInt_eq, Num.ofFrac, Num.npow]
  simp only [Finset.mul_sum, Finset.sum_mul, ← Finset.sum_add_distrib]
  refine Finset.sum_congr rfl fun i _ => ?_
  push_cast; ring

/-- bias-and-gain-invariant error, part 1: the internal gain and bias satisfy the normal equations, hence are a
stationary point of the cost in (gain, bias): no first-order dependence of the cost on them -/
theorem bgie_gain_bias_stationary (n : Nat) (hn : (n : K) ≠ 0) (I D : Nat → K)
    (hden : (∑ i ∈ range n, (I i - (∑ j ∈ range n, I j) / n) * (I i - (∑ j ∈ range n, I j) / n)) ≠ 0) (s u : K) :
    bgieC n I D (Model.C06.bgieAlpha n I D + s) (Model.C06.bgieBeta n I D + u)
      = bgieCost n I D + Model.C06.bgieR n D * ∑ i ∈ range n, (s * I i + u) * (s * I i + u) := by
  rw [(gen_bgie n I D).1, bgieCost_eq]
  exact bgie_stationary n hn I D hden s u

/-- part 2: at fixed gain and bias the derivative with respect to the data is the returned gradient -/
theorem bgie_grad_partial (n : Nat) (I D δ : Nat → K) (t : K) :
    bgieC n (fun i => I i + t * δ i) D (Model.C06.bgieAlpha n I D) (Model.C06.bgieBeta n I D)
      = bgieCost n I D + t * (∑ i ∈ range n, bgieGrad n I D i * δ i)
        + t ^ 2 * (Model.C06.bgieR n D * ∑ i ∈ range n, (Model.C06.bgieAlpha n I D * δ i) * (Model.C06.bgieAlpha n I D * δ i)) := by
  rw [(gen_bgie n I D).1, (gen_bgie n I D).2.1, bgieCost_eq]
  have h := bgie_partial n I D δ (Model.C06.bgieAlpha n I D) (Model.C06.bgieBeta n I D) t
  simpa only [Model.C06.bgieGrad, Model.C06.bgieResid, ofInt_eq, Int.cast_ofNat] using h
end nonlinear

/-! ### real analysis (`HasDerivAt` over `ℝ`) -/

/-- softmax: for every logit vector `x`, direction `δ` and upstream gradient `g`, the derivative of
`t ↦ ⟨g, softmax(x + tδ)⟩` at `0` is `⟨Softmax.backprop(g), δ⟩` -/
theorem softmax_vjp (n : Nat) (x δ g : Nat → ℝ) :
    HasDerivAt (fun t : ℝ => ∑ i ∈ range n, g i * Model.C06.softmaxFwd Real.exp n (fun j => x j + t * δ j) i)
      (∑ j ∈ range n, softmaxBack n (Model.C06.softmaxFwd Real.exp n x) g j * δ j) 0 :=
  softmax_vjp' n x δ g

/-- subtracting the row maximum (or any constant) before exponentiating does not change softmax -/
theorem softmax_shift_invariant (n : Nat) (x : Nat → ℝ) (c : ℝ) (i : Nat) :
    Model.C06.softmaxFwd Real.exp n (fun j => x j - c) i = Model.C06.softmaxFwd Real.exp n x i := by
  simp only [Model.C06.softmaxFwd, sumTo_eq, Real.exp_sub, div_eq_mul_inv, ← Finset.sum_mul]
  have : Real.exp c ≠ 0 := (Real.exp_pos c).ne'
  by_cases hS : (∑ j ∈ range n, Real.exp (x j)) = 0
  · simp [hS]
  · field_simp

/-- Gumbel-softmax with temperature `τ ≠ 0` and any noise `γ`: derivative of `t ↦ ⟨g, softmax((x + tδ + γ)/τ)⟩` -/
theorem gumbel_vjp (n : Nat) (tau : ℝ) (x δ g γ : Nat → ℝ) :
    HasDerivAt (fun t : ℝ => ∑ i ∈ range n, g i * Model.C06.softmaxFwd Real.exp n (gumbelLogits tau (fun j => x j + t * δ j) γ) i)
      (∑ j ∈ range n, gumbelBack tau n (Model.C06.softmaxFwd Real.exp n (gumbelLogits tau x γ)) g j * δ j) 0 := by
  have hl : ∀ (z : Nat → ℝ), gumbelLogits tau z γ = fun j => (z j + γ j) / tau :=
    fun z => funext fun j => (gen_gumbel_encoder_forward tau z γ γ γ 0 j).1
  simp only [hl]
  have h := softmax_vjp' n (fun j => (x j + γ j) / tau) (fun j => δ j / tau) g
  have hf : (fun t : ℝ => ∑ i ∈ range n, g i * Model.C06.softmaxFwd Real.exp n (fun j => (x j + t * δ j + γ j) / tau) i)
      = fun t : ℝ => ∑ i ∈ range n, g i * Model.C06.softmaxFwd Real.exp n (fun j => (x j + γ j) / tau + t * (δ j / tau)) i := by
    funext t
    have : (fun j => (x j + t * δ j + γ j) / tau) = fun j => (x j + γ j) / tau + t * (δ j / tau) := by
      funext j; ring
    rw [this]
  rw [hf]
  refine h.congr_deriv ?_
  refine Finset.sum_congr rfl fun j _ => ?_
  simp only [(gen_softmax n _ g tau (fun v => v) (fun _ => 0) 0).2, Model.C06.gumbelBack]
  ring

/-- discrete encoder over softmax: derivative of `t ↦ ḡ·Σ_k ℓ_k softmax(x + tδ)_k` is `⟨encoder.backprop(ḡ), δ⟩` -/
theorem encoder_vjp (n : Nat) (x δ levels : Nat → ℝ) (gbar : ℝ) :
    HasDerivAt (fun t : ℝ => gbar * Model.C06.encoderFwd n levels (Model.C06.softmaxFwd Real.exp n (fun j => x j + t * δ j)))
      (∑ j ∈ range n, encoderBack (softmaxBack n (Model.C06.softmaxFwd Real.exp n x)) levels gbar j * δ j) 0 := by
  have h := softmax_vjp' n x δ (fun k => gbar * levels k)
  have hf : (fun t : ℝ => gbar * Model.C06.encoderFwd n levels (Model.C06.softmaxFwd Real.exp n (fun j => x j + t * δ j)))
      = fun t : ℝ => ∑ i ∈ range n, (gbar * levels i) * Model.C06.softmaxFwd Real.exp n (fun j => x j + t * δ j) i := by
    funext t
    simp only [Model.C06.encoderFwd, sumTo_eq, Finset.mul_sum]
    exact Finset.sum_congr rfl fun i _ => by ring
  rw [hf]
  exact h

/-- activations: `backprop(x)` is the derivative of `forward` at `x`, for all slopes `a`, offsets `x0`, `y0` -/
theorem tanh_deriv (a x0 y0 x : ℝ) :
    HasDerivAt (fun x => tanhFwd Real.exp a x0 y0 x) (tanhBack Real.exp a x0 y0 x) x := by
  have h := tanh_deriv' a x0 y0 x
  have e : (fun x => tanhFwd Real.exp a x0 y0 x) = fun x => Model.C06.tanhFwd Real.exp a x0 y0 x := rfl
  rw [e, (gen_tanh Real.exp a x0 y0 x).2]; exact h

theorem arctan_deriv (a x0 y0 x : ℝ) :
    HasDerivAt (fun x => arctanFwd Real.arctan a x0 y0 x) (arctanBack Real.arctan a x0 y0 x) x := by
  have h := arctan_deriv' a x0 y0 x
  have e : (fun x => arctanFwd Real.arctan a x0 y0 x) = fun x => Model.C06.arctanFwd Real.arctan a x0 y0 x := rfl
  rw [e, (gen_arctan Real.arctan a x0 y0 x).2]; exact h

theorem softplus_deriv (a x0 y0 x : ℝ) :
    HasDerivAt (fun x => softplusFwd Real.exp Real.log a x0 y0 x) (softplusBack Real.exp Real.log a x0 y0 x) x :=
  softplus_deriv' a x0 y0 x

theorem sigmoid_deriv (a x0 y0 x : ℝ) :
    HasDerivAt (fun x => sigmoidFwd Real.exp a x0 y0 x) (sigmoidBack Real.exp a x0 y0 x) x :=
  sigmoid_deriv' a x0 y0 x

/-- mean-square error as a derivative: `d/dt cost(M + tδ)|₀ = ⟨grad, δ⟩` -/
theorem mse_hasDerivAt (n : Nat) (M D δ : Nat → ℝ) :
    HasDerivAt (fun t : ℝ => mseCost n (fun i => M i + t * δ i) D) (∑ i ∈ range n, mseGrad n M D i * δ i) 0 :=
  hasDerivAt_of_quadratic _ _ _ (mseCost n (fun i => D i + δ i) D) (fun t => mse_grad n M D δ t)


/-- bias-and-gain-invariant error, full statement: with the gain and bias re-estimated at every point, the returned
gradient is the derivative of the returned cost in every direction, for every length `n ≥ 1` and all data that are
not constant (the spread `bgieDen` the gain divides by is non-zero) -/
theorem bgie_grad (n : Nat) (hn : 0 < n) (I D δ : Nat → ℝ) (hden : bgieDen n I ≠ 0) :
    HasDerivAt (fun t : ℝ => bgieCost n (fun i => I i + t * δ i) D) (∑ i ∈ range n, bgieGrad n I D i * δ i) 0 := by
  have h := bgie_hasDerivAt n hn I D δ hden
  have e : (fun t : ℝ => bgieCost n (fun i => I i + t * δ i) D)
      = fun t : ℝ => Model.C06.bgieCost n (fun i => I i + t * δ i) D := rfl
  rw [e, (gen_bgie n I D).2.1]; exact h

/-- negative log-likelihood: the returned gradient is the derivative of the returned cost wherever `0 ≠ y_i ≠ 1` -/
theorem nll_grad (n : Nat) (y yhat δ : Nat → ℝ) (hy : ∀ i ∈ range n, y i ≠ 0 ∧ 1 - y i ≠ 0) :
    HasDerivAt (fun t : ℝ => nllCost Real.log n (fun i => y i + t * δ i) yhat)
      (∑ i ∈ range n, nllGrad Real.log n y yhat i * δ i) 0 := by
  have h := nll_hasDerivAt n y yhat δ hy
  have e : (fun t : ℝ => nllCost Real.log n (fun i => y i + t * δ i) yhat)
      = fun t : ℝ => Model.C06.nllCost Real.log n (fun i => y i + t * δ i) yhat := rfl
  rw [e, (gen_nll Real.log n y yhat).2.1]; exact h

/-- the derivation law used by `phase_grad`, instantiated: `φ ↦ A·exp(i k φ)` has derivative `i·k·g` -/
theorem phase_derivation_law (A k φ : ℝ) :
    HasDerivAt (fun φ : ℝ => (A : ℂ) * Complex.exp (Complex.I * k * φ))
      (Complex.I * k * ((A : ℂ) * Complex.exp (Complex.I * k * φ))) φ := by
  have h1 : HasDerivAt (fun φ : ℝ => Complex.I * k * (φ : ℂ)) (Complex.I * k) φ := by
    simpa using (Complex.ofRealCLM.hasDerivAt (x := φ)).const_mul (Complex.I * k)
  have h2 := (h1.cexp).const_mul (A : ℂ)
  refine h2.congr_deriv ?_
  ring

/-! ## the deformable mirror: the whole `render` chain (no rotation, no resampling) -/
section dm
variable {C : Type} [Field C] (conj : C →+* C) (hc : ∀ a, conj (conj a) = a)
include hc

/-- padding geometry (`m ≤ M`, `n ≤ N`): scatter → filter → real scale → pad, against
crop → scale → filter with `conj H` → gather, with the pad/crop offsets translated from `pad2d` / `crop_center`;
every grid size and parity, every lattice that fits, every transfer function -/
theorem dm_render_adjoint_pad (ky kx loy sty lox stx m n M N : Nat) (hm : m ≤ M) (hn : n ≤ N)
    (hsy : 0 < sty) (hsx : 0 < stx) (hly : loy + (ky - 1) * sty < m ∨ ky = 0) (hlx : lox + (kx - 1) * stx < n ∨ kx = 0)
    (F1 F2 G1 G2 H : Model.C06.Mat C) (c1 c2 c : C)
    (h1 : ∀ i j, G1 i j = c1 * conj (F1 j i)) (h2 : ∀ i j, G2 i j = c2 * conj (F2 j i))
    (hc1 : conj c1 = c1) (hc2 : conj c2 = c2) (hcc : conj c = c) (a y : Model.C06.Mat C) :
    Model.C06.ip2 conj M N y
        (Model.C06.dmRenderPad ky kx loy sty lox stx m n (padSliceLo m M) (padSliceLo n N) F1 F2 G1 G2 H c a)
      = Model.C06.ip2 conj ky kx
        (Model.C06.dmBackPad conj loy sty lox stx m n (cropLo M m) (cropLo N n) F1 F2 G1 G2 H c y) a := by
  have e1 : cropLo (M : Int) (m : Int) = padSliceLo (m : Int) (M : Int) := by simp only [cropLo, padSliceLo]
  have e2 : cropLo (N : Int) (n : Int) = padSliceLo (n : Int) (N : Int) := by simp only [cropLo, padSliceLo]
  rw [e1, e2]
  exact dm_pad_adjoint conj hc ky kx loy sty lox stx m n M N _ _ (by simp only [padSliceLo]; omega)
    (by simp only [padSliceLo]; omega) (by simp only [padSliceLo]; omega) (by simp only [padSliceLo]; omega)
    hsy hsx hly hlx F1 F2 G1 G2 H c1 c2 c h1 h2 hc1 hc2 hcc a y

/-- cropping geometry (`M ≤ m`, `N ≤ n`) -/
theorem dm_render_adjoint_crop (ky kx loy sty lox stx m n M N : Nat) (hm : M ≤ m) (hn : N ≤ n)
    (hsy : 0 < sty) (hsx : 0 < stx) (hly : loy + (ky - 1) * sty < m ∨ ky = 0) (hlx : lox + (kx - 1) * stx < n ∨ kx = 0)
    (F1 F2 G1 G2 H : Model.C06.Mat C) (c1 c2 c : C)
    (h1 : ∀ i j, G1 i j = c1 * conj (F1 j i)) (h2 : ∀ i j, G2 i j = c2 * conj (F2 j i))
    (hc1 : conj c1 = c1) (hc2 : conj c2 = c2) (hcc : conj c = c) (a y : Model.C06.Mat C) :
    Model.C06.ip2 conj M N y
        (Model.C06.dmRenderCrop ky kx loy sty lox stx m n (cropLo m M) (cropLo n N) F1 F2 G1 G2 H c a)
      = Model.C06.ip2 conj ky kx
        (Model.C06.dmBackCrop conj loy sty lox stx m n M N (padSliceLo M m) (padSliceLo N n) F1 F2 G1 G2 H c y) a := by
  have e1 : padSliceLo (M : Int) (m : Int) = cropLo (m : Int) (M : Int) := by simp only [cropLo, padSliceLo]
  have e2 : padSliceLo (N : Int) (n : Int) = cropLo (n : Int) (N : Int) := by simp only [cropLo, padSliceLo]
  rw [e1, e2]
  exact dm_crop_adjoint conj hc ky kx loy sty lox stx m n M N _ _ (by simp only [cropLo]; omega)
    (by simp only [cropLo]; omega) (by simp only [cropLo]; omega) (by simp only [cropLo]; omega)
    hsy hsx hly hlx F1 F2 G1 G2 H c1 c2 c h1 h2 hc1 hc2 hcc a y
end dm

/-! ## compositions -/

/-- Babinet end to end: `hTB` of `babinet_adjoint` instantiated with the mask-and-back pair -/
theorem babinet_fpm_adjoint {C : Type} [Field C] (conj : C →+* C) (hc : ∀ a, conj (conj a) = a)
    (p0 p1 M0 M1 : Nat) (Eo1 Ei1 mask Eo2 Ei2 L x y : Model.C06.Mat C) :
    Model.C06.ip2 conj p0 p1 y (Model.C06.babinetFwd (Model.C06.fpmFwd p0 p1 M0 M1 Eo1 Ei1 mask Eo2 Ei2) L x)
      = Model.C06.ip2 conj p0 p1
          (Model.C06.babinetBack conj ((babinetBackCoef : Int) : C)
            (Model.C06.fpmBack conj ((fpmBackSign : Int) : C) fpmBackConjMaskIffComplex p0 p1 M0 M1 Eo1 Ei1 mask Eo2 Ei2) L y) x :=
  babinet_adjoint conj hc p0 p1 _ _ (fun x y => fpm_adjoint conj hc p0 p1 M0 M1 Eo1 Ei1 mask Eo2 Ei2 x y) L x y

/-- discrete encoder over the Gumbel-softmax estimator (the shipped combination) -/
theorem encoder_gumbel_vjp (n : Nat) (tau : ℝ) (x δ levels γ : Nat → ℝ) (gbar : ℝ) :
    HasDerivAt (fun t : ℝ => gbar * Model.C06.encoderFwd n levels
        (Model.C06.softmaxFwd Real.exp n (fun j => (x j + t * δ j + γ j) / tau)))
      (∑ j ∈ range n, encoderBack (gumbelBack tau n (Model.C06.softmaxFwd Real.exp n (fun j => (x j + γ j) / tau))) levels gbar j * δ j) 0 := by
  have h := gumbel_vjp n tau x δ (fun k => gbar * levels k) γ
  have hf : (fun t : ℝ => gbar * Model.C06.encoderFwd n levels (Model.C06.softmaxFwd Real.exp n (fun j => (x j + t * δ j + γ j) / tau)))
      = fun t : ℝ => ∑ i ∈ range n, (gbar * levels i) * Model.C06.softmaxFwd Real.exp n (fun j => (x j + t * δ j + γ j) / tau) i := by
    funext t
    simp only [Model.C06.encoderFwd, sumTo_eq, Finset.mul_sum]
    exact Finset.sum_congr rfl fun i _ => by ring
  rw [hf]
  exact h

/-- batches: `Softmax` treats every row of the `(A, K)` work array independently, so the VJP of the batch is the row-wise VJP -/
theorem softmax_vjp_batch (A n : Nat) (X Δ G : Nat → Nat → ℝ) :
    HasDerivAt (fun t : ℝ => ∑ a ∈ range A, ∑ i ∈ range n, G a i * Model.C06.softmaxFwd Real.exp n (fun j => X a j + t * Δ a j) i)
      (∑ a ∈ range A, ∑ j ∈ range n, softmaxBack n (Model.C06.softmaxFwd Real.exp n (X a)) (G a) j * Δ a j) 0 :=
  HasDerivAt.fun_sum fun a _ => softmax_vjp n (X a) (Δ a) (G a)

/-- taking real parts (as `apply_transfer_functions` does): if `B` is the adjoint of the complex-linear `A`, then for real
(self-conjugate) `x`, `y` the real parts pair up too: `⟨y, A x + conj(A x)⟩ = ⟨B y + conj(B y), x⟩` (twice the real parts) -/
theorem real_part_adjoint {C : Type} [Field C] (conj : C →+* C) (hc : ∀ a, conj (conj a) = a) (m n M N : Nat)
    (Ax By x y : Model.C06.Mat C) (hx : ∀ i j, conj (x i j) = x i j) (hy : ∀ i j, conj (y i j) = y i j)
    (h : Model.C06.ip2 conj M N y Ax = Model.C06.ip2 conj m n By x) :
    Model.C06.ip2 conj M N y (fun i j => Ax i j + conj (Ax i j))
      = Model.C06.ip2 conj m n (fun i j => By i j + conj (By i j)) x := by
  have h' := congrArg conj h
  simp only [Model.C06.ip2, sumTo_eq, map_sum, map_mul, hc, hx, hy, map_add, mul_add, add_mul, Finset.sum_add_distrib] at h h' ⊢
  rw [h, h']

/-- phase node, composed: for `g(φ) = A·exp(i·k·φ)` with the forward's wavenumber, the derivative of the real pairing
`φ ↦ Re(conj(gbar)·g(φ))` (how a cost depends on `φ` through `g`, prysm's gradient convention) is what the backprop returns,
`phaseBack k gbar g(φ₀)` with the backprop's wavenumber -/
theorem phase_hasDerivAt (A pi wavelength φ0 : ℝ) (gbar : Cx ℝ) :
    HasDerivAt (fun φ : ℝ => ((starRingEnd ℂ) (toC gbar) * ((A : ℂ) * Complex.exp (Complex.I * (phaseFwdK pi wavelength : ℝ) * φ))).re)
      (phaseBack (phaseBackK pi wavelength) gbar
        ⟨A * Real.cos (phaseFwdK pi wavelength * φ0), A * Real.sin (phaseFwdK pi wavelength * φ0)⟩) φ0 := by
  rw [gen_phase_wavenumber]
  set k : ℝ := phaseFwdK pi wavelength with hk
  have h1 := phase_derivation_law A k φ0
  have h2 := (h1.const_mul ((starRingEnd ℂ) (toC gbar)))
  have h3 := Complex.reCLM.hasFDerivAt.comp_hasDerivAt φ0 h2
  have e : Complex.exp (Complex.I * (k : ℂ) * (φ0 : ℂ)) = (Real.cos (k * φ0) : ℂ) + (Real.sin (k * φ0) : ℂ) * Complex.I := by
    have : Complex.I * (k : ℂ) * (φ0 : ℂ) = ((k * φ0 : ℝ) : ℂ) * Complex.I := by push_cast; ring
    rw [this, Complex.exp_mul_I, Complex.ofReal_cos, Complex.ofReal_sin]
  refine h3.congr_deriv ?_
  simp only [Complex.reCLM_apply, e, phaseBack, Model.C06.phaseBack, toC, cx_mul_im, cx_conj_re, cx_conj_im]
  simp only [Complex.mul_re, Complex.mul_im, Complex.add_re, Complex.add_im, Complex.ofReal_re, Complex.ofReal_im,
    Complex.I_re, Complex.I_im, Complex.conj_re, Complex.conj_im]
  ring

/-! ## the executable model itself (complex numbers as pairs of reals, as the driver evaluates them) -/

/-- matrix-DFT pair as modelled with concrete bases (any Q, shift, shapes, any `cos/sin/sqrt`): `mdftBack` is the
adjoint of `mdftFwd` over `Cx ℝ` -/
theorem mdft_model_adjoint (cosf sinf sqrtf : ℝ → ℝ) (twoPi sigma : ℝ) (m n M N : Nat) (Qy Qx sx sy : ℝ)
    (x y : Model.C06.Mat (Cx ℝ)) :
    Model.C06.ip2 Cx.conj M N y (Model.C06.mdftFwd cosf sinf sqrtf twoPi sigma m n M N Qy Qx sx sy x)
      = Model.C06.ip2 Cx.conj m n (Model.C06.mdftBack cosf sinf sqrtf twoPi sigma m n M N Qy Qx sx sy y) x := by
  unfold Model.C06.mdftFwd Model.C06.mdftBack
  exact dft2_adjoint_model M m n N _ _ x y

/-- mask-and-back as modelled end to end (per-axis Q from the physical widths, both shifts, conjugated mask, no sign):
`fpmBackFull` is the adjoint of `fpmFwdFull` for every pupil shape, mask shape, complex mask and sampling -/
theorem fpm_model_adjoint (cosf sinf sqrtf : ℝ → ℝ) (twoPi : ℝ) (p0 p1 M0 M1 : Nat)
    (dx efl wl fdx sx sy : ℝ) (mask x y : Model.C06.Mat (Cx ℝ)) :
    Model.C06.ip2 Cx.conj p0 p1 y (Model.C06.fpmFwdFull cosf sinf sqrtf twoPi p0 p1 M0 M1 dx efl wl fdx sx sy mask x)
      = Model.C06.ip2 Cx.conj p0 p1 (Model.C06.fpmBackFull cosf sinf sqrtf twoPi p0 p1 M0 M1 dx efl wl fdx sx sy mask y) x :=
  fpm_adjoint_model cosf sinf sqrtf twoPi p0 p1 M0 M1 dx efl wl fdx sx sy mask x y

/-- the tabulated pipelines the driver runs return, inside the extents of the result, exactly the pure model
(`mdft`, fixed-sampling, mask-and-back, Babinet), for every scalar type -/
theorem driver_pipelines_agree {K : Type} [Num K] (cosf sinf sqrtf : K → K) (twoPi : K) (p0 p1 M0 M1 : Nat)
    (dx efl wl fdx sx sy : K) (mask fpm lyot y : Model.C06.Mat (Cx K)) (i j : Nat) (hi : i < p0) (hj : j < p1) :
    (Model.C06.fpmBackFullT cosf sinf sqrtf twoPi p0 p1 M0 M1 dx efl wl fdx sx sy mask y).fn i j
        = Model.C06.fpmBackFull cosf sinf sqrtf twoPi p0 p1 M0 M1 dx efl wl fdx sx sy mask y i j ∧
    (Model.C06.babinetBackFullT cosf sinf sqrtf twoPi p0 p1 M0 M1 dx efl wl fdx fpm lyot y).fn i j
        = Model.C06.babinetBackFull cosf sinf sqrtf twoPi p0 p1 M0 M1 dx efl wl fdx fpm lyot y i j ∧
    (Model.C06.fixedBackT cosf sinf sqrtf twoPi sx p0 p1 M0 M1 dx efl wl fdx sx sy mask).fn i j
        = Model.C06.fixedBack cosf sinf sqrtf twoPi sx p0 p1 M0 M1 dx efl wl fdx sx sy mask i j :=
  ⟨fpmBackFullT_agrees cosf sinf sqrtf twoPi p0 p1 M0 M1 dx efl wl fdx sx sy mask y y (fun _ _ _ _ => rfl) i j hi hj,
   babinetBackFullT_agrees cosf sinf sqrtf twoPi p0 p1 M0 M1 dx efl wl fdx fpm lyot y i j hi hj,
   fixedBackT_agrees cosf sinf sqrtf twoPi sx p0 p1 M0 M1 dx efl wl fdx sx sy mask mask (fun _ _ _ _ => rfl) i j hi hj⟩

/-! ## session 3: `fourier_resample_backprop`, masked cost functions -/

/-- translated: the operation chain of `fourier_resample_backprop` is the mirrored chain of adjoints of `fourier_resample`
(the matrix-DFT / FFT / shift part; each side then takes the real part and applies one scale factor), and both ask the
matrix-DFT executor for the same transform geometry (same zoom, `(int(m·zy), int(n·zx))` ↔ `in_shape`, same prologue) -/
theorem gen_resample_chain :
    (resampleBackChain.filter fun s => s ≠ "real" ∧ s ≠ "scale")
        = ((resampleFwdChain.filter fun s => s ≠ "real" ∧ s ≠ "scale").map Model.C06.resampleAdjointOf).reverse
      ∧ resampleFwdChain.count "real" = 1 ∧ resampleBackChain.count "real" = 1
      ∧ resampleFwdChain.count "scale" = 1 ∧ resampleBackChain.count "scale" = 1
      ∧ resampleSameGeometry = true := by decide

/-- translated: every circular shift of the backprop undoes the mirrored shift of the forward, for every axis length
(`fftshift` and `ifftshift` differ for odd lengths: swapping them on either side breaks this) -/
theorem gen_resample_shifts (n : Nat) :
    resampleBackPre n + resampleFwdPost n = n ∧ resampleBackPost n + resampleFwdPre n = n := by
  constructor <;> simp only [resampleBackPre, resampleFwdPost, resampleBackPost, resampleFwdPre] <;> omega

/-- translated: the scale factor of the backprop, times the `1/(m·n)` that turns `ifft2` into `fft2ᴴ`, is the scale factor of the
forward -- for every zoom and size, given only `sqrt(x)² = x` at the one argument the source takes the root of -/
theorem gen_resample_scale {K : Type} [Field K] (sqrtf : K → K) (zy zx m n mm nn : K) (hm : m ≠ 0) (hn : n ≠ 0)
    (hsq : sqrtf (m * n) * sqrtf (m * n) = m * n) :
    resampleBackScale sqrtf zy zx m n mm nn * (1 / m) * (1 / n) = resampleFwdScale sqrtf zy zx m n mm nn := by
  have hs : sqrtf (m * n) ≠ 0 := fun h => by rw [h, mul_zero] at hsq; exact mul_ne_zero hm hn hsq.symm
  simp only [resampleBackScale, resampleFwdScale]
  field_simp
  first
    | linear_combination (zy * zx) * hsq
    | linear_combination -(zy * zx) * hsq
    | (rw [← hsq]; ring)

/-- `fourier_resample_backprop` is the adjoint of `fourier_resample` (as complex-linear operators; `real_part_adjoint` transfers
it to the real parts both routines return): for every input size `m × n`, output size `M × N`, zoom, matrix-DFT bases `Eo`, `Ei`
(whatever Q / shift / normalisation the executor builds), any FFT matrices with `ifft = (1/size)·fftᴴ`, with the roll amounts and
the two scale factors TRANSLATED from the source -/
theorem fourier_resample_adjoint {C : Type} [Field C] (conj : C →+* C) (hc : ∀ a, conj (conj a) = a)
    (m n M N : Nat) (hm : (m : C) ≠ 0) (hn : (n : C) ≠ 0) (F1 F2 G1 G2 Eo Ei : Model.C06.Mat C)
    (h1 : ∀ i j, G1 i j = (1 / (m : C)) * conj (F1 j i)) (h2 : ∀ i j, G2 i j = (1 / (n : C)) * conj (F2 j i))
    (sqrtf : C → C) (zy zx : C) (hzy : conj zy = zy) (hzx : conj zx = zx)
    (hsq : sqrtf ((m : C) * n) * sqrtf ((m : C) * n) = (m : C) * n) (hsc : conj (sqrtf ((m : C) * n)) = sqrtf ((m : C) * n))
    (f y : Model.C06.Mat C) :
    Model.C06.ip2 conj M N y
        (Model.C06.resampleFwd m n M N (resampleFwdPre m) (resampleFwdPre n) (resampleFwdPost m) (resampleFwdPost n)
          F1 F2 Eo Ei (resampleFwdScale sqrtf zy zx (m : C) n M N) f)
      = Model.C06.ip2 conj m n
        (Model.C06.resampleBack conj m n M N (resampleBackPre m) (resampleBackPre n) (resampleBackPost m) (resampleBackPost n)
          G1 G2 Eo Ei (resampleBackScale sqrtf zy zx (m : C) n M N) y) f := by
  have hcm : conj (1 / (m : C)) = 1 / (m : C) := by simp
  have hcn : conj (1 / (n : C)) = 1 / (n : C) := by simp
  refine resample_adjoint' conj hc m n M N _ _ _ _ _ _ _ _ (gen_resample_shifts m).1 (gen_resample_shifts n).1
    (gen_resample_shifts m).2 (gen_resample_shifts n).2 F1 F2 G1 G2 Eo Ei (1 / (m : C)) (1 / (n : C)) _ _ h1 h2 hcm hcn ?_
    (gen_resample_scale sqrtf zy zx (m : C) n M N hm hn hsq) f y
  simp only [resampleBackScale, map_mul, map_div₀, map_add, map_sub, map_one, map_natCast, hzy, hzx, hsc]

/-- translated: `Wavefront.focus_fixed_sampling_backprop` (called on the focal-plane gradient, whose `dx` is the focal sampling `q`, with the
pupil sampling `p`) hands the function-level backprop exactly the geometric arguments the forward wrapper handed the forward routine (called
on the pupil, `dx = p`, asked for `q`): same `input_dx`, `prop_dist`, `wavelength`, `output_dx` for all values, the same pass-through of
data / samples / shift / method, and labels its result with the pupil sampling and plane -/
theorem gen_wavefront_ffs_wrapper (p q efl wl : Rat) :
    wfFfsBackNum p q efl wl = wfFfsFwdNum p q efl wl ∧ wfFfsBackPass = wfFfsFwdPass
      ∧ wfFfsBackRetDx p q efl wl = p ∧ wfFfsBackRetSpace = "'pupil'" := by
  refine ⟨?_, by decide, ?_, by decide⟩
  · first | rfl | (simp only [wfFfsBackNum, wfFfsFwdNum]; congr 1 <;> ring_nf)
  · first | rfl | (simp only [wfFfsBackRetDx]; ring)

/-- translated: `Wavefront.to_fpm_and_back_backprop` hands the function-level backprop the forward wrapper's `dx`, `wavelength`, `efl`,
`fpm_dx` (all values) and the same mask / method / shift / return_more; with `return_more=True` the three gradients come back in the order the
function-level routine returns them, labelled with the pupil sampling, the mask sampling, the mask sampling -/
theorem gen_wavefront_fpm_wrapper (p fdx efl wl : Rat) :
    wfFpmBackNum p fdx efl wl = wfFpmFwdNum p fdx efl wl ∧ wfFpmBackPass = wfFpmFwdPass
      ∧ wfFpmBackMoreOrder = [0, 1, 2] ∧ wfFpmBackMoreDx p fdx efl wl = [p, fdx, fdx] ∧ wfFpmBackRetDx p fdx efl wl = p := by
  refine ⟨?_, by decide, by decide, ?_, ?_⟩
  · first | rfl | (simp only [wfFpmBackNum, wfFpmFwdNum]; congr 1 <;> ring_nf)
  · first | rfl | (simp only [wfFpmBackMoreDx]; congr 1 <;> ring_nf)
  · first | rfl | (simp only [wfFpmBackRetDx]; ring)

/-- translated, GENERAL live-parameter obligation: over every class of the anchor modules that has a forward / backprop method pair
(discovered from the source: activations, encoder, SpatialGradient2D, DM, the matrix-DFT executor, the Wavefront methods), no backprop reads
an attribute of `self` that its forward neither reads nor writes -- a value cached at construction (`1/tau`, a conjugated transfer function …)
goes stale as soon as the public parameter is re-assigned on a live node; and the known nodes are all among the discovered pairs -/
theorem gen_live_attributes_all :
    backpropStaleReads = [] ∧ liveAttributeHooked = []
      ∧ (∀ s ∈ ["GumbelSoftmax.forward/backprop", "Softmax.forward/backprop", "DiscreteEncoder.forward/backprop", "Tanh.forward/backprop",
          "Arctan.forward/backprop", "Softplus.forward/backprop", "Sigmoid.forward/backprop", "DM.render/render_backprop",
          "SpatialGradient2D.forward_x/backprop_x", "SpatialGradient2D.forward_y/backprop_y",
          "Wavefront.intensity/intensity_backprop", "Wavefront.to_fpm_and_back/to_fpm_and_back_backprop",
          "Wavefront.focus_fixed_sampling/focus_fixed_sampling_backprop", "Wavefront.babinet/babinet_backprop",
          "MatrixDFTExecutor.dft2/dft2_backprop", "MatrixDFTExecutor.idft2/idft2_backprop"], s ∈ liveAttributePairs) := by decide

/-- `fourier_resample` and `fourier_resample_backprop` AS RETURNED (both take `.real` before scaling; real scaling and `.real` commute): for
real (self-conjugate) input `f` and upstream gradient `y`, `⟨y, Re(resample f)⟩ = ⟨Re(resample_backprop y), f⟩` -- the real-inner-product
adjoint statement at full strength, every size / zoom / matrix-DFT basis, roll amounts and scale factors translated -/
theorem fourier_resample_real_adjoint {C : Type} [Field C] (conj : C →+* C) (hc : ∀ a, conj (conj a) = a)
    (m n M N : Nat) (hm : (m : C) ≠ 0) (hn : (n : C) ≠ 0) (F1 F2 G1 G2 Eo Ei : Model.C06.Mat C)
    (h1 : ∀ i j, G1 i j = (1 / (m : C)) * conj (F1 j i)) (h2 : ∀ i j, G2 i j = (1 / (n : C)) * conj (F2 j i))
    (sqrtf : C → C) (zy zx : C) (hzy : conj zy = zy) (hzx : conj zx = zx)
    (hsq : sqrtf ((m : C) * n) * sqrtf ((m : C) * n) = (m : C) * n) (hsc : conj (sqrtf ((m : C) * n)) = sqrtf ((m : C) * n))
    (f y : Model.C06.Mat C) (hf : ∀ i j, conj (f i j) = f i j) (hy : ∀ i j, conj (y i j) = y i j) :
    Model.C06.ip2 conj M N y (Model.C06.realPart conj
        (Model.C06.resampleFwd m n M N (resampleFwdPre m) (resampleFwdPre n) (resampleFwdPost m) (resampleFwdPost n)
          F1 F2 Eo Ei (resampleFwdScale sqrtf zy zx (m : C) n M N) f))
      = Model.C06.ip2 conj m n (Model.C06.realPart conj
        (Model.C06.resampleBack conj m n M N (resampleBackPre m) (resampleBackPre n) (resampleBackPost m) (resampleBackPost n)
          G1 G2 Eo Ei (resampleBackScale sqrtf zy zx (m : C) n M N) y)) f := by
  have h := real_part_adjoint conj hc m n M N _ _ f y hf hy
    (fourier_resample_adjoint conj hc m n M N hm hn F1 F2 G1 G2 Eo Ei h1 h2 sqrtf zy zx hzy hzx hsq hsc f y)
  have e : ∀ x : Model.C06.Mat C, Model.C06.realPart conj x = fun i j => (1 / 2 : C) * (x i j + conj (x i j)) := by
    intro x; funext i j; simp only [Model.C06.realPart, ofInt_eq]; push_cast; ring
  have h2' : conj (2 : C) = 2 := by
    have : (2 : C) = 1 + 1 := by norm_num
    rw [this, map_add, map_one]
  have hhalf : conj (1 / 2 : C) = 1 / 2 := by rw [map_div₀, map_one, h2']
  rw [e, e, ip2_smul_right, ip2_smul_left conj m n (1 / 2 : C) hhalf, h]

/-- the circular shifts on their own: rolling both axes by `(sy, sx)` and by `(m − sy, n − sx)` are adjoint (inverse
permutations), every size -- `fftshift` / `ifftshift` are the cases `s = n / 2`, `s = n − n / 2` -/
theorem roll_adjoint {C : Type} [Field C] (conj : C →+* C) (m n sy sx : Nat) (hy : sy ≤ m) (hx : sx ≤ n) (u v : Model.C06.Mat C) :
    Model.C06.ip2 conj m n u (Model.C06.roll2 m n sy sx v)
      = Model.C06.ip2 conj m n (Model.C06.roll2 m n (m - sy) (n - sx) u) v :=
  ip2_roll conj m n sy sx hy hx u v

/-- the tabulated `fourier_resample_backprop` pipeline the driver runs equals the pure model inside the extents -/
theorem resample_driver_agrees {C : Type} [Num C] (conj : C → C) (m n M N preY preX postY postX : Nat) (hpy : preY ≤ m) (hpx : preX ≤ n)
    (hqy : postY ≤ m) (hqx : postX ≤ n) (G1 G2 Eo Ei : Model.C06.Mat C) (c : C) (y : Model.C06.Mat C) (i j : Nat) (hi : i < m) (hj : j < n) :
    (Model.C06.resampleBackT conj m n M N preY preX postY postX G1 G2 Eo Ei c y).fn i j
      = Model.C06.resampleBack conj m n M N preY preX postY postX G1 G2 Eo Ei c y i j := by
  have hr : ∀ (s k q : Nat), s ≤ k → q < k → Model.C06.rollIdx k s q < k := fun s k q hs hq => rollIdx_lt k s q hs hq
  simp only [Model.C06.resampleBackT, Model.C06.resampleBack, Model.C06.idft2, Model.C06.dftBack]
  rw [Tab.fn_ofFn m n _ i j hi hj]
  congr 1
  simp only [Model.C06.roll2]
  rw [Tab.fn_ofFn m n _ _ _ (hr _ _ _ hqy hi) (hr _ _ _ hqx hj)]
  simp only [Model.C06.matmul]
  refine sumTo_congr _ _ _ fun a ha => ?_
  congr 1
  rw [Tab.fn_ofFn m n _ _ _ ha (hr _ _ _ hqx hj)]
  refine sumTo_congr _ _ _ fun b hb => ?_
  congr 1
  rw [Tab.fn_ofFn m n _ _ _ ha hb]
  simp only [Model.C06.roll2]
  rw [Tab.fn_ofFn m n _ _ _ (hr _ _ _ hpy ha) (hr _ _ _ hpx hb)]
  simp only [Model.C06.matmul]
  refine sumTo_congr _ _ _ fun d hd => ?_
  congr 1
  rw [Tab.fn_ofFn M n _ _ _ hd (hr _ _ _ hpx hb)]
  rfl

/-- masking, the linear part: scattering a gradient into zeros at the kept positions (`g2[mask] = g`) is the adjoint of keeping
those positions (`x[mask]`), for every array length, every number of kept samples and every position list inside the array -/
theorem mask_compress_scatter_adjoint {K : Type} [Field K] (cnt n : Nat) (idx : Nat → Nat) (hidx : ∀ k, k < cnt → idx k < n)
    (g δ : Nat → K) :
    ∑ k ∈ range cnt, g k * Model.C06.compress idx δ k = ∑ i ∈ range n, Model.C06.scatterMask cnt idx g i * δ i :=
  compress_scatter_adjoint' cnt n idx hidx g δ

/-- masked cost functions, for ALL masks: if `grad` is the gradient of `cost` on the kept samples (directional derivative along
every direction), then `scatter(grad(x[mask]))` is the gradient of `x ↦ cost(x[mask])` on the whole array -- the compress / scatter
shape that `gen_masked_costs` recognises in the masked branches of the three cost functions -/
theorem masked_cost_grad (cnt n : Nat) (idx : Nat → Nat) (hidx : ∀ k, k < cnt → idx k < n)
    (cost : (Nat → ℝ) → ℝ) (grad : (Nat → ℝ) → Nat → ℝ)
    (h : ∀ x δ : Nat → ℝ, HasDerivAt (fun t : ℝ => cost (fun k => x k + t * δ k)) (∑ k ∈ range cnt, grad x k * δ k) 0)
    (X Δ : Nat → ℝ) :
    HasDerivAt (fun t : ℝ => cost (Model.C06.compress idx (fun i => X i + t * Δ i)))
      (∑ i ∈ range n, Model.C06.scatterMask cnt idx (grad (Model.C06.compress idx X)) i * Δ i) 0 := by
  rw [← mask_compress_scatter_adjoint cnt n idx hidx]
  exact h (Model.C06.compress idx X) (Model.C06.compress idx Δ)

/-- closes `translated masked term = compress / closed form / scatter`: by unfolding (any re-spelling that is definitionally the same),
else after normalising the arithmetic inside the sums -/
macro "masked_eq" : tactic =>
  `(tactic| (first
      | rfl
      | (funext i; rfl)
      | (simp only [mseMaskedCost, mseMaskedGrad, bgieMaskedCost, bgieMaskedGrad, nllMaskedCost, nllMaskedGrad, mseCost, mseGrad,
           bgieCost, bgieGrad, nllCost, nllGrad, Model.C06.compress, Model.C06.scatterMask]
         <;> first | rfl | ring_nf | (congr 1; funext k; ring_nf) | (funext i; congr 1; funext k; ring_nf; try split_ifs <;> ring_nf))))

/-- translated, masked path of `mean_square_error` (the branch taken when a mask is given, symbolically executed), RELATIVE like `mse_grad`: the
translated masked cost is an exact quadratic along every direction whose linear coefficient is the translated (scattered) masked gradient,
`cost(M + tδ) = cost(M) + t·⟨grad(M), δ⟩ + t²·cost(D + δ)` -- for every mask, whatever count the branch normalises by (kept samples, all samples, …);
false when the scattered gradient is not the derivative of the masked cost (wrong factor, wrong operand compressed, scatter of something else) -/
theorem gen_mse_masked {K : Type} [Field K] (cnt n : Nat) (idx : Nat → Nat) (hidx : ∀ k, k < cnt → idx k < n) (M D δ : Nat → K) (t : K) :
    mseMaskedCost n cnt idx (fun i => M i + t * δ i) D
      = mseMaskedCost n cnt idx M D + t * (∑ i ∈ range n, mseMaskedGrad n cnt idx M D i * δ i)
        + t ^ 2 * mseMaskedCost n cnt idx (fun i => D i + δ i) D := by
  simp only [mseMaskedCost, mseMaskedGrad]
  rw [← compress_scatter_adjoint' cnt n idx hidx]
  simp only [Model.C06.compress, Model.C06.mseCost, Model.C06.mseGrad, sumTo_eq, ofInt_eq, Finset.mul_sum, Finset.sum_mul, ← Finset.sum_add_distrib]
  refine Finset.sum_congr rfl fun k _ => ?_
  push_cast; ring

/-- translated, masked path of `bias_and_gain_invariant_error` = compress, translated unmasked pair, scatter -/
theorem gen_bgie_masked {K : Type} [Field K] (n cnt : Nat) (idx : Nat → Nat) (I D : Nat → K) :
    bgieMaskedCost n cnt idx I D = bgieCost cnt (Model.C06.compress idx I) (Model.C06.compress idx D)
      ∧ bgieMaskedGrad n cnt idx I D
          = Model.C06.scatterMask cnt idx (bgieGrad cnt (Model.C06.compress idx I) (Model.C06.compress idx D)) := by
  constructor <;> masked_eq

/-- translated, masked path of `negative_loglikelihood` (array-valued target) = compress, translated unmasked pair, scatter -/
theorem gen_nll_masked {K : Type} [Field K] (lg : K → K) (n cnt : Nat) (idx : Nat → Nat) (y yhat : Nat → K) :
    nllMaskedCost lg n cnt idx y yhat = nllCost lg cnt (Model.C06.compress idx y) (Model.C06.compress idx yhat)
      ∧ nllMaskedGrad lg n cnt idx y yhat
          = Model.C06.scatterMask cnt idx (nllGrad lg cnt (Model.C06.compress idx y) (Model.C06.compress idx yhat)) := by
  constructor <;> masked_eq

/-- masked `mean_square_error`, over the TRANSLATED masked branch: the returned (scattered) gradient is the derivative of the returned
(masked) cost, for every mask (`idx` lists the kept positions of an array of `n` samples) -/
theorem mse_masked_grad (cnt n : Nat) (idx : Nat → Nat) (hidx : ∀ k, k < cnt → idx k < n) (M D δ : Nat → ℝ) :
    HasDerivAt (fun t : ℝ => mseMaskedCost n cnt idx (fun i => M i + t * δ i) D)
      (∑ i ∈ range n, mseMaskedGrad n cnt idx M D i * δ i) 0 :=
  hasDerivAt_of_quadratic _ _ _ (mseMaskedCost n cnt idx (fun i => D i + δ i) D) (fun t => gen_mse_masked cnt n idx hidx M D δ t)

/-- masked `bias_and_gain_invariant_error`, over the translated masked branch (at least one kept sample, kept model data not constant) -/
theorem bgie_masked_grad (cnt n : Nat) (hcnt : 0 < cnt) (idx : Nat → Nat) (hidx : ∀ k, k < cnt → idx k < n) (I D δ : Nat → ℝ)
    (hden : bgieDen cnt (Model.C06.compress idx I) ≠ 0) :
    HasDerivAt (fun t : ℝ => bgieMaskedCost n cnt idx (fun i => I i + t * δ i) D)
      (∑ i ∈ range n, bgieMaskedGrad n cnt idx I D i * δ i) 0 := by
  rw [(gen_bgie_masked n cnt idx I D).2, funext fun t => (gen_bgie_masked n cnt idx (fun i => I i + t * δ i) D).1,
    ← mask_compress_scatter_adjoint cnt n idx hidx]
  exact bgie_grad cnt hcnt (Model.C06.compress idx I) (Model.C06.compress idx D) (Model.C06.compress idx δ) hden

/-- masked `negative_loglikelihood`, over the translated masked branch (kept predictions away from 0 and 1) -/
theorem nll_masked_grad (cnt n : Nat) (idx : Nat → Nat) (hidx : ∀ k, k < cnt → idx k < n) (y yhat δ : Nat → ℝ)
    (hy : ∀ k ∈ range cnt, y (idx k) ≠ 0 ∧ 1 - y (idx k) ≠ 0) :
    HasDerivAt (fun t : ℝ => nllMaskedCost Real.log n cnt idx (fun i => y i + t * δ i) yhat)
      (∑ i ∈ range n, nllMaskedGrad Real.log n cnt idx y yhat i * δ i) 0 := by
  rw [(gen_nll_masked Real.log n cnt idx y yhat).2, funext fun t => (gen_nll_masked Real.log n cnt idx (fun i => y i + t * δ i) yhat).1,
    ← mask_compress_scatter_adjoint cnt n idx hidx]
  exact nll_grad cnt (Model.C06.compress idx y) (Model.C06.compress idx yhat) (Model.C06.compress idx δ) hy


/-! ## non-vacuity: the hypotheses are met by the intended instances -/

/-- `ℂ` with complex conjugation is an instance of `(C, conj)` -/
example (M m n N : Nat) (Eo Ei f y : Model.C06.Mat ℂ) :
    Model.C06.ip2 (starRingEnd ℂ) M N y (dft2FwdTerm M m n N Eo f Ei)
      = Model.C06.ip2 (starRingEnd ℂ) m n (dft2BackTerm (starRingEnd ℂ) M m n N Eo y Ei) f :=
  triple_product_adjoint (starRingEnd ℂ) (fun a => by simp) M m n N Eo Ei f y

/-- real arrays: `ℝ` with the identity -/
example (n : Nat) (x y : Model.C06.Vec ℝ) :
    Model.C06.ip (RingHom.id ℝ) n y (Model.C06.sgApply n (sgForwardX n) x)
      = Model.C06.ip (RingHom.id ℝ) n (Model.C06.sgApply n (sgBackpropX n) y) x :=
  shifted_difference_adjoint (RingHom.id ℝ) n x y

/-- the DFT contract of `circ_filter_adjoint` / the DM theorems: with `F[j,k] = ω^{jk}` (`ω` unimodular) the inverse
matrix `G = (1/n)·conj(F)ᵀ` has the required form, with the real constant `c = 1/n` -/
example (n : Nat) (ω : ℂ) :
    let F : Model.C06.Mat ℂ := fun j k => ω ^ (j * k)
    let G : Model.C06.Mat ℂ := fun j k => (1 / (n : ℂ)) * (starRingEnd ℂ) (ω ^ (k * j))
    (∀ i j, G i j = (1 / (n : ℂ)) * (starRingEnd ℂ) (F j i)) ∧ (starRingEnd ℂ) (1 / (n : ℂ)) = 1 / (n : ℂ) := by
  intro F G
  exact ⟨fun i j => rfl, by simp⟩

/-- a concrete, parity-mixed instance of the shifted-difference pair on `ℚ` (n = 5) -/
example : Model.C06.diffBack 5 (fun i => ((i + 1 : Nat) : ℚ)) 1 = -2 ∧ Model.C06.diffBack 5 (fun i => ((i + 1 : Nat) : ℚ)) 4 = 4 := by
  constructor <;> norm_num [Model.C06.diffBack]

/-- the stationarity hypotheses of the bias/gain theorems are satisfiable: `I = (0, 1)` has non-zero spread -/
example : bgieDen 2 (fun i => (i : ℝ)) ≠ 0 := by
  simp [bgieDen, Finset.sum_range_succ]; norm_num

/-- `fourier_resample_adjoint`: its hypotheses are met over `ℚ` (identity conjugation) by a 2 × 2 input (`sqrt(2·2) = 2`), any
"FFT" matrices with the inverse `(1/size)·Fᵀ`, any bases and zooms -/
example (F1 F2 Eo Ei f y : Model.C06.Mat ℚ) (zy zx : ℚ) (M N : Nat) :
    Model.C06.ip2 (RingHom.id ℚ) M N y
        (Model.C06.resampleFwd 2 2 M N (resampleFwdPre 2) (resampleFwdPre 2) (resampleFwdPost 2) (resampleFwdPost 2)
          F1 F2 Eo Ei (resampleFwdScale (fun _ => 2) zy zx ((2 : Nat) : ℚ) (2 : Nat) M N) f)
      = Model.C06.ip2 (RingHom.id ℚ) 2 2
        (Model.C06.resampleBack (RingHom.id ℚ) 2 2 M N (resampleBackPre 2) (resampleBackPre 2) (resampleBackPost 2) (resampleBackPost 2)
          (fun i j => (1 / ((2 : Nat) : ℚ)) * F1 j i) (fun i j => (1 / ((2 : Nat) : ℚ)) * F2 j i) Eo Ei
          (resampleBackScale (fun _ => 2) zy zx ((2 : Nat) : ℚ) (2 : Nat) M N) y) f :=
  fourier_resample_adjoint (RingHom.id ℚ) (fun _ => rfl) 2 2 M N (by norm_num) (by norm_num) F1 F2 _ _ Eo Ei
    (fun _ _ => rfl) (fun _ _ => rfl) (fun _ => 2) zy zx rfl rfl (by norm_num) rfl f y

/-- the mask theorems: a mask keeping positions 1 and 3 of a length-4 array satisfies the position hypothesis, and the scatter puts
the two gradients there (zeros elsewhere) -/
example : (∀ k, k < 2 → (fun k => 2 * k + 1) k < 4)
    ∧ (List.range 4).map (Model.C06.scatterMask 2 (fun k => 2 * k + 1) (fun k => ((k + 5 : Nat) : ℚ))) = [0, 5, 0, 6] := by
  constructor
  · intro k hk; simp only; omega
  · simp [Model.C06.scatterMask, Num.sumTo, List.range, List.range.loop]
    norm_num

/-- `fftshift` and `ifftshift` of a length-5 axis as `rollIdx` (source indices): `[3,4,0,1,2]` and `[2,3,4,0,1]` -/
example : (List.range 5).map (Model.C06.rollIdx 5 (resampleFwdPost 5)) = [3, 4, 0, 1, 2]
    ∧ (List.range 5).map (Model.C06.rollIdx 5 (resampleFwdPre 5)) = [2, 3, 4, 0, 1] := by decide

/-- over `ℂ` with complex conjugation `realPart` is the real part, so `fourier_resample_real_adjoint` speaks about `.real` -/
example (x : Model.C06.Mat ℂ) (i j : Nat) : Model.C06.realPart (starRingEnd ℂ) x i j = ((x i j).re : ℂ) := by
  simp only [Model.C06.realPart, ofInt_eq]
  apply Complex.ext <;> simp

end C06
