import PrysmVerif.Generated.C09
import PrysmVerif.Lemmas.C09Der
import PrysmVerif.Lemmas.C09Fam
import PrysmVerif.Lemmas.C09Asm
import PrysmVerif.Lemmas.C09Tail
import PrysmVerif.Lemmas.C09Surf
import PrysmVerif.Lemmas.C09Jac
import PrysmVerif.Lemmas.C09Seq
/-!
# C09 — derivative routines return the derivatives of the routines they name

"Derivative" is the formal derivative: the value routines are polynomials in their argument, so the statement
"`f_der(x₀)` is the derivative of `f` at `x₀`" is `f_der(x₀) = Polynomial.eval x₀ (Polynomial.derivative F)` where
`F ∈ F[X]` is the value routine run on the indeterminate.  `F` is any field (characteristic zero where the source
divides by integers).  The product/chain-rule assemblies are stated in any commutative ring with a derivation.

Theorems about `Generated.C09` are re-checked against the current prysm source on every run.
-/
set_option linter.unusedTactic false
set_option linter.unreachableTactic false
set_option linter.unusedVariables false
set_option linter.unusedSectionVars false

namespace C09
open Model.C10 Model.C09 C10L

/-! ## translated obligations -/
section Gen
open Generated.C09
variable {K : Type} [Num K]

/-- `jacobi_sum_clenshaw_der`: the inner-loop step is the model's `derRow` step, for EVERY value of the requested
order `j` (the step and the seed may only depend on the row index `jj`) -/
theorem gen_jder_step (G : Fam K) (x p J : K) (j k : Nat) (prest : List K) :
    derRow G x j k (p :: prest) =
      jderStep (Num.ofInt j) J (G.a k) (G.b k) (G.c (k+1)) x (hd prest)
        (hd (derRow G x j (k+1) prest)) (hd (derRow G x j (k+1) prest).tail) :: derRow G x j (k+1) prest := rfl

theorem gen_jder_seed (jj J a p1 : K) : jderSeed jj J a p1 = jj * a * p1 := rfl

theorem gen_jder_indices (M jj j n : Int) :
    jderSeedPos M jj j = (jj, M - jj) ∧ jderSeedReads M jj j = [(jj - 1, M - jj + 1)] ∧
    jderWritePos M jj j n = (jj, n) ∧ jderStepReads M jj j n = [(jj - 1, n + 1), (jj, n + 1), (jj, n + 2)] ∧
    (jderLoop M jj j).2 = (-1, -1) ∧
    (1 ≤ jj → M - jj - 1 ≤ (jderLoop M jj j).1 ∧ (jderLoop M jj j).1 ≤ M - 2) ∧ jderSeedABCIdx M jj j = M - jj ∧ jderABCIdx M jj j n = (n, n, n + 1) ∧
    jderABCPositions = (0, 1, 2) ∧ jderRowsAboveDegreeStayZero = true ∧ jderRowZeroIsTheValueSweep = true := by
  simp only [jderSeedPos, jderSeedReads, jderWritePos, jderStepReads, jderLoop, jderSeedABCIdx, jderABCIdx, jderABCPositions]
  refine ⟨?_, ?_, ?_, ?_, ?_, ?_, ?_, ?_, ?_, by decide, by decide⟩ <;> first | rfl | omega | simp | (intro h; constructor <;> omega)

/-- `clenshaw_qbfs_der`: seed position/index, reads, order guard; the sweep of row `jj` starts between `M - jj - 1`
(where it must) and `M - 2` (above that it would read beyond the table) — see `seed_is_recurrence` for why every start in
that window yields the same row -/
theorem gen_qbfsder_indices (M jj j n : Int) :
    qbfsderSeedPos M jj j = (jj, M - jj) ∧ qbfsderSeedReads M jj j = [(jj - 1, M - jj + 1)] ∧
    qbfsderWritePos M jj j n = (jj, n) ∧ qbfsderStepReads M jj j n = [(jj - 1, n + 1), (jj, n + 1), (jj, n + 2)] ∧
    (qbfsderLoop M jj j).2 = (-1, -1) ∧
    (1 ≤ jj → M - jj - 1 ≤ (qbfsderLoop M jj j).1 ∧ (qbfsderLoop M jj j).1 ≤ M - 2) ∧
    qbfsderRowsAboveDegreeStayZero = true ∧ qbfsderRowZeroIsTheValueSweep = true := by
  simp only [qbfsderSeedPos, qbfsderSeedReads, qbfsderWritePos, qbfsderStepReads, qbfsderLoop]
  refine ⟨?_, ?_, ?_, ?_, ?_, ?_, by decide, by decide⟩ <;> first | rfl | omega | simp | (intro h; constructor <;> omega)

theorem gen_q2dder_seed (jj J b p1 : K) : q2dderSeed jj J b p1 = jj * b * p1 := rfl

/-- `clenshaw_q2d_der`: `b` (position 1 of `abc_q2d_clenshaw`) multiplies the lower-order row, indices as in the model -/
theorem gen_q2dder_indices (N jj j n : Int) :
    q2dderSeedPos N jj j = (jj, N - jj) ∧ q2dderSeedReads N jj j = [(jj - 1, N - jj + 1)] ∧
    q2dderWritePos N jj j n = (jj, n) ∧ q2dderStepReads N jj j n = [(jj - 1, n + 1), (jj, n + 1), (jj, n + 2)] ∧
    (q2dderLoop N jj j).2 = (-1, -1) ∧
    (1 ≤ jj → N - jj - 1 ≤ (q2dderLoop N jj j).1 ∧ (q2dderLoop N jj j).1 ≤ N - 2) ∧ q2dderSeedABCIdx N jj j = N - jj ∧ q2dderSeedCoefPosition = 1 ∧
    q2dderABCIdx N jj j n = (n, n, n + 1) ∧ q2dderABCPositions = (0, 1, 2) ∧
    q2dderRowsAboveDegreeStayZero = true ∧ q2dderRowZeroIsTheValueSweep = true := by
  simp only [q2dderSeedPos, q2dderSeedReads, q2dderWritePos, q2dderStepReads, q2dderLoop, q2dderSeedABCIdx,
    q2dderSeedCoefPosition, q2dderABCIdx, q2dderABCPositions]
  refine ⟨?_, ?_, ?_, ?_, ?_, ?_, ?_, ?_, ?_, ?_, by decide, by decide⟩ <;> first | rfl | omega | simp | (intro h; constructor <;> omega)

/-- closed forms: `hermite_He_der = n·He_{n-1}`, `laguerre_der = -L_{n-1}^{(α+1)}`,
`jacobi_der = ½(n+α+β+1)·P_{n-1}^{(α+1,β+1)}`, each `0` at order 0 and evaluated at the same point -/
theorem gen_closed_forms [BEq K] (k : Nat) (al be x : K) :
    heDer (k+1) x = heDerClosed (Num.ofInt (k+1)) (heFam.p x k) ∧
    lagDer (k+1) al x = -((lagFam (lagDerShape al)).p x k) ∧
    jacobiDer (k+1) al be x =
      jacDerCoef (Num.ofInt (k+1)) al be * jacobi k (jacDerShape al be).1 (jacDerShape al be).2 x ∧
    heDer 0 x = Num.ofInt 0 ∧ hDer 0 x = Num.ofInt 0 ∧ lagDer 0 al x = Num.ofInt 0 ∧ jacobiDer 0 al be x = Num.ofInt 0 :=
  ⟨rfl, rfl, rfl, rfl, rfl, rfl, rfl⟩

theorem gen_closed_form_orders (n : Int) :
    heDerOrder n = n - 1 ∧ hDerOrder n = n - 1 ∧ lagDerOrder n = n - 1 ∧ jacDerOrder n = n - 1 ∧
    heDerZeroAtOrderZeroAndSamePoint = true ∧ hDerZeroAtOrderZeroAndSamePoint = true ∧
    lagDerIsMinusOneToTheKTimesLaguerreAtSamePoint = true ∧ jacDerIsCoefTimesJacobiAtSamePoint = true := by
  simp only [heDerOrder, hDerOrder, lagDerOrder, jacDerOrder]
  refine ⟨?_, ?_, ?_, ?_, by decide, by decide, by decide, by decide⟩ <;> first | rfl | omega | simp

/-- `zernike_nm_der` is assembled from the pieces read from the source -/
theorem gen_zernike [BEq K] (n : Nat) (m : Int) (r c s zn : K) :
    zernikeDer n m r c s zn =
      (let am := m.natAbs
       let nj := (n - am) / 2
       let x := zernX r
       let dv := zernDv r (jacobiDer nj (Num.ofInt 0) (Num.ofInt am) x)
       if m == 0 then (dv * zn, Num.ofInt 0)
       else
         let v := jacobi nj (Num.ofInt 0) (Num.ofInt am) x
         let u := Num.npow r am
         let dr := zernDr v (zernDu (Num.ofInt am) (Num.npow r (am - 1))) u dv
         if m < 0 then (dr * s * zn, zernDtNeg (Num.ofInt am) c * u * v * zn)
         else (dr * c * zn, zernDtPos (Num.ofInt m) s * u * v * zn))
    ∧ zernStructure = true := by
  exact ⟨rfl, by decide⟩

/-- `compute_z_zprime_Qbfs` / `_Qcon`: the straight-line assembly is the model's -/
theorem gen_zz_assemblies (G : Fam K) (bs cs : List K) (u : K) :
    zzQbfsB bs u =
      zzQbfsMany (nth (derTable qbfsFam (u * u) bs 0) 0) (nth (derTable qbfsFam (u * u) bs 0) 1)
        (nth (derTable qbfsFam (u * u) bs 1) 0) (nth (derTable qbfsFam (u * u) bs 1) 1) u (u * u) ∧
    zzQconG G cs u =
      zzQconAssemble (nth (derTable G (zzQconX (u * u)) cs 0) 0) (nth (derTable G (zzQconX (u * u)) cs 1) 0) u (u * u) ∧
    zzQbfsUsesFirstDerivativeTable = true ∧ zzQconUsesJacobi04FirstDerivativeTable = true :=
  ⟨rfl, rfl, by decide, by decide⟩

/-- per-`m` slope terms of `compute_z_zprime_Q2d` -/
theorem gen_q2d_slopes (G : Fam K) (m : Nat) (c s : K) (da db : List K) (u : K) :
    (q2dTermB G m c s da db u).2.1 =
      zzQ2dDr (Num.npow u (m - 1))
        (zzQ2dATerm c (zzQ2dTwoUsq (u * u)) (q2dRead m (derTable G (u * u) da 1)) (Num.ofInt m) (q2dRead m (derTable G (u * u) da 0)))
        (zzQ2dBTerm s (zzQ2dTwoUsq (u * u)) (q2dRead m (derTable G (u * u) db 1)) (Num.ofInt m) (q2dRead m (derTable G (u * u) db 0))) ∧
    (q2dTermB G m c s da db u).2.2 =
      zzQ2dDt (Num.ofInt m) (Num.npow u m) (q2dRead m (derTable G (u * u) da 0)) (q2dRead m (derTable G (u * u) db 0)) s c ∧
    zzQ2dSlopeStructure = true := ⟨rfl, rfl, by decide⟩
/-- every coefficient / order argument of the derivative routines that is documented as an iterable is turned into a sequence before
anything else reads it, or read exactly once front to back (never traversed twice, measured or indexed while it may still be a
generator / iterator / zip object); Boolean computed by the translator from the syntax trees, opaque to Lean -/
theorem gen_iterable_arguments : derivativeRoutinesReadIterableArgumentsOnceOrMaterialiseFirst = true := by decide

/-- no derivative routine builds an array whose dtype is taken from the coordinate array and fills it with a computed (possibly
fractional) value (`np.full_like(x, v)`, `dtype=x.dtype`) unless the coordinates were made floating point first: on integer
coordinates that would truncate the value.  Boolean computed
by the translator from the syntax trees, opaque to Lean -/
theorem gen_no_coordinate_typed_fill : derRoutinesDoNotFillCoordinateTypedArraysWithComputedValues = true := by decide

/-- every derivative routine that does arithmetic of its own on the coordinates (`x - 1`, `2 - 4 * x`, `1 - usq`, `-x`, the integer
Hermite recurrence, `cos (m t)`) first re-binds each coordinate parameter to its floating-point copy
(`x = np.asarray(x, dtype=np.result_type(x, 1.0))`), so nothing is computed in the caller's narrow or unsigned integer type (where
those expressions overflow or wrap around).  Boolean computed by the translator from the syntax trees, opaque to Lean -/
theorem gen_float_coordinates_at_entry : derRoutinesComputeOnFloatingPointCopiesOfTheirCoordinates = true := by decide

end Gen

section GenField
open Generated.C09
variable {F : Type} [Field F]

/-- seeds are the step with the (zero) entries above the seed position; the Qbfs and 2D-Q steps are the model's
`derRow` step for `a = -4, b = 2, c = 1` resp. `a ↦ B, b ↦ A`; none of them may depend on the requested order `J` -/
theorem gen_der_steps_field (jj J a b c x p1 c1 c2 : F) :
    jderSeed jj J a p1 = jderStep jj J a b c x p1 0 0 ∧
    qbfsderSeed jj J p1 = qbfsderStep jj J (qbfsderPrefix x) p1 0 0 ∧
    qbfsderStep jj J (qbfsderPrefix x) p1 c1 c2 = jj * (-4) * p1 + ((-4) * x + 2) * c1 - 1 * c2 ∧
    q2dderSeed jj J b p1 = q2dderStep jj J a b c x p1 0 0 ∧
    q2dderStep jj J a b c x p1 c1 c2 = jj * b * p1 + (b * x + a) * c1 - c * c2 := by
  simp only [jderSeed, jderStep, qbfsderSeed, qbfsderStep, qbfsderPrefix, q2dderSeed, q2dderStep, ofInt_eq]
  refine ⟨?_, ?_, ?_, ?_, ?_⟩ <;> (push_cast; ring)

/-- `hermite_H_der = 2n·H_{n-1}` and `jacobi_der` at order one -/
theorem gen_closed_forms_field [DecidableEq F] (k : Nat) (al be x : F) :
    hDer (k+1) x = hDerClosed (((k+1 : ℕ) : ℤ) : F) (hFam.p x k) ∧
    jacobiDer 1 al be x = jacDerAtOrderOne al be := by
  constructor
  · simp only [hDer, hDerClosed, ofInt_eq]; push_cast; ring
  · simp only [jacobiDer, jacDerAtOrderOne, jacobi, jacobiPair, ofInt_eq, ofFrac_eq]; push_cast; ring

/-- the value routines' loop bodies ARE the three-term families the derivative theorems speak about:
Hermite `He`, `H` (orders 1, 2 explicit, then `x·p - (n-1)·p'`), generalised Laguerre -/
theorem gen_value_recurrences (al x : F) (n : Nat) :
    heFam.p x 1 = heP1 x ∧ heFam.p x 2 = heP2 x ∧
    heFam.p x (n+2) = heRecStep (((n+2 : ℕ) : ℤ) : F) x (heFam.p x (n+1)) (heFam.p x n) ∧
    hFam.p x 1 = hP1 x ∧ hFam.p x 2 = hP2 x ∧
    hFam.p x (n+2) = hRecStep (((n+2 : ℕ) : ℤ) : F) x (hFam.p x (n+1)) (hFam.p x n) ∧
    (lagFam al).p x 1 = lagL1 al x ∧
    heRecStructure = true ∧ hRecStructure = true ∧ lagRecStructure = true := by
  refine ⟨?_, ?_, ?_, ?_, ?_, ?_, ?_, by decide, by decide, by decide⟩
  · simp [p_one, heP1]
  · rw [show (2 : ℕ) = 0 + 2 from rfl, p_succ_succ]; simp [p_one, p_zero, heP2]
  · rw [p_succ_succ]; simp only [he_a, he_b, he_c, he_e, heRecStep, ofInt_eq]; push_cast; ring
  · simp [p_one, hP1]
  · rw [show (2 : ℕ) = 0 + 2 from rfl, p_succ_succ]; simp [p_one, p_zero, hP2]; ring
  · rw [p_succ_succ]; simp only [h_a, h_b, h_c, h_e, hRecStep, ofInt_eq]; push_cast; ring
  · simp [p_one, p_zero, lagFam, lagL1]; ring

/-- the Laguerre loop body `1/(n+1)·(A·L_n - B·L_{n-1})` with `A = α+2n+1-x`, `B = α+n` is the family's recurrence -/
theorem gen_laguerre_recurrence [CharZero F] (al x : F) (n : Nat) :
    (lagFam al).p x (n+2) =
      lagRecStep (lagRecN (((n+2 : ℕ) : ℤ) : F)) (lagRecA al (lagRecN (((n+2 : ℕ) : ℤ) : F)) x)
        (lagRecB al (lagRecN (((n+2 : ℕ) : ℤ) : F))) ((lagFam al).p x (n+1)) ((lagFam al).p x n)
    ∧ (lagFam al).p x 2 = lagL2 al x ((lagFam al).p x 1) ((lagFam al).p x 0) := by
  have hn : ((n : F) + 1 + 1) ≠ 0 := by
    have : ((n : F) + 1 + 1) = ((n + 2 : ℕ) : F) := by push_cast; ring
    rw [this]; exact Nat.cast_ne_zero.mpr (by omega)
  constructor
  · rw [p_succ_succ]
    simp only [lagFam, lagRecStep, lagRecN, lagRecA, lagRecB, ofInt_eq]
    push_cast
    have : ((n : F) + 2 - 1 + 1) = (n : F) + 1 + 1 := by ring
    rw [this]
    field_simp
    ring
  · rw [show (2 : ℕ) = 0 + 2 from rfl, p_succ_succ]
    simp only [lagFam, lagL2, ofInt_eq, ofFrac_eq]
    push_cast
    field_simp
    ring

/-- one-term read-outs are the many-term read-outs with the absent entries zero -/
theorem gen_zz_one_term (a00 a10 u usq : F) : zzQbfsOne a00 a10 u usq = zzQbfsMany a00 0 a10 0 u usq := by
  simp only [zzQbfsOne, zzQbfsMany, ofInt_eq]
  refine Prod.ext ?_ ?_ <;> (simp only []; push_cast; ring)

/-- `x/raytracing/surfaces.py`, on-axis conics: the radicands, sags and slope formulas read from the source are the model's -/
theorem gen_surf_conics (c kappa q rho phi : F) :
    surfConicSagRad c kappa q = phiRad c kappa q ∧ surfSphereSagRad c q = phiRad c 0 q ∧
    surfConicSag c kappa q phi = conicSag c q phi ∧ surfSphereSag c q phi = conicSag c q phi ∧
    surfConicSagDerRad c kappa rho = phiRad c kappa (rho * rho) ∧ surfSphereSagDerRad c rho = phiRad c 0 (rho * rho) ∧
    surfConicSagDer c kappa rho phi = conicSagDer c rho phi ∧ surfSphereSagDer c rho phi = conicSagDer c rho phi ∧
    surfDirCosDer c kappa rho phi = dirCosDer c kappa rho phi ∧ surfPhiSpheroidRad c kappa q = phiRad c kappa q ∧
    surfDirCosUsesPhiSpheroidOfRhoSquared = true := by
  simp only [surfConicSagRad, surfSphereSagRad, surfConicSag, surfSphereSag, surfConicSagDerRad, surfSphereSagDerRad,
    surfConicSagDer, surfSphereSagDer, surfDirCosDer, surfPhiSpheroidRad, phiRad, conicSag, conicSagDer, dirCosDer,
    ofInt_eq, npow_eq]
  refine ⟨?_, ?_, ?_, ?_, ?_, ?_, ?_, ?_, ?_, ?_, by decide⟩ <;> first | (push_cast; ring) | push_cast | rfl

/-- off-axis conic sections (shift along x: `ct = cos t`, `ct' = -sin t`; along y: `ct = sin t`, `ct' = cos t`), for EVERY
interpretation of `np.sqrt` and with `w ** (3/2)` read as the cube of `√w` -/
theorem gen_surf_off_axis (sqrtF pow32 : F → F) (hp : ∀ w, pow32 w = sqrtF w * sqrtF w * sqrtF w) (c kappa r s cost sint : F) :
    surfOacSagX sqrtF pow32 c kappa r s cost sint
      = conicSag c (oacAgg r s cost) (sqrtF (phiRad c kappa (oacAgg r s cost))) ∧
    surfOacSagY sqrtF pow32 c kappa r s cost sint
      = conicSag c (oacAgg r s sint) (sqrtF (phiRad c kappa (oacAgg r s sint))) ∧
    surfOacDerX sqrtF pow32 c kappa r s cost sint
      = oacDer c kappa r s cost (-sint) (sqrtF (phiRad c kappa (oacAgg r s cost))) ∧
    surfOacDerY sqrtF pow32 c kappa r s cost sint
      = oacDer c kappa r s sint cost (sqrtF (phiRad c kappa (oacAgg r s sint))) ∧
    surfOacSigmaX sqrtF pow32 c kappa r s cost sint
      = oacSigma (sqrtF (phiRad c kappa (oacAgg r s cost))) (sqrtF (psiRad c kappa (oacAgg r s cost))) ∧
    surfOacSigmaY sqrtF pow32 c kappa r s cost sint
      = oacSigma (sqrtF (phiRad c kappa (oacAgg r s sint))) (sqrtF (psiRad c kappa (oacAgg r s sint))) ∧
    surfOacSigmaDerX sqrtF pow32 c kappa r s cost sint
      = oacSigmaInvDer c kappa r s cost (-sint) (sqrtF (phiRad c kappa (oacAgg r s cost))) (sqrtF (psiRad c kappa (oacAgg r s cost))) ∧
    surfOacSigmaDerY sqrtF pow32 c kappa r s cost sint
      = oacSigmaInvDer c kappa r s sint cost (sqrtF (phiRad c kappa (oacAgg r s sint))) (sqrtF (psiRad c kappa (oacAgg r s sint))) := by
  have ex : ∀ ct : F, (1 : F) - (1 + kappa) * (c * c) * (r * r + 2 * s * r * ct + s * s) = phiRad c kappa (oacAgg r s ct) := by
    intro ct; simp only [phiRad, oacAgg, ofInt_eq]; push_cast; ring
  have ey : ∀ ct : F, (1 : F) - kappa * (c * c) * (r * r + 2 * s * r * ct + s * s) = psiRad c kappa (oacAgg r s ct) := by
    intro ct; simp only [psiRad, oacAgg, ofInt_eq]; push_cast; ring
  simp only [surfOacSagX, surfOacSagY, surfOacDerX, surfOacDerY, surfOacSigmaX, surfOacSigmaY, surfOacSigmaDerX, surfOacSigmaDerY,
    hp, ofInt_eq]
  push_cast
  simp only [ex, ey]
  simp only [conicSag, oacDer, oacSigma, oacSigmaInvDer, oacAgg, ofInt_eq]
  push_cast
  refine ⟨?_, ?_, ?_, ?_, ?_, ?_, ?_, ?_⟩ <;>
    first | rfl | trivial | (refine Prod.ext ?_ ?_ <;> first | rfl | (simp only []; ring) | ring)

/-- `Q2d_and_der`: `zprimer /= Rn`, two product rules, `z *= σ⁻¹`, the three additions of the base conic -/
theorem gen_surf_q2d_and_der (sigInv z zr zt sr st base br bt Rn : F) :
    surfQ2dAsm sigInv z zr zt sr st base br bt Rn = q2dAndDer sigInv z zr zt sr st base br bt Rn ∧
    surfQ2dFeedsTheAssemblyFromTheNamedRoutines = true := by
  refine ⟨?_, by decide⟩
  simp only [surfQ2dAsm, q2dAndDer]
end GenField

/-! ## translated obligations: sequence forms and delegating routines -/
section GenSeq
open Generated.C09
variable {F : Type} [Field F]

/-- `hermite_He_der_seq` / `hermite_H_der_seq`: explicit rows 0, 1, 2, the locals on entry to the loop, one iteration of the loop and
the emitted row are the model's sweep (`heSeqState`, `heDerSeqRow`, `hSeqState`, `hDerSeqRow`), for every order and point -/
theorem gen_hermite_der_seq (x : F) (k : Nat) :
    heSeqRow0 x = heDerSeqRow 0 x ∧ heSeqRow1 x = heDerSeqRow 1 x ∧ heSeqRow2 x = heDerSeqRow 2 x ∧
    heSeqInit x = heSeqState x 0 ∧
    heSeqNext (((k + 3 : ℕ) : ℤ) : F) x (heSeqState x k).1 (heSeqState x k).2 = heSeqState x (k+1) ∧
    heSeqEmit (((k + 3 : ℕ) : ℤ) : F) x (heSeqState x k).1 (heSeqState x k).2 = heDerSeqRow (k+3) x ∧
    hSeqRow0 x = hDerSeqRow 0 x ∧ hSeqRow1 x = hDerSeqRow 1 x ∧ hSeqRow2 x = hDerSeqRow 2 x ∧
    hSeqInit x = hSeqState x 0 ∧
    hSeqNext (((k + 3 : ℕ) : ℤ) : F) x (hSeqState x k).1 (hSeqState x k).2 = hSeqState x (k+1) ∧
    hSeqEmit (((k + 3 : ℕ) : ℤ) : F) x (hSeqState x k).1 (hSeqState x k).2 = hDerSeqRow (k+3) x ∧
    heSeqLoopStart = 3 ∧ hSeqLoopStart = 3 ∧ heSeqStructure = true ∧ hSeqStructure = true := by
  refine ⟨?_, ?_, ?_, ?_, ?_, ?_, ?_, ?_, ?_, ?_, ?_, ?_, by decide, by decide, by decide, by decide⟩
  all_goals first
    | rfl
    | (simp only [heSeqRow0, heSeqRow1, heSeqRow2, heSeqInit, heSeqNext, heSeqEmit, hSeqRow0, hSeqRow1, hSeqRow2, hSeqInit,
        hSeqNext, hSeqEmit, heDerSeqRow, hDerSeqRow, heSeqState, hSeqState, ofInt_eq]
       first
        | (push_cast; ring)
        | (refine Prod.ext ?_ ?_ <;> (simp only []; push_cast; ring)))

variable [DecidableEq F]

/-- `jacobi_der_seq`: explicit rows 0..3, the locals on entry to the loop, one iteration and the emitted row are the model's sweep
(`jacSeqState`, `jacobiDerSeqRow`): shifted shape `(α+1, β+1)`, `recurrence_abc` of order 1 before the loop and `i-1` inside,
coefficient `½(i+α+β+1)` -/
theorem gen_jacobi_der_seq (al be x : F) (k : Nat) :
    jacSeqShape al be = (al + 1, be + 1) ∧ jacSeqInitABCIdx = 1 ∧ (∀ i : Int, jacSeqABCIdx i = i - 1) ∧ jacSeqLoopStart = 3 ∧
    jacSeqRow0 al be x 0 0 0 = jacobiDerSeqRow 0 al be x ∧ jacSeqRow1 al be x 0 0 0 = jacobiDerSeqRow 1 al be x ∧
    (let t := jacABC 1 (al + 1) (be + 1)
     jacSeqRow2 al be x t.1 t.2.1 t.2.2 = jacobiDerSeqRow 2 al be x ∧
     jacSeqRow3 al be x t.1 t.2.1 t.2.2 = jacobiDerSeqRow 3 al be x ∧
     jacSeqInit al be x t.1 t.2.1 t.2.2 = jacSeqState al be x 0) ∧
    (let t := jacABC (k+2) (al + 1) (be + 1)
     jacSeqNext (((k + 3 : ℕ) : ℤ) : F) al be x t.1 t.2.1 t.2.2 (jacSeqState al be x k).1 (jacSeqState al be x k).2
        = jacSeqState al be x (k+1)) ∧
    jacSeqEmit (((k + 4 : ℕ) : ℤ) : F) al be x 0 0 0 (jacSeqState al be x (k+1)).1 (jacSeqState al be x (k+1)).2
        = jacobiDerSeqRow (k+4) al be x ∧
    jacSeqStructure = true := by
  refine ⟨?_, by decide, ?_, by decide, ?_, ?_, ⟨?_, ?_, ?_⟩, ?_, ?_, by decide⟩
  all_goals first
    | rfl
    | (intro i; simp only [jacSeqABCIdx])
    | (simp only [jacSeqShape, jacSeqRow0, jacSeqRow1, jacSeqRow2, jacSeqRow3, jacSeqInit, jacSeqNext, jacSeqEmit,
        jacobiDerSeqRow, jacSeqState, ofInt_eq, ofFrac_eq]
       first
        | (push_cast; ring)
        | (refine Prod.ext ?_ ?_ <;> (simp only []; push_cast; ring)))
end GenSeq

section GenDeleg
open Generated.C09
variable {K : Type} [Num K]

/-- `cheby1..4_der(_seq)` and `legendre_der(_seq)` hand the shape parameters, the normalising constant and the orders of their value
routines to `jacobi_der(_seq)`; `laguerre_der_seq` is `-laguerre_seq` at orders `n-1`, shape `α+1` (zero rows below order 1);
`zernike_nm_der_seq` stacks `zernike_nm_der` -/
theorem gen_delegations (n : K) (al : K) (i : Int) :
    (cheby1DerShape (K := K) = cheby1Shape ∧ cheby1DerNormShape (K := K) = cheby1NormShape ∧ cheby1NormShape (K := K) = cheby1Shape ∧
      cheby1DerNum n = cheby1Num n) ∧
    (cheby2DerShape (K := K) = cheby2Shape ∧ cheby2DerNormShape (K := K) = cheby2NormShape ∧ cheby2NormShape (K := K) = cheby2Shape ∧
      cheby2DerNum n = cheby2Num n) ∧
    (cheby3DerShape (K := K) = cheby3Shape ∧ cheby3DerNormShape (K := K) = cheby3NormShape ∧ cheby3NormShape (K := K) = cheby3Shape ∧
      cheby3DerNum n = cheby3Num n) ∧
    (cheby4DerShape (K := K) = cheby4Shape ∧ cheby4DerNormShape (K := K) = cheby4NormShape ∧ cheby4NormShape (K := K) = cheby4Shape ∧
      cheby4DerNum n = cheby4Num n) ∧
    (cheby1DerSeqShape (K := K) = cheby1Shape ∧ cheby1DerSeqNormShape (K := K) = cheby1Shape ∧ cheby1SeqShape (K := K) = cheby1Shape ∧
      cheby1SeqNormShape (K := K) = cheby1Shape ∧ cheby1DerSeqNum n = cheby1Num n ∧ cheby1SeqNum n = cheby1Num n) ∧
    (cheby2DerSeqShape (K := K) = cheby2Shape ∧ cheby2DerSeqNormShape (K := K) = cheby2Shape ∧ cheby2SeqShape (K := K) = cheby2Shape ∧
      cheby2SeqNormShape (K := K) = cheby2Shape ∧ cheby2DerSeqNum n = cheby2Num n ∧ cheby2SeqNum n = cheby2Num n) ∧
    (cheby3DerSeqShape (K := K) = cheby3Shape ∧ cheby3DerSeqNormShape (K := K) = cheby3Shape ∧ cheby3SeqShape (K := K) = cheby3Shape ∧
      cheby3SeqNormShape (K := K) = cheby3Shape ∧ cheby3DerSeqNum n = cheby3Num n ∧ cheby3SeqNum n = cheby3Num n) ∧
    (cheby4DerSeqShape (K := K) = cheby4Shape ∧ cheby4DerSeqNormShape (K := K) = cheby4Shape ∧ cheby4SeqShape (K := K) = cheby4Shape ∧
      cheby4SeqNormShape (K := K) = cheby4Shape ∧ cheby4DerSeqNum n = cheby4Num n ∧ cheby4SeqNum n = cheby4Num n) ∧
    (legendreDerShape (K := K) = legendreShape ∧ legendreDerSeqShape (K := K) = legendreShape ∧ legendreSeqShape (K := K) = legendreShape) ∧
    lagSeqOrder i = lagDerOrder i ∧ lagSeqShape al = lagDerShape al ∧
    chebyLegendreDerivativesDelegateToJacobiAtSameOrdersAndPoint = true ∧
    lagSeqRowsAreZeroBelowOrderOneAndMinusLaguerreSeqAbove = true ∧ zernSeqRowIsTheSingleFormAtTheSameArguments = true := by
  refine ⟨⟨rfl, rfl, rfl, rfl⟩, ⟨rfl, rfl, rfl, rfl⟩, ⟨rfl, rfl, rfl, rfl⟩, ⟨rfl, rfl, rfl, rfl⟩,
    ⟨rfl, rfl, rfl, rfl, rfl, rfl⟩, ⟨rfl, rfl, rfl, rfl, rfl, rfl⟩, ⟨rfl, rfl, rfl, rfl, rfl, rfl⟩, ⟨rfl, rfl, rfl, rfl, rfl, rfl⟩,
    ⟨rfl, rfl, rfl⟩, rfl, rfl, by decide, by decide, by decide⟩
end GenDeleg


/-! ## the property -/
section Main
open Polynomial
variable {F : Type} [Field F]

/-- **Clenshaw derivative sums, every family / list / order / point** (`clenshaw_der_correct`):
the read-out `α^{(j)}_0 p_0 + Σ e_n α^{(j)}_{n+1}` of row `j` of the table computed at the number `x₀` is the `j`-th
derivative of the polynomial `Σ s_n p_n(X)` evaluated at `x₀` -/
theorem clenshaw_der_correct (G : Fam F) (s : List F) (x₀ : F) (j : ℕ) :
    clenshawVal G (derTable G x₀ s j) = eval x₀ (derivative^[j] (sumPoly G s)) := clenshaw_der_poly G s x₀ j

/-- every single table entry is a derivative: `α^{(j)}_n(x₀) = (d^j/dX^j α_n)(x₀)` -/
theorem clenshaw_der_entries (G : Fam F) (s : List F) (x₀ : F) (j : ℕ) :
    derTable G x₀ s j = (alphas (liftP G) X 0 (s.map C)).map (fun q => eval x₀ (derivative^[j] q)) :=
  derTable_poly G s x₀ j

/-- the polynomial the theorems differentiate evaluates to the explicit sum `Σ s_n p_n(x₀)` -/
theorem sumPoly_eval (G : Fam F) (s : List F) (x₀ : F) : eval x₀ (sumPoly G s) = wsum (G.p x₀) 0 s :=
  eval_sumPoly G s x₀

/-- in the full table, row `j` vanishes above index `M - j` (`M + 1` coefficients): derivatives of order above the degree
are zero and the routines may leave those entries untouched -/
theorem table_zero_above_degree (G : Fam F) (x : F) (s : List F) (j i : ℕ) (h : s.length ≤ i + j) :
    nth (derTable G x s j) i = 0 := derTable_zero_tail G x s j i h

/-- **the seed is the recurrence**: at index `M - (j+1)` of row `j+1` the recurrence collapses to
`(j+1) · a · α^{(j)}_{M-j}`, the value all three routines write before their inner loop -/
theorem seed_is_recurrence (G : Fam F) (x : F) (s : List F) (j i : ℕ) (h : s.length = i + j + 2) :
    nth (derTable G x s (j+1)) i = ((j : F) + 1) * G.a i * nth (derTable G x s j) (i+1) := derTable_seed G x s j i h

/-- **`jacobi_sum_clenshaw_der`**: `alphas[j][0]` is the `j`-th derivative of `Σ s_n P_n^{(α,β)}` at `x₀` -/
theorem jacobi_sum_clenshaw_der_correct [DecidableEq F] (s : List F) (al be x₀ : F) (j : ℕ) :
    nth (derTable (jacFam al be) x₀ s j) 0 = eval x₀ (derivative^[j] (sumPoly (jacFam al be) s)) := by
  rw [← clenshaw_der_correct]
  cases h : derTable (jacFam al be) x₀ s j with
  | nil => simp [clenshawVal]
  | cons a t =>
    simp only [clenshawVal, nth_zero]
    rw [esum_zero _ (by intro n; simp [jacFam])]
    simp [jacFam]

/-- **`clenshaw_qbfs_der`**: `2(alphas[j][0] + alphas[j][1])` is the `j`-th derivative of `Σ b_n P_n` (hence of
`Σ c_n Q_n`, by the change of basis) at `x₀` -/
theorem clenshaw_qbfs_der_correct [DecidableEq F] (bs : List F) (x₀ : F) (j : ℕ) :
    2 * (nth (derTable qbfsFam x₀ bs j) 0 + nth (derTable qbfsFam x₀ bs j) 1) =
      eval x₀ (derivative^[j] (sumPoly qbfsFam bs)) := by
  rw [← clenshaw_der_correct, clenshawVal_qbfs]

/-- **`clenshaw_q2d_der`**: `0.5 alphas[j][0] - [m = 1, N > 2] 2/5 alphas[j][3]` is the `j`-th derivative of
`Σ d_n P_n^m` (= `Σ c_n Q_n^m`) at `x₀`, every `m` -/
theorem clenshaw_q2d_der_correct [DecidableEq F] [CharZero F] (m : ℕ) (ds : List F) (x₀ : F) (j : ℕ) :
    q2dRead m (derTable (q2dFam m) x₀ ds j) = eval x₀ (derivative^[j] (sumPoly (q2dFam m) ds)) := by
  rw [← clenshaw_der_correct, q2dRead_eq]

/-- **`hermite_He_der`, every order**: `n·He_{n-1}(x₀) = He_n'(x₀)` -/
theorem hermiteHe_der (x₀ : F) (n : ℕ) : heDer n x₀ = eval x₀ (derivative (hePoly (F := F) n)) :=
  (he_der_eval x₀ n).symm

/-- **`hermite_H_der`, every order**: `2n·H_{n-1}(x₀) = H_n'(x₀)` -/
theorem hermiteH_der (x₀ : F) (n : ℕ) : hDer n x₀ = eval x₀ (derivative (hPoly (F := F) n)) :=
  (h_der_eval x₀ n).symm

/-- the Hermite polynomials evaluate to the value routines' numbers -/
theorem hermite_poly_eval (x₀ : F) (n : ℕ) :
    eval x₀ (hePoly (F := F) n) = heFam.p x₀ n ∧ eval x₀ (hPoly (F := F) n) = hFam.p x₀ n :=
  ⟨eval_liftP_p _ _ _, eval_liftP_p _ _ _⟩

/-- **`laguerre_der`, every order and every shape parameter**: `-L_{n-1}^{(α+1)}(x₀) = (L_n^{(α)})'(x₀)`, `0` at `n = 0` -/
theorem laguerre_der [CharZero F] (al x₀ : F) (n : ℕ) : lagDer n al x₀ = eval x₀ (derivative (lagPoly al n)) :=
  (lag_der_eval al x₀ n).symm

/-- as polynomials: `d/dX L_{n+1}^{(α)} = -L_n^{(α+1)}` -/
theorem laguerre_der_poly [CharZero F] (al : F) (n : ℕ) : derivative (lagPoly al (n+1)) = -lagPoly (al + 1) n :=
  lag_der_poly al n

/-- **`compute_z_zprime_Qbfs`** (over the changed-basis coefficients `bs`; the link `Σ b_n P_n = Σ c_n Q_n` is C10's `change_of_basis_qbfs`).
`qbfsSagPoly bs` is by definition the routine's own first output computed on the indeterminate, so the first conjunct only says that
evaluation commutes with the routine; the CONTENT is the second conjunct (the second output is the derivative of that polynomial,
every list incl. one term, every point) together with the third (that polynomial is `u²(1-u²) Σ b_n P_n(u²)`) -/
theorem qbfs_sag_slope (bs : List F) (u₀ : F) :
    (zzQbfsB bs u₀).1 = eval u₀ (qbfsSagPoly bs) ∧ (zzQbfsB bs u₀).2 = eval u₀ (derivative (qbfsSagPoly bs)) ∧
    (zzQbfsB bs u₀).1 = (u₀ * u₀ * (1 - u₀ * u₀)) * wsum (qbfsFam.p (u₀ * u₀)) 0 bs :=
  ⟨(zzQbfsB_eval bs u₀).1, (zzQbfsB_eval bs u₀).2, zzQbfsB_sag bs u₀⟩

/-- **`compute_z_zprime_Qcon`** (stated for any family; the source uses Jacobi `(0, 4)`).  As for Qbfs, `qconSagPoly` is the routine's own
first output on the indeterminate: the content is the second conjunct (second output = derivative of that polynomial) together with
`qcon_sag_is_sum` (that polynomial is `u⁴ Σ c_n P_n(2u² - 1)`) -/
theorem qcon_sag_slope (G : Fam F) (cs : List F) (u₀ : F) :
    (zzQconG G cs u₀).1 = eval u₀ (qconSagPoly G cs) ∧ (zzQconG G cs u₀).2 = eval u₀ (derivative (qconSagPoly G cs)) :=
  zzQconG_eval G cs u₀

theorem qcon_sag_is_sum [DecidableEq F] (al be : F) (cs : List F) (u : F) :
    (zzQconG (jacFam al be) cs u).1 = (u * u * (u * u)) * wsum ((jacFam al be).p (2 * (u * u) - 1)) 0 cs :=
  zzQconG_sag _ (by intro n; simp [jacFam]) (by simp [jacFam]) cs u
end Main

/-! ## conic base surfaces of `x/raytracing/surfaces.py` (real derivatives, `Real.sqrt / cos / sin`) -/
section Surfaces
open Real

/-- **`sphere_sag_der`, `conic_sag_der`**: at every radius inside the domain (`1 - (1+κ)c²ρ² > 0`), `c ρ / φ` is the
derivative of the sag `c ρ² / (1 + φ)`, `φ = √(1 - (1+κ) c² ρ²)` (`κ = 0`: sphere) -/
theorem conic_sag_der_correct (c kappa rho : ℝ) (h : 0 < phiRad c kappa (rho * rho)) :
    HasDerivAt (fun r => conicSag c (r * r) (√(phiRad c kappa (r * r))))
      (conicSagDer c rho (√(phiRad c kappa (rho * rho)))) rho := C10L.conic_sag_der_correct c kappa rho h

/-- **`der_direction_cosine_spheroid`**: `(1+k) c² ρ / φ³` is the derivative of `1/φ` -/
theorem dir_cos_der_correct (c k rho : ℝ) (h : 0 < phiRad c k (rho * rho)) :
    HasDerivAt (fun r => 1 / √(phiRad c k (r * r))) (dirCosDer c k rho (√(phiRad c k (rho * rho)))) rho :=
  C10L.dir_cos_der_correct c k rho h

/-- **`off_axis_conic_der`**: `∂/∂r` (any shift direction) and `∂/∂t` (shift along x, along y) of `off_axis_conic_sag` -/
theorem off_axis_conic_der_correct (c kappa r s t : ℝ) :
    (∀ ct ctp, 0 < phiRad c kappa (oacAgg r s ct) →
      HasDerivAt (fun q => conicSag c (oacAgg q s ct) (√(phiRad c kappa (oacAgg q s ct))))
        (oacDer c kappa r s ct ctp (√(phiRad c kappa (oacAgg r s ct)))).1 r) ∧
    (0 < phiRad c kappa (oacAgg r s (cos t)) →
      HasDerivAt (fun q => conicSag c (oacAgg r s (cos q)) (√(phiRad c kappa (oacAgg r s (cos q)))))
        (oacDer c kappa r s (cos t) (-sin t) (√(phiRad c kappa (oacAgg r s (cos t))))).2 t) ∧
    (0 < phiRad c kappa (oacAgg r s (sin t)) →
      HasDerivAt (fun q => conicSag c (oacAgg r s (sin q)) (√(phiRad c kappa (oacAgg r s (sin q)))))
        (oacDer c kappa r s (sin t) (cos t) (√(phiRad c kappa (oacAgg r s (sin t))))).2 t) :=
  ⟨fun ct ctp h => oac_der_r_correct c kappa r s ct ctp h, oac_der_t_cos_correct c kappa r s t, oac_der_t_sin_correct c kappa r s t⟩

/-- **`off_axis_conic_sigma_der`**: `∂/∂r`, `∂/∂t` of `1/off_axis_conic_sigma = ψ/φ` -/
theorem off_axis_conic_sigma_der_correct (c kappa r s t : ℝ) :
    (∀ ct ctp, 0 < phiRad c kappa (oacAgg r s ct) → 0 < psiRad c kappa (oacAgg r s ct) →
      HasDerivAt (fun q => √(psiRad c kappa (oacAgg q s ct)) / √(phiRad c kappa (oacAgg q s ct)))
        (oacSigmaInvDer c kappa r s ct ctp (√(phiRad c kappa (oacAgg r s ct))) (√(psiRad c kappa (oacAgg r s ct)))).1 r) ∧
    (0 < phiRad c kappa (oacAgg r s (cos t)) → 0 < psiRad c kappa (oacAgg r s (cos t)) →
      HasDerivAt (fun q => √(psiRad c kappa (oacAgg r s (cos q))) / √(phiRad c kappa (oacAgg r s (cos q))))
        (oacSigmaInvDer c kappa r s (cos t) (-sin t) (√(phiRad c kappa (oacAgg r s (cos t))))
          (√(psiRad c kappa (oacAgg r s (cos t))))).2 t) ∧
    (0 < phiRad c kappa (oacAgg r s (sin t)) → 0 < psiRad c kappa (oacAgg r s (sin t)) →
      HasDerivAt (fun q => √(psiRad c kappa (oacAgg r s (sin q))) / √(phiRad c kappa (oacAgg r s (sin q))))
        (oacSigmaInvDer c kappa r s (sin t) (cos t) (√(phiRad c kappa (oacAgg r s (sin t))))
          (√(psiRad c kappa (oacAgg r s (sin t))))).2 t) :=
  ⟨fun ct ctp h hL => sigma_inv_der_r_correct c kappa r s ct ctp h hL, sigma_inv_der_t_cos_correct c kappa r s t,
   sigma_inv_der_t_sin_correct c kappa r s t⟩

/-- **`Q2d_and_der`**: the returned slopes are the derivatives of the returned sag `z(ρ/Rn)·σ⁻¹ + base` whenever its three
ingredients are differentiable with the slopes handed to the assembly -/
theorem q2d_and_der_correct (zf sf bf : ℝ → ℝ) (x z' s' b' Rn : ℝ) (hR : Rn ≠ 0)
    (hz : HasDerivAt zf z' (x / Rn)) (hs : HasDerivAt sf s' x) (hb : HasDerivAt bf b' x) (zt st bt : ℝ) :
    HasDerivAt (fun q => zf (q / Rn) * sf q + bf q) (q2dAndDer (sf x) (zf (x / Rn)) z' zt s' st (bf x) b' bt Rn).2.1 x :=
  C10L.q2d_and_der_correct zf sf bf x z' s' b' Rn hR hz hs hb zt st bt

theorem q2d_and_der_azimuthal_correct (zf sf bf : ℝ → ℝ) (x z' s' b' : ℝ)
    (hz : HasDerivAt zf z' x) (hs : HasDerivAt sf s' x) (hb : HasDerivAt bf b' x) (zr sr br Rn : ℝ) :
    HasDerivAt (fun q => zf q * sf q + bf q) (q2dAndDer (sf x) (zf x) zr z' sr s' (bf x) br b' Rn).2.2 x :=
  q2d_and_der_t_correct zf sf bf x z' s' b' hz hs hb zr sr br Rn

/-- **`zernike_nm_der`, azimuthal output** (the statement about the routine itself): the second component of `zernikeDer`, fed
with the real `cos(|m|t)`, `sin(|m|t)`, is `∂/∂t` of `znorm · r^{|m|} P(2r²-1) · (cos(mt) | sin(|m|t) | 1)`; covers the sign and the
`|m|` / `m` choice of both branches, every `(n, m)`, every point -/
theorem zernike_der_azimuthal_correct [DecidableEq ℝ] (n : ℕ) (m : ℤ) (r zn t : ℝ) :
    HasDerivAt
      (fun q => zn * zernikeRadial n m.natAbs r *
        (if m = 0 then 1 else if m < 0 then sin ((m.natAbs : ℝ) * q) else cos ((m.natAbs : ℝ) * q)))
      (zernikeDer n m r (cos ((m.natAbs : ℝ) * t)) (sin ((m.natAbs : ℝ) * t)) zn).2 t := zernikeDer_dt_real n m r zn t

/-- **`Q2d_and_der`, composed (radial)**: the surface theorems above plugged into the product rule — for ANY departure `zf`
differentiable in `u = ρ/Rn` (hypothesis: that is what `compute_z_zprime_Q2d` supplies, see `q2d_slopes_list_level`), the returned
radial slope is the `ρ`-derivative of the returned sag `zf(ρ/Rn) · σ⁻¹ + z_base` -/
theorem q2d_and_der_composed_radial (c kappa s ct ctp Rn r z' zt st bt : ℝ) (zf : ℝ → ℝ) (hR : Rn ≠ 0)
    (hz : HasDerivAt zf z' (r / Rn)) (h : 0 < phiRad c kappa (oacAgg r s ct)) (hL : 0 < psiRad c kappa (oacAgg r s ct)) :
    HasDerivAt
      (fun q => zf (q / Rn) * (√(psiRad c kappa (oacAgg q s ct)) / √(phiRad c kappa (oacAgg q s ct)))
        + conicSag c (oacAgg q s ct) (√(phiRad c kappa (oacAgg q s ct))))
      (q2dAndDer (√(psiRad c kappa (oacAgg r s ct)) / √(phiRad c kappa (oacAgg r s ct))) (zf (r / Rn)) z' zt
        (oacSigmaInvDer c kappa r s ct ctp (√(phiRad c kappa (oacAgg r s ct))) (√(psiRad c kappa (oacAgg r s ct)))).1 st
        (conicSag c (oacAgg r s ct) (√(phiRad c kappa (oacAgg r s ct))))
        (oacDer c kappa r s ct ctp (√(phiRad c kappa (oacAgg r s ct)))).1 bt Rn).2.1 r :=
  q2d_and_der_composed_r c kappa s ct ctp Rn r z' zt st bt zf hR hz h hL

/-- **`Q2d_and_der`, composed (azimuthal)**, section shifted along x and along y -/
theorem q2d_and_der_composed_azimuthal (c kappa s r Rn t z' zr sr br : ℝ) (zf : ℝ → ℝ) (hz : HasDerivAt zf z' t) :
    (0 < phiRad c kappa (oacAgg r s (cos t)) → 0 < psiRad c kappa (oacAgg r s (cos t)) →
      HasDerivAt
        (fun q => zf q * (√(psiRad c kappa (oacAgg r s (cos q))) / √(phiRad c kappa (oacAgg r s (cos q))))
          + conicSag c (oacAgg r s (cos q)) (√(phiRad c kappa (oacAgg r s (cos q)))))
        (q2dAndDer (√(psiRad c kappa (oacAgg r s (cos t))) / √(phiRad c kappa (oacAgg r s (cos t)))) (zf t) zr z' sr
          (oacSigmaInvDer c kappa r s (cos t) (-sin t) (√(phiRad c kappa (oacAgg r s (cos t)))) (√(psiRad c kappa (oacAgg r s (cos t))))).2
          (conicSag c (oacAgg r s (cos t)) (√(phiRad c kappa (oacAgg r s (cos t))))) br
          (oacDer c kappa r s (cos t) (-sin t) (√(phiRad c kappa (oacAgg r s (cos t))))).2 Rn).2.2 t) ∧
    (0 < phiRad c kappa (oacAgg r s (sin t)) → 0 < psiRad c kappa (oacAgg r s (sin t)) →
      HasDerivAt
        (fun q => zf q * (√(psiRad c kappa (oacAgg r s (sin q))) / √(phiRad c kappa (oacAgg r s (sin q))))
          + conicSag c (oacAgg r s (sin q)) (√(phiRad c kappa (oacAgg r s (sin q)))))
        (q2dAndDer (√(psiRad c kappa (oacAgg r s (sin t))) / √(phiRad c kappa (oacAgg r s (sin t)))) (zf t) zr z' sr
          (oacSigmaInvDer c kappa r s (sin t) (cos t) (√(phiRad c kappa (oacAgg r s (sin t)))) (√(psiRad c kappa (oacAgg r s (sin t))))).2
          (conicSag c (oacAgg r s (sin t)) (√(phiRad c kappa (oacAgg r s (sin t))))) br
          (oacDer c kappa r s (sin t) (cos t) (√(phiRad c kappa (oacAgg r s (sin t))))).2 Rn).2.2 t) :=
  ⟨fun h hL => q2d_and_der_composed_t_cos c kappa s r Rn t z' zr sr br zf hz h hL,
   fun h hL => q2d_and_der_composed_t_sin c kappa s r Rn t z' zr sr br zf hz h hL⟩

/-- (a calculus fact used above, not a statement about `zernikeDer`) -/
theorem zernike_azimuthal_real (rad m t : ℝ) :
    HasDerivAt (fun q => rad * cos (m * q)) (rad * (-m * sin (m * t))) t ∧
    HasDerivAt (fun q => rad * sin (m * q)) (rad * (m * cos (m * t))) t := zernike_dt_real rad m t

/-- **2D-Q azimuthal slope with the real `cos`, `sin`** (a non-degenerate instance of `q2d_azimuthal_slope`): every family,
every coefficient lists, every `m`, every `(u, t)` -/
theorem q2d_azimuthal_slope_real (G : Fam ℝ) (m : ℕ) (da db : List ℝ) (u t : ℝ) :
    HasDerivAt (fun q => (q2dTermB G m (cos ((m : ℝ) * q)) (sin ((m : ℝ) * q)) da db u).1)
      (q2dTermB G m (cos ((m : ℝ) * t)) (sin ((m : ℝ) * t)) da db u).2.2 t := q2dTermB_dt_real G m da db u t

/-- the hypotheses are satisfiable: a concave conic well inside its domain -/
example : 0 < phiRad (1 / 20 : ℝ) (-7 / 10) (2 * 2) ∧ 0 < psiRad (1 / 20 : ℝ) (-7 / 10) (2 * 2) := by
  simp only [phiRad, psiRad, C10L.ofInt_eq]; norm_num
end Surfaces

/-! ## product / chain rule assemblies in any commutative ring with a derivation -/
section Derivation
variable {R : Type} [CommRing R] [Div R]

/-- **2D-Q, radial slope of one azimuthal order** (`m ≥ 1`): the term added to `dr` is `∂/∂u` of the term added to `z` -/
theorem q2d_radial_slope (d : Der R) (hh : d.D (Num.ofFrac 1 2 : R) = 0) (h25 : d.D (Num.ofFrac 2 5 : R) = 0)
    (G : Fam R) (hG : ConstFam d G) (m : Nat) (hm : 1 ≤ m) (c s u : R)
    (hc : d.D c = 0) (hs : d.D s = 0) (hu : d.D u = 1) (da db : List R)
    (hda : ∀ t ∈ da, d.D t = 0) (hdb : ∀ t ∈ db, d.D t = 0) :
    (q2dTermB G m c s da db u).2.1 = d.D (q2dTermB G m c s da db u).1 :=
  q2dTermB_dr d hh h25 G hG m hm c s u hc hs hu da db hda hdb

/-- **2D-Q, azimuthal slope**: with `∂u = 0`, `∂cos(mt) = -m sin(mt)`, `∂sin(mt) = m cos(mt)` the term added to `dt`
is `∂/∂t` of the term added to `z` -/
theorem q2d_azimuthal_slope (d : Der R) (hh : d.D (Num.ofFrac 1 2 : R) = 0) (h25 : d.D (Num.ofFrac 2 5 : R) = 0)
    (G : Fam R) (hG : ConstFam d G) (m : Nat) (c s u : R)
    (hc : d.D c = -(m : R) * s) (hs : d.D s = (m : R) * c) (hu : d.D u = 0) (da db : List R)
    (hda : ∀ t ∈ da, d.D t = 0) (hdb : ∀ t ∈ db, d.D t = 0) :
    (q2dTermB G m c s da db u).2.2 = d.D (q2dTermB G m c s da db u).1 :=
  q2dTermB_dt d hh h25 G hG m c s u hc hs hu da db hda hdb

/-- **2D-Q, list level** (`compute_z_zprime_Q2d` without its `m = 0` part): the radial and azimuthal slopes accumulated over ALL
azimuthal orders are `∂/∂u` resp. `∂/∂t` of the accumulated sag, for every combination of present / absent / empty cosine and sine
lists and unequal lengths.  Hypotheses: the two derivations treat the numerical constants, the family coefficients and the
changed-basis coefficients as constants; `∂u u = 1`, `∂u cos = ∂u sin = 0`; `∂t u = 0`, `∂t cos(mt) = -m sin(mt)`, `∂t sin(mt) = m cos(mt)`. -/
theorem q2d_slopes_list_level (dr dt : Der R)
    (hh : dr.D (Num.ofFrac 1 2 : R) = 0) (h25 : dr.D (Num.ofFrac 2 5 : R) = 0)
    (hh' : dt.D (Num.ofFrac 1 2 : R) = 0) (h25' : dt.D (Num.ofFrac 2 5 : R) = 0)
    (fq gq : Nat → Nat → R) (cosm sinm : Nat → R) (u : R)
    (hG : ∀ m, ConstFam dr (q2dFam (K := R) m)) (hG' : ∀ m, ConstFam dt (q2dFam (K := R) m))
    (hu : dr.D u = 1) (hc : ∀ m, dr.D (cosm m) = 0) (hs : ∀ m, dr.D (sinm m) = 0)
    (hu' : dt.D u = 0) (hc' : ∀ m, dt.D (cosm m) = -(m : R) * sinm m) (hs' : ∀ m, dt.D (sinm m) = (m : R) * cosm m)
    (hcob : ∀ (m : Nat) (l : List R), ∀ t ∈ cobQ2d (fq m) (gq m) 0 l, dr.D t = 0 ∧ dt.D t = 0)
    (ams bms : List (List R)) :
    (q2dSlopeFrom fq gq cosm sinm u 1 ams bms).1 = dr.D (q2dSagFrom fq gq cosm sinm u 1 ams bms) ∧
    (q2dSlopeFrom fq gq cosm sinm u 1 ams bms).2 = dt.D (q2dSagFrom fq gq cosm sinm u 1 ams bms) :=
  q2dSlopeFrom_correct dr dt hh h25 hh' h25' fq gq cosm sinm u hG hG' hu hc hs hu' hc' hs' hcob ams bms 1 (le_refl 1)

/-- **`compute_z_zprime_Q2d`, radial slope, whole routine** (`m = 0` Qbfs part included) -/
theorem zzQ2d_radial_correct (dr dt : Der R)
    (hh : dr.D (Num.ofFrac 1 2 : R) = 0) (h25 : dr.D (Num.ofFrac 2 5 : R) = 0)
    (hh' : dt.D (Num.ofFrac 1 2 : R) = 0) (h25' : dt.D (Num.ofFrac 2 5 : R) = 0)
    (f g h : Nat → R) (fq gq : Nat → Nat → R) (cosm sinm : Nat → R) (u : R)
    (hG : ∀ m, ConstFam dr (q2dFam (K := R) m)) (hG' : ∀ m, ConstFam dt (q2dFam (K := R) m))
    (hu : dr.D u = 1) (hc : ∀ m, dr.D (cosm m) = 0) (hs : ∀ m, dr.D (sinm m) = 0)
    (hu' : dt.D u = 0) (hc' : ∀ m, dt.D (cosm m) = -(m : R) * sinm m) (hs' : ∀ m, dt.D (sinm m) = (m : R) * cosm m)
    (hcob : ∀ (m : Nat) (l : List R), ∀ t ∈ cobQ2d (fq m) (gq m) 0 l, dr.D t = 0 ∧ dt.D t = 0)
    (cm0 : List R) (hb : ∀ t ∈ cobQbfs f g h 0 cm0, dr.D t = 0) (ams bms : List (List R)) :
    (zzQ2d f g h fq gq cosm sinm cm0 ams bms u).2.1 = dr.D (zzQ2d f g h fq gq cosm sinm cm0 ams bms u).1 := by
  obtain ⟨h1, _⟩ := q2d_slopes_list_level dr dt hh h25 hh' h25' fq gq cosm sinm u hG hG' hu hc hs hu' hc' hs' hcob ams bms
  simp only [zzQ2d]
  rw [h1, dr.map_add]
  congr 1
  split
  · simp [dr.map_zero]
  · simp only [zzQbfs]; exact zzQbfsB_slope dr u hu _ hb

/-- **Zernike radial derivative, assembly** (given that `jacobi_der` is the derivative of `jacobi`, see
`jacobi_der_full`): `d/dr [r^k R(2r²-1)] = R·k r^{k-1} + r^k·4r R'` -/
theorem zernike_radial (d : Der R) (r v jd : R) (hr : d.D r = 1) (hv : d.D v = 4 * r * jd) (k : Nat) :
    d.D (r ^ (k+1) * v) = v * (((k : R) + 1) * r ^ k) + r ^ (k+1) * (4 * r * jd) :=
  zernike_radial_rule d r v jd hr hv k

/-- **Zernike azimuthal derivative**: `∂/∂t [ρ cos(mt)] = ρ·(-m sin(mt))`, `∂/∂t [ρ sin(kt)] = ρ·k cos(kt)` -/
theorem zernike_azimuthal (d : Der R) (rad c s k : R) (hrad : d.D rad = 0) (hc : d.D c = -k * s) (hs : d.D s = k * c) :
    d.D (rad * c) = rad * (-k * s) ∧ d.D (rad * s) = rad * (k * c) :=
  zernike_azimuthal_rule d rad c s k hrad hc hs
end Derivation

/-! ## Jacobi derivative, every order -/
section Jacobi
open Polynomial JacD
variable {F : Type} [Field F] [DecidableEq F] [CharZero F]

/-- **`jacobi_der`, every order, all admissible parameters** (`α + β ∉ {-2, -3, …}`, in particular all `α, β > -1`):
`½(n+α+β+1)·P_{n-1}^{(α+1,β+1)}(x₀)` (and `0` at `n = 0`) is the derivative at `x₀` of the polynomial `P_n^{(α,β)}` generated by
`recurrence_abc`.  Proof: contiguous relation `P_n^{(α,β)} = u_n M_n + v_n M_{n-1} + w_n M_{n-2}` by induction from the two
recurrences, then induction through the differentiated recurrence. -/
theorem jacobi_der (al be x₀ : F) (H : ∀ j : ℕ, al + be + (j : F) + 2 ≠ 0) (n : ℕ) :
    jacobiDer n al be x₀ = eval x₀ (derivative (jacPoly al be n)) := by
  have h := dval_eq al be x₀ H n
  simp only [dval] at h
  rw [h]
  cases n with
  | zero => simp [jacobiDer, mm]
  | succ k =>
    simp only [jacobiDer, mm, ofInt_eq, ofFrac_eq]
    push_cast
    ring

/-- the polynomial differentiated above evaluates to the value routine `jacobi` -/
theorem jacPoly_eval (al be x₀ : F) (n : ℕ) : eval x₀ (jacPoly al be n) = jacobi n al be x₀ := eval_jacPoly al be x₀ n

/-- `legendre_der` (`α = β = 0`), every order -/
theorem legendre_der (x₀ : F) (n : ℕ) : jacobiDer n 0 0 x₀ = eval x₀ (derivative (jacPoly (0 : F) 0 n)) := by
  apply jacobi_der
  intro j
  have : (0 : F) + 0 + (j : F) + 2 = ((j + 2 : ℕ) : F) := by push_cast; ring
  rw [this]; exact Nat.cast_ne_zero.mpr (by omega)

/-- the Jacobi factor of every Zernike radial polynomial (`α = 0`, `β = |m|`) and of Qcon (`β = 4`), every order -/
theorem jacobi_der_zernike (m : ℕ) (x₀ : F) (n : ℕ) :
    jacobiDer n 0 (m : F) x₀ = eval x₀ (derivative (jacPoly (0 : F) (m : F) n)) := by
  apply jacobi_der
  intro j
  have : (0 : F) + (m : F) + (j : F) + 2 = ((m + j + 2 : ℕ) : F) := by push_cast; ring
  rw [this]; exact Nat.cast_ne_zero.mpr (by omega)

/-- the Chebyshev cases `α, β ∈ {±½}` (where `recurrence_abc` takes its special branch at `n = 0`), every order -/
theorem jacobi_der_chebyshev (al be x₀ : F) (ha : al = 1 / 2 ∨ al = -1 / 2) (hb : be = 1 / 2 ∨ be = -1 / 2) (n : ℕ) :
    jacobiDer n al be x₀ = eval x₀ (derivative (jacPoly al be n)) := by
  apply jacobi_der
  intro j
  have c : ∀ k : ℕ, ((k : F) + 1) ≠ 0 := fun k => natne k
  rcases ha with rfl | rfl <;> rcases hb with rfl | rfl
  · have : (1 / 2 : F) + 1 / 2 + (j : F) + 2 = ((j + 2 : ℕ) : F) + 1 := by push_cast; ring
    rw [this]; exact c _
  · have : (1 / 2 : F) + -1 / 2 + (j : F) + 2 = ((j + 1 : ℕ) : F) + 1 := by push_cast; ring
    rw [this]; exact c _
  · have : (-1 / 2 : F) + 1 / 2 + (j : F) + 2 = ((j + 1 : ℕ) : F) + 1 := by push_cast; ring
    rw [this]; exact c _
  · have : (-1 / 2 : F) + -1 / 2 + (j : F) + 2 = ((j : ℕ) : F) + 1 := by push_cast; ring
    rw [this]; exact c _

/-- radial polynomial of a Zernike term: `r^{|m|} · P_{n_j}^{(0,|m|)}(2r² - 1)` as a polynomial in `r` -/
noncomputable def zernikeRadPoly (am nj : ℕ) : F[X] := X ^ am * (jacPoly (0 : F) (am : F) nj).comp (C 2 * X ^ 2 - 1)

theorem zernikeRadPoly_eval (am nj : ℕ) (r : F) :
    eval r (zernikeRadPoly (F := F) am nj) = r ^ am * jacobi nj 0 (am : F) (2 * r ^ 2 - 1) := by
  simp [zernikeRadPoly, eval_comp, jacPoly_eval]

/-- **`zernike_nm_der`, radial derivative, every `(n, m)`, both normalisations, every point**: the first component is
`znorm · (d/dr)[r^{|m|} P_{(n-|m|)/2}^{(0,|m|)}(2r² - 1)] ·` (`cos(mt)` for `m > 0`, `sin(|m|t)` for `m < 0`, `1` for `m = 0`) -/
theorem zernike_der_radial_correct (n : ℕ) (m : ℤ) (r c s zn : F) :
    (zernikeDer n m r c s zn).1 =
      zn * eval r (derivative (zernikeRadPoly (F := F) m.natAbs ((n - m.natAbs) / 2)))
        * (if m = 0 then 1 else if m < 0 then s else c) := by
  have hjd := jacobi_der_zernike (F := F) m.natAbs (2 * r ^ 2 - 1) ((n - m.natAbs) / 2)
  have hdc : eval r (derivative ((jacPoly (0 : F) (m.natAbs : F) ((n - m.natAbs) / 2)).comp (C 2 * X ^ 2 - 1)))
      = 4 * r * jacobiDer ((n - m.natAbs) / 2) 0 (m.natAbs : F) (2 * r ^ 2 - 1) := by
    have e1 : eval r (derivative (C 2 * X ^ 2 - 1 : F[X])) = 4 * r := by
      simp only [derivative_sub, derivative_mul, derivative_C, derivative_X_pow, derivative_one, eval_sub, eval_mul, eval_add,
        eval_C, eval_pow, eval_X, eval_zero, eval_natCast, map_natCast]
      norm_num
      ring
    have e2 : eval r (C 2 * X ^ 2 - 1 : F[X]) = 2 * r ^ 2 - 1 := by simp
    rw [derivative_comp, eval_mul, eval_comp, e1, e2, ← hjd]
  have hv : eval r ((jacPoly (0 : F) (m.natAbs : F) ((n - m.natAbs) / 2)).comp (C 2 * X ^ 2 - 1))
      = jacobi ((n - m.natAbs) / 2) 0 (m.natAbs : F) (2 * r ^ 2 - 1) := by
    simp [eval_comp, jacPoly_eval]
  by_cases h0 : m = 0
  · subst h0
    simp only [zernikeDer, zernikeRadPoly, Int.natAbs_zero, pow_zero, one_mul, beq_self_eq_true, if_true, ofInt_eq, npow_eq]
    have := hdc
    simp only [Int.natAbs_zero] at this
    simp only [Nat.cast_zero, Int.cast_zero, Int.cast_natCast, Int.cast_ofNat, Int.cast_one] at this ⊢
    rw [this]
    ring
  · have hb : (m == 0) = false := by simpa using h0
    have hpos : 0 < m.natAbs := Int.natAbs_pos.mpr h0
    obtain ⟨k, hk⟩ : ∃ k, m.natAbs = k + 1 := ⟨m.natAbs - 1, by omega⟩
    have hder : eval r (derivative (zernikeRadPoly (F := F) m.natAbs ((n - m.natAbs) / 2)))
        = jacobi ((n - m.natAbs) / 2) 0 (m.natAbs : F) (2 * r ^ 2 - 1) * ((m.natAbs : F) * r ^ (m.natAbs - 1))
          + r ^ m.natAbs * (4 * r * jacobiDer ((n - m.natAbs) / 2) 0 (m.natAbs : F) (2 * r ^ 2 - 1)) := by
      simp only [zernikeRadPoly, derivative_mul, eval_add, eval_mul, hdc, hv, derivative_X_pow, eval_pow, eval_X, eval_C,
        eval_natCast, map_natCast]
      ring
    simp only [zernikeDer, hb, Bool.false_eq_true, if_false, ofInt_eq, npow_eq, h0]
    rw [hder]
    simp only [Int.cast_natCast, Int.cast_ofNat, Int.cast_one]
    split <;> ring
end Jacobi

/-! ## sequence forms and the Chebyshev / Legendre derivative routines -/
section GenDelegField
open Generated.C09 Polynomial JacD
variable {F : Type} [Field F] [DecidableEq F] [CharZero F]

/-- the shapes read from `cheby.py` / `legendre.py` are the four `±½` pairs and `(0, 0)` -/
theorem gen_cheby_shapes :
    cheby1Shape (K := F) = (-1/2, -1/2) ∧ cheby2Shape (K := F) = (1/2, 1/2) ∧ cheby3Shape (K := F) = (-1/2, 1/2) ∧
    cheby4Shape (K := F) = (1/2, -1/2) ∧ legendreShape (K := F) = (0, 0) := by
  simp only [cheby1Shape, cheby2Shape, cheby3Shape, cheby4Shape, legendreShape, ofFrac_eq, ofInt_eq]
  refine ⟨?_, ?_, ?_, ?_, ?_⟩ <;> (refine Prod.ext ?_ ?_ <;> (simp only []; push_cast; ring))

/-- **`cheby1..4_der`, `legendre_der`, every order**: for the shape `(α, β)` the source hands to `jacobi_der` and ANY normalising
constant `c` (the source's `NUM(n) / jacobi(n, α, β, 1)`), `c · jacobi_der(n, α, β, x₀)` is the derivative at `x₀` of the value
routine's polynomial `c · P_n^{(α,β)}` -/
theorem cheby_legendre_der_correct (c x₀ : F) (n : ℕ) (sh : F × F)
    (hsh : sh = cheby1DerShape ∨ sh = cheby2DerShape ∨ sh = cheby3DerShape ∨ sh = cheby4DerShape ∨ sh = legendreDerShape) :
    c * jacobiDer n sh.1 sh.2 x₀ = eval x₀ (derivative (C c * jacPoly sh.1 sh.2 n)) := by
  have key : jacobiDer n sh.1 sh.2 x₀ = eval x₀ (derivative (jacPoly sh.1 sh.2 n)) := by
    obtain ⟨h1, h2, h3, h4, h5⟩ := gen_cheby_shapes (F := F)
    have d := gen_delegations (K := F) 0 0 0
    rcases hsh with h | h | h | h | h
    · rw [h, d.1.1, h1]; exact jacobi_der_chebyshev _ _ _ (Or.inr rfl) (Or.inr rfl) n
    · rw [h, d.2.1.1, h2]; exact jacobi_der_chebyshev _ _ _ (Or.inl rfl) (Or.inl rfl) n
    · rw [h, d.2.2.1.1, h3]; exact jacobi_der_chebyshev _ _ _ (Or.inr rfl) (Or.inl rfl) n
    · rw [h, d.2.2.2.1.1, h4]; exact jacobi_der_chebyshev _ _ _ (Or.inl rfl) (Or.inr rfl) n
    · rw [h, d.2.2.2.2.2.2.2.2.1.1, h5]; exact legendre_der x₀ n
  rw [key]; simp [derivative_mul]
end GenDelegField


section SeqMain
open Polynomial JacD
variable {F : Type} [Field F]

/-- **`hermite_He_der_seq` / `hermite_H_der_seq`, every order**: each row of the sweep is the derivative of the value routine -/
theorem hermite_der_seq_correct (x₀ : F) (n : ℕ) :
    heDerSeqRow n x₀ = eval x₀ (derivative (hePoly (F := F) n)) ∧ hDerSeqRow n x₀ = eval x₀ (derivative (hPoly (F := F) n)) :=
  ⟨by rw [heDerSeqRow_eq]; exact hermiteHe_der x₀ n, by rw [hDerSeqRow_eq]; exact hermiteH_der x₀ n⟩

/-- **`jacobi_der_seq` (hence `legendre_der_seq`, `cheby*_der_seq`), every order, all admissible shapes**: each row of the sweep is the
derivative of `P_n^{(α,β)}` at the point -/
theorem jacobi_der_seq_correct [DecidableEq F] [CharZero F] (al be x₀ : F) (H : ∀ j : ℕ, al + be + (j : F) + 2 ≠ 0) (n : ℕ) :
    jacobiDerSeqRow n al be x₀ = eval x₀ (derivative (jacPoly al be n)) := by
  rw [jacobiDerSeqRow_eq]; exact jacobi_der al be x₀ H n

/-- **`cheby1..4_der_seq`, `legendre_der_seq`, every order**: for the shape the source hands to `jacobi_der_seq` and any normalising
constant `c`, `c ·` (row `n` of the `jacobi_der_seq` sweep) is the derivative at `x₀` of `c · P_n^{(α,β)}` -/
theorem cheby_legendre_der_seq_correct [DecidableEq F] [CharZero F] (c x₀ : F) (n : ℕ) (sh : F × F)
    (hsh : sh = Generated.C09.cheby1DerSeqShape ∨ sh = Generated.C09.cheby2DerSeqShape ∨ sh = Generated.C09.cheby3DerSeqShape ∨
      sh = Generated.C09.cheby4DerSeqShape ∨ sh = Generated.C09.legendreDerSeqShape) :
    c * jacobiDerSeqRow n sh.1 sh.2 x₀ = eval x₀ (derivative (C c * jacPoly sh.1 sh.2 n)) := by
  rw [jacobiDerSeqRow_eq]
  apply cheby_legendre_der_correct
  have d := gen_delegations (K := F) 0 0 0
  rcases hsh with h | h | h | h | h
  · left; rw [h, d.2.2.2.2.1.1, ← d.1.1]
  · right; left; rw [h, d.2.2.2.2.2.1.1, ← d.2.1.1]
  · right; right; left; rw [h, d.2.2.2.2.2.2.1.1, ← d.2.2.1.1]
  · right; right; right; left; rw [h, d.2.2.2.2.2.2.2.1.1, ← d.2.2.2.1.1]
  · right; right; right; right; rw [h, d.2.2.2.2.2.2.2.2.1.2.1, ← d.2.2.2.2.2.2.2.2.1.1]
end SeqMain

/-! ## non-vacuity -/
open Polynomial in
example : ∃ d : Der ℚ[X], d.D X = 1 ∧ ∀ a : ℚ, d.D (C a) = 0 := ⟨polyDer, by simp [polyDer], by simp [polyDer]⟩
example : ∃ G : Fam ℚ, G.p0 = 1 := ⟨heFam, by simp⟩

/-- the hypotheses of `q2d_radial_slope` are met in `ℚ[X]` with `d/dX`: the two numerical constants of the read-out are
`D`-constants, `u = X`, any family / coefficient lists / `cos`, `sin` values lifted from `ℚ` -/
theorem q2d_slope_hypotheses_hold :
    (polyDer (F := ℚ)).D (Num.ofFrac 1 2 : Polynomial ℚ) = 0 ∧ (polyDer (F := ℚ)).D (Num.ofFrac 2 5 : Polynomial ℚ) = 0 ∧
    (polyDer (F := ℚ)).D Polynomial.X = 1 ∧ ∀ a : ℚ, (polyDer (F := ℚ)).D (Polynomial.C a) = 0 := by
  have key : ∀ (p : ℤ) (q : ℕ), (Num.ofFrac p q : Polynomial ℚ) = Polynomial.C ((p : ℚ) / (q : ℚ)) := by
    intro p q
    simp only [Num.ofFrac, ofInt_eq]
    have h2 : (((q : ℤ) : Polynomial ℚ)) = Polynomial.C (q : ℚ) := by simp
    have h1 : ((p : Polynomial ℚ)) = Polynomial.C (p : ℚ) := by simp
    rw [h1, h2, Polynomial.div_C, ← Polynomial.C_mul]
    congr 1
  refine ⟨?_, ?_, ?_, ?_⟩
  · rw [key]; simp [polyDer]
  · rw [key]; simp [polyDer]
  · simp [polyDer]
  · intro a; simp [polyDer]

end C09
