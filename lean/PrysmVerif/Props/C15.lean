import PrysmVerif.Generated.C15
import PrysmVerif.Lemmas.C15Grid
import PrysmVerif.Lemmas.C15Mtf
import PrysmVerif.Lemmas.C15Difflim
/-!
# C15 — image formation obeys the convolution theorem; the MTF is a valid MTF

Arrays are functions on a finite abelian group `G` (for an `m × n` image `G = ZMod m × ZMod n`: indices
modulo the shape, so no parity case split is needed anywhere); `c : G` is the origin sample
(`shape // 2`).  `fft2 / ifft2` are the DFT sums for an arbitrary DFT kernel `E` (symmetric bicharacter
with root-of-unity orthogonality) — the contract under which `scipy.fft` is used — and that contract is
itself proved from primitive roots of unity (`dft_contract_from_roots`).  The pipelines the theorems
speak about (`Generated.C15.conv`, `applyTF`, `transformPsf`, `mtf`, `ptf`, `otf`) are regenerated from
the current source on every run.

Every theorem holds for every finite abelian `G`, every field of scalars `K` and every real subring `R ↪ K`; the
MTF laws are over `ℝ ⊂ ℂ`.  The source is 2-D (`fft2`, `fftshift` over both axes of an `(M, N)` array): the instance
that describes prysm is `G = ZMod m × ZMod n` (every `m, n ≥ 1`, every parity); stacks of images are not covered.
-/
set_option linter.unusedTactic false
set_option linter.unreachableTactic false
set_option linter.unusedSectionVars false
set_option linter.unusedVariables false

namespace C15
open Generated.C15 C15L Finset

/-! ## translated obligations: the generated pipelines mean what the hand model's mean

Stated under the mathematical interpretation `mathOps` of the array operations (for every DFT kernel, origin,
`.real` / `abs` / `angle` map), so that a refactor which only commutes a sample-wise product is not an alarm,
while a dropped or added rotation, a conjugate, a different reference sample or a skipped factor is. -/

section gen
variable {G K : Type} [AddCommGroup G] [Fintype G] [DecidableEq G] [Field K]
variable (E : Kernel G K) (c : G) (re absf argf : K → K)

/-- closes `generated pipeline = model pipeline` after unfolding both -/
local macro "pipe" : tactic =>
  `(tactic| (simp only [Generated.C15.conv, Generated.C15.tfPre, Generated.C15.tfStep, Generated.C15.tfPost,
      Generated.C15.applyTF, Generated.C15.transformPsf, Generated.C15.transformPsfOfContainer, Generated.C15.mtf, Generated.C15.ptf, Generated.C15.otf,
      Model.C15.conv, Model.C15.tfPre, Model.C15.tfStep, Model.C15.tfPost, Model.C15.applyTF, Model.C15.transformPsf,
      Model.C15.mtf, Model.C15.ptf, Model.C15.otf, mathOps, if_true, if_false, Bool.false_eq_true] <;>
    first | rfl | (simp only [mul_comm]; done) | (funext g; simp only [Pi.mul_apply, shiftBy, mul_comm]; done)))

/-- `conv` is `fftshift(ifft2(fft2(ifftshift o) · fft2(ifftshift h))).real` -/
theorem gen_conv (o h : G → K) :
    conv (mathOps E c re absf argf) o h = Model.C15.conv (mathOps E c re absf argf) o h := by pipe

/-- `apply_transfer_functions`: spectrum in the chosen convention, running product over the list, way back -/
theorem gen_applyTF (shift : Bool) (o : G → K) (tfs : List (G → K)) :
    applyTF (mathOps E c re absf argf) shift o tfs = Model.C15.applyTF (mathOps E c re absf argf) shift o tfs := by
  have hs : tfStep (mathOps E c re absf argf) = Model.C15.tfStep (mathOps E c re absf argf) := by
    funext O tf; pipe
  have hpre : tfPre (mathOps E c re absf argf) shift o = Model.C15.tfPre (mathOps E c re absf argf) shift o := by
    cases shift <;> pipe
  have hpost : ∀ O, tfPost (mathOps E c re absf argf) shift O = Model.C15.tfPost (mathOps E c re absf argf) shift O := by
    intro O; cases shift <;> pipe
  have hfold : ∀ X, tfs.foldl (tfStep (mathOps E c re absf argf)) X = tfs.foldl (Model.C15.tfStep (mathOps E c re absf argf)) X := by
    intro X; rw [hs]
  have hdef : applyTF (mathOps E c re absf argf) shift o tfs
      = tfPost (mathOps E c re absf argf) shift (tfs.foldl (tfStep (mathOps E c re absf argf)) (tfPre (mathOps E c re absf argf) shift o)) := by
    first
      | rfl
      | (simp only [Generated.C15.applyTF, Generated.C15.tfPost, Generated.C15.tfStep, Generated.C15.tfPre, Model.C15.applyTF])
  rw [hdef, hpre, hfold, hpost]; rfl

/-- `transform_psf`, and the MTF / OTF normalisations of `otf.py` (the PTF: `gen_ptf` below) -/
theorem gen_otf (psf : G → K) (c' : G) :
    transformPsf (mathOps E c re absf argf) psf = Model.C15.transformPsf (mathOps E c re absf argf) psf ∧
    mtf (mathOps E c re absf argf) psf c' = Model.C15.mtf (mathOps E c re absf argf) psf c' ∧
    otf (mathOps E c re absf argf) psf c' = Model.C15.otf (mathOps E c re absf argf) psf c' := by
  refine ⟨?_, ?_, ?_⟩ <;> pipe

/-- a container (RichData, any object with `.data` / `.dx`) goes through the same transform as its `.data` array -/
theorem gen_otf_container (psf : G → K) :
    transformPsfOfContainer (mathOps E c re absf argf) psf = transformPsf (mathOps E c re absf argf) psf := by pipe

end gen

/-- the reference sample of MTF / PTF / OTF is `shape // 2` on each axis -/
theorem gen_centre (s : Int) : mtfCentre s = s / 2 := by
  simp only [mtfCentre, Model.C15.mtfCentre]

/-- the frequency grids built for callables (`forward_ft_unit`, translated from `fttools.py`, and its call site in
`apply_transfer_functions`): `fy` from the length of axis 0, `fx` from the length of axis 1, numerators
`fftfreq` rotated by `fftshift` exactly when the convention is the shifted one -/
theorem gen_grid (m n : ℕ) (shift : Bool) (i : ℕ) :
    tfGridY m n shift i = Model.C15.ftUnitNum m shift i ∧ tfGridX m n shift i = Model.C15.ftUnitNum n shift i := by
  cases shift <;> simp [tfGridY, tfGridX, Generated.C15.ftUnitNum, Model.C15.ftUnitNum]

/-- RECOGNISER FACTS (values written by the translator's pattern matcher; no Lean content beyond the comparison):
polar grids are `cart_to_polar(fx, fy)` of the separable Cartesian grids, and each keyword `fx, fy, fr, ft` of a
callable is fed by the grid of the same name -/
theorem gen_structure :
    tfPolarGridFromCartesian = true ∧ tfKwargs = [("fr", "fr"), ("ft", "ft"), ("fx", "fx"), ("fy", "fy")] := by decide

/-- normal form for field expressions that `ring_nf` alone does not reach inside function arguments: divisions as inverses,
inverses of products distributed, double inverses removed -/
local macro "field_norm" : tactic =>
  `(tactic| (push_cast; simp only [one_div, div_eq_mul_inv, mul_inv, inv_inv, inv_one, mul_one, one_mul]; ring_nf))

/-- the analytic transfer functions are the modelled formulas (over any field, up to ring identities) -/
theorem gen_tfs {K : Type} [Field K] (f : K → K) (pi fx fy a b : K) (u v : Bool) :
    jitterFt f pi fx a = Model.C15.jitterFt f pi fx a ∧
    smearFt f fx fy a b u v = Model.C15.smearFt f fx fy a b u v ∧
    pixelFt f fx fy a b = Model.C15.pixelFt f fx fy a b ∧
    olpfFt f fx fy a b = Model.C15.olpfFt f fx fy a b := by
  refine ⟨?_, ?_, ?_, ?_⟩ <;>
    first
      | rfl
      | (cases u <;> cases v <;>
          simp only [jitterFt, smearFt, pixelFt, olpfFt, Model.C15.jitterFt, Model.C15.smearFt, Model.C15.pixelFt,
            Model.C15.olpfFt, Num.ofInt, if_true, if_false, Bool.false_eq_true] <;> ring_nf <;> done)
      | (cases u <;> cases v <;>
          simp only [jitterFt, smearFt, pixelFt, olpfFt, Model.C15.jitterFt, Model.C15.smearFt, Model.C15.pixelFt,
            Model.C15.olpfFt, Num.ofInt, if_true, if_false, Bool.false_eq_true] <;> field_norm)

/-- the analytic transforms of the objects of `objects.py` (`slit_ft`: which widths are present decides between the sum
of the two sinc's and one of them; `pinhole_ft`: `jinc(fr · 2π·radius)`) are the modelled formulas, over any field -/
theorem gen_objs {K : Type} [Field K] (f : K → K) (pi fx fy a b : K) (u v : Bool) :
    slitFt f fx fy a b u v = Model.C15.slitFt f fx fy a b u v ∧
    pinholeFt f pi fx a = Model.C15.pinholeFt f pi fx a := by
  refine ⟨?_, ?_⟩ <;>
    first
      | rfl
      | (cases u <;> cases v <;>
          simp only [slitFt, pinholeFt, Model.C15.slitFt, Model.C15.pinholeFt, Num.ofInt, if_true, if_false,
            Bool.false_eq_true, Bool.and_true, Bool.and_false, Bool.true_and, Bool.false_and, Bool.not_true, Bool.not_false,
            Bool.and_self] <;> ring_nf <;> done)
      | (cases u <;> cases v <;>
          simp only [slitFt, pinholeFt, Model.C15.slitFt, Model.C15.pinholeFt, Num.ofInt, if_true, if_false,
            Bool.false_eq_true, Bool.and_true, Bool.and_false, Bool.true_and, Bool.false_and, Bool.not_true, Bool.not_false,
            Bool.and_self] <;> field_norm)

/-- `otf.diffraction_limited_mtf`: the core formula `(2/π)(arccos ν − ν√(1−ν²))` and the normalised frequency
`ν = min(|f / extinction|, 1)`, `extinction = 1/(λ/1000·F#)` (array clamp and scalar clamp agree) are the modelled ones,
over every ordered field and for every interpretation of `arccos`, `sqrt`, `abs` -/
theorem gen_difflim {K : Type} [Field K] [LinearOrder K] (arccos sqrt abs : K → K) (pi f w F nu : K) :
    difflimCore arccos sqrt pi nu = Model.C15.difflimCore arccos sqrt pi nu ∧
    difflimNu abs f w F = Model.C15.difflimNu abs f w F := by
  refine ⟨?_, ?_⟩ <;>
    first
      | rfl
      | (simp only [difflimCore, difflimNu, Model.C15.difflimCore, Model.C15.difflimNu, Num.npow, Num.ofInt] <;> ring_nf <;> done)
      | (simp only [difflimCore, difflimNu, Model.C15.difflimCore, Model.C15.difflimNu, Num.npow, Num.ofInt] <;> field_norm)

/-- the atmospheric helpers of `otf.py` (`longexposure_otf` with its unit conversions, `komogorov`, `estimate_Cn`) are the
modelled formulas, over every field and every interpretation of `exp` and of the real power -/
theorem gen_atm {K : Type} [Field K] (exp : K → K) (rpow : K → K → K) (pi nu Cn z f lam h r r0 P T Ct : K) :
    longExposureOtf exp rpow pi nu Cn z f lam h = Model.C15.longExposureOtf exp rpow pi nu Cn z f lam h ∧
    komogorov rpow r r0 = Model.C15.komogorov rpow r r0 ∧
    estimateCn P T Ct = Model.C15.estimateCn P T Ct := by
  refine ⟨?_, ?_, ?_⟩ <;>
    first
      | rfl
      | (simp only [longExposureOtf, komogorov, estimateCn, Model.C15.longExposureOtf, Model.C15.komogorov,
          Model.C15.estimateCn, Num.npow, Num.ofInt, Num.ofFrac] <;> push_cast <;> ring_nf <;> done)
      | (simp only [longExposureOtf, komogorov, estimateCn, Model.C15.longExposureOtf, Model.C15.komogorov,
          Model.C15.estimateCn, Num.npow, Num.ofInt, Num.ofFrac] <;> field_norm)

/-! ## the DFT contract, from root-of-unity orthogonality -/

/-- for every shape `m × n` and every pair of primitive roots of unity there is a DFT kernel with
`χ (k,l) (j,i) = ζm^(k·j) · ζn^(l·i)`: symmetric, multiplicative, and orthogonal
(`Σ_k χ k a = m·n·[a = 0]`) -/
theorem dft_contract_from_roots (m n : ℕ) [NeZero m] [NeZero n] {K : Type} [Field K] (ζm ζn : K)
    (hm : IsPrimitiveRoot ζm m) (hn : IsPrimitiveRoot ζn n) (cm : (m : K) ≠ 0) (cn : (n : K) ≠ 0) :
    ∃ E : Kernel (ZMod m × ZMod n) K,
      (∀ k a, E.χ k a = ζm ^ (k.1.val * a.1.val) * ζn ^ (k.2.val * a.2.val)) ∧
      (∀ a, ∑ k, E.χ k a = if a = 0 then ((m * n : ℕ) : K) else 0) := by
  refine ⟨gridKernel m n ζm ζn hm hn cm cn, fun k a => rfl, fun a => ?_⟩
  have := (gridKernel m n ζm ζn hm hn cm cn).orth a
  rwa [Fintype.card_prod, ZMod.card, ZMod.card] at this

section general
variable {G K R : Type} [AddCommGroup G] [Fintype G] [DecidableEq G] [Field K] [CommRing R]
variable (E : Kernel G K) (c : G) (re absf argf : K → K) (ι : R →+* K)

local notation "P" => mathOps E c re absf argf

/-! ## convolution -/

/-- `conv o h [p] = Σ_q o[q] · h[p − q + c]`: the FFT route is the centred circular convolution -/
theorem conv_eq_centred_cconv (hre : ∀ r, re (ι r) = ι r) (o h : G → R) :
    conv P (emb ι o) (emb ι h) = emb ι (fun p => ∑ q, o q * h (p - q + c)) := by
  rw [gen_conv]; exact conv_mathOps E c re absf argf ι hre o h

/-- convolution is commutative -/
theorem conv_comm (hre : ∀ r, re (ι r) = ι r) (o h : G → R) : conv P (emb ι o) (emb ι h) = conv P (emb ι h) (emb ι o) := by
  rw [gen_conv, gen_conv, conv_mathOps E c re absf argf ι hre, conv_mathOps E c re absf argf ι hre, cconvC_comm]

/-- convolution is linear in the object (and, by commutativity, in the PSF) -/
theorem conv_linear (hre : ∀ r, re (ι r) = ι r) (a b : R) (o₁ o₂ h : G → R) :
    conv P (emb ι (fun i => a * o₁ i + b * o₂ i)) (emb ι h)
      = fun p => ι a * conv P (emb ι o₁) (emb ι h) p + ι b * conv P (emb ι o₂) (emb ι h) p := by
  simp only [gen_conv, conv_mathOps E c re absf argf ι hre]
  have : (fun i => a * o₁ i + b * o₂ i) = (fun i => a * o₁ i) + (fun i => b * o₂ i) := rfl
  rw [this, cconvC_add_left, cconvC_smul_left, cconvC_smul_left]
  funext p; simp only [emb, Pi.add_apply, map_add, map_mul]

/-- a unit impulse at the origin sample leaves the object unchanged -/
theorem conv_delta_origin (hre : ∀ r, re (ι r) = ι r) (o : G → R) : conv P (emb ι o) (emb ι (delta c)) = emb ι o := by
  rw [gen_conv, conv_mathOps E c re absf argf ι hre, cconvC_delta_origin]

/-- a unit impulse `k` samples from the origin translates the object by `k` (cyclically) -/
theorem conv_delta_shift (hre : ∀ r, re (ι r) = ι r) (k : G) (o : G → R) :
    conv P (emb ι o) (emb ι (delta (c + k))) = emb ι (fun p => o (p - k)) := by
  rw [gen_conv, conv_mathOps E c re absf argf ι hre, cconvC_delta]; rfl

/-- total of the image = total of the object × total of the PSF -/
theorem conv_sum (hre : ∀ r, re (ι r) = ι r) (o h : G → R) :
    ∑ p, conv P (emb ι o) (emb ι h) p = ι ((∑ q, o q) * ∑ r, h r) := by
  rw [gen_conv, conv_mathOps E c re absf argf ι hre]
  simp only [emb]
  rw [← map_sum, cconvC_sum]

/-! ## transfer functions -/

/-- applying a list of transfer functions = applying their product (both conventions, any list) -/
theorem tf_list_eq_product (shift : Bool) (o : G → K) (tfs : List (G → K)) :
    applyTF P shift o tfs = applyTF P shift o [tfs.prod] := by
  rw [gen_applyTF, gen_applyTF]; exact applyTF_list E c re absf argf shift o tfs

/-- the all-ones transfer function is the identity, in the shifted and in the unshifted convention -/
theorem tf_ones_identity (hre : ∀ r, re (ι r) = ι r) (shift : Bool) (o : G → R) : applyTF P shift (emb ι o) [1] = emb ι o := by
  rw [gen_applyTF]; exact applyTF_one E c re absf argf ι hre shift o

/-- so is the empty list -/
theorem tf_empty_identity (hre : ∀ r, re (ι r) = ι r) (shift : Bool) (o : G → R) : applyTF P shift (emb ι o) [] = emb ι o := by
  rw [gen_applyTF]; exact applyTF_nil E c re absf argf ι hre shift o

/-- unshifted convention: the image is the circular convolution of the object with `ifft2 T` -/
theorem tf_unshifted_is_cconv (o T : G → K) :
    applyTF P false o [T] = fun p => re (∑ q, o q * ifft E T (p - q)) := by
  rw [gen_applyTF]; exact applyTF_unshifted E c re absf argf o T

/-- the two conventions agree: `fftshift T` in the shifted convention does what `T` does in the unshifted one -/
theorem tf_conventions_agree (o T : G → K) :
    applyTF P true o [shiftBy c T] = applyTF P false o [T] := by
  rw [gen_applyTF, gen_applyTF]; exact applyTF_shifted_eq_unshifted E c re absf argf o T

/-- …for whole lists: a list of centred transfer functions in the shifted convention does what the
list of the same functions with origin at `[0,0]` does in the unshifted one -/
theorem tf_conventions_agree_list (o : G → K) (tfs : List (G → K)) :
    applyTF P true o (tfs.map (shiftBy c)) = applyTF P false o tfs := by
  rw [gen_applyTF, gen_applyTF]; exact applyTF_shifted_eq_unshifted_list E c re absf argf o tfs

/-- abstract form of the callable clause (used by `tf_callables_on_generated_grids`, which instantiates `ν` with the
grids the source builds): transfer functions given as functions `φ` of a frequency coordinate `ν` give the same
image in both conventions when the shifted convention is handed `fftshift ν` -/
theorem tf_callables_agree {F : Type} (o : G → K) (ν : G → F) (φs : List (F → K)) :
    applyTF P true o (φs.map fun φ => fun k => φ (shiftBy c ν k))
      = applyTF P false o (φs.map fun φ => fun k => φ (ν k)) := by
  rw [← tf_conventions_agree_list, List.map_map]; rfl

/-- the shifted convention fed with `transform_psf h` is `conv o h` -/
theorem tf_of_transformPsf_is_conv (hre : ∀ r, re (ι r) = ι r) (o h : G → R) :
    applyTF P true (emb ι o) [transformPsf P (emb ι h)] = conv P (emb ι o) (emb ι h) := by
  rw [gen_applyTF, gen_conv, (gen_otf E c re absf argf _ c).1, conv_mathOps E c re absf argf ι hre]
  exact applyTF_transformPsf E c re absf argf ι hre o h

/-- energy: the total of the image is the total of the object times the DC sample of the transfer function
(`T 0` unshifted, `T c` shifted), for an additive `.real`; so a transfer function with unit DC gain preserves the total -/
theorem tf_total (hadd : ∀ (s : Finset G) (f : G → K), re (∑ p ∈ s, f p) = ∑ p ∈ s, re (f p)) (o T : G → K) :
    ∑ p, applyTF P false o [T] p = re ((∑ q, o q) * T 0) ∧
    ∑ p, applyTF P true o [shiftBy c T] p = re ((∑ q, o q) * shiftBy c T c) := by
  have h0 : ∑ p, applyTF P false o [T] p = re ((∑ q, o q) * T 0) := by
    rw [gen_applyTF]
    simp only [Model.C15.applyTF, Model.C15.tfPost, Model.C15.tfPre, Model.C15.tfStep, List.foldl_cons, List.foldl_nil,
      mathOps, Bool.false_eq_true, if_false]
    rw [← hadd, sum_ifft, Pi.mul_apply, fft_zero]
  refine ⟨h0, ?_⟩
  rw [tf_conventions_agree, h0]
  simp only [shiftBy, sub_self]

end general

/-! ## the `m × n` grid and the executable model -/
section grid
/-- on the `m × n` grid with the kernel built from primitive roots, `conv` is sample for sample the
model's direct double sum `Σ_{j<m} Σ_{i<n} o[j,i] · h[(p−j+m//2) mod m, (q−i+n//2) mod n]` -/
theorem conv_grid_eq_model (m n : ℕ) [NeZero m] [NeZero n] {K R : Type} [Field K] [Field R] (ζm ζn : K)
    (hm : IsPrimitiveRoot ζm m) (hn : IsPrimitiveRoot ζn n) (cm : (m : K) ≠ 0) (cn : (n : K) ≠ 0)
    (re absf argf : K → K) (ι : R →+* K) (hre : ∀ r, re (ι r) = ι r) (o h : ℕ → ℕ → R) (p q : ℕ) :
    conv (mathOps (gridKernel m n ζm ζn hm hn cm cn) (centre m n) re absf argf)
        (emb ι (lift m n o)) (emb ι (lift m n h)) ((p : ZMod m), (q : ZMod n))
      = ι (Model.C15.conv2 m n o h p q) := by
  rw [conv_eq_centred_cconv _ _ re absf argf ι hre, conv2_eq]; rfl

/-- total of the image on the grid, in the model's own sums: `Σ conv2 = Σ o · Σ h` -/
theorem conv_grid_sum_model (m n : ℕ) [NeZero m] [NeZero n] {R : Type} [Field R] (o h : ℕ → ℕ → R) :
    Model.C15.total m n (Model.C15.conv2 m n o h) = Model.C15.total m n o * Model.C15.total m n h := by
  rw [total_eq, total_eq, total_eq, ← cconvC_sum (centre m n)]
  refine Finset.sum_congr rfl fun g _ => ?_
  obtain ⟨a, b⟩ := g
  simp only [lift]
  rw [conv2_eq, ZMod.natCast_zmod_val, ZMod.natCast_zmod_val]

/-- unshifted convention on the grid, in the model's own sums: the image is the model's origin-at-[0,0]
circular convolution of the object with the inverse transform of the transfer function -/
theorem tf_grid_unshifted_eq_model (m n : ℕ) [NeZero m] [NeZero n] {K : Type} [Field K] (ζm ζn : K)
    (hm : IsPrimitiveRoot ζm m) (hn : IsPrimitiveRoot ζn n) (cm : (m : K) ≠ 0) (cn : (n : K) ≠ 0)
    (re absf argf : K → K) (o g : ℕ → ℕ → K) (p q : ℕ) :
    applyTF (mathOps (gridKernel m n ζm ζn hm hn cm cn) (centre m n) re absf argf) false
        (lift m n o) [fft (gridKernel m n ζm ζn hm hn cm cn) (lift m n g)] ((p : ZMod m), (q : ZMod n))
      = re (Model.C15.cconv2 m n o g p q) := by
  rw [tf_unshifted_is_cconv, ifft_fft, cconv2_eq]; rfl

/-- the generated frequency grids have their zero at `shape // 2` in the shifted convention and at index 0 in the
unshifted one (both axes) -/
theorem freq_grid_origin (m n : ℕ) (hm : 0 < m) (hn : 0 < n) :
    tfGridY m n true (m / 2) = 0 ∧ tfGridX m n true (n / 2) = 0 ∧ tfGridY m n false 0 = 0 ∧ tfGridX m n false 0 = 0 := by
  have key : ∀ k : ℕ, 0 < k → Model.C15.ftUnitNum k true (k / 2) = 0 ∧ Model.C15.ftUnitNum k false 0 = 0 := by
    intro k hk
    have h0 : (k / 2 + (k - k / 2)) % k = 0 := by
      rw [Nat.add_sub_cancel' (Nat.div_le_self k 2), Nat.mod_self]
    have h1 : (0 : ℕ) < (k + 1) / 2 := by omega
    constructor
    · simp only [Model.C15.ftUnitNum, Model.C15.fftfreqNum, Model.C15.fftshiftSrc, if_true, h0, h1, Nat.cast_zero]
    · simp [Model.C15.ftUnitNum, Model.C15.fftfreqNum, h1]
  simp only [(gen_grid m n _ _).1, (gen_grid m n _ _).2]
  exact ⟨(key m hm).1, (key n hn).1, (key m hm).2, (key n hn).2⟩

/-- frequency coordinates (numerators `(n·dx·fx, m·dx·fy)`) of sample `k` on the grids the source builds -/
def genGrid (m n : ℕ) [NeZero m] [NeZero n] (shift : Bool) : ZMod m × ZMod n → ℤ × ℤ :=
  fun k => (tfGridX m n shift k.2.val, tfGridY m n shift k.1.val)

/-- the grids built in the shifted convention are the `fftshift` of those built in the unshifted one -/
theorem genGrid_shift (m n : ℕ) [NeZero m] [NeZero n] :
    genGrid m n true = shiftBy (centre m n) (genGrid m n false) := by
  have h : genGrid m n false = lift m n (fun j i => (Model.C15.ftUnitNum n false i, Model.C15.ftUnitNum m false j)) := by
    funext k; simp only [genGrid, lift, (gen_grid m n _ _).1, (gen_grid m n _ _).2]
  rw [h, lift_fftshift]
  funext k
  simp only [genGrid, lift, (gen_grid m n _ _).1, (gen_grid m n _ _).2]
  rfl

/-- **callables of fx, fy, fr, ft**: a list of transfer functions given as arbitrary functions `φ` of the frequency
coordinates (hence of `fr = hypot(fx, fy)`, `ft = atan2(fy, fx)` and of `dx`), evaluated on the grids that
`apply_transfer_functions` builds, gives the same image in the shifted and in the unshifted convention — for every
shape `m × n` and every DFT kernel -/
theorem tf_callables_on_generated_grids (m n : ℕ) [NeZero m] [NeZero n] {K : Type} [Field K]
    (E : Kernel (ZMod m × ZMod n) K) (re absf argf : K → K) (o : ZMod m × ZMod n → K) (φs : List (ℤ × ℤ → K)) :
    applyTF (mathOps E (centre m n) re absf argf) true o (φs.map fun φ => fun k => φ (genGrid m n true k))
      = applyTF (mathOps E (centre m n) re absf argf) false o (φs.map fun φ => fun k => φ (genGrid m n false k)) := by
  rw [genGrid_shift]
  exact tf_callables_agree E (centre m n) re absf argf o (genGrid m n false) φs

/-- `fftshift` / `ifftshift` of the model (index maps `(i ± n//2) mod n`) are the rotations by `± centre` -/
theorem rolls_grid_eq_model (m n : ℕ) [NeZero m] [NeZero n] {A : Type} (f : ℕ → ℕ → A) :
    shiftBy (centre m n) (lift m n f) = lift m n (fun j i => f (Model.C15.fftshiftSrc m j) (Model.C15.fftshiftSrc n i)) ∧
    shiftBy (-(centre m n)) (lift m n f) = lift m n (fun j i => f (Model.C15.ifftshiftSrc m j) (Model.C15.ifftshiftSrc n i)) :=
  ⟨lift_fftshift m n f, lift_ifftshift m n f⟩

/-- the reference sample used by `mtf/ptf/otf_from_psf` is the origin sample `centre m n` -/
theorem otf_reference_is_origin (m n : ℕ) [NeZero m] [NeZero n] :
    centre m n = ((((mtfCentre (m : Int)).toNat : ℕ) : ZMod m), (((mtfCentre (n : Int)).toNat : ℕ) : ZMod n)) := by
  simp only [centre, mtfCentre, Model.C15.mtfCentre]
  congr 2 <;> omega

/-- impulse at array position `(j0, i0)`: the image is the object rolled by `(j0 − m//2, i0 − n//2)` -/
theorem conv_grid_delta (m n : ℕ) [NeZero m] [NeZero n] {K R : Type} [Field K] [Field R] (ζm ζn : K)
    (hm : IsPrimitiveRoot ζm m) (hn : IsPrimitiveRoot ζn n) (cm : (m : K) ≠ 0) (cn : (n : K) ≠ 0)
    (re absf argf : K → K) (ι : R →+* K) (hre : ∀ r, re (ι r) = ι r) (o : ℕ → ℕ → R) (j0 i0 : ℕ)
    (hj : j0 < m) (hi : i0 < n) (g : ZMod m × ZMod n) :
    conv (mathOps (gridKernel m n ζm ζn hm hn cm cn) (centre m n) re absf argf)
        (emb ι (lift m n o)) (emb ι (lift m n (deltaNat j0 i0))) g
      = ι (lift m n o (g - (((j0 : ZMod m), (i0 : ZMod n)) - centre m n))) := by
  rw [lift_deltaNat m n j0 i0 hj hi]
  have h := conv_delta_shift (gridKernel m n ζm ζn hm hn cm cn) (centre m n) re absf argf ι hre
    ((((j0 : ZMod m), (i0 : ZMod n)) - centre m n)) (lift m n o)
  rw [add_sub_cancel] at h
  rw [h]; rfl

end grid

/-! ## MTF / PTF / OTF of a real PSF -/
section mtf
variable {G : Type} [AddCommGroup G] [Fintype G] [DecidableEq G] (E : Kernel G ℂ) (c : G)

local notation "Q" => cOps E c

/-- the generated `otf.py` pipelines under the operations of `ℂ` -/
theorem gen_otf_c (psf : G → ℂ) (c' : G) :
    transformPsf (cOps E c) psf = Model.C15.transformPsf (cOps E c) psf ∧ mtf (cOps E c) psf c' = Model.C15.mtf (cOps E c) psf c' ∧
    otf (cOps E c) psf c' = Model.C15.otf (cOps E c) psf c' := by
  unfold cOps; exact gen_otf E c _ _ _ psf c'

/-- the generated PTF of a non-negative PSF is `arg (data / data[c])` — also when the source takes the angle without
normalising first (the reference sample is the positive total of the PSF, which does not change the argument) -/
theorem gen_ptf (p : G → ℝ) (hp : ∀ a, 0 ≤ p a) (hs : ∑ a, p a ≠ 0) (k : G) :
    ptf Q (embR p) c k = Model.C15.ptf Q (embR p) c k := by
  have hS : 0 < ∑ a, p a := lt_of_le_of_ne (Finset.sum_nonneg fun a _ => hp a) (Ne.symm hs)
  have hc := transformPsf_centre E c p
  simp only [Generated.C15.ptf, Model.C15.ptf, (gen_otf_c E c _ c).1] <;>
  first
    | rfl
    | (simp only [cOps, mathOps] at hc ⊢
       rw [hc, div_eq_mul_inv, ← Complex.ofReal_inv, Complex.arg_mul_real (inv_pos.mpr hS)])

/-- MTF is 1 at zero frequency (the reference sample) for every PSF with non-zero total -/
theorem mtf_dc_one (p : G → ℝ) (hs : ∑ a, p a ≠ 0) : mtf Q (embR p) c c = 1 := by
  rw [(gen_otf_c E c _ c).2.1]; exact mtf_dc E c p hs

/-- MTF of a non-negative PSF never exceeds 1 (triangle inequality) and is non-negative -/
theorem mtf_le_one (p : G → ℝ) (hp : ∀ a, 0 ≤ p a) (hs : ∑ a, p a ≠ 0) (k : G) :
    ∃ r : ℝ, mtf Q (embR p) c k = (r : ℂ) ∧ 0 ≤ r ∧ r ≤ 1 := by
  rw [(gen_otf_c E c _ c).2.1]; exact mtf_range E c p hp hs k

/-- MTF of a real PSF is point-symmetric about the zero-frequency sample: `MTF[c+d] = MTF[c−d]`
for every offset `d` (indices modulo the shape) -/
theorem mtf_point_symmetric (p : G → ℝ) (d : G) : mtf Q (embR p) c (c + d) = mtf Q (embR p) c (c - d) := by
  rw [(gen_otf_c E c _ c).2.1]; exact mtf_symm E c p d

/-- `OTF = MTF · exp(i · PTF)` at every sample, for every non-negative PSF -/
theorem otf_mtf_ptf (p : G → ℝ) (hp : ∀ a, 0 ≤ p a) (hs : ∑ a, p a ≠ 0) (k : G) :
    otf Q (embR p) c k = mtf Q (embR p) c k * Complex.exp (ptf Q (embR p) c k * Complex.I) := by
  rw [(gen_otf_c E c _ c).2.1, gen_ptf E c p hp hs, (gen_otf_c E c _ c).2.2]; exact otf_eq_mtf_mul_exp_ptf E c p k

/-- `MTF = |OTF|` at every sample -/
theorem mtf_is_abs_otf (p : G → ℝ) (k : G) : mtf Q (embR p) c k = ((‖otf Q (embR p) c k‖ : ℝ) : ℂ) := by
  rw [(gen_otf_c E c _ c).2.1, (gen_otf_c E c _ c).2.2]; exact mtf_eq_norm_otf E c p k

/-- `PTF = arg OTF` at every sample, and the OTF is 1 (so the PTF is 0) at zero frequency, for every non-negative PSF -/
theorem ptf_is_arg_otf (p : G → ℝ) (hp : ∀ a, 0 ≤ p a) (hs : ∑ a, p a ≠ 0) (k : G) :
    ptf Q (embR p) c k = ((Complex.arg (otf Q (embR p) c k) : ℝ) : ℂ) ∧ otf Q (embR p) c c = 1 ∧ ptf Q (embR p) c c = 0 := by
  rw [gen_ptf E c p hp hs, gen_ptf E c p hp hs, (gen_otf_c E c _ c).2.2]
  refine ⟨ptf_apply E c p k, otf_dc E c p hs, ?_⟩
  rw [ptf_apply, otf_dc E c p hs]; simp

/-- the OTF of a real PSF is Hermitian about the zero-frequency sample -/
theorem otf_hermitian (p : G → ℝ) (d : G) :
    otf Q (embR p) c (c - d) = (starRingEnd ℂ) (otf Q (embR p) c (c + d)) := by
  rw [(gen_otf_c E c _ c).2.2]; exact otf_symm E c p d

end mtf

/-! ## analytic transfer functions: unit DC gain and even symmetry -/
section analytic
variable {K : Type} [Field K]

/-- jitter, smear, pixel and OLPF transfer functions are 1 at zero frequency (they preserve the total) -/
theorem analytic_tf_dc (exp sinc cos : K → K) (pi a b : K) (u v : Bool)
    (hexp : exp 0 = 1) (hsinc : sinc 0 = 1) (hcos : cos 0 = 1) :
    jitterFt exp pi 0 a = 1 ∧ smearFt sinc 0 0 a b u v = 1 ∧ pixelFt sinc 0 0 a b = 1 ∧ olpfFt cos 0 0 a b = 1 := by
  rw [(gen_tfs exp pi 0 0 a b u v).1, (gen_tfs sinc pi 0 0 a b u v).2.1, (gen_tfs sinc pi 0 0 a b u v).2.2.1,
    (gen_tfs cos pi 0 0 a b u v).2.2.2]
  refine ⟨?_, ?_, ?_, ?_⟩
  · simp [Model.C15.jitterFt, Num.ofInt, hexp]
  · cases u <;> cases v <;> simp [Model.C15.smearFt, Num.ofInt, hsinc]
  · simp [Model.C15.pixelFt, hsinc]
  · simp [Model.C15.olpfFt, hcos]

/-- they are even in the frequency (real, symmetric blur kernels) -/
theorem analytic_tf_even (exp sinc cos : K → K) (pi fr fx fy a b : K) (u v : Bool)
    (hsinc : ∀ x, sinc (-x) = sinc x) (hcos : ∀ x, cos (-x) = cos x) :
    jitterFt exp pi (-fr) a = jitterFt exp pi fr a ∧ smearFt sinc (-fx) (-fy) a b u v = smearFt sinc fx fy a b u v ∧
    pixelFt sinc (-fx) (-fy) a b = pixelFt sinc fx fy a b ∧ olpfFt cos (-fx) (-fy) a b = olpfFt cos fx fy a b := by
  simp only [(gen_tfs exp pi _ 0 a b u v).1, (gen_tfs sinc pi _ _ a b u v).2.1, (gen_tfs sinc pi _ _ a b u v).2.2.1,
    (gen_tfs cos pi _ _ a b u v).2.2.2]
  refine ⟨?_, ?_, ?_, ?_⟩
  · simp only [Model.C15.jitterFt]; congr 1; ring
  · simp only [Model.C15.smearFt, neg_mul, hsinc]
  · simp only [Model.C15.pixelFt, neg_mul, hsinc]
  · simp only [Model.C15.olpfFt, mul_neg, hcos]

/-- the analytic object transforms handed to `apply_transfer_functions` as callables: a single slit has unit DC value and a
pair of crossed slits the value 2 (the sum of two unit slits — an object spectrum, not a normalised blur), a pinhole
`jinc 0`; all are even in the frequency -/
theorem object_ft_dc_even (sinc jinc : K → K) (pi fr fx fy a b : K) (u v : Bool)
    (hsinc0 : sinc 0 = 1) (hsinc : ∀ x, sinc (-x) = sinc x) (hjinc : ∀ x, jinc (-x) = jinc x) :
    slitFt sinc 0 0 a b u v = (if u && v then 2 else 1) ∧ pinholeFt jinc pi 0 a = jinc 0 ∧
    slitFt sinc (-fx) (-fy) a b u v = slitFt sinc fx fy a b u v ∧ pinholeFt jinc pi (-fr) a = pinholeFt jinc pi fr a := by
  simp only [(gen_objs sinc pi _ _ a b u v).1, (gen_objs jinc pi _ 0 a b u v).2]
  refine ⟨?_, ?_, ?_, ?_⟩
  · cases u <;> cases v <;> simp [Model.C15.slitFt, hsinc0] <;> norm_num
  · simp [Model.C15.pinholeFt]
  · cases u <;> cases v <;> simp [Model.C15.slitFt, neg_mul, hsinc]
  · simp only [Model.C15.pinholeFt, neg_mul, hjinc]

end analytic

/-- `diffraction_limited_mtf(fno, wavelength, frequencies)` is a valid MTF — with the REAL `arccos`, `√`, `|·|`, `π`, for
EVERY frequency, wavelength and f-number (no sign or size hypothesis), clamp included: it is 1 at zero frequency, lies in
`[0, 1]`, is even in the frequency, is 0 at and beyond the cut-off `1/(λ/1000·F#)`, and NEVER INCREASES with `|f|` -/
theorem difflim_valid_mtf (f w F : ℝ) :
    let mtf := fun f : ℝ => difflimCore Real.arccos Real.sqrt Real.pi (difflimNu (fun x : ℝ => |x|) f w F)
    mtf 0 = 1 ∧ 0 ≤ mtf f ∧ mtf f ≤ 1 ∧ mtf (-f) = mtf f ∧ (1 ≤ |f / (1 / (w / 1000 * F))| → mtf f = 0) ∧
    (∀ f₂ : ℝ, |f| ≤ |f₂| → mtf f₂ ≤ mtf f) := by
  intro mtf
  have hm : ∀ g, mtf g = coreR (Model.C15.difflimNu (fun x : ℝ => |x|) g w F) := fun g => by
    simp only [mtf, (gen_difflim Real.arccos Real.sqrt (fun x : ℝ => |x|) Real.pi g w F _).1,
      (gen_difflim Real.arccos Real.sqrt (fun x : ℝ => |x|) Real.pi g w F 0).2, difflimCore_real]
  obtain ⟨h0, h1⟩ := difflimNu_range f w F
  refine ⟨?_, ?_, ?_, ?_, fun hc => ?_, fun f₂ h12 => ?_⟩
  · rw [hm, difflimNu_zero, coreR_zero]
  · rw [hm]; exact coreR_nonneg h0 h1
  · rw [hm]; exact coreR_le_one h0
  · rw [hm, hm, difflimNu_neg]
  · rw [hm, difflimNu_cutoff f w F hc, coreR_one]
  · rw [hm, hm]; exact coreR_antitone h0 (difflimNu_mono f f₂ w F h12) (difflimNu_range f₂ w F).2

/-- `longexposure_otf` is a valid OTF modulus — with the REAL `exp`, real power and `π`, for every structure constant `Cn`,
every non-negative path length, focal length, wavelength and `h`: 1 at zero frequency, in `(0, 1]` for every frequency
`ν ≥ 0`, and never increasing with `ν` -/
theorem longexposure_otf_valid (nu nu₂ Cn z f lam h : ℝ) (hz : 0 ≤ z) (hf : 0 ≤ f) (hl : 0 ≤ lam) (hh : 0 ≤ h) (hnu : 0 ≤ nu) :
    let otf := fun nu : ℝ => longExposureOtf Real.exp (fun x y : ℝ => x ^ y) Real.pi nu Cn z f lam h
    otf 0 = 1 ∧ 0 < otf nu ∧ otf nu ≤ 1 ∧ (nu ≤ nu₂ → otf nu₂ ≤ otf nu) := by
  intro otf
  have hm : ∀ x, otf x = Real.exp (-(Real.pi * Real.pi) * 2 * h * (Cn * Cn) *
      (z * (f / 1000) ^ ((5 : ℝ) / 3) / (lam / 1000000 * (lam / 1000000) * (lam / 1000000))) * (x / 1000) ^ ((5 : ℝ) / 3)) := fun x => by
    simp only [otf, (gen_atm Real.exp (fun x y : ℝ => x ^ y) Real.pi x Cn z f lam h 0 0 0 0 0).1, Model.C15.longExposureOtf, Num.ofInt]
    push_cast; rfl
  have hc : -(Real.pi * Real.pi) * 2 * h * (Cn * Cn) *
      (z * (f / 1000) ^ ((5 : ℝ) / 3) / (lam / 1000000 * (lam / 1000000) * (lam / 1000000))) ≤ 0 := by
    have hl6 : 0 ≤ lam / 1000000 := by linarith
    have h1 : 0 ≤ (f / 1000) ^ ((5 : ℝ) / 3) := Real.rpow_nonneg (by positivity) _
    have h2 : 0 ≤ z * (f / 1000) ^ ((5 : ℝ) / 3) / (lam / 1000000 * (lam / 1000000) * (lam / 1000000)) :=
      div_nonneg (mul_nonneg hz h1) (mul_nonneg (mul_nonneg hl6 hl6) hl6)
    have h3 : 0 ≤ Real.pi * Real.pi * 2 * h * (Cn * Cn) :=
      mul_nonneg (mul_nonneg (by positivity) hh) (mul_self_nonneg Cn)
    nlinarith [mul_nonneg h3 h2]
  have hp : ∀ x : ℝ, 0 ≤ x → 0 ≤ (x / 1000) ^ ((5 : ℝ) / 3) := fun x hx => Real.rpow_nonneg (by positivity) _
  refine ⟨?_, ?_, ?_, fun h12 => ?_⟩
  · rw [hm]; simp [Real.zero_rpow]
  · rw [hm]; exact Real.exp_pos _
  · rw [hm, ← Real.exp_zero]; exact Real.exp_le_exp.2 (mul_nonpos_of_nonpos_of_nonneg hc (hp nu hnu))
  · rw [hm, hm]
    apply Real.exp_le_exp.2
    have : (nu / 1000) ^ ((5 : ℝ) / 3) ≤ (nu₂ / 1000) ^ ((5 : ℝ) / 3) :=
      Real.rpow_le_rpow (by positivity) (by linarith) (by norm_num)
    exact mul_le_mul_of_nonpos_left this hc

/-- non-vacuity: the hypotheses of `longexposure_otf_valid` are plain sign conditions, e.g. z = 1000 m, f = 500 mm, λ = 0.55 µm -/
example : (0 : ℝ) ≤ 1000 ∧ (0 : ℝ) ≤ 500 ∧ (0 : ℝ) ≤ 0.55 ∧ (0 : ℝ) ≤ 2.91 ∧ (0 : ℝ) ≤ 30 := by norm_num

/-- non-vacuity of the cut-off clause: f/4 at λ = 0.5 µm has its cut-off at 500 cy/mm, and 600 cy/mm lies beyond it -/
example : (1 : ℝ) ≤ |600 / (1 / (0.5 / 1000 * 4))| := by norm_num [abs_of_nonneg]

/-! ## non-vacuity: the hypotheses are met by the real thing -/

/-- `exp(-2πi/n)` is a primitive `n`-th root of unity: the kernel of `scipy.fft` satisfies the contract -/
example (n : ℕ) [NeZero n] : IsPrimitiveRoot (Complex.exp (2 * Real.pi * Complex.I / n))⁻¹ n :=
  (Complex.isPrimitiveRoot_exp n (NeZero.ne n)).inv

/-- a DFT kernel over `ℂ` exists for every shape, e.g. 5 × 8 (odd × even, non-square) -/
noncomputable example : Kernel (ZMod 5 × ZMod 8) ℂ :=
  gridKernel 5 8 _ _ (Complex.isPrimitiveRoot_exp 5 (by norm_num)).inv (Complex.isPrimitiveRoot_exp 8 (by norm_num)).inv
    (by norm_num) (by norm_num)

/-- the hypotheses of `object_ft_dc_even` are met, e.g. by `sinc = jinc = 1 - x²` over ℚ -/
example : (fun x : ℚ => 1 - x * x) 0 = 1 ∧ ∀ x : ℚ, (fun x : ℚ => 1 - x * x) (-x) = (fun x : ℚ => 1 - x * x) x :=
  ⟨by norm_num, fun x => by ring⟩

/-- the real part fixes embedded reals -/
example (r : ℝ) : (fun z : ℂ => (z.re : ℂ)) (Complex.ofRealHom r) = Complex.ofRealHom r := cOps_re r

/-- `exp 0 = 1`, `cos 0 = 1`, `cos` even over `ℝ` -/
example : Real.exp 0 = 1 ∧ Real.cos 0 = 1 ∧ ∀ x, Real.cos (-x) = Real.cos x :=
  ⟨Real.exp_zero, Real.cos_zero, Real.cos_neg⟩

/-- index maps on a 5-axis and a 4-axis: origin at `n // 2` -/
example : Model.C15.convSrc 5 2 2 = 2 ∧ Model.C15.convSrc 4 1 3 = 0 ∧ Model.C15.fftshiftSrc 5 2 = 0 ∧
    Model.C15.ifftshiftSrc 5 0 = 2 := by decide

end C15
