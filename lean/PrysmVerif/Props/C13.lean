import PrysmVerif.Generated.C13
import PrysmVerif.Lemmas.C13Trapz
import PrysmVerif.Lemmas.C13Dft
import PrysmVerif.Lemmas.C13Band
import PrysmVerif.Lemmas.C13PreRot
import Mathlib.Analysis.Real.Sqrt
import Mathlib.Data.ZMod.Basic
/-!
# C13 — PSD is power-normalised, sits on its axes, and band-limited RMS adds up

Theorems about `Model.C13` are about the very definitions the driver executes on `Float`, read over
`ℝ` (`open scoped C13L` makes `ℝ` a `Num`); `cos`, `sin`, `2π` are the real ones.  Theorems whose
subject lives in `Generated.C13` are re-checked against the current source on every run.
No theorem speaks about floating-point rounding.
-/
set_option linter.unusedTactic false
set_option linter.unreachableTactic false
set_option linter.unusedVariables false
set_option linter.unnecessarySeqFocus false
set_option linter.unusedSimpArgs false

namespace C13
open scoped C13L
open Model.C13 Finset C13L
open ComplexConjugate

/-! ## translated obligations: the glue of the current source -/

/-- `psd` rotates the data before the FFT by a whole-array rotation (irrelevant to the power, see
`pre_rotation_irrelevant`) and the spectrum after it by `fftshift` -/
theorem gen_psd_rotations :
    Generated.C13.psdPostRot = Rot.fftshift ∧
    (Generated.C13.psdPreRot = Rot.fftshift ∨ Generated.C13.psdPreRot = Rot.ifftshift ∨ Generated.C13.psdPreRot = Rot.none) := by
  decide

/-- what `psd` RETURNS as power (last-definition dataflow of the current source: rebinding, `/=`, reordering and
renaming are followed), as a function of `P = |spectrum|²`, `S2 = Σ window²` and `dx`: it is `P / (S2·fs²)`, `fs = 1/dx`
— the model's normalisation — i.e. `P·dx²/S2`.  Proved as a field identity, not by matching the spelling. -/
theorem gen_psd_power (P S2 dx : ℝ) (hdx : dx ≠ 0) (hS : S2 ≠ 0) :
    Generated.C13.psdPower P S2 dx = P / Model.C13.psdCoef S2 dx ∧
    Generated.C13.psdPower P S2 dx = P * dx ^ 2 / S2 := by
  constructor
  · simp only [Generated.C13.psdPower, Model.C13.psdCoef, ofInt_eq, ofFrac_eq, Int.cast_one, Int.cast_ofNat, npow_eq] <;> field_simp <;> ring
  · simp only [Generated.C13.psdPower, Model.C13.psdCoef, ofInt_eq, ofFrac_eq, Int.cast_one, Int.cast_ofNat, npow_eq] <;> field_simp <;> ring

/-- the `S2` that normalises the power is the sum of squares of the very window that multiplied the data before the
transform, and that window is `make_window(height, dx, window)`: made for this map and spacing, selected by the caller's
`window` argument; the power is built on the SQUARED modulus of the spectrum; the sum of squares and the product height·window
are formed after a conversion to FLOATING POINT (a boolean / 8-bit user window or map is legitimate input and narrow integer
arithmetic wraps around) (dataflow facts of the current source; "recognised and different" makes this false) -/
theorem gen_psd_window :
    Generated.C13.psdWindowSameInTransformAndS2 = true ∧
    Generated.C13.psdWindowMadeForHeightFromWindowArgument = true ∧
    Generated.C13.psdPowerIsSquaredModulus = true ∧
    Generated.C13.psdArithmeticInFloatingPoint = true := by
  decide

/-- the x frequency axis is built from the number of columns, the y axis from the number of rows, the first output of the
broadcast is returned as x and the second as y, and the broadcast lays x along rows / y along columns -/
theorem gen_psd_axes_shape :
    Generated.C13.psdUxShapeAxis = 1 ∧ Generated.C13.psdUyShapeAxis = 0 ∧
    Generated.C13.psdUxBroadcastSlot = 0 ∧ Generated.C13.psdUyBroadcastSlot = 1 ∧
    Generated.C13.broadcastXAlongRowsYAlongColumns = true := by
  decide

/-- `fttools.forward_ft_unit(dx, n)` (translated: the rotation it applies to `fftfreq(n, dx)`, arguments in that order) is the
hand model `axisFreqNum`: sample `i` of the returned axis is `(i - n//2)/(n dx)` -/
theorem gen_axis_unit (n i : Int) (h0 : 0 ≤ i) (hi : i < n) :
    Generated.C13.axisFftfreqCountThenSpacing = true ∧
    shownFreqNum Generated.C13.axisRot n i = axisFreqNum n i := by
  refine ⟨by decide, ?_⟩
  simp only [shownFreqNum, axisFreqNum, Generated.C13.axisRot, fftfreqNum, rotSrc_fftshift_eq n i h0 hi]
  split <;> split <;> omega

/-- `bandlimited_rms` integrates twice — first over one of the two axes of the map, then over axis 0 of what is
left — and of the two steps handed to the integrator one is measured along axis 0 of `r` and the other along
axis 1, each between the centre sample and the sample BEFORE it (lag −1: index `c − 1` exists, or wraps to the last
sample, on every axis length ≥ 1; lag +1 would be out of range on 1- and 2-sample axes).  The result depends only on
the product of the two steps and not on the order of the axes: `trapz2_step_product`, `trapz2_axis_order`. -/
theorem gen_brms_steps :
    Generated.C13.brmsIntegrations = 2 ∧
    Generated.C13.brmsIntAxis 0 < 2 ∧ Generated.C13.brmsIntAxis 1 = 0 ∧
    Generated.C13.brmsStepAxis 0 + Generated.C13.brmsStepAxis 1 = 1 ∧
    Generated.C13.brmsStepLag 0 = -1 ∧ Generated.C13.brmsStepLag 1 = -1 := by
  decide

/-- the 1-D form (`r`, `psd` one-dimensional): the step is measured between the centre sample `n // 2` and the sample
before it -/
theorem gen_brms_steps_1d (s : Int) :
    Generated.C13.brmsCentre1D s = s / 2 ∧ Generated.C13.brmsStepLag1D = -1 := by
  refine ⟨?_, by decide⟩
  simp only [Generated.C13.brmsCentre1D]

/-- the reference sample of `bandlimited_rms` is the origin `s // 2` of each axis -/
theorem gen_brms_centre (s : Int) : Generated.C13.brmsCentre s = s / 2 := by
  simp only [Generated.C13.brmsCentre]

/-- the band mask of the source (`work[r < flow] = 0; work[r > fhigh] = 0`) is the model's: closed at both ends -/
theorem gen_brms_mask {K : Type} [Num K] (lt : K → K → Bool) (flow fhigh : K) (r P : Nat → Nat → K) (i j : Nat) :
    bandMaskGen Generated.C13.brmsLowCmp Generated.C13.brmsHighCmp lt flow fhigh r P i j
      = bandMask lt flow fhigh r P i j := by
  rfl

/-- the integrator is looked up as `trapezoid` with `trapz` as the fallback (works on NumPy 1.x and 2.x); the function
returns the square root of the last integral and masks a COPY of the caller's PSD, converted to floating point if it is not -/
theorem gen_brms_portable :
    Generated.C13.brmsIntegratorPortable = true ∧ Generated.C13.brmsReturnsSqrtOfIntegralOfACopy = true ∧
    Generated.C13.brmsWorksInFloatingPoint = true := by
  decide

/-- the band `(flow, fhigh)` that `bandlimited_rms` ends up with, for every way of giving it (symbolic execution
of the argument handling of the current source): periods are turned into frequencies by reciprocals, short
period ↦ upper edge, long period ↦ lower edge; a missing lower edge is `0`, a missing upper edge is `r.max()`;
one edge as a period and the other as a frequency: both are honoured -/
theorem gen_brms_band (a b dmax : Rat) :
    Generated.C13.brmsBandPeriodLow a dmax = (0, 1 / a) ∧
    Generated.C13.brmsBandPeriodHigh b dmax = (1 / b, dmax) ∧
    Generated.C13.brmsBandPeriodBoth a b dmax = (1 / b, 1 / a) ∧
    Generated.C13.brmsBandFreqLow a dmax = (a, dmax) ∧
    Generated.C13.brmsBandFreqHigh b dmax = (0, b) ∧
    Generated.C13.brmsBandFreqBoth a b dmax = (a, b) ∧
    Generated.C13.brmsBandMixedPeriodUpFreqLow a b dmax = (b, 1 / a) ∧
    Generated.C13.brmsBandMixedPeriodLowFreqUp a b dmax = (1 / a, b) := by
  refine ⟨?_, ?_, ?_, ?_, ?_, ?_, ?_, ?_⟩ <;>
    simp only [Generated.C13.brmsBandPeriodLow, Generated.C13.brmsBandPeriodHigh, Generated.C13.brmsBandPeriodBoth,
      Generated.C13.brmsBandFreqLow, Generated.C13.brmsBandFreqHigh, Generated.C13.brmsBandFreqBoth,
      Generated.C13.brmsBandMixedPeriodUpFreqLow, Generated.C13.brmsBandMixedPeriodLowFreqUp]

/-- a call that names no band edge at all reaches `raise ValueError` (it is not answered with a default band) -/
theorem gen_brms_band_none : Generated.C13.brmsNoBandGivenRaisesValueError = true := by
  decide

/-- `render_synthetic_surface` multiplies the surface by `rms / z_rms`, where `z_rms` is `util.rms`
(root mean square of the finite samples) of the already masked surface -/
theorem gen_synth_rescale (rho zrms z : ℝ) (hz : zrms ≠ 0) :
    Generated.C13.synthRescale rho zrms z = rescale rho zrms z ∧
    Generated.C13.synthRmsOfMaskedSurfaceThenScale = true ∧ Generated.C13.rmsIsSqrtMeanSquareOfFiniteSamples = true := by
  refine ⟨?_, by decide, by decide⟩
  simp only [Generated.C13.synthRescale, rescale, ofInt_eq, ofFrac_eq, npow_eq, Int.cast_one] <;> field_simp <;> ring

/-- the sample spacing `Interferogram.psd()` stores on the spectrum is the step `1/(n dx)` of the x frequency axis -/
theorem gen_ifg_psd_dx (dx m n : Rat) : Generated.C13.ifgPsdDx dx m n = 1 / (n * dx) := by
  simp only [Generated.C13.ifgPsdDx, mul_comm]

/-- the `Interferogram` methods hand their own data / spacing, and `psd.r` / `psd.data`, to the free functions; `psd.r` is
`hypot` of the attached axes; `total_integrated_scatter` sends its angle through array functions (ndarray angles are documented) -/
theorem gen_methods_delegate :
    Generated.C13.interferogramPsdDelegates = true ∧ Generated.C13.interferogramBrmsPassesPsdRAndData = true ∧
    Generated.C13.interferogramRenderDelegates = true ∧ Generated.C13.richDataRIsHypotOfXY = true ∧
    Generated.C13.tisAngleThroughArrayFunctions = true := by
  decide

/-- `Interferogram.psd / bandlimited_rms / total_integrated_scatter` read nothing of the object but `data`, `dx`, `wavelength`
(and call each other) and store nothing on it: their results are functions of the current state, not of earlier calls -/
theorem gen_methods_stateless : Generated.C13.interferogramSpectralMethodsStateless = true := by
  decide

/-- no helper of `fttools` / `coordinates` whose returned array a routine of `interferogram.py` writes into in place
(`render_synthetic_surface` overwrites the zero-frequency element of the axis `forward_ft_unit` hands it) is memoised: every call
gets its own array, so a synthesis call cannot change the frequency axes a later `psd` / `bandlimited_rms` sees -/
theorem gen_helper_results_not_shared : Generated.C13.helperResultsWrittenInPlaceAreNotMemoised = true := by
  decide

/-! ## the spectrum sits on the returned axes -/

/-- the spectrum returned by `psd` sits on the returned axes: the sample displayed at position `i` has
frequency `(i - n//2)/(n dx)`, which is what `forward_ft_unit(dx, n)[i]` says -/
theorem psd_axes (n i : Int) (h0 : 0 ≤ i) (hi : i < n) :
    shownFreqNum Generated.C13.psdPostRot n i = axisFreqNum n i := by
  simp only [shownFreqNum, axisFreqNum, Generated.C13.psdPostRot, fftfreqNum,
    rotSrc_fftshift_eq n i h0 hi]
  split <;> split <;> omega

/-- with `fftshift` after the FFT the axes are right for every length -/
theorem psd_axes_fftshift (n i : Int) (h0 : 0 ≤ i) (hi : i < n) :
    shownFreqNum .fftshift n i = axisFreqNum n i := by
  simp only [shownFreqNum, axisFreqNum, fftfreqNum, rotSrc_fftshift_eq n i h0 hi]
  split <;> split <;> omega

/-- with `ifftshift` after the FFT (the pinned tree) the axes are right exactly for even lengths and
for the trivial length 1: every odd axis of 3 or more samples is one sample off -/
theorem psd_axes_ifftshift_iff (n : Int) (hn : 0 < n) :
    (∀ i, 0 ≤ i → i < n → shownFreqNum .ifftshift n i = axisFreqNum n i) ↔ (n % 2 = 0 ∨ n = 1) := by
  constructor
  · intro h
    have h' := h 0 (le_refl 0) hn
    simp only [shownFreqNum, axisFreqNum, fftfreqNum, rotSrc_ifftshift_eq n 0 (le_refl 0) hn] at h'
    split at h' <;> split at h' <;> omega
  · intro hpar i h0 hi
    simp only [shownFreqNum, axisFreqNum, fftfreqNum, rotSrc_ifftshift_eq n i h0 hi]
    split <;> split <;> omega

/-- kernel-checked negative witness: `ifftshift` puts the zero-frequency sample of a 7-sample axis
at index 4 while the axis has its zero at index 3 -/
theorem psd_axes_ifftshift_fails_at_7 :
    shownFreqNum .ifftshift 7 4 = 0 ∧ axisFreqNum 7 4 = 1 ∧ axisFreqNum 7 3 = 0 ∧ shownFreqNum .ifftshift 7 3 = -1 := by
  decide

/-! ## Parseval and the PSD normalisation -/

/-- ABSTRACT lemma (used by `psd_parseval_model` through `C13L.cdft_parseval`).  Parseval: any transform whose kernel has orthogonal columns of squared length `N` (the contract
under which `fft2` is used: it computes the DFT sum) scales the total power by `N` -/
theorem parseval_of_col_orthogonal {ι κ : Type*} [Fintype ι] [Fintype κ] [DecidableEq ι]
    (W : κ → ι → ℂ) (N : ℝ)
    (hW : ∀ j j', ∑ k, W k j * conj (W k j') = if j = j' then (N : ℂ) else 0) (f : ι → ℂ) :
    ∑ k, ‖∑ j, W k j * f j‖ ^ 2 = N * ∑ j, ‖f j‖ ^ 2 :=
  C13L.parseval_of_col_orthogonal W N hW f

/-- the 2-D DFT kernel `exp(-2πi (k i/m + l j/n))` on an `m × n` grid has orthogonal columns of
squared length `m n` (so the hypothesis of `parseval_of_col_orthogonal` is met by the real thing) -/
theorem dft_kernel_col_orthogonal (m n : ℕ) (hm : m ≠ 0) (hn : n ≠ 0) (p p' : Fin m × Fin n) :
    ∑ q : Fin m × Fin n,
        Complex.exp (-((ang m n q.1 q.2 p.1 p.2 : ℝ) : ℂ) * Complex.I)
          * conj (Complex.exp (-((ang m n q.1 q.2 p'.1 p'.2 : ℝ) : ℂ) * Complex.I))
      = if p = p' then (((m * n : ℕ) : ℝ) : ℂ) else 0 := by
  have h := kern2_col_orthogonal m n (zeta m) (zeta n) (zeta_primitive m hm) (zeta_primitive n hn) p p'
  simp only [kern2, kern_exp] at h
  exact h

/-- ABSTRACT statement (any kernel `W` with the orthogonality hypothesis; NOT about the executed model — that is
`psd_parseval_model` / `psd_parseval_source`).  The PSD integrates to the window-weighted mean square: with `PSD = |F|²/(Σw²·fs²)`, `fs = 1/dx`,
`Δfx = 1/(n dx)`, `Δfy = 1/(m dx)` and a transform of `m n` samples satisfying Parseval's hypothesis,
`Σ PSD·Δfx·Δfy = Σ(h w)² / Σw²` — every shape, every spacing, every window with `Σw² ≠ 0` -/
theorem psd_parseval {ι κ : Type*} [Fintype ι] [Fintype κ] [DecidableEq ι] (W : κ → ι → ℂ) (m n : ℕ)
    (hW : ∀ j j', ∑ k, W k j * conj (W k j') = if j = j' then (((m * n : ℕ) : ℝ) : ℂ) else 0)
    (hm : m ≠ 0) (hn : n ≠ 0) (h w : ι → ℝ) (dx : ℝ) (hdx : dx ≠ 0) (hS : ∑ j, w j ^ 2 ≠ 0) :
    ∑ k, ‖∑ j, W k j * ((h j * w j : ℝ) : ℂ)‖ ^ 2 / ((∑ j, w j ^ 2) * (1 / dx) * (1 / dx))
        * (1 / (n * dx)) * (1 / (m * dx))
      = (∑ j, (h j * w j) ^ 2) / ∑ j, w j ^ 2 := by
  have hp := C13L.parseval_of_col_orthogonal W ((m * n : ℕ) : ℝ) hW (fun j => ((h j * w j : ℝ) : ℂ))
  simp only [Complex.norm_real, Real.norm_eq_abs, sq_abs] at hp
  simp only [div_eq_mul_inv, ← sum_mul]
  rw [hp]
  have hm' : (m : ℝ) ≠ 0 := Nat.cast_ne_zero.mpr hm
  have hn' : (n : ℝ) ≠ 0 := Nat.cast_ne_zero.mpr hn
  push_cast
  field_simp

/-- ABSTRACT statement, as `psd_parseval`: the same after any permutation of the spectrum (`fftshift`, `ifftshift`, …) and any permutation of
the samples fed to the transform: the normalisation does not depend on the rotations -/
theorem psd_parseval_rot {ι κ : Type*} [Fintype ι] [Fintype κ] [DecidableEq ι] (W : κ → ι → ℂ) (m n : ℕ)
    (hW : ∀ j j', ∑ k, W k j * conj (W k j') = if j = j' then (((m * n : ℕ) : ℝ) : ℂ) else 0)
    (hm : m ≠ 0) (hn : n ≠ 0) (h w : ι → ℝ) (dx : ℝ) (hdx : dx ≠ 0) (hS : ∑ j, w j ^ 2 ≠ 0)
    (σ : Equiv.Perm κ) (τ : Equiv.Perm ι) :
    ∑ k, ‖∑ j, W (σ k) j * ((h (τ j) * w (τ j) : ℝ) : ℂ)‖ ^ 2 / ((∑ j, w j ^ 2) * (1 / dx) * (1 / dx))
        * (1 / (n * dx)) * (1 / (m * dx))
      = (∑ j, (h j * w j) ^ 2) / ∑ j, w j ^ 2 := by
  rw [Equiv.sum_comp σ (fun k => ‖∑ j, W k j * ((h (τ j) * w (τ j) : ℝ) : ℂ)‖ ^ 2
    / ((∑ j, w j ^ 2) * (1 / dx) * (1 / dx)) * (1 / (n * dx)) * (1 / (m * dx)))]
  have hS' : ∑ j, w (τ j) ^ 2 ≠ 0 := by rwa [Equiv.sum_comp τ (fun j => w j ^ 2)]
  have key := psd_parseval W m n hW hm hn (fun j => h (τ j)) (fun j => w (τ j)) dx hdx hS'
  rw [Equiv.sum_comp τ (fun j => w j ^ 2), Equiv.sum_comp τ (fun j => (h j * w j) ^ 2)] at key
  exact key

/-- ABSTRACT lemma (any unit-modulus character of a finite abelian group; the statement about the executed model is
`pre_rotation_irrelevant_model`).  Rotating the data before the transform (`fft2(fftshift(x))`) multiplies every spectral sample by a
unit phase and leaves its modulus — hence the PSD — unchanged; `W` is one row of any kernel that is a
unit-modulus character of the (cyclic × cyclic) index group -/
theorem pre_rotation_irrelevant {G : Type*} [AddCommGroup G] [Fintype G] (W : G → ℂ)
    (hadd : ∀ a b, W (a + b) = W a * W b) (hnorm : ∀ a, ‖W a‖ = 1) (f : G → ℂ) (s : G) :
    ‖∑ j, W j * f (j + s)‖ = ‖∑ j, W j * f j‖ := by
  have h1 : ∑ j, W j * f (j + s) = ∑ j, W (j - s) * f j := by
    rw [← Equiv.sum_comp (Equiv.addRight s) (fun j => W (j - s) * f j)]
    refine Fintype.sum_congr _ _ fun j => ?_
    simp
  have h2 : ∑ j, W (j - s) * f j = W (-s) * ∑ j, W j * f j := by
    rw [mul_sum]
    refine Fintype.sum_congr _ _ fun j => ?_
    rw [sub_eq_add_neg, hadd]; ring
  rw [h1, h2, norm_mul, hnorm, one_mul]

/-- non-vacuity of `pre_rotation_irrelevant`: one row of the length-`n` DFT kernel is a unit-modulus character of `ZMod n` -/
example (n : ℕ) [NeZero n] (k : ℕ) :
    (∀ a b : ZMod n, zeta n ^ (k * (a + b).val) = zeta n ^ (k * a.val) * zeta n ^ (k * b.val)) ∧
    (∀ a : ZMod n, ‖zeta n ^ (k * a.val)‖ = 1) := by
  have hz := zeta_primitive n (NeZero.ne n)
  have h1 : zeta n ^ n = 1 := hz.pow_eq_one
  constructor
  · intro a b
    rw [← pow_add, ← mul_add, ZMod.val_add, pow_mul, pow_mul, pow_eq_pow_mod (a.val + b.val) (by rw [← pow_mul, mul_comm, pow_mul, h1, one_pow])]
  · intro a
    rw [norm_pow, hz.norm'_eq_one (NeZero.ne n), one_pow]

/-! ## trapezoid rule -/

/-- the integrator is linear in the integrand -/
theorem trapz_linear (n : ℕ) (d a b : ℝ) (y z : ℕ → ℝ) :
    trapz n d (fun i => a * y i + b * z i) = a * trapz n d y + b * trapz n d z := by
  simp only [trapz_weights, mul_sum, ← sum_add_distrib]
  refine sum_congr rfl fun i _ => ?_
  ring

/-- a pointwise larger integrand gives a larger integral (non-negative spacing) -/
theorem trapz_mono (n : ℕ) (d : ℝ) (hd : 0 ≤ d) (y z : ℕ → ℝ) (h : ∀ i, i < n → y i ≤ z i) :
    trapz n d y ≤ trapz n d z := by
  rw [trapz_weights, trapz_weights]
  apply mul_le_mul_of_nonneg_left _ hd
  apply sum_le_sum; intro i hi
  exact mul_le_mul_of_nonneg_left (h i (mem_range.mp hi)) (tw_nonneg n i)

/-- what the code's trapezoid gives: the rectangle sum minus half of the two end samples (`0` for one sample) -/
theorem trapz_eq_rect_sub_ends (n : ℕ) (hn : 1 ≤ n) (d : ℝ) (y : ℕ → ℝ) :
    trapz n d y = d * (∑ i ∈ range n, y i - (y 0 + y (n - 1)) / 2) := by
  obtain ⟨k, rfl⟩ : ∃ k, n = k + 1 := ⟨n - 1, by omega⟩
  rw [trapz_eq]
  simp only [Nat.add_sub_cancel]
  have key : ∀ k : ℕ, ∑ i ∈ range k, (y (i + 1) + y i) = 2 * ∑ i ∈ range (k + 1), y i - y 0 - y k := by
    intro k
    induction k with
    | zero => simp; ring
    | succ j ih => rw [sum_range_succ, ih, sum_range_succ _ (j + 1)]; ring
  have : ∑ i ∈ range k, d * (y (i + 1) + y i) / 2 = d / 2 * ∑ i ∈ range k, (y (i + 1) + y i) := by
    rw [mul_sum]; refine sum_congr rfl fun i _ => ?_; ring
  rw [this, key]; ring

/-- the two nested integrations are one weighted double sum, weight `1` inside and `1/2` on each outermost
row / column (`1/4` in the corners), with the row step and the column step as separate factors -/
theorem trapz2_weights (m n : ℕ) (dy dx : ℝ) (P : ℕ → ℕ → ℝ) :
    trapz2 m n dy dx P = dy * dx * ∑ i ∈ range m, ∑ j ∈ range n, tw m i * tw n j * P i j ∧
    (∀ k i, 0 < i → i + 1 < k → tw k i = 1) ∧ (∀ k, 2 ≤ k → tw k 0 = 1 / 2 ∧ tw k (k - 1) = 1 / 2) := by
  refine ⟨C13L.trapz2_weights m n dy dx P, fun k i h0 h1 => tw_interior k i h0 h1, fun k hk => ?_⟩
  constructor
  · unfold tw; rw [if_neg (lt_irrefl 0), if_pos (by omega)]; ring
  · unfold tw; rw [if_pos (by omega), if_neg (by omega)]; ring

/-- the nested integral depends on the two steps only through their product -/
theorem trapz2_step_product (m n : ℕ) (dy dx : ℝ) (P : ℕ → ℕ → ℝ) :
    trapz2 m n dy dx P = dy * dx * trapz2 m n 1 1 P := by
  rw [C13L.trapz2_weights, C13L.trapz2_weights]; ring

/-- integrating the columns first and the rows second gives the same value -/
theorem trapz2_axis_order (m n : ℕ) (dy dx : ℝ) (P : ℕ → ℕ → ℝ) :
    trapz m dy (fun i => trapz n dx (fun j => P i j)) = trapz2 m n dy dx P := by
  rw [C13L.trapz2_weights, trapz_weights]
  simp only [trapz_weights, mul_sum]
  refine sum_congr rfl fun i _ => sum_congr rfl fun j _ => ?_
  ring

/-! ## band-limited mean square -/

/-- (any `r`, any `P ≥ 0`; composed with the model PSD in `band_monotone_psd`) widening a band never decreases the band-limited RMS (non-negative PSD, non-negative steps) -/
theorem band_monotone (m n : ℕ) (dy dx : ℝ) (hdy : 0 ≤ dy) (hdx : 0 ≤ dx) (r P : ℕ → ℕ → ℝ)
    (hP : ∀ i j, i < m → j < n → 0 ≤ P i j) (a c a' c' : ℝ) (ha : a' ≤ a) (hc : c ≤ c') :
    brmsSq rlt m n dy dx a c r P ≤ brmsSq rlt m n dy dx a' c' r P := by
  unfold brmsSq
  apply trapz2_mono m n dy dx hdy hdx
  intro i j hi hj
  rw [bandMask_eq, bandMask_eq]
  by_cases h : a ≤ r i j ∧ r i j ≤ c
  · rw [if_pos h, if_pos ⟨le_trans ha h.1, le_trans h.2 hc⟩]
  · rw [if_neg h]; split
    · exact hP i j hi hj
    · exact le_refl 0

/-! ## degenerate bands and the default edges -/

/-- the band-limited mean square depends on the band only through WHICH samples it contains (any steps, any PSD) -/
theorem band_congr (m n : ℕ) (dy dx : ℝ) (r P : ℕ → ℕ → ℝ) (a c a' c' : ℝ)
    (h : ∀ i j, i < m → j < n → ((a ≤ r i j ∧ r i j ≤ c) ↔ (a' ≤ r i j ∧ r i j ≤ c'))) :
    brmsSq rlt m n dy dx a c r P = brmsSq rlt m n dy dx a' c' r P := by
  unfold brmsSq
  rw [C13L.trapz2_weights, C13L.trapz2_weights]
  congr 1
  refine sum_congr rfl fun i hi => sum_congr rfl fun j hj => ?_
  rw [bandMask_eq, bandMask_eq]
  have := h i j (mem_range.mp hi) (mem_range.mp hj)
  by_cases hh : a ≤ r i j ∧ r i j ≤ c
  · rw [if_pos hh, if_pos (this.mp hh)]
  · rw [if_neg hh, if_neg (fun h' => hh (this.mpr h'))]

/-- an inverted band (`flow > fhigh`) contains no sample: the band-limited RMS is 0 -/
theorem band_inverted_zero (m n : ℕ) (dy dx : ℝ) (r P : ℕ → ℕ → ℝ) (a c : ℝ) (hac : c < a) :
    brmsSq rlt m n dy dx a c r P = 0 := by
  unfold brmsSq
  rw [C13L.trapz2_weights]
  have : ∀ i j, bandMask rlt a c r P i j = 0 := by
    intro i j; rw [bandMask_eq, if_neg]; intro h; linarith [h.1, h.2]
  simp [this]

/-- a band lying entirely above every sample radius contains no sample -/
theorem band_beyond_samples_zero (m n : ℕ) (dy dx : ℝ) (r P : ℕ → ℕ → ℝ) (a c : ℝ)
    (ha : ∀ i j, i < m → j < n → r i j < a) : brmsSq rlt m n dy dx a c r P = 0 := by
  unfold brmsSq
  rw [C13L.trapz2_weights]
  have : ∀ i ∈ range m, ∀ j ∈ range n, tw m i * tw n j * bandMask rlt a c r P i j = 0 := by
    intro i hi j hj; rw [bandMask_eq, if_neg, mul_zero]
    intro h; linarith [h.1, ha i j (mem_range.mp hi) (mem_range.mp hj)]
  rw [sum_eq_zero (fun i hi => sum_eq_zero (this i hi)), mul_zero]

/-- the defaults: any lower edge at or below every sample radius (the default 0 for radii >= 0, or a negative one) and any upper
    edge at or above every sample radius (the default `r.max()`, or anything larger) give the SAME, full-band, value -/
theorem band_defaults_full (m n : ℕ) (dy dx : ℝ) (r P : ℕ → ℕ → ℝ) (a c a' c' : ℝ)
    (ha : ∀ i j, i < m → j < n → a ≤ r i j) (ha' : ∀ i j, i < m → j < n → a' ≤ r i j)
    (hc : ∀ i j, i < m → j < n → r i j ≤ c) (hc' : ∀ i j, i < m → j < n → r i j ≤ c') :
    brmsSq rlt m n dy dx a c r P = brmsSq rlt m n dy dx a' c' r P ∧
    brmsSq rlt m n dy dx a c r P = trapz2 m n dy dx P := by
  refine ⟨band_congr m n dy dx r P a c a' c' fun i j hi hj =>
    ⟨fun _ => ⟨ha' i j hi hj, hc' i j hi hj⟩, fun _ => ⟨ha i j hi hj, hc i j hi hj⟩⟩, ?_⟩
  unfold brmsSq
  rw [C13L.trapz2_weights, C13L.trapz2_weights]
  congr 1
  refine sum_congr rfl fun i hi => sum_congr rfl fun j hj => ?_
  rw [bandMask_eq, if_pos ⟨ha i j (mem_range.mp hi) (mem_range.mp hj), hc i j (mem_range.mp hi) (mem_range.mp hj)⟩]

/-- one-sided defaults: replacing only the upper edge by any value at or above every sample radius does not change the value -/
theorem band_upper_default (m n : ℕ) (dy dx : ℝ) (r P : ℕ → ℕ → ℝ) (a c c' : ℝ)
    (hc : ∀ i j, i < m → j < n → r i j ≤ c) (hc' : ∀ i j, i < m → j < n → r i j ≤ c') :
    brmsSq rlt m n dy dx a c r P = brmsSq rlt m n dy dx a c' r P :=
  band_congr m n dy dx r P a c a c' fun i j hi hj =>
    ⟨fun h => ⟨h.1, hc' i j hi hj⟩, fun h => ⟨h.1, hc i j hi hj⟩⟩

/-- ... and only the lower edge by any value at or below every sample radius -/
theorem band_lower_default (m n : ℕ) (dy dx : ℝ) (r P : ℕ → ℕ → ℝ) (a a' c : ℝ)
    (ha : ∀ i j, i < m → j < n → a ≤ r i j) (ha' : ∀ i j, i < m → j < n → a' ≤ r i j) :
    brmsSq rlt m n dy dx a c r P = brmsSq rlt m n dy dx a' c r P :=
  band_congr m n dy dx r P a c a' c fun i j hi hj =>
    ⟨fun h => ⟨ha' i j hi hj, h.2⟩, fun h => ⟨ha i j hi hj, h.2⟩⟩

/-- non-vacuity of the hypotheses above: radii 0, 1, 1, sqrt 2 -> every radius lies in [0, 2] and in [-1, 5]; the band [3, 4] lies above all of them -/
example : ∃ r : ℕ → ℕ → ℝ, (∀ i j, i < 2 → j < 2 → (0 : ℝ) ≤ r i j) ∧ (∀ i j, i < 2 → j < 2 → (-1 : ℝ) ≤ r i j) ∧
    (∀ i j, i < 2 → j < 2 → r i j ≤ 2) ∧ (∀ i j, i < 2 → j < 2 → r i j ≤ 5) ∧ (∀ i j, i < 2 → j < 2 → r i j < 3) :=
  ⟨fun i j => ((i : ℝ) + j) / 2, by
    have key : ∀ i j : ℕ, i < 2 → j < 2 → (0 : ℝ) ≤ ((i : ℝ) + j) / 2 ∧ ((i : ℝ) + j) / 2 ≤ 1 := by
      intro i j hi hj
      have h1 : (i : ℝ) ≤ 1 := by exact_mod_cast Nat.lt_succ_iff.mp hi
      have h2 : (j : ℝ) ≤ 1 := by exact_mod_cast Nat.lt_succ_iff.mp hj
      have h3 : (0 : ℝ) ≤ i := Nat.cast_nonneg i
      have h4 : (0 : ℝ) ≤ j := Nat.cast_nonneg j
      constructor <;> linarith
    refine ⟨fun i j hi hj => (key i j hi hj).1, fun i j hi hj => by linarith [(key i j hi hj).1],
      fun i j hi hj => by linarith [(key i j hi hj).2], fun i j hi hj => by linarith [(key i j hi hj).2],
      fun i j hi hj => by linarith [(key i j hi hj).2]⟩⟩

/-- adjacent bands add in quadrature up to the samples lying exactly on the common edge, which both
closed bands contain (inclusion–exclusion; nothing is assumed about where the sample radii fall) -/
theorem band_additive_general (m n : ℕ) (dy dx : ℝ) (r P : ℕ → ℕ → ℝ) (a b c : ℝ) (hab : a ≤ b) (hbc : b ≤ c) :
    brmsSq rlt m n dy dx a c r P
      = brmsSq rlt m n dy dx a b r P + brmsSq rlt m n dy dx b c r P
        - trapz2 m n dy dx (fun i j => if r i j = b then P i j else 0) := by
  unfold brmsSq
  have h := trapz2_linear m n dy dx 1 1 (bandMask rlt a b r P) (bandMask rlt b c r P)
  have h2 := trapz2_linear m n dy dx 1 (-1) (fun i j => 1 * bandMask rlt a b r P i j + 1 * bandMask rlt b c r P i j)
    (fun i j => if r i j = b then P i j else 0)
  have e : (fun i j => 1 * (1 * bandMask rlt a b r P i j + 1 * bandMask rlt b c r P i j)
      + (-1) * (if r i j = b then P i j else 0)) = bandMask rlt a c r P := by
    funext i j
    simp only [bandMask_eq]
    by_cases h1 : r i j < a
    · have n1 : ¬ (a ≤ r i j ∧ r i j ≤ c) := fun h => by linarith [h.1]
      have n2 : ¬ (a ≤ r i j ∧ r i j ≤ b) := fun h => by linarith [h.1]
      have n3 : ¬ (b ≤ r i j ∧ r i j ≤ c) := fun h => by linarith [h.1]
      have n4 : ¬ (r i j = b) := fun h => by linarith
      rw [if_neg n1, if_neg n2, if_neg n3, if_neg n4]; ring
    · rw [not_lt] at h1
      rcases lt_trichotomy (r i j) b with hlt | heq | hgt
      · have n1 : (a ≤ r i j ∧ r i j ≤ c) := ⟨h1, by linarith⟩
        have n2 : (a ≤ r i j ∧ r i j ≤ b) := ⟨h1, hlt.le⟩
        have n3 : ¬ (b ≤ r i j ∧ r i j ≤ c) := fun h => by linarith [h.1]
        have n4 : ¬ (r i j = b) := ne_of_lt hlt
        rw [if_pos n1, if_pos n2, if_neg n3, if_neg n4]; ring
      · have n1 : (a ≤ r i j ∧ r i j ≤ c) := ⟨h1, by linarith⟩
        have n2 : (a ≤ r i j ∧ r i j ≤ b) := ⟨h1, heq.le⟩
        have n3 : (b ≤ r i j ∧ r i j ≤ c) := ⟨heq.ge, by linarith⟩
        rw [if_pos n1, if_pos n2, if_pos n3, if_pos heq]; ring
      · by_cases h5 : r i j ≤ c
        · have n1 : (a ≤ r i j ∧ r i j ≤ c) := ⟨h1, h5⟩
          have n2 : ¬ (a ≤ r i j ∧ r i j ≤ b) := fun h => by linarith [h.2]
          have n3 : (b ≤ r i j ∧ r i j ≤ c) := ⟨hgt.le, h5⟩
          have n4 : ¬ (r i j = b) := ne_of_gt hgt
          rw [if_pos n1, if_neg n2, if_pos n3, if_neg n4]; ring
        · have n1 : ¬ (a ≤ r i j ∧ r i j ≤ c) := fun h => h5 h.2
          have n2 : ¬ (a ≤ r i j ∧ r i j ≤ b) := fun h => by linarith [h.2]
          have n3 : ¬ (b ≤ r i j ∧ r i j ≤ c) := fun h => h5 h.2
          have n4 : ¬ (r i j = b) := ne_of_gt hgt
          rw [if_neg n1, if_neg n2, if_neg n3, if_neg n4]; ring
  rw [e] at h2
  rw [h2, h]; ring

/-- (any `r`, `P`; composed with the model PSD in `band_additive_psd`) band-limited RMS is additive in quadrature over adjacent
bands whose common edge is not a sample radius — with closed bands the unrestricted sentence is false on an edge sample, see
`band_additive_general` -/
theorem band_additive (m n : ℕ) (dy dx : ℝ) (r P : ℕ → ℕ → ℝ) (a b c : ℝ) (hab : a ≤ b) (hbc : b ≤ c)
    (hb : ∀ i j, i < m → j < n → r i j ≠ b) :
    brmsSq rlt m n dy dx a c r P = brmsSq rlt m n dy dx a b r P + brmsSq rlt m n dy dx b c r P := by
  rw [band_additive_general m n dy dx r P a b c hab hbc]
  have : trapz2 m n dy dx (fun i j => if r i j = b then P i j else 0) = 0 := by
    rw [C13L.trapz2_weights]
    have : ∑ i ∈ range m, ∑ j ∈ range n, tw m i * tw n j * (if r i j = b then P i j else 0) = 0 := by
      apply sum_eq_zero; intro i hi
      apply sum_eq_zero; intro j hj
      rw [if_neg (hb i j (mem_range.mp hi) (mem_range.mp hj)), mul_zero]
    rw [this, mul_zero]
  rw [this, sub_zero]

/-- trapezoid versus rectangle rule: with the per-axis steps, the full rectangle sum exceeds the nested
trapezoid integral by at most the weight of the samples on the outermost rows and columns -/
theorem full_band_bound (m n : ℕ) (dy dx : ℝ) (hdy : 0 ≤ dy) (hdx : 0 ≤ dx) (P : ℕ → ℕ → ℝ)
    (hP : ∀ i j, i < m → j < n → 0 ≤ P i j) :
    0 ≤ (∑ i ∈ range m, ∑ j ∈ range n, P i j * dx * dy) - trapz2 m n dy dx P ∧
    (∑ i ∈ range m, ∑ j ∈ range n, P i j * dx * dy) - trapz2 m n dy dx P
      ≤ dx * dy * ∑ i ∈ range m, ∑ j ∈ range n, (if outer m n i j then P i j else 0) := by
  have e : (∑ i ∈ range m, ∑ j ∈ range n, P i j * dx * dy) - trapz2 m n dy dx P
      = dx * dy * ∑ i ∈ range m, ∑ j ∈ range n, (1 - tw m i * tw n j) * P i j := by
    rw [C13L.trapz2_weights]
    simp only [mul_sum, ← sum_sub_distrib]
    refine sum_congr rfl fun i _ => sum_congr rfl fun j _ => ?_
    ring
  rw [e]
  have hd : 0 ≤ dx * dy := mul_nonneg hdx hdy
  constructor
  · apply mul_nonneg hd
    apply sum_nonneg; intro i hi
    apply sum_nonneg; intro j hj
    exact mul_nonneg (one_sub_tw_mul m n i j (mem_range.mp hi) (mem_range.mp hj)).1 (hP i j (mem_range.mp hi) (mem_range.mp hj))
  · apply mul_le_mul_of_nonneg_left _ hd
    apply sum_le_sum; intro i hi
    apply sum_le_sum; intro j hj
    have hp := hP i j (mem_range.mp hi) (mem_range.mp hj)
    have h2 := (one_sub_tw_mul m n i j (mem_range.mp hi) (mem_range.mp hj)).2
    have h1 := (one_sub_tw_mul m n i j (mem_range.mp hi) (mem_range.mp hj)).1
    by_cases ho : outer m n i j
    · rw [if_pos ho] at h2 ⊢; nlinarith
    · rw [if_neg ho] at h2 ⊢; nlinarith

/-! ## the executable model -/

/-- the executable model's PSD (the definition the driver runs on floats, read over `ℝ` with the real
`cos`, `sin`, `2π`) integrates to the window-weighted mean square, for every shape, spacing, window with
`Σw² ≠ 0`, and whichever rotations are applied before and after the transform -/
theorem psd_parseval_model (pre post : Rot) (m n : ℕ) (hm : m ≠ 0) (hn : n ≠ 0) (dx : ℝ) (hdx : dx ≠ 0)
    (h w : ℕ → ℕ → ℝ) (hS : winS2 m n w ≠ 0) :
    ∑ i ∈ range m, ∑ j ∈ range n,
        psdRot pre post Real.cos Real.sin (2 * Real.pi) m n dx h w i j * (1 / (n * dx)) * (1 / (m * dx))
      = (∑ i ∈ range m, ∑ j ∈ range n, (h i j * w i j) ^ 2) / winS2 m n w :=
  model_psd_parseval pre post m n hm hn dx hdx h w hS

/-- over the full band (every sample radius inside `[flow, fhigh]`) the band-limited mean square of the
model's PSD, integrated with the per-axis steps `Δfy = 1/(m dx)`, `Δfx = 1/(n dx)`, reproduces the
window-weighted mean square of the data to within the weight of the outermost frequency samples -/
theorem full_band_total (m n : ℕ) (hm : m ≠ 0) (hn : n ≠ 0) (dx : ℝ) (hdx : 0 < dx)
    (h w r : ℕ → ℕ → ℝ) (hS : winS2 m n w ≠ 0) (flow fhigh : ℝ)
    (hband : ∀ i j, i < m → j < n → flow ≤ r i j ∧ r i j ≤ fhigh) :
    |(∑ i ∈ range m, ∑ j ∈ range n, (h i j * w i j) ^ 2) / winS2 m n w
        - brmsSq rlt m n (1 / (m * dx)) (1 / (n * dx)) flow fhigh r
            (psd Real.cos Real.sin (2 * Real.pi) m n dx h w)|
      ≤ (1 / (n * dx)) * (1 / (m * dx)) * ∑ i ∈ range m, ∑ j ∈ range n,
          (if outer m n i j then psd Real.cos Real.sin (2 * Real.pi) m n dx h w i j else 0) := by
  have hm' : (0 : ℝ) < m := Nat.cast_pos.mpr (Nat.pos_of_ne_zero hm)
  have hn' : (0 : ℝ) < n := Nat.cast_pos.mpr (Nat.pos_of_ne_zero hn)
  have hdy : (0 : ℝ) ≤ 1 / (m * dx) := by positivity
  have hdx' : (0 : ℝ) ≤ 1 / (n * dx) := by positivity
  set P := psd Real.cos Real.sin (2 * Real.pi) m n dx h w with hPdef
  have hP : ∀ i j, i < m → j < n → 0 ≤ P i j := fun i j _ _ =>
    psdRot_nonneg .fftshift .fftshift m n dx hdx.ne' h w i j
  have hfull : brmsSq rlt m n (1 / (m * dx)) (1 / (n * dx)) flow fhigh r P
      = trapz2 m n (1 / (m * dx)) (1 / (n * dx)) P := by
    unfold brmsSq
    rw [C13L.trapz2_weights, C13L.trapz2_weights]
    congr 1
    refine sum_congr rfl fun i hi => sum_congr rfl fun j hj => ?_
    rw [bandMask_eq, if_pos (hband i j (mem_range.mp hi) (mem_range.mp hj))]
  have hpar : ∑ i ∈ range m, ∑ j ∈ range n, P i j * (1 / (n * dx)) * (1 / (m * dx))
      = (∑ i ∈ range m, ∑ j ∈ range n, (h i j * w i j) ^ 2) / winS2 m n w :=
    model_psd_parseval .fftshift .fftshift m n hm hn dx hdx.ne' h w hS
  have hb := full_band_bound m n (1 / (m * dx)) (1 / (n * dx)) hdy hdx' P hP
  rw [hfull, ← hpar]
  rw [abs_of_nonneg hb.1]
  exact hb.2

/-- the two steps `bandlimited_rms` measures on the radial grid `r = hypot(fx, fy)` of the returned axes (centre
sample against its neighbour along axis 0, resp. axis 1) are the per-axis steps `1/(m dx)` and `1/(n dx)` -/
theorem brms_steps_per_axis (m n : ℕ) (hm : 2 ≤ m) (hn : 2 ≤ n) (dx : ℝ) (hdx : 0 < dx) :
    stepAxis0 (fun x => |x|) m n (rgrid m n dx) = 1 / (m * dx) ∧
    stepAxis1 (fun x => |x|) m n (rgrid m n dx) = 1 / (n * dx) :=
  steps_per_axis m n hm hn dx hdx

/-- `full_band_total` for `bandlimited_rms` as the code calls it: steps measured from `r`, full band -/
theorem full_band_total_measured (m n : ℕ) (hm : 2 ≤ m) (hn : 2 ≤ n) (dx : ℝ) (hdx : 0 < dx)
    (h w : ℕ → ℕ → ℝ) (hS : winS2 m n w ≠ 0) (flow fhigh : ℝ)
    (hband : ∀ i j, i < m → j < n → flow ≤ rgrid m n dx i j ∧ rgrid m n dx i j ≤ fhigh) :
    |(∑ i ∈ range m, ∑ j ∈ range n, (h i j * w i j) ^ 2) / winS2 m n w
        - brmsSqOfR rlt (fun x => |x|) m n flow fhigh (rgrid m n dx)
            (psd Real.cos Real.sin (2 * Real.pi) m n dx h w)|
      ≤ (1 / (n * dx)) * (1 / (m * dx)) * ∑ i ∈ range m, ∑ j ∈ range n,
          (if outer m n i j then psd Real.cos Real.sin (2 * Real.pi) m n dx h w i j else 0) := by
  unfold brmsSqOfR
  rw [(steps_per_axis m n hm hn dx hdx).1, (steps_per_axis m n hm hn dx hdx).2]
  exact full_band_total m n (by omega) (by omega) dx hdx h w (rgrid m n dx) hS flow fhigh hband

/-! ## review round: the theorems composed with the executed model and with the translated glue -/

/-- `pre_rotation_irrelevant` instantiated on the EXECUTED model, sample by sample: whatever rotation is applied to the data
before the transform (`fft2(fftshift(x))`, `fft2(ifftshift(x))`, `fft2(x)`), every sample of `Model.C13.psdRot` is the same
(the spectrum only acquires a unit phase).  This is what the AXES clause needs: the displayed sample keeps its modulus. -/
theorem pre_rotation_irrelevant_model (pre post : Rot) (m n : ℕ) (hm : m ≠ 0) (hn : n ≠ 0) (dx : ℝ)
    (h w : ℕ → ℕ → ℝ) (i j : ℕ) :
    psdRot pre post Real.cos Real.sin (2 * Real.pi) m n dx h w i j
      = psdRot .none post Real.cos Real.sin (2 * Real.pi) m n dx h w i j :=
  psdRot_pre_irrelevant pre post m n hm hn dx h w i j

/-- bridge: the PSD with the rotation kinds TRANSLATED from the current source is, sample by sample, `Model.C13.psd` — the
function the driver executes and the band / full-band theorems speak about -/
theorem psd_source_eq_model (m n : ℕ) (hm : m ≠ 0) (hn : n ≠ 0) (dx : ℝ) (h w : ℕ → ℕ → ℝ) (i j : ℕ) :
    psdRot Generated.C13.psdPreRot Generated.C13.psdPostRot Real.cos Real.sin (2 * Real.pi) m n dx h w i j
      = psd Real.cos Real.sin (2 * Real.pi) m n dx h w i j := by
  rw [gen_psd_rotations.1, psdRot_pre_irrelevant _ .fftshift m n hm hn, psd, psdRot_pre_irrelevant .fftshift .fftshift m n hm hn]

/-- the power the SOURCE returns (translated `psdPower` applied to the model's |DFT|² and Σw²) is the model PSD -/
theorem psd_power_eq_model (pre post : Rot) (m n : ℕ) (dx : ℝ) (hdx : dx ≠ 0) (h w : ℕ → ℕ → ℝ) (hS : winS2 m n w ≠ 0) (i j : ℕ) :
    Generated.C13.psdPower
        (dftPow Real.cos Real.sin (2 * Real.pi) m n
          (fun a b => h (rotIdx pre m a) (rotIdx pre n b) * w (rotIdx pre m a) (rotIdx pre n b)) (rotIdx post m i) (rotIdx post n j))
        (winS2 m n w) dx
      = psdRot pre post Real.cos Real.sin (2 * Real.pi) m n dx h w i j := by
  rw [(gen_psd_power _ _ dx hdx hS).1]; rfl

/-- Parseval stated over the TRANSLATED glue of `psd()` (returned power expression `psdPower`, rotation kinds) with the model's
DFT double sum and `Σw²` plugged in: `Σ PSD·Δfx·Δfy = Σ(h w)²/Σw²` -/
theorem psd_parseval_source (m n : ℕ) (hm : m ≠ 0) (hn : n ≠ 0) (dx : ℝ) (hdx : dx ≠ 0)
    (h w : ℕ → ℕ → ℝ) (hS : winS2 m n w ≠ 0) :
    ∑ i ∈ range m, ∑ j ∈ range n,
        Generated.C13.psdPower
          (dftPow Real.cos Real.sin (2 * Real.pi) m n
            (fun a b => h (rotIdx Generated.C13.psdPreRot m a) (rotIdx Generated.C13.psdPreRot n b)
              * w (rotIdx Generated.C13.psdPreRot m a) (rotIdx Generated.C13.psdPreRot n b))
            (rotIdx Generated.C13.psdPostRot m i) (rotIdx Generated.C13.psdPostRot n j))
          (winS2 m n w) dx * (1 / (n * dx)) * (1 / (m * dx))
      = (∑ i ∈ range m, ∑ j ∈ range n, (h i j * w i j) ^ 2) / winS2 m n w := by
  simp only [psd_power_eq_model _ _ m n dx hdx h w hS]
  exact psd_parseval_model _ _ m n hm hn dx hdx h w hS

/-- the AXES clause with both sides translated: the frequency of the sample `psd()` displays at position `i` (rotation after the
FFT, from interferogram.py) is the value `forward_ft_unit` puts at position `i` of the returned axis (rotation of `fftfreq`,
from fttools.py) -/
theorem psd_on_returned_axes (n i : Int) (h0 : 0 ≤ i) (hi : i < n) :
    shownFreqNum Generated.C13.psdPostRot n i = shownFreqNum Generated.C13.axisRot n i := by
  rw [psd_axes n i h0 hi, (gen_axis_unit n i h0 hi).2]

/-- `band_monotone` composed with the executed model's PSD and the per-axis steps: no hypothesis on `P` is left -/
theorem band_monotone_psd (m n : ℕ) (dx : ℝ) (hdx : 0 < dx) (h w r : ℕ → ℕ → ℝ) (a c a' c' : ℝ) (ha : a' ≤ a) (hc : c ≤ c') :
    brmsSq rlt m n (1 / (m * dx)) (1 / (n * dx)) a c r (psd Real.cos Real.sin (2 * Real.pi) m n dx h w)
      ≤ brmsSq rlt m n (1 / (m * dx)) (1 / (n * dx)) a' c' r (psd Real.cos Real.sin (2 * Real.pi) m n dx h w) := by
  have hdy : (0 : ℝ) ≤ 1 / (m * dx) := by positivity
  have hdx' : (0 : ℝ) ≤ 1 / (n * dx) := by positivity
  exact band_monotone m n _ _ hdy hdx' r _ (fun i j _ _ => psdRot_nonneg .fftshift .fftshift m n dx hdx.ne' h w i j) a c a' c' ha hc

/-- "band edges given as periods or frequencies": in the band table TRANSLATED from the argument handling, a band given by
periods is the band given by the reciprocal frequencies, one-sided forms and one-edge-each forms included -/
theorem band_table_periods_are_frequencies (a b dmax : Rat) :
    Generated.C13.brmsBandPeriodBoth a b dmax = Generated.C13.brmsBandFreqBoth (1 / b) (1 / a) dmax ∧
    Generated.C13.brmsBandPeriodLow a dmax = Generated.C13.brmsBandFreqHigh (1 / a) dmax ∧
    Generated.C13.brmsBandPeriodHigh b dmax = Generated.C13.brmsBandFreqLow (1 / b) dmax ∧
    Generated.C13.brmsBandMixedPeriodUpFreqLow a b dmax = Generated.C13.brmsBandFreqBoth b (1 / a) dmax ∧
    Generated.C13.brmsBandMixedPeriodLowFreqUp a b dmax = Generated.C13.brmsBandFreqBoth (1 / a) b dmax := by
  have g := gen_brms_band
  refine ⟨?_, ?_, ?_, ?_, ?_⟩
  · rw [(g a b dmax).2.2.1, (g (1 / b) (1 / a) dmax).2.2.2.2.2.1]
  · rw [(g a b dmax).1, (g a (1 / a) dmax).2.2.2.2.1]
  · rw [(g a b dmax).2.1, (g (1 / b) b dmax).2.2.2.1]
  · rw [(g a b dmax).2.2.2.2.2.2.1, (g b (1 / a) dmax).2.2.2.2.2.1]
  · rw [(g a b dmax).2.2.2.2.2.2.2, (g (1 / a) b dmax).2.2.2.2.2.1]

/-- hence the band-limited mean square asked for by periods `(wllow, wlhigh)` is `brmsSq` on `[1/wlhigh, 1/wllow]` -/
theorem band_periods_same_rms (m n : ℕ) (dy dx : ℝ) (r P : ℕ → ℕ → ℝ) (wllow wlhigh dmax : Rat) :
    brmsSq rlt m n dy dx ((Generated.C13.brmsBandPeriodBoth wllow wlhigh dmax).1 : ℝ)
        ((Generated.C13.brmsBandPeriodBoth wllow wlhigh dmax).2 : ℝ) r P
      = brmsSq rlt m n dy dx (((1 / wlhigh : Rat)) : ℝ) (((1 / wllow : Rat)) : ℝ) r P := by
  rw [(gen_brms_band wllow wlhigh dmax).2.2.1]


/-- one row: the nested trapezoid integral is `0` (a single sample has trapezoid weight `0`) -/
theorem trapz2_single_row (n : ℕ) (dy dx : ℝ) (P : ℕ → ℕ → ℝ) : trapz2 1 n dy dx P = 0 := by
  rw [C13L.trapz2_weights]; simp [tw]

/-- one column: likewise `0` -/
theorem trapz2_single_col (m : ℕ) (dy dx : ℝ) (P : ℕ → ℕ → ℝ) : trapz2 m 1 dy dx P = 0 := by
  rw [C13L.trapz2_weights]; simp [tw]

/-- a map with a single row or a single column: the code's nested trapezoid integral is `0` whatever the band -/
theorem brms_single_row_or_column (m n : ℕ) (hmn : m = 1 ∨ n = 1) (flow fhigh : ℝ) (r P : ℕ → ℕ → ℝ) :
    brmsSqOfR rlt (fun x => |x|) m n flow fhigh r P = 0 := by
  unfold brmsSqOfR brmsSq
  rcases hmn with h | h <;> subst h
  · exact trapz2_single_row _ _ _ _
  · exact trapz2_single_col _ _ _ _

/-- `full_band_total_measured` for EVERY shape `m, n ≥ 1`: on a `1 × n` / `m × 1` map the code returns `0` and every sample is
an outermost one, so the bound holds with equality (by Parseval) -/
theorem full_band_total_measured_all (m n : ℕ) (hm : 1 ≤ m) (hn : 1 ≤ n) (dx : ℝ) (hdx : 0 < dx)
    (h w : ℕ → ℕ → ℝ) (hS : winS2 m n w ≠ 0) (flow fhigh : ℝ)
    (hband : ∀ i j, i < m → j < n → flow ≤ rgrid m n dx i j ∧ rgrid m n dx i j ≤ fhigh) :
    |(∑ i ∈ range m, ∑ j ∈ range n, (h i j * w i j) ^ 2) / winS2 m n w
        - brmsSqOfR rlt (fun x => |x|) m n flow fhigh (rgrid m n dx)
            (psd Real.cos Real.sin (2 * Real.pi) m n dx h w)|
      ≤ (1 / (n * dx)) * (1 / (m * dx)) * ∑ i ∈ range m, ∑ j ∈ range n,
          (if outer m n i j then psd Real.cos Real.sin (2 * Real.pi) m n dx h w i j else 0) := by
  by_cases h2 : 2 ≤ m ∧ 2 ≤ n
  · exact full_band_total_measured m n h2.1 h2.2 dx hdx h w hS flow fhigh hband
  · have hmn : m = 1 ∨ n = 1 := by omega
    rw [brms_single_row_or_column m n hmn, sub_zero]
    set P := psd Real.cos Real.sin (2 * Real.pi) m n dx h w with hPdef
    have hP : ∀ i j, 0 ≤ P i j := fun i j => psdRot_nonneg .fftshift .fftshift m n dx hdx.ne' h w i j
    have hpar : ∑ i ∈ range m, ∑ j ∈ range n, P i j * (1 / (n * dx)) * (1 / (m * dx))
        = (∑ i ∈ range m, ∑ j ∈ range n, (h i j * w i j) ^ 2) / winS2 m n w :=
      model_psd_parseval .fftshift .fftshift m n (by omega) (by omega) dx hdx.ne' h w hS
    have hall : ∀ i j, i < m → j < n → outer m n i j := by
      intro i j hi hj
      unfold outer
      rcases hmn with h1 | h1 <;> subst h1 <;> omega
    have hrhs : ∑ i ∈ range m, ∑ j ∈ range n, (if outer m n i j then P i j else 0)
        = ∑ i ∈ range m, ∑ j ∈ range n, P i j := by
      refine sum_congr rfl fun i hi => sum_congr rfl fun j hj => ?_
      rw [if_pos (hall i j (mem_range.mp hi) (mem_range.mp hj))]
    rw [hrhs, ← hpar]
    have hm' : (0 : ℝ) < m := Nat.cast_pos.mpr (by omega)
    have hn' : (0 : ℝ) < n := Nat.cast_pos.mpr (by omega)
    have hnn : 0 ≤ ∑ i ∈ range m, ∑ j ∈ range n, P i j * (1 / (n * dx)) * (1 / (m * dx)) := by
      apply sum_nonneg; intro i _; apply sum_nonneg; intro j _
      have := hP i j
      positivity
    rw [abs_of_nonneg hnn, mul_sum]
    apply le_of_eq
    refine sum_congr rfl fun i _ => ?_
    rw [mul_sum]
    refine sum_congr rfl fun j _ => ?_
    ring

/-- `band_additive` composed with the executed model's PSD -/
theorem band_additive_psd (m n : ℕ) (dx : ℝ) (h w r : ℕ → ℕ → ℝ) (dy dx' : ℝ) (a b c : ℝ) (hab : a ≤ b) (hbc : b ≤ c)
    (hb : ∀ i j, i < m → j < n → r i j ≠ b) :
    brmsSq rlt m n dy dx' a c r (psd Real.cos Real.sin (2 * Real.pi) m n dx h w)
      = brmsSq rlt m n dy dx' a b r (psd Real.cos Real.sin (2 * Real.pi) m n dx h w)
        + brmsSq rlt m n dy dx' b c r (psd Real.cos Real.sin (2 * Real.pi) m n dx h w) :=
  band_additive m n dy dx' r _ a b c hab hbc hb

/-! ## the 1-D form of `bandlimited_rms` -/

/-- the 1-D band mask over `ℝ`: closed band -/
theorem bandMask1_eq (flow fhigh : ℝ) (r P : ℕ → ℝ) (i : ℕ) :
    bandMask1 rlt flow fhigh r P i = if flow ≤ r i ∧ r i ≤ fhigh then P i else 0 := by
  unfold bandMask1; rw [bandMask_eq]

/-- 1-D form: widening the band never decreases the band-limited mean square -/
theorem band_monotone_1d (n : ℕ) (d : ℝ) (hd : 0 ≤ d) (r P : ℕ → ℝ) (hP : ∀ i, i < n → 0 ≤ P i)
    (a c a' c' : ℝ) (ha : a' ≤ a) (hc : c ≤ c') :
    brms1Sq rlt n d a c r P ≤ brms1Sq rlt n d a' c' r P := by
  unfold brms1Sq
  apply trapz_mono n d hd
  intro i hi
  rw [bandMask1_eq, bandMask1_eq]
  by_cases h : a ≤ r i ∧ r i ≤ c
  · rw [if_pos h, if_pos ⟨le_trans ha h.1, le_trans h.2 hc⟩]
  · rw [if_neg h]; split
    · exact hP i hi
    · exact le_refl 0

/-- 1-D form: adjacent bands add when the common edge is not a sample of the axis -/
theorem band_additive_1d (n : ℕ) (d : ℝ) (r P : ℕ → ℝ) (a b c : ℝ) (hab : a ≤ b) (hbc : b ≤ c)
    (hb : ∀ i, i < n → r i ≠ b) :
    brms1Sq rlt n d a c r P = brms1Sq rlt n d a b r P + brms1Sq rlt n d b c r P := by
  unfold brms1Sq
  have hl := trapz_linear n d 1 1 (bandMask1 rlt a b r P) (bandMask1 rlt b c r P)
  simp only [one_mul] at hl
  rw [← hl, trapz_weights, trapz_weights]
  congr 1
  refine sum_congr rfl fun i hi => ?_
  congr 1
  simp only [bandMask1_eq]
  have hne := hb i (mem_range.mp hi)
  by_cases h1 : a ≤ r i ∧ r i ≤ c
  · rw [if_pos h1]
    rcases lt_or_gt_of_ne hne with hlt | hgt
    · rw [if_pos ⟨h1.1, hlt.le⟩, if_neg (fun hh => by linarith [hh.1]), add_zero]
    · rw [if_neg (fun hh => by linarith [hh.2]), if_pos ⟨hgt.le, h1.2⟩, zero_add]
  · rw [if_neg h1, if_neg, if_neg, add_zero]
    · intro hh; exact h1 ⟨by linarith [hh.1], hh.2⟩
    · intro hh; exact h1 ⟨hh.1, by linarith [hh.2]⟩


/-! ## a synthesised surface has exactly the requested RMS -/

/-- the rescale of the current source (`z *= rms / z_rms`) turns a mean square `r²` over the `k ≥ 1`
valid samples into `ρ²`, whatever the samples are (`r ≠ 0`) -/
theorem synth_rms_sq (k : ℕ) (hk : k ≠ 0) (z : ℕ → ℝ) (rho r : ℝ) (hr : r ≠ 0) (hz : r ^ 2 = meanSq k z) :
    meanSq k (fun i => Generated.C13.synthRescale rho r (z i)) = rho ^ 2 := by
  have hk' : (k : ℝ) ≠ 0 := Nat.cast_ne_zero.mpr hk
  have hg : (fun i => Generated.C13.synthRescale rho r (z i)) = fun i => z i * (rho / r) := by
    funext i; rw [(gen_synth_rescale rho r (z i) hr).1]; rfl
  rw [hg]
  rw [meanSq_eq] at hz ⊢
  have : ∑ i ∈ range k, (z i * (rho / r)) ^ 2 = (rho / r) ^ 2 * ∑ i ∈ range k, z i ^ 2 := by
    rw [mul_sum]; refine sum_congr rfl fun i _ => ?_; ring
  rw [this]
  have h2 : ∑ i ∈ range k, z i ^ 2 = r ^ 2 * k := by rw [hz]; field_simp
  rw [h2]; field_simp

/-- `rms(z · ρ/rms z) = ρ` over the valid samples, for every requested `ρ ≥ 0` and every surface with `rms z ≠ 0` -/
theorem synth_rms (k : ℕ) (hk : k ≠ 0) (z : ℕ → ℝ) (rho : ℝ) (hrho : 0 ≤ rho)
    (hz : Real.sqrt (meanSq k z) ≠ 0) :
    Real.sqrt (meanSq k (fun i => Generated.C13.synthRescale rho (Real.sqrt (meanSq k z)) (z i))) = rho := by
  rw [synth_rms_sq k hk z rho _ hz (Real.sq_sqrt (meanSq_nonneg k z))]
  exact Real.sqrt_sq hrho

/-! ## non-vacuity: the hypotheses are met by concrete instances -/

/-- Parseval for the real DFT kernel on any non-empty grid (hypothesis of `parseval_of_col_orthogonal` instantiated) -/
example (m n : ℕ) (hm : m ≠ 0) (hn : n ≠ 0) (f : Fin m × Fin n → ℂ) :
    ∑ q : Fin m × Fin n, ‖∑ p : Fin m × Fin n,
        Complex.exp (-((ang m n q.1 q.2 p.1 p.2 : ℝ) : ℂ) * Complex.I) * f p‖ ^ 2
      = ((m * n : ℕ) : ℝ) * ∑ p, ‖f p‖ ^ 2 :=
  parseval_of_col_orthogonal _ _ (dft_kernel_col_orthogonal m n hm hn) f

example : shownFreqNum .fftshift 7 3 = 0 ∧ shownFreqNum .fftshift 8 4 = 0 ∧ shownFreqNum .fftshift 1 0 = 0 := by decide
example : ¬ ((7 : Int) % 2 = 0 ∨ (7 : Int) = 1) := by decide

/-- a window with `Σw² ≠ 0` (hypothesis of `psd_parseval_model` / `full_band_total`) -/
example : winS2 2 3 (fun _ _ => (1 : ℝ)) ≠ 0 := by
  rw [winS2_eq]; norm_num [sum_range_succ]

/-- a surface with non-zero RMS over 2 valid samples (hypothesis of `synth_rms`) -/
example : Real.sqrt (meanSq 2 (fun _ => (1 : ℝ))) ≠ 0 := by
  rw [meanSq_eq]; norm_num [sum_range_succ]

/-- adjacent bands whose common edge avoids all sample radii (hypothesis of `band_additive`) -/
example : ∀ i j, i < 2 → j < 2 → (fun (i j : ℕ) => ((i + j : ℕ) : ℝ)) i j ≠ (1 / 2 : ℝ) := by
  intro i j _ _ h
  have h2 : (2 : ℝ) * ((i + j : ℕ) : ℝ) = 1 := by simp only at h; rw [h]; norm_num
  have h3 : (2 * (i + j) : ℕ) = 1 := by exact_mod_cast h2
  omega

/-- a 1-D axis none of whose samples lies on the common edge (hypothesis of `band_additive_1d`) -/
example : ∀ i, i < 3 → (fun (i : ℕ) => ((i : ℕ) : ℝ)) i ≠ (1 / 2 : ℝ) := by
  intro i _ h
  have h2 : (2 : ℝ) * ((i : ℕ) : ℝ) = 1 := by simp only at h; rw [h]; norm_num
  have h3 : (2 * i : ℕ) = 1 := by exact_mod_cast h2
  omega

/-- a band that contains every sample radius exists for every grid (hypothesis `hband` of the full-band theorems): `[0, max]` -/
example (dx : ℝ) : ∀ i j, i < 1 → j < 1 → (0 : ℝ) ≤ rgrid 1 1 dx i j ∧ rgrid 1 1 dx i j ≤ rgrid 1 1 dx 0 0 := by
  intro i j hi hj
  have hi0 : i = 0 := by omega
  have hj0 : j = 0 := by omega
  subst hi0; subst hj0
  exact ⟨Real.sqrt_nonneg _, le_refl _⟩

end C13
