import PrysmVerif.Generated.C07
import PrysmVerif.Lemmas.C07Field
import PrysmVerif.Lemmas.C07Spec
import PrysmVerif.Lemmas.C07Jacobi
import PrysmVerif.Lemmas.C07Hermite
import PrysmVerif.Lemmas.C07Explicit
import Mathlib.MeasureTheory.Integral.IntervalIntegral.Basic
import Mathlib.Analysis.SpecialFunctions.Pow.Real
import Mathlib.Analysis.SpecialFunctions.Sqrt
/-!
# C07 — polynomial bases equal their mathematical definitions (and are orthogonal: PARTIAL)

Layout.
1. *Translated obligations*: the Lean text generated from the current prysm source (`Generated.C07`: the
   whole bodies of `recurrence_abc`, `jacobi`, `hermite_He`, `hermite_H`, `laguerre`, `dickson1/2`, `Qbfs`, loops
   included, plus the argument wiring of the Chebyshev / Legendre / Zernike / Qcon / XY / Hopkins functions)
   computes the hand model, for every order and every argument.
2. *The property*: the functions so obtained are the textbook polynomials — DLMF coefficients for all `n`,
   value at 1, reflection, Chebyshev `T U V W` (Mathlib's `T`, `U`), Bonnet, Mathlib's `hermite` and `dickson`,
   DLMF's Laguerre recurrence, the Zernike / XY / Hopkins / Qcon definitions, and DLMF 18.5.7's explicit
   hypergeometric sum for Jacobi — for ALL orders and points.
3. *Not proved*: orthogonality for all orders.  The full statements are kept as `…_full : Prop`;
   the harness checks them numerically (Gauss quadrature), labelled as testing.

Scalars: any field `K` of characteristic zero (ordered where positivity of a denominator is needed); the
transcendental `sqrt` is a parameter.
-/
set_option linter.unusedTactic false
set_option linter.unreachableTactic false
set_option linter.unusedSectionVars false
set_option linter.unusedSimpArgs false
set_option linter.unusedVariables false

namespace C07
open Model.C07 C07L Polynomial

/-! ## 1. translated obligations -/
section translated
variable {K : Type} [Field K] [DecidableEq K] [CharZero K]

/-- translated `recurrence_abc`, general branch, is the hand model's coefficient triple (all `n α β`) -/
theorem gen_abc_general (n a b : K) (h : ¬ (n = 0 ∧ (a + b = 0 ∨ a + b = -1))) :
    Generated.C07.abc n a b = abcK n a b := by
  simp only [Generated.C07.abc, ofInt_eq, Int.cast_zero, Int.reduceNeg, Int.cast_neg, Int.cast_one, if_neg h]
  try simp [abcK, pow_two]

/-- translated `recurrence_abc`, `n = 0 ∧ α+β ∈ {0,−1}` branch, is the model's special triple -/
theorem gen_abc_special (a b : K) (h : a + b = 0 ∨ a + b = -1) :
    Generated.C07.abc 0 a b = abc0 a b := by
  rcases h with h | h <;> simp [Generated.C07.abc, abc0, h]

/-- for every order `n+1 ≥ 1` the translated coefficients are the model's `abc (n+1)` -/
theorem gen_abc_nat (n : ℕ) (a b : K) : Generated.C07.abc ((n:K) + 1) a b = abc (n+1) a b := by
  rw [gen_abc_general]
  · simp [abc]
  · rintro ⟨h, _⟩
    exact Nat.cast_add_one_ne_zero n h

/-- the translated body of `jacobi` (loop included) computes the model's `jacobi n α β x`, every `n` -/
theorem gen_jacobi (n : ℕ) (a b x : K) : Generated.C07.jacobi (n : ℤ) a b x = jacobi n a b x := by
  first
  | (show Model.C07.jacobi _ _ _ _ = _; simp)
  | (
      match n with
      | 0 => simp [Generated.C07.jacobi, jacobi_zero]
      | 1 => simp [Generated.C07.jacobi, jacobi_one, jacP1]
      | n+2 =>
        have h0 : ¬ (((n + 2 : ℕ) : ℤ) = 0) := by omega
        have h1 : ¬ (((n + 2 : ℕ) : ℤ) = 1) := by omega
        have e1 : Generated.C07.abc (1:K) a b = abc 1 a b := by simpa using gen_abc_nat 0 a b
        have P2 : ((Generated.C07.abc (1:K) a b).1 * x + (Generated.C07.abc (1:K) a b).2.1) * (a + 1 + (a + b + 2) * ((x - 1) / 2))
            - (Generated.C07.abc (1:K) a b).2.2 = jacobi 2 a b x := by
          rw [e1, jacobi_succ_succ, jacobi_one, jacobi_zero]; simp [jacStep, jacP1]
        unfold Generated.C07.jacobi
        simp only [if_neg h0, if_neg h1, ofInt_eq, Int.cast_one, Int.cast_ofNat, Int.cast_zero]
        split
        · rename_i h
          have : n = 0 := by omega
          subst this
          exact P2
        · rw [show ((n+2:ℕ):ℤ) + 1 = 3 + (n:ℕ) by push_cast; ring]
          refine (forRange_induct (fun k (s : K × K × K × K × K × K) => s.2.1 = jacobi (k+1) a b x ∧ s.2.2.2.2.2 = jacobi (k+2) a b x)
            3 _ _ ?_ ?_ n).2
          · exact ⟨by simp [jacobi_one, jacP1], P2⟩
          · rintro k s ⟨hs1, hs2⟩
            refine ⟨hs2, ?_⟩
            simp only [hs1, hs2]
            have : (((3 + (k:ℤ) : ℤ) : K) - 1) = ((k + 1 : ℕ) : K) + 1 := by push_cast; ring
            rw [this, gen_abc_nat, jacobi_succ_succ (k+1)]
            simp [jacStep])

/-- the translated body of `hermite_He` (loop included) computes the model's `hermiteHe n x`, every `n` -/
theorem gen_hermiteHe (n : ℕ) (x : K) : Generated.C07.hermiteHe (n : ℤ) x = hermiteHe n x := by
  first
  | (show Model.C07.hermiteHe _ _ = _; simp)
  | (
      match n with
      | 0 => simp [Generated.C07.hermiteHe, hermiteHe_zero]
      | 1 => simp [Generated.C07.hermiteHe, hermiteHe_one]
      | n+2 =>
        have h0 : ¬ (((n + 2 : ℕ) : ℤ) = 0) := by omega
        have h1 : ¬ (((n + 2 : ℕ) : ℤ) = 1) := by omega
        have P2 : x * x - 1 = hermiteHe 2 x := by rw [hermiteHe_succ_succ, hermiteHe_one, hermiteHe_zero]; simp
        unfold Generated.C07.hermiteHe
        simp only [if_neg h0, if_neg h1, ofInt_eq, Int.cast_one, Int.cast_ofNat, Int.cast_zero]
        split
        · rename_i h
          have : n = 0 := by omega
          subst this
          exact P2
        · rename_i h
          obtain ⟨m, rfl⟩ : ∃ m, n = m + 1 := ⟨n - 1, by omega⟩
          rw [show ((m+1+2:ℕ):ℤ) + 1 = 3 + ((m+1 : ℕ):ℤ) by push_cast; ring]
          refine (forRange_induct (fun k (s : K × K × K) => s.2.1 = hermiteHe (k+1) x ∧ s.2.2 = hermiteHe (k+2) x
              ∧ (1 ≤ k → s.1 = hermiteHe (k+2) x)) 3 _ _ ?_ ?_ (m+1)).2.2 (by omega)
          · exact ⟨by simp [hermiteHe_one], P2, by omega⟩
          · rintro k s ⟨hs1, hs2, -⟩
            have e : x * s.2.2 - (((3 + (k:ℤ) : ℤ) : K) - 1) * s.2.1 = hermiteHe (k+3) x := by
              rw [hs1, hs2, hermiteHe_succ_succ (k+1)]; push_cast; ring
            exact ⟨hs2, e, fun _ => e⟩)

/-- the translated body of `hermite_H` (loop included) computes the model's `hermiteH n x`, every `n` -/
theorem gen_hermiteH (n : ℕ) (x : K) : Generated.C07.hermiteH (n : ℤ) x = hermiteH n x := by
  first
  | (show Model.C07.hermiteH _ _ = _; simp)
  | (
      match n with
      | 0 => simp [Generated.C07.hermiteH, hermiteH_zero]
      | 1 => simp [Generated.C07.hermiteH, hermiteH_one]
      | n+2 =>
        have h0 : ¬ (((n + 2 : ℕ) : ℤ) = 0) := by omega
        have h1 : ¬ (((n + 2 : ℕ) : ℤ) = 1) := by omega
        have P2 : 4 * (x * x) - 2 = hermiteH 2 x := by
          rw [hermiteH_succ_succ, hermiteH_one, hermiteH_zero]; simp; ring
        unfold Generated.C07.hermiteH
        simp only [if_neg h0, if_neg h1, ofInt_eq, Int.cast_one, Int.cast_ofNat, Int.cast_zero]
        split
        · rename_i h
          have : n = 0 := by omega
          subst this
          exact P2
        · rename_i h
          obtain ⟨m, rfl⟩ : ∃ m, n = m + 1 := ⟨n - 1, by omega⟩
          rw [show ((m+1+2:ℕ):ℤ) + 1 = 3 + ((m+1 : ℕ):ℤ) by push_cast; ring]
          refine (forRange_induct (fun k (s : K × K × K) => s.2.1 = hermiteH (k+1) x ∧ s.2.2 = hermiteH (k+2) x
              ∧ (1 ≤ k → s.1 = hermiteH (k+2) x)) 3 _ _ ?_ ?_ (m+1)).2.2 (by omega)
          · exact ⟨by simp [hermiteH_one], P2, by omega⟩
          · rintro k s ⟨hs1, hs2, -⟩
            have e : 2 * x * s.2.2 - 2 * (((3 + (k:ℤ) : ℤ) : K) - 1) * s.2.1 = hermiteH (k+3) x := by
              rw [hs1, hs2, hermiteH_succ_succ (k+1)]; push_cast; ring
            exact ⟨hs2, e, fun _ => e⟩)

/-- the translated body of `laguerre` (loop included) computes the model's `laguerre n α x`, every `n` -/
theorem gen_laguerre (n : ℕ) (al x : K) : Generated.C07.laguerre (n : ℤ) al x = laguerre n al x := by
  first
  | (show Model.C07.laguerre _ _ _ = _; simp)
  | (
      match n with
      | 0 => simp [Generated.C07.laguerre, laguerre_zero]
      | 1 => simp [Generated.C07.laguerre, laguerre_one]
      | n+2 =>
        have h0 : ¬ (((n + 2 : ℕ) : ℤ) = 0) := by omega
        have h1 : ¬ (((n + 2 : ℕ) : ℤ) = 1) := by omega
        have P2 : (1:K) / 2 * ((al + 3 - x) * (al + 1 - x) - (al + 1) * 1) = laguerre 2 al x := by
          rw [laguerre_succ_succ, laguerre_one, laguerre_zero]; simp; ring
        unfold Generated.C07.laguerre
        simp only [if_neg h0, if_neg h1, ofInt_eq, ofFrac_eq, Int.cast_one, Int.cast_ofNat, Int.cast_zero, Nat.cast_ofNat]
        split
        · rename_i h
          have : n = 0 := by omega
          subst this
          exact P2
        · rw [show ((n+2:ℕ):ℤ) + 1 = 3 + (n:ℕ) by push_cast; ring]
          refine (forRange_induct (fun k (s : K × K × K × K × K × K) => s.2.2.2.1 = laguerre (k+2) al x
              ∧ s.2.2.2.2.1 = laguerre (k+2) al x ∧ s.2.2.2.2.2 = laguerre (k+1) al x) 3 _ _ ?_ ?_ n).1
          · exact ⟨P2, P2, by simp [laguerre_one]⟩
          · rintro k s ⟨-, hs2, hs3⟩
            have e : 1 / ((((3 + (k:ℤ) : ℤ) : K) - 1) + 1) * ((al + 2 * (((3 + (k:ℤ) : ℤ) : K) - 1) + 1 - x) * s.2.2.2.2.1
                - (al + (((3 + (k:ℤ) : ℤ) : K) - 1)) * s.2.2.2.2.2) = laguerre (k+3) al x := by
              rw [hs2, hs3, laguerre_succ_succ (k+1)]; push_cast; ring
            exact ⟨e, e, hs2⟩)

/-- the translated body of `dickson1` (loop included) computes the model's `dickson1 n a x`, every `n` -/
theorem gen_dickson1 (n : ℕ) (al x : K) : Generated.C07.dickson1 (n : ℤ) al x = dickson1 n al x := by
  first
  | (show Model.C07.dickson1 _ _ _ = _; simp)
  | (
      match n with
      | 0 => simp [Generated.C07.dickson1, dickson1, dickPair]
      | 1 => simp [Generated.C07.dickson1, dickson1, dickPair]
      | n+2 =>
        have h0 : ¬ (((n + 2 : ℕ) : ℤ) = 0) := by omega
        have h1 : ¬ (((n + 2 : ℕ) : ℤ) = 1) := by omega
        unfold Generated.C07.dickson1
        simp only [if_neg h0, if_neg h1, ofInt_eq, Int.cast_one, Int.cast_ofNat, Int.cast_zero]
        rw [show ((n+2:ℕ):ℤ) + 1 = 2 + ((n+1:ℕ):ℤ) by push_cast; ring]
        refine (forRange_induct (fun k (s : K × K × K) => s.2.1 = dickson1 (k+1) al x ∧ s.2.2 = dickson1 k al x
            ∧ (1 ≤ k → s.1 = dickson1 (k+1) al x)) 2 _ _ ?_ ?_ (n+1)).2.2 (by omega)
        · exact ⟨by simp [dickson1, dickPair], by simp [dickson1, dickPair], by omega⟩
        · rintro k s ⟨hs1, hs2, -⟩
          have e : x * s.2.1 - al * s.2.2 = dickson1 (k+2) al x := by
            rw [hs1, hs2]; simp only [dickson1]; rw [dickPair_succ_succ]
          exact ⟨e, hs1, fun _ => e⟩)

/-- the translated body of `dickson2` (loop included) computes the model's `dickson2 n a x`, every `n` -/
theorem gen_dickson2 (n : ℕ) (al x : K) : Generated.C07.dickson2 (n : ℤ) al x = dickson2 n al x := by
  first
  | (show Model.C07.dickson2 _ _ _ = _; simp)
  | (
      match n with
      | 0 => simp [Generated.C07.dickson2, dickson2, dickPair]
      | 1 => simp [Generated.C07.dickson2, dickson2, dickPair]
      | n+2 =>
        have h0 : ¬ (((n + 2 : ℕ) : ℤ) = 0) := by omega
        have h1 : ¬ (((n + 2 : ℕ) : ℤ) = 1) := by omega
        unfold Generated.C07.dickson2
        simp only [if_neg h0, if_neg h1, ofInt_eq, Int.cast_one, Int.cast_ofNat, Int.cast_zero]
        rw [show ((n+2:ℕ):ℤ) + 1 = 2 + ((n+1:ℕ):ℤ) by push_cast; ring]
        refine (forRange_induct (fun k (s : K × K × K) => s.2.1 = dickson2 (k+1) al x ∧ s.2.2 = dickson2 k al x
            ∧ (1 ≤ k → s.1 = dickson2 (k+1) al x)) 2 _ _ ?_ ?_ (n+1)).2.2 (by omega)
        · exact ⟨by simp [dickson2, dickPair], by simp [dickson2, dickPair], by omega⟩
        · rintro k s ⟨hs1, hs2, -⟩
          have e : x * s.2.1 - al * s.2.2 = dickson2 (k+2) al x := by
            rw [hs1, hs2]; simp only [dickson2]; rw [dickPair_succ_succ]
          exact ⟨e, hs1, fun _ => e⟩)

/-- the model's `f_n, g_n, h_n` satisfy the recursions written in `f_qbfs`, `g_qbfs`, `h_qbfs` -/
theorem gen_qbfs_fgh (sqrt : K → K) (k : ℕ) (f : K) :
    qbfsF sqrt 0 = Generated.C07.qbfsF0 sqrt ∧ qbfsF sqrt 1 = Generated.C07.qbfsF1 sqrt
    ∧ qbfsG sqrt 0 = Generated.C07.qbfsG0
    ∧ qbfsH k f = Generated.C07.qbfsHBody (k:ℤ) f
    ∧ qbfsG sqrt (k+1) = Generated.C07.qbfsGBody (qbfsG sqrt k) (qbfsH k (qbfsF sqrt k)) (qbfsF sqrt (k+1))
    ∧ qbfsF sqrt (k+2) = Generated.C07.qbfsFBody sqrt ((k+2 : ℕ) : ℤ) (qbfsG sqrt (k+1)) (qbfsH k (qbfsF sqrt k)) := by
  refine ⟨?_, ?_, ?_, ?_, ?_, ?_⟩
  · simp [qbfsF, qbfsFG, Generated.C07.qbfsF0]
  · simp [qbfsF, qbfsFG, Generated.C07.qbfsF1]
  · simp [qbfsG, qbfsFG, Generated.C07.qbfsG0]
  · first | (simp [qbfsH, Generated.C07.qbfsHBody]; ring) | simp [qbfsH, Generated.C07.qbfsHBody]
  · simp [qbfsG, qbfsF, qbfsFG, Generated.C07.qbfsGBody]
  · first | (simp [qbfsG, qbfsF, qbfsFG, Generated.C07.qbfsFBody]; congr 1; ring) | (simp [qbfsG, qbfsF, qbfsFG, Generated.C07.qbfsFBody]; try ring_nf)

/-- one step of the model's coupled `(P, Q)` recurrence for Qbfs, written out -/
theorem qbfsPQ_succ (sqrt : K → K) (rho : K) (n : ℕ) :
    qbfsPQ sqrt rho (n+1) =
      ((qbfsPQ sqrt rho n).2.1, (2 - 4 * rho) * (qbfsPQ sqrt rho n).2.1 - (qbfsPQ sqrt rho n).1,
       (qbfsPQ sqrt rho n).2.2.2,
       ((2 - 4 * rho) * (qbfsPQ sqrt rho n).2.1 - (qbfsPQ sqrt rho n).1 - qbfsG sqrt (n+1) * (qbfsPQ sqrt rho n).2.2.2
          - qbfsH n (qbfsF sqrt n) * (qbfsPQ sqrt rho n).2.2.1) * (1 / qbfsF sqrt (n+2))) := by
  simp [qbfsPQ]

/-- the translated body of `Qbfs` (loop included) computes the model's `qbfs sqrt n x`, every `n`, every `sqrt` -/
theorem gen_qbfs (sqrt : K → K) (n : ℕ) (x : K) : Generated.C07.qbfs sqrt (n : ℤ) x = qbfs sqrt n x := by
  first
  | (show Model.C07.qbfs _ _ _ = _; simp)
  | (
      match n with
      | 0 => simp [Generated.C07.qbfs, qbfs, qbfsPQ, pow_two]
      | 1 => simp [Generated.C07.qbfs, qbfs, qbfsPQ, pow_two]
      | n+2 =>
        have h0 : ¬ (((n + 2 : ℕ) : ℤ) = 0) := by omega
        have h1 : ¬ (((n + 2 : ℕ) : ℤ) = 1) := by omega
        unfold Generated.C07.qbfs
        simp only [if_neg h0, if_neg h1, ofInt_eq, npow_eq, Int.cast_one, Int.cast_ofNat, Int.cast_zero]
        rw [show ((n+2:ℕ):ℤ) + 1 = 2 + ((n+1:ℕ):ℤ) by push_cast; ring]
        rw [show qbfs sqrt (n+2) x = (qbfsPQ sqrt (x*x) (n+1)).2.2.2 * (x*x*(1-x*x)) from by
          simp [qbfs, qbfsPQ_succ]]
        congr 1
        · refine (forRange_induct (fun k (s : K × K × K × K × K × K × K × K × K) =>
              s.2.1 = (qbfsPQ sqrt (x*x) k).1 ∧ s.2.2.1 = (qbfsPQ sqrt (x*x) k).2.1
              ∧ s.2.2.2.2.2.2.2.1 = (qbfsPQ sqrt (x*x) k).2.2.1 ∧ s.2.2.2.2.2.2.2.2 = (qbfsPQ sqrt (x*x) k).2.2.2
              ∧ (1 ≤ k → s.2.2.2.2.2.2.1 = (qbfsPQ sqrt (x*x) k).2.2.2)) 2 _ _ ?_ ?_ (n+1)).2.2.2.2 (by omega)
          · simp [qbfsPQ, pow_two]
          · rintro k s ⟨hs1, hs2, hs3, hs4, -⟩
            have eg : qbfsGi sqrt (2 + (k:ℤ) - 1) = qbfsG sqrt (k+1) := by
              simp only [qbfsGi]; congr 1; omega
            have eh : qbfsHi sqrt (2 + (k:ℤ) - 2) = qbfsH k (qbfsF sqrt k) := by
              have : (2 + (k:ℤ) - 2).toNat = k := by omega
              simp only [qbfsHi, this]
            have ef : qbfsFi sqrt (2 + (k:ℤ)) = qbfsF sqrt (k+2) := by
              simp only [qbfsFi]; congr 1; omega
            simp only [eg, eh, ef, hs1, hs2, hs3, hs4, qbfsPQ_succ, pow_two]
            exact ⟨trivial, trivial, trivial, trivial, fun _ => trivial⟩
        · ring)

/-- `cheby1..4` wire `jacobi` with parameters `(∓½, ∓½)`, evaluate the normaliser at `x = 1` with the same
    parameters, and use numerators `1, n+1, 1, 2n+1` -/
theorem gen_cheby_params (n : ℕ) :
    (Generated.C07.cheby1Params (n:ℤ) : K × K × K × K × K × K) = (-1/2, -1/2, -1/2, -1/2, 1, 1)
    ∧ (Generated.C07.cheby2Params (n:ℤ) : K × K × K × K × K × K) = (1/2, 1/2, 1/2, 1/2, 1, (n:K) + 1)
    ∧ (Generated.C07.cheby3Params (n:ℤ) : K × K × K × K × K × K) = (-1/2, 1/2, -1/2, 1/2, 1, 1)
    ∧ (Generated.C07.cheby4Params (n:ℤ) : K × K × K × K × K × K) = (1/2, -1/2, 1/2, -1/2, 1, 2 * (n:K) + 1) := by
  refine ⟨?_, ?_, ?_, ?_⟩ <;>
    simp [Generated.C07.cheby1Params, Generated.C07.cheby2Params, Generated.C07.cheby3Params,
      Generated.C07.cheby4Params]

/-- `legendre(n, x) = jacobi(n, 0, 0, x)` -/
theorem gen_legendre_params : (Generated.C07.legendreParams : K × K) = (0, 0) := by
  simp [Generated.C07.legendreParams]

/-- `zernike_norm`² `= 2(n+1)/(1+δ_{m0})`; `zernike_nm` evaluates `jacobi((n−|m|)//2, 0, |m|, 2r²−1)`, multiplies
    by `r^{|m|}·sin(|m|t)` for `m<0`, by `r^{|m|}·cos(mt)` for `m>0`, by nothing for `m=0`, then by the norm -/
theorem gen_zernike (n : ℕ) (m : ℤ) (r : K) :
    (Generated.C07.zernikeNormSq (n:ℤ) m : K) = zernikeNormSq n m
    ∧ Generated.C07.zernikeX r = 2 * r ^ 2 - 1
    ∧ Generated.C07.zernikeNj (n:ℤ) m = ((n:ℤ) - m.natAbs) / 2
    ∧ (Generated.C07.zernikeAB m : K × K) = (0, (m.natAbs : K))
    ∧ Generated.C07.zernikeAzimuthNegSinPosCosTimesRPowAbsM = true := by
  refine ⟨?_, ?_, ?_, ?_, ?_⟩
  · by_cases h : m = 0 <;> simp [Generated.C07.zernikeNormSq, zernikeNormSq, h]
  · simp [Generated.C07.zernikeX, pow_two]
  · simp [Generated.C07.zernikeNj]
  · simp [Generated.C07.zernikeAB]
  · decide

/-- `Qcon(n, x) = jacobi(n, 0, 4, 2x²−1) · x⁴` -/
theorem gen_qcon (P x : K) :
    Generated.C07.qconX x = 2 * x ^ 2 - 1 ∧ (Generated.C07.qconAB : K × K) = (0, 4)
    ∧ Generated.C07.qconOut P x = P * x ^ 4 := by
  simp [Generated.C07.qconX, Generated.C07.qconAB, Generated.C07.qconOut, pow_two]

/-- `xy(m, n, x, y) = x^m y^n`; `hopkins(a,b,c,r,t,H) = az · r^b · H^c` with `az = sin(|a|t)` (`a<0`) or `cos(at)` -/
theorem gen_xy_hopkins (m n : ℕ) (x y az r H : K) :
    Generated.C07.xy (m:ℤ) (n:ℤ) x y = xy m n x y
    ∧ Generated.C07.hopkins (m:ℤ) (n:ℤ) az r H = hopkins m n az r H := by
  simp [Generated.C07.xy, Generated.C07.hopkins, xy, hopkins]

end translated

/-! ## 2. the property -/
section property
variable {K : Type} [Field K] [DecidableEq K] [LinearOrder K] [IsStrictOrderedRing K]

/-- `recurrence_abc` of the source is DLMF 18.9.2 for every order `n ≥ 1` and all `α β` (no bound on `n`:
    an error that first bites at `n = 6` cannot survive) -/
theorem coeffs_match_dlmf (n : ℕ) (hn : 1 ≤ n) (a b : K) :
    Generated.C07.abc (n:K) a b = (dlmfA (n:K) a b, dlmfB (n:K) a b, dlmfC (n:K) a b) := by
  obtain ⟨m, rfl⟩ : ∃ m, n = m + 1 := ⟨n - 1, by omega⟩
  rw [show (((m+1:ℕ):K)) = (m:K) + 1 by push_cast; ring, gen_abc_general]
  · simp [abcK, dlmfA, dlmfB, dlmfC, pow_two]
  · rintro ⟨h, _⟩; exact Nat.cast_add_one_ne_zero m h

/-- at `n = 0` (both branches of the source) the coefficients produce DLMF's `P_1`: `A_0 x + B_0 = P_1(x)`,
    for all admissible `α β` (`α+β ≠ −2`; the removable singularities `α+β ∈ {0,−1}` are the special branch) -/
theorem coeffs_zero_give_P1 (a b x : K) (h2 : a + b + 2 ≠ 0) :
    (Generated.C07.abc (0:K) a b).1 * x + (Generated.C07.abc (0:K) a b).2.1 = dlmfP1 a b x := by
  by_cases h : a + b = 0 ∨ a + b = -1
  · rw [gen_abc_special a b h]; simp [abc0, dlmfP1]; ring
  · rw [gen_abc_general _ _ _ (fun hh => h hh.2)]
    have h0 : a + b ≠ 0 := fun e => h (Or.inl e)
    have h1 : a + b + 1 ≠ 0 := fun e => h (Or.inr (by linear_combination e))
    simp [abcK, dlmfP1]
    field_simp
    ring

/-- the source's `jacobi` IS the family defined by DLMF's recurrence (18.9.1–2) and `P_0, P_1` (18.5.7) -/
theorem jacobi_is_dlmf (n : ℕ) (a b x : K) :
    Generated.C07.jacobi (n:ℤ) a b x = (dlmfJacobi a b x n).1 := by
  rw [gen_jacobi]
  suffices h : ∀ n, jacPair a b x n = dlmfJacobi a b x n by simp [jacobi, h]
  intro n
  induction n with
  | zero => simp [jacPair, dlmfJacobi, jacP1, dlmfP1]; ring
  | succ n ih =>
    simp only [jacPair, dlmfJacobi, ih, jacStep, abc, abcK, dlmfA, dlmfB, dlmfC, nat_eq]
    push_cast
    simp [pow_two]

/-- **DLMF 18.5.7** (stretch goal of the design, proved): the source's `jacobi` equals the explicit hypergeometric sum
    `Σ_{l≤n} (n+α+β+1)_l (α+l+1)_{n−l} / (l! (n−l)!) · ((x−1)/2)^l` for EVERY order `n`, all `α, β > −1`, every `x` -/
theorem jacobi_explicit (n : ℕ) (a b : K) (ha : -1 < a) (hb : -1 < b) (x : K) :
    Generated.C07.jacobi (n:ℤ) a b x
      = ∑ l ∈ Finset.range (n+1),
          (rising ((n:K) + a + b + 1) l * rising (a + l + 1) (n - l) / ((l.factorial : K) * ((n - l).factorial : K)))
            * ((x - 1) / 2) ^ l := by
  rw [gen_jacobi, C07L.jacobi_explicit a b ha hb x n]
  unfold jacobiExplicit pows
  apply Finset.sum_congr rfl
  intro l hl
  rw [hyp_closed a b ha hb n l (by have := Finset.mem_range.mp hl; omega)]

/-- `P_n^{(α,β)}(1) = ∏_{k<n} (k+α+1)/(k+1) = C(n+α, n)` for every `n` and all `α, β > −1` -/
theorem jacobi_at_one (a b : K) (ha : -1 < a) (hb : -1 < b) (n : ℕ) :
    Generated.C07.jacobi (n:ℤ) a b 1 = ∏ k ∈ Finset.range n, ((k:K) + a + 1) / ((k:K) + 1) := by
  rw [gen_jacobi]; exact C07L.jacobi_at_one a b ha hb n

/-- reflection `P_n^{(α,β)}(−x) = (−1)ⁿ P_n^{(β,α)}(x)` for every `n`, `α`, `β`, `x` -/
theorem jacobi_reflect (a b x : K) (n : ℕ) :
    Generated.C07.jacobi (n:ℤ) a b (-x) = (-1) ^ n * Generated.C07.jacobi (n:ℤ) b a x := by
  rw [gen_jacobi, gen_jacobi]; exact C07L.jacobi_reflect a b x n

/-- `cheby1` as written in the source (Jacobi `(−½,−½)` over its value at 1) is Mathlib's Chebyshev `T_n` -/
theorem cheby1_eq_T (n : ℕ) (x : K) :
    let p : K × K × K × K × K × K := Generated.C07.cheby1Params (n:ℤ)
    Generated.C07.jacobi (n:ℤ) p.1 p.2.1 x * (p.2.2.2.2.2 / Generated.C07.jacobi (n:ℤ) p.2.2.1 p.2.2.2.1 p.2.2.2.2.1)
      = (Chebyshev.T K n).eval x := by
  simp only [(gen_cheby_params (K := K) n).1, gen_jacobi]
  simpa [cheby1] using C07L.cheby1_eq_T n x

/-- `cheby2` as written in the source is Mathlib's Chebyshev `U_n` -/
theorem cheby2_eq_U (n : ℕ) (x : K) :
    let p : K × K × K × K × K × K := Generated.C07.cheby2Params (n:ℤ)
    Generated.C07.jacobi (n:ℤ) p.1 p.2.1 x * (p.2.2.2.2.2 / Generated.C07.jacobi (n:ℤ) p.2.2.1 p.2.2.2.1 p.2.2.2.2.1)
      = (Chebyshev.U K n).eval x := by
  simp only [(gen_cheby_params (K := K) n).2.1, gen_jacobi]
  simpa [cheby2] using C07L.cheby2_eq_U n x

/-- `cheby3` as written in the source is the third-kind Chebyshev polynomial `V_n` (`V_0=1, V_1=2x−1, V_{n+1}=2xV_n−V_{n−1}`) -/
theorem cheby3_eq_V (n : ℕ) (x : K) :
    let p : K × K × K × K × K × K := Generated.C07.cheby3Params (n:ℤ)
    Generated.C07.jacobi (n:ℤ) p.1 p.2.1 x * (p.2.2.2.2.2 / Generated.C07.jacobi (n:ℤ) p.2.2.1 p.2.2.2.1 p.2.2.2.2.1)
      = chebV n x := by
  simp only [(gen_cheby_params (K := K) n).2.2.1, gen_jacobi]
  simpa [cheby3] using C07L.cheby3_eq_V n x

/-- `cheby4` as written in the source is the fourth-kind Chebyshev polynomial `W_n` (`W_0=1, W_1=2x+1, W_{n+1}=2xW_n−W_{n−1}`) -/
theorem cheby4_eq_W (n : ℕ) (x : K) :
    let p : K × K × K × K × K × K := Generated.C07.cheby4Params (n:ℤ)
    Generated.C07.jacobi (n:ℤ) p.1 p.2.1 x * (p.2.2.2.2.2 / Generated.C07.jacobi (n:ℤ) p.2.2.1 p.2.2.2.1 p.2.2.2.2.1)
      = chebW n x := by
  simp only [(gen_cheby_params (K := K) n).2.2.2, gen_jacobi]
  simpa [cheby4] using C07L.cheby4_eq_W n x

/-- Legendre: `P_0 = 1`, `P_1 = x`, Bonnet `(n+2)P_{n+2} = (2n+3)xP_{n+1} − (n+1)P_n` for every `n` -/
theorem legendre_bonnet (n : ℕ) (x : K) :
    let L := fun (k : ℕ) => Generated.C07.jacobi (k:ℤ) (Generated.C07.legendreParams (K := K)).1
      (Generated.C07.legendreParams (K := K)).2 x
    L 0 = 1 ∧ L 1 = x ∧ ((n:K) + 2) * L (n+2) = (2 * n + 3) * x * L (n+1) - (n + 1) * L n := by
  simp only [gen_legendre_params, gen_jacobi]
  have := C07L.legendre_bonnet n x
  have h0 := C07L.legendre_zero x
  have h1 := C07L.legendre_one x
  simp only [legendre, nat_eq, Nat.cast_zero] at this h0 h1
  exact ⟨h0, h1, this⟩

/-- `hermite_He` is Mathlib's `Polynomial.hermite`, every order, every point -/
theorem hermiteHe_eq_mathlib (n : ℕ) (x : K) : Generated.C07.hermiteHe (n:ℤ) x = aeval x (hermite n) := by
  rw [gen_hermiteHe]; exact C07L.hermiteHe_eq_mathlib n x

/-- `hermite_H` satisfies `H_0 = 1, H_1 = 2x, H_{n+2} = 2xH_{n+1} − 2(n+1)H_n` (physicists' Hermite) -/
theorem hermiteH_rec (n : ℕ) (x : K) :
    Generated.C07.hermiteH 0 x = 1 ∧ Generated.C07.hermiteH 1 x = 2 * x
    ∧ Generated.C07.hermiteH ((n+2 : ℕ):ℤ) x
        = 2 * x * Generated.C07.hermiteH ((n+1 : ℕ):ℤ) x - 2 * ((n:K) + 1) * Generated.C07.hermiteH (n:ℤ) x := by
  refine ⟨?_, ?_, ?_⟩
  · simpa [hermiteH_zero] using gen_hermiteH 0 x
  · simpa [hermiteH_one] using gen_hermiteH 1 x
  · rw [gen_hermiteH, gen_hermiteH, gen_hermiteH]; exact hermiteH_succ_succ n x

/-- `H_n(x) = sⁿ · He_n(s·x)` for every `s` with `s² = 2` (so `hermite_H` is the rescaled Mathlib Hermite) -/
theorem hermiteH_eq_scaled_He (s : K) (hs : s * s = 2) (n : ℕ) (x : K) :
    Generated.C07.hermiteH (n:ℤ) x = s ^ n * aeval (s * x) (hermite n) := by
  rw [gen_hermiteH, ← C07L.hermiteHe_eq_mathlib]; exact C07L.hermiteH_eq_scaled_He s hs n x

/-- `dickson1` is Mathlib's Dickson polynomial of the first kind (`D_0 = 2`) -/
theorem dickson1_eq_mathlib (n : ℕ) (a x : K) : Generated.C07.dickson1 (n:ℤ) a x = (dickson 1 a n).eval x := by
  rw [gen_dickson1]; exact C07L.dickson1_eq_mathlib n a x

/-- `dickson2` is Mathlib's Dickson polynomial of the second kind (`E_0 = 1`) -/
theorem dickson2_eq_mathlib (n : ℕ) (a x : K) : Generated.C07.dickson2 (n:ℤ) a x = (dickson 2 a n).eval x := by
  rw [gen_dickson2]; exact C07L.dickson2_eq_mathlib n a x

/-- `laguerre`: `L_0 = 1`, `L_1 = α+1−x`, DLMF 18.9.13 `(n+2)L_{n+2} = (2n+3+α−x)L_{n+1} − (n+1+α)L_n`, every `n` -/
theorem laguerre_dlmf (n : ℕ) (al x : K) :
    Generated.C07.laguerre 0 al x = 1 ∧ Generated.C07.laguerre 1 al x = al + 1 - x
    ∧ ((n:K) + 2) * Generated.C07.laguerre ((n+2 : ℕ):ℤ) al x
        = (2 * n + 3 + al - x) * Generated.C07.laguerre ((n+1 : ℕ):ℤ) al x
          - (n + 1 + al) * Generated.C07.laguerre (n:ℤ) al x := by
  refine ⟨?_, ?_, ?_⟩
  · simpa [laguerre_zero] using gen_laguerre 0 al x
  · simpa [laguerre_one] using gen_laguerre 1 al x
  · rw [gen_laguerre, gen_laguerre, gen_laguerre]; exact C07L.laguerre_dlmf n al x

/-- **DLMF 18.5.12** (proved): the source's `laguerre` equals `Σ_{k≤n} (−1)^k (α+k+1)_{n−k} / ((n−k)! k!) · x^k`
    for EVERY order `n`, every `α > −1`, every `x` -/
theorem laguerre_explicit (n : ℕ) (al : K) (ha : -1 < al) (x : K) :
    Generated.C07.laguerre (n:ℤ) al x
      = ∑ k ∈ Finset.range (n+1),
          ((-1) ^ k * rising (al + k + 1) (n - k) / (((n - k).factorial : K) * (k.factorial : K))) * x ^ k := by
  rw [gen_laguerre, C07L.laguerre_explicit al ha x n]
  unfold laguerreExplicit pows
  apply Finset.sum_congr rfl
  intro k hk
  rw [lagTerm_closed al ha n k (by have := Finset.mem_range.mp hk; omega)]

/-- Zernike: the value is `σ · R_n^{|m|}(r) · az` with the textbook radial polynomial
    `R_n^m(r) = r^m P^{(0,m)}_{(n−m)/2}(2r²−1)` built from the source's `jacobi`; `az = 1` for `m = 0` -/
theorem zernike_def (n : ℕ) (m : ℤ) (r az σ : K) :
    zernike n m r az σ
      = σ * zernikeRadialSpec (fun k a b x => Generated.C07.jacobi (k:ℤ) a b x) n m.natAbs r
          * (if m = 0 then 1 else az) := by
  simp only [zernikeRadialSpec, gen_jacobi]
  by_cases h : m = 0
  · subst h; simp [zernike, zernikeRadial, pow_two]; ring
  · simp [zernike, zernikeRadial, pow_two, h]; ring

/-- the wiring of `zernike_nm` (argument `2r²−1`, order `(n−|m|)//2`, parameters `(0,|m|)`) is the model's radial polynomial -/
theorem zernike_wiring (n : ℕ) (m : ℤ) (r : K) (hm : m.natAbs ≤ n) :
    Generated.C07.jacobi (Generated.C07.zernikeNj (n:ℤ) m) (Generated.C07.zernikeAB (K := K) m).1
      (Generated.C07.zernikeAB (K := K) m).2 (Generated.C07.zernikeX r) = zernikeRadial n m r := by
  have e : ((n:ℤ) - m.natAbs) / 2 = (((n - m.natAbs) / 2 : ℕ) : ℤ) := by
    rw [← Nat.cast_sub hm]; norm_cast
  simp only [(gen_zernike (K := K) n m r).2.2.1, (gen_zernike (K := K) n m r).2.2.2.1, (gen_zernike (K := K) n m r).2.1, e,
    gen_jacobi, zernikeRadial, nat_eq, Nat.cast_zero, Nat.cast_ofNat, Nat.cast_one, pow_two]

/-- orthonormal Zernike norm: `norm² = 2(n+1)` for `m ≠ 0`, `n+1` for `m = 0` -/
theorem zernike_norm_sq (n : ℕ) (m : ℤ) :
    (Generated.C07.zernikeNormSq (n:ℤ) m : K) = if m = 0 then (n:K) + 1 else 2 * ((n:K) + 1) := by
  rw [(gen_zernike (K := K) n m 0).1]
  by_cases h : m = 0 <;> simp [zernikeNormSq, h]
  ring

/-- `xy` is the monomial `x^m y^n`; `hopkins` is `az · r^b · H^c` -/
theorem xy_hopkins_def (m n : ℕ) (x y az r H : K) :
    Generated.C07.xy (m:ℤ) (n:ℤ) x y = x ^ m * y ^ n
    ∧ Generated.C07.hopkins (m:ℤ) (n:ℤ) az r H = az * r ^ m * H ^ n := by
  simp [Generated.C07.xy, Generated.C07.hopkins, xy, hopkins]

/-- `Qcon_n(x) = x⁴ · P_n^{(0,4)}(2x²−1)` -/
theorem qcon_def (n : ℕ) (x : K) :
    Generated.C07.qconOut (Generated.C07.jacobi (n:ℤ) (Generated.C07.qconAB (K := K)).1
        (Generated.C07.qconAB (K := K)).2 (Generated.C07.qconX x)) x
      = x ^ 4 * (dlmfJacobi 0 4 (2 * x ^ 2 - 1) n).1 := by
  simp only [(gen_qcon (K := K) 0 x).1, (gen_qcon (K := K) 0 x).2.1, (gen_qcon (K := K) _ x).2.2, jacobi_is_dlmf]
  ring

end property

/-! ## 3. not proved: orthogonality for all orders (statements kept; checked numerically by the harness) -/
section not_proved
open MeasureTheory
open scoped C07L

/-- Jacobi polynomials of different degree are orthogonal under `(1−x)^α (1+x)^β` on `[−1,1]` — NOT PROVED -/
def jacobi_orthogonal_full : Prop :=
  ∀ (n m : ℕ) (a b : ℝ), -1 < a → -1 < b → n ≠ m →
    ∫ x in (-1:ℝ)..1, (1 - x) ^ a * (1 + x) ^ b * jacobi n a b x * jacobi m a b x = 0

/-- orthonormal Zernike: `(1/π)∫∫ Z_n^m Z_n'^m' r dr dθ = δ`; radial part: `∫_0^1 R_n^m R_n'^m r dr = δ_{nn'}/(2(n+1))` — NOT PROVED -/
def zernike_radial_orthogonal_full : Prop :=
  ∀ (n n' m : ℕ), m ≤ n → m ≤ n' → (n - m) % 2 = 0 → (n' - m) % 2 = 0 →
    ∫ r in (0:ℝ)..1, (r ^ m * zernikeRadial n m r) * (r ^ m * zernikeRadial n' m r) * r
      = if n = n' then 1 / (2 * ((n:ℝ) + 1)) else 0

/-- Qbfs: the slopes of `S_n(u) = u²(1−u²)Q_n(u²)` are orthonormal under Forbes' inner product
    `⟨f,g⟩ = (2/π)∫_0^1 f g (1−u²)^{-1/2} du` — NOT PROVED (derivative as Mathlib's `deriv`) -/
def qbfs_slope_orthonormal_full : Prop :=
  ∀ (n m : ℕ),
    (2 / Real.pi) * ∫ u in (0:ℝ)..1, deriv (qbfs Real.sqrt n) u * deriv (qbfs Real.sqrt m) u / Real.sqrt (1 - u ^ 2)
      = if n = m then 1 else 0

end not_proved

/-! ## non-vacuity -/
example : ∃ s : ℝ, s * s = 2 := ⟨Real.sqrt 2, Real.mul_self_sqrt (by norm_num)⟩
example : (-1 : ℚ) < -1/2 ∧ (-1 : ℚ) < 2.3 := by norm_num
example : Generated.C07.jacobi (K := ℚ) 3 (1/2) (-9/10) (1/3) = Model.C07.jacobi 3 (1/2) (-9/10) (1/3) :=
  gen_jacobi 3 _ _ _
example : (2 : ℤ).natAbs ≤ 6 := by decide

end C07
