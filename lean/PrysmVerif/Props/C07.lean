import PrysmVerif.Generated.C07
import PrysmVerif.Lemmas.C07Field
import PrysmVerif.Lemmas.C07Gen
import PrysmVerif.Lemmas.C07Spec
import PrysmVerif.Lemmas.C07Jacobi
import PrysmVerif.Lemmas.C07Hermite
import PrysmVerif.Lemmas.C07Explicit
import PrysmVerif.Lemmas.C07Q2d
import PrysmVerif.Lemmas.C07Ortho
import PrysmVerif.Lemmas.C07QbfsLow
import Mathlib.MeasureTheory.Integral.IntervalIntegral.Basic
import Mathlib.Analysis.SpecialFunctions.Pow.Real
import Mathlib.Analysis.SpecialFunctions.Sqrt
/-!
# C07 — polynomial bases equal their mathematical definitions (and are orthogonal: PARTIAL)

Layout.
1. *Translated obligations*: the Lean text generated from the current prysm source (`Generated.C07`: the
   whole bodies of `recurrence_abc`, `jacobi`, `hermite_He`, `hermite_H`, `laguerre`, `dickson1/2`, `Qbfs`, loops
   included, plus the argument wiring of the Chebyshev / Legendre / Zernike / Qcon / XY / Hopkins functions)
   computes the hand model, for every order and every argument.
2. *The property*: the functions so obtained are the textbook polynomials — DLMF coefficients for all `n`,
   value at 1, reflection, Chebyshev `T U V W` (Mathlib's `T`, `U`), Bonnet, Mathlib's `hermite` and `dickson`,
   DLMF's Laguerre recurrence, the Zernike / XY / Hopkins / Qcon definitions, and DLMF 18.5.7's explicit
   hypergeometric sum for Jacobi — for ALL orders and points.
   2D-Q (Forbes): `abc_q2d`, `gamma`, `F_q2d`, `G_q2d`, `f_q2d`, `g_q2d` and the whole body of `Q2d` are translated and proved equal
   to the hand model (a transcription of Forbes' appendix A) for every `n, m`.
3. *Orthogonality*: PROVED for all orders for the four Chebyshev families under their textbook weights
   (`cheby1..4_orthogonal`, `jacobi_orthogonal_chebyshev_params`: the instance `(α,β) ∈ {±½}²` of Jacobi orthogonality).
   NOT proved for general `(α,β)`, Zernike, Qbfs / 2D-Q slopes: the full statements are kept as `…_full : Prop`;
   the harness checks them numerically (Gauss quadrature), labelled as testing.

Scalars: any field `K` of characteristic zero (ordered where positivity of a denominator is needed); the
transcendental `sqrt` is a parameter.
-/
set_option linter.unusedTactic false
set_option linter.unreachableTactic false
set_option linter.unusedSectionVars false
set_option linter.unusedSimpArgs false
set_option linter.unusedVariables false

namespace C07
open Model.C07 C07L Polynomial

/-! ## 1. translated obligations -/
section translated
variable {K : Type} [Field K] [DecidableEq K] [CharZero K]

/-! (the proofs of the next nine live in `Lemmas/C07Gen.lean`, shared with `Props/C08.lean`) -/
/-- translated `recurrence_abc`, general branch, is the hand model's coefficient triple (all `n α β`) -/
theorem gen_abc_general (n a b : K) (h : ¬ (n = 0 ∧ (a + b = 0 ∨ a + b = -1))) :
    Generated.C07.abc n a b = abcK n a b := C07L.gen_abc_general n a b h

/-- translated `recurrence_abc`, `n = 0 ∧ α+β ∈ {0,−1}` branch, is the model's special triple -/
theorem gen_abc_special (a b : K) (h : a + b = 0 ∨ a + b = -1) :
    Generated.C07.abc 0 a b = abc0 a b := C07L.gen_abc_special a b h

/-- for every order `n+1 ≥ 1` the translated coefficients are the model's `abc (n+1)` -/
theorem gen_abc_nat (n : ℕ) (a b : K) : Generated.C07.abc ((n:K) + 1) a b = abc (n+1) a b := C07L.gen_abc_nat n a b

/-- the translated body of `jacobi` (loop included) computes the model's `jacobi n α β x`, every `n` -/
theorem gen_jacobi (n : ℕ) (a b x : K) : Generated.C07.jacobi (n : ℤ) a b x = jacobi n a b x := C07L.gen_jacobi n a b x

/-- the translated body of `hermite_He` (loop included) computes the model's `hermiteHe n x`, every `n` -/
theorem gen_hermiteHe (n : ℕ) (x : K) : Generated.C07.hermiteHe (n : ℤ) x = hermiteHe n x := C07L.gen_hermiteHe n x

/-- the translated body of `hermite_H` (loop included) computes the model's `hermiteH n x`, every `n` -/
theorem gen_hermiteH (n : ℕ) (x : K) : Generated.C07.hermiteH (n : ℤ) x = hermiteH n x := C07L.gen_hermiteH n x

/-- the translated body of `laguerre` (loop included) computes the model's `laguerre n α x`, every `n` -/
theorem gen_laguerre (n : ℕ) (al x : K) : Generated.C07.laguerre (n : ℤ) al x = laguerre n al x := C07L.gen_laguerre n al x

/-- the translated body of `dickson1` (loop included) computes the model's `dickson1 n a x`, every `n` -/
theorem gen_dickson1 (n : ℕ) (al x : K) : Generated.C07.dickson1 (n : ℤ) al x = dickson1 n al x := C07L.gen_dickson1 n al x

/-- the translated body of `dickson2` (loop included) computes the model's `dickson2 n a x`, every `n` -/
theorem gen_dickson2 (n : ℕ) (al x : K) : Generated.C07.dickson2 (n : ℤ) al x = dickson2 n al x := C07L.gen_dickson2 n al x

/-- **the weight the library reports for the Jacobi family** (`prysm.polynomials.jacobi.weight`) is `(1−x)^α (1+x)^β` — α on the
    factor `(1−x)`, β on `(1+x)` — for every `α, β, x` and any exponentiation function; this is the weight under which the
    orthogonality statements `jacobi_orthogonal_full` are made and the harness runs its Gauss-quadrature tests -/
theorem weight_def (rpow : K → K → K) (a b x : K) :
    Generated.C07.weight rpow a b x = rpow (1 - x) a * rpow (1 + x) b := by
  simp [Generated.C07.weight]

/-- the bodies of `f_qbfs`, `g_qbfs`, `h_qbfs` (index plumbing included; recursive calls read as the model's functions) return
    the model's `f_k`, `g_k`, `h_k` for every `k` -/
theorem gen_qbfs_fgh (sqrt : K → K) (k : ℕ) :
    Generated.C07.qbfsFBody sqrt (k:ℤ) = qbfsF sqrt k
    ∧ Generated.C07.qbfsGBody sqrt (k:ℤ) = qbfsG sqrt k
    ∧ Generated.C07.qbfsHBody sqrt (k:ℤ) = qbfsH k (qbfsF sqrt k) := by
  refine ⟨?_, ?_, ?_⟩
  · first
    | (show Model.C07.qbfsFi _ _ = _; simp [qbfsFi])
    | (match k with
       | 0 => simp [Generated.C07.qbfsFBody, qbfsF, qbfsFG]
       | 1 => simp [Generated.C07.qbfsFBody, qbfsF, qbfsFG]
       | k+2 =>
         have h0 : ¬ (((k + 2 : ℕ) : ℤ) = 0) := by omega
         have h1 : ¬ (((k + 2 : ℕ) : ℤ) = 1) := by omega
         have e1 : (((k + 2 : ℕ) : ℤ) - 1).toNat = k + 1 := by omega
         have e2 : (((k + 2 : ℕ) : ℤ) - 2).toNat = k := by omega
         simp only [Generated.C07.qbfsFBody, if_neg h0, if_neg h1, qbfsGi, qbfsHi, e1, e2, npow_eq, ofInt_eq]
         simp only [qbfsF, qbfsG, qbfsFG, nat_eq]
         congr 1
         push_cast
         ring)
  · first
    | (show Model.C07.qbfsGi _ _ = _; simp [qbfsGi])
    | (match k with
       | 0 => simp [Generated.C07.qbfsGBody, qbfsG, qbfsFG]
       | k+1 =>
         have h0 : ¬ (((k + 1 : ℕ) : ℤ) = 0) := by omega
         have e1 : (((k + 1 : ℕ) : ℤ) - 1).toNat = k := by omega
         have e2 : (((k + 1 : ℕ) : ℤ)).toNat = k + 1 := by omega
         simp only [Generated.C07.qbfsGBody, if_neg h0, qbfsGi, qbfsHi, qbfsFi, e1, e2, ofInt_eq]
         simp [qbfsF, qbfsG, qbfsFG])
  · first
    | (show Model.C07.qbfsHi _ _ = _; simp [qbfsHi])
    | (simp [Generated.C07.qbfsHBody, qbfsH, qbfsFi]; ring)

/-- one step of the model's coupled `(P, Q)` recurrence for Qbfs, written out -/
theorem qbfsPQ_succ (sqrt : K → K) (rho : K) (n : ℕ) :
    qbfsPQ sqrt rho (n+1) =
      ((qbfsPQ sqrt rho n).2.1, (2 - 4 * rho) * (qbfsPQ sqrt rho n).2.1 - (qbfsPQ sqrt rho n).1,
       (qbfsPQ sqrt rho n).2.2.2,
       ((2 - 4 * rho) * (qbfsPQ sqrt rho n).2.1 - (qbfsPQ sqrt rho n).1 - qbfsG sqrt (n+1) * (qbfsPQ sqrt rho n).2.2.2
          - qbfsH n (qbfsF sqrt n) * (qbfsPQ sqrt rho n).2.2.1) * (1 / qbfsF sqrt (n+2))) := C07L.qbfsPQ_step sqrt rho n

/-- the translated body of `Qbfs` (loop included) computes the model's `qbfs sqrt n x`, every `n`, every `sqrt` (proof in `Lemmas/C07Gen.lean`,
    shared with `Props/C08.lean`) -/
theorem gen_qbfs (sqrt : K → K) (n : ℕ) (x : K) : Generated.C07.qbfs sqrt (n : ℤ) x = qbfs sqrt n x := C07L.gen_qbfs sqrt n x

/-- `cheby1..4`, `legendre`, `Qcon` as written in the source (whole bodies, calling the translated `jacobi`) compute the model -/
theorem gen_cheby_legendre_qcon (n : ℕ) (x : K) :
    Generated.C07.cheby1 (n:ℤ) x = cheby1 n x ∧ Generated.C07.cheby2 (n:ℤ) x = cheby2 n x
    ∧ Generated.C07.cheby3 (n:ℤ) x = cheby3 n x ∧ Generated.C07.cheby4 (n:ℤ) x = cheby4 n x
    ∧ Generated.C07.legendre (n:ℤ) x = legendre n x ∧ Generated.C07.qcon (n:ℤ) x = qcon n x := by
  refine ⟨?_, ?_, ?_, ?_, ?_, ?_⟩ <;>
    simp [Generated.C07.cheby1, Generated.C07.cheby2, Generated.C07.cheby3, Generated.C07.cheby4, Generated.C07.legendre,
      Generated.C07.qcon, gen_jacobi, cheby1, cheby2, cheby3, cheby4, legendre, qcon, pow_two]

/-- `zernike_norm(n, m) = sqrt(2(n+1)/(1+δ_{m0}))` -/
theorem gen_zernike_norm (sqrt : K → K) (n : ℕ) (m : ℤ) :
    Generated.C07.zernikeNorm sqrt (n:ℤ) m = sqrt (zernikeNormSq n m) := by
  by_cases h : m = 0 <;> simp [Generated.C07.zernikeNorm, zernikeNormSq, kroneckerK, h]

/-- the whole body of `zernike_nm` (radial Jacobi call, `r^|m|`, `sin` for `m<0` / `cos` for `m>0`, optional norm; `sin`, `cos`,
    `sqrt` arbitrary functions) is the model's `zernike` with `az = sin(|m| t)` resp. `cos(|m| t)` and `σ = norm` or `1` -/
theorem gen_zernike_nm (sinf cosf sqrt : K → K) (n : ℕ) (m : ℤ) (r t : K) (norm : Bool) (hm : m.natAbs ≤ n) :
    Generated.C07.zernikeNm sinf cosf sqrt (n:ℤ) m r t norm
      = zernike n m r (if m < 0 then sinf ((m.natAbs : K) * t) else cosf ((m.natAbs : K) * t))
          (if norm = true then sqrt (zernikeNormSq n m) else 1) := by
  have eabs : (if m < 0 then -m else m) = (m.natAbs : ℤ) := by split <;> omega
  have enj : ((n:ℤ) - (m.natAbs : ℤ)) / 2 = (((n - m.natAbs) / 2 : ℕ) : ℤ) := by
    rw [← Nat.cast_sub hm]; norm_cast
  have hpos : ¬ m < 0 → ((m : ℤ) : K) = (m.natAbs : K) := by
    intro h; rw [Nat.cast_natAbs, abs_of_nonneg (by omega)]
  first
  | (show Model.C07.zernike _ _ _ _ _ = _
     by_cases h : m < 0 <;> cases norm <;> simp [h, hpos, gen_zernike_norm])
  | (unfold Generated.C07.zernikeNm
     simp only [eabs, enj, gen_jacobi, gen_zernike_norm, ofInt_eq, npow_eq, Int.toNat_natCast, Int.cast_natCast, Int.cast_zero,
       Int.cast_ofNat, Int.cast_one]
     by_cases h0 : m = 0
     · subst h0; cases norm <;> simp [zernike, zernikeRadial, pow_two]
     · by_cases h : m < 0 <;> cases norm <;> simp [zernike, zernikeRadial, pow_two, h0, h, hpos] <;> ring)

/-- `xy(m, n, x, y)` is the model's monomial (the separable-grid shortcut only reshapes) -/
theorem gen_xy (m n : ℕ) (x y : K) : Generated.C07.xy (m:ℤ) (n:ℤ) x y = xy m n x y := by
  simp [Generated.C07.xy, xy]

/-- the whole body of `hopkins`: `sin(|a| t)` for `a < 0`, `cos(a t)` otherwise, times `r^b H^c` -/
theorem gen_hopkins (sinf cosf : K → K) (a : ℤ) (b c : ℕ) (r t H : K) :
    Generated.C07.hopkins sinf cosf a (b:ℤ) (c:ℤ) r t H
      = hopkins b c (if a < 0 then sinf ((a.natAbs : K) * t) else cosf ((a : K) * t)) r H := by
  have eabs : (if a < 0 then -a else a) = (a.natAbs : ℤ) := by split <;> omega
  have hneg : a < 0 → ((a.natAbs : ℕ) : K) = -(a:K) := by
    intro h; rw [Nat.cast_natAbs, abs_of_neg h]; push_cast; ring
  by_cases h : a < 0
  · first
    | (simp [Generated.C07.hopkins, hopkins, h, hneg h, eabs, neg_mul]; done)
    | simp [Generated.C07.hopkins, h]
  · first
    | (simp [Generated.C07.hopkins, hopkins, h, eabs]; done)
    | simp [Generated.C07.hopkins, h]

/-! ### 2D-Q (Forbes 2012, appendix A); proofs in `Lemmas/C07Q2d.lean` -/

/-- translated `abc_q2d(n, m)` is the hand transcription of Forbes (A.3), every `n m` (read as scalars) -/
theorem gen_abc_q2d (n m : K) : Generated.C07.abcQ2d n m = q2dAbcK n m := C07L.gen_abc_q2d n m

/-- the body of `prysm.mathops.gamma` (recursive calls read as the model's function) returns the model's `γ_n^m` for every `n ≥ 1`, `m ≥ 2`
    (the arguments for which the Python recursion terminates) -/
theorem gen_q2d_gamma (n m : ℕ) (hn : 1 ≤ n) (hm : 2 ≤ m) : Generated.C07.gammaBody (K := K) (n:ℤ) (m:ℤ) = q2dGamma n m :=
  C07L.gen_q2d_gamma n m hn hm

/-- translated `G_q2d` (A.15) and `F_q2d` (A.13) — every branch, `factorial`, `factorial2`, `gamma` read as the model's functions —
    are the model's `G_n^m`, `F_n^m` for every `n` and every `m ≥ 1` -/
theorem gen_q2d_FG (n m : ℕ) (hm : 1 ≤ m) :
    Generated.C07.q2dGBody (K := K) (n:ℤ) (m:ℤ) = q2dG n m ∧ Generated.C07.q2dFBody (K := K) (n:ℤ) (m:ℤ) = q2dF n m :=
  ⟨C07L.gen_q2d_G n m hm, C07L.gen_q2d_F n m hm⟩

/-- the bodies of `g_q2d`, `f_q2d` (A.18; calls read as the model's functions) return the model's `g_n^m`, `f_n^m`, every `n m`, any `sqrt` -/
theorem gen_q2d_fg (sqrt : K → K) (n m : ℕ) :
    Generated.C07.q2dgBody sqrt (n:ℤ) (m:ℤ) = q2dg sqrt n m ∧ Generated.C07.q2dfBody sqrt (n:ℤ) (m:ℤ) = q2df sqrt n m :=
  C07L.gen_q2d_fg sqrt n m

/-- **the whole body of `Q2d`** (delegation to `Qbfs` for `m = 0`, `sin` for `m < 0` / `cos` for `m > 0` with `|m|`, the seeds `P_0, P_1`,
    the special `P_2, P_3, Q_2, Q_3` and the loop from 4 for `|m| = 1`, the loop from 2 otherwise, `abc_q2d(nn−1, m)`, `g_q2d(nn−1, m)`,
    `f_q2d(nn, m)`) computes the model's `q2d` for EVERY radial order `n`, EVERY azimuthal order `m`, all `r, t`, any `sin`, `cos`, `sqrt` -/
theorem gen_q2d (sinf cosf sqrt : K → K) (n : ℕ) (m : ℤ) (r t : K) :
    Generated.C07.q2d sinf cosf sqrt (n:ℤ) m r t
      = q2d sqrt n m r (if m < 0 then sinf ((m.natAbs:K) * t) else cosf ((m.natAbs:K) * t)) :=
  C07L.gen_q2d_aux sinf cosf sqrt (gen_qbfs sqrt) n m r t

/-- the `m = 1` correction of the 2D-Q sum in `compute_z_zprime_Q2d` (Forbes B.7), read off the source: under `m == 1 and N > 2` — i.e. as
    soon as `α_3` exists — `S −= 2/5·alphas[0][3]` and `S' −= 2/5·alphas[1][3]`, for the cosine and for the sine coefficients alike
    (rows: `m`, threshold, numerator, denominator, derivative index, `α` index) -/
theorem q2d_sum_m1_correction :
    Generated.C07.q2dSumM1Correction = [(1, 2, 2, 5, 0, 3), (1, 2, 2, 5, 1, 3), (1, 2, 2, 5, 0, 3), (1, 2, 2, 5, 1, 3)] := by decide
end translated

/-! ## 2. the property -/
section property
variable {K : Type} [Field K] [DecidableEq K] [LinearOrder K] [IsStrictOrderedRing K]

/-- `recurrence_abc` of the source is DLMF 18.9.2 for every order `n ≥ 1` and all `α β` (no bound on `n`:
    an error that first bites at `n = 6` cannot survive) -/
theorem coeffs_match_dlmf (n : ℕ) (hn : 1 ≤ n) (a b : K) :
    Generated.C07.abc (n:K) a b = (dlmfA (n:K) a b, dlmfB (n:K) a b, dlmfC (n:K) a b) := by
  obtain ⟨m, rfl⟩ : ∃ m, n = m + 1 := ⟨n - 1, by omega⟩
  rw [show (((m+1:ℕ):K)) = (m:K) + 1 by push_cast; ring, gen_abc_general]
  · simp [abcK, dlmfA, dlmfB, dlmfC, pow_two]
  · rintro ⟨h, _⟩; exact Nat.cast_add_one_ne_zero m h

/-- (not needed by the C07 families, which start the recurrence at `n = 1`; it is the branch Clenshaw summation — C10 — enters)
    at `n = 0` (both branches of the source) the coefficients produce DLMF's `P_1`: `A_0 x + B_0 = P_1(x)`,
    for all admissible `α β` (`α+β ≠ −2`; the removable singularities `α+β ∈ {0,−1}` are the special branch) -/
theorem coeffs_zero_give_P1 (a b x : K) (h2 : a + b + 2 ≠ 0) :
    (Generated.C07.abc (0:K) a b).1 * x + (Generated.C07.abc (0:K) a b).2.1 = dlmfP1 a b x := by
  by_cases h : a + b = 0 ∨ a + b = -1
  · rw [gen_abc_special a b h]; simp [abc0, dlmfP1]; ring
  · rw [gen_abc_general _ _ _ (fun hh => h hh.2)]
    have h0 : a + b ≠ 0 := fun e => h (Or.inl e)
    have h1 : a + b + 1 ≠ 0 := fun e => h (Or.inr (by linear_combination e))
    simp [abcK, dlmfP1]
    field_simp
    ring

/-- restatement: the source's `jacobi` is the recurrence family written with the DLMF transcription of `Lemmas/C07Spec.lean`
    (the independent content is `jacobi_explicit` below) -/
theorem jacobi_is_dlmf (n : ℕ) (a b x : K) :
    Generated.C07.jacobi (n:ℤ) a b x = (dlmfJacobi a b x n).1 := by
  rw [gen_jacobi]
  suffices h : ∀ n, jacPair a b x n = dlmfJacobi a b x n by simp [jacobi, h]
  intro n
  induction n with
  | zero => simp [jacPair, dlmfJacobi, jacP1, dlmfP1]; ring
  | succ n ih =>
    simp only [jacPair, dlmfJacobi, ih, jacStep, abc, abcK, dlmfA, dlmfB, dlmfC, nat_eq]
    push_cast
    simp [pow_two]

/-- **DLMF 18.5.7** (stretch goal of the design, proved): the source's `jacobi` equals the explicit hypergeometric sum
    `Σ_{l≤n} (n+α+β+1)_l (α+l+1)_{n−l} / (l! (n−l)!) · ((x−1)/2)^l` for EVERY order `n`, all `α, β > −1`, every `x` -/
theorem jacobi_explicit (n : ℕ) (a b : K) (ha : -1 < a) (hb : -1 < b) (x : K) :
    Generated.C07.jacobi (n:ℤ) a b x
      = ∑ l ∈ Finset.range (n+1),
          (rising ((n:K) + a + b + 1) l * rising (a + l + 1) (n - l) / ((l.factorial : K) * ((n - l).factorial : K)))
            * ((x - 1) / 2) ^ l := by
  rw [gen_jacobi, C07L.jacobi_explicit a b ha hb x n]
  unfold jacobiExplicit pows
  apply Finset.sum_congr rfl
  intro l hl
  rw [hyp_closed a b ha hb n l (by have := Finset.mem_range.mp hl; omega)]

/-- `P_n^{(α,β)}(1) = ∏_{k<n} (k+α+1)/(k+1) = C(n+α, n)` for every `n` and all `α, β > −1` -/
theorem jacobi_at_one (a b : K) (ha : -1 < a) (hb : -1 < b) (n : ℕ) :
    Generated.C07.jacobi (n:ℤ) a b 1 = ∏ k ∈ Finset.range n, ((k:K) + a + 1) / ((k:K) + 1) := by
  rw [gen_jacobi]; exact C07L.jacobi_at_one a b ha hb n

/-- reflection `P_n^{(α,β)}(−x) = (−1)ⁿ P_n^{(β,α)}(x)` for every `n`, `α`, `β`, `x` -/
theorem jacobi_reflect (a b x : K) (n : ℕ) :
    Generated.C07.jacobi (n:ℤ) a b (-x) = (-1) ^ n * Generated.C07.jacobi (n:ℤ) b a x := by
  rw [gen_jacobi, gen_jacobi]; exact C07L.jacobi_reflect a b x n

/-- `cheby1` as written in the source (Jacobi `(−½,−½)` over its value at 1) is Mathlib's Chebyshev `T_n`, every `n`, every `x` -/
theorem cheby1_eq_T (n : ℕ) (x : K) : Generated.C07.cheby1 (n:ℤ) x = (Chebyshev.T K n).eval x := by
  rw [(gen_cheby_legendre_qcon n x).1]; exact C07L.cheby1_eq_T n x

/-- `cheby2` as written in the source is Mathlib's Chebyshev `U_n` -/
theorem cheby2_eq_U (n : ℕ) (x : K) : Generated.C07.cheby2 (n:ℤ) x = (Chebyshev.U K n).eval x := by
  rw [(gen_cheby_legendre_qcon n x).2.1]; exact C07L.cheby2_eq_U n x

/-- `cheby3` as written in the source is the third-kind Chebyshev polynomial `V_n` (`V_0=1, V_1=2x−1, V_{n+1}=2xV_n−V_{n−1}`;
    own transcription of DLMF 18.9; the trigonometric definition is only tested) -/
theorem cheby3_eq_V (n : ℕ) (x : K) : Generated.C07.cheby3 (n:ℤ) x = chebV n x := by
  rw [(gen_cheby_legendre_qcon n x).2.2.1]; exact C07L.cheby3_eq_V n x

/-- `cheby4` as written in the source is the fourth-kind Chebyshev polynomial `W_n` (`W_0=1, W_1=2x+1, W_{n+1}=2xW_n−W_{n−1}`) -/
theorem cheby4_eq_W (n : ℕ) (x : K) : Generated.C07.cheby4 (n:ℤ) x = chebW n x := by
  rw [(gen_cheby_legendre_qcon n x).2.2.2.1]; exact C07L.cheby4_eq_W n x

/-- `legendre` as written in the source: `P_0 = 1`, `P_1 = x`, Bonnet `(n+2)P_{n+2} = (2n+3)xP_{n+1} − (n+1)P_n` for every `n` -/
theorem legendre_bonnet (n : ℕ) (x : K) :
    Generated.C07.legendre 0 x = 1 ∧ Generated.C07.legendre 1 x = x
    ∧ ((n:K) + 2) * Generated.C07.legendre ((n+2 : ℕ):ℤ) x
        = (2 * n + 3) * x * Generated.C07.legendre ((n+1 : ℕ):ℤ) x - (n + 1) * Generated.C07.legendre (n:ℤ) x := by
  have e := fun k => (gen_cheby_legendre_qcon (K := K) k x).2.2.2.2.1
  refine ⟨?_, ?_, ?_⟩
  · simpa [C07L.legendre_zero] using e 0
  · simpa [C07L.legendre_one] using e 1
  · rw [e, e, e]; exact C07L.legendre_bonnet n x

/-- `hermite_He` is Mathlib's `Polynomial.hermite`, every order, every point -/
theorem hermiteHe_eq_mathlib (n : ℕ) (x : K) : Generated.C07.hermiteHe (n:ℤ) x = aeval x (hermite n) := by
  rw [gen_hermiteHe]; exact C07L.hermiteHe_eq_mathlib n x

/-- `hermite_H` satisfies `H_0 = 1, H_1 = 2x, H_{n+2} = 2xH_{n+1} − 2(n+1)H_n` (physicists' Hermite) -/
theorem hermiteH_rec (n : ℕ) (x : K) :
    Generated.C07.hermiteH 0 x = 1 ∧ Generated.C07.hermiteH 1 x = 2 * x
    ∧ Generated.C07.hermiteH ((n+2 : ℕ):ℤ) x
        = 2 * x * Generated.C07.hermiteH ((n+1 : ℕ):ℤ) x - 2 * ((n:K) + 1) * Generated.C07.hermiteH (n:ℤ) x := by
  refine ⟨?_, ?_, ?_⟩
  · simpa [hermiteH_zero] using gen_hermiteH 0 x
  · simpa [hermiteH_one] using gen_hermiteH 1 x
  · rw [gen_hermiteH, gen_hermiteH, gen_hermiteH]; exact hermiteH_succ_succ n x

/-- `H_n(x) = sⁿ · He_n(s·x)` for every `s` with `s² = 2` (so `hermite_H` is the rescaled Mathlib Hermite) -/
theorem hermiteH_eq_scaled_He (s : K) (hs : s * s = 2) (n : ℕ) (x : K) :
    Generated.C07.hermiteH (n:ℤ) x = s ^ n * aeval (s * x) (hermite n) := by
  rw [gen_hermiteH, ← C07L.hermiteHe_eq_mathlib]; exact C07L.hermiteH_eq_scaled_He s hs n x

/-- `dickson1` is Mathlib's Dickson polynomial of the first kind (`D_0 = 2`) -/
theorem dickson1_eq_mathlib (n : ℕ) (a x : K) : Generated.C07.dickson1 (n:ℤ) a x = (dickson 1 a n).eval x := by
  rw [gen_dickson1]; exact C07L.dickson1_eq_mathlib n a x

/-- `dickson2` is Mathlib's Dickson polynomial of the second kind (`E_0 = 1`) -/
theorem dickson2_eq_mathlib (n : ℕ) (a x : K) : Generated.C07.dickson2 (n:ℤ) a x = (dickson 2 a n).eval x := by
  rw [gen_dickson2]; exact C07L.dickson2_eq_mathlib n a x

/-- `laguerre`: `L_0 = 1`, `L_1 = α+1−x`, DLMF 18.9.13 `(n+2)L_{n+2} = (2n+3+α−x)L_{n+1} − (n+1+α)L_n`, every `n` -/
theorem laguerre_dlmf (n : ℕ) (al x : K) :
    Generated.C07.laguerre 0 al x = 1 ∧ Generated.C07.laguerre 1 al x = al + 1 - x
    ∧ ((n:K) + 2) * Generated.C07.laguerre ((n+2 : ℕ):ℤ) al x
        = (2 * n + 3 + al - x) * Generated.C07.laguerre ((n+1 : ℕ):ℤ) al x
          - (n + 1 + al) * Generated.C07.laguerre (n:ℤ) al x := by
  refine ⟨?_, ?_, ?_⟩
  · simpa [laguerre_zero] using gen_laguerre 0 al x
  · simpa [laguerre_one] using gen_laguerre 1 al x
  · rw [gen_laguerre, gen_laguerre, gen_laguerre]; exact C07L.laguerre_dlmf n al x

/-- **DLMF 18.5.12** (proved): the source's `laguerre` equals `Σ_{k≤n} (−1)^k (α+k+1)_{n−k} / ((n−k)! k!) · x^k`
    for EVERY order `n`, every `α > −1`, every `x` -/
theorem laguerre_explicit (n : ℕ) (al : K) (ha : -1 < al) (x : K) :
    Generated.C07.laguerre (n:ℤ) al x
      = ∑ k ∈ Finset.range (n+1),
          ((-1) ^ k * rising (al + k + 1) (n - k) / (((n - k).factorial : K) * (k.factorial : K))) * x ^ k := by
  rw [gen_laguerre, C07L.laguerre_explicit al ha x n]
  unfold laguerreExplicit pows
  apply Finset.sum_congr rfl
  intro k hk
  rw [lagTerm_closed al ha n k (by have := Finset.mem_range.mp hk; omega)]

/-- **Zernike, on the source text**: `zernike_nm(n, m, r, t, norm)` is `σ · R_n^{|m|}(r) · az` with the textbook radial polynomial
    `R_n^m(r) = r^m P^{(0,m)}_{(n−m)/2}(2r²−1)` (built from the source's `jacobi`), `az = sin(|m|t)` for `m<0`, `cos(|m|t)` for `m>0`,
    `1` for `m=0`, `σ = sqrt(zernike_norm²)` or `1` — for every `|m| ≤ n`, every `r, t`, and ANY functions `sin`, `cos`, `sqrt` -/
theorem zernike_def (sinf cosf sqrt : K → K) (n : ℕ) (m : ℤ) (r t : K) (norm : Bool) (hm : m.natAbs ≤ n) :
    Generated.C07.zernikeNm sinf cosf sqrt (n:ℤ) m r t norm
      = (if norm = true then sqrt (zernikeNormSq n m) else 1)
          * zernikeRadialSpec (fun k a b x => Generated.C07.jacobi (k:ℤ) a b x) n m.natAbs r
          * (if m = 0 then 1 else if m < 0 then sinf ((m.natAbs : K) * t) else cosf ((m.natAbs : K) * t)) := by
  rw [gen_zernike_nm sinf cosf sqrt n m r t norm hm]
  simp only [zernikeRadialSpec, gen_jacobi]
  by_cases h : m = 0
  · subst h; simp [zernike, zernikeRadial, pow_two]; ring
  · by_cases h' : m < 0 <;> simp [zernike, zernikeRadial, pow_two, h, h'] <;> ring

/-- orthonormal Zernike norm: `zernike_norm(n, m)² = n+1` for `m = 0`, `2(n+1)` otherwise (for any `sqrt` with `sqrt(y)² = y`) -/
theorem zernike_norm_sq (sqrt : K → K) (hs : ∀ y, sqrt y * sqrt y = y) (n : ℕ) (m : ℤ) :
    Generated.C07.zernikeNorm sqrt (n:ℤ) m * Generated.C07.zernikeNorm sqrt (n:ℤ) m
      = if m = 0 then (n:K) + 1 else 2 * ((n:K) + 1) := by
  rw [gen_zernike_norm, hs]
  by_cases h : m = 0 <;> simp [zernikeNormSq, h]
  ring

/-- `xy` is the monomial `x^m y^n`; `hopkins(a,b,c,r,t,H) = az · r^b · H^c` with `az = sin(|a|t)` for `a<0`, `cos(at)` otherwise -/
theorem xy_hopkins_def (sinf cosf : K → K) (a : ℤ) (m n : ℕ) (x y r t H : K) :
    Generated.C07.xy (m:ℤ) (n:ℤ) x y = x ^ m * y ^ n
    ∧ Generated.C07.hopkins sinf cosf a (m:ℤ) (n:ℤ) r t H
        = (if a < 0 then sinf ((a.natAbs : K) * t) else cosf ((a : K) * t)) * r ^ m * H ^ n := by
  rw [gen_xy, gen_hopkins]; simp [xy, hopkins]

/-- `Qcon_n(x) = x⁴ · P_n^{(0,4)}(2x²−1)` on the source text -/
theorem qcon_def (n : ℕ) (x : K) : Generated.C07.qcon (n:ℤ) x = x ^ 4 * (dlmfJacobi 0 4 (2 * x ^ 2 - 1) n).1 := by
  rw [(gen_cheby_legendre_qcon n x).2.2.2.2.2, ← jacobi_is_dlmf, gen_jacobi]
  simp [qcon, pow_two]; ring


/-- **2D-Q on the source text**: `Q2d(n, 0, r, t) = Qbfs(n, r)`; for `m ≠ 0`, `Q2d(n, m, r, t) = Q_n^{|m|}(r²) · r^{|m|} · az` with
    `az = cos(|m| t)` for `m > 0`, `sin(|m| t)` for `m < 0`, where `Q_n^m` is Forbes' radial polynomial of the model
    (`Q_0 = 1/(2f_0)`, `Q_n = (P_n − g_{n−1} Q_{n−1}) / f_n`) — every `n`, every `m`, all `r, t`, any `sin`, `cos`, `sqrt` -/
theorem q2d_def (sinf cosf sqrt : K → K) (n : ℕ) (m : ℤ) (r t : K) :
    Generated.C07.q2d sinf cosf sqrt (n:ℤ) m r t
      = if m = 0 then Generated.C07.qbfs sqrt (n:ℤ) r
        else q2dRadial sqrt n m.natAbs (r ^ 2) * r ^ m.natAbs
              * (if m < 0 then sinf ((m.natAbs:K) * t) else cosf ((m.natAbs:K) * t)) := by
  rw [gen_q2d]
  by_cases h : m = 0
  · subst h; simp [q2d, gen_qbfs]
  · simp [q2d, h, pow_two, mul_assoc]

/-- Forbes (A.18) read backwards: for any `sqrt` with `sqrt(y)² = y`, the model's `f, g` satisfy the Cholesky relations
    `f_0² = F_0`, `f_{n+1}² + g_n² = F_{n+1}`, and `f_n g_n = G_n` wherever `f_n ≠ 0` — for every `n`, `m` -/
theorem q2d_cholesky_relations (sqrt : K → K) (hs : ∀ y, sqrt y * sqrt y = y) (n m : ℕ) :
    q2df sqrt 0 m * q2df sqrt 0 m = q2dF 0 m
    ∧ q2df sqrt (n+1) m * q2df sqrt (n+1) m + q2dg sqrt n m * q2dg sqrt n m = q2dF (n+1) m
    ∧ (q2df sqrt n m ≠ 0 → q2df sqrt n m * q2dg sqrt n m = q2dG n m) := by
  refine ⟨?_, ?_, ?_⟩
  · rw [C07L.q2df_zero, hs]
  · rw [C07L.q2df_succ, hs]; ring
  · intro hf; rw [C07L.q2dg_eq]; field_simp

end property

/-- **Forbes' closed forms, LOW ORDERS ONLY (`n = 0, 1, 2`; a bounded statement, labelled as such)**: the source's `Qbfs` with the real square
    root is `u²(1−u²)·Q_n(u²)` with `Q_0 = 1`, `Q_1 = (13 − 16x)/√19`, `Q_2 = √(2/95)·(29 − 4x(25 − 19x))` (Forbes 2007, eq. 2.8) for every `u` -/
theorem qbfs_closed_forms_low_orders (u : ℝ) :
    Generated.C07.qbfs Real.sqrt 0 u = u ^ 2 * (1 - u ^ 2)
    ∧ Generated.C07.qbfs Real.sqrt 1 u = u ^ 2 * (1 - u ^ 2) * ((13 - 16 * u ^ 2) / Real.sqrt 19)
    ∧ Generated.C07.qbfs Real.sqrt 2 u = u ^ 2 * (1 - u ^ 2) * (Real.sqrt (2 / 95) * (29 - 4 * u ^ 2 * (25 - 19 * u ^ 2))) := by
  have h := C07L.qbfs_closed_low u
  have e0 := gen_qbfs Real.sqrt 0 u
  have e1 := gen_qbfs Real.sqrt 1 u
  have e2 := gen_qbfs Real.sqrt 2 u
  norm_cast at e0 e1 e2
  rw [e0, e1, e2]
  exact h

/-! ## 2b. orthogonality PROVED for all orders: the four Chebyshev families (`Lemmas/C07Ortho.lean`) -/
section chebyshev_orthogonality
open MeasureTheory

/-- `cheby1` of the source is orthogonal under `(1−x²)^{-1/2}` on `[−1,1]`: `∫ T_n T_m w = 0` (`n ≠ m`), `π` (`n = m = 0`),
    `π/2` (`n = m ≥ 1`) — ALL orders -/
theorem cheby1_orthogonal (n m : ℕ) :
    ∫ x in (-1:ℝ)..1, Generated.C07.cheby1 (n:ℤ) x * Generated.C07.cheby1 (m:ℤ) x * (Real.sqrt (1 - x ^ 2))⁻¹
      = if n = m then (if n = 0 then Real.pi else Real.pi / 2) else 0 := by
  simp only [cheby1_eq_T]; exact C07L.chebT_orthogonal n m

/-- `cheby2` of the source is orthogonal under `(1−x²)^{1/2}`: `∫ U_n U_m w = (π/2) δ_{nm}` — ALL orders -/
theorem cheby2_orthogonal (n m : ℕ) :
    ∫ x in (-1:ℝ)..1, Generated.C07.cheby2 (n:ℤ) x * Generated.C07.cheby2 (m:ℤ) x * Real.sqrt (1 - x ^ 2)
      = if n = m then Real.pi / 2 else 0 := by
  simp only [cheby2_eq_U]; exact C07L.chebU_orthogonal n m

/-- `cheby3` of the source is orthogonal under `((1+x)/(1−x))^{1/2} = (1+x)(1−x²)^{-1/2}`: `∫ V_n V_m w = π δ_{nm}` — ALL orders -/
theorem cheby3_orthogonal (n m : ℕ) :
    ∫ x in (-1:ℝ)..1, Generated.C07.cheby3 (n:ℤ) x * Generated.C07.cheby3 (m:ℤ) x * ((1 + x) * (Real.sqrt (1 - x ^ 2))⁻¹)
      = if n = m then Real.pi else 0 := by
  simp only [cheby3_eq_V]; exact C07L.chebV_orthogonal n m

/-- `cheby4` of the source is orthogonal under `((1−x)/(1+x))^{1/2} = (1−x)(1−x²)^{-1/2}`: `∫ W_n W_m w = π δ_{nm}` — ALL orders -/
theorem cheby4_orthogonal (n m : ℕ) :
    ∫ x in (-1:ℝ)..1, Generated.C07.cheby4 (n:ℤ) x * Generated.C07.cheby4 (m:ℤ) x * ((1 - x) * (Real.sqrt (1 - x ^ 2))⁻¹)
      = if n = m then Real.pi else 0 := by
  simp only [cheby4_eq_W]; exact C07L.chebW_orthogonal n m

/-- **PARTIAL result towards `jacobi_orthogonal_full`** (clearly: only the four parameter pairs `(α, β) ∈ {±½}²`, but ALL orders): the
    source's `jacobi` polynomials of different degree are orthogonal under the weight the library reports
    (`prysm.polynomials.jacobi.weight`, real powers) -/
theorem jacobi_orthogonal_chebyshev_params (n m : ℕ) (hnm : n ≠ m) (a b : ℝ)
    (ha : a = 1 / 2 ∨ a = -1 / 2) (hb : b = 1 / 2 ∨ b = -1 / 2) :
    ∫ x in (-1:ℝ)..1, Generated.C07.weight (fun u v => u ^ v) a b x * Generated.C07.jacobi (n:ℤ) a b x * Generated.C07.jacobi (m:ℤ) a b x
      = 0 := by
  simp only [weight_def, gen_jacobi]
  exact C07L.jacobi_orthogonal_half n m hnm a b ha hb

end chebyshev_orthogonality

/-! ## 3. not proved: orthogonality for all orders (statements kept; checked numerically by the harness) -/
section not_proved
open MeasureTheory
open scoped C07L

/-- Jacobi polynomials of different degree are orthogonal under `(1−x)^α (1+x)^β` on `[−1,1]` — NOT PROVED in general
    (proved for `(α, β) ∈ {±½}²`: `jacobi_orthogonal_chebyshev_params`) -/
def jacobi_orthogonal_full : Prop :=
  ∀ (n m : ℕ) (a b : ℝ), -1 < a → -1 < b → n ≠ m →
    ∫ x in (-1:ℝ)..1, Generated.C07.weight (fun u v => u ^ v) a b x * jacobi n a b x * jacobi m a b x = 0

/-- orthonormal Zernike: `(1/π)∫∫ Z_n^m Z_n'^m' r dr dθ = δ`; radial part: `∫_0^1 R_n^m R_n'^m r dr = δ_{nn'}/(2(n+1))` — NOT PROVED -/
def zernike_radial_orthogonal_full : Prop :=
  ∀ (n n' m : ℕ), m ≤ n → m ≤ n' → (n - m) % 2 = 0 → (n' - m) % 2 = 0 →
    ∫ r in (0:ℝ)..1, (r ^ m * zernikeRadial n m r) * (r ^ m * zernikeRadial n' m r) * r
      = if n = n' then 1 / (2 * ((n:ℝ) + 1)) else 0

/-- Qbfs: the slopes of `S_n(u) = u²(1−u²)Q_n(u²)` are orthonormal under Forbes' inner product
    `⟨f,g⟩ = (2/π)∫_0^1 f g (1−u²)^{-1/2} du` — NOT PROVED (derivative as Mathlib's `deriv`) -/
def qbfs_slope_orthonormal_full : Prop :=
  ∀ (n m : ℕ),
    (2 / Real.pi) * ∫ u in (0:ℝ)..1, deriv (qbfs Real.sqrt n) u * deriv (qbfs Real.sqrt m) u / Real.sqrt (1 - u ^ 2)
      = if n = m then 1 else 0

end not_proved

/-- the cosine half and the sine half of `compute_z_zprime_Q2d` are the same code up to `a ↔ b` (read off the source: the
    `if Na >= 0:` block with every identifier renamed is the `if Nb >= 0:` block — in particular the guard of the `m == 1`
    correction `−2/5·alphas[·][3]` is the same expression in both) -/
theorem q2d_sum_branches_symmetric : Generated.C07.q2dSumBranchesSymmetric = true := by decide

/-- read off the source of every `prysm/polynomials/*.py`: no `id(…)`, no `is` between two non-constant expressions, no `global`, and no
    function stores anything that depends on its parameters into state that outlives the call (module-level container, function attribute,
    mutable default) except as a table entry whose key mentions, by value, every parameter the entry depends on — so the value of a
    polynomial cannot depend on WHICH array object carried the coordinates or on what that object held during an earlier call -/
theorem polynomials_keep_no_state_between_calls : Generated.C07.polynomialsKeepNoStateBetweenCalls = true := by decide

/-! ## non-vacuity -/
example : Generated.C07.weight (fun u v : ℝ => u ^ v) 0 4 (1/2) = (1 - 1/2) ^ (0:ℝ) * (1 + 1/2) ^ (4:ℝ) := by
  rw [C07.weight_def]
example : ∃ s : ℝ, s * s = 2 := ⟨Real.sqrt 2, Real.mul_self_sqrt (by norm_num)⟩
example : (-1 : ℚ) < -1/2 ∧ (-1 : ℚ) < 2.3 := by norm_num
example : Generated.C07.jacobi (K := ℚ) 3 (1/2) (-9/10) (1/3) = Model.C07.jacobi 3 (1/2) (-9/10) (1/3) :=
  gen_jacobi 3 _ _ _
example : (2 : ℤ).natAbs ≤ 6 := by decide
example : ∀ y : ℝ, 0 ≤ y → Real.sqrt y * Real.sqrt y = y := fun y hy => Real.mul_self_sqrt hy
example : ((1:ℝ) / 2 = 1 / 2 ∨ (1:ℝ) / 2 = -1 / 2) ∧ (3 : ℕ) ≠ 5 := ⟨Or.inl rfl, by decide⟩

end C07
