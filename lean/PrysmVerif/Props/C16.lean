import PrysmVerif.Generated.C16
import PrysmVerif.Lemmas.C16Expose
import PrysmVerif.Lemmas.C16BinL
import PrysmVerif.Lemmas.C16Safe
import PrysmVerif.Lemmas.C16Malvar
import Mathlib.Data.Rat.Floor
/-!
# C16 — sensor model: DN stay in range; binning and mosaicking conserve signal

`Detector.expose` with the random draws replaced by their means, pixel by pixel, over any linearly
ordered field with a floor function (`ℚ`, `ℝ`): the ADC ceiling, the clip / gain / clip order and the
container width are regenerated from the source on every run.  Binning and tiling for every number of
axes, every shape and every per-axis factor.  Bayer tables (slices, plane ↔ site assignments, Malvar
sources and kernels) regenerated from the source; the theorems about them are finite case analyses
lifted to every sample position by parity.
-/
set_option linter.unusedTactic false
set_option linter.unreachableTactic false
set_option linter.unusedSectionVars false
set_option linter.unusedVariables false
set_option linter.unusedSimpArgs false

namespace C16
open Generated.C16 Model.C16 C16L Finset

/-! ## translated obligations -/

/-- the ADC ceiling is the largest code of a `bits`-bit converter, `2^bits − 1` -/
theorem gen_adc_cap (bits : Int) : Generated.C16.adcCap bits = 2 ^ bits.toNat - 1 := by
  simp only [Generated.C16.adcCap, Model.C16.adcCap]

/-- container widths 8 / 16 / 32 by bit depth -/
theorem gen_cast_bits (bits : Int) : Generated.C16.castBits bits = Model.C16.castBits bits := rfl

/-- the analogue chain of `Detector.expose` (signal + dark, PRNU, bias, full-well clip, gain, clip at 0,
clip at the ADC ceiling) is the modelled one, for every ordered field and every input (up to commuting
a sum or a product) -/
theorem gen_expose_chain {K : Type} [Field K] [LinearOrder K] [IsStrictOrderedRing K]
    (img t dc dcnu prnu bias fwc gain : K) (bits : Int) :
    Generated.C16.exposePre img t dc dcnu prnu bias fwc gain bits
      = Model.C16.exposePreCap (Generated.C16.adcCap bits) img t dc dcnu prnu bias fwc gain := by
  first
    | rfl
    | (simp only [Generated.C16.exposePre, Model.C16.exposePre, Model.C16.exposePreCap, clipAbove, clipBelow0,
        Generated.C16.adcCap, Model.C16.adcCap, Num.ofInt, Int.cast_one, Int.cast_zero, add_zero, zero_add, div_eq_mul_inv, one_div, one_mul, mul_one,
        mul_comm, mul_left_comm, add_comm, add_left_comm]; done)

/-- hence the generated chain is the model's -/
theorem gen_expose {K : Type} [Field K] [LinearOrder K] [IsStrictOrderedRing K]
    (img t dc dcnu prnu bias fwc gain : K) (bits : Int) :
    Generated.C16.exposePre img t dc dcnu prnu bias fwc gain bits = Model.C16.exposePre img t dc dcnu prnu bias fwc gain bits := by
  rw [gen_expose_chain, gen_adc_cap]; rfl

/-- RECOGNISER FACT (no Lean content; the shape is checked on the real output in every correspondence case): the result is
reshaped to `(frames, *image.shape)` and squeezed only for a single frame; every flatten / reshape is in C order (pixel k of
the flat vector is pixel k of the result, whatever the memory layout of the input) -/
theorem gen_expose_shape : exposeShapeIsFramesByImage = true ∧ exposeFlattensInCOrder = true := by decide

/-- `bindown`: output length `s // f`, view of shape `(s0//f0, f0, s1//f1, f1, …)`, reduction over the
odd axes, `mean` for avg / `sum` for sum -/
theorem gen_bin (s f ndim : Int) :
    Generated.C16.binOutLen s f = Model.C16.binOutLen s f ∧ binReduceAxes ndim = (1, 2 * ndim, 2) ∧
    binViewInterleavesOutAndFactor = true ∧ binModesAreMeanAndSum = true := ⟨rfl, rfl, by decide, by decide⟩

/-- `tile`: output length `s·f`, broadcast view of shape `(s0, f0, s1, f1, …)`, scale `1/Πf` (sum) or 1 (avg) -/
theorem gen_tile {K : Type} [Num K] (s f : Int) (pf : K) :
    Generated.C16.tileOutLen s f = Model.C16.tileOutLen s f ∧ tileScaleSum pf = Num.ofInt 1 / pf ∧
    (tileScaleAvg : K) = Num.ofInt 1 ∧ tileViewBroadcastsOverFactor = true := ⟨rfl, rfl, rfl, by decide⟩

/-- the four colour-site slices and every plane / site / gain / source table of `bayer.py` (the `wb_postscale` gain
of each channel included); `deinterlaceAveragesGreens` is a recogniser fact -/
theorem gen_bayer :
    Generated.C16.siteSlices = Model.C16.siteSlices ∧ Generated.C16.decompSite = Model.C16.decompSite ∧
    Generated.C16.recompPlane = Model.C16.recompPlane ∧ Generated.C16.compositePlane = Model.C16.recompPlane ∧
    Generated.C16.prescaleGain = Model.C16.prescaleGain ∧ Generated.C16.malvarSrc = Model.C16.malvarSrc ∧
    deinterlaceAveragesGreens = true ∧ Generated.C16.postscaleGain = Model.C16.postscaleGain := by
  refine ⟨?_, ?_, ?_, ?_, ?_, ?_, by decide, by funext ch; cases ch <;> rfl⟩
  · funext s; cases s <;> rfl
  · funext c p; cases c <;> cases p <;> rfl
  · funext c s; cases c <;> cases s <;> rfl
  · funext c s; cases c <;> cases s <;> rfl
  · funext c s; cases c <;> cases s <;> rfl
  · funext c ch s; cases c <;> cases ch <;> cases s <;> rfl

/-- the Malvar kernels and their normalisation are the modelled rational tables -/
theorem gen_kernels :
    Generated.C16.kernelGAtRB = Model.C16.kernelGAtRB ∧ Generated.C16.kernelRAtGInRB = Model.C16.kernelRAtGInRB ∧
    Generated.C16.kernelRAtGInBR = Model.C16.kernelRAtGInBR ∧ Generated.C16.kernelRAtBInBB = Model.C16.kernelRAtBInBB ∧
    Generated.C16.malvarDivisor = Model.C16.malvarDivisor ∧ Generated.C16.srcKernel = Model.C16.srcKernel := by
  refine ⟨by decide +kernel, by decide +kernel, by decide +kernel, by decide +kernel, by decide +kernel, ?_⟩
  funext s; cases s <;> simp only [Generated.C16.srcKernel, Model.C16.srcKernel] <;> decide +kernel

/-- safe white-balance limiting: from a ratio `r ≥ 1` the loop step moves to `max r (mx / sat)` (running maximum,
however the comparison is written).  RECOGNISER FACTS (values written by the translator's pattern matcher): every colour
plane is inspected (4 mosaic planes before demosaicking, 3 channels after) against its own saturation entry, and every
gain is divided by the ratio -/
theorem gen_wb_safe {K : Type} [Field K] [LinearOrder K] [IsStrictOrderedRing K] :
    IsMaxStep (wbPreSafeStep : K → K → K → K) ∧ IsMaxStep (wbPostSafeStep : K → K → K → K) ∧
    wbPreSafePlanes = 4 ∧ wbPostSafePlanes = 3 ∧ wbPreSafeDividesEveryGain = true ∧ wbPostSafeDividesEveryGain = true ∧
    wbPreSafeSaturationPerPlane = true ∧ wbPostSafeSaturationPerPlane = true := by
  refine ⟨?_, ?_, by decide, by decide, by decide, by decide, by decide, by decide⟩ <;>
  · intro r mx sat hr
    simp only [wbPreSafeStep, wbPostSafeStep, Model.C16.safeStep, Num.ofInt, Int.cast_one, max_def]
    grind

/-! ## exposure -/
section expose
variable {K : Type} [Field K] [LinearOrder K] [IsStrictOrderedRing K] [FloorRing K]

/-- DN of one pixel with the generated chain: unsigned cast of the floor of the analogue value -/
def dn (img t dc dcnu prnu bias fwc gain : K) (bits : Int) : Int :=
  castU (Generated.C16.castBits bits) ⌊Generated.C16.exposePre img t dc dcnu prnu bias fwc gain bits⌋

/-- `dn` over the generated chain is the executable model's `expose` (the function the driver runs on doubles) -/
theorem dn_eq_model (img t dc dcnu prnu bias fwc gain : K) (bits : Int) :
    dn img t dc dcnu prnu bias fwc gain bits = Model.C16.expose (fun x : K => ⌊x⌋) img t dc dcnu prnu bias fwc gain bits := by
  unfold dn Model.C16.expose
  rw [gen_expose, gen_cast_bits]

/-- DN lie in `[0, 2^bits − 1]` for every bit depth 1…32 and EVERY input of the noise-free chain (any image value
however far above full well or ADC range, any gain, bias, full-well capacity, non-uniformity).  The unsigned cast is
modelled as `⌊x⌋ mod 2^w` (assumption); with the real RNG negative or NaN rates are rejected by `np.random.poisson`. -/
theorem dn_in_range (bits : Int) (h1 : 1 ≤ bits) (h32 : bits ≤ 32) (img t dc dcnu prnu bias fwc gain : K) :
    0 ≤ dn img t dc dcnu prnu bias fwc gain bits ∧ dn img t dc dcnu prnu bias fwc gain bits ≤ 2 ^ bits.toNat - 1 := by
  unfold dn
  rw [gen_expose, gen_cast_bits]
  obtain ⟨h0, hc⟩ := floor_exposePre_range img t dc dcnu prnu bias fwc gain bits
  rw [castU_id bits h1 h32 _ h0 hc]
  exact ⟨h0, hc⟩

/-- a brighter pixel never reads darker: DN is non-decreasing in the incident signal, through and
beyond saturation (exposure time and PRNU non-negative, gain positive) -/
theorem dn_monotone (bits : Int) (h1 : 1 ≤ bits) (h32 : bits ≤ 32) (t dc dcnu prnu bias fwc gain : K)
    (ht : 0 ≤ t) (hp : 0 ≤ prnu) (hg : 0 < gain) {img₁ img₂ : K} (h : img₁ ≤ img₂) :
    dn img₁ t dc dcnu prnu bias fwc gain bits ≤ dn img₂ t dc dcnu prnu bias fwc gain bits := by
  unfold dn
  simp only [gen_expose, gen_cast_bits]
  obtain ⟨a0, ac⟩ := floor_exposePre_range img₁ t dc dcnu prnu bias fwc gain bits
  obtain ⟨b0, bc⟩ := floor_exposePre_range img₂ t dc dcnu prnu bias fwc gain bits
  rw [castU_id bits h1 h32 _ a0 ac, castU_id bits h1 h32 _ b0 bc]
  exact Int.floor_mono (exposePre_mono t dc dcnu prnu bias fwc gain bits ht hp hg h)

/-- with the noise sources off the DN is the clipped, gain-scaled signal, floor-quantised -/
theorem dn_noiseless_formula (bits : Int) (h1 : 1 ≤ bits) (h32 : bits ≤ 32) (img t dc dcnu prnu bias fwc gain : K) :
    dn img t dc dcnu prnu bias fwc gain bits
      = ⌊min (max (min ((img * t + dc * t * dcnu) * prnu + bias) fwc / gain) 0) (((2 ^ bits.toNat - 1 : Int)) : K)⌋ := by
  unfold dn
  rw [gen_expose, gen_cast_bits]
  obtain ⟨h0, hc⟩ := floor_exposePre_range img t dc dcnu prnu bias fwc gain bits
  rw [castU_id bits h1 h32 _ h0 hc, exposePre_eq]; rfl

/-- saturated pixels read full scale `2^bits − 1` (never 0) -/
theorem dn_saturates (bits : Int) (h1 : 1 ≤ bits) (h32 : bits ≤ 32) (img t dc dcnu prnu bias fwc gain : K)
    (hs : (((2 ^ bits.toNat - 1 : Int)) : K) ≤ min ((img * t + dc * t * dcnu) * prnu + bias) fwc / gain) :
    dn img t dc dcnu prnu bias fwc gain bits = 2 ^ bits.toNat - 1 := by
  rw [dn_noiseless_formula bits h1 h32]
  have hc : (0 : K) ≤ (((2 ^ bits.toNat - 1 : Int)) : K) := by exact_mod_cast adcCap_nonneg bits
  rw [min_eq_right (le_max_of_le_left hs), Int.floor_intCast]

end expose

/-! ## binning and tiling (every number of axes, every shape, every factor list)

Stated over `Model.C16.totL / binL / tileL`: the functions that `binND` / `tileND`, i.e. the code the driver executes
and the correspondence compares with `bindown` / `tile`, read through the row-major index maps
(`binND_is_binL`).  Shapes are lists of axis lengths: `os` the binned shape, `fs` the factors, `os ⊙ fs` the full shape.
The scale factors are the generated `tileScaleSum`, `tileScaleAvg`. -/
section bin
variable {K : Type} [Field K]

/-- the reshape in `bindown` is valid and `tile` restores the length: `(s // f)·f = s` when `f ∣ s` -/
theorem bin_tile_lengths (s f : Int) (hf : 0 < f) (hd : f ∣ s) :
    Generated.C16.binOutLen s f * f = s ∧ Generated.C16.tileOutLen (Generated.C16.binOutLen s f) f = s := by
  obtain ⟨k, rfl⟩ := hd
  simp only [Generated.C16.binOutLen, Generated.C16.tileOutLen, Model.C16.binOutLen, Model.C16.tileOutLen]
  have : Int.fdiv (f * k) f = k := by
    rw [Int.fdiv_eq_ediv_of_nonneg _ hf.le, Int.mul_ediv_cancel_left _ hf.ne']
  rw [this]; constructor <;> ring

/-- the reduction axes of `bindown` are exactly the factor axes `2a+1` of the interleaved view -/
theorem bin_reduce_axes (ndim p : Int) (hn : 0 ≤ ndim) :
    ((binReduceAxes ndim).1 ≤ p ∧ p < (binReduceAxes ndim).2.1 ∧ (p - (binReduceAxes ndim).1) % (binReduceAxes ndim).2.2 = 0)
      ↔ ∃ a, 0 ≤ a ∧ a < ndim ∧ p = 2 * a + 1 := by
  simp only [binReduceAxes]
  constructor
  · rintro ⟨h1, h2, h3⟩; exact ⟨(p - 1) / 2, by omega, by omega, by omega⟩
  · rintro ⟨a, h1, h2, rfl⟩; omega

/-- the block index maps of the model are mutually inverse: `(i, j) ↦ i·f + j` is a bijection onto `[0, s·f)` -/
theorem bin_block_bijection (s f i j k : ℕ) (hi : i < s) (hj : j < f) (hk : k < s * f) :
    binSrc f i j < s * f ∧ tileSrc f (binSrc f i j) = i ∧ binSrc f i j % f = j ∧
    tileSrc f k < s ∧ binSrc f (tileSrc f k) (k % f) = k := by
  have hf : 0 < f := by omega
  refine ⟨?_, ?_, ?_, ?_, ?_⟩
  · simp only [binSrc]
    calc i * f + j < i * f + f := by omega
      _ = (i + 1) * f := by ring
      _ ≤ s * f := Nat.mul_le_mul_right f hi
  · simp only [binSrc, tileSrc]; rw [Nat.add_comm, Nat.add_mul_div_right _ _ hf, Nat.div_eq_of_lt hj, Nat.zero_add]
  · simp only [binSrc]; rw [Nat.add_comm, Nat.add_mul_mod_self_right, Nat.mod_eq_of_lt hj]
  · simp only [tileSrc]; exact Nat.div_lt_of_lt_mul (by rwa [Nat.mul_comm] at hk)
  · simp only [binSrc, tileSrc]; exact Nat.div_add_mod' _ _

/-- **bridge**: what the driver computes (`binND`, `tileND` on flat row-major arrays) is `binL` / `tileL` read through
`ravel` / `unravel`, divided by `Πf` in average mode / multiplied by `1/Πf` with sum scaling -/
theorem binND_is_binL [Inhabited K] (shape f : List ℕ) (x : Array K) (t : ℕ) :
    (∀ ht : t < (binND shape f x false).size,
      (binND shape f x false)[t] = binL f (fun k => x[ravel shape k]!) (unravel (List.zipWith (· / ·) shape f) t)) ∧
    (∀ ht : t < (binND shape f x true).size,
      (binND shape f x true)[t]
        = binL f (fun k => x[ravel shape k]!) (unravel (List.zipWith (· / ·) shape f) t) / (blockSize f : K)) ∧
    (∀ ht : t < (tileND shape f x false).size,
      (tileND shape f x false)[t] = tileL f (fun i => x[ravel shape i]!) (unravel (List.zipWith (· * ·) shape f) t)) ∧
    (∀ ht : t < (tileND shape f x true).size,
      (tileND shape f x true)[t]
        = tileL f (fun i => x[ravel shape i]!) (unravel (List.zipWith (· * ·) shape f) t) * (1 / (blockSize f : K))) :=
  ⟨binND_get shape f x t, binND_avg_get shape f x t, tileND_get shape f x t, tileND_sum_get shape f x t⟩

theorem tileScaleSum_eq (pf : K) : (tileScaleSum pf : K) = 1 / pf := by
  simp only [tileScaleSum, Num.ofInt, Int.cast_one]

theorem tileScaleAvg_eq : (tileScaleAvg : K) = 1 := by
  simp only [tileScaleAvg, Num.ofInt, Int.cast_one]

/-- binning in sum mode conserves the total -/
theorem bin_sum_conserves (os fs : List ℕ) (hl : os.length = fs.length) (x : List ℕ → K) :
    totL os (binL fs x) = totL (List.zipWith (· * ·) os fs) x := totL_binL os fs hl x

/-- binning in average mode conserves the level -/
theorem bin_avg_level (fs : List ℕ) (hne : (blockSize fs : K) ≠ 0) (c : K) (i : List ℕ) (hi : i.length = fs.length) :
    binL fs (fun _ => c) i / (blockSize fs : K) = c := by
  rw [binL_const fs c i hi]; field_simp

/-- tiling with sum scaling (the generated factor `1/Πf`) conserves the total -/
theorem tile_sum_conserves (os fs : List ℕ) (hl : os.length = fs.length) (hne : (blockSize fs : K) ≠ 0) (y : List ℕ → K) :
    totL (List.zipWith (· * ·) os fs) (fun k => tileL fs y k * tileScaleSum (blockSize fs : K)) = totL os y := by
  have h : (fun k => tileL fs y k * tileScaleSum (blockSize fs : K)) = fun k => (1 / (blockSize fs : K)) * tileL fs y k := by
    funext k; rw [tileScaleSum_eq]; ring
  rw [h, totL_mul_left, totL_tileL os fs hl]; field_simp

/-- tiling with average scaling (the generated factor 1) conserves the level: it copies -/
theorem tile_avg_level (fs : List ℕ) (c : K) (k : List ℕ) : tileL fs (fun _ => c) k * (tileScaleAvg : K) = c := by
  rw [tileScaleAvg_eq, mul_one]; rfl

/-- `bindown(avg)` and `tile(sum)` are adjoint; so are `bindown(sum)` and `tile(avg)` -/
theorem bin_tile_adjoint (os fs : List ℕ) (hl : os.length = fs.length) (x y : List ℕ → K) :
    (totL os (fun i => y i * (binL fs x i / (blockSize fs : K)))
      = totL (List.zipWith (· * ·) os fs) (fun k => (tileL fs y k * tileScaleSum (blockSize fs : K)) * x k)) ∧
    (totL os (fun i => y i * binL fs x i)
      = totL (List.zipWith (· * ·) os fs) (fun k => (tileL fs y k * (tileScaleAvg : K)) * x k)) := by
  constructor
  · have h1 : (fun i => y i * (binL fs x i / (blockSize fs : K))) = fun i => (1 / (blockSize fs : K)) * (y i * binL fs x i) := by
      funext i; ring
    have h2 : (fun k => (tileL fs y k * tileScaleSum (blockSize fs : K)) * x k)
        = fun k => (1 / (blockSize fs : K)) * (tileL fs y k * x k) := by
      funext k; rw [tileScaleSum_eq]; ring
    rw [h1, h2, totL_mul_left, totL_mul_left, adjoint_sum_avg os fs hl]
  · simp only [tileScaleAvg_eq, mul_one]; exact adjoint_sum_avg os fs hl x y

/-- binning undoes tiling in the matching mode -/
theorem bin_of_tile (fs : List ℕ) (hne : (blockSize fs : K) ≠ 0) (y : List ℕ → K) (i : List ℕ) (hi : i.length = fs.length) :
    binL fs (tileL fs y) i / (blockSize fs : K) = y i ∧
    binL fs (fun k => tileL fs y k * tileScaleSum (blockSize fs : K)) i = y i := by
  constructor
  · rw [binL_tileL fs y i hi]; field_simp
  · have h := binL_tile_mul fs y (fun _ => tileScaleSum (blockSize fs : K)) i hi
    rw [h, binL_const fs _ i hi, tileScaleSum_eq]; field_simp

end bin

/-! ## Bayer mosaics -/
section bayer

/-- rewrite every generated table to the model's (translated obligations `gen_bayer`, `gen_kernels`) -/
local macro "to_model" : tactic =>
  `(tactic| simp only [gen_bayer.1, gen_bayer.2.1, gen_bayer.2.2.1, gen_bayer.2.2.2.1, gen_bayer.2.2.2.2.1,
      gen_bayer.2.2.2.2.2.1, gen_kernels.1, gen_kernels.2.1, gen_kernels.2.2.1, gen_kernels.2.2.2.1,
      gen_kernels.2.2.2.2.1, gen_kernels.2.2.2.2.2] at *)

theorem mem_even (k : ℕ) : (Slc.mk 0 2).mem k = true ↔ k % 2 = 0 := by
  simp [Slc.mem]

theorem mem_odd (k : ℕ) : (Slc.mk 1 2).mem k = true ↔ k % 2 = 1 := by
  simp only [Slc.mem, Bool.and_eq_true, decide_eq_true_eq, beq_iff_eq]; omega

/-- membership of a sample in a generated colour-site slice pair -/
def inSite (s : Site) (R C : ℕ) : Prop :=
  (Generated.C16.siteSlices s).1.mem R = true ∧ (Generated.C16.siteSlices s).2.mem C = true

/-- the four colour-site slices partition the samples: every `(R, C)` lies in exactly one of them -/
theorem bayer_partition (R C : ℕ) : ∃! s : Site, inSite s R C := by
  unfold inSite
  to_model
  have hR : R % 2 = 0 ∨ R % 2 = 1 := by omega
  have hC : C % 2 = 0 ∨ C % 2 = 1 := by omega
  rcases hR with hR | hR <;> rcases hC with hC | hC
  · refine ⟨.tl, ⟨(mem_even R).2 hR, (mem_even C).2 hC⟩, ?_⟩
    rintro s ⟨h1, h2⟩; cases s <;> simp only [Model.C16.siteSlices, mem_even, mem_odd] at h1 h2 <;> first | rfl | omega
  · refine ⟨.tr, ⟨(mem_even R).2 hR, (mem_odd C).2 hC⟩, ?_⟩
    rintro s ⟨h1, h2⟩; cases s <;> simp only [Model.C16.siteSlices, mem_even, mem_odd] at h1 h2 <;> first | rfl | omega
  · refine ⟨.bl, ⟨(mem_odd R).2 hR, (mem_even C).2 hC⟩, ?_⟩
    rintro s ⟨h1, h2⟩; cases s <;> simp only [Model.C16.siteSlices, mem_even, mem_odd] at h1 h2 <;> first | rfl | omega
  · refine ⟨.br, ⟨(mem_odd R).2 hR, (mem_odd C).2 hC⟩, ?_⟩
    rintro s ⟨h1, h2⟩; cases s <;> simp only [Model.C16.siteSlices, mem_even, mem_odd] at h1 h2 <;> first | rfl | omega

/-- the site of a sample by parity -/
def siteOfParity (R C : ℕ) : Site :=
  if R % 2 = 0 then (if C % 2 = 0 then .tl else .tr) else (if C % 2 = 0 then .bl else .br)

theorem siteAt_eq (R C : ℕ) : siteAt Generated.C16.siteSlices R C = some (siteOfParity R C) := by
  to_model
  have hR : R % 2 = 0 ∨ R % 2 = 1 := by omega
  have hC : C % 2 = 0 ∨ C % 2 = 1 := by omega
  have e0 : ∀ k, (Slc.mk 0 2).mem k = decide (k % 2 = 0) := fun k => by
    rw [Bool.eq_iff_iff, mem_even]; simp
  have e1 : ∀ k, (Slc.mk 1 2).mem k = decide (k % 2 = 1) := fun k => by
    rw [Bool.eq_iff_iff, mem_odd]; simp
  rcases hR with hR | hR <;> rcases hC with hC | hC <;>
    simp [siteAt, Site.all, Model.C16.siteSlices, siteOfParity, e0, e1, hR, hC, List.find?]

theorem idx_pos_site (R C : ℕ) :
    (Generated.C16.siteSlices (siteOfParity R C)).1.idx ((Generated.C16.siteSlices (siteOfParity R C)).1.pos R) = R ∧
    (Generated.C16.siteSlices (siteOfParity R C)).2.idx ((Generated.C16.siteSlices (siteOfParity R C)).2.pos C) = C := by
  to_model
  have hR : R % 2 = 0 ∨ R % 2 = 1 := by omega
  have hC : C % 2 = 0 ∨ C % 2 = 1 := by omega
  rcases hR with hR | hR <;> rcases hC with hC | hC <;>
    simp only [siteOfParity, hR, hC, Model.C16.siteSlices, Slc.idx, Slc.pos, if_true, if_false,
      Nat.one_ne_zero, reduceCtorEq] <;> omega

/-- the plane ↔ site tables of decomposition and recomposition are mutually inverse, both layouts -/
theorem bayer_tables_inverse (cfa : Cfa) :
    (∀ p, Generated.C16.recompPlane cfa (Generated.C16.decompSite cfa p) = p) ∧
    (∀ s, Generated.C16.decompSite cfa (Generated.C16.recompPlane cfa s) = s) ∧
    (∀ s, Generated.C16.compositePlane cfa s = Generated.C16.recompPlane cfa s) := by
  to_model
  refine ⟨fun p => ?_, fun s => ?_, ?_⟩
  · cases cfa <;> cases p <;> rfl
  · cases cfa <;> cases s <;> rfl
  · first | trivial | (intro _; trivial) | (intro s; rfl)

/-- `recomposite_bayer (decomposite_bayer img) = img`, sample for sample, both layouts -/
theorem recomposite_decomposite {α : Type} (cfa : Cfa) (img : ℕ → ℕ → α) (R C : ℕ) :
    recomposite Generated.C16.siteSlices (Generated.C16.recompPlane cfa)
      (decomposite Generated.C16.siteSlices (Generated.C16.decompSite cfa) img) R C = some (img R C) := by
  simp only [recomposite, siteAt_eq, Option.map_some, decomposite, (bayer_tables_inverse cfa).2.1,
    (idx_pos_site R C).1, (idx_pos_site R C).2]

/-- `decomposite_bayer (recomposite_bayer planes) = planes`: every plane sample comes back from the
mosaic position it was written to, both layouts -/
theorem decomposite_recomposite {α : Type} (cfa : Cfa) (planes : Plane → ℕ → ℕ → α) (p : Plane) (i j : ℕ) :
    recomposite Generated.C16.siteSlices (Generated.C16.recompPlane cfa) planes
      ((Generated.C16.siteSlices (Generated.C16.decompSite cfa p)).1.idx i)
      ((Generated.C16.siteSlices (Generated.C16.decompSite cfa p)).2.idx j) = some (planes p i j) := by
  have hsite := fun R C => siteAt_eq R C
  to_model
  cases cfa <;> cases p <;>
    simp [recomposite, hsite, siteOfParity, Model.C16.decompSite, Model.C16.recompPlane,
      Model.C16.siteSlices, Slc.idx, Slc.pos, Nat.mul_add_mod, Nat.add_mul_mod_self_left] <;> omega

/-- `composite_bayer` takes each sample from the plane of its own colour, at the same position -/
theorem composite_native {α : Type} (cfa : Cfa) (planes : Plane → ℕ → ℕ → α) (R C : ℕ) :
    composite Generated.C16.siteSlices (Generated.C16.compositePlane cfa) planes R C
      = some (planes (Generated.C16.recompPlane cfa (siteOfParity R C)) R C) := by
  simp only [composite, siteAt_eq, Option.map_some, (bayer_tables_inverse cfa).2.2]

/-- white-balance prescaling applies to each site the gain of the colour that lives there -/
theorem prescale_gain_native (cfa : Cfa) (p : Plane) :
    Generated.C16.prescaleGain cfa (Generated.C16.decompSite cfa p) = p.gain := by
  to_model
  cases cfa <;> cases p <;> rfl

/-- Malvar demosaicking copies the raw sample at the native colour site of each channel, both layouts -/
theorem malvar_native_sites (cfa : Cfa) (p : Plane) :
    Generated.C16.malvarSrc cfa p.chan (Generated.C16.decompSite cfa p) = Src.img := by
  to_model
  cases cfa <;> cases p <;> rfl

/-- …hence the demosaicked image returns every raw sample unchanged in the channel of its colour -/
theorem malvar_returns_raw (cfa : Cfa) (m n : ℕ) (img : ℕ → ℕ → Rat) (R C : ℕ) :
    malvar Generated.C16.siteSlices (Generated.C16.malvarSrc cfa) m n img
      (Generated.C16.recompPlane cfa (siteOfParity R C)).chan R C = img R C := by
  have h := malvar_native_sites cfa (Generated.C16.recompPlane cfa (siteOfParity R C))
  rw [(bayer_tables_inverse cfa).2.1] at h
  simp only [malvar, siteAt_eq, h, Model.C16.srcKernel]

/-- every Malvar kernel, divided by the generated normalisation, sums to 1 -/
theorem malvar_kernels_unit_sum (src : Src) (k : List (List Rat)) (h : Generated.C16.srcKernel src = some k) :
    kernelSum k / Generated.C16.malvarDivisor = 1 := by
  to_model
  cases src <;> simp only [Model.C16.srcKernel, Option.some.injEq, reduceCtorEq] at h <;> subst h <;> decide +kernel

/-- every Malvar kernel is point-symmetric (so convolution and correlation coincide) and 5 × 5 -/
theorem malvar_kernels_symmetric (src : Src) (k : List (List Rat)) (h : Generated.C16.srcKernel src = some k) :
    k.length = 5 ∧ (∀ row ∈ k, row.length = 5) ∧
    ∀ a ∈ List.range 5, ∀ b ∈ List.range 5, kernelAt k a b = kernelAt k (4 - a) (4 - b) := by
  to_model
  cases src <;> simp only [Model.C16.srcKernel, Option.some.injEq, reduceCtorEq] at h <;> subst h <;> decide +kernel

/-- unit-sum kernels at work: a uniform (unbounded) mosaic demosaicks to the same uniform level in every channel, at
every sample, both layouts (the image is constant on all of ℕ × ℕ, so the boundary rule plays no role here; the reflect
boundary is covered by the correspondence run only) -/
theorem malvar_constant_level (cfa : Cfa) (m n : ℕ) (v : Rat) (ch : Chan) (R C : ℕ) :
    malvar Generated.C16.siteSlices (Generated.C16.malvarSrc cfa) m n (fun _ _ => v) ch R C = v := by
  unfold malvar
  rw [siteAt_eq]
  simp only
  cases h : Model.C16.srcKernel (Generated.C16.malvarSrc cfa ch (siteOfParity R C)) with
  | none => rfl
  | some k =>
    simp only
    have hk : k = Model.C16.kernelGAtRB ∨ k = Model.C16.kernelRAtGInRB ∨ k = Model.C16.kernelRAtGInBR ∨ k = Model.C16.kernelRAtBInBB := by
      revert h; cases (Generated.C16.malvarSrc cfa ch (siteOfParity R C)) <;> simp [Model.C16.srcKernel] <;> intro h <;> simp [← h]
    rcases hk with rfl | rfl | rfl | rfl <;>
      simp [convolve5, Num.sumTo, kernelAt, Model.C16.kernelGAtRB, Model.C16.kernelRAtGInRB, Model.C16.kernelRAtGInBR,
        Model.C16.kernelRAtBInBB, Model.C16.malvarDivisor, Num.ofInt] <;> ring

/-- the green sample of `demosaic_deinterlace` is the mean of the two green samples, over any field (whatever the
spelling of the average in the source) -/
theorem gen_deinterlace {K : Type} [Field K] (g1 g2 : K) : Generated.C16.deinterlaceGreen g1 g2 = (g1 + g2) / 2 := by
  first
    | (simp only [Generated.C16.deinterlaceGreen, Model.C16.deinterlaceGreen, Num.ofInt]; push_cast; ring; done)
    | (simp only [Generated.C16.deinterlaceGreen, Model.C16.deinterlaceGreen, Num.ofInt, Num.ofFrac]; push_cast; ring; done)
    | (simp only [Generated.C16.deinterlaceGreen, Model.C16.deinterlaceGreen, Num.ofInt, Num.ofFrac]; push_cast; field_simp; ring)

/-- `demosaic_deinterlace` of a mosaic assembled from four planes returns the red and the blue plane sample for sample
(raw samples, no crosstalk) and the mean of the two green planes, both layouts — in particular equal greens keep
their level -/
theorem deinterlace_of_recomposite (cfa : Cfa) (planes : Plane → ℕ → ℕ → Rat) (i j : ℕ) :
    let mosaic := fun R C => (recomposite Generated.C16.siteSlices (Generated.C16.recompPlane cfa) planes R C).getD 0
    deinterlace Generated.C16.siteSlices (Generated.C16.decompSite cfa) Generated.C16.deinterlaceGreen mosaic .red i j
        = planes .r i j ∧
    deinterlace Generated.C16.siteSlices (Generated.C16.decompSite cfa) Generated.C16.deinterlaceGreen mosaic .blue i j
        = planes .b i j ∧
    deinterlace Generated.C16.siteSlices (Generated.C16.decompSite cfa) Generated.C16.deinterlaceGreen mosaic .green i j
        = (planes .g1 i j + planes .g2 i j) / 2 := by
  intro mosaic
  have h : ∀ p, decomposite Generated.C16.siteSlices (Generated.C16.decompSite cfa) mosaic p i j = planes p i j := fun p => by
    simp only [decomposite, mosaic, decomposite_recomposite, Option.getD_some]
  exact ⟨by simp only [deinterlace, h], by simp only [deinterlace, h], by simp only [deinterlace, h, gen_deinterlace]⟩

/-- the mosaic of a spatially uniform colour `col` under the plane table `rt`: each site holds the level of the colour
that lives there -/
def colourMosaic (rt : Site → Plane) (col : Chan → Rat) : ℕ → ℕ → Rat :=
  fun R C => col (rt (siteOfParity R C)).chan

theorem colourMosaic_parity (rt : Site → Plane) (col : Chan → Rat) :
    colourMosaic rt col = parityImg (fun p q => col (rt (siteOfParity p q)).chan) := by
  funext R C
  have hR : R % 2 = 0 ∨ R % 2 = 1 := by omega
  have hC : C % 2 = 0 ∨ C % 2 = 1 := by omega
  rcases hR with hR | hR <;> rcases hC with hC | hC <;> simp [colourMosaic, parityImg, siteOfParity, hR, hC]

/-- Malvar demosaicking recovers a spatially uniform COLOUR exactly: the mosaic of a scene of colour `(r, g, b)` (three
arbitrary, different levels) demosaicks to `(r, g, b)` at every sample at least two samples from the border, in every
channel, for every image size and both layouts — this pins which filtered image (`c1`: red neighbours left/right, `c2`:
above/below, `c3`: diagonal) the generated source table uses at which site, not only the native sites.  (Within two
samples of the border `ndimage`'s `reflect` rule breaks the colour pattern and nothing is claimed.) -/
theorem malvar_uniform_colour (cfa : Cfa) (m n : ℕ) (col : Chan → Rat) (ch : Chan) (R C : ℕ)
    (hR2 : 2 ≤ R) (hRm : R + 2 < m) (hC2 : 2 ≤ C) (hCn : C + 2 < n) :
    malvar Generated.C16.siteSlices (Generated.C16.malvarSrc cfa) m n
      (colourMosaic (Generated.C16.recompPlane cfa) col) ch R C = col ch := by
  unfold malvar
  rw [siteAt_eq, colourMosaic_parity]
  simp only [convolve5_parity _ _ _ _ _ _ _ hR2 hRm hC2 hCn]
  have e : ∀ (x a : ℕ), (x + a) % 2 = (x % 2 + a % 2) % 2 := fun x a => Nat.add_mod x a 2
  have hR : R % 2 = 0 ∨ R % 2 = 1 := by omega
  have hC : C % 2 = 0 ∨ C % 2 = 1 := by omega
  to_model
  rcases hR with hR | hR <;> rcases hC with hC | hC <;> cases cfa <;> cases ch <;>
    simp [parityImg, e, hR, hC, siteOfParity, Model.C16.malvarSrc, Model.C16.srcKernel, Model.C16.recompPlane, Plane.chan,
      Num.sumTo, kernelAt, Model.C16.kernelGAtRB, Model.C16.kernelRAtGInRB, Model.C16.kernelRAtGInBR,
      Model.C16.kernelRAtBInBB, Model.C16.malvarDivisor, Num.ofInt] <;> ring

/-- non-vacuity: the centre of a 5 × 5 mosaic is an interior sample -/
example (cfa : Cfa) (col : Chan → Rat) (ch : Chan) :
    malvar Generated.C16.siteSlices (Generated.C16.malvarSrc cfa) 5 5
      (colourMosaic (Generated.C16.recompPlane cfa) col) ch 2 2 = col ch :=
  malvar_uniform_colour cfa 5 5 col ch 2 2 (by norm_num) (by norm_num) (by norm_num) (by norm_num)

/-- the mosaic of a scene whose luminance is an affine function `α·row + β·column` of the position and whose colour
differences are constant (`col`): each site holds the luminance plus the level of the colour that lives there -/
def rampMosaic (rt : Site → Plane) (α β : Rat) (col : Chan → Rat) : ℕ → ℕ → Rat :=
  fun R C => α * R + β * C + col (rt (siteOfParity R C)).chan

/-- Malvar demosaicking is EXACT on affine luminance with constant colour differences (what its gradient correction is
designed for): for every slope `(α, β)`, every colour offsets `(r, g, b)`, every image size and both layouts, every channel
of the demosaicked image equals the scene `α·row + β·column + colour` at every sample at least two samples from the border.
With `α = β = 0` this is `malvar_uniform_colour`.  (Border: `reflect` breaks the pattern, nothing claimed.) -/
theorem malvar_affine_exact (cfa : Cfa) (m n : ℕ) (α β : Rat) (col : Chan → Rat) (ch : Chan) (R C : ℕ)
    (hRm : R + 4 < m) (hCn : C + 4 < n) :
    malvar Generated.C16.siteSlices (Generated.C16.malvarSrc cfa) m n
      (rampMosaic (Generated.C16.recompPlane cfa) α β col) ch (R + 2) (C + 2)
      = α * (R + 2 : ℕ) + β * (C + 2 : ℕ) + col ch := by
  unfold malvar
  rw [siteAt_eq]
  simp only [convolve5_interior _ _ _ _ _ _ _ hRm hCn]
  have e : ∀ (x a : ℕ), (x + a) % 2 = (x % 2 + a % 2) % 2 := fun x a => Nat.add_mod x a 2
  have hR : R % 2 = 0 ∨ R % 2 = 1 := by omega
  have hC : C % 2 = 0 ∨ C % 2 = 1 := by omega
  to_model
  rcases hR with hR | hR <;> rcases hC with hC | hC <;> cases cfa <;> cases ch <;>
    simp [rampMosaic, e, hR, hC, siteOfParity, Model.C16.malvarSrc, Model.C16.srcKernel, Model.C16.recompPlane, Plane.chan,
      Num.sumTo, kernelAt, Model.C16.kernelGAtRB, Model.C16.kernelRAtGInRB, Model.C16.kernelRAtGInBR,
      Model.C16.kernelRAtBInBB, Model.C16.malvarDivisor, Num.ofInt] <;> ring

/-- non-vacuity: the centre of a 5 × 5 mosaic -/
example (cfa : Cfa) (α β : Rat) (col : Chan → Rat) (ch : Chan) :
    malvar Generated.C16.siteSlices (Generated.C16.malvarSrc cfa) 5 5
      (rampMosaic (Generated.C16.recompPlane cfa) α β col) ch 2 2 = α * (2 : ℕ) + β * (2 : ℕ) + col ch :=
  malvar_affine_exact cfa 5 5 α β col ch 0 0 (by norm_num) (by norm_num)

/-- TRANSLATED TERMS replacing recogniser facts: the shape of the intermediate view of `bindown` (`(s//f, f, …)` interleaved),
the broadcast shape of `tile`, the accepted `mode` / `scaling` spellings with what each does, the shape `expose` returns
(`(frames, *image.shape)`, squeezed for one frame) and the boundary rule of the Malvar filters are the modelled ones -/
theorem gen_views (frames : ℕ) (shape : List ℕ) (s f : List Int) :
    Generated.C16.binViewShape s f = Model.C16.binViewShape s f ∧
    Generated.C16.tileViewShape s f = Model.C16.tileViewShape s f ∧
    Generated.C16.binModes = Model.C16.binModes ∧ Generated.C16.tileModes = Model.C16.tileModes ∧
    Generated.C16.exposeOutShape frames shape = Model.C16.exposeOutShape frames shape ∧
    Generated.C16.malvarBoundary = BMode.reflect := by
  have h : Generated.C16.binOutLen = Model.C16.binOutLen := by funext a b; exact (gen_bin a b 0).1
  refine ⟨?_, ?_, ?_, ?_, ?_, ?_⟩
  · first | rfl | (simp only [Generated.C16.binViewShape, Model.C16.binViewShape, h])
  · first | rfl | (simp only [Generated.C16.tileViewShape, Model.C16.tileViewShape])
  · first | rfl | decide
  · first | rfl | decide
  · first | rfl | (unfold Generated.C16.exposeOutShape Model.C16.exposeOutShape; split_ifs <;> simp)
  · first | rfl | decide

/-- entries of `tuple(chain(*zip(a, b)))`: `a` at even, `b` at odd positions -/
theorem interleave_getElem? {α : Type} (a b : List α) (h : a.length = b.length) (i : ℕ) :
    (interleave a b)[2 * i]? = a[i]? ∧ (interleave a b)[2 * i + 1]? = b[i]? := by
  induction a generalizing b i with
  | nil => cases b <;> simp [interleave] at *
  | cons x xs ih =>
    cases b with
    | nil => simp at h
    | cons y ys =>
      cases i with
      | zero => simp [interleave]
      | succ i =>
        have := ih ys (by simpa using h) i
        simp only [interleave, show 2 * (i + 1) = 2 * i + 1 + 1 from by ring, show 2 * i + 1 + 1 + 1 = (2 * i + 1) + 1 + 1 from rfl,
          List.getElem?_cons_succ]
        exact this

/-- `tuple(chain(*zip(a, b)))` has twice the length -/
theorem interleave_length {α : Type} (a b : List α) (h : a.length = b.length) : (interleave a b).length = 2 * a.length := by
  induction a generalizing b with
  | nil => cases b <;> simp [interleave] at *
  | cons x xs ih =>
    cases b with
    | nil => simp at h
    | cons y ys => simp only [interleave, List.length_cons, ih ys (by simpa using h)]; ring

/-- the generated views put the bin factors exactly on the odd axes — the axes `range(1, 2·ndim, 2)` that `bindown`
reduces over (`gen_bin`) and that `tile` broadcasts over — and the output lengths / input lengths on the even axes, for every
number of axes, shape and factor list -/
theorem bin_tile_view_axes (shape f : List Int) (h : shape.length = f.length) (i : ℕ) :
    (Generated.C16.binViewShape shape f).length = 2 * shape.length ∧
    (Generated.C16.binViewShape shape f)[2 * i + 1]? = f[i]? ∧
    (Generated.C16.binViewShape shape f)[2 * i]? = (List.zipWith Generated.C16.binOutLen shape f)[i]? ∧
    (Generated.C16.tileViewShape shape f).length = 2 * shape.length ∧
    (Generated.C16.tileViewShape shape f)[2 * i + 1]? = f[i]? ∧ (Generated.C16.tileViewShape shape f)[2 * i]? = shape[i]? := by
  have hb : Generated.C16.binOutLen = Model.C16.binOutLen := by funext a b; exact (gen_bin a b 0).1
  rw [(gen_views 0 [] shape f).1, (gen_views 0 [] shape f).2.1, hb]
  have hz : (List.zipWith Model.C16.binOutLen shape f).length = f.length := by simp [h]
  have hl := interleave_length (List.zipWith Model.C16.binOutLen shape f) f hz
  refine ⟨by simp only [Model.C16.binViewShape, hl, hz, h], (interleave_getElem? _ f hz i).2, (interleave_getElem? _ f hz i).1,
    interleave_length shape f h, (interleave_getElem? shape f h i).2, (interleave_getElem? shape f h i).1⟩

/-- the exposure has `frames × Π shape` samples, the shape of the image itself for one frame and `(frames, *shape)` otherwise -/
theorem expose_out_shape (frames : ℕ) (shape : List ℕ) :
    (Generated.C16.exposeOutShape frames shape).prod = frames * shape.prod ∧ Generated.C16.exposeOutShape 1 shape = shape ∧
    (frames ≠ 1 → Generated.C16.exposeOutShape frames shape = frames :: shape) := by
  simp only [(gen_views _ shape [] []).2.2.2.2.1, Model.C16.exposeOutShape]
  refine ⟨?_, by simp, fun h => by simp [h]⟩
  split_ifs with h1 <;> simp [h1]

/-- interior / border split of the Malvar filters: two samples or more from the border the filtered image does not depend
on the boundary rule at all (any index-extension rule that is the identity inside the array gives the value of `reflect`);
only the two-sample frame is governed by the generated `malvarBoundary = reflect`, which the correspondence compares -/
theorem malvar_interior_any_boundary (bidx : ℕ → ℤ → ℕ) (hb : ∀ n k : ℕ, k < n → bidx n (k : ℤ) = k)
    (m n : ℕ) (img : ℕ → ℕ → Rat) (k : List (List Rat)) (div : Rat) (R C : ℕ) (hRm : R + 4 < m) (hCn : C + 4 < n) :
    convolve5B bidx m n img k div (R + 2) (C + 2) = convolve5 m n img k div (R + 2) (C + 2) := by
  rw [convolve5_interior m n img k div R C hRm hCn]
  unfold convolve5B
  refine sumTo_congr 5 _ _ fun a ha => sumTo_congr 5 _ _ fun b hb' => ?_
  have e1 : (((R + 2 : ℕ) : ℤ) + 2 - a) = ((R + (4 - a) : ℕ) : ℤ) := by omega
  have e2 : (((C + 2 : ℕ) : ℤ) + 2 - b) = ((C + (4 - b) : ℕ) : ℤ) := by omega
  rw [e1, e2, hb m _ (by omega), hb n _ (by omega)]
/-- non-vacuity: a 6 × 4 array binned by (3, 2) is viewed as (2, 3, 2, 2); `reflect` itself is the identity inside the array -/
example : Generated.C16.binViewShape [6, 4] [3, 2] = [2, 3, 2, 2] ∧ Generated.C16.tileViewShape [2, 2] [3, 2] = [2, 3, 2, 2] := by decide
example : ∀ n k : ℕ, k < n → reflectIdx n (k : ℤ) = k := fun n k h => by unfold reflectIdx; split_ifs <;> omega

/-- safe white balance (UNIT nominal gains only — with other gains `safe` promises nothing and nothing is claimed):
after dividing the gains by the generated limiting ratio, a plane scaled with unit
nominal gain does not exceed its saturation level — for every list of inspected planes `(max, saturation)`;
and the ratio is exactly 1 (data untouched) when nothing is above saturation -/
theorem wb_safe_limits {K : Type} [Field K] [LinearOrder K] [IsStrictOrderedRing K] (l : List (K × K)) :
    (∀ p ∈ l, 0 < p.2 → p.1 / safeRatio wbPostSafeStep l 1 ≤ p.2) ∧
    (∀ p ∈ l, 0 < p.2 → p.1 / safeRatio wbPreSafeStep l 1 ≤ p.2) ∧
    ((∀ p ∈ l, p.1 / p.2 ≤ 1) → safeRatio wbPostSafeStep l 1 = 1 ∧ safeRatio wbPreSafeStep l 1 = 1) := by
  obtain ⟨hpre, hpost, _⟩ := gen_wb_safe (K := K)
  exact ⟨fun p hp hs => safe_limits hpost l p hp hs, fun p hp hs => safe_limits hpre l p hp hs,
    fun h => ⟨safeRatio_eq_one hpost l h, safeRatio_eq_one hpre l h⟩⟩

end bayer

/-! ## non-vacuity and the pinned failure -/

/-- the pinned ceiling `2^bits` wraps to 0 in an 8-, 16- and 32-bit container; `2^bits − 1` does not -/
example : castU 8 (2 ^ 8) = 0 ∧ castU 16 (2 ^ 16) = 0 ∧ castU 32 (2 ^ 32) = 0 ∧ castU 8 (2 ^ 8 - 1) = 255 := by decide

/-- negative witness for the pinned ceiling (model with an explicit ceiling `2^8` instead of `2^8 − 1`): at unit
gain 255 e⁻ reads 255 DN but the brighter 256 e⁻ reads 0 DN — the brightest pixels come out black -/
example : castU 8 ⌊exposePreCap (K := ℚ) (2 ^ 8) 255 1 0 1 1 0 100000 1⌋ = 255 ∧
    castU 8 ⌊exposePreCap (K := ℚ) (2 ^ 8) 256 1 0 1 1 0 100000 1⌋ = 0 := by
  rw [exposePreCap_eq, exposePreCap_eq]
  norm_num
  constructor <;> decide

/-- …and for a 12-bit converter the pinned ceiling reads one count above full scale -/
example : castU 16 ⌊exposePreCap (K := ℚ) (2 ^ 12) 5000 1 0 1 1 0 100000 1⌋ = 4096 := by
  rw [exposePreCap_eq]
  norm_num
  decide

/-- a saturated 8-bit pixel: 1000 e⁻ at unit gain reads 255 -/
example : dn (K := ℚ) 1000 1 0 1 1 0 100000 1 8 = 255 := by
  rw [dn_saturates (K := ℚ) 8 (by norm_num) (by norm_num)]
  · decide
  · rw [show Int.toNat 8 = 8 from rfl]; norm_num

/-- block bijection instance: axis of 12 samples binned by 3; a 2-axis block sum on ℚ -/
example : binSrc 3 2 1 = 7 ∧ tileSrc 3 7 = 2 ∧ 7 % 3 = 1 := by decide
example : binL (K := ℚ) [2, 1] (fun k => (k.headD 0 : ℚ) + 10 * (k.tail.headD 0 : ℚ)) [1, 3] = 65 := by decide +kernel

end C16
