import PrysmVerif.Generated.C01
import PrysmVerif.Lemmas.C01Fourier
import PrysmVerif.Lemmas.C01Param
import PrysmVerif.Lemmas.PyArith
import PrysmVerif.Lemmas.C01Cache
import PrysmVerif.Lemmas.C01Cache2
import PrysmVerif.Lemmas.C01Exp
/-!
# C01 — FFT, matrix-DFT and chirp-Z compute the same transform; no dependence on history

Setting.  `R`, `K` are fields of characteristic zero (read: `ℝ`, `ℂ`).  The Fourier kernel is an arbitrary map
`e : R → K` with the laws `IsChar e` (`e (a+b) = e a * e b`, `e 0 = 1`, `e k = 1` for `k ∈ ℤ`); where the FFT
based convolution is involved also `IsFaithful e` (`e t = 1 → t ∈ ℤ`, from which root-of-unity orthogonality is
derived).  `nrm : R → K` (read `√·`) is completely arbitrary.  The last section instantiates every hypothesis with
`e t = exp(−2πi t)`, `nrm = √·`, complex conjugation.

Every theorem quantifies over ALL shapes `(m, n)`, output sizes `(M, N)`, per-axis `Q`, shifts, inputs and (where
relevant) FFT lengths `≥ n + M − 1`; nothing is bounded.  Theorems named `gen_*` have a definition regenerated from
the current prysm source as their subject.  The property theorems are stated over the PARAMETERISED routes of the model
(`czt2G`, `iczt2G`, `mdft2G`, `fftRoute2G`) applied to the generated values: wiring records, index glue, chirp constants /
exponent scalars / norms (rational functions), chirp and shift signs (`cztSignsGen`), the order of the statements of `czt2`
(`cztStagesGen`), kernel sign and `fwd` flags of the matrix DFT, shift order / norm / transform of `focus` and `unfocus`
(`focusFlagsGen`, `unfocusFlagsGen`), pad offset, FFT-length arguments, cache key / read lists, and the `Q` / shift
conversions of the fixed-sampling dispatch (`ffsQ`, `ffsShift*`, `ufsQ`, …).  Each `gen_*` theorem is consumed by at least
one property theorem.  Array results are read with `rd2`; sizes are positive where a hypothesis says so.
-/
set_option linter.unusedTactic false
set_option linter.unreachableTactic false
set_option linter.unusedSectionVars false
set_option linter.unusedVariables false

namespace C01
open Model.C01 Generated.C01

variable {R K : Type} [Field R] [CharZero R] [Field K] [CharZero K]
variable {e : R → K} (nrm : R → K)

/-! ## translated obligations -/

/-- `_prepare_czt_basis`: `start`, both `arange` lower bounds and the three slice bounds of `h` are those of the model
(in particular the lag offset is `N//2 − M//2`), for every input length, output length and FFT length -/
theorem gen_czt_glue (n M L : Nat) : cztGlueGen n M L = cztGlue n M L := by
  have ext : ∀ a b : CztGlue, a.start = b.start → a.j1Lo = b.j1Lo → a.h1Lo = b.h1Lo → a.h1Hi = b.h1Hi →
      a.j2Lo = b.j2Lo → a.h2Lo = b.h2Lo → a.h2Hi = b.h2Hi → a.zLo = b.zLo → a.zHi = b.zHi → a = b := by
    intro a b; cases a; cases b; simp only [CztGlue.mk.injEq]; intros; simp_all
  apply ext <;> simp only [cztGlueGen, cztGlue, cztStart, cen] <;> omega

/-- the two `arange`s have exactly the lengths of the slices of `h` they are written to (no NumPy broadcast error) -/
theorem gen_czt_ranges (n M L : Nat) :
    cztJ1Hi n M L - (cztGlueGen n M L).j1Lo = (cztGlueGen n M L).h1Hi - (cztGlueGen n M L).h1Lo ∧
    cztJ2Hi n M L - (cztGlueGen n M L).j2Lo = (cztGlueGen n M L).h2Hi - (cztGlueGen n M L).h2Lo := by
  constructor <;> simp only [cztJ1Hi, cztJ2Hi, cztGlueGen, cztGlue, cztStart, cen] <;> omega

/-- the shift is subtracted from the output AND the input coordinate vector; chirps `a`, `b` are `exp(−iπαx²)`, the
kernel is `exp(+iπαj²)` (consumed by `czt_eq_mdft`: with any other sign pattern the Bluestein identity fails) -/
theorem gen_czt_signs : cztSignsGen = cztSignsRef := by decide

/-- `czt2` multiplies by `b` before `fft2`, by `H` between `fft2` and `ifft2`, crops to `[:M,:N]`, then multiplies by `a`
(consumed by `czt_eq_mdft`, whose subject interprets this list) -/
theorem gen_czt_stages : cztStagesGen = cztStagesRef := by decide

/-- `czt2/_setup_bases`: the row basis is built from `shape[0], samples_out[0], shift[1]`, the column basis from
`shape[1], samples_out[1], shift[0]`; `fft2` is taken at `(K, L)` = (row length, column length) -/
theorem gen_czt_wiring :
    cztRowWiring = wiringAxis0 ∧ cztColWiring = wiringAxis1 ∧ cztFft2SizeIsRowCol = true := by decide

/-- the row basis gets `alphay = 1/(m·Q[0])`, the column basis `alphax = 1/(n·Q[1])` (each axis its own constant) -/
theorem gen_czt_alpha (m n : Nat) (Q0 Q1 : R) :
    cztRowAlpha (m : R) (n : R) Q0 Q1 = alphaOf m Q0 ∧ cztColAlpha (m : R) (n : R) Q0 Q1 = alphaOf n Q1 := by
  constructor <;> simp [cztRowAlpha, cztColAlpha, alphaOf] <;> ring

/-- the FFT lengths are `next_fast_len` of `m+M−1` (rows) and `n+N−1` (columns) -/
theorem gen_czt_fftlen (m n M N : Int) :
    cztRowFftLenArg m n M N = m + M - 1 ∧ cztColFftLenArg m n M N = n + N - 1 := by
  constructor <;> simp only [cztRowFftLenArg, cztColFftLenArg] <;> omega

/-- everything `ChirpZTransformExecutor._setup_bases` reads while building is part of the cache key -/
theorem gen_czt_reads_subset_key : ∀ r ∈ cztBuildReads, r ∈ cztKeyFields := by decide

/-- everything `MatrixDFTExecutor._setup_bases` reads while building (including `config.precision`) is part of the key -/
theorem gen_mdft_reads_subset_key : ∀ r ∈ mdftBuildReads, r ∈ mdftKeyFields := by decide

/-- `Eout` is built from `shape[0], samples[0], shift[1]`, `Ein` from `shape[1], samples[1], shift[0]`; the forward
kernel has the minus sign in both factors; `dft2` asks for the forward bases, `idft2` for the inverse ones -/
theorem gen_mdft_wiring :
    mdftEoutWiring = wiringAxis0 ∧ mdftEinWiring = wiringAxis1 ∧ mdftFwdSign = -1 ∧ mdftFwdSignEin = mdftFwdSign ∧
    mdftDft2IsFwd = true ∧ mdftIdft2IsFwd = false := by decide

/-- the exponent scalars are `1/(m·Q[0])` and `1/(n·Q[1])`; `Ein` is scaled by `√alphay`, `Eout` by `√alphax`, so the
product of the two norms is `(m·Qy·n·Qx)^(−1/2)` -/
theorem gen_mdft_scale (m n : Nat) (Q0 Q1 : R) :
    mdftEoutScale (m : R) (n : R) Q0 Q1 = alphaOf m Q0 ∧ mdftEinScale (m : R) (n : R) Q0 Q1 = alphaOf n Q1 ∧
    mdftEinNormSq (m : R) (n : R) Q0 Q1 = alphaOf m Q0 ∧ mdftEoutNormSq (m : R) (n : R) Q0 Q1 = alphaOf n Q1 := by
  refine ⟨?_, ?_, ?_, ?_⟩ <;>
    simp [mdftEoutScale, mdftEinScale, mdftEinNormSq, mdftEoutNormSq, alphaOf] <;> ring

/-- `pad2d` (constant mode) writes the data at `[N//2 − n//2, N//2 − n//2 + n)` -/
theorem gen_pad_offset (n N : Nat) :
    padLo (n : Int) (N : Int) = padOffset n N ∧ padHi (n : Int) (N : Int) = padOffset n N + n := by
  constructor <;> simp only [padLo, padHi, padOffset, cen] <;> omega

/-- the default padded length of `pad2d(x, Q)` (hence of `focus(x, Q)`) is `⌈n·Q⌉` -/
theorem gen_pad_outlen (n Q : Rat) : padOutLen n Q = ((⌈n * Q⌉ : Int) : Rat) := by
  simp only [padOutLen, Rat.ceil_eq_intCeil]

/-- `focus` is `fftshift(fft2(ifftshift(·), norm='ortho'))`, `unfocus` the same with `ifft2` (consumed by
`fft_route_eq_spec` / `unfocus_route_eq_spec`, whose subject is the route with these flags) -/
theorem gen_route_flags : focusFlagsGen = focusFlagsRef ∧ unfocusFlagsGen = unfocusFlagsRef := by decide

/-- `focus_fixed_sampling` / `unfocus_fixed_sampling`: the `Q` handed to the engines for an axis of `n` samples gives the
chirp constant `α = 1/(n·Q) = dx_in·dx_out/(λ·f)` — per axis, independent of `n` — and the shift handed over is
`shift/output_dx` in both components; both engines receive the same `ary, Q, samples_out, shift` -/
theorem gen_dispatch (n : Nat) (dxin efl wvl dxout s : R) (hn : (n : R) ≠ 0) (h1 : dxin ≠ 0) (h2 : efl ≠ 0) (h3 : wvl ≠ 0)
    (h4 : dxout ≠ 0) :
    alphaOf n (ffsQ (n : R) dxin efl wvl dxout) = dxin * dxout / (wvl * efl) ∧
    alphaOf n (ufsQ (n : R) dxin efl wvl dxout) = dxin * dxout / (wvl * efl) ∧
    ffsShift0 s dxin dxout = s / dxout ∧ ffsShift1 s dxin dxout = s / dxout ∧
    ufsShift0 s dxin dxout = s / dxout ∧ ufsShift1 s dxin dxout = s / dxout ∧
    ffsEnginesGetSameArgs = true ∧ ufsEnginesGetSameArgs = true := by
  refine ⟨?_, ?_, ?_, ?_, ?_, ?_, by decide, by decide⟩
  · simp only [alphaOf_eq, ffsQ]; field_simp
  · simp only [alphaOf_eq, ufsQ]; field_simp
  all_goals simp only [ffsShift0, ffsShift1, ufsShift0, ufsShift1]

/-- purity (structural): no entry point of the three routes / of free space writes to its array argument — no augmented
assignment or subscript store on the parameter while it still names the caller's array, no `out=<param>`, no
`overwrite_x=True` handed to the FFT library (the model routes are pure functions of their input) -/
theorem gen_inputs_not_written :
    fttoolsEntryPointsDoNotWriteInputs = true ∧ propagationEntryPointsDoNotWriteInputs = true := by decide

/-! ## matrix DFT = unit phase × textbook sum -/

/-- the oracle of the correspondence is literally the double sum of the property statement:
`(√αy·√αx) · Σ_j Σ_i f[j,i] · e(αy (j−m//2)(k−M//2−sy) + αx (i−n//2)(l−N//2−sx))`, `αy = 1/(m Qy)`, `αx = 1/(n Qx)` -/
theorem spec2_eq_double_sum (he : IsChar e) (m n M N : Nat) (αy αx sy sx : R) (f : Nat → Nat → K) (k l : Nat) :
    spec2 e nrm m n M N αy αx sy sx f k l
      = (nrm αy * nrm αx) * ∑ j ∈ Finset.range m, ∑ i ∈ Finset.range n, f j i *
          e (αy * ((xc m j : R) * ((xc M k : R) - sy)) + αx * ((xc n i : R) * ((xc N l : R) - sx))) := by
  simp only [spec2, spec1, sumTo_eq, Finset.mul_sum, Finset.sum_mul, he.add]
  exact Finset.sum_congr rfl fun j _ => Finset.sum_congr rfl fun i _ => by ring

/-- `dft2`: kernel sign, `fwd` flag, wiring, exponent scalars and norms of the current source.  For every shape, output
size, per-axis `Q` and shift it returns the FORWARD textbook sum times a phase that depends on the output sample only -/
theorem mdft_eq_phase_mul_spec (he : IsChar e) (m n M N : Nat) (Qy Qx s0 s1 : R) (f : Nat → Nat → K) (k l : Nat) :
    mdft2G mdftFwdSign mdftDft2IsFwd e nrm mdftEoutWiring mdftEinWiring (m, n) (M, N)
        (mdftEoutScale (m : R) (n : R) Qy Qx) (mdftEinScale (m : R) (n : R) Qy Qx)
        (mdftEinNormSq (m : R) (n : R) Qy Qx) (mdftEoutNormSq (m : R) (n : R) Qy Qx) (s0, s1) f k l
      = (shiftPhase e M (alphaOf m Qy) s1 k * shiftPhase e N (alphaOf n Qx) s0 l)
          * spec2 e nrm m n M N (alphaOf m Qy) (alphaOf n Qx) s1 s0 f k l := by
  obtain ⟨h1, h2, h3, h4⟩ := gen_mdft_scale (R := R) m n Qy Qx
  obtain ⟨w0, w1, sg, _, fw, _⟩ := gen_mdft_wiring
  rw [w0, w1, sg, fw, h1, h2, h3, h4]
  simp only [mdft2G, if_true, kernS_neg_one]
  exact mdft2_eq_phase_mul_spec2 nrm he m n M N _ _ s0 s1 f k l

/-- `idft2`: the same with the reflected kernel `e(−t)` (the INVERSE textbook sum) -/
theorem idft_eq_phase_mul_inverse_spec (he : IsChar e) (m n M N : Nat) (Qy Qx s0 s1 : R) (f : Nat → Nat → K) (k l : Nat) :
    mdft2G mdftFwdSign mdftIdft2IsFwd e nrm mdftEoutWiring mdftEinWiring (m, n) (M, N)
        (mdftEoutScale (m : R) (n : R) Qy Qx) (mdftEinScale (m : R) (n : R) Qy Qx)
        (mdftEinNormSq (m : R) (n : R) Qy Qx) (mdftEoutNormSq (m : R) (n : R) Qy Qx) (s0, s1) f k l
      = (shiftPhase (fun t => e (-t)) M (alphaOf m Qy) s1 k * shiftPhase (fun t => e (-t)) N (alphaOf n Qx) s0 l)
          * spec2 (fun t => e (-t)) nrm m n M N (alphaOf m Qy) (alphaOf n Qx) s1 s0 f k l := by
  obtain ⟨h1, h2, h3, h4⟩ := gen_mdft_scale (R := R) m n Qy Qx
  obtain ⟨w0, w1, sg, _, _, iv⟩ := gen_mdft_wiring
  rw [w0, w1, sg, iv, h1, h2, h3, h4]
  simp only [mdft2G, Bool.false_eq_true, if_false, neg_neg, kernS_one]
  exact mdft2_eq_phase_mul_spec2 nrm he.reflect m n M N _ _ s0 s1 f k l

/-- the phase factor is `1` when no shift is requested … -/
theorem mdft_phase_one_at_zero_shift (he : IsChar e) (M : Nat) (α : R) (k : Nat) : shiftPhase e M α 0 k = 1 :=
  shiftPhase_zero he M α k

/-- … and has unit modulus for every shift (`conj Φ · Φ = 1`) -/
theorem mdft_phase_unit_modulus (he : IsChar e) (cj : K →+* K) (hc : IsConj cj e nrm) (M : Nat) (α s : R) (k : Nat) :
    cj (shiftPhase e M α s k) * shiftPhase e M α s k = 1 := by
  unfold shiftPhase
  rw [hc.e_conj, mul_comm, he.mul_neg_self]

/-- "when a shift is requested the routes may differ only by a pure phase, never in modulus": the squared modulus
`conj(out)·out` of `dft2` (hence, by `czt_eq_mdft`, of `czt2`) equals that of the textbook sum, for every shift -/
theorem shifted_route_same_modulus (he : IsChar e) (cj : K →+* K) (hc : IsConj cj e nrm) (m n M N : Nat)
    (Qy Qx s0 s1 : R) (f : Nat → Nat → K) (k l : Nat) :
    cj (mdft2G mdftFwdSign mdftDft2IsFwd e nrm mdftEoutWiring mdftEinWiring (m, n) (M, N)
        (mdftEoutScale (m : R) (n : R) Qy Qx) (mdftEinScale (m : R) (n : R) Qy Qx)
        (mdftEinNormSq (m : R) (n : R) Qy Qx) (mdftEoutNormSq (m : R) (n : R) Qy Qx) (s0, s1) f k l)
      * mdft2G mdftFwdSign mdftDft2IsFwd e nrm mdftEoutWiring mdftEinWiring (m, n) (M, N)
        (mdftEoutScale (m : R) (n : R) Qy Qx) (mdftEinScale (m : R) (n : R) Qy Qx)
        (mdftEinNormSq (m : R) (n : R) Qy Qx) (mdftEoutNormSq (m : R) (n : R) Qy Qx) (s0, s1) f k l
      = cj (spec2 e nrm m n M N (alphaOf m Qy) (alphaOf n Qx) s1 s0 f k l)
          * spec2 e nrm m n M N (alphaOf m Qy) (alphaOf n Qx) s1 s0 f k l := by
  rw [mdft_eq_phase_mul_spec nrm he, map_mul, map_mul]
  have h1 := mdft_phase_unit_modulus nrm he cj hc M (alphaOf m Qy) s1 k
  have h2 := mdft_phase_unit_modulus nrm he cj hc N (alphaOf n Qx) s0 l
  calc _ = (cj (shiftPhase e M (alphaOf m Qy) s1 k) * shiftPhase e M (alphaOf m Qy) s1 k)
            * (cj (shiftPhase e N (alphaOf n Qx) s0 l) * shiftPhase e N (alphaOf n Qx) s0 l)
            * (cj (spec2 e nrm m n M N (alphaOf m Qy) (alphaOf n Qx) s1 s0 f k l)
                * spec2 e nrm m n M N (alphaOf m Qy) (alphaOf n Qx) s1 s0 f k l) := by ring
    _ = _ := by rw [h1, h2]; ring

/-! ## chirp-Z (Bluestein) -/

/-- 1-D Bluestein with the index glue of the current source, computed through `fft`/`ifft` of ANY length
`L ≥ n + M − 1`: equals phase × textbook sum for every `n`, `M`, `α`, shift and input -/
theorem bluestein_1d (he : IsChar e) (hf : IsFaithful e) (n M L : Nat) (α s : R) (g : Array K) (k : Nat)
    (hn : 0 < n) (hk : k < M) (hL : n + M ≤ L + 1) :
    rd (czt1 e nrm (cztGlueGen n M L) n M L α s g) k = shiftPhase e M α s k * spec1 e nrm n M α s (rd g) k := by
  rw [gen_czt_glue, czt1_eq_mdft1 nrm he hf n M L α s g k hn hk hL, mdft1_eq_phase_mul_spec1 nrm he]

/-- the wrap-around lemma: a circular lag `(k − j) mod L` never reads the zeroed gap and always finds lag
`k − j + (n//2 − M//2)`, given `L ≥ n + M − 1` -/
theorem bluestein_wrap (n M L : Nat) (α : R) (k j : Nat) (hk : k < M) (hj : j < n) (hL : n + M ≤ L + 1) :
    cztH e (cztGlueGen n M L) α ((((k : ℤ) - (j : ℤ)) % (L : ℤ)).toNat)
      = hval e α ((k : ℤ) - (j : ℤ) + ((n : ℤ) / 2 - (M : ℤ) / 2)) := by
  rw [gen_czt_glue]; exact cztH_wrap n M L α k j hk hj hL

/-- (re-export of `Lemmas/C01Fourier.conv_via_dft`) the contract under which `scipy.fft` is used: `ifft(fft x · fft y)`
is the length-`L` circular convolution -/
theorem conv_via_fft (he : IsChar e) (hf : IsFaithful e) (L : Nat) (hL : 0 < L) (x y : Nat → K) (k : Nat) :
    idftL e L (fun q => dftL e L x q * dftL e L y q) k = circConv L x y k :=
  conv_via_dft he hf L hL x y k

/-- `czt2` as the current source computes it — signs, order of the statements, wiring, per-axis chirp constants, index
glue, any FFT lengths that `next_fast_len` may return for the generated length arguments — equals `dft2` sample for
sample, including the phase, for every shape, output size, per-axis `Q` and shift -/
theorem czt_eq_mdft (he : IsChar e) (hf : IsFaithful e) (m n M N K' L : Nat) (Qy Qx s0 s1 : R)
    (f : Array (Array K)) (k l : Nat) (hm : 0 < m) (hn : 0 < n) (hk : k < M) (hl : l < N)
    (hK : cztRowFftLenArg m n M N ≤ K') (hL : cztColFftLenArg m n M N ≤ L) :
    rd2 (czt2G cztSignsGen cztStagesGen e nrm cztRowWiring cztColWiring (cztGlueGen m M K') (cztGlueGen n N L)
          (m, n) (M, N) (K', L) (cztRowAlpha (m : R) (n : R) Qy Qx) (cztColAlpha (m : R) (n : R) Qy Qx) (s0, s1) f) k l
      = mdft2G mdftFwdSign mdftDft2IsFwd e nrm mdftEoutWiring mdftEinWiring (m, n) (M, N)
        (mdftEoutScale (m : R) (n : R) Qy Qx) (mdftEinScale (m : R) (n : R) Qy Qx)
        (mdftEinNormSq (m : R) (n : R) Qy Qx) (mdftEoutNormSq (m : R) (n : R) Qy Qx) (s0, s1) (rd2 f) k l := by
  obtain ⟨h1, h2, h3, h4⟩ := gen_mdft_scale (R := R) m n Qy Qx
  obtain ⟨a1, a2⟩ := gen_czt_alpha (R := R) m n Qy Qx
  obtain ⟨w0, w1, sg, _, fw, _⟩ := gen_mdft_wiring
  obtain ⟨f1, f2⟩ := gen_czt_fftlen m n M N
  rw [f1] at hK
  rw [f2] at hL
  have hK' : m + M ≤ K' + 1 := by omega
  have hL' : n + N ≤ L + 1 := by omega
  rw [w0, w1, sg, fw, h1, h2, h3, h4, gen_czt_wiring.1, gen_czt_wiring.2.1, a1, a2, gen_czt_glue, gen_czt_glue,
    gen_czt_signs, gen_czt_stages]
  simp only [mdft2G, if_true, kernS_neg_one]
  rw [czt2G_ref_rd nrm _ _ m n M N K' L _ _ s0 s1 f k l hk hl (by omega) (by omega)]
  exact czt2_eq_mdft2 nrm he hf m n M N K' L _ _ s0 s1 f k l hm hn hk hl hK' hL'

/-- hence `czt2` = unit phase × textbook sum, with the same phase as `dft2` -/
theorem czt2_eq_phase_mul_spec (he : IsChar e) (hf : IsFaithful e) (m n M N K' L : Nat) (Qy Qx s0 s1 : R)
    (f : Array (Array K)) (k l : Nat) (hm : 0 < m) (hn : 0 < n) (hk : k < M) (hl : l < N)
    (hK : cztRowFftLenArg m n M N ≤ K') (hL : cztColFftLenArg m n M N ≤ L) :
    rd2 (czt2G cztSignsGen cztStagesGen e nrm cztRowWiring cztColWiring (cztGlueGen m M K') (cztGlueGen n N L)
          (m, n) (M, N) (K', L) (cztRowAlpha (m : R) (n : R) Qy Qx) (cztColAlpha (m : R) (n : R) Qy Qx) (s0, s1) f) k l
      = (shiftPhase e M (alphaOf m Qy) s1 k * shiftPhase e N (alphaOf n Qx) s0 l)
          * spec2 e nrm m n M N (alphaOf m Qy) (alphaOf n Qx) s1 s0 (rd2 f) k l := by
  rw [czt_eq_mdft nrm he hf m n M N K' L Qy Qx s0 s1 f k l hm hn hk hl hK hL, mdft_eq_phase_mul_spec nrm he]

/-- `iczt2 = conj ∘ czt2 ∘ conj` is `idft2`: phase × the textbook sum with the reflected kernel `e(−t)` -/
theorem iczt_eq_inverse_spec (he : IsChar e) (hf : IsFaithful e) (cj : K →+* K) (hc : IsConj cj e nrm)
    (m n M N K' L : Nat) (Qy Qx s0 s1 : R)
    (f : Array (Array K)) (k l : Nat) (hm : 0 < m) (hn : 0 < n) (hk : k < M) (hl : l < N)
    (hK : cztRowFftLenArg m n M N ≤ K') (hL : cztColFftLenArg m n M N ≤ L) :
    rd2 (iczt2G cj cztSignsGen cztStagesGen e nrm cztRowWiring cztColWiring (cztGlueGen m M K') (cztGlueGen n N L)
          (m, n) (M, N) (K', L) (cztRowAlpha (m : R) (n : R) Qy Qx) (cztColAlpha (m : R) (n : R) Qy Qx) (s0, s1) f) k l
      = mdft2G mdftFwdSign mdftIdft2IsFwd e nrm mdftEoutWiring mdftEinWiring (m, n) (M, N)
        (mdftEoutScale (m : R) (n : R) Qy Qx) (mdftEinScale (m : R) (n : R) Qy Qx)
        (mdftEinNormSq (m : R) (n : R) Qy Qx) (mdftEoutNormSq (m : R) (n : R) Qy Qx) (s0, s1) (rd2 f) k l := by
  obtain ⟨h1, h2, h3, h4⟩ := gen_mdft_scale (R := R) m n Qy Qx
  obtain ⟨a1, a2⟩ := gen_czt_alpha (R := R) m n Qy Qx
  obtain ⟨w0, w1, sg, _, _, iv⟩ := gen_mdft_wiring
  obtain ⟨f1, f2⟩ := gen_czt_fftlen m n M N
  rw [f1] at hK
  rw [f2] at hL
  have hK' : m + M ≤ K' + 1 := by omega
  have hL' : n + N ≤ L + 1 := by omega
  rw [w0, w1, sg, iv, h1, h2, h3, h4, gen_czt_wiring.1, gen_czt_wiring.2.1, a1, a2, gen_czt_glue, gen_czt_glue,
    gen_czt_signs, gen_czt_stages]
  simp only [mdft2G, Bool.false_eq_true, if_false, neg_neg, kernS_one]
  unfold iczt2G
  rw [rd2_mapArr2, czt2G_ref_rd nrm _ _ m n M N K' L _ _ s0 s1 _ k l hk hl (by omega) (by omega),
    czt2_eq_mdft2 nrm he hf m n M N K' L _ _ s0 s1 _ k l hm hn hk hl hK' hL']
  have : rd2 (mapArr2 (⇑cj) f) = fun j i => cj (rd2 f j i) := by
    funext j i; exact rd2_mapArr2 cj f j i
  rw [this, conj_mdft2 nrm cj hc]

/-! ## FFT route -/

/-- `focus`: with the shift order, `norm`, transform and pad offset of the current source, the padded FFT route returns
the forward textbook sum with zero shift on the grid `Q_eff = M'/m, N'/n`, for every input shape and every padded shape
`≥` it (any parities) -/
theorem fft_route_eq_spec (he : IsChar e) (m n M' N' : Nat) (hm : m ≤ M') (hn : n ≤ N') (f : Array (Array K))
    (k l : Nat) (hk : k < M') (hl : l < N') :
    rd2 (fftRoute2G focusFlagsGen e nrm (m, n) (M', N') (padLo (m : Int) (M' : Int), padLo (n : Int) (N' : Int)) f) k l
      = spec2 e nrm m n M' N' (1 / (M' : R)) (1 / (N' : R)) 0 0 (rd2 f) k l := by
  rw [(gen_pad_offset m M').1, (gen_pad_offset n N').1, gen_route_flags.1, fftRoute2G_focus_ref]
  exact fftRoute2_eq_spec2 nrm he m n M' N' hm hn f k l hk hl

/-- `unfocus`: the same with the inverse textbook sum (kernel `e(−t)`) -/
theorem unfocus_route_eq_spec (he : IsChar e) (m n M' N' : Nat) (hm : m ≤ M') (hn : n ≤ N') (f : Array (Array K))
    (k l : Nat) (hk : k < M') (hl : l < N') :
    rd2 (fftRoute2G unfocusFlagsGen e nrm (m, n) (M', N') (padLo (m : Int) (M' : Int), padLo (n : Int) (N' : Int)) f) k l
      = spec2 (fun t => e (-t)) nrm m n M' N' (1 / (M' : R)) (1 / (N' : R)) 0 0 (rd2 f) k l := by
  rw [(gen_pad_offset m M').1, (gen_pad_offset n N').1, gen_route_flags.2, fftRoute2G_unfocus_ref]
  exact fftRoute2_eq_spec2 nrm he.reflect m n M' N' hm hn f k l hk hl

/-- the grid that `Q` defines for the FFT route: the padded length is `⌈n·Q⌉`; it is at least `n` for `Q ≥ 1` (so the
hypotheses `m ≤ M'` above are met) and it is exactly `n·Q` when that is an integer — only then is the FFT grid the
matrix-DFT grid of the same `Q` (`routes_agree`); otherwise the FFT route lives on `Q_eff = ⌈n·Q⌉/n` -/
theorem fft_route_grid_of_Q (n : Nat) (Q : Rat) :
    (1 ≤ Q → (n : Rat) ≤ padOutLen n Q) ∧ (∀ N' : Nat, (n : Rat) * Q = N' → padOutLen n Q = N') := by
  constructor
  · intro hQ
    rw [gen_pad_outlen]
    have h1 : (n : Rat) ≤ (n : Rat) * Q := by
      have : (0 : Rat) ≤ n := Nat.cast_nonneg n
      nlinarith
    exact le_trans h1 (Int.le_ceil _)
  · intro N' h
    rw [gen_pad_outlen, h]
    have : ⌈((N' : ℕ) : Rat)⌉ = (N' : Int) := by exact_mod_cast Int.ceil_natCast N'
    rw [this]; simp

/-- corollary (`routes_agree`): on the FFT grid (`m·Qy = M'`, `n·Qx = N'`, zero shift) the matrix DFT, the chirp-Z
transform and the padded FFT return the same array -/
theorem routes_agree (he : IsChar e) (hf : IsFaithful e) (m n M' N' K' L : Nat) (Qy Qx : R)
    (hQy : (m : R) * Qy = M') (hQx : (n : R) * Qx = N') (hm : 0 < m) (hn : 0 < n) (hmM : m ≤ M') (hnN : n ≤ N')
    (hK : cztRowFftLenArg m n M' N' ≤ K') (hL : cztColFftLenArg m n M' N' ≤ L)
    (f : Array (Array K)) (k l : Nat) (hk : k < M') (hl : l < N') :
    rd2 (czt2G cztSignsGen cztStagesGen e nrm cztRowWiring cztColWiring (cztGlueGen m M' K') (cztGlueGen n N' L)
          (m, n) (M', N') (K', L) (cztRowAlpha (m : R) (n : R) Qy Qx) (cztColAlpha (m : R) (n : R) Qy Qx) (0, 0) f) k l
      = rd2 (fftRoute2G focusFlagsGen e nrm (m, n) (M', N') (padLo (m : Int) (M' : Int), padLo (n : Int) (N' : Int)) f) k l
    ∧ mdft2G mdftFwdSign mdftDft2IsFwd e nrm mdftEoutWiring mdftEinWiring (m, n) (M', N')
        (mdftEoutScale (m : R) (n : R) Qy Qx) (mdftEinScale (m : R) (n : R) Qy Qx)
        (mdftEinNormSq (m : R) (n : R) Qy Qx) (mdftEoutNormSq (m : R) (n : R) Qy Qx) (0, 0) (rd2 f) k l
      = rd2 (fftRoute2G focusFlagsGen e nrm (m, n) (M', N') (padLo (m : Int) (M' : Int), padLo (n : Int) (N' : Int)) f) k l := by
  have hay : alphaOf m Qy = 1 / (M' : R) := by rw [alphaOf_eq, hQy]
  have hax : alphaOf n Qx = 1 / (N' : R) := by rw [alphaOf_eq, hQx]
  have hspec := fft_route_eq_spec nrm he m n M' N' hmM hnN f k l hk hl
  have hmd := mdft_eq_phase_mul_spec nrm he m n M' N' Qy Qx 0 0 (rd2 f) k l
  rw [shiftPhase_zero he, shiftPhase_zero he, one_mul, one_mul, hay, hax] at hmd
  constructor
  · rw [czt_eq_mdft nrm he hf m n M' N' K' L Qy Qx 0 0 f k l hm hn hk hl hK hL, hmd, hspec]
  · rw [hmd, hspec]

/-! ## fixed-sampling dispatch: `Q` and shift unit conversion -/

/-- with the `Q` and the shift that `focus_fixed_sampling` / `unfocus_fixed_sampling` hand to the engines, the kernel
exponent of both engines is the physical one, `x·ξ/(λ f)`: `x = (j − n//2)·dx_in` the input coordinate,
`ξ = (k − M//2)·dx_out − shift` the output coordinate (shift in output units), per axis and whatever the other axis is -/
theorem dispatch_kernel_is_physical (n M : Nat) (dxin efl wvl dxout s : R) (j k : Nat)
    (hn : (n : R) ≠ 0) (h1 : dxin ≠ 0) (h2 : efl ≠ 0) (h3 : wvl ≠ 0) (h4 : dxout ≠ 0) :
    alphaOf n (ffsQ (n : R) dxin efl wvl dxout) * ((xc n j : R) * ((xc M k : R) - ffsShift0 s dxin dxout))
      = ((xc n j : R) * dxin) * ((xc M k : R) * dxout - s) / (wvl * efl) ∧
    alphaOf n (ufsQ (n : R) dxin efl wvl dxout) * ((xc n j : R) * ((xc M k : R) - ufsShift1 s dxin dxout))
      = ((xc n j : R) * dxin) * ((xc M k : R) * dxout - s) / (wvl * efl) := by
  obtain ⟨q1, q2, s0, _, _, s3, _, _⟩ := gen_dispatch n dxin efl wvl dxout s hn h1 h2 h3 h4
  rw [q1, q2, s0, s3]
  constructor <;> field_simp

/-! ## executor caches: no dependence on history -/

/-- `MatrixDFTExecutor`: after ANY sequence of earlier calls (any arguments, any `config.precision`) and `clear()`s,
a call uses exactly the bases a fresh executor would build for it — for every way `_setup_bases` may compute from
what it reads (`build` arbitrary).  Scope: an abstract machine with the key fields and build-time reads extracted from
the source (`config.*`, hidden `self.*` and key components); argument normalisation in `_key` and module globals are
outside the model and are covered by the history stream of the correspondence only -/
theorem exec_history_independent_mdft {V B : Type} [DecidableEq V] (build : List V → B) (ops : List (Op V)) (st : St V) :
    (callStep ⟨mdftKeyFields, mdftBuildReads, build⟩ (runOps ⟨mdftKeyFields, mdftBuildReads, build⟩ [] ops) st).1
      = (callStep ⟨mdftKeyFields, mdftBuildReads, build⟩ [] st).1 :=
  exec_history_independent ⟨mdftKeyFields, mdftBuildReads, build⟩ gen_mdft_reads_subset_key ops st

/-- `ChirpZTransformExecutor`: the same -/
theorem exec_history_independent_czt {V B : Type} [DecidableEq V] (build : List V → B) (ops : List (Op V)) (st : St V) :
    (callStep ⟨cztKeyFields, cztBuildReads, build⟩ (runOps ⟨cztKeyFields, cztBuildReads, build⟩ [] ops) st).1
      = (callStep ⟨cztKeyFields, cztBuildReads, build⟩ [] st).1 :=
  exec_history_independent ⟨cztKeyFields, cztBuildReads, build⟩ gen_czt_reads_subset_key ops st

/-! ## executor dictionaries: the protocol of the source (several dictionaries, one probe) -/

/-- `MatrixDFTExecutor` (translated from `__init__` / `_setup_bases` / every entry point / `clear`): something is probed,
every dictionary an entry point indexes after `_setup_bases(key)` is written on the miss path, and `clear()` never empties
an indexed dictionary while leaving every probed one filled -/
theorem gen_mdft_cache_protocol : mdftProtoGen.WF := by decide

/-- `ChirpZTransformExecutor`: the same -/
theorem gen_czt_cache_protocol : cztProtoGen.WF := by decide

/-- `MatrixDFTExecutor`, the dictionaries as the source handles them (`Ein` and `Eout`, only `Ein` probed): after ANY
history of calls of ANY entry point (`dft2`, `idft2`, `dft2_backprop`, `idft2_backprop`; any arguments, any
`config.precision`) and `clear()`s, a call finds every entry it indexes (no `KeyError`: each lookup is `some`), each entry
is what the miss path builds for THIS call's arguments, and the whole answer equals that of a fresh executor — for every way
the miss path may compute from what it reads (`build` arbitrary, per dictionary).  Induction over the history with the
invariant `Val2OK ∧ Dom2OK`; consumes `gen_mdft_cache_protocol` and `gen_mdft_reads_subset_key` -/
theorem exec_dicts_history_independent_mdft {V B : Type} [DecidableEq V] (build : String → List V → B)
    (ops : List (Op V)) (st : St V) :
    (callStep2 ⟨mdftKeyFields, mdftBuildReads, build, mdftProtoGen⟩
        (runOps2 ⟨mdftKeyFields, mdftBuildReads, build, mdftProtoGen⟩ noDicts ops) st).1
      = mdftProtoGen.useReads.map (fun d => some (build d (mdftBuildReads.map st))) ∧
    (callStep2 ⟨mdftKeyFields, mdftBuildReads, build, mdftProtoGen⟩
        (runOps2 ⟨mdftKeyFields, mdftBuildReads, build, mdftProtoGen⟩ noDicts ops) st).1
      = (callStep2 ⟨mdftKeyFields, mdftBuildReads, build, mdftProtoGen⟩ noDicts st).1 :=
  exec2_history_independent ⟨mdftKeyFields, mdftBuildReads, build, mdftProtoGen⟩ gen_mdft_cache_protocol
    gen_mdft_reads_subset_key ops st

/-- `ChirpZTransformExecutor` (`components`): the same -/
theorem exec_dicts_history_independent_czt {V B : Type} [DecidableEq V] (build : String → List V → B)
    (ops : List (Op V)) (st : St V) :
    (callStep2 ⟨cztKeyFields, cztBuildReads, build, cztProtoGen⟩
        (runOps2 ⟨cztKeyFields, cztBuildReads, build, cztProtoGen⟩ noDicts ops) st).1
      = cztProtoGen.useReads.map (fun d => some (build d (cztBuildReads.map st))) ∧
    (callStep2 ⟨cztKeyFields, cztBuildReads, build, cztProtoGen⟩
        (runOps2 ⟨cztKeyFields, cztBuildReads, build, cztProtoGen⟩ noDicts ops) st).1
      = (callStep2 ⟨cztKeyFields, cztBuildReads, build, cztProtoGen⟩ noDicts st).1 :=
  exec2_history_independent ⟨cztKeyFields, cztBuildReads, build, cztProtoGen⟩ gen_czt_cache_protocol
    gen_czt_reads_subset_key ops st

/-- the invariant behind it, for every sound protocol and every history: an entry of an indexed dictionary is always the
freshly built value for its key, and a key held by every probed dictionary is held by every indexed one -/
theorem exec_dicts_invariant {V B : Type} [DecidableEq V] (x : Exec2 V B) (hwf : x.proto.WF)
    (h : ∀ r ∈ x.buildReads, r ∈ x.keyFields) (ops : List (Op V)) :
    Val2OK x (runOps2 x noDicts ops) ∧ Dom2OK x (runOps2 x noDicts ops) :=
  runOps2_ok x hwf (keyDet2_of_subset x h) ops noDicts (noDicts_ok x hwf)

/-! ## argument forms and the cache key -/

/-- `MatrixDFTExecutor._key` and the head of `czt2` (translated): every parameter that may be given as one number is broadcast
to a pair, `Q` is converted element-wise with `float`, sample counts with `int`, shifts enter as given — in BOTH engines alike -/
theorem gen_key_norm : mdftKeyNormGen = mdftKeyNormRef ∧ cztKeyNormGen = cztKeyNormRef ∧
    (∀ a ∈ cztKeyNormGen, a ∈ mdftKeyNormGen) ∧ (∀ a ∈ mdftKeyNormGen, a.broadcast = true) := by decide

/-- two argument forms (scalar / pair, any element types) give the SAME key component exactly when they denote the same
sampling after the element conversion (`conv`: `float(·)`, `int(·)`, identity — arbitrary here): same sampling → same key
(one cache entry, one answer), different sampling → different key (no collision).  For every parameter of both engines
(generated tables); no form raises -/
theorem key_component_eq_iff {V : Type} (conv : String → V → V) (a : ArgNorm) (ha : a ∈ mdftKeyNormGen ∨ a ∈ cztKeyNormGen)
    (x y : Arg V) :
    (normArg conv a x).isSome ∧
    (normArg conv a x = normArg conv a y ↔
      conv a.conv x.den.1 = conv a.conv y.den.1 ∧ conv a.conv x.den.2 = conv a.conv y.den.2) := by
  have hb : a.broadcast = true := by
    rcases ha with h | h
    · exact gen_key_norm.2.2.2 a h
    · exact gen_key_norm.2.2.2 a (gen_key_norm.2.2.1 a h)
  cases x <;> cases y <;> simp [normArg, Arg.den, hb]

/-! ## non-vacuity and illustrations (examples, not counted as obligations) -/

example : IsChar expKernel ∧ IsFaithful expKernel ∧ IsConj (starRingEnd ℂ) expKernel sqrtNrm :=
  ⟨expKernel_isChar, expKernel_isFaithful, expKernel_isConj⟩

/-- the chirp-Z theorem instantiated: `8×6 → 5×9`, per-axis `Q = (1.7, 2.3)`, shift `(1.5, −2.25)`, FFT lengths `(12, 14)` -/
example (f : Array (Array ℂ)) (k l : Nat) (hk : k < 5) (hl : l < 9) :
    rd2 (czt2G cztSignsGen cztStagesGen expKernel sqrtNrm cztRowWiring cztColWiring (cztGlueGen 8 5 12) (cztGlueGen 6 9 14)
          (8, 6) (5, 9) (12, 14)
          (cztRowAlpha ((8 : ℕ) : ℝ) ((6 : ℕ) : ℝ) 1.7 2.3) (cztColAlpha ((8 : ℕ) : ℝ) ((6 : ℕ) : ℝ) 1.7 2.3) (1.5, -2.25) f) k l
      = (shiftPhase expKernel 5 (alphaOf 8 1.7) (-2.25) k * shiftPhase expKernel 9 (alphaOf 6 2.3) 1.5 l)
          * spec2 expKernel sqrtNrm 8 6 5 9 (alphaOf 8 1.7) (alphaOf 6 2.3) (-2.25) 1.5 (rd2 f) k l :=
  czt2_eq_phase_mul_spec sqrtNrm expKernel_isChar expKernel_isFaithful 8 6 5 9 12 14 1.7 2.3 1.5 (-2.25) f k l
    (by omega) (by omega) hk hl
    (by have := (gen_czt_fftlen ((8 : ℕ) : ℤ) ((6 : ℕ) : ℤ) ((5 : ℕ) : ℤ) ((9 : ℕ) : ℤ)).1; omega)
    (by have := (gen_czt_fftlen ((8 : ℕ) : ℤ) ((6 : ℕ) : ℤ) ((5 : ℕ) : ℤ) ((9 : ℕ) : ℤ)).2; omega)

/-- the hypothesis of history independence is necessary: a key that omits something `build` reads returns a stale
basis (the behaviour of the pinned tree, where `config.precision` was read but not part of the key) -/
example :
    (callStep (V := Nat) (B := List Nat) ⟨["Q"], ["Q", "config.precision"], id⟩
        (runOps ⟨["Q"], ["Q", "config.precision"], id⟩ [] [Op.call (fun s => if s = "Q" then 2 else 32)])
        (fun s => if s = "Q" then 2 else 64)).1
      ≠ (callStep (V := Nat) (B := List Nat) ⟨["Q"], ["Q", "config.precision"], id⟩ []
        (fun s => if s = "Q" then 2 else 64)).1 := by decide

/-- non-vacuity: the reference protocols are sound, and the hypotheses of `exec_dicts_invariant` are met by an executor
with two key fields -/
example : mdftProtoRef.WF ∧ cztProtoRef.WF := by decide
example : (⟨["Q", "p"], ["Q", "p"], fun d l => (d, l), mdftProtoRef⟩ : Exec2 Nat (String × List Nat)).proto.WF ∧
    ∀ r ∈ ["Q", "p"], r ∈ ["Q", "p"] := by decide

/-- soundness of the protocol is necessary (1): a `clear()` that empties `Eout` only leaves `Ein` filled, the probe hits,
and the next identical call raises `KeyError` on `Eout` (second lookup is `none`) -/
example :
    (callStep2 (V := Nat) (B := Nat) ⟨["Q"], ["Q"], fun _ l => l.length, ⟨["Ein"], ["Ein", "Eout"], ["Ein", "Eout"], ["Eout"]⟩⟩
        (runOps2 ⟨["Q"], ["Q"], fun _ l => l.length, ⟨["Ein"], ["Ein", "Eout"], ["Ein", "Eout"], ["Eout"]⟩⟩ noDicts
          [Op.call (fun _ => 2), Op.clear]) (fun _ => 2)).1 = [some 1, none] := by decide

/-- (2): a miss path that forgets to store `Eout` raises `KeyError` on the very first call -/
example :
    (callStep2 (V := Nat) (B := Nat) ⟨["Q"], ["Q"], fun _ l => l.length, ⟨["Ein"], ["Ein"], ["Ein", "Eout"], ["Ein", "Eout"]⟩⟩
        noDicts (fun _ => 2)).1 = [some 1, none] := by decide

/-- `Q = 2` and `Q = (2.0, 2.0)` give one key component under a conversion that identifies them; a scalar that is NOT broadcast
(the pinned `mdft` behaviour for lists was of this kind) has no key at all -/
example : normArg (V := Int) (fun _ v => v) ⟨"Q", true, "float"⟩ (.scalar 2) = normArg (fun _ v => v) ⟨"Q", true, "float"⟩ (.pair 2 2) ∧
    normArg (V := Int) (fun _ v => v) ⟨"Q", false, "float"⟩ (.scalar 2) = none := by decide

/-- the pinned lag offset `(N−M)//2` equals the correct `N//2 − M//2` iff NOT (input length even and output length odd) -/
example (n M : Int) : (n - M) / 2 = n / 2 - M / 2 ↔ ¬ (n % 2 = 0 ∧ M % 2 = 1) := by omega

end C01
