import PrysmVerif.Generated.C03
import PrysmVerif.Lemmas.C03Fourier
import PrysmVerif.Lemmas.C03Rotation
import PrysmVerif.Lemmas.C05Instance
import Mathlib.Tactic.NormNum
/-!
# C03 — output sampling and coordinates are physically correct

Scalars live in an arbitrary field `K` (coordinates `R`, field values `V` for the Fourier statements); the
Fourier kernel is an arbitrary character `e : R → V` (`e (a+b) = e a * e b`), read as `e t = exp(-2πi t)`.
Theorems whose subject lives in `Generated.C03` are re-checked against the current source on every run.
Axis 0 = rows = y, axis 1 = columns = x; `shift[0]` is the x shift, `shift[1]` the y shift (as in both executors).
-/
set_option linter.unusedTactic false
set_option linter.unreachableTactic false
set_option linter.unusedSectionVars false
set_option linter.unusedVariables false
set_option linter.unusedSimpArgs false

open C03Lemmas
namespace C03
open Generated.C03

section scalar
variable {K : Type} [Field K] [DecidableEq K]

/-! ## translated obligations: the generated glue equals the hand model (∀ inputs) -/

/-- `Q_for_sampling` of the source is `(λ z / D) / dx_out` -/
theorem gen_qForSampling (D z lam dxo : K) : qForSampling D z lam dxo = Model.C03.qForSampling D z lam dxo := by
  simp only [qForSampling, Model.C03.qForSampling] <;> (try ring)

/-- the two spacing conversions of the source are `f λ / (dx N)` -/
theorem gen_conversions (x N lam efl : K) :
    pupilToPsf x N lam efl = Model.C03.pupilToPsf x N lam efl ∧ psfToPupil x N lam efl = Model.C03.psfToPupil x N lam efl := by
  constructor <;> simp only [pupilToPsf, psfToPupil, Model.C03.pupilToPsf, Model.C03.psfToPupil] <;> (try ring)

/-- `focus_fixed_sampling` hands the transform one `Q` per axis, each from that axis's own sample count -/
theorem gen_ffsQ (s0 s1 M0 M1 dx z lam dxo sh0 sh1 : K) :
    ffsQ0 s0 s1 M0 M1 dx z lam dxo sh0 sh1 = Model.C03.axisQ s0 dx z lam dxo ∧
    ffsQ1 s0 s1 M0 M1 dx z lam dxo sh0 sh1 = Model.C03.axisQ s1 dx z lam dxo := by
  constructor <;> simp only [ffsQ0, ffsQ1, qForSampling, Model.C03.axisQ, Model.C03.qForSampling] <;> (try ring)

/-- `unfocus_fixed_sampling` likewise (per axis, from the focal-plane array it is given) -/
theorem gen_ufsQ (s0 s1 M0 M1 dx z lam dxo sh0 sh1 : K) :
    ufsQ0 s0 s1 M0 M1 dx z lam dxo sh0 sh1 = Model.C03.axisQ s0 dx z lam dxo ∧
    ufsQ1 s0 s1 M0 M1 dx z lam dxo sh0 sh1 = Model.C03.axisQ s1 dx z lam dxo := by
  constructor <;> simp only [ufsQ0, ufsQ1, qForSampling, Model.C03.axisQ, Model.C03.qForSampling] <;> (try ring)

/-- both fixed-sampling routes convert the requested shift to output samples: `shift / output_dx` -/
theorem gen_shift (s0 s1 M0 M1 dx z lam dxo sh0 sh1 : K) :
    ffsShift0 s0 s1 M0 M1 dx z lam dxo sh0 sh1 = Model.C03.shiftSamples sh0 dxo ∧
    ffsShift1 s0 s1 M0 M1 dx z lam dxo sh0 sh1 = Model.C03.shiftSamples sh1 dxo ∧
    ufsShift0 s0 s1 M0 M1 dx z lam dxo sh0 sh1 = Model.C03.shiftSamples sh0 dxo ∧
    ufsShift1 s0 s1 M0 M1 dx z lam dxo sh0 sh1 = Model.C03.shiftSamples sh1 dxo := by
  refine ⟨?_, ?_, ?_, ?_⟩ <;>
    simp only [ffsShift0, ffsShift1, ufsShift0, ufsShift1, Model.C03.shiftSamples, ofInt_eq, Int.cast_zero] <;>
    (try split) <;> (try simp_all) <;> (try ring)

/-- `Wavefront.focus` / `unfocus` report the spacing computed from axis 1 of the propagated array -/
theorem gen_reportedDx (dx N0 N1 lam efl : K) :
    focusDx dx N0 N1 lam efl = Model.C03.focusDx dx N1 lam efl ∧
    unfocusDx dx N0 N1 lam efl = Model.C03.psfToPupil dx N1 lam efl := by
  constructor <;>
    simp only [focusDx, unfocusDx, pupilToPsf, psfToPupil, Model.C03.focusDx, Model.C03.pupilToPsf, Model.C03.psfToPupil] <;>
    (try ring)

/-- the `Wavefront` wrappers feed `self.dx`, `efl`, `self.wavelength`, the requested `dx` into the matching
parameters and report exactly the spacing they requested -/
theorem gen_wrappers (sdx swl efl dx : K) :
    ffsWrapInputDx sdx swl efl dx = sdx ∧ ffsWrapPropDist sdx swl efl dx = efl ∧ ffsWrapWavelength sdx swl efl dx = swl ∧
    ffsWrapOutputDx sdx swl efl dx = dx ∧ ffsWrapReportedDx sdx swl efl dx = ffsWrapOutputDx sdx swl efl dx ∧
    ufsWrapInputDx sdx swl efl dx = sdx ∧ ufsWrapPropDist sdx swl efl dx = efl ∧ ufsWrapWavelength sdx swl efl dx = swl ∧
    ufsWrapOutputDx sdx swl efl dx = dx ∧ ufsWrapReportedDx sdx swl efl dx = ufsWrapOutputDx sdx swl efl dx := by
  simp only [ffsWrapInputDx, ffsWrapPropDist, ffsWrapWavelength, ffsWrapOutputDx, ffsWrapReportedDx,
    ufsWrapInputDx, ufsWrapPropDist, ufsWrapWavelength, ufsWrapOutputDx, ufsWrapReportedDx, and_self]

/-- structural facts read off the AST: the FFT routes are `fftshift(fft2/ifft2(ifftshift(pad2d(x, Q)), norm='ortho'))` -/
theorem gen_structure : focusIsShiftedOrthoFft2OfPad = true ∧ unfocusIsShiftedOrthoIfft2OfPad = true := by decide

/-! ## the property, stated over the generated definitions -/

/-- the pupil↔PSF spacing conversions are exact inverses of each other (all non-zero arguments) -/
theorem sample_conv_inverse (x N lam efl : K) (hx : x ≠ 0) (hN : N ≠ 0) (hl : lam ≠ 0) (hf : efl ≠ 0) :
    psfToPupil (pupilToPsf x N lam efl) N lam efl = x ∧ pupilToPsf (psfToPupil x N lam efl) N lam efl = x := by
  constructor <;> simp only [pupilToPsf, psfToPupil, Model.C03.qForSampling, Model.C03.pupilToPsf, Model.C03.psfToPupil, Model.C03.axisQ, Model.C03.shiftSamples, Model.C03.focusDx] <;> field_simp

/-- `Q_for_sampling` inverts the FFT-route spacing: asking for the spacing the FFT would give returns `Q = 1`·(pad factor),
i.e. `Q_for_sampling(n dx, f, λ, pupil_sample_to_psf_sample(dx, n Q, λ, f)) = Q` -/
theorem q_for_sampling_of_fft_spacing (n dx Q lam efl : K) (hn : n ≠ 0) (hdx : dx ≠ 0) (hQ : Q ≠ 0) (hl : lam ≠ 0)
    (hf : efl ≠ 0) : qForSampling (n * dx) efl lam (pupilToPsf dx (n * Q) lam efl) = Q := by
  simp only [qForSampling, pupilToPsf, Model.C03.qForSampling, Model.C03.pupilToPsf, Model.C03.psfToPupil, Model.C03.axisQ, Model.C03.shiftSamples, Model.C03.focusDx]; field_simp

/-- focusing: the kernel constant `1/(n_a Q_a)` of EACH axis equals `dx·dx_out/(λ z)`, whatever the shape -/
theorem ffsQ_axes (s0 s1 M0 M1 dx z lam dxo sh0 sh1 : K) (h0 : s0 ≠ 0) (h1 : s1 ≠ 0) (hdx : dx ≠ 0) (hz : z ≠ 0)
    (hl : lam ≠ 0) (hd : dxo ≠ 0) :
    1 / (s0 * ffsQ0 s0 s1 M0 M1 dx z lam dxo sh0 sh1) = dx * dxo / (lam * z) ∧
    1 / (s1 * ffsQ1 s0 s1 M0 M1 dx z lam dxo sh0 sh1) = dx * dxo / (lam * z) := by
  constructor <;> simp only [ffsQ0, ffsQ1, qForSampling, Model.C03.qForSampling, Model.C03.pupilToPsf, Model.C03.psfToPupil, Model.C03.axisQ, Model.C03.shiftSamples, Model.C03.focusDx] <;> field_simp

/-- non-vacuity (exact rationals): a 9 × 12 pupil gets two different `Q`s -/
example : qForSampling (8 * (1/2 : ℚ)) 100 (1/2) (25/4) = 2 := by norm_num [qForSampling, Model.C03.qForSampling, Model.C03.pupilToPsf, Model.C03.psfToPupil, Model.C03.axisQ, Model.C03.shiftSamples, Model.C03.focusDx]
example : ffsQ1 (9 : ℚ) 12 15 22 (1/2) 100 (1/2) 5 0 0 = 5 / 3 ∧ ffsQ0 (9 : ℚ) 12 15 22 (1/2) 100 (1/2) 5 0 0 = 20 / 9 := by
  constructor <;> norm_num [ffsQ0, ffsQ1, qForSampling, Model.C03.qForSampling, Model.C03.pupilToPsf, Model.C03.psfToPupil, Model.C03.axisQ, Model.C03.shiftSamples, Model.C03.focusDx]

/-- un-focusing: the same, per axis of the focal-plane array (`dx` = focal spacing, `dxo` = pupil spacing) -/
theorem ufsQ_axes (s0 s1 M0 M1 dx z lam dxo sh0 sh1 : K) (h0 : s0 ≠ 0) (h1 : s1 ≠ 0) (hdx : dx ≠ 0) (hz : z ≠ 0)
    (hl : lam ≠ 0) (hd : dxo ≠ 0) :
    1 / (s0 * ufsQ0 s0 s1 M0 M1 dx z lam dxo sh0 sh1) = dx * dxo / (lam * z) ∧
    1 / (s1 * ufsQ1 s0 s1 M0 M1 dx z lam dxo sh0 sh1) = dx * dxo / (lam * z) := by
  constructor <;> simp only [ufsQ0, ufsQ1, qForSampling, Model.C03.qForSampling, Model.C03.pupilToPsf, Model.C03.psfToPupil, Model.C03.axisQ, Model.C03.shiftSamples, Model.C03.focusDx] <;> field_simp

/-- the hand model's kernel constant is the same expression (used by the 2-D statements below) -/
theorem axisAlpha_eq (s dx z lam dxo : K) (hs : s ≠ 0) (hdx : dx ≠ 0) (hz : z ≠ 0) (hl : lam ≠ 0) (hd : dxo ≠ 0) :
    Model.C03.axisAlpha s dx z lam dxo = dx * dxo / (lam * z) := by
  simp only [Model.C03.axisAlpha, Model.C03.axisQ, Model.C03.qForSampling, ofInt_eq, Int.cast_one]; field_simp

/-- a requested shift reaches the transform as `shift / dx_out` output samples, on both axes, both routes, also for
zero shifts (where the source skips the division) -/
theorem shift_in_output_samples (s0 s1 M0 M1 dx z lam dxo sh0 sh1 : K) :
    ffsShift0 s0 s1 M0 M1 dx z lam dxo sh0 sh1 = sh0 / dxo ∧ ffsShift1 s0 s1 M0 M1 dx z lam dxo sh0 sh1 = sh1 / dxo ∧
    ufsShift0 s0 s1 M0 M1 dx z lam dxo sh0 sh1 = sh0 / dxo ∧ ufsShift1 s0 s1 M0 M1 dx z lam dxo sh0 sh1 = sh1 / dxo := by
  simpa only [Model.C03.shiftSamples] using gen_shift s0 s1 M0 M1 dx z lam dxo sh0 sh1

/-- FFT route, axis 1 (x): the reported spacing is the true one, `1/N₁ = dx·dx_rep/(λ f)`, for every padded shape -/
theorem fft_dx_axis1 (dx N0 N1 lam efl : K) (hdx : dx ≠ 0) (hN : N1 ≠ 0) (hl : lam ≠ 0) (hf : efl ≠ 0) :
    1 / N1 = dx * focusDx dx N0 N1 lam efl / (lam * efl) ∧ 1 / N1 = dx * unfocusDx dx N0 N1 lam efl / (lam * efl) := by
  constructor <;> simp only [focusDx, unfocusDx, pupilToPsf, psfToPupil, Model.C03.qForSampling, Model.C03.pupilToPsf, Model.C03.psfToPupil, Model.C03.axisQ, Model.C03.shiftSamples, Model.C03.focusDx] <;> field_simp

/-- FFT route, axis 0 (y): the single reported spacing is the true one **iff the padded array is square**
(defect #37 characterised exactly: for `N₀ ≠ N₁` no reported number can serve both axes) -/
theorem fft_dx_axis0_iff_square (dx N0 N1 lam efl : K) (hdx : dx ≠ 0) (hN0 : N0 ≠ 0) (hN : N1 ≠ 0) (hl : lam ≠ 0)
    (hf : efl ≠ 0) : 1 / N0 = dx * focusDx dx N0 N1 lam efl / (lam * efl) ↔ N0 = N1 := by
  simp only [focusDx, pupilToPsf, Model.C03.qForSampling, Model.C03.pupilToPsf, Model.C03.psfToPupil, Model.C03.axisQ, Model.C03.shiftSamples, Model.C03.focusDx]
  constructor
  · intro h
    field_simp at h
    exact h.symm
  · intro h; subst h; field_simp

/-- non-vacuity: on a 9 × 12 padded array the reported spacing is NOT the spacing of axis 0 -/
example : (1 : ℚ) / 9 ≠ (1/2) * focusDx (1/2 : ℚ) 9 12 (1/2) 100 / ((1/2) * 100) := by
  simp only [focusDx, pupilToPsf, Model.C03.qForSampling, Model.C03.pupilToPsf, Model.C03.psfToPupil, Model.C03.axisQ, Model.C03.shiftSamples, Model.C03.focusDx]; norm_num

end scalar

section fourier
variable {R V : Type} [Field R] [Field V] [DecidableEq R]
open Model.C03

/-- the inverse kernel `t ↦ e (-t)` of a character is a character -/
theorem inv_character (e : R → V) (he : ∀ a b, e (a + b) = e a * e b) :
    ∀ a b, (fun t => e (-t)) (a + b) = (fun t => e (-t)) a * (fun t => e (-t)) b := by
  intro a b; simp only [neg_add, he]

/-- tilt theorem: `k` waves of tilt across an aperture of width `D = n·dx` displace the focal field by exactly
`k λ z / D` along that axis — for every real `k` (fractional, either sign), every size and parity -/
theorem tilt_shift (e : R → V) (he : ∀ a b, e (a + b) = e a * e b) (n : Nat) (dx lam z k : R) (f : Nat → V) (ξ : R)
    (hn : (n : R) ≠ 0) (hdx : dx ≠ 0) (hl : lam ≠ 0) (hz : z ≠ 0) :
    F1 e n dx (1 / (lam * z)) (fun i => f i * tilt e n k i) ξ
      = F1 e n dx (1 / (lam * z)) f (ξ - k * lam * z / ((n : R) * dx)) := by
  have hκ : (1 / (lam * z) : R) ≠ 0 := one_div_ne_zero (mul_ne_zero hl hz)
  rw [F1_tilt e he n dx (1 / (lam * z)) k f ξ hn hdx hκ]
  congr 2
  field_simp

/-- a flat pupil adds all its `n` samples in phase at the geometric focus `ξ = 0` -/
theorem flat_peak (e : R → V) (he0 : e 0 = 1) (n : Nat) (dx κ : R) (a : V) :
    F1 e n dx κ (fun _ => a) 0 = (n : V) * a := by
  simp [F1_eq_sum, he0]

/-- one axis of either fixed-sampling route, for any per-axis `Q` and sample shift `s` that satisfy the two
translated obligations: array element `l` is a unit phase times the physical integral at `ξ = (l - N//2)·dx_out - shift` -/
theorem axis_samples_F (e : R → V) (he : ∀ a b, e (a + b) = e a * e b) (n N : Nat) (Q s dx z lam dxo sh : R)
    (f : Nat → V) (l : Nat) (hQ : 1 / ((n : R) * Q) = dx * dxo / (lam * z)) (hs : s = sh / dxo) (hd : dxo ≠ 0) :
    mdft1 e n N (1 / ((n : R) * Q)) s f l
      = e (-(s * (coord N l - s) * (1 / ((n : R) * Q)))) * F1 e n dx (1 / (lam * z)) f (coord N l * dxo - sh) := by
  rw [mdft1_samples_F e he n N _ s dx dxo (1 / (lam * z)) f l (by rw [hQ]; ring)]
  congr 2
  rw [hs]; field_simp

/-- `focus_fixed_sampling` as translated from the source (generated per-axis `Q`, generated shifts): on the x axis
(axis 1, `shift[0]`) and on the y axis (axis 0, `shift[1]`) element `l` / `k` samples the physical integral at
`(l - N//2)·dx_out - shift_x`, resp. `(k - M//2)·dx_out - shift_y`, up to a unit phase -/
theorem ffs_samples_F (e : R → V) (he : ∀ a b, e (a + b) = e a * e b) (m n M N : Nat) (dx z lam dxo sh0 sh1 : R)
    (f : Nat → V) (g : Nat → V) (k l : Nat)
    (hm : (m : R) ≠ 0) (hn : (n : R) ≠ 0) (hdx : dx ≠ 0) (hz : z ≠ 0) (hl : lam ≠ 0) (hd : dxo ≠ 0) :
    (mdft1 e n N (1 / ((n : R) * ffsQ1 (m : R) n M N dx z lam dxo sh0 sh1)) (ffsShift0 (m : R) n M N dx z lam dxo sh0 sh1) f l
      = e (-(ffsShift0 (m : R) n M N dx z lam dxo sh0 sh1 * (coord N l - ffsShift0 (m : R) n M N dx z lam dxo sh0 sh1)
            * (1 / ((n : R) * ffsQ1 (m : R) n M N dx z lam dxo sh0 sh1))))
        * F1 e n dx (1 / (lam * z)) f (coord N l * dxo - sh0)) ∧
    (mdft1 e m M (1 / ((m : R) * ffsQ0 (m : R) n M N dx z lam dxo sh0 sh1)) (ffsShift1 (m : R) n M N dx z lam dxo sh0 sh1) g k
      = e (-(ffsShift1 (m : R) n M N dx z lam dxo sh0 sh1 * (coord M k - ffsShift1 (m : R) n M N dx z lam dxo sh0 sh1)
            * (1 / ((m : R) * ffsQ0 (m : R) n M N dx z lam dxo sh0 sh1))))
        * F1 e m dx (1 / (lam * z)) g (coord M k * dxo - sh1)) := by
  have hQ := ffsQ_axes (m : R) n M N dx z lam dxo sh0 sh1 hm hn hdx hz hl hd
  have hS := shift_in_output_samples (m : R) n M N dx z lam dxo sh0 sh1
  exact ⟨axis_samples_F e he n N _ _ dx z lam dxo sh0 f l hQ.2 hS.1 hd,
         axis_samples_F e he m M _ _ dx z lam dxo sh1 g k hQ.1 hS.2.1 hd⟩

/-- `unfocus_fixed_sampling` as translated from the source: the same statement with the inverse kernel
(`dx` = focal-plane spacing of the input, `dxo` = requested pupil spacing) -/
theorem ufs_samples_F (e : R → V) (he : ∀ a b, e (a + b) = e a * e b) (m n M N : Nat) (dx z lam dxo sh0 sh1 : R)
    (f : Nat → V) (g : Nat → V) (k l : Nat)
    (hm : (m : R) ≠ 0) (hn : (n : R) ≠ 0) (hdx : dx ≠ 0) (hz : z ≠ 0) (hl : lam ≠ 0) (hd : dxo ≠ 0) :
    (mdft1 (fun t => e (-t)) n N (1 / ((n : R) * ufsQ1 (m : R) n M N dx z lam dxo sh0 sh1)) (ufsShift0 (m : R) n M N dx z lam dxo sh0 sh1) f l
      = e (-(-(ufsShift0 (m : R) n M N dx z lam dxo sh0 sh1 * (coord N l - ufsShift0 (m : R) n M N dx z lam dxo sh0 sh1)
            * (1 / ((n : R) * ufsQ1 (m : R) n M N dx z lam dxo sh0 sh1)))))
        * F1 (fun t => e (-t)) n dx (1 / (lam * z)) f (coord N l * dxo - sh0)) ∧
    (mdft1 (fun t => e (-t)) m M (1 / ((m : R) * ufsQ0 (m : R) n M N dx z lam dxo sh0 sh1)) (ufsShift1 (m : R) n M N dx z lam dxo sh0 sh1) g k
      = e (-(-(ufsShift1 (m : R) n M N dx z lam dxo sh0 sh1 * (coord M k - ufsShift1 (m : R) n M N dx z lam dxo sh0 sh1)
            * (1 / ((m : R) * ufsQ0 (m : R) n M N dx z lam dxo sh0 sh1)))))
        * F1 (fun t => e (-t)) m dx (1 / (lam * z)) g (coord M k * dxo - sh1)) := by
  have hQ := ufsQ_axes (m : R) n M N dx z lam dxo sh0 sh1 hm hn hdx hz hl hd
  have hS := shift_in_output_samples (m : R) n M N dx z lam dxo sh0 sh1
  exact ⟨axis_samples_F _ (inv_character e he) n N _ _ dx z lam dxo sh0 f l hQ.2 hS.2.2.1 hd,
         axis_samples_F _ (inv_character e he) m M _ _ dx z lam dxo sh1 g k hQ.1 hS.2.2.2 hd⟩

/-- spot location by the fixed-sampling route: a pupil carrying `k` waves of tilt along x is imaged as the untilted
pupil displaced by `k λ z / D`, in the coordinates `(l - N//2)·dx_out - shift_x` of the requested grid — every shape
(the rows count `m` does not enter), every `k`, every requested spacing and shift -/
theorem ffs_spot_location (e : R → V) (he : ∀ a b, e (a + b) = e a * e b) (m n M N : Nat) (dx z lam dxo sh0 sh1 kw : R)
    (f : Nat → V) (l : Nat)
    (hm : (m : R) ≠ 0) (hn : (n : R) ≠ 0) (hdx : dx ≠ 0) (hz : z ≠ 0) (hl : lam ≠ 0) (hd : dxo ≠ 0) :
    mdft1 e n N (1 / ((n : R) * ffsQ1 (m : R) n M N dx z lam dxo sh0 sh1)) (ffsShift0 (m : R) n M N dx z lam dxo sh0 sh1)
        (fun i => f i * tilt e n kw i) l
      = e (-(ffsShift0 (m : R) n M N dx z lam dxo sh0 sh1 * (coord N l - ffsShift0 (m : R) n M N dx z lam dxo sh0 sh1)
            * (1 / ((n : R) * ffsQ1 (m : R) n M N dx z lam dxo sh0 sh1))))
        * F1 e n dx (1 / (lam * z)) f (coord N l * dxo - sh0 - kw * lam * z / ((n : R) * dx)) := by
  rw [(ffs_samples_F e he m n M N dx z lam dxo sh0 sh1 (fun i => f i * tilt e n kw i) (fun _ => 0) 0 l hm hn hdx hz hl hd).1,
    tilt_shift e he n dx lam z kw f _ hn hdx hl hz]

/-- a displaced focal spot unfocuses to the corresponding pupil tilt: a point source at focal sample `p`
(physical position `ξ₀ = (p - N//2 - s)·dx_f`) gives a pupil field whose sample `i` is `a · phase · tilt_k[i]` with
`k = ξ₀·D/(λ z)` waves across the pupil width `D = n·dx_p` -/
theorem unfocus_spot_is_tilt (e : R → V) (he : ∀ a b, e (a + b) = e a * e b) (n N : Nat) (dxf dxp lam z s : R) (a : V)
    (p i : Nat) (hp : p < N) (hn : (n : R) ≠ 0) :
    mdft1 (fun t => e (-t)) N n (dxf * dxp / (lam * z)) s (fun l => if l = p then a else 0) i
      = a * (e (s * (coord N p - s) * (dxf * dxp / (lam * z)))
          * tilt e n ((coord N p - s) * dxf * ((n : R) * dxp) / (lam * z)) i) := by
  rw [mdft1_eq_sum, Finset.sum_eq_single p]
  · simp only [if_true, tilt, ← he, ofInt_eq, Int.cast_natCast]
    congr 2
    field_simp
    ring
  · intro b _ hb; simp [hb]
  · intro h; exact absurd (Finset.mem_range.mpr hp) h

/-- a requested shift translates the image by exactly that many output samples: asking for `p·dx_out` more shift
moves every array element `p` samples further (the unit phase does not depend on the input sample) -/
theorem shift_translates (e : R → V) (he : ∀ a b, e (a + b) = e a * e b) (m n M N : Nat) (dx z lam dxo sh0 sh1 α : R)
    (p : Nat) (f : Nat → V) (l : Nat) (hd : dxo ≠ 0) :
    mdft1 e n N α (ffsShift0 (m : R) n M N dx z lam dxo (sh0 + p * dxo) sh1) f (l + p)
      = e (-((p : R) * (coord N l - ffsShift0 (m : R) n M N dx z lam dxo sh0 sh1) * α))
        * mdft1 e n N α (ffsShift0 (m : R) n M N dx z lam dxo sh0 sh1) f l := by
  have h1 := (shift_in_output_samples (m : R) n M N dx z lam dxo (sh0 + p * dxo) sh1).1
  have h2 := (shift_in_output_samples (m : R) n M N dx z lam dxo sh0 sh1).1
  rw [h1, h2, show (sh0 + (p : R) * dxo) / dxo = sh0 / dxo + (p : R) by field_simp]
  exact mdft1_shift_translates e he n N α (sh0 / dxo) p f l

/-- the full 2-D model of `focus_fixed_sampling` (kernel `e`) / `unfocus_fixed_sampling` (kernel `t ↦ e (-t)`):
element `[k,l]` = norm · unit phase · the 2-D physical integral at `((k - M//2)·dx_out - shift_y, (l - N//2)·dx_out - shift_x)`,
for every input shape `m × n` (square or not) and every output shape -/
theorem fixedSampling_samples_F2 (e : R → V) (he : ∀ a b, e (a + b) = e a * e b) (ofR : R → V) (sqrt : R → R)
    (m n M N : Nat) (dx z lam dxo shx shy : R) (f : Nat → Nat → V) (k l : Nat)
    (hm : (m : R) ≠ 0) (hn : (n : R) ≠ 0) (hdx : dx ≠ 0) (hz : z ≠ 0) (hl : lam ≠ 0) (hd : dxo ≠ 0) :
    fixedSampling e ofR sqrt m n M N dx z lam dxo shx shy f k l
      = ofR (sqrt (dx * dxo / (lam * z)) * sqrt (dx * dxo / (lam * z)))
        * (e (-(shy / dxo * (coord M k - shy / dxo) * (dx * dxo / (lam * z))))
          * e (-(shx / dxo * (coord N l - shx / dxo) * (dx * dxo / (lam * z)))))
        * F2 e m n dx (1 / (lam * z)) f (coord M k * dxo - shy) (coord N l * dxo - shx) := by
  have hα : dx * dxo / (lam * z) = dx * dxo * (1 / (lam * z)) := by ring
  simp only [fixedSampling, mdft2, F2, shiftSamples, ofInt_eq, Int.cast_natCast,
    axisAlpha_eq _ dx z lam dxo hm hdx hz hl hd, axisAlpha_eq _ dx z lam dxo hn hdx hz hl hd]
  rw [show (fun j => mdft1 e n N (dx * dxo / (lam * z)) (shx / dxo) (f j) l)
      = fun j => e (-(shx / dxo * (coord N l - shx / dxo) * (dx * dxo / (lam * z))))
          * F1 e n dx (1 / (lam * z)) (f j) ((coord N l - shx / dxo) * dxo) from
        funext fun j => mdft1_samples_F e he n N _ _ dx dxo (1 / (lam * z)) (f j) l hα]
  rw [mdft1_smul, mdft1_samples_F e he m M _ _ dx dxo (1 / (lam * z)) _ k hα]
  rw [show (coord M k - shy / dxo) * dxo = coord M k * dxo - shy by field_simp,
      show (coord N l - shx / dxo) * dxo = coord N l * dxo - shx by field_simp]
  ring

/-- FFT route on one axis: the centred DFT of the zero-padded axis (pad offset `N//2 - n//2`, C04) samples the physical
integral at `(l - N//2)·dx_rep` where `dx_rep = λ f/(N dx)` is the spacing `Wavefront.focus` reports from THIS axis's
padded length -/
theorem fft_route_samples_F (e : R → V) (n N : Nat) (hnN : n ≤ N) (dx lam efl N0 : R) (f : Nat → V) (l : Nat)
    (hN : (N : R) ≠ 0) (hdx : dx ≠ 0) (hl : lam ≠ 0) (hf : efl ≠ 0) :
    cdft1 e N (padded n N f) l = F1 e n dx (1 / (lam * efl)) f (coord N l * focusDx dx N0 (N : R) lam efl) := by
  simp only [cdft1, sumTo_eq_sum, F1_eq_sum, ofInt_eq, Int.cast_natCast]
  rw [sum_padded n N hnN f (fun c => e (c * coord N l / (N : R)))]
  refine Finset.sum_congr rfl fun i _ => ?_
  congr 2
  simp only [Generated.C03.focusDx, Generated.C03.pupilToPsf, Model.C03.qForSampling, Model.C03.pupilToPsf, Model.C03.psfToPupil, Model.C03.axisQ, Model.C03.shiftSamples, Model.C03.focusDx]
  field_simp

/-- what the FFT route computes on one axis — `fftshift(fft(ifftshift(·)))` with NumPy's index rotations, `fft` being the
plain DFT sum — IS the centred DFT, for every length (odd or even) -/
theorem fft_route_is_centred_dft (e : R → V) (he : ∀ a b, e (a + b) = e a * e b) (hint : ∀ z : ℤ, e (z : R) = 1)
    [CharZero R] (N : Nat) (x : Nat → V) (l : Nat) (hl : l < N) : fftRoute1 e N x l = cdft1 e N x l :=
  fftRoute1_eq_cdft1 e he hint N x l hl

/-- FFT route end to end on one axis: pad (origin on origin), rotate, DFT, rotate back — element `l` is the physical
integral at `(l - N//2)·dx_rep`, `dx_rep` the spacing reported from this axis's padded length -/
theorem fft_route_end_to_end (e : R → V) (he : ∀ a b, e (a + b) = e a * e b) (hint : ∀ z : ℤ, e (z : R) = 1)
    [CharZero R] (n N : Nat) (hnN : n ≤ N) (dx lam efl N0 : R) (f : Nat → V) (l : Nat) (hl : l < N)
    (hdx : dx ≠ 0) (hlam : lam ≠ 0) (hf : efl ≠ 0) :
    fftRoute1 e N (padded n N f) l = F1 e n dx (1 / (lam * efl)) f (coord N l * focusDx dx N0 (N : R) lam efl) := by
  rw [fftRoute1_eq_cdft1 e he hint N _ l hl]
  exact fft_route_samples_F e n N hnN dx lam efl N0 f l (by exact_mod_cast (show N ≠ 0 by omega)) hdx hlam hf

/-- non-vacuity: `e t = exp(-2πi t)` on `ℝ → ℂ` satisfies every hypothesis made on the kernel above -/
example : (∀ a b, eReal (a + b) = eReal a * eReal b) ∧ eReal 0 = 1 ∧ (∀ z : ℤ, eReal (z : ℝ) = 1) :=
  ⟨eReal_add, eReal_zero, eReal_int⟩

/-- the tilt theorem for the actual kernel: `k` waves of tilt move the focal field of ANY pupil by `k λ f / D` -/
theorem tilt_shift_real (n : Nat) (hn : 0 < n) (dx lam z k : ℝ) (f : Nat → ℂ) (ξ : ℝ) (hdx : dx ≠ 0) (hl : lam ≠ 0) (hz : z ≠ 0) :
    F1 eReal n dx (1 / (lam * z)) (fun i => f i * tilt eReal n k i) ξ
      = F1 eReal n dx (1 / (lam * z)) f (ξ - k * lam * z / ((n : ℝ) * dx)) :=
  tilt_shift eReal eReal_add n dx lam z k f ξ (by exact_mod_cast hn.ne') hdx hl hz

/-- the spot: for the actual kernel, the focal field of a flat pupil carrying `k` waves of tilt is nowhere brighter than at
`ξ = k λ f / D`, where all `n` samples add in phase (`|F| = n·|a|`) — every size, every real `k` -/
theorem spot_is_brightest_real (n : Nat) (hn : 0 < n) (dx lam z k : ℝ) (a : ℂ) (ξ : ℝ) (hdx : dx ≠ 0) (hl : lam ≠ 0) (hz : z ≠ 0) :
    ‖F1 eReal n dx (1 / (lam * z)) (fun i => a * tilt eReal n k i) ξ‖
      ≤ ‖F1 eReal n dx (1 / (lam * z)) (fun i => a * tilt eReal n k i) (k * lam * z / ((n : ℝ) * dx))‖ ∧
    F1 eReal n dx (1 / (lam * z)) (fun i => a * tilt eReal n k i) (k * lam * z / ((n : ℝ) * dx)) = (n : ℂ) * a := by
  rw [tilt_shift_real n hn dx lam z k (fun _ => a) ξ hdx hl hz,
    tilt_shift_real n hn dx lam z k (fun _ => a) _ hdx hl hz, sub_self]
  exact ⟨flat_peak_is_max n dx _ a _, flat_peak eReal eReal_zero n dx _ a⟩

end fourier

end C03
