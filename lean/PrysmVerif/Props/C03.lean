import PrysmVerif.Generated.C03
import PrysmVerif.Lemmas.C03Fourier
import PrysmVerif.Lemmas.C03Rotation
import PrysmVerif.Lemmas.C03Czt
import PrysmVerif.Lemmas.C03Exec
import PrysmVerif.Lemmas.C05Instance
import Mathlib.Tactic.NormNum
import Mathlib.Tactic.LinearCombination
/-!
# C03 — output sampling and coordinates are physically correct

Scalars live in an arbitrary field `K` (coordinates `R`, field values `V` for the Fourier statements); the
Fourier kernel is an arbitrary character `e : R → V` (`e (a+b) = e a * e b`), read as `e t = exp(-2πi t)`.
Theorems whose subject lives in `Generated.C03` are re-checked against the current source on every run.
Axis 0 = rows = y, axis 1 = columns = x; `shift[0]` is the x shift, `shift[1]` the y shift (as in both executors).
-/
set_option linter.unusedTactic false
set_option linter.unreachableTactic false
set_option linter.unusedSectionVars false
set_option linter.unusedVariables false
set_option linter.unusedSimpArgs false

open C03Lemmas
open scoped C01
namespace C03
open Generated.C03

section scalar
variable {K : Type} [Field K] [DecidableEq K]

/-! ## translated obligations: the generated glue equals the hand model (∀ inputs) -/

/-- `Q_for_sampling` of the source is `(λ z / D) / dx_out` -/
theorem gen_qForSampling (D z lam dxo : K) : qForSampling D z lam dxo = Model.C03.qForSampling D z lam dxo := by
  simp only [qForSampling, Model.C03.qForSampling] <;> (try ring)

/-- the two spacing conversions of the source are `f λ / (dx N)` -/
theorem gen_conversions (x N lam efl : K) :
    pupilToPsf x N lam efl = Model.C03.pupilToPsf x N lam efl ∧ psfToPupil x N lam efl = Model.C03.psfToPupil x N lam efl := by
  constructor <;> simp only [pupilToPsf, psfToPupil, Model.C03.pupilToPsf, Model.C03.psfToPupil] <;> (try ring)

/-- `focus_fixed_sampling` hands the transform one `Q` per axis, each from that axis's own sample count -/
theorem gen_ffsQ (s0 s1 M0 M1 dx z lam dxo sh0 sh1 : K) :
    ffsQ0 s0 s1 M0 M1 dx z lam dxo sh0 sh1 = Model.C03.axisQ s0 dx z lam dxo ∧
    ffsQ1 s0 s1 M0 M1 dx z lam dxo sh0 sh1 = Model.C03.axisQ s1 dx z lam dxo := by
  constructor <;> simp only [ffsQ0, ffsQ1, qForSampling, Model.C03.axisQ, Model.C03.qForSampling] <;> (try ring)

/-- `unfocus_fixed_sampling` likewise (per axis, from the focal-plane array it is given) -/
theorem gen_ufsQ (s0 s1 M0 M1 dx z lam dxo sh0 sh1 : K) :
    ufsQ0 s0 s1 M0 M1 dx z lam dxo sh0 sh1 = Model.C03.axisQ s0 dx z lam dxo ∧
    ufsQ1 s0 s1 M0 M1 dx z lam dxo sh0 sh1 = Model.C03.axisQ s1 dx z lam dxo := by
  constructor <;> simp only [ufsQ0, ufsQ1, qForSampling, Model.C03.axisQ, Model.C03.qForSampling] <;> (try ring)

/-- both fixed-sampling routes convert the requested shift to output samples: `shift / output_dx` -/
theorem gen_shift (s0 s1 M0 M1 dx z lam dxo sh0 sh1 : K) :
    ffsShift0 s0 s1 M0 M1 dx z lam dxo sh0 sh1 = Model.C03.shiftSamples sh0 dxo ∧
    ffsShift1 s0 s1 M0 M1 dx z lam dxo sh0 sh1 = Model.C03.shiftSamples sh1 dxo ∧
    ufsShift0 s0 s1 M0 M1 dx z lam dxo sh0 sh1 = Model.C03.shiftSamples sh0 dxo ∧
    ufsShift1 s0 s1 M0 M1 dx z lam dxo sh0 sh1 = Model.C03.shiftSamples sh1 dxo := by
  refine ⟨?_, ?_, ?_, ?_⟩ <;>
    simp only [ffsShift0, ffsShift1, ufsShift0, ufsShift1, Model.C03.shiftSamples, ofInt_eq, Int.cast_zero] <;>
    first
      | ring1
      | (split_ifs with h
         · ring1
         · obtain ⟨h1, h2⟩ := not_or.mp h
           rw [not_not] at h1 h2
           first
             | linear_combination (1 - 1 / dxo) * h1
             | linear_combination (1 - 1 / dxo) * h2)

/-- `Wavefront.focus` / `unfocus` report the spacing computed from axis 1 of the propagated array -/
theorem gen_reportedDx (dx N0 N1 lam efl : K) :
    focusDx dx N0 N1 lam efl = Model.C03.focusDx dx N1 lam efl ∧
    unfocusDx dx N0 N1 lam efl = Model.C03.psfToPupil dx N1 lam efl := by
  constructor <;>
    simp only [focusDx, unfocusDx, pupilToPsf, psfToPupil, Model.C03.focusDx, Model.C03.pupilToPsf, Model.C03.psfToPupil] <;>
    (try ring)

/-- argument wiring of the `Wavefront` wrappers as extracted by the translator: `self.dx`, `efl`, `self.wavelength` and the
requested `dx` reach the matching parameters, the returned Wavefront carries the requested spacing (the content of this
obligation is the translator's reading of the call; the proof only normalises it) -/
theorem gen_wrappers (sdx swl efl dx : K) :
    ffsWrapInputDx sdx swl efl dx = sdx ∧ ffsWrapPropDist sdx swl efl dx = efl ∧ ffsWrapWavelength sdx swl efl dx = swl ∧
    ffsWrapOutputDx sdx swl efl dx = dx ∧ ffsWrapReportedDx sdx swl efl dx = ffsWrapOutputDx sdx swl efl dx ∧
    ufsWrapInputDx sdx swl efl dx = sdx ∧ ufsWrapPropDist sdx swl efl dx = efl ∧ ufsWrapWavelength sdx swl efl dx = swl ∧
    ufsWrapOutputDx sdx swl efl dx = dx ∧ ufsWrapReportedDx sdx swl efl dx = ufsWrapOutputDx sdx swl efl dx := by
  simp only [ffsWrapInputDx, ffsWrapPropDist, ffsWrapWavelength, ffsWrapOutputDx, ffsWrapReportedDx,
    ufsWrapInputDx, ufsWrapPropDist, ufsWrapWavelength, ufsWrapOutputDx, ufsWrapReportedDx, and_self]

/-- a single `int` given as sample count is broadcast to `(M, M)` by the free functions and by the wrappers -/
theorem gen_int_samples (M s0 s1 : K) :
    ffsIntSamples0 M s0 s1 = M ∧ ffsIntSamples1 M s0 s1 = M ∧ ufsIntSamples0 M s0 s1 = M ∧ ufsIntSamples1 M s0 s1 = M ∧
    ffsWrapIntSamples0 M = M ∧ ffsWrapIntSamples1 M = M ∧ ufsWrapIntSamples0 M = M ∧ ufsWrapIntSamples1 M = M := by
  simp only [ffsIntSamples0, ffsIntSamples1, ufsIntSamples0, ufsIntSamples1, ffsWrapIntSamples0, ffsWrapIntSamples1,
    ufsWrapIntSamples0, ufsWrapIntSamples1, and_self]

/-- the default of the `shift` parameter of both free functions is "no shift" -/
theorem gen_default_shift :
    (ffsDefaultShift0 : K) = 0 ∧ (ffsDefaultShift1 : K) = 0 ∧ (ufsDefaultShift0 : K) = 0 ∧ (ufsDefaultShift1 : K) = 0 := by
  simp only [ffsDefaultShift0, ffsDefaultShift1, ufsDefaultShift0, ufsDefaultShift1, ofInt_eq, Int.cast_zero, and_self]

/-- recognisers (AST facts, no arithmetic content; an unrecognised shape is reported as TIE-DEGRADED, a recognised wrong one
makes this fail): the spaces of the returned Wavefronts (`psf` after focusing, `pupil` after un-focusing), `norm='ortho'` on
both FFT routes, `make_xy_grid` = `fftrange(s)·dx` with axis 0 = y, `RichData.x/.y` built from the object's own shape and dx,
`Wavefront.intensity/.phase` carrying the Wavefront's own dx -/
theorem gen_recognisers :
    focusSpaceOk = true ∧ unfocusSpaceOk = true ∧ ffsWrapSpaceOk = true ∧ ufsWrapSpaceOk = true ∧
    focusRouteNorm = "ortho" ∧ unfocusRouteNorm = "ortho" ∧ xyGridIsFftrangeTimesDxAxis0IsY = true ∧
    richDataGridFromOwnShapeAndDx = true ∧ wavefrontViewsCarryOwnDx = true := by decide

/-- no propagation function of this property, and neither executor, applies an in-place operation (augmented assignment,
item assignment, `out=`, mutating method) to an array-like argument or to a name that may alias one (`np.asarray(shift)`,
a view, ...): the field, shift, sample-count and `Q` objects the caller passes are still intact after the call, so a
repeated call with the same objects sees the same arguments (AST scan of the current source, re-done every run) -/
theorem gen_no_inplace_on_arguments :
    ffsNoInPlaceOnArguments = true ∧ ufsNoInPlaceOnArguments = true ∧ ffsWrapNoInPlaceOnArguments = true ∧
    ufsWrapNoInPlaceOnArguments = true ∧ focusNoInPlaceOnArguments = true ∧ unfocusNoInPlaceOnArguments = true ∧
    mdftNoInPlaceOnArguments = true ∧ mdftInvNoInPlaceOnArguments = true ∧ mdftKeyNoInPlaceOnArguments = true ∧
    cztNoInPlaceOnArguments = true ∧ cztInvNoInPlaceOnArguments = true := by decide

/-- `fftrange(n)` starts at `-(n//2)` and has `n` samples: sample `l` has the FFT-aligned coordinate `l - n//2` -/
theorem gen_grid (n : Int) : gridLo n = -(n / 2) ∧ gridHi n - gridLo n = n := by
  constructor <;> simp only [gridLo, gridHi] <;> omega

/-! ## the property, stated over the generated definitions -/

/-- the pupil↔PSF spacing conversions are exact inverses of each other (all non-zero arguments) -/
theorem sample_conv_inverse (x N lam efl : K) (hx : x ≠ 0) (hN : N ≠ 0) (hl : lam ≠ 0) (hf : efl ≠ 0) :
    psfToPupil (pupilToPsf x N lam efl) N lam efl = x ∧ pupilToPsf (psfToPupil x N lam efl) N lam efl = x := by
  constructor <;> simp only [pupilToPsf, psfToPupil, Model.C03.qForSampling, Model.C03.pupilToPsf, Model.C03.psfToPupil, Model.C03.axisQ, Model.C03.shiftSamples, Model.C03.focusDx] <;> field_simp

/-- `Q_for_sampling` inverts the FFT-route spacing: asking for the spacing the FFT would give returns `Q = 1`·(pad factor),
i.e. `Q_for_sampling(n dx, f, λ, pupil_sample_to_psf_sample(dx, n Q, λ, f)) = Q` -/
theorem q_for_sampling_of_fft_spacing (n dx Q lam efl : K) (hn : n ≠ 0) (hdx : dx ≠ 0) (hQ : Q ≠ 0) (hl : lam ≠ 0)
    (hf : efl ≠ 0) : qForSampling (n * dx) efl lam (pupilToPsf dx (n * Q) lam efl) = Q := by
  simp only [qForSampling, pupilToPsf, Model.C03.qForSampling, Model.C03.pupilToPsf, Model.C03.psfToPupil, Model.C03.axisQ, Model.C03.shiftSamples, Model.C03.focusDx]; field_simp

/-- focusing: the kernel constant `1/(n_a Q_a)` of EACH axis equals `dx·dx_out/(λ z)`, whatever the shape -/
theorem ffsQ_axes (s0 s1 M0 M1 dx z lam dxo sh0 sh1 : K) (h0 : s0 ≠ 0) (h1 : s1 ≠ 0) (hdx : dx ≠ 0) (hz : z ≠ 0)
    (hl : lam ≠ 0) (hd : dxo ≠ 0) :
    1 / (s0 * ffsQ0 s0 s1 M0 M1 dx z lam dxo sh0 sh1) = dx * dxo / (lam * z) ∧
    1 / (s1 * ffsQ1 s0 s1 M0 M1 dx z lam dxo sh0 sh1) = dx * dxo / (lam * z) := by
  constructor <;> simp only [ffsQ0, ffsQ1, qForSampling, Model.C03.qForSampling, Model.C03.pupilToPsf, Model.C03.psfToPupil, Model.C03.axisQ, Model.C03.shiftSamples, Model.C03.focusDx] <;> field_simp

/-- non-vacuity (exact rationals): a 9 × 12 pupil gets two different `Q`s -/
example : qForSampling (8 * (1/2 : ℚ)) 100 (1/2) (25/4) = 2 := by norm_num [qForSampling, Model.C03.qForSampling, Model.C03.pupilToPsf, Model.C03.psfToPupil, Model.C03.axisQ, Model.C03.shiftSamples, Model.C03.focusDx]
example : ffsQ1 (9 : ℚ) 12 15 22 (1/2) 100 (1/2) 5 0 0 = 5 / 3 ∧ ffsQ0 (9 : ℚ) 12 15 22 (1/2) 100 (1/2) 5 0 0 = 20 / 9 := by
  constructor <;> norm_num [ffsQ0, ffsQ1, qForSampling, Model.C03.qForSampling, Model.C03.pupilToPsf, Model.C03.psfToPupil, Model.C03.axisQ, Model.C03.shiftSamples, Model.C03.focusDx]

/-- un-focusing: the same, per axis of the focal-plane array (`dx` = focal spacing, `dxo` = pupil spacing) -/
theorem ufsQ_axes (s0 s1 M0 M1 dx z lam dxo sh0 sh1 : K) (h0 : s0 ≠ 0) (h1 : s1 ≠ 0) (hdx : dx ≠ 0) (hz : z ≠ 0)
    (hl : lam ≠ 0) (hd : dxo ≠ 0) :
    1 / (s0 * ufsQ0 s0 s1 M0 M1 dx z lam dxo sh0 sh1) = dx * dxo / (lam * z) ∧
    1 / (s1 * ufsQ1 s0 s1 M0 M1 dx z lam dxo sh0 sh1) = dx * dxo / (lam * z) := by
  constructor <;> simp only [ufsQ0, ufsQ1, qForSampling, Model.C03.qForSampling, Model.C03.pupilToPsf, Model.C03.psfToPupil, Model.C03.axisQ, Model.C03.shiftSamples, Model.C03.focusDx] <;> field_simp

/-- the hand model's kernel constant is the same expression (used by the 2-D statements below) -/
theorem axisAlpha_eq (s dx z lam dxo : K) (hs : s ≠ 0) (hdx : dx ≠ 0) (hz : z ≠ 0) (hl : lam ≠ 0) (hd : dxo ≠ 0) :
    Model.C03.axisAlpha s dx z lam dxo = dx * dxo / (lam * z) := by
  simp only [Model.C03.axisAlpha, Model.C03.axisQ, Model.C03.qForSampling, ofInt_eq, Int.cast_one]; field_simp

/-- a requested shift reaches the transform as `shift / dx_out` output samples, on both axes, both routes, also for
zero shifts (where the source skips the division) -/
theorem shift_in_output_samples (s0 s1 M0 M1 dx z lam dxo sh0 sh1 : K) :
    ffsShift0 s0 s1 M0 M1 dx z lam dxo sh0 sh1 = sh0 / dxo ∧ ffsShift1 s0 s1 M0 M1 dx z lam dxo sh0 sh1 = sh1 / dxo ∧
    ufsShift0 s0 s1 M0 M1 dx z lam dxo sh0 sh1 = sh0 / dxo ∧ ufsShift1 s0 s1 M0 M1 dx z lam dxo sh0 sh1 = sh1 / dxo := by
  simpa only [Model.C03.shiftSamples] using gen_shift s0 s1 M0 M1 dx z lam dxo sh0 sh1

/-- FFT route, axis 1 (x): the reported spacing is the true one, `1/N₁ = dx·dx_rep/(λ f)`, for every padded shape -/
theorem fft_dx_axis1 (dx N0 N1 lam efl : K) (hdx : dx ≠ 0) (hN : N1 ≠ 0) (hl : lam ≠ 0) (hf : efl ≠ 0) :
    1 / N1 = dx * focusDx dx N0 N1 lam efl / (lam * efl) ∧ 1 / N1 = dx * unfocusDx dx N0 N1 lam efl / (lam * efl) := by
  constructor <;> simp only [focusDx, unfocusDx, pupilToPsf, psfToPupil, Model.C03.qForSampling, Model.C03.pupilToPsf, Model.C03.psfToPupil, Model.C03.axisQ, Model.C03.shiftSamples, Model.C03.focusDx] <;> field_simp

/-- FFT route, axis 0 (y): the single reported spacing is the true one **iff the padded array is square**
(defect #37 characterised exactly: for `N₀ ≠ N₁` no reported number can serve both axes) -/
theorem fft_dx_axis0_iff_square (dx N0 N1 lam efl : K) (hdx : dx ≠ 0) (hN0 : N0 ≠ 0) (hN : N1 ≠ 0) (hl : lam ≠ 0)
    (hf : efl ≠ 0) : 1 / N0 = dx * focusDx dx N0 N1 lam efl / (lam * efl) ↔ N0 = N1 := by
  simp only [focusDx, pupilToPsf, Model.C03.qForSampling, Model.C03.pupilToPsf, Model.C03.psfToPupil, Model.C03.axisQ, Model.C03.shiftSamples, Model.C03.focusDx]
  constructor
  · intro h
    field_simp at h
    exact h.symm
  · intro h; subst h; field_simp

/-- non-vacuity: on a 9 × 12 padded array the reported spacing is NOT the spacing of axis 0 -/
example : (1 : ℚ) / 9 ≠ (1/2) * focusDx (1/2 : ℚ) 9 12 (1/2) 100 / ((1/2) * 100) := by
  simp only [focusDx, pupilToPsf, Model.C03.qForSampling, Model.C03.pupilToPsf, Model.C03.psfToPupil, Model.C03.axisQ, Model.C03.shiftSamples, Model.C03.focusDx]; norm_num

/-- chain of reported spacings: `Wavefront.focus(efl, Q)` followed by `unfocus(efl, 1)` (and the other way round) reports
the spacing it started from, for EVERY padded shape, as translated from the source (both read the same `shape[k]`) -/
theorem gen_fft_chain_dx (dx N0 N1 lam efl : K) (hdx : dx ≠ 0) (hN : N1 ≠ 0) (hl : lam ≠ 0) (hf : efl ≠ 0) :
    unfocusDx (focusDx dx N0 N1 lam efl) N0 N1 lam efl = dx ∧
    focusDx (unfocusDx dx N0 N1 lam efl) N0 N1 lam efl = dx := by
  constructor <;>
    simp only [focusDx, unfocusDx, pupilToPsf, psfToPupil, Model.C03.pupilToPsf, Model.C03.psfToPupil, Model.C03.focusDx] <;>
    field_simp

/-- the spacing the FFT route REPORTS is ACCEPTED by both fixed-sampling routes as the same physical spacing: requested
as `output_dx`, it makes the generated kernel constant of each axis `1/(s_a Q_a)` equal to `1/N₁` (`N₁` the padded length the
FFT route read its spacing from), i.e. the fixed-sampling kernel is the FFT kernel of that length -/
theorem fixed_sampling_accepts_fft_spacing (s0 s1 M0 M1 N0 N1 dx z lam sh0 sh1 : K) (h0 : s0 ≠ 0) (h1 : s1 ≠ 0)
    (hdx : dx ≠ 0) (hz : z ≠ 0) (hl : lam ≠ 0) (hN : N1 ≠ 0) :
    1 / (s0 * ffsQ0 s0 s1 M0 M1 dx z lam (focusDx dx N0 N1 lam z) sh0 sh1) = 1 / N1 ∧
    1 / (s1 * ffsQ1 s0 s1 M0 M1 dx z lam (focusDx dx N0 N1 lam z) sh0 sh1) = 1 / N1 ∧
    1 / (s0 * ufsQ0 s0 s1 M0 M1 dx z lam (unfocusDx dx N0 N1 lam z) sh0 sh1) = 1 / N1 ∧
    1 / (s1 * ufsQ1 s0 s1 M0 M1 dx z lam (unfocusDx dx N0 N1 lam z) sh0 sh1) = 1 / N1 := by
  refine ⟨?_, ?_, ?_, ?_⟩ <;>
    simp only [ffsQ0, ffsQ1, ufsQ0, ufsQ1, focusDx, unfocusDx, qForSampling, pupilToPsf, psfToPupil, Model.C03.qForSampling,
      Model.C03.pupilToPsf, Model.C03.psfToPupil, Model.C03.axisQ, Model.C03.focusDx] <;>
    field_simp
/-- non-vacuity (exact rationals): a 6 × 9 pupil padded to 12 × 18: reported 50/9, back to 1/2; requested as `output_dx` it gives
`Q₁ = 18/9`, `Q₀ = 18/6` -/
example : focusDx (1/2 : ℚ) 12 18 (1/2) 100 = 50 / 9 ∧ unfocusDx (50/9 : ℚ) 12 18 (1/2) 100 = 1 / 2 ∧
    ffsQ1 (6 : ℚ) 9 12 18 (1/2) 100 (1/2) (50/9) 0 0 = 2 ∧ ffsQ0 (6 : ℚ) 9 12 18 (1/2) 100 (1/2) (50/9) 0 0 = 3 := by
  refine ⟨?_, ?_, ?_, ?_⟩ <;>
    norm_num [ffsQ0, ffsQ1, focusDx, unfocusDx, qForSampling, pupilToPsf, psfToPupil, Model.C03.qForSampling,
      Model.C03.pupilToPsf, Model.C03.psfToPupil, Model.C03.axisQ, Model.C03.focusDx]

/-- `make_xy_grid` / `RichData.x,.y` as ARITHMETIC translated from the source: without a `diameter` the step is the `dx` given, with
one it is `diameter / max(shape)`; a sample whose `fftrange` value is `c` gets the coordinate `c·step`; `.x` takes its length from
`shape[1]` and varies along array axis 1, `.y` takes its length from `shape[0]` and varies along axis 0 (a swapped unpacking, a
`meshgrid(y, x)`, `indexing='ij'`, a `dx/2` or a `1/dx` all make this fail) -/
theorem gen_xy_grid (c dx D smax : K) :
    xyGridStep dx 0 smax = dx ∧ (D ≠ 0 → xyGridStep dx D smax = D / smax) ∧ xyGridCoord c dx = c * dx ∧
    richXLenFromShapeIndex = 1 ∧ richXVariesAlongAxis = 1 ∧ richYLenFromShapeIndex = 0 ∧ richYVariesAlongAxis = 0 := by
  refine ⟨?_, ?_, ?_, by decide, by decide, by decide, by decide⟩
  · simp [xyGridStep, ofInt_eq]
  · intro h; simp [xyGridStep, ofInt_eq, h]
  · first | (simp only [xyGridCoord]; done) | (simp only [xyGridCoord]; ring)

end scalar

section fourier
variable {R V : Type} [Field R] [Field V] [DecidableEq R]
open Model.C03

/-- the inverse kernel `t ↦ e (-t)` of a character is a character -/
theorem inv_character (e : R → V) (he : ∀ a b, e (a + b) = e a * e b) :
    ∀ a b, (fun t => e (-t)) (a + b) = (fun t => e (-t)) a * (fun t => e (-t)) b := by
  intro a b; simp only [neg_add, he]

/-- tilt theorem: `k` waves of tilt across an aperture of width `D = n·dx` displace the focal field by exactly
`k λ z / D` along that axis — for every real `k` (fractional, either sign), every size and parity -/
theorem tilt_shift (e : R → V) (he : ∀ a b, e (a + b) = e a * e b) (n : Nat) (dx lam z k : R) (f : Nat → V) (ξ : R)
    (hn : (n : R) ≠ 0) (hdx : dx ≠ 0) (hl : lam ≠ 0) (hz : z ≠ 0) :
    F1 e n dx (1 / (lam * z)) (fun i => f i * tilt e n k i) ξ
      = F1 e n dx (1 / (lam * z)) f (ξ - k * lam * z / ((n : R) * dx)) := by
  have hκ : (1 / (lam * z) : R) ≠ 0 := one_div_ne_zero (mul_ne_zero hl hz)
  rw [F1_tilt e he n dx (1 / (lam * z)) k f ξ hn hdx hκ]
  congr 2
  field_simp

/-- a flat pupil adds all its `n` samples in phase at the geometric focus `ξ = 0` -/
theorem flat_peak (e : R → V) (he0 : e 0 = 1) (n : Nat) (dx κ : R) (a : V) :
    F1 e n dx κ (fun _ => a) 0 = (n : V) * a := by
  simp [F1_eq_sum, he0]

/-- one axis of either fixed-sampling route, for any per-axis `Q` and sample shift `s` that satisfy the two
translated obligations: array element `l` is a unit phase times the physical integral at `ξ = (l - N//2)·dx_out - shift` -/
theorem axis_samples_F (e : R → V) (he : ∀ a b, e (a + b) = e a * e b) (n N : Nat) (Q s dx z lam dxo sh : R)
    (f : Nat → V) (l : Nat) (hQ : 1 / ((n : R) * Q) = dx * dxo / (lam * z)) (hs : s = sh / dxo) (hd : dxo ≠ 0) :
    mdft1 e n N (1 / ((n : R) * Q)) s f l
      = e (-(s * (coord N l - s) * (1 / ((n : R) * Q)))) * F1 e n dx (1 / (lam * z)) f (coord N l * dxo - sh) := by
  rw [mdft1_samples_F e he n N _ s dx dxo (1 / (lam * z)) f l (by rw [hQ]; ring)]
  congr 2
  rw [hs]; field_simp

/-- `focus_fixed_sampling` as translated from the source (generated per-axis `Q`, generated shifts): on the x axis
(axis 1, `shift[0]`) and on the y axis (axis 0, `shift[1]`) element `l` / `k` samples the physical integral at
`(l - N//2)·dx_out - shift_x`, resp. `(k - M//2)·dx_out - shift_y`, up to a unit phase -/
theorem ffs_samples_F (e : R → V) (he : ∀ a b, e (a + b) = e a * e b) (m n M N : Nat) (dx z lam dxo sh0 sh1 : R)
    (f : Nat → V) (g : Nat → V) (k l : Nat)
    (hm : (m : R) ≠ 0) (hn : (n : R) ≠ 0) (hdx : dx ≠ 0) (hz : z ≠ 0) (hl : lam ≠ 0) (hd : dxo ≠ 0) :
    (mdft1 e n N (1 / ((n : R) * ffsQ1 (m : R) n M N dx z lam dxo sh0 sh1)) (ffsShift0 (m : R) n M N dx z lam dxo sh0 sh1) f l
      = e (-(ffsShift0 (m : R) n M N dx z lam dxo sh0 sh1 * (coord N l - ffsShift0 (m : R) n M N dx z lam dxo sh0 sh1)
            * (1 / ((n : R) * ffsQ1 (m : R) n M N dx z lam dxo sh0 sh1))))
        * F1 e n dx (1 / (lam * z)) f (coord N l * dxo - sh0)) ∧
    (mdft1 e m M (1 / ((m : R) * ffsQ0 (m : R) n M N dx z lam dxo sh0 sh1)) (ffsShift1 (m : R) n M N dx z lam dxo sh0 sh1) g k
      = e (-(ffsShift1 (m : R) n M N dx z lam dxo sh0 sh1 * (coord M k - ffsShift1 (m : R) n M N dx z lam dxo sh0 sh1)
            * (1 / ((m : R) * ffsQ0 (m : R) n M N dx z lam dxo sh0 sh1))))
        * F1 e m dx (1 / (lam * z)) g (coord M k * dxo - sh1)) := by
  have hQ := ffsQ_axes (m : R) n M N dx z lam dxo sh0 sh1 hm hn hdx hz hl hd
  have hS := shift_in_output_samples (m : R) n M N dx z lam dxo sh0 sh1
  exact ⟨axis_samples_F e he n N _ _ dx z lam dxo sh0 f l hQ.2 hS.1 hd,
         axis_samples_F e he m M _ _ dx z lam dxo sh1 g k hQ.1 hS.2.1 hd⟩

/-- `unfocus_fixed_sampling` as translated from the source: the same statement with the inverse kernel
(`dx` = focal-plane spacing of the input, `dxo` = requested pupil spacing) -/
theorem ufs_samples_F (e : R → V) (he : ∀ a b, e (a + b) = e a * e b) (m n M N : Nat) (dx z lam dxo sh0 sh1 : R)
    (f : Nat → V) (g : Nat → V) (k l : Nat)
    (hm : (m : R) ≠ 0) (hn : (n : R) ≠ 0) (hdx : dx ≠ 0) (hz : z ≠ 0) (hl : lam ≠ 0) (hd : dxo ≠ 0) :
    (mdft1 (fun t => e (-t)) n N (1 / ((n : R) * ufsQ1 (m : R) n M N dx z lam dxo sh0 sh1)) (ufsShift0 (m : R) n M N dx z lam dxo sh0 sh1) f l
      = e (-(-(ufsShift0 (m : R) n M N dx z lam dxo sh0 sh1 * (coord N l - ufsShift0 (m : R) n M N dx z lam dxo sh0 sh1)
            * (1 / ((n : R) * ufsQ1 (m : R) n M N dx z lam dxo sh0 sh1)))))
        * F1 (fun t => e (-t)) n dx (1 / (lam * z)) f (coord N l * dxo - sh0)) ∧
    (mdft1 (fun t => e (-t)) m M (1 / ((m : R) * ufsQ0 (m : R) n M N dx z lam dxo sh0 sh1)) (ufsShift1 (m : R) n M N dx z lam dxo sh0 sh1) g k
      = e (-(-(ufsShift1 (m : R) n M N dx z lam dxo sh0 sh1 * (coord M k - ufsShift1 (m : R) n M N dx z lam dxo sh0 sh1)
            * (1 / ((m : R) * ufsQ0 (m : R) n M N dx z lam dxo sh0 sh1)))))
        * F1 (fun t => e (-t)) m dx (1 / (lam * z)) g (coord M k * dxo - sh1)) := by
  have hQ := ufsQ_axes (m : R) n M N dx z lam dxo sh0 sh1 hm hn hdx hz hl hd
  have hS := shift_in_output_samples (m : R) n M N dx z lam dxo sh0 sh1
  exact ⟨axis_samples_F _ (inv_character e he) n N _ _ dx z lam dxo sh0 f l hQ.2 hS.2.2.1 hd,
         axis_samples_F _ (inv_character e he) m M _ _ dx z lam dxo sh1 g k hQ.1 hS.2.2.2 hd⟩

/-- spot location by the fixed-sampling route: a pupil carrying `k` waves of tilt along x is imaged as the untilted
pupil displaced by `k λ z / D`, in the coordinates `(l - N//2)·dx_out - shift_x` of the requested grid — every shape
(the rows count `m` does not enter), every `k`, every requested spacing and shift -/
theorem ffs_spot_location (e : R → V) (he : ∀ a b, e (a + b) = e a * e b) (m n M N : Nat) (dx z lam dxo sh0 sh1 kw : R)
    (f : Nat → V) (l : Nat)
    (hm : (m : R) ≠ 0) (hn : (n : R) ≠ 0) (hdx : dx ≠ 0) (hz : z ≠ 0) (hl : lam ≠ 0) (hd : dxo ≠ 0) :
    mdft1 e n N (1 / ((n : R) * ffsQ1 (m : R) n M N dx z lam dxo sh0 sh1)) (ffsShift0 (m : R) n M N dx z lam dxo sh0 sh1)
        (fun i => f i * tilt e n kw i) l
      = e (-(ffsShift0 (m : R) n M N dx z lam dxo sh0 sh1 * (coord N l - ffsShift0 (m : R) n M N dx z lam dxo sh0 sh1)
            * (1 / ((n : R) * ffsQ1 (m : R) n M N dx z lam dxo sh0 sh1))))
        * F1 e n dx (1 / (lam * z)) f (coord N l * dxo - sh0 - kw * lam * z / ((n : R) * dx)) := by
  rw [(ffs_samples_F e he m n M N dx z lam dxo sh0 sh1 (fun i => f i * tilt e n kw i) (fun _ => 0) 0 l hm hn hdx hz hl hd).1,
    tilt_shift e he n dx lam z kw f _ hn hdx hl hz]

/-- a displaced focal spot unfocuses to the corresponding pupil tilt: a point source at focal sample `p`
(physical position `ξ₀ = (p - N//2 - s)·dx_f`) gives a pupil field whose sample `i` is `a · phase · tilt_k[i]` with
`k = ξ₀·D/(λ z)` waves across the pupil width `D = n·dx_p` -/
theorem unfocus_spot_is_tilt (e : R → V) (he : ∀ a b, e (a + b) = e a * e b) (n N : Nat) (dxf dxp lam z s : R) (a : V)
    (p i : Nat) (hp : p < N) (hn : (n : R) ≠ 0) :
    mdft1 (fun t => e (-t)) N n (dxf * dxp / (lam * z)) s (fun l => if l = p then a else 0) i
      = a * (e (s * (coord N p - s) * (dxf * dxp / (lam * z)))
          * tilt e n ((coord N p - s) * dxf * ((n : R) * dxp) / (lam * z)) i) := by
  rw [mdft1_eq_sum, Finset.sum_eq_single p]
  · simp only [if_true, tilt, ← he, ofInt_eq, Int.cast_natCast]
    congr 2
    field_simp
    ring
  · intro b _ hb; simp [hb]
  · intro h; exact absurd (Finset.mem_range.mpr hp) h

/-- the full 2-D model of `focus_fixed_sampling` (kernel `e`) / `unfocus_fixed_sampling` (kernel `t ↦ e (-t)`):
element `[k,l]` = norm · unit phase · the 2-D physical integral at `((k - M//2)·dx_out - shift_y, (l - N//2)·dx_out - shift_x)`,
for every input shape `m × n` (square or not) and every output shape -/
theorem fixedSampling_samples_F2 (e : R → V) (he : ∀ a b, e (a + b) = e a * e b) (ofR : R → V) (sqrt : R → R)
    (m n M N : Nat) (dx z lam dxo shx shy : R) (f : Nat → Nat → V) (k l : Nat)
    (hm : (m : R) ≠ 0) (hn : (n : R) ≠ 0) (hdx : dx ≠ 0) (hz : z ≠ 0) (hl : lam ≠ 0) (hd : dxo ≠ 0) :
    fixedSampling e ofR sqrt m n M N dx z lam dxo shx shy f k l
      = ofR (sqrt (dx * dxo / (lam * z)) * sqrt (dx * dxo / (lam * z)))
        * (e (-(shy / dxo * (coord M k - shy / dxo) * (dx * dxo / (lam * z))))
          * e (-(shx / dxo * (coord N l - shx / dxo) * (dx * dxo / (lam * z)))))
        * F2 e m n dx (1 / (lam * z)) f (coord M k * dxo - shy) (coord N l * dxo - shx) := by
  have hα : dx * dxo / (lam * z) = dx * dxo * (1 / (lam * z)) := by ring
  simp only [fixedSampling, mdft2, F2, shiftSamples, ofInt_eq, Int.cast_natCast,
    axisAlpha_eq _ dx z lam dxo hm hdx hz hl hd, axisAlpha_eq _ dx z lam dxo hn hdx hz hl hd]
  rw [show (fun j => mdft1 e n N (dx * dxo / (lam * z)) (shx / dxo) (f j) l)
      = fun j => e (-(shx / dxo * (coord N l - shx / dxo) * (dx * dxo / (lam * z))))
          * F1 e n dx (1 / (lam * z)) (f j) ((coord N l - shx / dxo) * dxo) from
        funext fun j => mdft1_samples_F e he n N _ _ dx dxo (1 / (lam * z)) (f j) l hα]
  rw [mdft1_smul, mdft1_samples_F e he m M _ _ dx dxo (1 / (lam * z)) _ k hα]
  rw [show (coord M k - shy / dxo) * dxo = coord M k * dxo - shy by field_simp,
      show (coord N l - shx / dxo) * dxo = coord N l * dxo - shx by field_simp]
  ring

/-- FFT route on one axis: the centred DFT of the zero-padded axis (pad offset `N//2 - n//2`, C04) samples the physical
integral at `(l - N//2)·dx_rep` where `dx_rep = λ f/(N dx)` is the spacing `Wavefront.focus` reports from THIS axis's
padded length -/
theorem fft_route_samples_F (e : R → V) (n N : Nat) (hnN : n ≤ N) (dx lam efl N0 : R) (f : Nat → V) (l : Nat)
    (hN : (N : R) ≠ 0) (hdx : dx ≠ 0) (hl : lam ≠ 0) (hf : efl ≠ 0) :
    cdft1 e N (padded n N f) l = F1 e n dx (1 / (lam * efl)) f (coord N l * focusDx dx N0 (N : R) lam efl) := by
  simp only [cdft1, sumTo_eq_sum, F1_eq_sum, ofInt_eq, Int.cast_natCast]
  rw [sum_padded n N hnN f (fun c => e (c * coord N l / (N : R)))]
  refine Finset.sum_congr rfl fun i _ => ?_
  congr 2
  simp only [Generated.C03.focusDx, Generated.C03.pupilToPsf, Model.C03.qForSampling, Model.C03.pupilToPsf, Model.C03.psfToPupil, Model.C03.axisQ, Model.C03.shiftSamples, Model.C03.focusDx]
  field_simp

/-- what the FFT route computes on one axis — `fftshift(fft(ifftshift(·)))` with NumPy's index rotations, `fft` being the
plain DFT sum — IS the centred DFT, for every length (odd or even) -/
theorem fft_route_is_centred_dft (e : R → V) (he : ∀ a b, e (a + b) = e a * e b) (hint : ∀ z : ℤ, e (z : R) = 1)
    [CharZero R] (N : Nat) (x : Nat → V) (l : Nat) (hl : l < N) : fftRoute1 e N x l = cdft1 e N x l :=
  fftRoute1_eq_cdft1 e he hint N x l hl

/-- FFT route end to end on one axis: pad (origin on origin), rotate, DFT, rotate back — element `l` is the physical
integral at `(l - N//2)·dx_rep`, `dx_rep` the spacing reported from this axis's padded length -/
theorem fft_route_end_to_end (e : R → V) (he : ∀ a b, e (a + b) = e a * e b) (hint : ∀ z : ℤ, e (z : R) = 1)
    [CharZero R] (n N : Nat) (hnN : n ≤ N) (dx lam efl N0 : R) (f : Nat → V) (l : Nat) (hl : l < N)
    (hdx : dx ≠ 0) (hlam : lam ≠ 0) (hf : efl ≠ 0) :
    fftRoute1 e N (padded n N f) l = F1 e n dx (1 / (lam * efl)) f (coord N l * focusDx dx N0 (N : R) lam efl) := by
  rw [fftRoute1_eq_cdft1 e he hint N _ l hl]
  exact fft_route_samples_F e n N hnN dx lam efl N0 f l (by exact_mod_cast (show N ≠ 0 by omega)) hdx hlam hf

/-- non-vacuity: `e t = exp(-2πi t)` on `ℝ → ℂ` satisfies every hypothesis made on the kernel above -/
example : (∀ a b, eReal (a + b) = eReal a * eReal b) ∧ eReal 0 = 1 ∧ (∀ z : ℤ, eReal (z : ℝ) = 1) :=
  ⟨eReal_add, eReal_zero, eReal_int⟩

/-- the tilt theorem for the actual kernel: `k` waves of tilt move the focal field of ANY pupil by `k λ f / D` -/
theorem tilt_shift_real (n : Nat) (hn : 0 < n) (dx lam z k : ℝ) (f : Nat → ℂ) (ξ : ℝ) (hdx : dx ≠ 0) (hl : lam ≠ 0) (hz : z ≠ 0) :
    F1 eReal n dx (1 / (lam * z)) (fun i => f i * tilt eReal n k i) ξ
      = F1 eReal n dx (1 / (lam * z)) f (ξ - k * lam * z / ((n : ℝ) * dx)) :=
  tilt_shift eReal eReal_add n dx lam z k f ξ (by exact_mod_cast hn.ne') hdx hl hz

/-- the spot (a statement about the CONTINUOUS focal coordinate `ξ` of the physical integral, flat pupil only; that the
brightest ARRAY sample is the one nearest to it is checked on the real outputs, not proved): for the actual kernel, the focal
field of a flat pupil carrying `k` waves of tilt is nowhere brighter than at `ξ = k λ f / D`, where all `n` samples add in
phase (`|F| = n·|a|`) — every size, every real `k` -/
theorem spot_is_brightest_real (n : Nat) (hn : 0 < n) (dx lam z k : ℝ) (a : ℂ) (ξ : ℝ) (hdx : dx ≠ 0) (hl : lam ≠ 0) (hz : z ≠ 0) :
    ‖F1 eReal n dx (1 / (lam * z)) (fun i => a * tilt eReal n k i) ξ‖
      ≤ ‖F1 eReal n dx (1 / (lam * z)) (fun i => a * tilt eReal n k i) (k * lam * z / ((n : ℝ) * dx))‖ ∧
    F1 eReal n dx (1 / (lam * z)) (fun i => a * tilt eReal n k i) (k * lam * z / ((n : ℝ) * dx)) = (n : ℂ) * a := by
  rw [tilt_shift_real n hn dx lam z k (fun _ => a) ξ hdx hl hz,
    tilt_shift_real n hn dx lam z k (fun _ => a) _ hdx hl hz, sub_self]
  exact ⟨flat_peak_is_max n dx _ a _, flat_peak eReal eReal_zero n dx _ a⟩

end fourier

section fourier2
variable {R V : Type} [Field R] [Field V] [DecidableEq R]
open Model.C03

/-- a requested shift translates the image by exactly that many output samples, on BOTH axes of `focus_fixed_sampling`, for
`p` whole samples of either sign, with the kernel constant the source really uses (`1/(n_a Q_a)` from the generated `Q`):
asking for `p·dx_out` more x-shift (resp. y-shift) moves every element `p` columns (rows) further, up to a unit phase that
does not depend on the input sample -/
theorem shift_translates (e : R → V) (he : ∀ a b, e (a + b) = e a * e b) (m n M N : Nat) (dx z lam dxo sh0 sh1 : R) (p : ℤ)
    (f g : Nat → V) (l l' k k' : Nat) (hl : (l' : ℤ) = (l : ℤ) + p) (hk : (k' : ℤ) = (k : ℤ) + p) (hd : dxo ≠ 0) :
    (mdft1 e n N (1 / ((n : R) * ffsQ1 (m : R) n M N dx z lam dxo sh0 sh1)) (ffsShift0 (m : R) n M N dx z lam dxo (sh0 + p * dxo) sh1) f l'
      = e (-((p : R) * (coord N l - ffsShift0 (m : R) n M N dx z lam dxo sh0 sh1) * (1 / ((n : R) * ffsQ1 (m : R) n M N dx z lam dxo sh0 sh1))))
        * mdft1 e n N (1 / ((n : R) * ffsQ1 (m : R) n M N dx z lam dxo sh0 sh1)) (ffsShift0 (m : R) n M N dx z lam dxo sh0 sh1) f l) ∧
    (mdft1 e m M (1 / ((m : R) * ffsQ0 (m : R) n M N dx z lam dxo sh0 sh1)) (ffsShift1 (m : R) n M N dx z lam dxo sh0 (sh1 + p * dxo)) g k'
      = e (-((p : R) * (coord M k - ffsShift1 (m : R) n M N dx z lam dxo sh0 sh1) * (1 / ((m : R) * ffsQ0 (m : R) n M N dx z lam dxo sh0 sh1))))
        * mdft1 e m M (1 / ((m : R) * ffsQ0 (m : R) n M N dx z lam dxo sh0 sh1)) (ffsShift1 (m : R) n M N dx z lam dxo sh0 sh1) g k) := by
  have hq1 : ffsQ1 (m : R) n M N dx z lam dxo (sh0 + p * dxo) sh1 = ffsQ1 (m : R) n M N dx z lam dxo sh0 sh1 := by
    rw [(gen_ffsQ _ _ _ _ _ _ _ _ _ _).2, (gen_ffsQ _ _ _ _ _ _ _ _ _ _).2]
  have a1 := (shift_in_output_samples (m : R) n M N dx z lam dxo (sh0 + p * dxo) sh1).1
  have a2 := (shift_in_output_samples (m : R) n M N dx z lam dxo sh0 sh1).1
  have b1 := (shift_in_output_samples (m : R) n M N dx z lam dxo sh0 (sh1 + p * dxo)).2.1
  have b2 := (shift_in_output_samples (m : R) n M N dx z lam dxo sh0 sh1).2.1
  constructor
  · rw [a1, a2, show (sh0 + (p : R) * dxo) / dxo = sh0 / dxo + (p : R) by field_simp]
    exact mdft1_shift_translates_int e he n N _ (sh0 / dxo) p f l l' hl
  · rw [b1, b2, show (sh1 + (p : R) * dxo) / dxo = sh1 / dxo + (p : R) by field_simp]
    exact mdft1_shift_translates_int e he m M _ (sh1 / dxo) p g k k' hk

/-- the same for `unfocus_fixed_sampling` (inverse kernel), both axes -/
theorem shift_translates_ufs (e : R → V) (he : ∀ a b, e (a + b) = e a * e b) (m n M N : Nat) (dx z lam dxo sh0 sh1 : R) (p : ℤ)
    (f g : Nat → V) (l l' k k' : Nat) (hl : (l' : ℤ) = (l : ℤ) + p) (hk : (k' : ℤ) = (k : ℤ) + p) (hd : dxo ≠ 0) :
    (mdft1 (fun t => e (-t)) n N (1 / ((n : R) * ufsQ1 (m : R) n M N dx z lam dxo sh0 sh1)) (ufsShift0 (m : R) n M N dx z lam dxo (sh0 + p * dxo) sh1) f l'
      = e (-(-((p : R) * (coord N l - ufsShift0 (m : R) n M N dx z lam dxo sh0 sh1) * (1 / ((n : R) * ufsQ1 (m : R) n M N dx z lam dxo sh0 sh1)))))
        * mdft1 (fun t => e (-t)) n N (1 / ((n : R) * ufsQ1 (m : R) n M N dx z lam dxo sh0 sh1)) (ufsShift0 (m : R) n M N dx z lam dxo sh0 sh1) f l) ∧
    (mdft1 (fun t => e (-t)) m M (1 / ((m : R) * ufsQ0 (m : R) n M N dx z lam dxo sh0 sh1)) (ufsShift1 (m : R) n M N dx z lam dxo sh0 (sh1 + p * dxo)) g k'
      = e (-(-((p : R) * (coord M k - ufsShift1 (m : R) n M N dx z lam dxo sh0 sh1) * (1 / ((m : R) * ufsQ0 (m : R) n M N dx z lam dxo sh0 sh1)))))
        * mdft1 (fun t => e (-t)) m M (1 / ((m : R) * ufsQ0 (m : R) n M N dx z lam dxo sh0 sh1)) (ufsShift1 (m : R) n M N dx z lam dxo sh0 sh1) g k) := by
  have a1 := (shift_in_output_samples (m : R) n M N dx z lam dxo (sh0 + p * dxo) sh1).2.2.1
  have a2 := (shift_in_output_samples (m : R) n M N dx z lam dxo sh0 sh1).2.2.1
  have b1 := (shift_in_output_samples (m : R) n M N dx z lam dxo sh0 (sh1 + p * dxo)).2.2.2
  have b2 := (shift_in_output_samples (m : R) n M N dx z lam dxo sh0 sh1).2.2.2
  constructor
  · rw [a1, a2, show (sh0 + (p : R) * dxo) / dxo = sh0 / dxo + (p : R) by field_simp]
    exact mdft1_shift_translates_int _ (inv_character e he) n N _ (sh0 / dxo) p f l l' hl
  · rw [b1, b2, show (sh1 + (p : R) * dxo) / dxo = sh1 / dxo + (p : R) by field_simp]
    exact mdft1_shift_translates_int _ (inv_character e he) m M _ (sh1 / dxo) p g k k' hk

/-- spot location through `focus_fixed_sampling`, BOTH axes, any kernel (so also the inverse one): `kx` waves of x tilt and
`ky` waves of y tilt image the untilted pupil displaced by `(ky λ z / D_y, kx λ z / D_x)` in the coordinates
`((k - M//2)·dx_out - shift_y, (l - N//2)·dx_out - shift_x)` of the requested grid; `D_y = m·dx`, `D_x = n·dx`, any shape -/
theorem fixedSampling_spot_location (e : R → V) (he : ∀ a b, e (a + b) = e a * e b) (ofR : R → V) (sqrt : R → R)
    (m n M N : Nat) (dx z lam dxo shx shy ky kx : R) (f : Nat → Nat → V) (k l : Nat)
    (hm : (m : R) ≠ 0) (hn : (n : R) ≠ 0) (hdx : dx ≠ 0) (hz : z ≠ 0) (hl : lam ≠ 0) (hd : dxo ≠ 0) :
    fixedSampling e ofR sqrt m n M N dx z lam dxo shx shy (fun j i => f j i * (tilt e m ky j * tilt e n kx i)) k l
      = ofR (sqrt (dx * dxo / (lam * z)) * sqrt (dx * dxo / (lam * z)))
        * (e (-(shy / dxo * (coord M k - shy / dxo) * (dx * dxo / (lam * z))))
          * e (-(shx / dxo * (coord N l - shx / dxo) * (dx * dxo / (lam * z)))))
        * F2 e m n dx (1 / (lam * z)) f (coord M k * dxo - shy - ky * lam * z / ((m : R) * dx))
            (coord N l * dxo - shx - kx * lam * z / ((n : R) * dx)) := by
  rw [fixedSampling_samples_F2 e he ofR sqrt m n M N dx z lam dxo shx shy _ k l hm hn hdx hz hl hd]
  congr 1
  simp only [F2]
  have h1 : ∀ j, F1 e n dx (1 / (lam * z)) (fun i => f j i * (tilt e m ky j * tilt e n kx i)) (coord N l * dxo - shx)
      = tilt e m ky j * F1 e n dx (1 / (lam * z)) (f j) (coord N l * dxo - shx - kx * lam * z / ((n : R) * dx)) := by
    intro j
    rw [← tilt_shift e he n dx lam z kx (f j) _ hn hdx hl hz]
    simp only [F1_eq_sum, Finset.mul_sum]
    exact Finset.sum_congr rfl fun i _ => by ring
  simp only [h1]
  rw [show (fun j => tilt e m ky j * F1 e n dx (1 / (lam * z)) (f j) (coord N l * dxo - shx - kx * lam * z / ((n : R) * dx)))
      = fun j => F1 e n dx (1 / (lam * z)) (f j) (coord N l * dxo - shx - kx * lam * z / ((n : R) * dx)) * tilt e m ky j from
        funext fun j => mul_comm _ _]
  exact tilt_shift e he m dx lam z ky _ _ hm hdx hl hz

/-- a displaced focal spot unfocuses to the corresponding pupil tilt, in 2-D, through the whole model of
`unfocus_fixed_sampling` (whose constants are the generated ones by `ufs_generated_args_eq_model`): a point source of amplitude `a`
at focal sample `(py, px)` of an `M × N` focal array — physical position `((py - M//2 - sy)·dx_f, (px - N//2 - sx)·dx_f)` with
`s = shift/dx_p` — gives the pupil field `a · norm · unit phase · tilt_y[j] · tilt_x[i]` with `k = ξ₀·D/(λ z)` waves across each
pupil width `D_y = m·dx_p`, `D_x = n·dx_p` -/
theorem ufs_spot_is_tilt (e : R → V) (he : ∀ a b, e (a + b) = e a * e b) (ofR : R → V) (sqrt : R → R)
    (M N m n : Nat) (dxf z lam dxp shx shy : R) (a : V) (py px j i : Nat) (hpy : py < M) (hpx : px < N)
    (hM : (M : R) ≠ 0) (hN : (N : R) ≠ 0) (hm : (m : R) ≠ 0) (hn : (n : R) ≠ 0) (hdf : dxf ≠ 0) (hz : z ≠ 0) (hl : lam ≠ 0)
    (hdp : dxp ≠ 0) :
    fixedSampling (fun t => e (-t)) ofR sqrt M N m n dxf z lam dxp shx shy
        (fun k l => (if k = py then a else 0) * (if l = px then 1 else 0)) j i
      = ofR (sqrt (dxf * dxp / (lam * z)) * sqrt (dxf * dxp / (lam * z))) * a
        * (e (shy / dxp * (coord M py - shy / dxp) * (dxf * dxp / (lam * z)))
            * tilt e m ((coord M py - shy / dxp) * dxf * ((m : R) * dxp) / (lam * z)) j)
        * (e (shx / dxp * (coord N px - shx / dxp) * (dxf * dxp / (lam * z)))
            * tilt e n ((coord N px - shx / dxp) * dxf * ((n : R) * dxp) / (lam * z)) i) := by
  simp only [fixedSampling, shiftSamples, ofInt_eq, Int.cast_natCast,
    axisAlpha_eq _ dxf z lam dxp hM hdf hz hl hdp, axisAlpha_eq _ dxf z lam dxp hN hdf hz hl hdp]
  rw [mdft2_separable, unfocus_spot_is_tilt e he m M dxf dxp lam z (shy / dxp) a py j hpy hm,
    unfocus_spot_is_tilt e he n N dxf dxp lam z (shx / dxp) 1 px i hpx hn]
  ring

end fourier2

section coordinates
variable {R V : Type} [Field R] [Field V] [DecidableEq R]
open Model.C03

/-- the coordinate a result reports for sample `l` of an axis of `N` samples — `fftrange(N)[l]·dx` with the generated bounds
of `fftrange`, which is what `RichData.x/.y` hold (recognisers in `gen_recognisers`) — is `(l - N//2)·dx` -/
theorem reported_coordinate (N l : Nat) (dx : R) :
    (((gridLo (N : Int) + (l : Int) : Int) : R)) * dx = (coord N l : R) * dx := by
  rw [(gen_grid (N : Int)).1]
  simp only [coord, ofInt_eq]
  congr 2
  omega

/-- end to end in reported coordinates: the value `fixedSampling` puts at array element `[k,l]`, whose reported coordinates
are `(y_k, x_l) = (fftrange(M)[k]·dx_out, fftrange(N)[l]·dx_out)`, is norm · unit phase · the 2-D physical integral at
`(y_k - shift_y, x_l - shift_x)` -/
theorem fixedSampling_at_reported_coordinates (e : R → V) (he : ∀ a b, e (a + b) = e a * e b) (ofR : R → V) (sqrt : R → R)
    (m n M N : Nat) (dx z lam dxo shx shy : R) (f : Nat → Nat → V) (k l : Nat)
    (hm : (m : R) ≠ 0) (hn : (n : R) ≠ 0) (hdx : dx ≠ 0) (hz : z ≠ 0) (hl : lam ≠ 0) (hd : dxo ≠ 0) :
    fixedSampling e ofR sqrt m n M N dx z lam dxo shx shy f k l
      = ofR (sqrt (dx * dxo / (lam * z)) * sqrt (dx * dxo / (lam * z)))
        * (e (-(shy / dxo * (coord M k - shy / dxo) * (dx * dxo / (lam * z))))
          * e (-(shx / dxo * (coord N l - shx / dxo) * (dx * dxo / (lam * z)))))
        * F2 e m n dx (1 / (lam * z)) f ((((gridLo (M : Int) + (k : Int) : Int) : R)) * dxo - shy)
            ((((gridLo (N : Int) + (l : Int) : Int) : R)) * dxo - shx) := by
  rw [reported_coordinate, reported_coordinate]
  exact fixedSampling_samples_F2 e he ofR sqrt m n M N dx z lam dxo shx shy f k l hm hn hdx hz hl hd

/-- the coordinate `RichData.x/.y` report, as written in the source (`make_xy_grid` called with the object's `dx` and no diameter:
`xyGridCoord (fftrange(N)[l]) (xyGridStep dx 0 ·)`, all three translated), is `(l - N//2)·dx` -/
theorem reported_coordinate_as_written (N l : Nat) (dx smax : R) :
    xyGridCoord (((gridLo (N : Int) + (l : Int) : Int) : R)) (xyGridStep dx 0 smax) = (coord N l : R) * dx := by
  rw [(gen_xy_grid (((gridLo (N : Int) + (l : Int) : Int) : R)) dx 0 smax).1,
    (gen_xy_grid (((gridLo (N : Int) + (l : Int) : Int) : R)) dx 0 smax).2.2.1]
  exact reported_coordinate N l dx

end coordinates

section engine
variable {R V : Type} [Field R] [CharZero R] [Field V] [CharZero V] [DecidableEq R]
open Model.C03

/-- engine glue as regenerated from `fttools.py` (the same items C01 proves its theorems about, re-emitted into
`Generated.C03` so that THIS check re-reads them): chirp-Z index glue, which component of `shape / samples_out / shift` feeds
the row and the column basis of both executors, the per-axis chirp constants, exponent scalars and norms -/
theorem gen_engine_glue (n M L : Nat) : cztGlueGen n M L = Model.C01.cztGlue n M L := by
  have ext : ∀ a b : Model.C01.CztGlue, a.start = b.start → a.j1Lo = b.j1Lo → a.h1Lo = b.h1Lo → a.h1Hi = b.h1Hi →
      a.j2Lo = b.j2Lo → a.h2Lo = b.h2Lo → a.h2Hi = b.h2Hi → a.zLo = b.zLo → a.zHi = b.zHi → a = b := by
    intro a b; cases a; cases b; simp only [Model.C01.CztGlue.mk.injEq]; intros; simp_all
  apply ext <;> simp only [cztGlueGen, Model.C01.cztGlue, Model.C01.cztStart, Model.C01.cen] <;> omega

theorem gen_engine_wiring :
    cztRowWiring = Model.C01.wiringAxis0 ∧ cztColWiring = Model.C01.wiringAxis1 ∧
    mdftEoutWiring = Model.C01.wiringAxis0 ∧ mdftEinWiring = Model.C01.wiringAxis1 := by decide

theorem gen_engine_alpha (m n : Nat) (Q0 Q1 : R) :
    cztRowAlpha (m : R) (n : R) Q0 Q1 = 1 / ((m : R) * Q0) ∧ cztColAlpha (m : R) (n : R) Q0 Q1 = 1 / ((n : R) * Q1) ∧
    mdftEoutScale (m : R) (n : R) Q0 Q1 = 1 / ((m : R) * Q0) ∧ mdftEinScale (m : R) (n : R) Q0 Q1 = 1 / ((n : R) * Q1) ∧
    mdftEinNormSq (m : R) (n : R) Q0 Q1 = 1 / ((m : R) * Q0) ∧ mdftEoutNormSq (m : R) (n : R) Q0 Q1 = 1 / ((n : R) * Q1) := by
  refine ⟨?_, ?_, ?_, ?_, ?_, ?_⟩ <;>
    simp [cztRowAlpha, cztColAlpha, mdftEoutScale, mdftEinScale, mdftEinNormSq, mdftEoutNormSq] <;> ring


/-- bridge: the separable sum fed with the GENERATED per-axis `Q`s and shifts of `focus_fixed_sampling` (rows: `Q[0]`,
`shift[1]`; columns: `Q[1]`, `shift[0]`) is the hand model `fixedSampling` -/
theorem ffs_generated_args_eq_model (e : R → V) (ofR : R →+* V) (sqrt : R → R) (m n M N : Nat) (dx z lam dxo sh0 sh1 : R)
    (f : Nat → Nat → V) (k l : Nat) :
    mdft2 e m n M N (1 / ((m : R) * ffsQ0 (m : R) n M N dx z lam dxo sh0 sh1)) (1 / ((n : R) * ffsQ1 (m : R) n M N dx z lam dxo sh0 sh1))
        (ffsShift1 (m : R) n M N dx z lam dxo sh0 sh1) (ffsShift0 (m : R) n M N dx z lam dxo sh0 sh1)
        (ofR (sqrt (1 / ((m : R) * ffsQ0 (m : R) n M N dx z lam dxo sh0 sh1)))
          * ofR (sqrt (1 / ((n : R) * ffsQ1 (m : R) n M N dx z lam dxo sh0 sh1)))) f k l
      = fixedSampling e ofR sqrt m n M N dx z lam dxo sh0 sh1 f k l := by
  have hq := gen_ffsQ (m : R) n M N dx z lam dxo sh0 sh1
  have hs := gen_shift (m : R) n M N dx z lam dxo sh0 sh1
  rw [hq.1, hq.2, hs.1, hs.2.1]
  simp only [fixedSampling, axisAlpha, ofInt_eq, Int.cast_natCast, Int.cast_one, map_mul]

/-- the same for `unfocus_fixed_sampling` (inverse kernel; `dx` = focal spacing, `dxo` = pupil spacing) -/
theorem ufs_generated_args_eq_model (e : R → V) (ofR : R →+* V) (sqrt : R → R) (m n M N : Nat) (dx z lam dxo sh0 sh1 : R)
    (f : Nat → Nat → V) (k l : Nat) :
    mdft2 (fun t => e (-t)) m n M N (1 / ((m : R) * ufsQ0 (m : R) n M N dx z lam dxo sh0 sh1))
        (1 / ((n : R) * ufsQ1 (m : R) n M N dx z lam dxo sh0 sh1))
        (ufsShift1 (m : R) n M N dx z lam dxo sh0 sh1) (ufsShift0 (m : R) n M N dx z lam dxo sh0 sh1)
        (ofR (sqrt (1 / ((m : R) * ufsQ0 (m : R) n M N dx z lam dxo sh0 sh1)))
          * ofR (sqrt (1 / ((n : R) * ufsQ1 (m : R) n M N dx z lam dxo sh0 sh1)))) f k l
      = fixedSampling (fun t => e (-t)) ofR sqrt m n M N dx z lam dxo sh0 sh1 f k l := by
  have hq := gen_ufsQ (m : R) n M N dx z lam dxo sh0 sh1
  have hs := gen_shift (m : R) n M N dx z lam dxo sh0 sh1
  rw [hq.1, hq.2, hs.2.2.1, hs.2.2.2]
  simp only [fixedSampling, axisAlpha, ofInt_eq, Int.cast_natCast, Int.cast_one, map_mul]

/-- `focus_fixed_sampling(method='mdft')` over translated terms only: the matrix-DFT executor (wiring, exponent scalars and
norms regenerated from `fttools.py`) fed with the `Q` pair and the shift pair regenerated from `focus_fixed_sampling`
IS the model `fixedSampling` that the C03 / C05 theorems speak about (`√` enters as `nrm = ofR ∘ sqrt`) -/
theorem ffs_mdft_engine_eq_model (e : R → V) (ofR : R →+* V) (sqrt : R → R) (m n M N : Nat) (dx z lam dxo sh0 sh1 : R)
    (f : Nat → Nat → V) (k l : Nat) :
    Model.C01.mdft2 e (fun a => ofR (sqrt a)) mdftEoutWiring mdftEinWiring (m, n) (M, N)
        (mdftEoutScale (m : R) (n : R) (ffsQ0 (m : R) n M N dx z lam dxo sh0 sh1) (ffsQ1 (m : R) n M N dx z lam dxo sh0 sh1))
        (mdftEinScale (m : R) (n : R) (ffsQ0 (m : R) n M N dx z lam dxo sh0 sh1) (ffsQ1 (m : R) n M N dx z lam dxo sh0 sh1))
        (mdftEinNormSq (m : R) (n : R) (ffsQ0 (m : R) n M N dx z lam dxo sh0 sh1) (ffsQ1 (m : R) n M N dx z lam dxo sh0 sh1))
        (mdftEoutNormSq (m : R) (n : R) (ffsQ0 (m : R) n M N dx z lam dxo sh0 sh1) (ffsQ1 (m : R) n M N dx z lam dxo sh0 sh1))
        (ffsShift0 (m : R) n M N dx z lam dxo sh0 sh1, ffsShift1 (m : R) n M N dx z lam dxo sh0 sh1) f k l
      = fixedSampling e ofR sqrt m n M N dx z lam dxo sh0 sh1 f k l := by
  obtain ⟨w1, w2, w3, w4⟩ := gen_engine_wiring
  obtain ⟨a1, a2, a3, a4, a5, a6⟩ := gen_engine_alpha (R := R) m n (ffsQ0 (m : R) n M N dx z lam dxo sh0 sh1)
    (ffsQ1 (m : R) n M N dx z lam dxo sh0 sh1)
  rw [w3, w4, a3, a4, a5, a6, c01_mdft2_eq]
  exact ffs_generated_args_eq_model e ofR sqrt m n M N dx z lam dxo sh0 sh1 f k l

/-- `unfocus_fixed_sampling(method='mdft')`: `idft2` is the same triple product with the reflected kernel -/
theorem ufs_mdft_engine_eq_model (e : R → V) (ofR : R →+* V) (sqrt : R → R) (m n M N : Nat) (dx z lam dxo sh0 sh1 : R)
    (f : Nat → Nat → V) (k l : Nat) :
    Model.C01.mdft2 (fun t => e (-t)) (fun a => ofR (sqrt a)) mdftEoutWiring mdftEinWiring (m, n) (M, N)
        (mdftEoutScale (m : R) (n : R) (ufsQ0 (m : R) n M N dx z lam dxo sh0 sh1) (ufsQ1 (m : R) n M N dx z lam dxo sh0 sh1))
        (mdftEinScale (m : R) (n : R) (ufsQ0 (m : R) n M N dx z lam dxo sh0 sh1) (ufsQ1 (m : R) n M N dx z lam dxo sh0 sh1))
        (mdftEinNormSq (m : R) (n : R) (ufsQ0 (m : R) n M N dx z lam dxo sh0 sh1) (ufsQ1 (m : R) n M N dx z lam dxo sh0 sh1))
        (mdftEoutNormSq (m : R) (n : R) (ufsQ0 (m : R) n M N dx z lam dxo sh0 sh1) (ufsQ1 (m : R) n M N dx z lam dxo sh0 sh1))
        (ufsShift0 (m : R) n M N dx z lam dxo sh0 sh1, ufsShift1 (m : R) n M N dx z lam dxo sh0 sh1) f k l
      = fixedSampling (fun t => e (-t)) ofR sqrt m n M N dx z lam dxo sh0 sh1 f k l := by
  obtain ⟨w1, w2, w3, w4⟩ := gen_engine_wiring
  obtain ⟨a1, a2, a3, a4, a5, a6⟩ := gen_engine_alpha (R := R) m n (ufsQ0 (m : R) n M N dx z lam dxo sh0 sh1)
    (ufsQ1 (m : R) n M N dx z lam dxo sh0 sh1)
  rw [w3, w4, a3, a4, a5, a6, c01_mdft2_eq]
  exact ufs_generated_args_eq_model e ofR sqrt m n M N dx z lam dxo sh0 sh1 f k l

/-- `focus_fixed_sampling(method='czt')` over translated terms only: the chirp-Z executor — chirps, zero-filled kernel with the
index glue regenerated from `_prepare_czt_basis`, FFT convolution of ANY admissible length `K' ≥ m+M−1`, `L ≥ n+N−1`, crop,
chirp — fed with the generated `Q` and shift pairs returns the SAME model `fixedSampling`, sample for sample including the
phase: both methods compute one function -/
theorem ffs_czt_engine_eq_model (e : R → V) (he : C01.IsChar e) (hf : C01.IsFaithful e) (ofR : R →+* V) (sqrt : R → R)
    (m n M N K' L : Nat) (dx z lam dxo sh0 sh1 : R) (f : Array (Array V)) (k l : Nat)
    (hm : 0 < m) (hn : 0 < n) (hk : k < M) (hl : l < N) (hK : m + M ≤ K' + 1) (hL : n + N ≤ L + 1) :
    Model.C01.rd2 (Model.C01.czt2 e (fun a => ofR (sqrt a)) cztRowWiring cztColWiring (cztGlueGen m M K') (cztGlueGen n N L)
        (m, n) (M, N) (K', L)
        (cztRowAlpha (m : R) (n : R) (ffsQ0 (m : R) n M N dx z lam dxo sh0 sh1) (ffsQ1 (m : R) n M N dx z lam dxo sh0 sh1))
        (cztColAlpha (m : R) (n : R) (ffsQ0 (m : R) n M N dx z lam dxo sh0 sh1) (ffsQ1 (m : R) n M N dx z lam dxo sh0 sh1))
        (ffsShift0 (m : R) n M N dx z lam dxo sh0 sh1, ffsShift1 (m : R) n M N dx z lam dxo sh0 sh1) f) k l
      = fixedSampling e ofR sqrt m n M N dx z lam dxo sh0 sh1 (Model.C01.rd2 f) k l := by
  obtain ⟨w1, w2, w3, w4⟩ := gen_engine_wiring
  obtain ⟨a1, a2, a3, a4, a5, a6⟩ := gen_engine_alpha (R := R) m n (ffsQ0 (m : R) n M N dx z lam dxo sh0 sh1)
    (ffsQ1 (m : R) n M N dx z lam dxo sh0 sh1)
  rw [w1, w2, a1, a2, gen_engine_glue, gen_engine_glue,
    c01_czt2_eq e _ he hf m n M N K' L _ _ _ _ f k l hm hn hk hl hK hL]
  exact ffs_generated_args_eq_model e ofR sqrt m n M N dx z lam dxo sh0 sh1 _ k l

/-- `unfocus_fixed_sampling(method='czt')`: `iczt2 = conj ∘ czt2 ∘ conj` over the translated terms is the inverse model -/
theorem ufs_czt_engine_eq_model (e : R → V) (he : C01.IsChar e) (hf : C01.IsFaithful e) (ofR : R →+* V) (sqrt : R → R)
    (cj : V →+* V) (hc : C01.IsConj cj e (fun a => ofR (sqrt a)))
    (m n M N K' L : Nat) (dx z lam dxo sh0 sh1 : R) (f : Array (Array V)) (k l : Nat)
    (hm : 0 < m) (hn : 0 < n) (hk : k < M) (hl : l < N) (hK : m + M ≤ K' + 1) (hL : n + N ≤ L + 1) :
    Model.C01.rd2 (Model.C01.iczt2 cj e (fun a => ofR (sqrt a)) cztRowWiring cztColWiring (cztGlueGen m M K') (cztGlueGen n N L)
        (m, n) (M, N) (K', L)
        (cztRowAlpha (m : R) (n : R) (ufsQ0 (m : R) n M N dx z lam dxo sh0 sh1) (ufsQ1 (m : R) n M N dx z lam dxo sh0 sh1))
        (cztColAlpha (m : R) (n : R) (ufsQ0 (m : R) n M N dx z lam dxo sh0 sh1) (ufsQ1 (m : R) n M N dx z lam dxo sh0 sh1))
        (ufsShift0 (m : R) n M N dx z lam dxo sh0 sh1, ufsShift1 (m : R) n M N dx z lam dxo sh0 sh1) f) k l
      = fixedSampling (fun t => e (-t)) ofR sqrt m n M N dx z lam dxo sh0 sh1 (Model.C01.rd2 f) k l := by
  obtain ⟨w1, w2, w3, w4⟩ := gen_engine_wiring
  obtain ⟨a1, a2, a3, a4, a5, a6⟩ := gen_engine_alpha (R := R) m n (ufsQ0 (m : R) n M N dx z lam dxo sh0 sh1)
    (ufsQ1 (m : R) n M N dx z lam dxo sh0 sh1)
  rw [w1, w2, a1, a2, gen_engine_glue, gen_engine_glue,
    c01_iczt2_eq e _ he hf cj hc m n M N K' L _ _ _ _ f k l hm hn hk hl hK hL]
  exact ufs_generated_args_eq_model e ofR sqrt m n M N dx z lam dxo sh0 sh1 _ k l

end engine

section fftroute
variable {R V : Type} [Field R] [CharZero R] [Field V] [CharZero V] [DecidableEq R]
open Model.C03

/-- the FFT routes as WRITTEN in the source — the transform named `focusRouteTransform` between the index rotations named
`focusRouteInner` (inside) and `focusRouteOuter` (outside), all three read off the AST of `focus` / `unfocus` — are the
centred DFT with the forward kernel (`focus`), resp. the reflected kernel (`unfocus`), for every length, odd or even
(swapping the two rotations, or the two transforms, makes this fail) -/
theorem fft_routes_as_written (e : R → V) (he : ∀ a b, e (a + b) = e a * e b) (hint : ∀ z : ℤ, e (z : R) = 1)
    (N : Nat) (x : Nat → V) (l : Nat) (hl : l < N) :
    fftRouteNamed focusRouteTransform focusRouteOuter focusRouteInner e N x l = cdft1 e N x l ∧
    fftRouteNamed unfocusRouteTransform unfocusRouteOuter unfocusRouteInner e N x l = cdft1 (fun t => e (-t)) N x l := by
  have hint' : ∀ z : ℤ, (fun t => e (-t)) (z : R) = 1 := by
    intro z; have := hint (-z); simpa using this
  constructor
  · have := fftRoute1_eq_cdft1 e he hint N x l hl
    simpa [fftRouteNamed, fftRoute1, kernelOf, rotIdx, focusRouteTransform, focusRouteOuter, focusRouteInner] using this
  · have := fftRoute1_eq_cdft1 (fun t => e (-t)) (inv_character e he) hint' N x l hl
    simpa [fftRouteNamed, fftRoute1, kernelOf, rotIdx, unfocusRouteTransform, unfocusRouteOuter, unfocusRouteInner] using this

/-- un-focusing analogue of `fft_route_samples_F`: the centred inverse DFT of the zero-padded focal axis samples the inverse
integral at `(l - N//2)·dx_rep`, `dx_rep = λ f/(N dx)` the pupil spacing `Wavefront.unfocus` reports from this axis -/
theorem fft_route_samples_F_unfocus (e : R → V) (n N : Nat) (hnN : n ≤ N) (dx lam efl N0 : R) (f : Nat → V) (l : Nat)
    (hN : (N : R) ≠ 0) (hdx : dx ≠ 0) (hl : lam ≠ 0) (hf : efl ≠ 0) :
    cdft1 (fun t => e (-t)) N (padded n N f) l
      = F1 (fun t => e (-t)) n dx (1 / (lam * efl)) f (coord N l * unfocusDx dx N0 (N : R) lam efl) := by
  simp only [cdft1, sumTo_eq_sum, F1_eq_sum, ofInt_eq, Int.cast_natCast]
  rw [sum_padded n N hnN f (fun c => e (-(c * coord N l / (N : R))))]
  refine Finset.sum_congr rfl fun i _ => ?_
  congr 3
  simp only [Generated.C03.unfocusDx, Generated.C03.psfToPupil, Generated.C03.pupilToPsf, Model.C03.qForSampling, Model.C03.pupilToPsf,
    Model.C03.psfToPupil]
  field_simp

/-- spot location through the FFT route (one axis, as written in the source): the padded, rotated, transformed, rotated-back
tilted pupil is the untilted focal field displaced by `k λ f / D`, in the coordinates `(l - N//2)·dx_rep` that
`Wavefront.focus` reports from this axis's padded length — every pupil size `n`, padded size `N ≥ n`, real `k` -/
theorem fft_route_spot_location (e : R → V) (he : ∀ a b, e (a + b) = e a * e b) (hint : ∀ z : ℤ, e (z : R) = 1)
    (n N : Nat) (hnN : n ≤ N) (hn0 : 0 < n) (dx lam efl N0 kw : R) (f : Nat → V) (l : Nat) (hl : l < N)
    (hdx : dx ≠ 0) (hlam : lam ≠ 0) (hf : efl ≠ 0) :
    fftRouteNamed focusRouteTransform focusRouteOuter focusRouteInner e N (padded n N (fun i => f i * tilt e n kw i)) l
      = F1 e n dx (1 / (lam * efl)) f (coord N l * focusDx dx N0 (N : R) lam efl - kw * lam * efl / ((n : R) * dx)) := by
  rw [(fft_routes_as_written e he hint N _ l hl).1,
    fft_route_samples_F e n N hnN dx lam efl N0 _ l (by exact_mod_cast (show N ≠ 0 by omega)) hdx hlam hf,
    tilt_shift e he n dx lam efl kw f _ (by exact_mod_cast hn0.ne') hdx hlam hf]

/-- pad offset of the current `pad2d` (re-read by this check): the data sit at `[N//2 − n//2, …)` -/
theorem gen_pad_offset (n N : Nat) : padLo (n : Int) (N : Int) = Model.C01.padOffset n N := by
  simp only [padLo, Model.C01.padOffset, Model.C01.cen]

/-- the FFT route in 2-D with the ortho normalisation, through C01's model of `fftshift(fft2(ifftshift(pad2d(x))), 'ortho')`
and the pad offset of the current source: element `[k,l]` is `nrm(1/M')·nrm(1/N')` times the 2-D physical integral at
`((k - M'//2)·λf/(M' dx), (l - N'//2)·dx_rep)`: the x coordinate is the reported one for EVERY padded shape, the y coordinate is
`(k - M'//2)` times the TRUE axis-0 spacing `λ f/(M' dx)`, which `fft_dx_axis0_iff_square` shows to be the reported spacing iff
`M' = N'` (known finding fft-nonsquare-dx) -/
theorem fft_route_2d_samples_F2 (e : R → V) (he : C01.IsChar e) (nrm : R → V) (m n M' N' : Nat) (hm : m ≤ M') (hn : n ≤ N')
    (dx lam efl : R) (f : Array (Array V)) (k l : Nat) (hk : k < M') (hl : l < N') (hdx : dx ≠ 0) (hlam : lam ≠ 0) (hf : efl ≠ 0) :
    Model.C01.rd2 (Model.C01.fftRoute2 e nrm (m, n) (M', N') (padLo (m : Int) (M' : Int), padLo (n : Int) (N' : Int)) f) k l
      = (nrm (1 / (M' : R)) * nrm (1 / (N' : R)))
        * F2 e m n dx (1 / (lam * efl)) (Model.C01.rd2 f) (coord M' k * (lam * efl / ((M' : R) * dx)))
            (coord N' l * focusDx dx (M' : R) (N' : R) lam efl) := by
  have hM : (M' : R) ≠ 0 := by exact_mod_cast (show M' ≠ 0 by omega)
  have hN : (N' : R) ≠ 0 := by exact_mod_cast (show N' ≠ 0 by omega)
  rw [gen_pad_offset, gen_pad_offset, C01.fftRoute2_eq_spec2 nrm he m n M' N' hm hn f k l hk hl, c01_spec2_eq]
  simp only [mdft2, F2]
  have h1 : ∀ (a A : Nat) (c : R) (g : Nat → V) (t : Nat) (hA : (A : R) ≠ 0) (hc : c = lam * efl / ((A : R) * dx)),
      mdft1 e a A (1 / (A : R)) 0 g t = F1 e a dx (1 / (lam * efl)) g (coord A t * c) := by
    intro a A c g t hA hc
    rw [mdft1_samples_F e he.add a A (1 / (A : R)) 0 dx c (1 / (lam * efl)) g t (by rw [hc]; field_simp)]
    simp [he.zero]
  rw [h1 m M' _ _ k hM rfl]
  congr 2
  funext j
  exact h1 n N' _ _ l hN (by simp only [Generated.C03.focusDx, Generated.C03.pupilToPsf, Model.C03.focusDx, Model.C03.pupilToPsf]; field_simp)

end fftroute

section routes
variable {R V : Type} [Field R] [CharZero R] [Field V] [CharZero V] [DecidableEq R]
open Model.C03

/-- the routes agree at the same physical place (one axis, any per-axis `Q` / sample shift satisfying the two translated
obligations): whenever output sample `l'` of a fixed-sampling call at ANY requested spacing `dx_out` and shift, and sample `l` of
the FFT route (as written: pad, rotate, DFT, rotate back) with its reported spacing, have the same physical coordinate
`(l' - M//2)·dx_out - shift = (l - N//2)·dx_rep`, the two array elements are equal up to the unit phase of the shift -/
theorem routes_agree_at_same_place (e : R → V) (he : ∀ a b, e (a + b) = e a * e b) (hint : ∀ z : ℤ, e (z : R) = 1)
    (n N M : Nat) (hnN : n ≤ N) (Q s dx z lam dxo sh N0 : R) (f : Nat → V) (l l' : Nat) (hl : l < N)
    (hQ : 1 / ((n : R) * Q) = dx * dxo / (lam * z)) (hs : s = sh / dxo) (hd : dxo ≠ 0) (hdx : dx ≠ 0) (hlam : lam ≠ 0)
    (hz : z ≠ 0) (hplace : coord M l' * dxo - sh = coord N l * focusDx dx N0 (N : R) lam z) :
    mdft1 e n M (1 / ((n : R) * Q)) s f l'
      = e (-(s * (coord M l' - s) * (1 / ((n : R) * Q)))) * fftRoute1 e N (padded n N f) l := by
  rw [axis_samples_F e he n M Q s dx z lam dxo sh f l' hQ hs hd, hplace,
    fft_route_end_to_end e he hint n N hnN dx lam z N0 f l hl hdx hlam hz]

/-- the same over the GENERATED glue of `focus_fixed_sampling` (x axis: `ffsQ1`, `ffsShift0`; y axis: `ffsQ0`, `ffsShift1`),
each axis against the FFT route of that axis's own padded length -/
theorem ffs_agrees_with_fft_route (e : R → V) (he : ∀ a b, e (a + b) = e a * e b) (hint : ∀ z : ℤ, e (z : R) = 1)
    (m n M N M' N' : Nat) (hmM : m ≤ M') (hnN : n ≤ N') (dx z lam dxo sh0 sh1 N0 : R) (f g : Nat → V) (k k' l l' : Nat)
    (hk : k < M') (hl : l < N') (hm : (m : R) ≠ 0) (hn : (n : R) ≠ 0) (hdx : dx ≠ 0) (hz : z ≠ 0) (hlam : lam ≠ 0)
    (hd : dxo ≠ 0)
    (hx : coord N l' * dxo - sh0 = coord N' l * focusDx dx N0 (N' : R) lam z)
    (hy : coord M k' * dxo - sh1 = coord M' k * focusDx dx N0 (M' : R) lam z) :
    (mdft1 e n N (1 / ((n : R) * ffsQ1 (m : R) n M N dx z lam dxo sh0 sh1)) (ffsShift0 (m : R) n M N dx z lam dxo sh0 sh1) f l'
      = e (-(ffsShift0 (m : R) n M N dx z lam dxo sh0 sh1 * (coord N l' - ffsShift0 (m : R) n M N dx z lam dxo sh0 sh1)
            * (1 / ((n : R) * ffsQ1 (m : R) n M N dx z lam dxo sh0 sh1))))
        * fftRoute1 e N' (padded n N' f) l) ∧
    (mdft1 e m M (1 / ((m : R) * ffsQ0 (m : R) n M N dx z lam dxo sh0 sh1)) (ffsShift1 (m : R) n M N dx z lam dxo sh0 sh1) g k'
      = e (-(ffsShift1 (m : R) n M N dx z lam dxo sh0 sh1 * (coord M k' - ffsShift1 (m : R) n M N dx z lam dxo sh0 sh1)
            * (1 / ((m : R) * ffsQ0 (m : R) n M N dx z lam dxo sh0 sh1))))
        * fftRoute1 e M' (padded m M' g) k) := by
  have hQ := ffsQ_axes (m : R) n M N dx z lam dxo sh0 sh1 hm hn hdx hz hlam hd
  have hS := shift_in_output_samples (m : R) n M N dx z lam dxo sh0 sh1
  exact ⟨routes_agree_at_same_place e he hint n N' N hnN _ _ dx z lam dxo sh0 N0 f l l' hl hQ.2 hS.1 hd hdx hlam hz hx,
         routes_agree_at_same_place e he hint m M' M hmM _ _ dx z lam dxo sh1 N0 g k k' hk hQ.1 hS.2.1 hd hdx hlam hz hy⟩

/-- sample for sample: `focus_fixed_sampling` asked for the spacing the FFT route reports, as many samples as the padded axis
and no shift IS the FFT route (generated `Q` and shift of the x axis; every pupil size `n`, padded size `N ≥ n`, every `l`) -/
theorem ffs_at_fft_spacing_is_fft_route (e : R → V) (he : ∀ a b, e (a + b) = e a * e b) (hint : ∀ z : ℤ, e (z : R) = 1)
    (m n M N : Nat) (hnN : n ≤ N) (dx z lam N0 : R) (f : Nat → V) (l : Nat) (hl : l < N)
    (hm : (m : R) ≠ 0) (hn : (n : R) ≠ 0) (hdx : dx ≠ 0) (hz : z ≠ 0) (hlam : lam ≠ 0) :
    mdft1 e n N (1 / ((n : R) * ffsQ1 (m : R) n M N dx z lam (focusDx dx N0 (N : R) lam z) 0 0))
        (ffsShift0 (m : R) n M N dx z lam (focusDx dx N0 (N : R) lam z) 0 0) f l
      = fftRoute1 e N (padded n N f) l := by
  have hN : (N : R) ≠ 0 := by exact_mod_cast (show N ≠ 0 by omega)
  have hd : focusDx dx N0 (N : R) lam z ≠ 0 := by
    simp only [Generated.C03.focusDx, Generated.C03.pupilToPsf, Model.C03.focusDx, Model.C03.pupilToPsf]
    first | positivity | (apply div_ne_zero <;> apply mul_ne_zero <;> assumption)
  have hQ := (ffsQ_axes (m : R) n M N dx z lam (focusDx dx N0 (N : R) lam z) 0 0 hm hn hdx hz hlam hd).2
  have hS := (shift_in_output_samples (m : R) n M N dx z lam (focusDx dx N0 (N : R) lam z) 0 0).1
  have h := routes_agree_at_same_place e he hint n N N hnN _ _ dx z lam _ 0 N0 f l l hl hQ hS hd hdx hlam hz (by ring)
  rw [h, hS]
  have e0 : e 0 = 1 := by simpa using hint 0
  simp [e0]

/-- un-focusing direction, sample for sample: `unfocus_fixed_sampling` asked for the pupil spacing the FFT route `unfocus` reports,
as many samples as the padded axis and no shift IS the FFT route `fftshift(ifft(ifftshift(pad)))` (generated `Q` and shift of the x
axis, inverse kernel; every focal size `n`, padded size `N ≥ n`, every `l`) -/
theorem ufs_at_fft_spacing_is_fft_route (e : R → V) (he : ∀ a b, e (a + b) = e a * e b) (hint : ∀ z : ℤ, e (z : R) = 1)
    (m n M N : Nat) (hnN : n ≤ N) (dx z lam N0 : R) (f : Nat → V) (l : Nat) (hl : l < N)
    (hm : (m : R) ≠ 0) (hn : (n : R) ≠ 0) (hdx : dx ≠ 0) (hz : z ≠ 0) (hlam : lam ≠ 0) :
    mdft1 (fun t => e (-t)) n N (1 / ((n : R) * ufsQ1 (m : R) n M N dx z lam (unfocusDx dx N0 (N : R) lam z) 0 0))
        (ufsShift0 (m : R) n M N dx z lam (unfocusDx dx N0 (N : R) lam z) 0 0) f l
      = fftRoute1 (fun t => e (-t)) N (padded n N f) l := by
  have hN : (N : R) ≠ 0 := by exact_mod_cast (show N ≠ 0 by omega)
  have hfu : unfocusDx dx N0 (N : R) lam z = focusDx dx N0 (N : R) lam z := by
    rw [(gen_reportedDx dx N0 (N : R) lam z).1, (gen_reportedDx dx N0 (N : R) lam z).2]
    simp only [Model.C03.focusDx, Model.C03.pupilToPsf, Model.C03.psfToPupil]
  have hd : focusDx dx N0 (N : R) lam z ≠ 0 := by
    simp only [Generated.C03.focusDx, Generated.C03.pupilToPsf, Model.C03.focusDx, Model.C03.pupilToPsf]
    first | positivity | (apply div_ne_zero <;> apply mul_ne_zero <;> assumption)
  have hint' : ∀ k : ℤ, (fun t => e (-t)) ((k : ℤ) : R) = 1 := by
    intro k; simpa using hint (-k)
  rw [hfu]
  have hQ := (ufsQ_axes (m : R) n M N dx z lam (focusDx dx N0 (N : R) lam z) 0 0 hm hn hdx hz hlam hd).2
  have hS := (shift_in_output_samples (m : R) n M N dx z lam (focusDx dx N0 (N : R) lam z) 0 0).2.2.1
  have h := routes_agree_at_same_place (fun t => e (-t)) (inv_character e he) hint' n N N hnN _ _ dx z lam _ 0 N0 f l l hl hQ hS hd
    hdx hlam hz (by ring)
  rw [h, hS]
  have e0 : e 0 = 1 := by simpa using hint 0
  simp [e0]

/-- the routes agree at the same physical place IN 2-D, norms included: element `[k',l']` of `focus_fixed_sampling` (model
`fixedSampling`, any requested `dx_out`, no shift) and element `[k,l]` of the FFT route (C01's model of
`fftshift(fft2(ifftshift(pad2d(x))), 'ortho')` with the pad offset of the current source) whose physical coordinates coincide —
x through the REPORTED spacing, y through the true axis-0 spacing `λf/(M' dx)` (the reported one iff the padded array is square,
`fft_dx_axis0_iff_square`) — hold the same value up to the two routes' norms -/
theorem routes_agree_2d (e : R → V) (he : C01.IsChar e) (nrm : R → V) (ofR : R → V) (sqrt : R → R)
    (m n M N M' N' : Nat) (hm : m ≤ M') (hn : n ≤ N') (hm0 : (m : R) ≠ 0) (hn0 : (n : R) ≠ 0)
    (dx lam efl dxo : R) (f : Array (Array V)) (k l k' l' : Nat) (hk : k < M') (hl : l < N')
    (hdx : dx ≠ 0) (hlam : lam ≠ 0) (hf : efl ≠ 0) (hd : dxo ≠ 0)
    (hy : coord M k' * dxo = coord M' k * (lam * efl / ((M' : R) * dx)))
    (hx : coord N l' * dxo = coord N' l * focusDx dx (M' : R) (N' : R) lam efl) :
    (nrm (1 / (M' : R)) * nrm (1 / (N' : R)))
        * fixedSampling e ofR sqrt m n M N dx efl lam dxo 0 0 (Model.C01.rd2 f) k' l'
      = ofR (sqrt (dx * dxo / (lam * efl)) * sqrt (dx * dxo / (lam * efl)))
        * Model.C01.rd2 (Model.C01.fftRoute2 e nrm (m, n) (M', N') (padLo (m : Int) (M' : Int), padLo (n : Int) (N' : Int)) f) k l := by
  rw [fixedSampling_samples_F2 e he.add ofR sqrt m n M N dx efl lam dxo 0 0 _ k' l' hm0 hn0 hdx hf hlam hd,
    fft_route_2d_samples_F2 e he nrm m n M' N' hm hn dx lam efl f k l hk hl hdx hlam hf]
  simp only [zero_div, zero_mul, neg_zero, he.zero, sub_zero, mul_one, hx, hy]
  ring

/-- non-vacuity of the coordinate hypotheses of `routes_agree_2d` (exact rationals): on a square 8 × 8 padded array the true axis-0
spacing and the reported spacing are both 25/2, so `dx_out = 25/2`, `M = M'`, `N = N'`, `k' = k`, `l' = l` satisfies them -/
example : focusDx (1/2 : ℚ) 8 8 (1/2) 100 = 25 / 2 ∧ (1/2 : ℚ) * 100 / ((8 : ℚ) * (1/2)) = 25 / 2 := by
  constructor <;> norm_num [Generated.C03.focusDx, Generated.C03.pupilToPsf, Model.C03.pupilToPsf, Model.C03.focusDx]

end routes

section driver
variable {R V : Type} [Field R] [CharZero R] [Field V] [CharZero V]
open Model.C03

/-- the array the Lean driver prints for an `fs` request (`Model.C03.Exec.fixedTableG`, rows memoised) holds, at every index
inside it, the value of `Model.C03.fixedSampling` — the function all theorems above speak about -/
theorem driver_table_is_model (e : R → V) (ofR : R → V) (sqrt : R → R) (m n M N : Nat) (dx z lam dxo shx shy : R)
    (f : Array (Array V)) (k l : Nat) (hk : k < M) (hl : l < N) :
    Model.C01.rd2 (Model.C03.Exec.fixedTableG e ofR sqrt m n M N dx z lam dxo shx shy f) k l
      = fixedSampling e ofR sqrt m n M N dx z lam dxo shx shy (Model.C01.rd2 f) k l :=
  fixedTableG_eq e ofR sqrt m n M N dx z lam dxo shx shy f k l hk hl

end driver

end C03
