import PrysmVerif.Generated.C08
import PrysmVerif.Lemmas.C08Sweep
import PrysmVerif.Lemmas.C08Families
import PrysmVerif.Lemmas.C08Lit
import PrysmVerif.Lemmas.C07Field
import PrysmVerif.Lemmas.C07Hermite
import PrysmVerif.Lemmas.C07Gen
/-!
# C08 — sequence evaluation equals one-at-a-time evaluation

1. `sweep_eq_map`: the control flow shared by every `*_seq` (one forward pass, a running index into `ns`)
   returns `ns.map eval` for EVERY non-empty strictly ascending order list and every recurrence family;
   instantiated for Jacobi, Legendre, Hermite He/H, Laguerre, Dickson 1/2, Qbfs and the three `*_der_seq` sweeps.
2. `table_lookup_eq_map`: per-`|m|` tables + look-up return the single-order values for every list of pairs.
3. the broadcasting shape rule: constants of shape `(N,1,…,1)` scale mode `k` by `c_k` for every coordinate
   shape; the shapes the source uses are generated from the source (`Generated.C08.cheby*CsShape`), so the
   kernel re-checks them; `(N,1)` is shown to raise / alias / mis-shape for 2-D / N×… / 0-D coordinates.
4. `xy_seq` takes its monomials from a family whose order-0 member is 1 (generated from the source).
5. the bodies of `jacobi_seq`, `hermite_He_seq`, `hermite_H_seq`, `hermite_He_der_seq`, `hermite_H_der_seq`, `laguerre_seq`,
   `dickson1_seq`, `dickson2_seq`, `Qbfs_seq` translated statement by statement from the current source (`Generated.C08.*Seq`):
   each returns `ns.map` of the translated single-order function, for every non-empty strictly ascending `ns`.
6. structural facts read off the source: no dtype-blind cache reachable from a `*_seq`; no in-place operation on a parameter
   (or a possible alias of one) in any function of the polynomial modules.
-/
set_option linter.unusedTactic false
set_option linter.unreachableTactic false
set_option linter.unusedSectionVars false
set_option linter.unusedSimpArgs false
set_option linter.unusedVariables false

namespace C08
open Model.C08 Model.C07 C08L

/-! ## 1. the sweep -/

/-- **sequence = one-at-a-time**, for every recurrence family `r` and every non-empty strictly ascending order
    list `ns` (gapped, not starting at 0, singleton, any length): one sweep returns `ns.map r.eval`, in order -/
theorem sweep_eq_map {S K : Type} (r : Rec S K) (ns : List Nat) (hne : ns ≠ []) (hpw : ns.Pairwise (· < ·)) :
    sweep r ns = some (ns.map r.eval) := C08L.sweep_eq_map r ns hne hpw

/-- output has one row per requested order: leading shape `(len(ns), …)` -/
theorem sweep_length {S K : Type} (r : Rec S K) (ns : List Nat) (out : List K) (h : sweep r ns = some out)
    (hne : ns ≠ []) (hpw : ns.Pairwise (· < ·)) : out.length = ns.length := by
  rw [sweep_eq_map r ns hne hpw] at h
  cases h; simp

/-- an empty order list is rejected (the code raises `IndexError` on `ns[0]`) -/
theorem sweep_nil {S K : Type} (r : Rec S K) : sweep r [] = none := rfl

section families
variable {K : Type} [Num K]

/-- the hand model of `jacobi_seq` (which `legendre_seq` and `Qcon_seq` call with `(0,0)` and `(0,4)`, see `wrapper_seq_params`):
    row `i` is `jacobi(ns[i], α, β, x)` -/
theorem jacobi_seq_eq_map (a b x : K) (ns : List Nat) (hne : ns ≠ []) (hpw : ns.Pairwise (· < ·)) :
    sweep (jacobiRec a b x) ns = some (ns.map fun n => jacobi n a b x) := by
  rw [sweep_eq_map _ ns hne hpw]; simp [jacobiRec_eval]

/-- `hermite_He_seq`: row `i` is `hermite_He(ns[i], x)` -/
theorem hermiteHe_seq_eq_map (x : K) (ns : List Nat) (hne : ns ≠ []) (hpw : ns.Pairwise (· < ·)) :
    sweep (heRec x) ns = some (ns.map fun n => hermiteHe n x) := by
  rw [sweep_eq_map _ ns hne hpw]; simp [heRec_eval]

/-- `hermite_H_seq`: row `i` is `hermite_H(ns[i], x)` -/
theorem hermiteH_seq_eq_map (x : K) (ns : List Nat) (hne : ns ≠ []) (hpw : ns.Pairwise (· < ·)) :
    sweep (hRec x) ns = some (ns.map fun n => hermiteH n x) := by
  rw [sweep_eq_map _ ns hne hpw]; simp [hRec_eval]

/-- `laguerre_seq`: row `i` is `laguerre(ns[i], α, x)` -/
theorem laguerre_seq_eq_map (a x : K) (ns : List Nat) (hne : ns ≠ []) (hpw : ns.Pairwise (· < ·)) :
    sweep (lagRec a x) ns = some (ns.map fun n => laguerre n a x) := by
  rw [sweep_eq_map _ ns hne hpw]; simp [lagRec_eval]

/-- `dickson1_seq` / `dickson2_seq`: row `i` is `dickson1/2(ns[i], a, x)` -/
theorem dickson_seq_eq_map (a x : K) (ns : List Nat) (hne : ns ≠ []) (hpw : ns.Pairwise (· < ·)) :
    sweep (dickRec (nat 2) a x) ns = some (ns.map fun n => dickson1 n a x)
    ∧ sweep (dickRec (nat 1) a x) ns = some (ns.map fun n => dickson2 n a x) := by
  rw [sweep_eq_map _ ns hne hpw, sweep_eq_map _ ns hne hpw]; simp [dickRec_eval1, dickRec_eval2]

/-- `Qbfs_seq`: row `i` is `Qbfs(ns[i], x)` (any `sqrt`) -/
theorem qbfs_seq_eq_map (sqrt : K → K) (x : K) (ns : List Nat) (hne : ns ≠ []) (hpw : ns.Pairwise (· < ·)) :
    sweep (qbfsRec sqrt x) ns = some (ns.map fun n => qbfs sqrt n x) := by
  rw [sweep_eq_map _ ns hne hpw]; simp [qbfsRec_eval]

/-- `jacobi_der_seq`, `hermite_He_der_seq`, `hermite_H_der_seq`: row `i` is the single-order derivative function
    (`½(n+α+β+1)·P_{n−1}^{(α+1,β+1)}`, `n·He_{n−1}`, `2n·H_{n−1}`, and `0` at `n = 0`) -/
theorem der_sweep_eq_map (a b x : K) (ns : List Nat) (hne : ns ≠ []) (hpw : ns.Pairwise (· < ·)) :
    sweep (jacobiDerRec a b x) ns = some (ns.map fun n => jacobiDer n a b x)
    ∧ sweep (heDerRec x) ns = some (ns.map fun n => hermiteHeDer n x)
    ∧ sweep (hDerRec x) ns = some (ns.map fun n => hermiteHDer n x) := by
  rw [sweep_eq_map _ ns hne hpw, sweep_eq_map _ ns hne hpw, sweep_eq_map _ ns hne hpw]
  simp [jacobiDerRec_eval, heDerRec_eval, hDerRec_eval]

end families

/-! ## 2. two-index families -/

/-- **table look-up = one-at-a-time** for every list of pairs, any order, repeats allowed (generic family) -/
theorem table_lookup_eq_map {S K : Type} (fam : Nat → Rec S K) (pairs : List (Nat × Nat)) :
    tableSeq fam pairs = some (pairs.map fun p => (fam p.2).eval p.1) := C08L.table_lookup_eq_map fam pairs

/-- `zernike_nm_seq`: the per-`|m|` Jacobi tables looked up at `(n−|m|)/2` give `P^{(0,|m|)}_{(n−|m|)/2}(x)` for every
    requested `(n_j, |m|)`, in the order requested -/
theorem zernike_table_eq_map {K : Type} [Num K] (x : K) (pairs : List (Nat × Nat)) :
    tableSeq (fun am => jacobiRec (nat 0) (nat am) x) pairs
      = some (pairs.map fun p => jacobi p.1 (nat 0) (nat p.2) x) := by
  rw [table_lookup_eq_map]; simp [jacobiRec_eval]

section generated
open C07L
variable {K : Type} [Field K] [DecidableEq K] [CharZero K]

/-- **`zernike_nm_seq` computes each requested mode by the formula of `zernike_nm`**: the body of its final loop (norm applied to the
    table entry, `sin` for `m<0` / `cos` for `m>0` of `|m| t`, `r^|m|`), with the table entry `tbl |m| ((n−|m|)//2)` equal to the
    translated `jacobi((n−|m|)//2, 0, |m|, 2r²−1)`, is the translated body of `zernike_nm` — for every `(n, m)`, `norm`, `r`, `t` and
    any `sin`, `cos`, `sqrt` -/
theorem zernike_seq_mode (sinf cosf sqrt : K → K) (n : ℕ) (m : ℤ) (r t : K) (norm : Bool) (hm : m.natAbs ≤ n) :
    Generated.C08.zernikeSeqMode sinf cosf sqrt
        (fun k j => Generated.C07.jacobi j (Generated.C08.zernikeSeqAB (K := K) k).1 (Generated.C08.zernikeSeqAB (K := K) k).2
          (Generated.C08.zernikeSeqX r)) (n:ℤ) m r t norm
      = Generated.C07.zernikeNm sinf cosf sqrt (n:ℤ) m r t norm := by
  have eabs : (if m < 0 then -m else m) = (m.natAbs : ℤ) := by split <;> omega
  have enj : ((n:ℤ) - (m.natAbs : ℤ)) / 2 = (((n - m.natAbs) / 2 : ℕ) : ℤ) := by
    rw [← Nat.cast_sub hm]; norm_cast
  have hpos : ¬ m < 0 → ((m : ℤ) : K) = (m.natAbs : K) := by
    intro h; rw [Nat.cast_natAbs, abs_of_nonneg (by omega)]
  unfold Generated.C08.zernikeSeqMode Generated.C07.zernikeNm
  simp only [eabs, enj, Generated.C08.zernikeSeqAB, Generated.C08.zernikeSeqX, ofInt_eq, npow_eq, Int.toNat_natCast, Int.cast_natCast,
    Int.cast_zero, Int.cast_ofNat, Int.cast_one, C07L.gen_jacobi]
  by_cases h0 : m = 0
  · subst h0; cases norm <;> simp [zernike, zernikeRadial, pow_two] <;> ring
  · by_cases h : m < 0 <;> cases norm <;> simp [h0, h, hpos, zernike, zernikeRadial, pow_two] <;> ring

/-- **`xy_seq` returns the monomials**: term `(m, n)` is `x^m · y^n` for every `m, n ≥ 0` — the family that fills the tables has
    `p_0 = 1` (Dickson of the second kind with `a = 0`, not the first kind); `seqEntry2 j a c` is `dickson2(j, a, c)`, which
    `gen_dickson2Seq` below proves to be entry `j` of `dickson2_seq(arange(0, max+1), a, c)` -/
theorem xy_seq_term (m n : ℕ) (x y : K) : Generated.C08.xySeqTerm (m:ℤ) (n:ℤ) x y = x ^ m * y ^ n := by
  unfold Generated.C08.xySeqTerm
  first
  | (simp only [seqEntry2, Int.toNat_natCast, ofInt_eq, Int.cast_zero, dickson2_zero_eq_pow]; done)
  | (simp [Model.C07.xy, npow_eq]; done)
  | (simp only [Int.toNat_natCast]; unfold Model.C07.xy; simp)

/-- `xy_seq` term `(m,n)` equals `xy(m, n, x, y)` as translated from the source -/
theorem xy_seq_eq_xy (m n : ℕ) (x y : K) :
    Generated.C08.xySeqTerm (m:ℤ) (n:ℤ) x y = Generated.C07.xy (m:ℤ) (n:ℤ) x y := by
  rw [xy_seq_term]; simp [Generated.C07.xy, Model.C07.xy]

/-- mode `n` of the four Chebyshev `*_seq` — `jacobi_seq` row times `num / jacobi_seq(…, ones)` row, with the parameters and
    numerators read from the source — is the translated body of `cheby1..4`; the `*_der_seq` use the same normalisers -/
theorem cheby_seq_mode (n : ℕ) (x : K) :
    (let p : K × K × K × K × K := Generated.C08.cheby1SeqParams (n:ℤ)
     Generated.C07.jacobi (n:ℤ) p.1 p.2.1 x * (p.2.2.2.2 / Generated.C07.jacobi (n:ℤ) p.2.2.1 p.2.2.2.1 1) = Generated.C07.cheby1 (n:ℤ) x)
    ∧ (let p : K × K × K × K × K := Generated.C08.cheby2SeqParams (n:ℤ)
     Generated.C07.jacobi (n:ℤ) p.1 p.2.1 x * (p.2.2.2.2 / Generated.C07.jacobi (n:ℤ) p.2.2.1 p.2.2.2.1 1) = Generated.C07.cheby2 (n:ℤ) x)
    ∧ (let p : K × K × K × K × K := Generated.C08.cheby3SeqParams (n:ℤ)
     Generated.C07.jacobi (n:ℤ) p.1 p.2.1 x * (p.2.2.2.2 / Generated.C07.jacobi (n:ℤ) p.2.2.1 p.2.2.2.1 1) = Generated.C07.cheby3 (n:ℤ) x)
    ∧ (let p : K × K × K × K × K := Generated.C08.cheby4SeqParams (n:ℤ)
     Generated.C07.jacobi (n:ℤ) p.1 p.2.1 x * (p.2.2.2.2 / Generated.C07.jacobi (n:ℤ) p.2.2.1 p.2.2.2.1 1) = Generated.C07.cheby4 (n:ℤ) x)
    ∧ (Generated.C08.cheby1DerSeqParams (n:ℤ) : K × K × K × K × K) = Generated.C08.cheby1SeqParams (n:ℤ)
    ∧ (Generated.C08.cheby2DerSeqParams (n:ℤ) : K × K × K × K × K) = Generated.C08.cheby2SeqParams (n:ℤ)
    ∧ (Generated.C08.cheby3DerSeqParams (n:ℤ) : K × K × K × K × K) = Generated.C08.cheby3SeqParams (n:ℤ)
    ∧ (Generated.C08.cheby4DerSeqParams (n:ℤ) : K × K × K × K × K) = Generated.C08.cheby4SeqParams (n:ℤ) := by
  refine ⟨?_, ?_, ?_, ?_, ?_, ?_, ?_, ?_⟩ <;>
    simp [Generated.C08.cheby1SeqParams, Generated.C08.cheby2SeqParams, Generated.C08.cheby3SeqParams,
      Generated.C08.cheby4SeqParams, Generated.C08.cheby1DerSeqParams, Generated.C08.cheby2DerSeqParams,
      Generated.C08.cheby3DerSeqParams, Generated.C08.cheby4DerSeqParams,
      Generated.C07.cheby1, Generated.C07.cheby2, Generated.C07.cheby3, Generated.C07.cheby4, gen_jacobi,
      Model.C07.cheby1, Model.C07.cheby2, Model.C07.cheby3, Model.C07.cheby4]

/-- the one-line wrappers: `legendre_seq` is `jacobi_seq` with the parameters of `legendre`; `Qcon_seq` hands `2x²−1` and `(0,4)` to
    `jacobi_seq` and multiplies each row by `x⁴`, as `Qcon` does with `jacobi` -/
theorem wrapper_seq_params (n : ℕ) (x : K) :
    Generated.C07.jacobi (n:ℤ) (Generated.C08.legendreSeqParams (K := K)).1 (Generated.C08.legendreSeqParams (K := K)).2 x
      = Generated.C07.legendre (n:ℤ) x
    ∧ Generated.C08.qconSeqOut (Generated.C07.jacobi (n:ℤ) (Generated.C08.qconSeqAB (K := K)).1 (Generated.C08.qconSeqAB (K := K)).2
        (Generated.C08.qconSeqX x)) x = Generated.C07.qcon (n:ℤ) x := by
  constructor <;>
    simp [Generated.C08.legendreSeqParams, Generated.C08.qconSeqOut, Generated.C08.qconSeqAB, Generated.C08.qconSeqX,
      Generated.C07.legendre, Generated.C07.qcon, gen_jacobi, Model.C07.legendre, Model.C07.qcon, pow_two]

/-- no `*_seq` routine (nor a module-local helper it calls) keeps a module-level cache of values computed from the coordinate array
    under a key that omits the array's dtype (read off the source: writes to module-level containers reachable from the `*_seq`
    functions); together with `seq_rows_hold_floats` this is the static side of "the answer does not depend on earlier calls" -/
theorem seq_no_dtype_blind_cache : Generated.C08.seqRoutinesHaveNoDtypeBlindCache = true := by decide

/-- **arguments are inputs**: no function of `prysm/polynomials/*.py` applies an in-place operation (augmented assignment, item / slice
    store, mutating method, ufunc `out=`) to one of its parameters or to a possible alias of one (`np.asarray(p)`, a view, `p.T`, …),
    the documented output buffers `alphas` / `out` excepted (read off the source) — so the caller's container of orders and the
    coordinate arrays hold the same values after a `*_seq` call as before, and a second call with the same objects sees the same input -/
theorem routines_leave_arguments_untouched : Generated.C08.polynomialRoutinesLeaveArgumentsUntouched = true := by decide

/-- **rows are never truncated**: whatever the kind of the coordinate dtype (bool, int, float, complex), the `out` array of every
    value `*_seq` can hold floating-point values (read from the `dtype=` of each allocation in the source) -/
theorem seq_rows_hold_floats (k : DKind) :
    (Generated.C08.jacobiSeqOutKind k).holdsFloats = true ∧ (Generated.C08.hermiteHeSeqOutKind k).holdsFloats = true
    ∧ (Generated.C08.hermiteHSeqOutKind k).holdsFloats = true ∧ (Generated.C08.laguerreSeqOutKind k).holdsFloats = true
    ∧ (Generated.C08.dickson1SeqOutKind k).holdsFloats = true ∧ (Generated.C08.dickson2SeqOutKind k).holdsFloats = true
    ∧ (Generated.C08.qbfsSeqOutKind k).holdsFloats = true ∧ (Generated.C08.q2dSeqOutKind k).holdsFloats = true
    ∧ (Generated.C08.zernikeNmSeqOutKind k).holdsFloats = true := by
  cases k <;> decide
end generated

/-! ## 3. broadcasting of the per-order constants -/

/-- constants reshaped to `(N, 1, …, 1)` (`|S|` ones) broadcast to the stack's shape `(N, *S)` and feed output
    element `[k, idx…]` from constant `k`: mode `k` is scaled by `c_k`, for EVERY `N` and coordinate shape `S` -/
theorem scale_modes_shape (N k : Nat) (S idx : List Nat) (h : idx.length = S.length) :
    bcShape (N :: S) (goodCsShape N S.length) = some (N :: S)
    ∧ bcSrc (goodCsShape N S.length) (k :: idx) = (if N = 1 then 0 else k) :: List.replicate S.length 0 := by
  refine ⟨bcShape_good N S, ?_⟩
  rw [← h]; exact bcSrc_good N k idx

/-- the constants of all eight Chebyshev `*_seq` functions in the source have that shape, for every number of
    orders `N` and every coordinate rank (0-D, 1-D, 2-D, N-D) -/
theorem cheby_seq_cs_shape (N rank : Nat) :
    Generated.C08.cheby1SeqCsShape N rank = goodCsShape N rank
    ∧ Generated.C08.cheby2SeqCsShape N rank = goodCsShape N rank
    ∧ Generated.C08.cheby3SeqCsShape N rank = goodCsShape N rank
    ∧ Generated.C08.cheby4SeqCsShape N rank = goodCsShape N rank
    ∧ Generated.C08.cheby1DerSeqCsShape N rank = goodCsShape N rank
    ∧ Generated.C08.cheby2DerSeqCsShape N rank = goodCsShape N rank
    ∧ Generated.C08.cheby3DerSeqCsShape N rank = goodCsShape N rank
    ∧ Generated.C08.cheby4DerSeqCsShape N rank = goodCsShape N rank := by
  refine ⟨?_, ?_, ?_, ?_, ?_, ?_, ?_, ?_⟩ <;>
    simp [Generated.C08.cheby1SeqCsShape, Generated.C08.cheby2SeqCsShape, Generated.C08.cheby3SeqCsShape,
      Generated.C08.cheby4SeqCsShape, Generated.C08.cheby1DerSeqCsShape, Generated.C08.cheby2DerSeqCsShape,
      Generated.C08.cheby3DerSeqCsShape, Generated.C08.cheby4DerSeqCsShape, goodCsShape]

/-- (history, not property content: explains repaired defect #15) why `(N, 1)` is not good enough: against a 2-D coordinate array `(A, B)` NumPy raises unless `A ∈ {1, N}` -/
theorem pinned_shape_raises (N A B : Nat) (hN : N ≠ 1) (hA : A ≠ 1) (hAN : A ≠ N) :
    bcShape [N, A, B] [N, 1] = none := C08L.pinned_shape_raises N A B hN hA hAN

/-- … when `A = N` mode `k`, row `i` is silently scaled by constant `i`; a 0-D coordinate yields `(N, N)` -/
theorem pinned_shape_aliases (N B k i j : Nat) (hN : N ≠ 1) :
    (bcShape [N, N, B] [N, 1] = some [N, N, B] ∧ bcSrc [N, 1] [k, i, j] = [i, 0])
    ∧ bcShape [N] [N, 1] = some [N, N] :=
  ⟨C08L.pinned_shape_aliases N B k i j hN, C08L.pinned_shape_0d N hN⟩

/-! ## 5. the `*_seq` bodies as translated from the source -/
section translated_seq
open C07L
variable {K : Type} [Field K] [DecidableEq K] [CharZero K]

theorem RInv_step3 (ns : List Nat) (hpw : ns.Pairwise (· < ·)) (ev : Nat → K) (i : Nat) (out : Rows K) (k : Nat) (v : K)
    (hv : v = ev i) (h : RInv ns ev i out k) :
    RInv ns ev (i+1) (if ns[k]? = some i then (setRow out k v, k + 1, k + 1) else (out, k, k)).1
      (if ns[k]? = some i then (setRow out k v, k + 1, k + 1) else (out, k, k)).2.1
    ∧ (if ns[k]? = some i then (setRow out k v, k + 1, k + 1) else (out, k, k)).2.2
      = (if ns[k]? = some i then (setRow out k v, k + 1, k + 1) else (out, k, k)).2.1 := by
  have := RInv_step ns hpw ev i out k v hv h
  by_cases hc : ns[k]? = some i <;> simp only [hc, if_true, if_false] at this ⊢ <;> exact ⟨this, trivial⟩

/-- the statement-by-statement translation of `hermite_He_seq` (running index, conditional row writes, early returns, loop) returns
    `ns.map` of the model's single-order value for EVERY non-empty strictly ascending `ns` -/
theorem gen_hermiteHeSeq (ns : List Nat) (hne : ns ≠ []) (hpw : ns.Pairwise (· < ·)) (x : K) :
    Generated.C08.hermiteHeSeq ns x = some (ns.map fun n => hermiteHe n x) := by
  first
  | (show Model.C08.sweep _ _ = _; rw [C08L.sweep_eq_map _ ns hne hpw]; congr 1; apply List.map_congr_left; intro n _; simpa using heRec_eval x n)
  | (
      unfold Generated.C08.hermiteHeSeq
      simp only [ofInt_eq, ofFrac_eq, Int.cast_one, Int.cast_zero, Int.cast_ofNat, Nat.cast_ofNat]
      set ev : Nat → K := fun n => hermiteHe n x with hev
      have P2 : x * x - 1 = ev 2 := by simp [hev, hermiteHe_succ_succ, hermiteHe_one, hermiteHe_zero]
      have h := RInv_zero ns ev
      generalize hst : (ite (ns[0]? = some 0) _ _ : Rows K × Nat) = st
      have h : RInv ns ev (0+1) st.1 st.2 := by rw [← hst]; exact RInv_step ns hpw ev 0 _ _ _ (by simp [hev, hermiteHe_zero]) h
      obtain ⟨out0, k0⟩ := st
      simp only [] at h ⊢
      split
      · exact RInv_done ns ev (0+1) out0 k0 h ‹_›
      generalize hst : (ite (ns[k0]? = some 1) _ _ : Rows K × Nat) = st
      have h : RInv ns ev (1+1) st.1 st.2 := by rw [← hst]; exact RInv_step ns hpw ev 1 _ _ _ (by simp [hev, hermiteHe_one]) h
      obtain ⟨out1, k1⟩ := st
      simp only [] at h ⊢
      split
      · exact RInv_done ns ev (1+1) out1 k1 h ‹_›
      generalize hst : (ite (ns[k1]? = some 2) _ _ : Rows K × Nat) = st
      have h : RInv ns ev (2+1) st.1 st.2 := by rw [← hst]; exact RInv_step ns hpw ev 2 _ _ _ (by exact P2) h
      obtain ⟨out2, k2⟩ := st
      simp only [] at h ⊢
      split
      · exact RInv_done ns ev (2+1) out2 k2 h ‹_›
      refine RInv_finish ns ev (3 + ((lastOrder ns + 1) - 3).toNat) _ _ (forRange_induct'
        (fun m s => RInv ns ev (3 + m) (Generated.C08.hermiteHeSeq_st_out s) (Generated.C08.hermiteHeSeq_st_min_i s) ∧ Generated.C08.hermiteHeSeq_st_Pnm2 s = ev (m+1) ∧ Generated.C08.hermiteHeSeq_st_Pnm1 s = ev (m+2))
        3 (lastOrder ns + 1) _ _ ?_ ?_).1 ?_
      · exact ⟨h, by simp [hev, hermiteHe_one], by exact P2⟩
      · rintro m s ⟨hs, h1, h2⟩
        dsimp only [Generated.C08.hermiteHeSeq_st_out, Generated.C08.hermiteHeSeq_st_min_i, Generated.C08.hermiteHeSeq_st_Pnm2, Generated.C08.hermiteHeSeq_st_Pnm1] at hs h1 h2 ⊢
        have hi : (3 + (m:ℤ)).toNat = 3 + m := by omega
        simp only [hi]
        refine ⟨RInv_step ns hpw ev (3+m) _ _ _ (by rw [h1, h2]; simp only [hev]; rw [show 3 + m = (m+1) + 2 by omega, hermiteHe_succ_succ (m+1)]; push_cast; ring) hs, ?_, ?_⟩
        · exact h2
        · rw [h1, h2]; simp only [hev]; rw [hermiteHe_succ_succ (m+1)]; push_cast; ring
      · intro a ha
        have := le_lastOrder ns hpw a ha
        omega)

/-- the statement-by-statement translation of `hermite_H_seq` (running index, conditional row writes, early returns, loop) returns
    `ns.map` of the model's single-order value for EVERY non-empty strictly ascending `ns` -/
theorem gen_hermiteHSeq (ns : List Nat) (hne : ns ≠ []) (hpw : ns.Pairwise (· < ·)) (x : K) :
    Generated.C08.hermiteHSeq ns x = some (ns.map fun n => hermiteH n x) := by
  first
  | (show Model.C08.sweep _ _ = _; rw [C08L.sweep_eq_map _ ns hne hpw]; congr 1; apply List.map_congr_left; intro n _; simpa using hRec_eval x n)
  | (
      unfold Generated.C08.hermiteHSeq
      simp only [ofInt_eq, ofFrac_eq, Int.cast_one, Int.cast_zero, Int.cast_ofNat, Nat.cast_ofNat]
      set ev : Nat → K := fun n => hermiteH n x with hev
      have P2 : 4 * (x * x) - 2 = ev 2 := by simp [hev, hermiteH_succ_succ, hermiteH_one, hermiteH_zero]; ring
      have h := RInv_zero ns ev
      generalize hst : (ite (ns[0]? = some 0) _ _ : Rows K × Nat) = st
      have h : RInv ns ev (0+1) st.1 st.2 := by rw [← hst]; exact RInv_step ns hpw ev 0 _ _ _ (by simp [hev, hermiteH_zero]) h
      obtain ⟨out0, k0⟩ := st
      simp only [] at h ⊢
      split
      · exact RInv_done ns ev (0+1) out0 k0 h ‹_›
      generalize hst : (ite (ns[k0]? = some 1) _ _ : Rows K × Nat) = st
      have h : RInv ns ev (1+1) st.1 st.2 := by rw [← hst]; exact RInv_step ns hpw ev 1 _ _ _ (by simp [hev, hermiteH_one]) h
      obtain ⟨out1, k1⟩ := st
      simp only [] at h ⊢
      split
      · exact RInv_done ns ev (1+1) out1 k1 h ‹_›
      generalize hst : (ite (ns[k1]? = some 2) _ _ : Rows K × Nat) = st
      have h : RInv ns ev (2+1) st.1 st.2 := by rw [← hst]; exact RInv_step ns hpw ev 2 _ _ _ (by exact P2) h
      obtain ⟨out2, k2⟩ := st
      simp only [] at h ⊢
      split
      · exact RInv_done ns ev (2+1) out2 k2 h ‹_›
      refine RInv_finish ns ev (3 + ((lastOrder ns + 1) - 3).toNat) _ _ (forRange_induct'
        (fun m s => RInv ns ev (3 + m) (Generated.C08.hermiteHSeq_st_out s) (Generated.C08.hermiteHSeq_st_min_i s) ∧ Generated.C08.hermiteHSeq_st_Pnm2 s = ev (m+1) ∧ Generated.C08.hermiteHSeq_st_Pnm1 s = ev (m+2))
        3 (lastOrder ns + 1) _ _ ?_ ?_).1 ?_
      · exact ⟨h, by simp [hev, hermiteH_one], by exact P2⟩
      · rintro m s ⟨hs, h1, h2⟩
        dsimp only [Generated.C08.hermiteHSeq_st_out, Generated.C08.hermiteHSeq_st_min_i, Generated.C08.hermiteHSeq_st_Pnm2, Generated.C08.hermiteHSeq_st_Pnm1] at hs h1 h2 ⊢
        have hi : (3 + (m:ℤ)).toNat = 3 + m := by omega
        simp only [hi]
        refine ⟨RInv_step ns hpw ev (3+m) _ _ _ (by rw [h1, h2]; simp only [hev]; rw [show 3 + m = (m+1) + 2 by omega, hermiteH_succ_succ (m+1)]; push_cast; ring) hs, ?_, ?_⟩
        · exact h2
        · rw [h1, h2]; simp only [hev]; rw [hermiteH_succ_succ (m+1)]; push_cast; ring
      · intro a ha
        have := le_lastOrder ns hpw a ha
        omega)

/-- the statement-by-statement translation of `hermite_He_der_seq` (running index, conditional row writes, early returns, loop) returns
    `ns.map` of the model's single-order value for EVERY non-empty strictly ascending `ns` -/
theorem gen_hermiteHeDerSeq (ns : List Nat) (hne : ns ≠ []) (hpw : ns.Pairwise (· < ·)) (x : K) :
    Generated.C08.hermiteHeDerSeq ns x = some (ns.map fun n => hermiteHeDer n x) := by
  first
  | (show Model.C08.sweep _ _ = _; rw [C08L.sweep_eq_map _ ns hne hpw]; congr 1; apply List.map_congr_left; intro n _; simpa using heDerRec_eval x n)
  | (
      unfold Generated.C08.hermiteHeDerSeq
      simp only [ofInt_eq, ofFrac_eq, Int.cast_one, Int.cast_zero, Int.cast_ofNat, Nat.cast_ofNat]
      set ev : Nat → K := fun n => hermiteHeDer n x with hev
      have ev_succ : ∀ k, ev (k+1) = ((k:K) + 1) * hermiteHe k x := by intro k; simp [hev, hermiteHeDer]
      have P2 : x * x - 1 = hermiteHe 2 x := by simp [hermiteHe_succ_succ, hermiteHe_one, hermiteHe_zero]
      have h := RInv_zero ns ev
      generalize hst : (ite (ns[0]? = some 0) _ _ : Rows K × Nat) = st
      have h : RInv ns ev (0+1) st.1 st.2 := by rw [← hst]; exact RInv_step ns hpw ev 0 _ _ _ (by simp [hev, hermiteHeDer]) h
      obtain ⟨out0, k0⟩ := st
      simp only [] at h ⊢
      split
      · exact RInv_done ns ev (0+1) out0 k0 h ‹_›
      generalize hst : (ite (ns[k0]? = some 1) _ _ : Rows K × Nat) = st
      have h : RInv ns ev (1+1) st.1 st.2 := by rw [← hst]; exact RInv_step ns hpw ev 1 _ _ _ (by rw [ev_succ]; simp [hermiteHe_zero]) h
      obtain ⟨out1, k1⟩ := st
      simp only [] at h ⊢
      split
      · exact RInv_done ns ev (1+1) out1 k1 h ‹_›
      generalize hst : (ite (ns[k1]? = some 2) _ _ : Rows K × Nat) = st
      have h : RInv ns ev (2+1) st.1 st.2 := by rw [← hst]; exact RInv_step ns hpw ev 2 _ _ _ (by rw [ev_succ, hermiteHe_one]; push_cast; ring) h
      obtain ⟨out2, k2⟩ := st
      simp only [] at h ⊢
      split
      · exact RInv_done ns ev (2+1) out2 k2 h ‹_›
      refine RInv_finish ns ev (3 + ((lastOrder ns + 1) - 3).toNat) _ _ (forRange_induct'
        (fun m s => RInv ns ev (3 + m) (Generated.C08.hermiteHeDerSeq_st_out s) (Generated.C08.hermiteHeDerSeq_st_min_i s) ∧ Generated.C08.hermiteHeDerSeq_st_Pnm2 s = hermiteHe (m+1) x ∧ Generated.C08.hermiteHeDerSeq_st_Pnm1 s = hermiteHe (m+2) x)
        3 (lastOrder ns + 1) _ _ ?_ ?_).1 ?_
      · exact ⟨h, by simp [hermiteHe_one], by exact P2⟩
      · rintro m s ⟨hs, h1, h2⟩
        dsimp only [Generated.C08.hermiteHeDerSeq_st_out, Generated.C08.hermiteHeDerSeq_st_min_i, Generated.C08.hermiteHeDerSeq_st_Pnm2, Generated.C08.hermiteHeDerSeq_st_Pnm1] at hs h1 h2 ⊢
        have hi : (3 + (m:ℤ)).toNat = 3 + m := by omega
        simp only [hi]
        refine ⟨RInv_step ns hpw ev (3+m) _ _ _ (by rw [show 3 + m = (m+2) + 1 by omega, ev_succ, h2]; push_cast; ring) hs, ?_, ?_⟩
        · exact h2
        · rw [h1, h2, hermiteHe_succ_succ (m+1)]; push_cast; ring
      · intro a ha
        have := le_lastOrder ns hpw a ha
        omega)

/-- the statement-by-statement translation of `hermite_H_der_seq` (running index, conditional row writes, early returns, loop) returns
    `ns.map` of the model's single-order value for EVERY non-empty strictly ascending `ns` -/
theorem gen_hermiteHDerSeq (ns : List Nat) (hne : ns ≠ []) (hpw : ns.Pairwise (· < ·)) (x : K) :
    Generated.C08.hermiteHDerSeq ns x = some (ns.map fun n => hermiteHDer n x) := by
  first
  | (show Model.C08.sweep _ _ = _; rw [C08L.sweep_eq_map _ ns hne hpw]; congr 1; apply List.map_congr_left; intro n _; simpa using hDerRec_eval x n)
  | (
      unfold Generated.C08.hermiteHDerSeq
      simp only [ofInt_eq, ofFrac_eq, Int.cast_one, Int.cast_zero, Int.cast_ofNat, Nat.cast_ofNat]
      set ev : Nat → K := fun n => hermiteHDer n x with hev
      have ev_succ : ∀ k, ev (k+1) = 2 * ((k:K) + 1) * hermiteH k x := by intro k; simp [hev, hermiteHDer]
      have P2 : 4 * (x * x) - 2 = hermiteH 2 x := by simp [hermiteH_succ_succ, hermiteH_one, hermiteH_zero]; ring
      have h := RInv_zero ns ev
      generalize hst : (ite (ns[0]? = some 0) _ _ : Rows K × Nat) = st
      have h : RInv ns ev (0+1) st.1 st.2 := by rw [← hst]; exact RInv_step ns hpw ev 0 _ _ _ (by simp [hev, hermiteHDer]) h
      obtain ⟨out0, k0⟩ := st
      simp only [] at h ⊢
      split
      · exact RInv_done ns ev (0+1) out0 k0 h ‹_›
      generalize hst : (ite (ns[k0]? = some 1) _ _ : Rows K × Nat) = st
      have h : RInv ns ev (1+1) st.1 st.2 := by rw [← hst]; exact RInv_step ns hpw ev 1 _ _ _ (by rw [ev_succ]; simp [hermiteH_zero]) h
      obtain ⟨out1, k1⟩ := st
      simp only [] at h ⊢
      split
      · exact RInv_done ns ev (1+1) out1 k1 h ‹_›
      generalize hst : (ite (ns[k1]? = some 2) _ _ : Rows K × Nat) = st
      have h : RInv ns ev (2+1) st.1 st.2 := by rw [← hst]; exact RInv_step ns hpw ev 2 _ _ _ (by rw [ev_succ, hermiteH_one]; push_cast; ring) h
      obtain ⟨out2, k2⟩ := st
      simp only [] at h ⊢
      split
      · exact RInv_done ns ev (2+1) out2 k2 h ‹_›
      refine RInv_finish ns ev (3 + ((lastOrder ns + 1) - 3).toNat) _ _ (forRange_induct'
        (fun m s => RInv ns ev (3 + m) (Generated.C08.hermiteHDerSeq_st_out s) (Generated.C08.hermiteHDerSeq_st_min_i s) ∧ Generated.C08.hermiteHDerSeq_st_Pnm2 s = hermiteH (m+1) x ∧ Generated.C08.hermiteHDerSeq_st_Pnm1 s = hermiteH (m+2) x)
        3 (lastOrder ns + 1) _ _ ?_ ?_).1 ?_
      · exact ⟨h, by simp [hermiteH_one], by exact P2⟩
      · rintro m s ⟨hs, h1, h2⟩
        dsimp only [Generated.C08.hermiteHDerSeq_st_out, Generated.C08.hermiteHDerSeq_st_min_i, Generated.C08.hermiteHDerSeq_st_Pnm2, Generated.C08.hermiteHDerSeq_st_Pnm1] at hs h1 h2 ⊢
        have hi : (3 + (m:ℤ)).toNat = 3 + m := by omega
        simp only [hi]
        refine ⟨RInv_step ns hpw ev (3+m) _ _ _ (by rw [show 3 + m = (m+2) + 1 by omega, ev_succ, h2]; push_cast; ring) hs, ?_, ?_⟩
        · exact h2
        · rw [h1, h2, hermiteH_succ_succ (m+1)]; push_cast; ring
      · intro a ha
        have := le_lastOrder ns hpw a ha
        omega)

/-- the statement-by-statement translation of `laguerre_seq` (running index, conditional row writes, early returns, loop) returns
    `ns.map` of the model's single-order value for EVERY non-empty strictly ascending `ns` -/
theorem gen_laguerreSeq (ns : List Nat) (hne : ns ≠ []) (hpw : ns.Pairwise (· < ·)) (al x : K) :
    Generated.C08.laguerreSeq ns al x = some (ns.map fun n => laguerre n al x) := by
  first
  | (show Model.C08.sweep _ _ = _; rw [C08L.sweep_eq_map _ ns hne hpw]; congr 1; apply List.map_congr_left; intro n _; simpa using lagRec_eval al x n)
  | (
      unfold Generated.C08.laguerreSeq
      simp only [ofInt_eq, ofFrac_eq, Int.cast_one, Int.cast_zero, Int.cast_ofNat, Nat.cast_ofNat]
      set ev : Nat → K := fun n => laguerre n al x with hev
      have P2 : (1:K) / 2 * ((al + 3 - x) * (al + 1 - x) - (al + 1) * 1) = ev 2 := by
        simp only [hev]; rw [laguerre_succ_succ, laguerre_one, laguerre_zero]; simp; ring
      have h := RInv_zero ns ev
      generalize hst : (ite (ns[0]? = some 0) _ _ : Rows K × Nat) = st
      have h : RInv ns ev (0+1) st.1 st.2 := by rw [← hst]; exact RInv_step ns hpw ev 0 _ _ _ (by simp [hev, laguerre_zero]) h
      obtain ⟨out0, k0⟩ := st
      simp only [] at h ⊢
      split
      · exact RInv_done ns ev (0+1) out0 k0 h ‹_›
      generalize hst : (ite (ns[k0]? = some 1) _ _ : Rows K × Nat) = st
      have h : RInv ns ev (1+1) st.1 st.2 := by rw [← hst]; exact RInv_step ns hpw ev 1 _ _ _ (by simp [hev, laguerre_one]) h
      obtain ⟨out1, k1⟩ := st
      simp only [] at h ⊢
      split
      · exact RInv_done ns ev (1+1) out1 k1 h ‹_›
      generalize hst : (ite (ns[k1]? = some 2) _ _ : Rows K × Nat) = st
      have h : RInv ns ev (2+1) st.1 st.2 := by rw [← hst]; exact RInv_step ns hpw ev 2 _ _ _ (by exact P2) h
      obtain ⟨out2, k2⟩ := st
      simp only [] at h ⊢
      split
      · exact RInv_done ns ev (2+1) out2 k2 h ‹_›
      refine RInv_finish ns ev (3 + ((lastOrder ns + 1) - 3).toNat) _ _ (forRange_induct'
        (fun m s => RInv ns ev (3 + m) (Generated.C08.laguerreSeq_st_out s) (Generated.C08.laguerreSeq_st_min_i s) ∧ Generated.C08.laguerreSeq_st_Ln s = ev (m+2) ∧ Generated.C08.laguerreSeq_st_Lnm1 s = ev (m+1))
        3 (lastOrder ns + 1) _ _ ?_ ?_).1 ?_
      · exact ⟨h, by exact P2, by simp [hev, laguerre_one]⟩
      · rintro m s ⟨hs, h1, h2⟩
        dsimp only [Generated.C08.laguerreSeq_st_out, Generated.C08.laguerreSeq_st_min_i, Generated.C08.laguerreSeq_st_Ln, Generated.C08.laguerreSeq_st_Lnm1] at hs h1 h2 ⊢
        have hi : (3 + (m:ℤ)).toNat = 3 + m := by omega
        simp only [hi]
        refine ⟨RInv_step ns hpw ev (3+m) _ _ _ (by rw [h1, h2]; simp only [hev]; rw [show 3 + m = (m+1) + 2 by omega, laguerre_succ_succ (m+1)]; push_cast; ring) hs, ?_, ?_⟩
        · rw [h1, h2]; simp only [hev]; rw [laguerre_succ_succ (m+1)]; push_cast; ring
        · exact h1
      · intro a ha
        have := le_lastOrder ns hpw a ha
        omega)

/-- the statement-by-statement translation of `dickson1_seq` (running index, conditional row writes, early returns, loop) returns
    `ns.map` of the model's single-order value for EVERY non-empty strictly ascending `ns` -/
theorem gen_dickson1Seq (ns : List Nat) (hne : ns ≠ []) (hpw : ns.Pairwise (· < ·)) (al x : K) :
    Generated.C08.dickson1Seq ns al x = some (ns.map fun n => dickson1 n al x) := by
  first
  | (show Model.C08.sweep _ _ = _; rw [C08L.sweep_eq_map _ ns hne hpw]; congr 1; apply List.map_congr_left; intro n _; simpa using dickRec_eval1 al x n)
  | (
      unfold Generated.C08.dickson1Seq
      simp only [ofInt_eq, ofFrac_eq, Int.cast_one, Int.cast_zero, Int.cast_ofNat, Nat.cast_ofNat]
      set ev : Nat → K := fun n => dickson1 n al x with hev
      have h := RInv_zero ns ev
      generalize hst : (ite (ns[0]? = some 0) _ _ : Rows K × Nat × Nat) = st
      have h : RInv ns ev (0+1) st.1 st.2.1 ∧ st.2.2 = st.2.1 := by rw [← hst]; exact RInv_step3 ns hpw ev 0 _ _ _ (by simp [hev, dickson1, dickPair]) h
      obtain ⟨out0, j0, k0⟩ := st
      simp only [] at h ⊢
      obtain ⟨h, rfl⟩ := h
      split
      · exact RInv_done ns ev (0+1) out0 k0 h ‹_›
      generalize hst : (ite (ns[k0]? = some 1) _ _ : Rows K × Nat × Nat) = st
      have h : RInv ns ev (1+1) st.1 st.2.1 ∧ st.2.2 = st.2.1 := by rw [← hst]; exact RInv_step3 ns hpw ev 1 _ _ _ (by simp [hev, dickson1, dickPair]) h
      obtain ⟨out1, j1, k1⟩ := st
      simp only [] at h ⊢
      obtain ⟨h, rfl⟩ := h
      split
      · exact RInv_done ns ev (1+1) out1 k1 h ‹_›
      refine RInv_finish ns ev (2 + ((lastOrder ns + 1) - 2).toNat) _ _ (forRange_induct'
        (fun m s => RInv ns ev (2 + m) (Generated.C08.dickson1Seq_st_out s) (Generated.C08.dickson1Seq_st_j s) ∧ Generated.C08.dickson1Seq_st_min_i s = Generated.C08.dickson1Seq_st_j s ∧ Generated.C08.dickson1Seq_st_Pnm1 s = ev (m+1) ∧ Generated.C08.dickson1Seq_st_Pnm2 s = ev m)
        2 (lastOrder ns + 1) _ _ ?_ ?_).1 ?_
      · exact ⟨h, rfl, by simp [hev, dickson1, dickPair], by simp [hev, dickson1, dickPair]⟩
      · rintro m s ⟨hs, hj, h1, h2⟩
        dsimp only [Generated.C08.dickson1Seq_st_out, Generated.C08.dickson1Seq_st_min_i, Generated.C08.dickson1Seq_st_Pnm1, Generated.C08.dickson1Seq_st_Pnm2, Generated.C08.dickson1Seq_st_j] at hs hj h1 h2 ⊢
        have hi : (2 + (m:ℤ)).toNat = 2 + m := by omega
        simp only [hi]
        rw [hj] at *
        refine ⟨(RInv_step3 ns hpw ev (2+m) _ _ _ (by rw [h1, h2, show 2 + m = m + 2 by omega]; simp only [hev, dickson1]; rw [dickPair_succ_succ]) hs).1, (RInv_step3 ns hpw ev (2+m) _ _ _ (by rw [h1, h2, show 2 + m = m + 2 by omega]; simp only [hev, dickson1]; rw [dickPair_succ_succ]) hs).2, ?_, ?_⟩
        · rw [h1, h2]; simp only [hev, dickson1]; rw [dickPair_succ_succ]
        · exact h1
      · intro a ha
        have := le_lastOrder ns hpw a ha
        omega)
  | (
      unfold Generated.C08.dickson1Seq
      simp only [ofInt_eq, ofFrac_eq, Int.cast_one, Int.cast_zero, Int.cast_ofNat, Nat.cast_ofNat]
      set ev : Nat → K := fun n => dickson1 n al x with hev
      have h := RInv_zero ns ev
      generalize hst : (ite (ns[0]? = some 0) _ _ : Rows K × Nat) = st
      have h : RInv ns ev (0+1) st.1 st.2 := by rw [← hst]; exact RInv_step ns hpw ev 0 _ _ _ (by simp [hev, dickson1, dickPair]) h
      obtain ⟨out0, k0⟩ := st
      simp only [] at h ⊢
      split
      · exact RInv_done ns ev (0+1) out0 k0 h ‹_›
      generalize hst : (ite (ns[k0]? = some 1) _ _ : Rows K × Nat) = st
      have h : RInv ns ev (1+1) st.1 st.2 := by rw [← hst]; exact RInv_step ns hpw ev 1 _ _ _ (by simp [hev, dickson1, dickPair]) h
      obtain ⟨out1, k1⟩ := st
      simp only [] at h ⊢
      split
      · exact RInv_done ns ev (1+1) out1 k1 h ‹_›
      refine RInv_finish ns ev (2 + ((lastOrder ns + 1) - 2).toNat) _ _ (forRange_induct'
        (fun m s => RInv ns ev (2 + m) (Generated.C08.dickson1Seq_st_out s) (Generated.C08.dickson1Seq_st_min_i s) ∧ Generated.C08.dickson1Seq_st_Pnm1 s = ev (m+1) ∧ Generated.C08.dickson1Seq_st_Pnm2 s = ev m)
        2 (lastOrder ns + 1) _ _ ?_ ?_).1 ?_
      · exact ⟨h, by simp [hev, dickson1, dickPair], by simp [hev, dickson1, dickPair]⟩
      · rintro m s ⟨hs, h1, h2⟩
        dsimp only [Generated.C08.dickson1Seq_st_out, Generated.C08.dickson1Seq_st_min_i, Generated.C08.dickson1Seq_st_Pnm1, Generated.C08.dickson1Seq_st_Pnm2] at hs h1 h2 ⊢
        have hi : (2 + (m:ℤ)).toNat = 2 + m := by omega
        simp only [hi]
        refine ⟨RInv_step ns hpw ev (2+m) _ _ _ (by rw [h1, h2, show 2 + m = m + 2 by omega]; simp only [hev, dickson1]; rw [dickPair_succ_succ]) hs, ?_, ?_⟩
        · rw [h1, h2]; simp only [hev, dickson1]; rw [dickPair_succ_succ]
        · exact h1
      · intro a ha
        have := le_lastOrder ns hpw a ha
        omega)

/-- the statement-by-statement translation of `dickson2_seq` (running index, conditional row writes, early returns, loop) returns
    `ns.map` of the model's single-order value for EVERY non-empty strictly ascending `ns` -/
theorem gen_dickson2Seq (ns : List Nat) (hne : ns ≠ []) (hpw : ns.Pairwise (· < ·)) (al x : K) :
    Generated.C08.dickson2Seq ns al x = some (ns.map fun n => dickson2 n al x) := by
  first
  | (show Model.C08.sweep _ _ = _; rw [C08L.sweep_eq_map _ ns hne hpw]; congr 1; apply List.map_congr_left; intro n _; simpa using dickRec_eval2 al x n)
  | (
      unfold Generated.C08.dickson2Seq
      simp only [ofInt_eq, ofFrac_eq, Int.cast_one, Int.cast_zero, Int.cast_ofNat, Nat.cast_ofNat]
      set ev : Nat → K := fun n => dickson2 n al x with hev
      have h := RInv_zero ns ev
      generalize hst : (ite (ns[0]? = some 0) _ _ : Rows K × Nat × Nat) = st
      have h : RInv ns ev (0+1) st.1 st.2.1 ∧ st.2.2 = st.2.1 := by rw [← hst]; exact RInv_step3 ns hpw ev 0 _ _ _ (by simp [hev, dickson2, dickPair]) h
      obtain ⟨out0, j0, k0⟩ := st
      simp only [] at h ⊢
      obtain ⟨h, rfl⟩ := h
      split
      · exact RInv_done ns ev (0+1) out0 k0 h ‹_›
      generalize hst : (ite (ns[k0]? = some 1) _ _ : Rows K × Nat × Nat) = st
      have h : RInv ns ev (1+1) st.1 st.2.1 ∧ st.2.2 = st.2.1 := by rw [← hst]; exact RInv_step3 ns hpw ev 1 _ _ _ (by simp [hev, dickson2, dickPair]) h
      obtain ⟨out1, j1, k1⟩ := st
      simp only [] at h ⊢
      obtain ⟨h, rfl⟩ := h
      split
      · exact RInv_done ns ev (1+1) out1 k1 h ‹_›
      refine RInv_finish ns ev (2 + ((lastOrder ns + 1) - 2).toNat) _ _ (forRange_induct'
        (fun m s => RInv ns ev (2 + m) (Generated.C08.dickson2Seq_st_out s) (Generated.C08.dickson2Seq_st_j s) ∧ Generated.C08.dickson2Seq_st_min_i s = Generated.C08.dickson2Seq_st_j s ∧ Generated.C08.dickson2Seq_st_Pnm1 s = ev (m+1) ∧ Generated.C08.dickson2Seq_st_Pnm2 s = ev m)
        2 (lastOrder ns + 1) _ _ ?_ ?_).1 ?_
      · exact ⟨h, rfl, by simp [hev, dickson2, dickPair], by simp [hev, dickson2, dickPair]⟩
      · rintro m s ⟨hs, hj, h1, h2⟩
        dsimp only [Generated.C08.dickson2Seq_st_out, Generated.C08.dickson2Seq_st_min_i, Generated.C08.dickson2Seq_st_Pnm1, Generated.C08.dickson2Seq_st_Pnm2, Generated.C08.dickson2Seq_st_j] at hs hj h1 h2 ⊢
        have hi : (2 + (m:ℤ)).toNat = 2 + m := by omega
        simp only [hi]
        rw [hj] at *
        refine ⟨(RInv_step3 ns hpw ev (2+m) _ _ _ (by rw [h1, h2, show 2 + m = m + 2 by omega]; simp only [hev, dickson2]; rw [dickPair_succ_succ]) hs).1, (RInv_step3 ns hpw ev (2+m) _ _ _ (by rw [h1, h2, show 2 + m = m + 2 by omega]; simp only [hev, dickson2]; rw [dickPair_succ_succ]) hs).2, ?_, ?_⟩
        · rw [h1, h2]; simp only [hev, dickson2]; rw [dickPair_succ_succ]
        · exact h1
      · intro a ha
        have := le_lastOrder ns hpw a ha
        omega)
  | (
      unfold Generated.C08.dickson2Seq
      simp only [ofInt_eq, ofFrac_eq, Int.cast_one, Int.cast_zero, Int.cast_ofNat, Nat.cast_ofNat]
      set ev : Nat → K := fun n => dickson2 n al x with hev
      have h := RInv_zero ns ev
      generalize hst : (ite (ns[0]? = some 0) _ _ : Rows K × Nat) = st
      have h : RInv ns ev (0+1) st.1 st.2 := by rw [← hst]; exact RInv_step ns hpw ev 0 _ _ _ (by simp [hev, dickson2, dickPair]) h
      obtain ⟨out0, k0⟩ := st
      simp only [] at h ⊢
      split
      · exact RInv_done ns ev (0+1) out0 k0 h ‹_›
      generalize hst : (ite (ns[k0]? = some 1) _ _ : Rows K × Nat) = st
      have h : RInv ns ev (1+1) st.1 st.2 := by rw [← hst]; exact RInv_step ns hpw ev 1 _ _ _ (by simp [hev, dickson2, dickPair]) h
      obtain ⟨out1, k1⟩ := st
      simp only [] at h ⊢
      split
      · exact RInv_done ns ev (1+1) out1 k1 h ‹_›
      refine RInv_finish ns ev (2 + ((lastOrder ns + 1) - 2).toNat) _ _ (forRange_induct'
        (fun m s => RInv ns ev (2 + m) (Generated.C08.dickson2Seq_st_out s) (Generated.C08.dickson2Seq_st_min_i s) ∧ Generated.C08.dickson2Seq_st_Pnm1 s = ev (m+1) ∧ Generated.C08.dickson2Seq_st_Pnm2 s = ev m)
        2 (lastOrder ns + 1) _ _ ?_ ?_).1 ?_
      · exact ⟨h, by simp [hev, dickson2, dickPair], by simp [hev, dickson2, dickPair]⟩
      · rintro m s ⟨hs, h1, h2⟩
        dsimp only [Generated.C08.dickson2Seq_st_out, Generated.C08.dickson2Seq_st_min_i, Generated.C08.dickson2Seq_st_Pnm1, Generated.C08.dickson2Seq_st_Pnm2] at hs h1 h2 ⊢
        have hi : (2 + (m:ℤ)).toNat = 2 + m := by omega
        simp only [hi]
        refine ⟨RInv_step ns hpw ev (2+m) _ _ _ (by rw [h1, h2, show 2 + m = m + 2 by omega]; simp only [hev, dickson2]; rw [dickPair_succ_succ]) hs, ?_, ?_⟩
        · rw [h1, h2]; simp only [hev, dickson2]; rw [dickPair_succ_succ]
        · exact h1
      · intro a ha
        have := le_lastOrder ns hpw a ha
        omega)

/-- the statement-by-statement translation of `jacobi_seq` (running index, conditional row writes, early returns, loop) returns
    `ns.map` of the model's single-order value for EVERY non-empty strictly ascending `ns` -/
theorem gen_jacobiSeq (ns : List Nat) (hne : ns ≠ []) (hpw : ns.Pairwise (· < ·)) (a b x : K) :
    Generated.C08.jacobiSeq ns a b x = some (ns.map fun n => jacobi n a b x) := by
  first
  | (show Model.C08.sweep _ _ = _; rw [C08L.sweep_eq_map _ ns hne hpw]; congr 1; apply List.map_congr_left; intro n _; simpa using jacobiRec_eval a b x n)
  | (
      unfold Generated.C08.jacobiSeq
      simp only [ofInt_eq, ofFrac_eq, Int.cast_one, Int.cast_zero, Int.cast_ofNat, Nat.cast_ofNat]
      set ev : Nat → K := fun n => jacobi n a b x with hev
      have e1 : Generated.C07.abc (1:K) a b = abc 1 a b := by simpa using C07L.gen_abc_nat 0 a b
      have P1 : a + 1 + (a + b + 2) * ((x - 1) / 2) = ev 1 := by simp [hev, jacobi_one, jacP1]
      have P2 : ((Generated.C07.abc (1:K) a b).1 * x + (Generated.C07.abc (1:K) a b).2.1) * (a + 1 + (a + b + 2) * ((x - 1) / 2))
          - (Generated.C07.abc (1:K) a b).2.2 = ev 2 := by
        simp only [hev]; rw [e1, jacobi_succ_succ, jacobi_one, jacobi_zero]; simp [jacStep, jacP1]
      have h := RInv_zero ns ev
      generalize hst : (ite (ns[0]? = some 0) _ _ : Rows K × Nat) = st
      have h : RInv ns ev (0+1) st.1 st.2 := by rw [← hst]; exact RInv_step ns hpw ev 0 _ _ _ (by simp [hev, jacobi_zero]) h
      obtain ⟨out0, k0⟩ := st
      simp only [] at h ⊢
      split
      · exact RInv_done ns ev (0+1) out0 k0 h ‹_›
      generalize hst : (ite (ns[k0]? = some 1) _ _ : Rows K × Nat) = st
      have h : RInv ns ev (1+1) st.1 st.2 := by rw [← hst]; exact RInv_step ns hpw ev 1 _ _ _ (by exact P1) h
      obtain ⟨out1, k1⟩ := st
      simp only [] at h ⊢
      split
      · exact RInv_done ns ev (1+1) out1 k1 h ‹_›
      generalize hst : (ite (ns[k1]? = some 2) _ _ : Rows K × Nat) = st
      have h : RInv ns ev (2+1) st.1 st.2 := by rw [← hst]; exact RInv_step ns hpw ev 2 _ _ _ (by exact P2) h
      obtain ⟨out2, k2⟩ := st
      simp only [] at h ⊢
      split
      · exact RInv_done ns ev (2+1) out2 k2 h ‹_›
      refine RInv_finish ns ev (3 + ((lastOrder ns + 1) - 3).toNat) _ _ (forRange_induct'
        (fun m s => RInv ns ev (3 + m) (Generated.C08.jacobiSeq_st_out s) (Generated.C08.jacobiSeq_st_min_i s) ∧ Generated.C08.jacobiSeq_st_Pnm1 s = ev (m+1) ∧ Generated.C08.jacobiSeq_st_Pn s = ev (m+2))
        3 (lastOrder ns + 1) _ _ ?_ ?_).1 ?_
      · exact ⟨h, by exact P1, by exact P2⟩
      · rintro m s ⟨hs, h1, h2⟩
        dsimp only [Generated.C08.jacobiSeq_st_out, Generated.C08.jacobiSeq_st_min_i, Generated.C08.jacobiSeq_st_Pnm1, Generated.C08.jacobiSeq_st_Pn] at hs h1 h2 ⊢
        have hi : (3 + (m:ℤ)).toNat = 3 + m := by omega
        simp only [hi]
        have hc : (((3 + (m:ℤ) - 1 : ℤ)) : K) = ((m + 1 : ℕ) : K) + 1 := by push_cast; ring
        refine ⟨RInv_step ns hpw ev (3+m) _ _ _ (by rw [hc, C07L.gen_abc_nat, h1, h2, show 3 + m = (m+1) + 2 by omega]; simp only [hev]; rw [jacobi_succ_succ (m+1)]; simp [jacStep]) hs, ?_, ?_⟩
        · exact h2
        · rw [hc, C07L.gen_abc_nat, h1, h2, show m + 1 + 2 = (m+1) + 2 from rfl]; simp only [hev]; rw [jacobi_succ_succ (m+1)]; simp [jacStep]
      · intro a ha
        have := le_lastOrder ns hpw a ha
        omega)

/-- **the code of `jacobi_seq`, `hermite_He_seq`, `hermite_H_seq`, `laguerre_seq`, `dickson1_seq`, `dickson2_seq`**: for every
    non-empty strictly ascending order list, row `i` of the translated `*_seq` body is the translated single-order
    function at `ns[i]` — sequence evaluation equals one-at-a-time evaluation, on the source-derived definitions -/
theorem seq_code_eq_map_scalar_code (ns : List Nat) (hne : ns ≠ []) (hpw : ns.Pairwise (· < ·)) (a b x : K) :
    Generated.C08.jacobiSeq ns a b x = some (ns.map fun (n : ℕ) => Generated.C07.jacobi (n:ℤ) a b x)
    ∧ Generated.C08.hermiteHeSeq ns x = some (ns.map fun (n : ℕ) => Generated.C07.hermiteHe (n:ℤ) x)
    ∧ Generated.C08.hermiteHSeq ns x = some (ns.map fun (n : ℕ) => Generated.C07.hermiteH (n:ℤ) x)
    ∧ Generated.C08.laguerreSeq ns a x = some (ns.map fun (n : ℕ) => Generated.C07.laguerre (n:ℤ) a x)
    ∧ Generated.C08.dickson1Seq ns a x = some (ns.map fun (n : ℕ) => Generated.C07.dickson1 (n:ℤ) a x)
    ∧ Generated.C08.dickson2Seq ns a x = some (ns.map fun (n : ℕ) => Generated.C07.dickson2 (n:ℤ) a x) := by
  refine ⟨?_, ?_, ?_, ?_, ?_, ?_⟩
  · rw [gen_jacobiSeq ns hne hpw]; simp [C07L.gen_jacobi]
  · rw [gen_hermiteHeSeq ns hne hpw]; simp [C07L.gen_hermiteHe]
  · rw [gen_hermiteHSeq ns hne hpw]; simp [C07L.gen_hermiteH]
  · rw [gen_laguerreSeq ns hne hpw]; simp [C07L.gen_laguerre]
  · rw [gen_dickson1Seq ns hne hpw]; simp [C07L.gen_dickson1]
  · rw [gen_dickson2Seq ns hne hpw]; simp [C07L.gen_dickson2]

/-- `hermite_He_der_seq` / `hermite_H_der_seq`: rows are the translated single-order `hermite_He_der` / `hermite_H_der` -/
theorem der_seq_code_eq_map_scalar_code (ns : List Nat) (hne : ns ≠ []) (hpw : ns.Pairwise (· < ·)) (x : K) :
    Generated.C08.hermiteHeDerSeq ns x = some (ns.map fun (n : ℕ) => Generated.C08.hermiteHeDer (n:ℤ) x)
    ∧ Generated.C08.hermiteHDerSeq ns x = some (ns.map fun (n : ℕ) => Generated.C08.hermiteHDer (n:ℤ) x) := by
  have e1 : ∀ n : ℕ, Generated.C08.hermiteHeDer (n:ℤ) x = C08L.hermiteHeDer n x := by
    intro n; cases n with
    | zero => simp [Generated.C08.hermiteHeDer, C08L.hermiteHeDer]
    | succ k =>
      have h0 : ¬ (((k + 1 : ℕ) : ℤ) = 0) := by omega
      have e : ((k + 1 : ℕ) : ℤ) - 1 = (k : ℤ) := by omega
      simp only [Generated.C08.hermiteHeDer, if_neg h0, e, C07L.gen_hermiteHe, C08L.hermiteHeDer]; simp
  have e2 : ∀ n : ℕ, Generated.C08.hermiteHDer (n:ℤ) x = C08L.hermiteHDer n x := by
    intro n; cases n with
    | zero => simp [Generated.C08.hermiteHDer, C08L.hermiteHDer]
    | succ k =>
      have h0 : ¬ (((k + 1 : ℕ) : ℤ) = 0) := by omega
      have e : ((k + 1 : ℕ) : ℤ) - 1 = (k : ℤ) := by omega
      simp only [Generated.C08.hermiteHDer, if_neg h0, e, C07L.gen_hermiteH, C08L.hermiteHDer]; simp
  constructor
  · rw [gen_hermiteHeDerSeq ns hne hpw]; simp [e1]
  · rw [gen_hermiteHDerSeq ns hne hpw]; simp [e2]

/-- the statement-by-statement translation of `Qbfs_seq` (running index, conditional row writes, early returns, loop) returns
    `ns.map` of the model's single-order value for EVERY non-empty strictly ascending `ns` -/
theorem gen_qbfsSeq (ns : List Nat) (hne : ns ≠ []) (hpw : ns.Pairwise (· < ·)) (sqrt : K → K) (x : K) :
    Generated.C08.qbfsSeq sqrt ns x = some (ns.map fun n => qbfs sqrt n x) := by
  first
  | (show Model.C08.sweep _ _ = _; rw [C08L.sweep_eq_map _ ns hne hpw]; congr 1; apply List.map_congr_left; intro n _; simpa using qbfsRec_eval sqrt x n)
  | (
      unfold Generated.C08.qbfsSeq
      simp only [ofInt_eq, ofFrac_eq, Int.cast_one, Int.cast_zero, Int.cast_ofNat, Nat.cast_ofNat, npow_eq]
      set ev : Nat → K := fun n => qbfs sqrt n x with hev
      have E0 : x ^ 2 * (1 - x ^ 2) = ev 0 := by simp [hev, qbfs, qbfsPQ, pow_two]
      have E1 : 1 / sqrt 19 * (13 - 16 * x ^ 2) * (x ^ 2 * (1 - x ^ 2)) = ev 1 := by simp [hev, qbfs, qbfsPQ, C07L.qbfsPQ_step, pow_two]
      have h := RInv_zero ns ev
      generalize hst : (ite (ns[0]? = some 0) _ _ : Rows K × Nat) = st
      have h : RInv ns ev (0+1) st.1 st.2 := by rw [← hst]; exact RInv_step ns hpw ev 0 _ _ _ (by exact E0) h
      obtain ⟨out0, k0⟩ := st
      simp only [] at h ⊢
      split
      · exact RInv_done ns ev (0+1) out0 k0 h ‹_›
      generalize hst : (ite (ns[k0]? = some 1) _ _ : Rows K × Nat) = st
      have h : RInv ns ev (1+1) st.1 st.2 := by rw [← hst]; exact RInv_step ns hpw ev 1 _ _ _ (by exact E1) h
      obtain ⟨out1, k1⟩ := st
      simp only [] at h ⊢
      split
      · exact RInv_done ns ev (1+1) out1 k1 h ‹_›
      refine RInv_finish ns ev (2 + ((lastOrder ns + 1) - 2).toNat) _ _ (forRange_induct'
        (fun m s => RInv ns ev (2 + m) (Generated.C08.qbfsSeq_st_out s) (Generated.C08.qbfsSeq_st_min_i s) ∧ Generated.C08.qbfsSeq_st_Pnm2 s = (qbfsPQ sqrt (x*x) m).1 ∧ Generated.C08.qbfsSeq_st_Pnm1 s = (qbfsPQ sqrt (x*x) m).2.1 ∧ Generated.C08.qbfsSeq_st_Qnm2 s = (qbfsPQ sqrt (x*x) m).2.2.1 ∧ Generated.C08.qbfsSeq_st_Qnm1 s = (qbfsPQ sqrt (x*x) m).2.2.2)
        2 (lastOrder ns + 1) _ _ ?_ ?_).1 ?_
      · exact ⟨h, by simp [qbfsPQ], by simp [qbfsPQ, pow_two], by simp [qbfsPQ], by simp [qbfsPQ, pow_two]⟩
      · rintro m s ⟨hs, h1, h2, h3, h4⟩
        dsimp only [Generated.C08.qbfsSeq_st_out, Generated.C08.qbfsSeq_st_min_i, Generated.C08.qbfsSeq_st_Pnm2, Generated.C08.qbfsSeq_st_Pnm1, Generated.C08.qbfsSeq_st_Qnm2, Generated.C08.qbfsSeq_st_Qnm1] at hs h1 h2 h3 h4 ⊢
        have hi : (2 + (m:ℤ)).toNat = 2 + m := by omega
        simp only [hi]
        have eg : qbfsGi sqrt (2 + (m:ℤ) - 1) = qbfsG sqrt (m+1) := by simp only [qbfsGi]; congr 1; omega
        have eh : qbfsHi sqrt (2 + (m:ℤ) - 2) = qbfsH m (qbfsF sqrt m) := by
          have : (2 + (m:ℤ) - 2).toNat = m := by omega
          simp only [qbfsHi, this]
        have ef : qbfsFi sqrt (2 + (m:ℤ)) = qbfsF sqrt (m+2) := by simp only [qbfsFi]; congr 1; omega
        refine ⟨RInv_step ns hpw ev (2+m) _ _ _ (by rw [h2, h3, h4, h1]; simp only [hev, qbfs]; rw [show 2 + m = (m+1) + 1 by omega, C07L.qbfsPQ_step sqrt (x*x) (m+1)]; simp only [C07L.qbfsPQ_step sqrt (x*x) m, eg, eh, ef, pow_two, nat_eq, Nat.cast_one]) hs, ?_, ?_, ?_, ?_⟩
        · rw [h2, C07L.qbfsPQ_step]
        · rw [h1, h2, C07L.qbfsPQ_step]; simp only [pow_two]
        · rw [h4, C07L.qbfsPQ_step]
        · rw [h1, h2, h3, h4, C07L.qbfsPQ_step]; simp only [eg, eh, ef, pow_two]
      · intro a ha
        have := le_lastOrder ns hpw a ha
        omega)

/-- `Qbfs_seq` as written in the source returns, for every non-empty strictly ascending `ns`, the list of the values of the TRANSLATED
    scalar `Qbfs` (C07's `Generated.C07.qbfs`), any `sqrt` -/
theorem qbfs_seq_code_eq_map_scalar_code (ns : List Nat) (hne : ns ≠ []) (hpw : ns.Pairwise (· < ·)) (sqrt : K → K) (x : K) :
    Generated.C08.qbfsSeq sqrt ns x = some (ns.map fun (n : ℕ) => Generated.C07.qbfs sqrt (n:ℤ) x) := by
  rw [gen_qbfsSeq ns hne hpw sqrt x]; simp [C07L.gen_qbfs]

end translated_seq

/-! ## non-vacuity -/
example : ([1, 3, 4, 9] : List Nat) ≠ [] ∧ ([1, 3, 4, 9] : List Nat).Pairwise (· < ·) := by decide
example : sweep (heRec (2 : Rat)) [1, 3] = some [2, 2] := by decide +kernel
example : bcShape [3, 4, 5] (goodCsShape 3 2) = some [3, 4, 5] := by decide
example : bcShape [3, 4, 5] [3, 1] = none := by decide

end C08
