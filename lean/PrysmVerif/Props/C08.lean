import PrysmVerif.Generated.C08
import PrysmVerif.Lemmas.C08Sweep
import PrysmVerif.Lemmas.C08Families
import PrysmVerif.Lemmas.C07Field
import PrysmVerif.Lemmas.C07Hermite
import PrysmVerif.Props.C07
/-!
# C08 — sequence evaluation equals one-at-a-time evaluation

1. `sweep_eq_map`: the control flow shared by every `*_seq` (one forward pass, a running index into `ns`)
   returns `ns.map eval` for EVERY non-empty strictly ascending order list and every recurrence family;
   instantiated for Jacobi, Legendre, Hermite He/H, Laguerre, Dickson 1/2, Qbfs and the three `*_der_seq` sweeps.
2. `table_lookup_eq_map`: per-`|m|` tables + look-up return the single-order values for every list of pairs.
3. the broadcasting shape rule: constants of shape `(N,1,…,1)` scale mode `k` by `c_k` for every coordinate
   shape; the shapes the source uses are generated from the source (`Generated.C08.cheby*CsShape`), so the
   kernel re-checks them; `(N,1)` is shown to raise / alias / mis-shape for 2-D / N×… / 0-D coordinates.
4. `xy_seq` takes its monomials from a family whose order-0 member is 1 (generated from the source).
-/
set_option linter.unusedTactic false
set_option linter.unreachableTactic false
set_option linter.unusedSectionVars false
set_option linter.unusedSimpArgs false
set_option linter.unusedVariables false

namespace C08
open Model.C08 Model.C07 C08L

/-! ## 1. the sweep -/

/-- **sequence = one-at-a-time**, for every recurrence family `r` and every non-empty strictly ascending order
    list `ns` (gapped, not starting at 0, singleton, any length): one sweep returns `ns.map r.eval`, in order -/
theorem sweep_eq_map {S K : Type} (r : Rec S K) (ns : List Nat) (hne : ns ≠ []) (hpw : ns.Pairwise (· < ·)) :
    sweep r ns = some (ns.map r.eval) := C08L.sweep_eq_map r ns hne hpw

/-- output has one row per requested order: leading shape `(len(ns), …)` -/
theorem sweep_length {S K : Type} (r : Rec S K) (ns : List Nat) (out : List K) (h : sweep r ns = some out)
    (hne : ns ≠ []) (hpw : ns.Pairwise (· < ·)) : out.length = ns.length := by
  rw [sweep_eq_map r ns hne hpw] at h
  cases h; simp

/-- an empty order list is rejected (the code raises `IndexError` on `ns[0]`) -/
theorem sweep_nil {S K : Type} (r : Rec S K) : sweep r [] = none := rfl

section families
variable {K : Type} [Num K]

/-- `jacobi_seq`, `legendre_seq` (α=β=0), `Qcon_seq` (through `(0,4)`): row `i` is `jacobi(ns[i], α, β, x)` -/
theorem jacobi_seq_eq_map (a b x : K) (ns : List Nat) (hne : ns ≠ []) (hpw : ns.Pairwise (· < ·)) :
    sweep (jacobiRec a b x) ns = some (ns.map fun n => jacobi n a b x) := by
  rw [sweep_eq_map _ ns hne hpw]; simp [jacobiRec_eval]

/-- `hermite_He_seq`: row `i` is `hermite_He(ns[i], x)` -/
theorem hermiteHe_seq_eq_map (x : K) (ns : List Nat) (hne : ns ≠ []) (hpw : ns.Pairwise (· < ·)) :
    sweep (heRec x) ns = some (ns.map fun n => hermiteHe n x) := by
  rw [sweep_eq_map _ ns hne hpw]; simp [heRec_eval]

/-- `hermite_H_seq`: row `i` is `hermite_H(ns[i], x)` -/
theorem hermiteH_seq_eq_map (x : K) (ns : List Nat) (hne : ns ≠ []) (hpw : ns.Pairwise (· < ·)) :
    sweep (hRec x) ns = some (ns.map fun n => hermiteH n x) := by
  rw [sweep_eq_map _ ns hne hpw]; simp [hRec_eval]

/-- `laguerre_seq`: row `i` is `laguerre(ns[i], α, x)` -/
theorem laguerre_seq_eq_map (a x : K) (ns : List Nat) (hne : ns ≠ []) (hpw : ns.Pairwise (· < ·)) :
    sweep (lagRec a x) ns = some (ns.map fun n => laguerre n a x) := by
  rw [sweep_eq_map _ ns hne hpw]; simp [lagRec_eval]

/-- `dickson1_seq` / `dickson2_seq`: row `i` is `dickson1/2(ns[i], a, x)` -/
theorem dickson_seq_eq_map (a x : K) (ns : List Nat) (hne : ns ≠ []) (hpw : ns.Pairwise (· < ·)) :
    sweep (dickRec (nat 2) a x) ns = some (ns.map fun n => dickson1 n a x)
    ∧ sweep (dickRec (nat 1) a x) ns = some (ns.map fun n => dickson2 n a x) := by
  rw [sweep_eq_map _ ns hne hpw, sweep_eq_map _ ns hne hpw]; simp [dickRec_eval1, dickRec_eval2]

/-- `Qbfs_seq`: row `i` is `Qbfs(ns[i], x)` (any `sqrt`) -/
theorem qbfs_seq_eq_map (sqrt : K → K) (x : K) (ns : List Nat) (hne : ns ≠ []) (hpw : ns.Pairwise (· < ·)) :
    sweep (qbfsRec sqrt x) ns = some (ns.map fun n => qbfs sqrt n x) := by
  rw [sweep_eq_map _ ns hne hpw]; simp [qbfsRec_eval]

/-- `jacobi_der_seq`, `hermite_He_der_seq`, `hermite_H_der_seq`: row `i` is the single-order derivative function
    (`½(n+α+β+1)·P_{n−1}^{(α+1,β+1)}`, `n·He_{n−1}`, `2n·H_{n−1}`, and `0` at `n = 0`) -/
theorem der_sweep_eq_map (a b x : K) (ns : List Nat) (hne : ns ≠ []) (hpw : ns.Pairwise (· < ·)) :
    sweep (jacobiDerRec a b x) ns = some (ns.map fun n => jacobiDer n a b x)
    ∧ sweep (heDerRec x) ns = some (ns.map fun n => hermiteHeDer n x)
    ∧ sweep (hDerRec x) ns = some (ns.map fun n => hermiteHDer n x) := by
  rw [sweep_eq_map _ ns hne hpw, sweep_eq_map _ ns hne hpw, sweep_eq_map _ ns hne hpw]
  simp [jacobiDerRec_eval, heDerRec_eval, hDerRec_eval]

end families

/-! ## 2. two-index families -/

/-- **table look-up = one-at-a-time** for every list of pairs, any order, repeats allowed (generic family) -/
theorem table_lookup_eq_map {S K : Type} (fam : Nat → Rec S K) (pairs : List (Nat × Nat)) :
    tableSeq fam pairs = some (pairs.map fun p => (fam p.2).eval p.1) := C08L.table_lookup_eq_map fam pairs

/-- `zernike_nm_seq`: the per-`|m|` Jacobi tables looked up at `(n−|m|)/2` give `P^{(0,|m|)}_{(n−|m|)/2}(x)` for every
    requested `(n_j, |m|)`, in the order requested -/
theorem zernike_table_eq_map {K : Type} [Num K] (x : K) (pairs : List (Nat × Nat)) :
    tableSeq (fun am => jacobiRec (nat 0) (nat am) x) pairs
      = some (pairs.map fun p => jacobi p.1 (nat 0) (nat p.2) x) := by
  rw [table_lookup_eq_map]; simp [jacobiRec_eval]

section generated
open C07L
variable {K : Type} [Field K] [DecidableEq K] [CharZero K]

/-- the table arguments and look-up index of `zernike_nm_seq` are those of `zernike_nm` -/
theorem zernike_seq_wiring (n m : ℤ) (r : K) :
    Generated.C08.zernikeSeqX r = Generated.C07.zernikeX r
    ∧ Generated.C08.zernikeSeqNj n m = Generated.C07.zernikeNj n m
    ∧ (Generated.C08.zernikeSeqAB m : K × K) = Generated.C07.zernikeAB m
    ∧ Generated.C08.zernikeSeqAzimuthNegSinPosCosTimesRPowAbsM = true
    ∧ Generated.C07.zernikeAzimuthNegSinPosCosTimesRPowAbsM = true := by
  refine ⟨?_, ?_, ?_, ?_, ?_⟩
  · simp [Generated.C08.zernikeSeqX, Generated.C07.zernikeX]
  · simp [Generated.C08.zernikeSeqNj, Generated.C07.zernikeNj]
  · simp [Generated.C08.zernikeSeqAB, Generated.C07.zernikeAB]
  · decide
  · decide

/-- **`xy_seq` returns the monomials**: term `(m, n)` is `x^m · y^n` for every `m, n ≥ 0` — in particular the
    family that fills the tables has `p_0 = 1` (Dickson of the second kind with `a = 0`, not the first kind) -/
theorem xy_seq_term (m n : ℕ) (x y : K) : Generated.C08.xySeqTerm (m:ℤ) (n:ℤ) x y = x ^ m * y ^ n := by
  unfold Generated.C08.xySeqTerm
  simp only [C07.gen_dickson2, ofInt_eq, Int.cast_zero, dickson2_zero_eq_pow]

/-- `xy_seq` term `(m,n)` equals `xy(m, n, x, y)` as translated from the source -/
theorem xy_seq_eq_xy (m n : ℕ) (x y : K) :
    Generated.C08.xySeqTerm (m:ℤ) (n:ℤ) x y = Generated.C07.xy (m:ℤ) (n:ℤ) x y := by
  rw [xy_seq_term]; simp [Generated.C07.xy]

/-- the eight Chebyshev `*_seq` use the Jacobi parameters and numerators of their scalar functions -/
theorem cheby_seq_params (n : ℕ) :
    let proj := fun (p : K × K × K × K × K × K) => (p.1, p.2.1, p.2.2.1, p.2.2.2.1, p.2.2.2.2.2)
    (Generated.C08.cheby1SeqParams (n:ℤ) : K × K × K × K × K) = proj (Generated.C07.cheby1Params (n:ℤ))
    ∧ (Generated.C08.cheby2SeqParams (n:ℤ) : K × K × K × K × K) = proj (Generated.C07.cheby2Params (n:ℤ))
    ∧ (Generated.C08.cheby3SeqParams (n:ℤ) : K × K × K × K × K) = proj (Generated.C07.cheby3Params (n:ℤ))
    ∧ (Generated.C08.cheby4SeqParams (n:ℤ) : K × K × K × K × K) = proj (Generated.C07.cheby4Params (n:ℤ))
    ∧ (Generated.C08.cheby1DerSeqParams (n:ℤ) : K × K × K × K × K) = proj (Generated.C07.cheby1Params (n:ℤ))
    ∧ (Generated.C08.cheby2DerSeqParams (n:ℤ) : K × K × K × K × K) = proj (Generated.C07.cheby2Params (n:ℤ))
    ∧ (Generated.C08.cheby3DerSeqParams (n:ℤ) : K × K × K × K × K) = proj (Generated.C07.cheby3Params (n:ℤ))
    ∧ (Generated.C08.cheby4DerSeqParams (n:ℤ) : K × K × K × K × K) = proj (Generated.C07.cheby4Params (n:ℤ)) := by
  refine ⟨?_, ?_, ?_, ?_, ?_, ?_, ?_, ?_⟩ <;>
    simp [Generated.C08.cheby1SeqParams, Generated.C08.cheby2SeqParams, Generated.C08.cheby3SeqParams,
      Generated.C08.cheby4SeqParams, Generated.C08.cheby1DerSeqParams, Generated.C08.cheby2DerSeqParams,
      Generated.C08.cheby3DerSeqParams, Generated.C08.cheby4DerSeqParams,
      Generated.C07.cheby1Params, Generated.C07.cheby2Params, Generated.C07.cheby3Params, Generated.C07.cheby4Params]

end generated

/-! ## 3. broadcasting of the per-order constants -/

/-- constants reshaped to `(N, 1, …, 1)` (`|S|` ones) broadcast to the stack's shape `(N, *S)` and feed output
    element `[k, idx…]` from constant `k`: mode `k` is scaled by `c_k`, for EVERY `N` and coordinate shape `S` -/
theorem scale_modes_shape (N k : Nat) (S idx : List Nat) (h : idx.length = S.length) :
    bcShape (N :: S) (goodCsShape N S.length) = some (N :: S)
    ∧ bcSrc (goodCsShape N S.length) (k :: idx) = (if N = 1 then 0 else k) :: List.replicate S.length 0 := by
  refine ⟨bcShape_good N S, ?_⟩
  rw [← h]; exact bcSrc_good N k idx

/-- the constants of all eight Chebyshev `*_seq` functions in the source have that shape, for every number of
    orders `N` and every coordinate rank (0-D, 1-D, 2-D, N-D) -/
theorem cheby_seq_cs_shape (N rank : Nat) :
    Generated.C08.cheby1SeqCsShape N rank = goodCsShape N rank
    ∧ Generated.C08.cheby2SeqCsShape N rank = goodCsShape N rank
    ∧ Generated.C08.cheby3SeqCsShape N rank = goodCsShape N rank
    ∧ Generated.C08.cheby4SeqCsShape N rank = goodCsShape N rank
    ∧ Generated.C08.cheby1DerSeqCsShape N rank = goodCsShape N rank
    ∧ Generated.C08.cheby2DerSeqCsShape N rank = goodCsShape N rank
    ∧ Generated.C08.cheby3DerSeqCsShape N rank = goodCsShape N rank
    ∧ Generated.C08.cheby4DerSeqCsShape N rank = goodCsShape N rank := by
  refine ⟨?_, ?_, ?_, ?_, ?_, ?_, ?_, ?_⟩ <;>
    simp [Generated.C08.cheby1SeqCsShape, Generated.C08.cheby2SeqCsShape, Generated.C08.cheby3SeqCsShape,
      Generated.C08.cheby4SeqCsShape, Generated.C08.cheby1DerSeqCsShape, Generated.C08.cheby2DerSeqCsShape,
      Generated.C08.cheby3DerSeqCsShape, Generated.C08.cheby4DerSeqCsShape, goodCsShape]

/-- why `(N, 1)` is not good enough: against a 2-D coordinate array `(A, B)` NumPy raises unless `A ∈ {1, N}` -/
theorem pinned_shape_raises (N A B : Nat) (hN : N ≠ 1) (hA : A ≠ 1) (hAN : A ≠ N) :
    bcShape [N, A, B] [N, 1] = none := C08L.pinned_shape_raises N A B hN hA hAN

/-- … when `A = N` mode `k`, row `i` is silently scaled by constant `i`; a 0-D coordinate yields `(N, N)` -/
theorem pinned_shape_aliases (N B k i j : Nat) (hN : N ≠ 1) :
    (bcShape [N, N, B] [N, 1] = some [N, N, B] ∧ bcSrc [N, 1] [k, i, j] = [i, 0])
    ∧ bcShape [N] [N, 1] = some [N, N] :=
  ⟨C08L.pinned_shape_aliases N B k i j hN, C08L.pinned_shape_0d N hN⟩

/-! ## non-vacuity -/
example : ([1, 3, 4, 9] : List Nat) ≠ [] ∧ ([1, 3, 4, 9] : List Nat).Pairwise (· < ·) := by decide
example : sweep (heRec (2 : Rat)) [1, 3] = some [2, 2] := by decide +kernel
example : bcShape [3, 4, 5] (goodCsShape 3 2) = some [3, 4, 5] := by decide
example : bcShape [3, 4, 5] [3, 1] = none := by decide

end C08
