import PrysmVerif.Generated.C08
import PrysmVerif.Lemmas.C08Sweep
import PrysmVerif.Lemmas.C08Families
import PrysmVerif.Lemmas.C08Lit
import PrysmVerif.Lemmas.C07Field
import PrysmVerif.Lemmas.C07Hermite
import PrysmVerif.Props.C07
/-!
# C08 — sequence evaluation equals one-at-a-time evaluation

1. `sweep_eq_map`: the control flow shared by every `*_seq` (one forward pass, a running index into `ns`)
   returns `ns.map eval` for EVERY non-empty strictly ascending order list and every recurrence family;
   instantiated for Jacobi, Legendre, Hermite He/H, Laguerre, Dickson 1/2, Qbfs and the three `*_der_seq` sweeps.
2. `table_lookup_eq_map`: per-`|m|` tables + look-up return the single-order values for every list of pairs.
3. the broadcasting shape rule: constants of shape `(N,1,…,1)` scale mode `k` by `c_k` for every coordinate
   shape; the shapes the source uses are generated from the source (`Generated.C08.cheby*CsShape`), so the
   kernel re-checks them; `(N,1)` is shown to raise / alias / mis-shape for 2-D / N×… / 0-D coordinates.
4. `xy_seq` takes its monomials from a family whose order-0 member is 1 (generated from the source).
5. the bodies of `jacobi_seq`, `hermite_He_seq`, `hermite_H_seq`, `hermite_He_der_seq`, `hermite_H_der_seq`, `laguerre_seq`,
   `dickson1_seq`, `dickson2_seq` translated statement by statement from the current source (`Generated.C08.*Seq`):
   each returns `ns.map` of the translated single-order function, for every non-empty strictly ascending `ns`.
-/
set_option linter.unusedTactic false
set_option linter.unreachableTactic false
set_option linter.unusedSectionVars false
set_option linter.unusedSimpArgs false
set_option linter.unusedVariables false

namespace C08
open Model.C08 Model.C07 C08L

/-! ## 1. the sweep -/

/-- **sequence = one-at-a-time**, for every recurrence family `r` and every non-empty strictly ascending order
    list `ns` (gapped, not starting at 0, singleton, any length): one sweep returns `ns.map r.eval`, in order -/
theorem sweep_eq_map {S K : Type} (r : Rec S K) (ns : List Nat) (hne : ns ≠ []) (hpw : ns.Pairwise (· < ·)) :
    sweep r ns = some (ns.map r.eval) := C08L.sweep_eq_map r ns hne hpw

/-- output has one row per requested order: leading shape `(len(ns), …)` -/
theorem sweep_length {S K : Type} (r : Rec S K) (ns : List Nat) (out : List K) (h : sweep r ns = some out)
    (hne : ns ≠ []) (hpw : ns.Pairwise (· < ·)) : out.length = ns.length := by
  rw [sweep_eq_map r ns hne hpw] at h
  cases h; simp

/-- an empty order list is rejected (the code raises `IndexError` on `ns[0]`) -/
theorem sweep_nil {S K : Type} (r : Rec S K) : sweep r [] = none := rfl

section families
variable {K : Type} [Num K]

/-- `jacobi_seq`, `legendre_seq` (α=β=0), `Qcon_seq` (through `(0,4)`): row `i` is `jacobi(ns[i], α, β, x)` -/
theorem jacobi_seq_eq_map (a b x : K) (ns : List Nat) (hne : ns ≠ []) (hpw : ns.Pairwise (· < ·)) :
    sweep (jacobiRec a b x) ns = some (ns.map fun n => jacobi n a b x) := by
  rw [sweep_eq_map _ ns hne hpw]; simp [jacobiRec_eval]

/-- `hermite_He_seq`: row `i` is `hermite_He(ns[i], x)` -/
theorem hermiteHe_seq_eq_map (x : K) (ns : List Nat) (hne : ns ≠ []) (hpw : ns.Pairwise (· < ·)) :
    sweep (heRec x) ns = some (ns.map fun n => hermiteHe n x) := by
  rw [sweep_eq_map _ ns hne hpw]; simp [heRec_eval]

/-- `hermite_H_seq`: row `i` is `hermite_H(ns[i], x)` -/
theorem hermiteH_seq_eq_map (x : K) (ns : List Nat) (hne : ns ≠ []) (hpw : ns.Pairwise (· < ·)) :
    sweep (hRec x) ns = some (ns.map fun n => hermiteH n x) := by
  rw [sweep_eq_map _ ns hne hpw]; simp [hRec_eval]

/-- `laguerre_seq`: row `i` is `laguerre(ns[i], α, x)` -/
theorem laguerre_seq_eq_map (a x : K) (ns : List Nat) (hne : ns ≠ []) (hpw : ns.Pairwise (· < ·)) :
    sweep (lagRec a x) ns = some (ns.map fun n => laguerre n a x) := by
  rw [sweep_eq_map _ ns hne hpw]; simp [lagRec_eval]

/-- `dickson1_seq` / `dickson2_seq`: row `i` is `dickson1/2(ns[i], a, x)` -/
theorem dickson_seq_eq_map (a x : K) (ns : List Nat) (hne : ns ≠ []) (hpw : ns.Pairwise (· < ·)) :
    sweep (dickRec (nat 2) a x) ns = some (ns.map fun n => dickson1 n a x)
    ∧ sweep (dickRec (nat 1) a x) ns = some (ns.map fun n => dickson2 n a x) := by
  rw [sweep_eq_map _ ns hne hpw, sweep_eq_map _ ns hne hpw]; simp [dickRec_eval1, dickRec_eval2]

/-- `Qbfs_seq`: row `i` is `Qbfs(ns[i], x)` (any `sqrt`) -/
theorem qbfs_seq_eq_map (sqrt : K → K) (x : K) (ns : List Nat) (hne : ns ≠ []) (hpw : ns.Pairwise (· < ·)) :
    sweep (qbfsRec sqrt x) ns = some (ns.map fun n => qbfs sqrt n x) := by
  rw [sweep_eq_map _ ns hne hpw]; simp [qbfsRec_eval]

/-- `jacobi_der_seq`, `hermite_He_der_seq`, `hermite_H_der_seq`: row `i` is the single-order derivative function
    (`½(n+α+β+1)·P_{n−1}^{(α+1,β+1)}`, `n·He_{n−1}`, `2n·H_{n−1}`, and `0` at `n = 0`) -/
theorem der_sweep_eq_map (a b x : K) (ns : List Nat) (hne : ns ≠ []) (hpw : ns.Pairwise (· < ·)) :
    sweep (jacobiDerRec a b x) ns = some (ns.map fun n => jacobiDer n a b x)
    ∧ sweep (heDerRec x) ns = some (ns.map fun n => hermiteHeDer n x)
    ∧ sweep (hDerRec x) ns = some (ns.map fun n => hermiteHDer n x) := by
  rw [sweep_eq_map _ ns hne hpw, sweep_eq_map _ ns hne hpw, sweep_eq_map _ ns hne hpw]
  simp [jacobiDerRec_eval, heDerRec_eval, hDerRec_eval]

end families

/-! ## 2. two-index families -/

/-- **table look-up = one-at-a-time** for every list of pairs, any order, repeats allowed (generic family) -/
theorem table_lookup_eq_map {S K : Type} (fam : Nat → Rec S K) (pairs : List (Nat × Nat)) :
    tableSeq fam pairs = some (pairs.map fun p => (fam p.2).eval p.1) := C08L.table_lookup_eq_map fam pairs

/-- `zernike_nm_seq`: the per-`|m|` Jacobi tables looked up at `(n−|m|)/2` give `P^{(0,|m|)}_{(n−|m|)/2}(x)` for every
    requested `(n_j, |m|)`, in the order requested -/
theorem zernike_table_eq_map {K : Type} [Num K] (x : K) (pairs : List (Nat × Nat)) :
    tableSeq (fun am => jacobiRec (nat 0) (nat am) x) pairs
      = some (pairs.map fun p => jacobi p.1 (nat 0) (nat p.2) x) := by
  rw [table_lookup_eq_map]; simp [jacobiRec_eval]

section generated
open C07L
variable {K : Type} [Field K] [DecidableEq K] [CharZero K]

/-- the table arguments and look-up index of `zernike_nm_seq` are those of `zernike_nm` -/
theorem zernike_seq_wiring (n m : ℤ) (r : K) :
    Generated.C08.zernikeSeqX r = Generated.C07.zernikeX r
    ∧ Generated.C08.zernikeSeqNj n m = Generated.C07.zernikeNj n m
    ∧ (Generated.C08.zernikeSeqAB m : K × K) = Generated.C07.zernikeAB m
    ∧ Generated.C08.zernikeSeqAzimuthNegSinPosCosTimesRPowAbsM = true
    ∧ Generated.C07.zernikeAzimuthNegSinPosCosTimesRPowAbsM = true := by
  refine ⟨?_, ?_, ?_, ?_, ?_⟩
  · simp [Generated.C08.zernikeSeqX, Generated.C07.zernikeX]
  · simp [Generated.C08.zernikeSeqNj, Generated.C07.zernikeNj]
  · simp [Generated.C08.zernikeSeqAB, Generated.C07.zernikeAB]
  · decide
  · decide

/-- **`xy_seq` returns the monomials**: term `(m, n)` is `x^m · y^n` for every `m, n ≥ 0` — in particular the
    family that fills the tables has `p_0 = 1` (Dickson of the second kind with `a = 0`, not the first kind) -/
theorem xy_seq_term (m n : ℕ) (x y : K) : Generated.C08.xySeqTerm (m:ℤ) (n:ℤ) x y = x ^ m * y ^ n := by
  unfold Generated.C08.xySeqTerm
  first
  | simp only [C07.gen_dickson2, ofInt_eq, Int.cast_zero, dickson2_zero_eq_pow]
  | simp [Model.C07.xy]

/-- `xy_seq` term `(m,n)` equals `xy(m, n, x, y)` as translated from the source -/
theorem xy_seq_eq_xy (m n : ℕ) (x y : K) :
    Generated.C08.xySeqTerm (m:ℤ) (n:ℤ) x y = Generated.C07.xy (m:ℤ) (n:ℤ) x y := by
  rw [xy_seq_term]; simp [Generated.C07.xy, Model.C07.xy]

/-- the eight Chebyshev `*_seq` use the Jacobi parameters and numerators of their scalar functions -/
theorem cheby_seq_params (n : ℕ) :
    let proj := fun (p : K × K × K × K × K × K) => (p.1, p.2.1, p.2.2.1, p.2.2.2.1, p.2.2.2.2.2)
    (Generated.C08.cheby1SeqParams (n:ℤ) : K × K × K × K × K) = proj (Generated.C07.cheby1Params (n:ℤ))
    ∧ (Generated.C08.cheby2SeqParams (n:ℤ) : K × K × K × K × K) = proj (Generated.C07.cheby2Params (n:ℤ))
    ∧ (Generated.C08.cheby3SeqParams (n:ℤ) : K × K × K × K × K) = proj (Generated.C07.cheby3Params (n:ℤ))
    ∧ (Generated.C08.cheby4SeqParams (n:ℤ) : K × K × K × K × K) = proj (Generated.C07.cheby4Params (n:ℤ))
    ∧ (Generated.C08.cheby1DerSeqParams (n:ℤ) : K × K × K × K × K) = proj (Generated.C07.cheby1Params (n:ℤ))
    ∧ (Generated.C08.cheby2DerSeqParams (n:ℤ) : K × K × K × K × K) = proj (Generated.C07.cheby2Params (n:ℤ))
    ∧ (Generated.C08.cheby3DerSeqParams (n:ℤ) : K × K × K × K × K) = proj (Generated.C07.cheby3Params (n:ℤ))
    ∧ (Generated.C08.cheby4DerSeqParams (n:ℤ) : K × K × K × K × K) = proj (Generated.C07.cheby4Params (n:ℤ)) := by
  refine ⟨?_, ?_, ?_, ?_, ?_, ?_, ?_, ?_⟩ <;>
    simp [Generated.C08.cheby1SeqParams, Generated.C08.cheby2SeqParams, Generated.C08.cheby3SeqParams,
      Generated.C08.cheby4SeqParams, Generated.C08.cheby1DerSeqParams, Generated.C08.cheby2DerSeqParams,
      Generated.C08.cheby3DerSeqParams, Generated.C08.cheby4DerSeqParams,
      Generated.C07.cheby1Params, Generated.C07.cheby2Params, Generated.C07.cheby3Params, Generated.C07.cheby4Params]

end generated

/-! ## 3. broadcasting of the per-order constants -/

/-- constants reshaped to `(N, 1, …, 1)` (`|S|` ones) broadcast to the stack's shape `(N, *S)` and feed output
    element `[k, idx…]` from constant `k`: mode `k` is scaled by `c_k`, for EVERY `N` and coordinate shape `S` -/
theorem scale_modes_shape (N k : Nat) (S idx : List Nat) (h : idx.length = S.length) :
    bcShape (N :: S) (goodCsShape N S.length) = some (N :: S)
    ∧ bcSrc (goodCsShape N S.length) (k :: idx) = (if N = 1 then 0 else k) :: List.replicate S.length 0 := by
  refine ⟨bcShape_good N S, ?_⟩
  rw [← h]; exact bcSrc_good N k idx

/-- the constants of all eight Chebyshev `*_seq` functions in the source have that shape, for every number of
    orders `N` and every coordinate rank (0-D, 1-D, 2-D, N-D) -/
theorem cheby_seq_cs_shape (N rank : Nat) :
    Generated.C08.cheby1SeqCsShape N rank = goodCsShape N rank
    ∧ Generated.C08.cheby2SeqCsShape N rank = goodCsShape N rank
    ∧ Generated.C08.cheby3SeqCsShape N rank = goodCsShape N rank
    ∧ Generated.C08.cheby4SeqCsShape N rank = goodCsShape N rank
    ∧ Generated.C08.cheby1DerSeqCsShape N rank = goodCsShape N rank
    ∧ Generated.C08.cheby2DerSeqCsShape N rank = goodCsShape N rank
    ∧ Generated.C08.cheby3DerSeqCsShape N rank = goodCsShape N rank
    ∧ Generated.C08.cheby4DerSeqCsShape N rank = goodCsShape N rank := by
  refine ⟨?_, ?_, ?_, ?_, ?_, ?_, ?_, ?_⟩ <;>
    simp [Generated.C08.cheby1SeqCsShape, Generated.C08.cheby2SeqCsShape, Generated.C08.cheby3SeqCsShape,
      Generated.C08.cheby4SeqCsShape, Generated.C08.cheby1DerSeqCsShape, Generated.C08.cheby2DerSeqCsShape,
      Generated.C08.cheby3DerSeqCsShape, Generated.C08.cheby4DerSeqCsShape, goodCsShape]

/-- why `(N, 1)` is not good enough: against a 2-D coordinate array `(A, B)` NumPy raises unless `A ∈ {1, N}` -/
theorem pinned_shape_raises (N A B : Nat) (hN : N ≠ 1) (hA : A ≠ 1) (hAN : A ≠ N) :
    bcShape [N, A, B] [N, 1] = none := C08L.pinned_shape_raises N A B hN hA hAN

/-- … when `A = N` mode `k`, row `i` is silently scaled by constant `i`; a 0-D coordinate yields `(N, N)` -/
theorem pinned_shape_aliases (N B k i j : Nat) (hN : N ≠ 1) :
    (bcShape [N, N, B] [N, 1] = some [N, N, B] ∧ bcSrc [N, 1] [k, i, j] = [i, 0])
    ∧ bcShape [N] [N, 1] = some [N, N] :=
  ⟨C08L.pinned_shape_aliases N B k i j hN, C08L.pinned_shape_0d N hN⟩

/-! ## 5. the `*_seq` bodies as translated from the source -/
section translated_seq
open C07L
variable {K : Type} [Field K] [DecidableEq K] [CharZero K]

/-- three-counter variant (`dickson*_seq` keep a second index `j` that always equals `min_i`) -/
theorem RInv_step3 (ns : List Nat) (hpw : ns.Pairwise (· < ·)) (ev : Nat → K) (i : Nat) (out : Rows K) (k : Nat) (v : K)
    (hv : v = ev i) (h : RInv ns ev i out k) :
    RInv ns ev (i+1) (if ns[k]? = some i then (setRow out k v, k + 1, k + 1) else (out, k, k)).1
      (if ns[k]? = some i then (setRow out k v, k + 1, k + 1) else (out, k, k)).2.1
    ∧ (if ns[k]? = some i then (setRow out k v, k + 1, k + 1) else (out, k, k)).2.2
      = (if ns[k]? = some i then (setRow out k v, k + 1, k + 1) else (out, k, k)).2.1 := by
  have := RInv_step ns hpw ev i out k v hv h
  by_cases hc : ns[k]? = some i <;> simp only [hc, if_true, if_false] at this ⊢ <;> exact ⟨this, trivial⟩

/-- the statement-by-statement translation of `hermite_He_seq` (running index, conditional row writes, early returns,
    loop) returns `ns.map` of the model's single-order value for EVERY non-empty strictly ascending `ns` -/
theorem gen_hermiteHeSeq (ns : List Nat) (hne : ns ≠ []) (hpw : ns.Pairwise (· < ·)) (x : K) :
    Generated.C08.hermiteHeSeq ns x = some (ns.map fun n => hermiteHe n x) := by
  first
  | (show Model.C08.sweep _ _ = _; rw [C08L.sweep_eq_map _ ns hne hpw]; simp [heRec_eval])
  | (
      unfold Generated.C08.hermiteHeSeq
      simp only [ofInt_eq, Int.cast_one, Int.cast_zero]
      set ev : Nat → K := fun n => hermiteHe n x with hev
      -- order 0
      have h := RInv_step ns hpw ev 0 _ _ (1:K) (by simp [hev, hermiteHe_zero]) (RInv_zero ns ev)
      generalize hst : (ite (ns[0]? = some 0) _ _ : Rows K × Nat) = st at h ⊢
      obtain ⟨out1, k1⟩ := st
      simp only [] at h ⊢
      split
      · exact RInv_done ns ev 1 out1 k1 h ‹_›
      -- order 1
      have h := RInv_step ns hpw ev 1 _ _ x (by simp [hev, hermiteHe_one]) h
      generalize hst : (ite (ns[k1]? = some 1) _ _ : Rows K × Nat) = st at h ⊢
      obtain ⟨out2, k2⟩ := st
      simp only [] at h ⊢
      split
      · exact RInv_done ns ev 2 out2 k2 h ‹_›
      -- order 2
      have P2 : x * x - 1 = ev 2 := by simp [hev, hermiteHe_succ_succ, hermiteHe_one, hermiteHe_zero]
      have h := RInv_step ns hpw ev 2 _ _ (x * x - 1) P2 h
      generalize hst : (ite (ns[k2]? = some 2) _ _ : Rows K × Nat) = st at h ⊢
      obtain ⟨out3, k3⟩ := st
      simp only [] at h ⊢
      split
      · exact RInv_done ns ev 3 out3 k3 h ‹_›
      -- the loop
      refine RInv_finish ns ev (3 + ((lastOrder ns + 1) - 3).toNat) _ _ (forRange_induct'
        (fun m (s : K × K × K × Nat × Rows K) => RInv ns ev (3 + m) s.2.2.2.2 s.2.2.2.1 ∧ s.2.1 = ev (m+1) ∧ s.2.2.1 = ev (m+2))
        3 (lastOrder ns + 1) _ _ ?_ ?_).1 ?_
      · exact ⟨h, by simp [hev, hermiteHe_one], P2⟩
      · rintro m s ⟨hs, h1, h2⟩
        have e : x * s.2.2.1 - (((3 + (m:ℤ) : ℤ) : K) - 1) * s.2.1 = ev (m+3) := by
          rw [h1, h2]; simp only [hev]; rw [hermiteHe_succ_succ (m+1)]; push_cast; ring
        have hi : (3 + (m:ℤ)).toNat = 3 + m := by omega
        have e' : x * s.2.2.1 - (((3 + (m:ℤ) : ℤ) : K) - 1) * s.2.1 = ev (3+m) := by rw [e]; congr 1; omega
        have hs' := RInv_step ns hpw ev (3+m) _ _ _ e' hs
        simp only [hi]
        exact ⟨hs', h2, e⟩
      · intro a ha
        have := le_lastOrder ns hpw a ha
        omega)

/-- the statement-by-statement translation of `hermite_H_seq` (running index, conditional row writes, early returns,
    loop) returns `ns.map` of the model's single-order value for EVERY non-empty strictly ascending `ns` -/
theorem gen_hermiteHSeq (ns : List Nat) (hne : ns ≠ []) (hpw : ns.Pairwise (· < ·)) (x : K) :
    Generated.C08.hermiteHSeq ns x = some (ns.map fun n => hermiteH n x) := by
  first
  | (show Model.C08.sweep _ _ = _; rw [C08L.sweep_eq_map _ ns hne hpw]; simp [hRec_eval])
  | (
      unfold Generated.C08.hermiteHSeq
      simp only [ofInt_eq, Int.cast_one, Int.cast_zero, Int.cast_ofNat]
      set ev : Nat → K := fun n => hermiteH n x with hev
      have h := RInv_step ns hpw ev 0 _ _ (1:K) (by simp [hev, hermiteH_zero]) (RInv_zero ns ev)
      generalize hst : (ite (ns[0]? = some 0) _ _ : Rows K × Nat) = st at h ⊢
      obtain ⟨out1, k1⟩ := st
      simp only [] at h ⊢
      split
      · exact RInv_done ns ev 1 out1 k1 h ‹_›
      have h := RInv_step ns hpw ev 1 _ _ (2 * x) (by simp [hev, hermiteH_one]) h
      generalize hst : (ite (ns[k1]? = some 1) _ _ : Rows K × Nat) = st at h ⊢
      obtain ⟨out2, k2⟩ := st
      simp only [] at h ⊢
      split
      · exact RInv_done ns ev 2 out2 k2 h ‹_›
      have P2 : 4 * (x * x) - 2 = ev 2 := by
        simp [hev, hermiteH_succ_succ, hermiteH_one, hermiteH_zero]; ring
      have h := RInv_step ns hpw ev 2 _ _ (4 * (x * x) - 2) P2 h
      generalize hst : (ite (ns[k2]? = some 2) _ _ : Rows K × Nat) = st at h ⊢
      obtain ⟨out3, k3⟩ := st
      simp only [] at h ⊢
      split
      · exact RInv_done ns ev 3 out3 k3 h ‹_›
      refine RInv_finish ns ev (3 + ((lastOrder ns + 1) - 3).toNat) _ _ (forRange_induct'
        (fun m (s : K × K × K × Nat × Rows K) => RInv ns ev (3 + m) s.2.2.2.2 s.2.2.2.1 ∧ s.2.1 = ev (m+1) ∧ s.2.2.1 = ev (m+2))
        3 (lastOrder ns + 1) _ _ ?_ ?_).1 ?_
      · exact ⟨h, by simp [hev, hermiteH_one], P2⟩
      · rintro m s ⟨hs, h1, h2⟩
        have e : 2 * x * s.2.2.1 - (2 * (((3 + (m:ℤ) : ℤ) : K) - 1)) * s.2.1 = ev (3+m) := by
          rw [h1, h2, show 3 + m = (m+1) + 2 by omega]; simp only [hev]; rw [hermiteH_succ_succ (m+1)]; push_cast; ring
        have hi : (3 + (m:ℤ)).toNat = 3 + m := by omega
        have hs' := RInv_step ns hpw ev (3+m) _ _ _ e hs
        simp only [hi]
        exact ⟨hs', h2, by rw [e]; congr 1; omega⟩
      · intro a ha
        have := le_lastOrder ns hpw a ha
        omega)

/-- the statement-by-statement translation of `hermite_He_der_seq` (running index, conditional row writes, early returns,
    loop) returns `ns.map` of the model's single-order value for EVERY non-empty strictly ascending `ns` -/
theorem gen_hermiteHeDerSeq (ns : List Nat) (hne : ns ≠ []) (hpw : ns.Pairwise (· < ·)) (x : K) :
    Generated.C08.hermiteHeDerSeq ns x = some (ns.map fun n => hermiteHeDer n x) := by
  first
  | (show Model.C08.sweep _ _ = _; rw [C08L.sweep_eq_map _ ns hne hpw]; simp [heDerRec_eval])
  | (
      unfold Generated.C08.hermiteHeDerSeq
      simp only [ofInt_eq, Int.cast_one, Int.cast_zero, Int.cast_ofNat]
      set ev : Nat → K := fun n => hermiteHeDer n x with hev
      have ev_succ : ∀ k, ev (k+1) = ((k:K) + 1) * hermiteHe k x := by intro k; simp [hev, hermiteHeDer]
      have h := RInv_step ns hpw ev 0 _ _ (0:K) (by simp [hev, hermiteHeDer]) (RInv_zero ns ev)
      generalize hst : (ite (ns[0]? = some 0) _ _ : Rows K × Nat) = st at h ⊢
      obtain ⟨out1, k1⟩ := st
      simp only [] at h ⊢
      split
      · exact RInv_done ns ev 1 out1 k1 h ‹_›
      have h := RInv_step ns hpw ev 1 _ _ (1:K) (by rw [ev_succ]; simp [hermiteHe_zero]) h
      generalize hst : (ite (ns[k1]? = some 1) _ _ : Rows K × Nat) = st at h ⊢
      obtain ⟨out2, k2⟩ := st
      simp only [] at h ⊢
      split
      · exact RInv_done ns ev 2 out2 k2 h ‹_›
      have h := RInv_step ns hpw ev 2 _ _ (2 * x) (by rw [ev_succ, hermiteHe_one]; push_cast; ring) h
      generalize hst : (ite (ns[k2]? = some 2) _ _ : Rows K × Nat) = st at h ⊢
      obtain ⟨out3, k3⟩ := st
      simp only [] at h ⊢
      split
      · exact RInv_done ns ev 3 out3 k3 h ‹_›
      have P2 : x * x - 1 = hermiteHe 2 x := by simp [hermiteHe_succ_succ, hermiteHe_one, hermiteHe_zero]
      refine RInv_finish ns ev (3 + ((lastOrder ns + 1) - 3).toNat) _ _ (forRange_induct'
        (fun m (s : K × Nat × K × K × Rows K) => RInv ns ev (3 + m) s.2.2.2.2 s.2.1 ∧ s.2.2.1 = hermiteHe (m+1) x
          ∧ s.2.2.2.1 = hermiteHe (m+2) x)
        3 (lastOrder ns + 1) _ _ ?_ ?_).1 ?_
      · exact ⟨h, by simp [hermiteHe_one], P2⟩
      · rintro m s ⟨hs, h1, h2⟩
        have e : x * s.2.2.2.1 - (((3 + (m:ℤ) : ℤ) : K) - 1) * s.2.2.1 = hermiteHe (m+3) x := by
          rw [h1, h2, hermiteHe_succ_succ (m+1)]; push_cast; ring
        have ee : ((3 + (m:ℤ) : ℤ) : K) * s.2.2.2.1 = ev (3+m) := by
          rw [show 3 + m = (m+2) + 1 by omega, ev_succ, h2]; push_cast; ring
        have hi : (3 + (m:ℤ)).toNat = 3 + m := by omega
        have hs' := RInv_step ns hpw ev (3+m) _ _ _ ee hs
        simp only [hi]
        exact ⟨hs', h2, e⟩
      · intro a ha
        have := le_lastOrder ns hpw a ha
        omega)

/-- the statement-by-statement translation of `hermite_H_der_seq` (running index, conditional row writes, early returns,
    loop) returns `ns.map` of the model's single-order value for EVERY non-empty strictly ascending `ns` -/
theorem gen_hermiteHDerSeq (ns : List Nat) (hne : ns ≠ []) (hpw : ns.Pairwise (· < ·)) (x : K) :
    Generated.C08.hermiteHDerSeq ns x = some (ns.map fun n => hermiteHDer n x) := by
  first
  | (show Model.C08.sweep _ _ = _; rw [C08L.sweep_eq_map _ ns hne hpw]; simp [hDerRec_eval])
  | (
      unfold Generated.C08.hermiteHDerSeq
      simp only [ofInt_eq, Int.cast_one, Int.cast_zero, Int.cast_ofNat]
      set ev : Nat → K := fun n => hermiteHDer n x with hev
      have ev_succ : ∀ k, ev (k+1) = 2 * ((k:K) + 1) * hermiteH k x := by intro k; simp [hev, hermiteHDer]
      have h := RInv_step ns hpw ev 0 _ _ (0:K) (by simp [hev, hermiteHDer]) (RInv_zero ns ev)
      generalize hst : (ite (ns[0]? = some 0) _ _ : Rows K × Nat) = st at h ⊢
      obtain ⟨out1, k1⟩ := st
      simp only [] at h ⊢
      split
      · exact RInv_done ns ev 1 out1 k1 h ‹_›
      have h := RInv_step ns hpw ev 1 _ _ (2:K) (by rw [ev_succ]; simp [hermiteH_zero]) h
      generalize hst : (ite (ns[k1]? = some 1) _ _ : Rows K × Nat) = st at h ⊢
      obtain ⟨out2, k2⟩ := st
      simp only [] at h ⊢
      split
      · exact RInv_done ns ev 2 out2 k2 h ‹_›
      have h := RInv_step ns hpw ev 2 _ _ (4 * (2 * x)) (by rw [ev_succ, hermiteH_one]; push_cast; ring) h
      generalize hst : (ite (ns[k2]? = some 2) _ _ : Rows K × Nat) = st at h ⊢
      obtain ⟨out3, k3⟩ := st
      simp only [] at h ⊢
      split
      · exact RInv_done ns ev 3 out3 k3 h ‹_›
      have P2 : 4 * (x * x) - 2 = hermiteH 2 x := by
        simp [hermiteH_succ_succ, hermiteH_one, hermiteH_zero]; ring
      refine RInv_finish ns ev (3 + ((lastOrder ns + 1) - 3).toNat) _ _ (forRange_induct'
        (fun m (s : K × Nat × K × K × Rows K) => RInv ns ev (3 + m) s.2.2.2.2 s.2.1 ∧ s.2.2.1 = hermiteH (m+1) x
          ∧ s.2.2.2.1 = hermiteH (m+2) x)
        3 (lastOrder ns + 1) _ _ ?_ ?_).1 ?_
      · exact ⟨h, by simp [hermiteH_one], P2⟩
      · rintro m s ⟨hs, h1, h2⟩
        have e : 2 * x * s.2.2.2.1 - (2 * (((3 + (m:ℤ) : ℤ) : K) - 1)) * s.2.2.1 = hermiteH (m+3) x := by
          rw [h1, h2, hermiteH_succ_succ (m+1)]; push_cast; ring
        have ee : 2 * ((3 + (m:ℤ) : ℤ) : K) * s.2.2.2.1 = ev (3+m) := by
          rw [show 3 + m = (m+2) + 1 by omega, ev_succ, h2]; push_cast; ring
        have hi : (3 + (m:ℤ)).toNat = 3 + m := by omega
        have hs' := RInv_step ns hpw ev (3+m) _ _ _ ee hs
        simp only [hi]
        exact ⟨hs', h2, e⟩
      · intro a ha
        have := le_lastOrder ns hpw a ha
        omega)

/-- the statement-by-statement translation of `laguerre_seq` (running index, conditional row writes, early returns,
    loop) returns `ns.map` of the model's single-order value for EVERY non-empty strictly ascending `ns` -/
theorem gen_laguerreSeq (ns : List Nat) (hne : ns ≠ []) (hpw : ns.Pairwise (· < ·)) (al x : K) :
    Generated.C08.laguerreSeq ns al x = some (ns.map fun n => laguerre n al x) := by
  first
  | (show Model.C08.sweep _ _ = _; rw [C08L.sweep_eq_map _ ns hne hpw]; simp [lagRec_eval])
  | (
      unfold Generated.C08.laguerreSeq
      simp only [ofInt_eq, ofFrac_eq, Int.cast_one, Int.cast_zero, Int.cast_ofNat, Nat.cast_ofNat]
      set ev : Nat → K := fun n => laguerre n al x with hev
      have h := RInv_step ns hpw ev 0 _ _ (1:K) (by simp [hev, laguerre_zero]) (RInv_zero ns ev)
      generalize hst : (ite (ns[0]? = some 0) _ _ : Rows K × Nat) = st at h ⊢
      obtain ⟨out1, k1⟩ := st
      simp only [] at h ⊢
      split
      · exact RInv_done ns ev 1 out1 k1 h ‹_›
      have h := RInv_step ns hpw ev 1 _ _ (al + 1 - x) (by simp [hev, laguerre_one]) h
      generalize hst : (ite (ns[k1]? = some 1) _ _ : Rows K × Nat) = st at h ⊢
      obtain ⟨out2, k2⟩ := st
      simp only [] at h ⊢
      split
      · exact RInv_done ns ev 2 out2 k2 h ‹_›
      have P2 : (1:K) / 2 * ((al + 3 - x) * (al + 1 - x) - (al + 1) * 1) = ev 2 := by
        simp only [hev]; rw [laguerre_succ_succ, laguerre_one, laguerre_zero]; simp; ring
      have h := RInv_step ns hpw ev 2 _ _ _ P2 h
      generalize hst : (ite (ns[k2]? = some 2) _ _ : Rows K × Nat) = st at h ⊢
      obtain ⟨out3, k3⟩ := st
      simp only [] at h ⊢
      split
      · exact RInv_done ns ev 3 out3 k3 h ‹_›
      refine RInv_finish ns ev (3 + ((lastOrder ns + 1) - 3).toNat) _ _ (forRange_induct'
        (fun m (s : K × K × K × K × K × K × Nat × Rows K) => RInv ns ev (3 + m) s.2.2.2.2.2.2.2 s.2.2.2.2.2.2.1
          ∧ s.2.2.2.2.1 = ev (m+2) ∧ s.2.2.2.2.2.1 = ev (m+1))
        3 (lastOrder ns + 1) _ _ ?_ ?_).1 ?_
      · exact ⟨h, P2, by simp [hev, laguerre_one]⟩
      · rintro m s ⟨hs, h1, h2⟩
        have e : 1 / ((((3 + (m:ℤ) : ℤ) : K) - 1) + 1) * ((al + 2 * (((3 + (m:ℤ) : ℤ) : K) - 1) + 1 - x) * s.2.2.2.2.1
            - (al + (((3 + (m:ℤ) : ℤ) : K) - 1)) * s.2.2.2.2.2.1) = ev (3+m) := by
          rw [h1, h2, show 3 + m = (m+1) + 2 by omega]; simp only [hev]; rw [laguerre_succ_succ (m+1)]; push_cast; ring
        have hi : (3 + (m:ℤ)).toNat = 3 + m := by omega
        have hs' := RInv_step ns hpw ev (3+m) _ _ _ e hs
        simp only [hi]
        exact ⟨hs', by rw [e]; congr 1; omega, h1⟩
      · intro a ha
        have := le_lastOrder ns hpw a ha
        omega)

/-- the shared body of `dickson1_seq` / `dickson2_seq` (they differ only in `P_0`), as translated, returns `ns.map D_n` -/
theorem gen_dicksonSeq_aux (p0 : K) (ns : List Nat) (hpw : ns.Pairwise (· < ·)) (al x : K)
    (F : List Nat → K → K → Option (List K))
    (hF : F ns al x = (
      let min_i_ : Nat := 0
      let j_ : Nat := 0
      let out_ : Rows K := emptyRows ns.length
      let st : Rows K × Nat × Nat := if ns[min_i_]? = some 0 then (setRow out_ j_ p0, min_i_ + 1, j_ + 1) else (out_, min_i_, j_)
      if st.2.1 = ns.length then finishRows st.1 else
      let st2 : Rows K × Nat × Nat := if ns[st.2.1]? = some 1 then (setRow st.1 st.2.2 x, st.2.1 + 1, st.2.2 + 1) else (st.1, st.2.1, st.2.2)
      if st2.2.1 = ns.length then finishRows st2.1 else
      finishRows (Model.C07.forRange (2 : Int) (lastOrder ns + 1) (fun (i : Int) (s : K × K × K × Nat × Nat × Rows K) =>
        ((x * s.2.1) - (al * s.2.2.1), (x * s.2.1) - (al * s.2.2.1), s.2.1,
          (if ns[s.2.2.2.1]? = some (Int.toNat i) then (setRow s.2.2.2.2.2 s.2.2.2.2.1 ((x * s.2.1) - (al * s.2.2.1)), s.2.2.2.1 + 1, s.2.2.2.2.1 + 1)
            else (s.2.2.2.2.2, s.2.2.2.1, s.2.2.2.2.1)).2.1,
          (if ns[s.2.2.2.1]? = some (Int.toNat i) then (setRow s.2.2.2.2.2 s.2.2.2.2.1 ((x * s.2.1) - (al * s.2.2.1)), s.2.2.2.1 + 1, s.2.2.2.2.1 + 1)
            else (s.2.2.2.2.2, s.2.2.2.1, s.2.2.2.2.1)).2.2,
          (if ns[s.2.2.2.1]? = some (Int.toNat i) then (setRow s.2.2.2.2.2 s.2.2.2.2.1 ((x * s.2.1) - (al * s.2.2.1)), s.2.2.2.1 + 1, s.2.2.2.2.1 + 1)
            else (s.2.2.2.2.2, s.2.2.2.1, s.2.2.2.2.1)).1))
        ((0:K), x, p0, st2.2.1, st2.2.2, st2.1)).2.2.2.2.2)) :
    F ns al x = some (ns.map fun n => (dickPair p0 al x n).1) := by
  rw [hF]
  simp only []
  set ev : Nat → K := fun n => (dickPair p0 al x n).1 with hev
  have h := RInv_step3 ns hpw ev 0 _ _ p0 (by simp [hev, dickPair]) (RInv_zero ns ev)
  generalize hst : (ite (ns[0]? = some 0) _ _ : Rows K × Nat × Nat) = st at h ⊢
  obtain ⟨out1, k1, j1⟩ := st
  simp only [] at h ⊢
  obtain ⟨h, rfl⟩ := h
  split
  · exact RInv_done ns ev 1 out1 j1 h ‹_›
  have h := RInv_step3 ns hpw ev 1 _ _ x (by simp [hev, dickPair]) h
  generalize hst : (ite (ns[j1]? = some 1) _ _ : Rows K × Nat × Nat) = st at h ⊢
  obtain ⟨out2, k2, j2⟩ := st
  simp only [] at h ⊢
  obtain ⟨h, rfl⟩ := h
  split
  · exact RInv_done ns ev 2 out2 j2 h ‹_›
  refine RInv_finish ns ev (2 + ((lastOrder ns + 1) - 2).toNat) _ _ (forRange_induct'
    (fun m (s : K × K × K × Nat × Nat × Rows K) => RInv ns ev (2 + m) s.2.2.2.2.2 s.2.2.2.1 ∧ s.2.2.2.2.1 = s.2.2.2.1
      ∧ s.2.1 = ev (m+1) ∧ s.2.2.1 = ev m)
    2 (lastOrder ns + 1) _ _ ?_ ?_).1 ?_
  · exact ⟨h, rfl, by simp [hev, dickPair], by simp [hev, dickPair]⟩
  · rintro m ⟨a, b, c, k, j, o⟩ ⟨hs, hj, h1, h2⟩
    simp only [] at hs hj h1 h2 ⊢
    subst hj
    have e : x * b - al * c = ev (2+m) := by
      rw [h1, h2, show 2 + m = m + 2 by omega]; simp only [hev]; rw [dickPair_succ_succ]
    have hi : (2 + (m:ℤ)).toNat = 2 + m := by omega
    have hs' := RInv_step3 ns hpw ev (2+m) _ _ _ e hs
    simp only [hi]
    exact ⟨hs'.1, hs'.2, by rw [e]; congr 1; omega, h1⟩
  · intro a ha
    have := le_lastOrder ns hpw a ha
    omega

/-- the statement-by-statement translation of `dickson1_seq` (running index, conditional row writes, early returns,
    loop) returns `ns.map` of the model's single-order value for EVERY non-empty strictly ascending `ns` -/
theorem gen_dickson1Seq (ns : List Nat) (hne : ns ≠ []) (hpw : ns.Pairwise (· < ·)) (al x : K) :
    Generated.C08.dickson1Seq ns al x = some (ns.map fun n => dickson1 n al x) := by
  first
  | (show Model.C08.sweep _ _ = _; rw [C08L.sweep_eq_map _ ns hne hpw]; congr 1; apply List.map_congr_left; intro a _; simpa using dickRec_eval1 al x a)
  | (
      have := gen_dicksonSeq_aux (2:K) ns hpw al x Generated.C08.dickson1Seq (by
        unfold Generated.C08.dickson1Seq
        simp only [ofInt_eq, Int.cast_one, Int.cast_zero, Int.cast_ofNat])
      simpa [dickson1] using this)

/-- the statement-by-statement translation of `dickson2_seq` (running index, conditional row writes, early returns,
    loop) returns `ns.map` of the model's single-order value for EVERY non-empty strictly ascending `ns` -/
theorem gen_dickson2Seq (ns : List Nat) (hne : ns ≠ []) (hpw : ns.Pairwise (· < ·)) (al x : K) :
    Generated.C08.dickson2Seq ns al x = some (ns.map fun n => dickson2 n al x) := by
  first
  | (show Model.C08.sweep _ _ = _; rw [C08L.sweep_eq_map _ ns hne hpw]; congr 1; apply List.map_congr_left; intro a _; simpa using dickRec_eval2 al x a)
  | (
      have := gen_dicksonSeq_aux (1:K) ns hpw al x Generated.C08.dickson2Seq (by
        unfold Generated.C08.dickson2Seq
        simp only [ofInt_eq, Int.cast_one, Int.cast_zero, Int.cast_ofNat])
      simpa [dickson2] using this)

/-- the statement-by-statement translation of `jacobi_seq` (running index, conditional row writes, early returns,
    loop) returns `ns.map` of the model's single-order value for EVERY non-empty strictly ascending `ns` -/
theorem gen_jacobiSeq (ns : List Nat) (hne : ns ≠ []) (hpw : ns.Pairwise (· < ·)) (a b x : K) :
    Generated.C08.jacobiSeq ns a b x = some (ns.map fun n => jacobi n a b x) := by
  first
  | (show Model.C08.sweep _ _ = _; rw [C08L.sweep_eq_map _ ns hne hpw]; simp [jacobiRec_eval])
  | (
      unfold Generated.C08.jacobiSeq
      simp only [ofInt_eq, Int.cast_one, Int.cast_zero, Int.cast_ofNat]
      set ev : Nat → K := fun n => jacobi n a b x with hev
      have e1 : Generated.C07.abc (1:K) a b = abc 1 a b := by simpa using C07.gen_abc_nat 0 a b
      have h := RInv_step ns hpw ev 0 _ _ (1:K) (by simp [hev, jacobi_zero]) (RInv_zero ns ev)
      generalize hst : (ite (ns[0]? = some 0) _ _ : Rows K × Nat) = st at h ⊢
      obtain ⟨out1, k1⟩ := st
      simp only [] at h ⊢
      split
      · exact RInv_done ns ev 1 out1 k1 h ‹_›
      have P1 : a + 1 + (a + b + 2) * ((x - 1) / 2) = ev 1 := by simp [hev, jacobi_one, jacP1]
      have h := RInv_step ns hpw ev 1 _ _ _ P1 h
      generalize hst : (ite (ns[k1]? = some 1) _ _ : Rows K × Nat) = st at h ⊢
      obtain ⟨out2, k2⟩ := st
      simp only [] at h ⊢
      split
      · exact RInv_done ns ev 2 out2 k2 h ‹_›
      have P2 : ((Generated.C07.abc (1:K) a b).1 * x + (Generated.C07.abc (1:K) a b).2.1) * (a + 1 + (a + b + 2) * ((x - 1) / 2))
          - (Generated.C07.abc (1:K) a b).2.2 = ev 2 := by
        simp only [hev]; rw [e1, jacobi_succ_succ, jacobi_one, jacobi_zero]; simp [jacStep, jacP1]
      have h := RInv_step ns hpw ev 2 _ _ _ P2 h
      generalize hst : (ite (ns[k2]? = some 2) _ _ : Rows K × Nat) = st at h ⊢
      obtain ⟨out3, k3⟩ := st
      simp only [] at h ⊢
      split
      · exact RInv_done ns ev 3 out3 k3 h ‹_›
      refine RInv_finish ns ev (3 + ((lastOrder ns + 1) - 3).toNat) _ _ (forRange_induct'
        (fun m (s : K × K × K × K × K × K × Nat × Rows K) => RInv ns ev (3 + m) s.2.2.2.2.2.2.2 s.2.2.2.2.2.2.1
          ∧ s.2.1 = ev (m+1) ∧ s.2.2.2.2.2.1 = ev (m+2))
        3 (lastOrder ns + 1) _ _ ?_ ?_).1 ?_
      · exact ⟨h, P1, P2⟩
      · rintro m s ⟨hs, h1, h2⟩
        have hc : (((3 + (m:ℤ) : ℤ) : K) - 1) = ((m + 1 : ℕ) : K) + 1 := by push_cast; ring
        have e : ((Generated.C07.abc (((3 + (m:ℤ) : ℤ) : K) - 1) a b).1 * x + (Generated.C07.abc (((3 + (m:ℤ) : ℤ) : K) - 1) a b).2.1)
            * s.2.2.2.2.2.1 - (Generated.C07.abc (((3 + (m:ℤ) : ℤ) : K) - 1) a b).2.2 * s.2.1 = ev (3+m) := by
          rw [hc, C07.gen_abc_nat, h1, h2, show 3 + m = (m+1) + 2 by omega]; simp only [hev]
          rw [jacobi_succ_succ (m+1)]; simp [jacStep]
        have hi : (3 + (m:ℤ)).toNat = 3 + m := by omega
        have hs' := RInv_step ns hpw ev (3+m) _ _ _ e hs
        simp only [hi]
        exact ⟨hs', h2, by rw [e]; congr 1; omega⟩
      · intro a ha
        have := le_lastOrder ns hpw a ha
        omega)

/-- **the code of `jacobi_seq`, `hermite_He_seq`, `hermite_H_seq`, `laguerre_seq`, `dickson1_seq`, `dickson2_seq`**: for every
    non-empty strictly ascending order list, row `i` of the translated `*_seq` body is the translated single-order
    function at `ns[i]` — sequence evaluation equals one-at-a-time evaluation, on the source-derived definitions -/
theorem seq_code_eq_map_scalar_code (ns : List Nat) (hne : ns ≠ []) (hpw : ns.Pairwise (· < ·)) (a b x : K) :
    Generated.C08.jacobiSeq ns a b x = some (ns.map fun (n : ℕ) => Generated.C07.jacobi (n:ℤ) a b x)
    ∧ Generated.C08.hermiteHeSeq ns x = some (ns.map fun (n : ℕ) => Generated.C07.hermiteHe (n:ℤ) x)
    ∧ Generated.C08.hermiteHSeq ns x = some (ns.map fun (n : ℕ) => Generated.C07.hermiteH (n:ℤ) x)
    ∧ Generated.C08.laguerreSeq ns a x = some (ns.map fun (n : ℕ) => Generated.C07.laguerre (n:ℤ) a x)
    ∧ Generated.C08.dickson1Seq ns a x = some (ns.map fun (n : ℕ) => Generated.C07.dickson1 (n:ℤ) a x)
    ∧ Generated.C08.dickson2Seq ns a x = some (ns.map fun (n : ℕ) => Generated.C07.dickson2 (n:ℤ) a x) := by
  refine ⟨?_, ?_, ?_, ?_, ?_, ?_⟩
  · rw [gen_jacobiSeq ns hne hpw]; simp [C07.gen_jacobi]
  · rw [gen_hermiteHeSeq ns hne hpw]; simp [C07.gen_hermiteHe]
  · rw [gen_hermiteHSeq ns hne hpw]; simp [C07.gen_hermiteH]
  · rw [gen_laguerreSeq ns hne hpw]; simp [C07.gen_laguerre]
  · rw [gen_dickson1Seq ns hne hpw]; simp [C07.gen_dickson1]
  · rw [gen_dickson2Seq ns hne hpw]; simp [C07.gen_dickson2]

end translated_seq

/-! ## non-vacuity -/
example : ([1, 3, 4, 9] : List Nat) ≠ [] ∧ ([1, 3, 4, 9] : List Nat).Pairwise (· < ·) := by decide
example : sweep (heRec (2 : Rat)) [1, 3] = some [2, 2] := by decide +kernel
example : bcShape [3, 4, 5] (goodCsShape 3 2) = some [3, 4, 5] := by decide
example : bcShape [3, 4, 5] [3, 1] = none := by decide

end C08
