import PrysmVerif.Generated.C05
import PrysmVerif.Lemmas.C05Fourier
import PrysmVerif.Lemmas.C05Instance
import PrysmVerif.Lemmas.C03Exec
import Mathlib.Tactic.NormNum
/-!
# C05 — fixed-sampling results depend on the physical field, not its array embedding

Scalars in an arbitrary field; the Fourier kernel is an arbitrary character `e : R → V` (read `e t = exp(-2πi t)`).
The transform model is `Model.C03.mdft2 / fixedSampling` (per-axis constants, shift subtracted from both coordinate
vectors, separable), the mask path is `Model.C05.maskAndBack / toFpmAndBack`.  Theorems whose subject lives in
`Generated.C05` are re-checked against the current source of `to_fpm_and_back` on every run.
-/
set_option linter.unusedTactic false
set_option linter.unreachableTactic false
set_option linter.unusedSectionVars false
set_option linter.unusedVariables false
set_option linter.unusedSimpArgs false

open C03Lemmas
open scoped C01
namespace C05
open Generated.C05

section scalar
variable {K : Type} [Field K] [DecidableEq K]

/-! ## translated obligations -/

/-- forward leg of `to_fpm_and_back`: per-axis `Q` from the pupil shape and `dx`, towards spacing `fpm_dx`; the mask
shape is the number of output samples; shift in mask samples -/
theorem gen_fwd_leg (s0 s1 M0 M1 dx efl lam fdx sh0 sh1 : K) :
    fpmFwdQ0 s0 s1 M0 M1 dx efl lam fdx sh0 sh1 = Model.C03.axisQ s0 dx efl lam fdx ∧
    fpmFwdQ1 s0 s1 M0 M1 dx efl lam fdx sh0 sh1 = Model.C03.axisQ s1 dx efl lam fdx ∧
    fpmFwdShift0 s0 s1 M0 M1 dx efl lam fdx sh0 sh1 = Model.C03.shiftSamples sh0 fdx ∧
    fpmFwdShift1 s0 s1 M0 M1 dx efl lam fdx sh0 sh1 = Model.C03.shiftSamples sh1 fdx ∧
    fpmFwdSamples0 s0 s1 M0 M1 dx efl lam fdx sh0 sh1 = M0 ∧ fpmFwdSamples1 s0 s1 M0 M1 dx efl lam fdx sh0 sh1 = M1 := by
  refine ⟨?_, ?_, ?_, ?_, ?_, ?_⟩ <;>
    simp only [fpmFwdQ0, fpmFwdQ1, fpmFwdShift0, fpmFwdShift1, fpmFwdSamples0, fpmFwdSamples1, qForSampling,
      Model.C03.axisQ, Model.C03.qForSampling, Model.C03.shiftSamples, ofInt_eq, Int.cast_zero] <;>
    first
      | ring1
      | (split_ifs with h
         · ring1
         · obtain ⟨h1, h2⟩ := not_or.mp h
           rw [not_not] at h1 h2
           first
             | linear_combination (1 - 1 / fdx) * h1
             | linear_combination (1 - 1 / fdx) * h2)

/-- return leg: per-axis `Q` from the MASK shape and `fpm_dx`, towards the pupil spacing `dx`; output samples = pupil
shape; the shift it finally hands to the transform is the hand model's `fpmBackShift` -/
theorem gen_back_leg (s0 s1 M0 M1 dx efl lam fdx sh0 sh1 : K) :
    fpmBackQ0 s0 s1 M0 M1 dx efl lam fdx sh0 sh1 = Model.C03.axisQ M0 fdx efl lam dx ∧
    fpmBackQ1 s0 s1 M0 M1 dx efl lam fdx sh0 sh1 = Model.C03.axisQ M1 fdx efl lam dx ∧
    fpmBackShift0 s0 s1 M0 M1 dx efl lam fdx sh0 sh1 = Model.C03.fpmBackShift sh0 dx fdx ∧
    fpmBackShift1 s0 s1 M0 M1 dx efl lam fdx sh0 sh1 = Model.C03.fpmBackShift sh1 dx fdx ∧
    fpmBackSamples0 s0 s1 M0 M1 dx efl lam fdx sh0 sh1 = s0 ∧ fpmBackSamples1 s0 s1 M0 M1 dx efl lam fdx sh0 sh1 = s1 := by
  -- semantic, not syntactic: whatever spelling the source uses, in the taken branch both sides are ring-equal, in the
  -- skipped branch the (possibly re-spelled) shift is zero and both sides vanish
  refine ⟨?_, ?_, ?_, ?_, ?_, ?_⟩ <;>
    simp only [fpmBackQ0, fpmBackQ1, fpmBackShift0, fpmBackShift1, fpmBackSamples0, fpmBackSamples1, qForSampling,
      Model.C03.axisQ, Model.C03.qForSampling, Model.C03.shiftSamples, Model.C03.fpmBackShift, Model.C03.fpmBackShiftArg,
      ofInt_eq, Int.cast_zero] <;>
    first
      | ring1
      | (split_ifs with h
         · ring1
         · obtain ⟨h1, h2⟩ := not_or.mp h
           rw [not_not] at h1 h2
           first
             | linear_combination (1 - 1 / dx) * h1
             | linear_combination (1 - 1 / dx) * h2)

/-- recognisers (AST facts; an unrecognised shape is reported as TIE-DEGRADED and widens the correspondence, a recognised wrong
one makes this fail): the mask enters as a plain element-wise product of the focal field and that product is what travels back;
`return_more` hands back (next pupil, at fpm, after fpm) in this order; a mask given as a Wavefront is unwrapped and leads to
EXACTLY the leg arguments of the array case (symbolic execution of both branches); the `Wavefront` wrapper passes its
attributes to the matching parameters and labels the returned planes with the pupil's dx / space, resp. `fpm_dx` / 'psf';
`babinet` is `field - return(1 - fpm)` -/
theorem gen_recognisers : fpmMaskIsPlainProduct = true ∧ fpmReturnMoreIsBackAtAfter = true ∧ fpmWavefrontMaskSameLegs = true ∧
    wavefrontFpmWrapperPassesThrough = true ∧ babinetIsFieldMinusReturnOfComplement = true := by decide

/-- no in-place operation on a caller-owned array-like argument (field, mask, Lyot stop, shift, sample counts) or on a name
that may alias one, in `to_fpm_and_back`, its `Wavefront` method, `babinet` and the two legs (AST scan, re-done every run) -/
theorem gen_no_inplace_on_arguments :
    fpmNoInPlaceOnArguments = true ∧ fpmWrapNoInPlaceOnArguments = true ∧ babinetNoInPlaceOnArguments = true ∧
    ffsNoInPlaceOnArguments = true ∧ ufsNoInPlaceOnArguments = true := by decide

/-- no entry point that shares the executor caches with the fixed-sampling routes — `dft2`, `idft2`, `czt2`, `iczt2` and the
gradient entry points `dft2_backprop`, `idft2_backprop` (`czt2_backprop` / `iczt2_backprop` where they exist) — applies an in-place
NumPy operation (augmented assignment, item assignment, `out=`, mutating method) to an object read from a cache (`self.Eout[key]`,
`self.Ein[key]`, `self.components[key]`) or to a view / alias of one: a forward result does not depend on which calls, forward or
backprop, came before it (AST scan of the current source, re-done every run; the call-history family executes the claim) -/
theorem gen_no_inplace_on_caches :
    mdftDft2NoInPlaceOnCache = true ∧ mdftIdft2NoInPlaceOnCache = true ∧ mdftDft2BackpropNoInPlaceOnCache = true ∧
    mdftIdft2BackpropNoInPlaceOnCache = true ∧ cztCzt2NoInPlaceOnCache = true ∧ cztIczt2NoInPlaceOnCache = true ∧
    cztCzt2BackpropNoInPlaceOnCache = true ∧ cztIczt2BackpropNoInPlaceOnCache = true := by decide

/-- the per-axis `Q` of both free functions as re-read by THIS check (each axis from its own sample count) -/
theorem gen_fixed_Q (s0 s1 M0 M1 dx z lam dxo sh0 sh1 : K) :
    ffsQ0 s0 s1 M0 M1 dx z lam dxo sh0 sh1 = Model.C03.axisQ s0 dx z lam dxo ∧
    ffsQ1 s0 s1 M0 M1 dx z lam dxo sh0 sh1 = Model.C03.axisQ s1 dx z lam dxo ∧
    ufsQ0 s0 s1 M0 M1 dx z lam dxo sh0 sh1 = Model.C03.axisQ s0 dx z lam dxo ∧
    ufsQ1 s0 s1 M0 M1 dx z lam dxo sh0 sh1 = Model.C03.axisQ s1 dx z lam dxo := by
  refine ⟨?_, ?_, ?_, ?_⟩ <;>
    simp only [ffsQ0, ffsQ1, ufsQ0, ufsQ1, qForSampling, Model.C03.axisQ, Model.C03.qForSampling] <;> (try ring)

/-! ## the property -/

/-- the return leg undoes the SAME shift, measured in focal-plane (mask) samples: `shift / fpm_dx` on both legs -/
theorem fpm_back_shift_eq_fwd (s0 s1 M0 M1 dx efl lam fdx sh0 sh1 : K) (hdx : dx ≠ 0) :
    fpmBackShift0 s0 s1 M0 M1 dx efl lam fdx sh0 sh1 = sh0 / fdx ∧ fpmBackShift1 s0 s1 M0 M1 dx efl lam fdx sh0 sh1 = sh1 / fdx ∧
    fpmFwdShift0 s0 s1 M0 M1 dx efl lam fdx sh0 sh1 = sh0 / fdx ∧ fpmFwdShift1 s0 s1 M0 M1 dx efl lam fdx sh0 sh1 = sh1 / fdx := by
  have hb := gen_back_leg s0 s1 M0 M1 dx efl lam fdx sh0 sh1
  have hf := gen_fwd_leg s0 s1 M0 M1 dx efl lam fdx sh0 sh1
  refine ⟨?_, ?_, hf.2.2.1, hf.2.2.2.1⟩
  · rw [hb.2.2.1]; simp only [Model.C03.fpmBackShift, Model.C03.fpmBackShiftArg, Model.C03.shiftSamples]; field_simp
  · rw [hb.2.2.2.1]; simp only [Model.C03.fpmBackShift, Model.C03.fpmBackShiftArg, Model.C03.shiftSamples]; field_simp

/-- both legs use the same kernel constant on each axis, `1/(n_a Q_a) = dx·fpm_dx/(λ f)`, whatever the pupil shape
and the mask shape — so `n_a·Q_a` is invariant under zero-padding of either array -/
theorem fpm_legs_same_alpha (s0 s1 M0 M1 dx efl lam fdx sh0 sh1 : K) (h0 : s0 ≠ 0) (h1 : s1 ≠ 0) (hM0 : M0 ≠ 0)
    (hM1 : M1 ≠ 0) (hdx : dx ≠ 0) (hf : efl ≠ 0) (hl : lam ≠ 0) (hd : fdx ≠ 0) :
    1 / (s0 * fpmFwdQ0 s0 s1 M0 M1 dx efl lam fdx sh0 sh1) = dx * fdx / (lam * efl) ∧
    1 / (s1 * fpmFwdQ1 s0 s1 M0 M1 dx efl lam fdx sh0 sh1) = dx * fdx / (lam * efl) ∧
    1 / (M0 * fpmBackQ0 s0 s1 M0 M1 dx efl lam fdx sh0 sh1) = dx * fdx / (lam * efl) ∧
    1 / (M1 * fpmBackQ1 s0 s1 M0 M1 dx efl lam fdx sh0 sh1) = dx * fdx / (lam * efl) := by
  have hb := gen_back_leg s0 s1 M0 M1 dx efl lam fdx sh0 sh1
  have hf' := gen_fwd_leg s0 s1 M0 M1 dx efl lam fdx sh0 sh1
  rw [hf'.1, hf'.2.1, hb.1, hb.2.1]
  refine ⟨?_, ?_, ?_, ?_⟩ <;> simp only [Model.C03.axisQ, Model.C03.qForSampling] <;> field_simp

/-- pad invariance of `n·Q` over the GENERATED `Q`s: embedding the input in a larger array (`s ↦ s'` on either axis) leaves the
kernel constant `1/(n_a Q_a)` of that axis unchanged, for focusing and un-focusing -/
theorem generated_alpha_pad_invariant (s0 s1 s0' s1' M0 M1 dx z lam dxo sh0 sh1 : K) (h0 : s0 ≠ 0) (h1 : s1 ≠ 0)
    (h0' : s0' ≠ 0) (h1' : s1' ≠ 0) (hdx : dx ≠ 0) (hz : z ≠ 0) (hl : lam ≠ 0) (hd : dxo ≠ 0) :
    1 / (s0' * ffsQ0 s0' s1' M0 M1 dx z lam dxo sh0 sh1) = 1 / (s0 * ffsQ0 s0 s1 M0 M1 dx z lam dxo sh0 sh1) ∧
    1 / (s1' * ffsQ1 s0' s1' M0 M1 dx z lam dxo sh0 sh1) = 1 / (s1 * ffsQ1 s0 s1 M0 M1 dx z lam dxo sh0 sh1) ∧
    1 / (s0' * ufsQ0 s0' s1' M0 M1 dx z lam dxo sh0 sh1) = 1 / (s0 * ufsQ0 s0 s1 M0 M1 dx z lam dxo sh0 sh1) ∧
    1 / (s1' * ufsQ1 s0' s1' M0 M1 dx z lam dxo sh0 sh1) = 1 / (s1 * ufsQ1 s0 s1 M0 M1 dx z lam dxo sh0 sh1) := by
  have a := gen_fixed_Q s0 s1 M0 M1 dx z lam dxo sh0 sh1
  have b := gen_fixed_Q s0' s1' M0 M1 dx z lam dxo sh0 sh1
  rw [a.1, a.2.1, a.2.2.1, a.2.2.2, b.1, b.2.1, b.2.2.1, b.2.2.2]
  refine ⟨?_, ?_, ?_, ?_⟩ <;> simp only [Model.C03.axisQ, Model.C03.qForSampling] <;> field_simp

/-- the hand model's kernel constant does not depend on the sample count of the axis (pad invariance of `n·Q`) -/
theorem axisAlpha_indep (s s' dx z lam dxo : K) (hs : s ≠ 0) (hs' : s' ≠ 0) (hdx : dx ≠ 0) (hz : z ≠ 0) (hl : lam ≠ 0)
    (hd : dxo ≠ 0) : Model.C03.axisAlpha s dx z lam dxo = Model.C03.axisAlpha s' dx z lam dxo := by
  simp only [Model.C03.axisAlpha, Model.C03.axisQ, Model.C03.qForSampling, ofInt_eq, Int.cast_one]; field_simp

theorem axisAlpha_eq (s dx z lam dxo : K) (hs : s ≠ 0) (hdx : dx ≠ 0) (hz : z ≠ 0) (hl : lam ≠ 0) (hd : dxo ≠ 0) :
    Model.C03.axisAlpha s dx z lam dxo = dx * dxo / (lam * z) := by
  simp only [Model.C03.axisAlpha, Model.C03.axisQ, Model.C03.qForSampling, ofInt_eq, Int.cast_one]; field_simp

end scalar

section fourier
variable {R V : Type} [Field R] [Field V] [DecidableEq R]
open Model.C03 Model.C05

/-- bridge: the mask-and-return sum fed with the GENERATED constants of both legs of `to_fpm_and_back` (per-axis `Q`, the shift
each leg finally hands to its transform; rows get `Q[0]`, `shift[1]`) is the hand model `toFpmAndBack` the theorems below
speak about -/
theorem fpm_generated_args_eq_model (e : R → V) (ofR : R →+* V) (sqrt : R → R) (m n My Mx : Nat) (dx efl lam fdx sh0 sh1 : R)
    (mask : Nat → Nat → V) (f : Nat → Nat → V) (j i : Nat) :
    maskAndBack e m n My Mx
        (1 / ((m : R) * fpmFwdQ0 (m : R) n My Mx dx efl lam fdx sh0 sh1)) (1 / ((n : R) * fpmFwdQ1 (m : R) n My Mx dx efl lam fdx sh0 sh1))
        (fpmFwdShift1 (m : R) n My Mx dx efl lam fdx sh0 sh1) (fpmFwdShift0 (m : R) n My Mx dx efl lam fdx sh0 sh1)
        (ofR (sqrt (1 / ((m : R) * fpmFwdQ0 (m : R) n My Mx dx efl lam fdx sh0 sh1)))
          * ofR (sqrt (1 / ((n : R) * fpmFwdQ1 (m : R) n My Mx dx efl lam fdx sh0 sh1))))
        (1 / ((My : R) * fpmBackQ0 (m : R) n My Mx dx efl lam fdx sh0 sh1)) (1 / ((Mx : R) * fpmBackQ1 (m : R) n My Mx dx efl lam fdx sh0 sh1))
        (fpmBackShift1 (m : R) n My Mx dx efl lam fdx sh0 sh1) (fpmBackShift0 (m : R) n My Mx dx efl lam fdx sh0 sh1)
        (ofR (sqrt (1 / ((My : R) * fpmBackQ0 (m : R) n My Mx dx efl lam fdx sh0 sh1)))
          * ofR (sqrt (1 / ((Mx : R) * fpmBackQ1 (m : R) n My Mx dx efl lam fdx sh0 sh1)))) mask f j i
      = toFpmAndBack e ofR sqrt m n My Mx dx efl lam fdx sh0 sh1 mask f j i := by
  have hf := gen_fwd_leg (m : R) n My Mx dx efl lam fdx sh0 sh1
  have hb := gen_back_leg (m : R) n My Mx dx efl lam fdx sh0 sh1
  rw [hf.1, hf.2.1, hf.2.2.1, hf.2.2.2.1, hb.1, hb.2.1, hb.2.2.1, hb.2.2.2.1]
  simp only [toFpmAndBack, axisAlpha, ofInt_eq, Int.cast_natCast, Int.cast_one, map_mul]

/-- fixed-sampling propagation is linear, every shape, `Q`, shift; `e` is any kernel, so this covers both directions, and both
methods because the chirp-Z executor computes the same model (`C03.ffs_czt_engine_eq_model`, from C01's Bluestein theorems) -/
theorem spec_linear (e : R → V) (ofR : R → V) (sqrt : R → R) (m n M N : Nat) (dx z lam dxo shx shy : R) (a b : V)
    (f g : Nat → Nat → V) (k l : Nat) :
    fixedSampling e ofR sqrt m n M N dx z lam dxo shx shy (fun j i => a * f j i + b * g j i) k l
      = a * fixedSampling e ofR sqrt m n M N dx z lam dxo shx shy f k l
        + b * fixedSampling e ofR sqrt m n M N dx z lam dxo shx shy g k l := by
  simp only [fixedSampling]
  rw [mdft2_add, mdft2_smul, mdft2_smul]

/-- zero-pad embedding invariance: embedding the field in a larger `m' × n'` array with the origin on the origin (any
parities, square or not) leaves every output sample unchanged — the per-axis constants do not depend on the sample count -/
theorem spec_pad_invariant (e : R → V) (ofR : R → V) (sqrt : R → R) (m n m' n' M N : Nat) (hm : m ≤ m') (hn : n ≤ n')
    (hm0 : 0 < m) (hn0 : 0 < n) [CharZero R]
    (dx z lam dxo shx shy : R) (hdx : dx ≠ 0) (hz : z ≠ 0) (hl : lam ≠ 0) (hd : dxo ≠ 0) (f : Nat → Nat → V) (k l : Nat) :
    fixedSampling e ofR sqrt m' n' M N dx z lam dxo shx shy (embed m n m' n' f) k l
      = fixedSampling e ofR sqrt m n M N dx z lam dxo shx shy f k l := by
  have c : ∀ a : Nat, 0 < a → ((Num.ofInt (a : Int) : R)) ≠ 0 := by
    intro a ha; simp only [ofInt_eq, Int.cast_natCast]; exact_mod_cast ha.ne'
  simp only [fixedSampling]
  rw [axisAlpha_indep (Num.ofInt (m' : Int)) (Num.ofInt (m : Int)) dx z lam dxo (c m' (by omega)) (c m hm0) hdx hz hl hd,
      axisAlpha_indep (Num.ofInt (n' : Int)) (Num.ofInt (n : Int)) dx z lam dxo (c n' (by omega)) (c n hn0) hdx hz hl hd]
  exact mdft2_embed e m n m' n' M N hm hn _ _ _ _ _ f k l

/-- transpose covariance: transposing the input and swapping the per-axis arguments (output shape, shifts) transposes
the output -/
theorem spec_transpose (e : R → V) (ofR : R → V) (sqrt : R → R) (m n M N : Nat) (dx z lam dxo shx shy : R)
    (f : Nat → Nat → V) (k l : Nat) :
    fixedSampling e ofR sqrt n m N M dx z lam dxo shy shx (fun i j => f j i) l k
      = fixedSampling e ofR sqrt m n M N dx z lam dxo shx shy f k l := by
  simp only [fixedSampling]
  rw [mul_comm (sqrt (axisAlpha (Num.ofInt (n : Int)) dx z lam dxo))]
  exact mdft2_transpose e m n M N _ _ _ _ _ f k l

/-- the same at executor level: per-axis `Q` (through `αy αx`), output counts and shifts swap with the axes -/
theorem mdft2_transpose_covariant (e : R → V) (m n M N : Nat) (αy αx sy sx : R) (norm : V) (f : Nat → Nat → V) (k l : Nat) :
    mdft2 e n m N M αx αy sx sy norm (fun i j => f j i) l k = mdft2 e m n M N αy αx sy sx norm f k l :=
  mdft2_transpose e m n M N αy αx sy sx norm f k l

/-- separability: a field `u(y)·v(x)` transforms to the product of the per-axis transforms — axis 0 sees only
`(αy, sy, M)`, axis 1 only `(αx, sx, N)` (each axis its OWN `Q` and shift) -/
theorem spec_separable (e : R → V) (m n M N : Nat) (αy αx sy sx : R) (norm : V) (u v : Nat → V) (k l : Nat) :
    mdft2 e m n M N αy αx sy sx norm (fun j i => u j * v i) k l
      = norm * (mdft1 e m M αy sy u k * mdft1 e n N αx sx v l) := by
  simp only [mdft2, mdft1_smul]
  rw [show (fun j => u j * mdft1 e n N αx sx v l) = fun j => mdft1 e n N αx sx v l * u j from funext fun j => mul_comm _ _,
    mdft1_smul]
  ring

/-- masks combine additively (Babinet): the return of `m₁ + m₂` is the sum of the returns, real or complex masks, any
mask grid and shift (a statement about the model `toFpmAndBack`, which `fpm_generated_args_eq_model` ties to the translated
constants of both legs; the method only selects the engine, and both engines compute the model's transform) -/
theorem babinet_additive (e : R → V) (ofR : R → V) (sqrt : R → R) (m n My Mx : Nat) (dx efl lam fdx shx shy : R)
    (m₁ m₂ : Nat → Nat → V) (f : Nat → Nat → V) (j i : Nat) :
    toFpmAndBack e ofR sqrt m n My Mx dx efl lam fdx shx shy (fun k l => m₁ k l + m₂ k l) f j i
      = toFpmAndBack e ofR sqrt m n My Mx dx efl lam fdx shx shy m₁ f j i
        + toFpmAndBack e ofR sqrt m n My Mx dx efl lam fdx shx shy m₂ f j i := by
  simp only [toFpmAndBack]
  exact maskAndBack_add_mask e m n My Mx _ _ _ _ _ _ _ _ _ _ m₁ m₂ f j i

/-- … and homogeneous in it for complex scalars: the path is ℂ-linear in the mask (no conjugate, no modulus) -/
theorem fpm_mask_smul (e : R → V) (ofR : R → V) (sqrt : R → R) (m n My Mx : Nat) (dx efl lam fdx shx shy : R) (c : V)
    (mask : Nat → Nat → V) (f : Nat → Nat → V) (j i : Nat) :
    toFpmAndBack e ofR sqrt m n My Mx dx efl lam fdx shx shy (fun k l => c * mask k l) f j i
      = c * toFpmAndBack e ofR sqrt m n My Mx dx efl lam fdx shx shy mask f j i := by
  simp only [toFpmAndBack, maskAndBack, mul_left_comm _ c, mdft2_smul]

/-- mask and complement sum to the unmasked (all-pass) result -/
theorem babinet_complement (e : R → V) (ofR : R → V) (sqrt : R → R) (m n My Mx : Nat) (dx efl lam fdx shx shy : R)
    (mask : Nat → Nat → V) (f : Nat → Nat → V) (j i : Nat) :
    toFpmAndBack e ofR sqrt m n My Mx dx efl lam fdx shx shy mask f j i
      + toFpmAndBack e ofR sqrt m n My Mx dx efl lam fdx shx shy (fun k l => 1 - mask k l) f j i
      = toFpmAndBack e ofR sqrt m n My Mx dx efl lam fdx shx shy (fun _ _ => 1) f j i := by
  rw [← babinet_additive]
  congr 1
  funext k l; ring

/-- the mask-and-return path is linear in the field as well -/
theorem fpm_linear_in_field (e : R → V) (ofR : R → V) (sqrt : R → R) (m n My Mx : Nat) (dx efl lam fdx shx shy : R)
    (mask : Nat → Nat → V) (f g : Nat → Nat → V) (j i : Nat) :
    toFpmAndBack e ofR sqrt m n My Mx dx efl lam fdx shx shy mask (fun a b => f a b + g a b) j i
      = toFpmAndBack e ofR sqrt m n My Mx dx efl lam fdx shx shy mask f j i
        + toFpmAndBack e ofR sqrt m n My Mx dx efl lam fdx shx shy mask g j i := by
  simp only [toFpmAndBack]
  exact maskAndBack_add_field e m n My Mx _ _ _ _ _ _ _ _ _ _ mask f g j i

/-- all-pass identity: a mask that transmits everything over the whole band (`M × M` samples with
`M·fpm_dx·dx = λ f`, `M ≥` both pupil sides) returns the field exactly, for EVERY mask shift — given a character with
root-of-unity orthogonality, `ofR` a ring homomorphism and `sqrt` a square root at `1/M` -/
theorem fpm_allpass_identity (e : R → V) (he : ∀ a b, e (a + b) = e a * e b) (he0 : e 0 = 1) (ofR : R →+* V)
    (sqrt : R → R) (m n M : Nat) (hm : m ≤ M) (hn : n ≤ M) (hm0 : 0 < m) (hn0 : 0 < n) [CharZero R] [CharZero V]
    (horth : ∀ d : ℤ, ∑ l ∈ Finset.range M, e ((d : R) * (l : R) / (M : R)) = if (M : ℤ) ∣ d then (M : V) else 0)
    (hsqrt : sqrt (1 / (M : R)) * sqrt (1 / (M : R)) = 1 / (M : R))
    (dx efl lam fdx shx shy : R) (hdx : dx ≠ 0) (hf : efl ≠ 0) (hl : lam ≠ 0) (hd : fdx ≠ 0)
    (hband : dx * fdx / (lam * efl) = 1 / (M : R))
    (f : Nat → Nat → V) (j i : Nat) (hj : j < m) (hi : i < n) :
    toFpmAndBack e ofR sqrt m n M M dx efl lam fdx shx shy (fun _ _ => 1) f j i = f j i := by
  have hM0 : 0 < M := by omega
  have c : ∀ a : Nat, 0 < a → ((Num.ofInt (a : Int) : R)) ≠ 0 := by
    intro a ha; simp only [ofInt_eq, Int.cast_natCast]; exact_mod_cast ha.ne'
  have hband' : fdx * dx / (lam * efl) = 1 / (M : R) := by rw [← hband]; ring
  have hsh : ∀ s : R, fpmBackShift s dx fdx = shiftSamples s fdx := by
    intro s; simp only [fpmBackShift, fpmBackShiftArg, shiftSamples]; field_simp
  simp only [toFpmAndBack, hsh]
  rw [axisAlpha_eq _ dx efl lam fdx (c m hm0) hdx hf hl hd, axisAlpha_eq _ dx efl lam fdx (c n hn0) hdx hf hl hd,
      axisAlpha_eq _ fdx efl lam dx (c M hM0) hd hf hl hdx, hband, hband']
  rw [maskAndBack_allpass e he he0 m n M M horth horth hm hn _ _ _ _ f j i hj hi]
  have hMV : (M : V) ≠ 0 := by exact_mod_cast hM0.ne'
  have hMR : (M : R) ≠ 0 := by exact_mod_cast hM0.ne'
  have hn2 : ofR (sqrt (1 / (M : R)) * sqrt (1 / (M : R))) = 1 / (M : V) := by
    rw [hsqrt, map_div₀, map_one, map_natCast]
  rw [hn2]
  field_simp

end fourier

/-- the all-pass identity for the actual kernel `e t = exp(-2πi t)` on `ℝ → ℂ`, `ofR` the inclusion `ℝ → ℂ` and the real
square root: no abstract hypothesis is left, so the hypotheses of `fpm_allpass_identity` are not vacuous -/
theorem fpm_allpass_identity_real (m n M : Nat) (hm : m ≤ M) (hn : n ≤ M) (hm0 : 0 < m) (hn0 : 0 < n)
    (dx efl lam fdx shx shy : ℝ) (hdx : dx ≠ 0) (hf : efl ≠ 0) (hl : lam ≠ 0) (hd : fdx ≠ 0)
    (hband : dx * fdx / (lam * efl) = 1 / (M : ℝ)) (f : Nat → Nat → ℂ) (j i : Nat) (hj : j < m) (hi : i < n) :
    Model.C05.toFpmAndBack eReal (⇑Complex.ofRealHom) Real.sqrt m n M M dx efl lam fdx shx shy (fun _ _ => 1) f j i = f j i := by
  have hM0 : 0 < M := by omega
  exact fpm_allpass_identity eReal eReal_add eReal_zero Complex.ofRealHom Real.sqrt m n M hm hn hm0 hn0
    (eReal_orth M hM0) (Real.mul_self_sqrt (by positivity)) dx efl lam fdx shx shy hdx hf hl hd hband f j i hj hi

/-- the arrays the Lean driver prints for `fs`, `ex` and `fpm` requests hold, at every index inside them, the values of
`Model.C03.fixedSampling`, `Model.C03.mdft2` and `Model.C05.toFpmAndBack` -/
theorem driver_tables_are_models {R V : Type} [Field R] [CharZero R] [Field V] [CharZero V]
    (e : R → V) (ofR : R → V) (sqrt : R → R) (m n M N : Nat) (dx z lam dxo shx shy αy αx sy sx : R) (norm : V)
    (mask f : Array (Array V)) (k l j i : Nat) (hk : k < M) (hl : l < N) (hj : j < m) (hi : i < n) :
    Model.C01.rd2 (Model.C03.Exec.fixedTableG e ofR sqrt m n M N dx z lam dxo shx shy f) k l
      = Model.C03.fixedSampling e ofR sqrt m n M N dx z lam dxo shx shy (Model.C01.rd2 f) k l ∧
    Model.C01.rd2 (Model.C03.Exec.table2G e m n M N αy αx sy sx norm f) k l
      = Model.C03.mdft2 e m n M N αy αx sy sx norm (Model.C01.rd2 f) k l ∧
    Model.C01.rd2 (Model.C03.Exec.fpmTableG e ofR sqrt m n M N dx z lam dxo shx shy mask f) j i
      = Model.C05.toFpmAndBack e ofR sqrt m n M N dx z lam dxo shx shy (Model.C01.rd2 mask) (Model.C01.rd2 f) j i :=
  ⟨fixedTableG_eq e ofR sqrt m n M N dx z lam dxo shx shy f k l hk hl, table2G_eq e m n M N αy αx sy sx norm f k l hk hl,
   fpmTableG_eq e ofR sqrt m n M N dx z lam dxo shx shy mask f j i hj hi⟩

section fpm2
variable {R V : Type} [Field R] [Field V] [DecidableEq R]
open Model.C03 Model.C05

/-- transpose covariance of the whole mask path: transposing the field AND the mask and swapping the per-axis arguments (the two
shift components; the mask grid `My × Mx` becomes `Mx × My`) transposes what `to_fpm_and_back` returns — every pupil and mask
shape, any mask sampling and shift -/
theorem fpm_transpose (e : R → V) (ofR : R → V) (sqrt : R → R) (m n My Mx : Nat) (dx efl lam fdx shx shy : R)
    (mask : Nat → Nat → V) (f : Nat → Nat → V) (j i : Nat) :
    toFpmAndBack e ofR sqrt n m Mx My dx efl lam fdx shy shx (fun l k => mask k l) (fun i j => f j i) i j
      = toFpmAndBack e ofR sqrt m n My Mx dx efl lam fdx shx shy mask f j i := by
  simp only [toFpmAndBack, maskAndBack]
  rw [mul_comm (sqrt (axisAlpha (Num.ofInt (n : Int)) dx efl lam fdx)),
    mul_comm (sqrt (axisAlpha (Num.ofInt (Mx : Int)) fdx efl lam dx))]
  rw [← mdft2_transpose (fun t => e (-t)) My Mx m n _ _ _ _ _ _ j i]
  congr 1
  funext l k
  rw [mdft2_transpose e m n My Mx _ _ _ _ _ f k l]

/-- the output side of one axis: asking for a larger output window `N' ≥ N` (origin on origin) only adds samples around the
old ones -/
theorem mdft1_out_embed (e : R → V) (n N N' : Nat) (h : N ≤ N') (α s : R) (f : Nat → V) (l : Nat) :
    mdft1 e n N' α s f (l + (N' / 2 - N / 2)) = mdft1 e n N α s f l := by
  simp only [mdft1_eq_sum]
  have hc : (coord N' (l + (N' / 2 - N / 2)) : R) = coord N l := by
    rw [coord_eq, coord_eq]
    obtain ⟨o, ho⟩ : ∃ o, N' / 2 = N / 2 + o := ⟨N' / 2 - N / 2, by omega⟩
    rw [ho, Nat.add_sub_cancel_left]
    push_cast; ring
  rw [hc]

/-- zero-pad embedding invariance of the whole mask path: embedding the pupil field in a larger `m' × n'` zero array with the
origin on the origin (any parities, square or not) returns, on the window of the original samples, exactly what the original
array returns: the forward constants do not depend on the pupil sample count, the return leg's depend on the mask grid only -/
theorem fpm_pad_invariant (e : R → V) (ofR : R → V) (sqrt : R → R) (m n m' n' My Mx : Nat) (hm : m ≤ m') (hn : n ≤ n')
    (hm0 : 0 < m) (hn0 : 0 < n) [CharZero R]
    (dx efl lam fdx shx shy : R) (hdx : dx ≠ 0) (hz : efl ≠ 0) (hl : lam ≠ 0) (hd : fdx ≠ 0)
    (mask : Nat → Nat → V) (f : Nat → Nat → V) (j i : Nat) :
    toFpmAndBack e ofR sqrt m' n' My Mx dx efl lam fdx shx shy mask (embed m n m' n' f) (j + (m' / 2 - m / 2)) (i + (n' / 2 - n / 2))
      = toFpmAndBack e ofR sqrt m n My Mx dx efl lam fdx shx shy mask f j i := by
  have c : ∀ a : Nat, 0 < a → ((Num.ofInt (a : Int) : R)) ≠ 0 := by
    intro a ha; simp only [ofInt_eq, Int.cast_natCast]; exact_mod_cast ha.ne'
  simp only [toFpmAndBack, maskAndBack]
  rw [axisAlpha_indep (Num.ofInt (m' : Int)) (Num.ofInt (m : Int)) dx efl lam fdx (c m' (by omega)) (c m hm0) hdx hz hl hd,
      axisAlpha_indep (Num.ofInt (n' : Int)) (Num.ofInt (n : Int)) dx efl lam fdx (c n' (by omega)) (c n hn0) hdx hz hl hd]
  simp only [mdft2_embed e m n m' n' My Mx hm hn]
  simp only [mdft2]
  rw [mdft1_out_embed _ My m m' hm]
  congr 2
  funext k
  rw [mdft1_out_embed _ Mx n n' hn]

/-- non-vacuity of `fpm_pad_invariant`: a 3 × 4 pupil embedded in 6 × 5 (offsets 2 and 0), exact rational optics -/
example : (3 ≤ 6 ∧ 4 ≤ 5 ∧ 0 < 3 ∧ 0 < 4) ∧ ((1/2 : ℚ) ≠ 0 ∧ (100 : ℚ) ≠ 0 ∧ (25/2 : ℚ) ≠ 0) ∧ (6 / 2 - 3 / 2 = 2 ∧ 5 / 2 - 4 / 2 = 0) := by
  refine ⟨by omega, by norm_num, by omega⟩

end fpm2

section babinet
variable {R V : Type} [Field R] [Field V] [DecidableEq R]
open Model.C03 Model.C05

/-- `Wavefront.babinet` as ARITHMETIC translated from the source — the mask handed to `to_fpm_and_back` (`1 - fpm`), the field at the
Lyot plane (`self.data - returned.data`), the field after the stop (`lyot * that`, or that itself when no stop is given) — composed
around the model of the mask path IS `Model.C05.babinet` (a flipped difference, `fpm - 1`, a stop that is added … make this fail) -/
theorem gen_babinet (e : R → V) (ofR : R → V) (sqrt : R → R) (m n My Mx : Nat) (dx efl lam fdx : R)
    (lyot mask : Nat → Nat → V) (f : Nat → Nat → V) (j i : Nat) :
    babinetAfterLyot (lyot j i) (babinetAtLyot (f j i)
        (toFpmAndBack e ofR sqrt m n My Mx dx efl lam fdx 0 0 (fun k l => babinetMaskArg (mask k l)) f j i))
      = babinet e ofR sqrt m n My Mx dx efl lam fdx lyot mask f j i ∧
    babinetNoStop (lyot j i) (babinetAtLyot (f j i)
        (toFpmAndBack e ofR sqrt m n My Mx dx efl lam fdx 0 0 (fun k l => babinetMaskArg (mask k l)) f j i))
      = babinet e ofR sqrt m n My Mx dx efl lam fdx (fun _ _ => 1) mask f j i := by
  have hm : (fun k l => babinetMaskArg (mask k l)) = fun k l => 1 - mask k l := by
    funext k l; simp only [babinetMaskArg, ofInt_eq, Int.cast_one]; try ring
  constructor <;>
    (simp only [babinet, hm, babinetAfterLyot, babinetAtLyot, babinetNoStop, ofInt_eq, Int.cast_zero, Int.cast_one]; try ring)

/-- `Wavefront.babinet` (model: Lyot stop times [field minus the return through the complement mask]) splits, for EVERY mask grid
and sampling, into the Lyot stop times the band-limiting residual `f - T(1) f` plus the Lyot stop times the return through the
mask itself -/
theorem babinet_split (e : R → V) (ofR : R → V) (sqrt : R → R) (m n My Mx : Nat) (dx efl lam fdx : R)
    (lyot mask : Nat → Nat → V) (f : Nat → Nat → V) (j i : Nat) :
    babinet e ofR sqrt m n My Mx dx efl lam fdx lyot mask f j i
      = lyot j i * (f j i - toFpmAndBack e ofR sqrt m n My Mx dx efl lam fdx 0 0 (fun _ _ => 1) f j i)
        + lyot j i * toFpmAndBack e ofR sqrt m n My Mx dx efl lam fdx 0 0 mask f j i := by
  have h := babinet_complement e ofR sqrt m n My Mx dx efl lam fdx 0 0 mask f j i
  simp only [babinet, ofInt_eq, Int.cast_zero, Int.cast_one]
  rw [← h]; ring

/-- Babinet's principle as the code uses it: on a band-complete `M × M` mask grid (`M·fpm_dx·dx = λ f`, `M ≥` both pupil sides)
`field - return(1 - mask)` IS the return through the mask, so `babinet` = Lyot stop × `to_fpm_and_back(mask)`, sample for sample -/
theorem babinet_principle (e : R → V) (he : ∀ a b, e (a + b) = e a * e b) (he0 : e 0 = 1) (ofR : R →+* V)
    (sqrt : R → R) (m n M : Nat) (hm : m ≤ M) (hn : n ≤ M) (hm0 : 0 < m) (hn0 : 0 < n) [CharZero R] [CharZero V]
    (horth : ∀ d : ℤ, ∑ l ∈ Finset.range M, e ((d : R) * (l : R) / (M : R)) = if (M : ℤ) ∣ d then (M : V) else 0)
    (hsqrt : sqrt (1 / (M : R)) * sqrt (1 / (M : R)) = 1 / (M : R))
    (dx efl lam fdx : R) (hdx : dx ≠ 0) (hf : efl ≠ 0) (hl : lam ≠ 0) (hd : fdx ≠ 0)
    (hband : dx * fdx / (lam * efl) = 1 / (M : R))
    (lyot mask : Nat → Nat → V) (f : Nat → Nat → V) (j i : Nat) (hj : j < m) (hi : i < n) :
    babinet e ofR sqrt m n M M dx efl lam fdx lyot mask f j i
      = lyot j i * toFpmAndBack e ofR sqrt m n M M dx efl lam fdx 0 0 mask f j i := by
  rw [babinet_split, fpm_allpass_identity e he he0 ofR sqrt m n M hm hn hm0 hn0 horth hsqrt dx efl lam fdx 0 0 hdx hf hl hd hband
    f j i hj hi]
  ring

end babinet

/-- Babinet's principle for the actual kernel `exp(-2πi t)`, the inclusion `ℝ → ℂ` and the real square root: no abstract
hypothesis left (non-vacuity of `babinet_principle`) -/
theorem babinet_principle_real (m n M : Nat) (hm : m ≤ M) (hn : n ≤ M) (hm0 : 0 < m) (hn0 : 0 < n)
    (dx efl lam fdx : ℝ) (hdx : dx ≠ 0) (hf : efl ≠ 0) (hl : lam ≠ 0) (hd : fdx ≠ 0)
    (hband : dx * fdx / (lam * efl) = 1 / (M : ℝ)) (lyot mask f : Nat → Nat → ℂ) (j i : Nat) (hj : j < m) (hi : i < n) :
    Model.C05.babinet eReal (⇑Complex.ofRealHom) Real.sqrt m n M M dx efl lam fdx lyot mask f j i
      = lyot j i * Model.C05.toFpmAndBack eReal (⇑Complex.ofRealHom) Real.sqrt m n M M dx efl lam fdx 0 0 mask f j i := by
  have hM0 : 0 < M := by omega
  exact babinet_principle eReal eReal_add eReal_zero Complex.ofRealHom Real.sqrt m n M hm hn hm0 hn0
    (eReal_orth M hM0) (Real.mul_self_sqrt (by positivity)) dx efl lam fdx hdx hf hl hd hband lyot mask f j i hj hi


/-- the array the Lean driver prints for a `bab` request holds, at every index inside it, the value of `Model.C05.babinet` (the
subject of `gen_babinet`, `babinet_split`, `babinet_principle`) -/
theorem driver_babinet_table_is_model {R V : Type} [Field R] [CharZero R] [Field V] [CharZero V]
    (e : R → V) (ofR : R → V) (sqrt : R → R) (m n My Mx : Nat) (dx efl lam fdx : R)
    (lyot mask f : Array (Array V)) (j i : Nat) (hj : j < m) (hi : i < n) :
    Model.C01.rd2 (Model.C03.Exec.babTableG e ofR sqrt m n My Mx dx efl lam fdx lyot mask f) j i
      = Model.C05.babinet e ofR sqrt m n My Mx dx efl lam fdx (Model.C01.rd2 lyot) (Model.C01.rd2 mask) (Model.C01.rd2 f) j i :=
  babTableG_eq e ofR sqrt m n My Mx dx efl lam fdx lyot mask f j i hj hi

/-! ## non-vacuity (exact rational arithmetic): a band-complete 8-sample mask grid for a 6-sample pupil -/
example : (1/2 : ℚ) * (25/2) / ((1/2) * 100) = 1 / 8 := by norm_num
example : fpmBackShift0 (6 : ℚ) 5 8 8 (1/2) 100 (1/2) (25/2) 25 0 = 2 ∧ fpmFwdShift0 (6 : ℚ) 5 8 8 (1/2) 100 (1/2) (25/2) 25 0 = 2 := by
  constructor <;> norm_num [fpmBackShift0, fpmFwdShift0, Model.C03.fpmBackShift, Model.C03.fpmBackShiftArg, Model.C03.shiftSamples]

end C05
