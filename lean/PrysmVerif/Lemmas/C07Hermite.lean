import PrysmVerif.Lemmas.C07Field
import Mathlib.RingTheory.Polynomial.Hermite.Basic
import Mathlib.RingTheory.Polynomial.Dickson
/-! # C07 — Hermite (`He` = Mathlib's `Polynomial.hermite`, `H` by scaling), Dickson (= Mathlib's), Laguerre (DLMF 18.9.13) -/
namespace C07L
open Model.C07 Polynomial

/-- Appell property of Mathlib's Hermite polynomials: `He_{n+1}' = (n+1) He_n` -/
theorem derivative_hermite_succ (n : ℕ) :
    derivative (hermite (n+1)) = ((n : ℤ[X]) + 1) * hermite n := by
  induction n with
  | zero => simp [hermite_succ, hermite_zero]
  | succ n ih =>
    rw [hermite_succ (n+1), derivative_sub, derivative_mul, derivative_X, ih]
    simp only [derivative_mul, derivative_add, derivative_one, derivative_natCast]
    rw [hermite_succ n]
    push_cast
    ring

/-- three-term recurrence of Mathlib's Hermite polynomials -/
theorem hermite_succ_succ (n : ℕ) :
    hermite (n+2) = X * hermite (n+1) - ((n : ℤ[X]) + 1) * hermite n := by
  rw [hermite_succ (n+1), derivative_hermite_succ]

section
variable {K : Type} [Field K]

theorem hermiteHe_zero (x : K) : hermiteHe 0 x = 1 := by simp [hermiteHe, hePair]
theorem hermiteHe_one (x : K) : hermiteHe 1 x = x := by simp [hermiteHe, hePair]
theorem hermiteHe_succ_succ (n : ℕ) (x : K) :
    hermiteHe (n+2) x = x * hermiteHe (n+1) x - (n + 1) * hermiteHe n x := by
  simp [hermiteHe, hePair]
theorem hermiteH_zero (x : K) : hermiteH 0 x = 1 := by simp [hermiteH, hPair]
theorem hermiteH_one (x : K) : hermiteH 1 x = 2 * x := by simp [hermiteH, hPair]
theorem hermiteH_succ_succ (n : ℕ) (x : K) :
    hermiteH (n+2) x = 2 * x * hermiteH (n+1) x - 2 * (n + 1) * hermiteH n x := by
  simp [hermiteH, hPair]

/-- the `hermite_He` model is Mathlib's (probabilists') Hermite polynomial, every order, every point -/
theorem hermiteHe_eq_mathlib (n : ℕ) (x : K) : hermiteHe n x = aeval x (hermite n) := by
  induction n using Nat.strong_induction_on with
  | _ n ih =>
    match n with
    | 0 => simp [hermiteHe_zero]
    | 1 => simp [hermiteHe_one]
    | n+2 =>
      rw [hermiteHe_succ_succ, ih n (by omega), ih (n+1) (by omega), hermite_succ_succ]
      simp

/-- physicists' Hermite: `H_n(x) = sⁿ · He_n(s x)` for any `s` with `s² = 2` -/
theorem hermiteH_eq_scaled_He (s : K) (hs : s * s = 2) (n : ℕ) (x : K) :
    hermiteH n x = s ^ n * hermiteHe n (s * x) := by
  induction n using Nat.strong_induction_on with
  | _ n ih =>
    match n with
    | 0 => simp [hermiteH_zero, hermiteHe_zero]
    | 1 => simp [hermiteH_one, hermiteHe_one]; linear_combination (-x) * hs
    | n+2 =>
      rw [hermiteH_succ_succ, ih n (by omega), ih (n+1) (by omega), hermiteHe_succ_succ]
      linear_combination (-(s ^ (n+1) * x * hermiteHe (n+1) (s*x)) + s ^ n * (n+1) * hermiteHe n (s*x)) * hs

/-! ## Dickson -/
theorem dickPair_succ_succ (p0 a x : K) (n : ℕ) :
    (dickPair p0 a x (n+2)).1 = x * (dickPair p0 a x (n+1)).1 - a * (dickPair p0 a x n).1 := by
  simp [dickPair]

/-- `dickson1` is Mathlib's Dickson polynomial of the first kind, `D_0 = 2` -/
theorem dickson1_eq_mathlib (n : ℕ) (a x : K) : dickson1 n a x = (dickson 1 a n).eval x := by
  induction n using Nat.strong_induction_on with
  | _ n ih =>
    match n with
    | 0 => simp [dickson1, dickPair]; norm_num
    | 1 => simp [dickson1, dickPair]
    | n+2 =>
      have h0 := ih n (by omega); have h1 := ih (n+1) (by omega)
      simp only [dickson1] at *
      rw [dickPair_succ_succ, h0, h1, dickson_add_two]; simp

/-- `dickson2` is Mathlib's Dickson polynomial of the second kind, `E_0 = 1` -/
theorem dickson2_eq_mathlib (n : ℕ) (a x : K) : dickson2 n a x = (dickson 2 a n).eval x := by
  induction n using Nat.strong_induction_on with
  | _ n ih =>
    match n with
    | 0 => simp [dickson2, dickPair]; norm_num
    | 1 => simp [dickson2, dickPair]
    | n+2 =>
      have h0 := ih n (by omega); have h1 := ih (n+1) (by omega)
      simp only [dickson2] at *
      rw [dickPair_succ_succ, h0, h1, dickson_add_two]; simp

/-- monomials are the second-kind Dickson polynomials with `a = 0` (what `xy_seq` must use) -/
theorem dickson2_zero_eq_pow (n : ℕ) (x : K) : dickson2 n 0 x = x ^ n := by
  rw [dickson2_eq_mathlib, dickson_two_zero]; simp

/-- first-kind Dickson with `a = 0` is *not* the monomial at order 0 (`D_0 = 2`) -/
theorem dickson1_zero_order_zero (x : K) : dickson1 0 0 x = 2 := by simp [dickson1, dickPair]

/-! ## Laguerre -/
theorem laguerre_zero (α x : K) : laguerre 0 α x = 1 := by simp [laguerre, lagPair]
theorem laguerre_one (α x : K) : laguerre 1 α x = α + 1 - x := by simp [laguerre, lagPair]
theorem laguerre_succ_succ (n : ℕ) (α x : K) :
    laguerre (n+2) α x = 1 / ((n:K) + 1 + 1) *
      ((α + 2 * ((n:K) + 1) + 1 - x) * laguerre (n+1) α x - (α + ((n:K) + 1)) * laguerre n α x) := by
  simp [laguerre, lagPair]

/-- DLMF 18.9.13: `(n+2) L_{n+2} = (2n+3+α−x) L_{n+1} − (n+1+α) L_n` -/
theorem laguerre_dlmf [CharZero K] (n : ℕ) (α x : K) :
    ((n:K) + 2) * laguerre (n+2) α x
      = (2 * n + 3 + α - x) * laguerre (n+1) α x - (n + 1 + α) * laguerre n α x := by
  rw [laguerre_succ_succ]
  have h : ((n:K) + 1 + 1) ≠ 0 := by
    have : ((n:K) + 1 + 1) = ((n + 2 : ℕ) : K) := by push_cast; ring
    rw [this]; exact Nat.cast_ne_zero.mpr (by omega)
  field_simp
  ring
end
end C07L
