import PrysmVerif.Lemmas.C11Maps
import PrysmVerif.Lemmas.C11Py
/-!
# C11 — shape-tolerant ("semantic") forms of the lemmas used by the translated obligations

The `gen_*` theorems of `Props/C11.lean` must survive harmless rewrites of the source (reordered
summands, `8*idx + 9` for `9 + 8*idx`, a conditional expression instead of `(1 + sign m)/2`, …).  The
lemmas here therefore match only the *outermost* operator of the generated term (`pyCeilDiv (_ + pyCeilSqrt _) 2`,
`Py.int _`, `Rat.floor _`, `Py.modQ _ _`, `Py.whileFuel _ _ _ _`, `Py.forRange _ _ _`) and leave what
the arguments are as side goals closed by `ring1` / `omega` / `push_cast`.
-/
namespace Model.C11

theorem ansi_row_gen (j : Int) (hj : 0 ≤ j) (A D : Int) (hA : A = -3) (hD : D = 9 + 8 * j) :
    pyCeilDiv (A + pyCeilSqrt D) 2 = triRoot j.toNat := by
  subst hA hD; exact ansi_row j hj

theorem noll_row_gen (j : Int) (hj : 1 ≤ j) (A D : Int) (hA : A = -1) (hD : D = 1 + 8 * j) :
    pyCeilDiv (A + pyCeilSqrt D) 2 = triRoot (j - 1).toNat + 1 := by
  subst hA hD; have := noll_row j hj; omega

/-- `int(x)` of an integer-valued rational -/
theorem Py.int_shift0 (x : Rat) (M : Int) (h : x = (M : Rat)) : Py.int x = M := by
  rw [h, Py.int_intCast]

/-- `int(x) + c` of an integer-valued rational -/
theorem Py.int_shift (x : Rat) (c M : Int) (h : x + (c : Rat) = (M : Rat)) : Py.int x + c = M := by
  have : x = ((M - c : Int) : Rat) := by push_cast; linarith
  rw [this, Py.int_intCast]; omega

theorem floor_eq_of (X : Rat) (r : Int) (h : X = (r : Rat) / 2) : Rat.floor X = r / 2 := by
  rw [h, floor_half]

theorem modQ_eq_of (X b : Rat) (r : Int) (h : X = (r : Rat)) (hb : b = 2) : Py.modQ X b = ((r % 2 : Int) : Rat) := by
  rw [h, hb, Py.modQ_two]

/-! ### closed forms of the inverse maps on valid pairs, parametrised by the block -/

theorem nmToFringe_neg (k m : Int) (hm : m < 0) : nmToFringe (2 * k + m) m = (k + 1) * (k + 1) + 2 * m + 1 := by
  unfold nmToFringe iabs
  simp only [hm, if_true, if_neg (show ¬ (0 ≤ m) by omega)]
  have : (2 * k + m + -m) / 2 = k := by omega
  rw [this]; ring

theorem nmToFringe_nonneg (k m : Int) (hm : 0 ≤ m) : nmToFringe (2 * k - m) m = (k + 1) * (k + 1) - 2 * m := by
  unfold nmToFringe iabs
  simp only [if_neg (show ¬ (m < 0) by omega), hm, if_true]
  have : (2 * k - m + m) / 2 = k := by omega
  rw [this]; ring

/-- a valid pair sits in a block: `n = 2k - |m|` -/
theorem valid_block (n m : Int) (h : Valid n m) :
    (m < 0 ∧ ∃ k, n = 2 * k + m) ∨ (0 ≤ m ∧ ∃ k, n = 2 * k - m) := by
  simp only [Valid, iabs] at h
  obtain ⟨h1, h2⟩ := h
  by_cases hm : m < 0
  · left; rw [if_pos hm] at h1 h2; exact ⟨hm, (n - m) / 2, by omega⟩
  · right; rw [if_neg hm] at h1 h2; exact ⟨by omega, (n + m) / 2, by omega⟩

/-! ### loops, with the initial state as a side goal -/

theorem whileFuel_traj' {σ : Type} (cond : σ → Bool) (body : σ → Option σ) (f : Nat → σ) (N fuel : Nat) (s0 : σ)
    (h0 : f 0 = s0) (hN : N ≤ fuel) (hc : ∀ i, i < N → cond (f i) = true)
    (hb : ∀ i, i < N → body (f i) = some (f (i + 1))) (hstop : cond (f N) = false) :
    Py.whileFuel cond body fuel s0 = some (f N) := by
  subst h0; exact whileFuel_traj cond body f N fuel hN hc hb hstop

theorem forRange_traj' {σ : Type} (body : Int → σ → Option σ) (f : Nat → σ) (n : Int) (N : Nat) (s0 : σ)
    (h0 : f 0 = s0) (hn : n.toNat = N) (hb : ∀ i, i < N → body (i : Int) (f i) = some (f (i + 1))) :
    Py.forRange n body s0 = some (f N) := by
  subst h0; exact forRange_traj body f n N hn hb

end Model.C11

namespace Model.C11

theorem idx_append_last (l : List Int) (x : Int) : Py.idx (l ++ [x]) (-1) = some x := by
  unfold Py.idx
  rw [if_neg (by omega), if_pos (by simp)]
  simp

theorem tab_append2 (g : Nat → Int) (L N : Nat) (x y : Int) (hN : N = L + 2) (hx : x = g L) (hy : y = g (L + 1)) :
    tab g L ++ [x] ++ [y] = tab g N := by
  subst hN hx hy; rw [tab_succ g (L + 1), tab_succ g L]

/-- reading entry `res` (negative, counted from the end) of a table, with the position as a side goal -/
theorem idx_tab_neg' (g : Nat → Int) (len : Nat) (res : Int) (q : Nat) (h1 : -(len : Int) ≤ res) (h2 : res < 0)
    (hq : ((len : Int) + res) = q) : Py.idx (tab g len) res = some (g q) := by
  rw [idx_tab_neg g len res h1 h2]; congr 2; omega

/-- `int((n+1)(n+2)/2)` whatever way the product is written -/
theorem int_tri_succ (X : Rat) (n : Int) (h : 2 * X = ((n : Rat) + 1) * ((n : Rat) + 2)) : Py.int X = tri (n + 1) := by
  apply Py.int_shift0
  have t := two_mul_tri (n + 1)
  have : (2 : Rat) * (tri (n + 1) : Rat) = ((n : Rat) + 1) * ((n : Rat) + 1 + 1) := by exact_mod_cast t
  linarith

end Model.C11
