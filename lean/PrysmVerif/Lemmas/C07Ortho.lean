import PrysmVerif.Lemmas.C07Jacobi
import Mathlib.Analysis.SpecialFunctions.Trigonometric.Chebyshev.Orthogonality
import Mathlib.Analysis.SpecialFunctions.Integrals.Basic
/-! # C07 — orthogonality of the four Chebyshev families, for ALL orders

`∫_{-1}^{1} p_n p_m w dx` with the textbook weights `w = (1−x)^{±½}(1+x)^{±½}`, by the substitution `x = cos θ`
(Mathlib: `Polynomial.Chebyshev.integral_measureT_eq_integral_cos`, valid for every integrand) and the trigonometric forms
`T_n(cos θ) = cos nθ`, `U_n(cos θ) sin θ = sin (n+1)θ` (Mathlib), `V_n(cos θ) cos(θ/2) = cos (n+½)θ`,
`W_n(cos θ) sin(θ/2) = sin (n+½)θ` (proved here from the recurrences).  The `U` case is a TODO of Mathlib's file.
The last theorem restates the four results as the instance `(α, β) ∈ {±½}²` of Jacobi orthogonality for the hand model.
-/
set_option linter.unusedVariables false

namespace C07L
open Real intervalIntegral MeasureTheory Polynomial Polynomial.Chebyshev Model.C07

/-- `∫_0^π cos(kθ) dθ = 0` for every integer `k ≠ 0` -/
theorem integral_cos_int_mul {k : ℤ} (hk : k ≠ 0) : ∫ θ in (0:ℝ)..π, cos (k * θ) = 0 := by
  have h := integral_eval_T_real_measureT_of_ne_zero hk
  rw [integral_measureT_eq_integral_cos] at h
  simpa using h

theorem integral_cos_zero_mul : ∫ θ in (0:ℝ)..π, cos ((0:ℝ) * θ) = π := by simp

/-- `∫_0^π cos(kθ) dθ = π·[k = 0]` -/
theorem integral_cos_int_mul' (k : ℤ) : ∫ θ in (0:ℝ)..π, cos (k * θ) = if k = 0 then π else 0 := by
  split
  · next h => subst h; simp
  · next h => exact integral_cos_int_mul h

theorem integral_cos_mul_cos (a b : ℝ) :
    ∫ θ in (0:ℝ)..π, cos (a * θ) * cos (b * θ)
      = ((∫ θ in (0:ℝ)..π, cos ((a - b) * θ)) + ∫ θ in (0:ℝ)..π, cos ((a + b) * θ)) / 2 := by
  rw [← integral_add (Continuous.intervalIntegrable (by fun_prop) _ _) (Continuous.intervalIntegrable (by fun_prop) _ _),
    ← intervalIntegral.integral_div]
  congr 1; funext θ
  rw [sub_mul, add_mul, cos_sub, cos_add]; ring

theorem integral_sin_mul_sin (a b : ℝ) :
    ∫ θ in (0:ℝ)..π, sin (a * θ) * sin (b * θ)
      = ((∫ θ in (0:ℝ)..π, cos ((a - b) * θ)) - ∫ θ in (0:ℝ)..π, cos ((a + b) * θ)) / 2 := by
  rw [← integral_sub (Continuous.intervalIntegrable (by fun_prop) _ _) (Continuous.intervalIntegrable (by fun_prop) _ _),
    ← intervalIntegral.integral_div]
  congr 1; funext θ
  rw [sub_mul, add_mul, cos_sub, cos_add]; ring

/-- change of variables `x = cos θ` under the Chebyshev weight, any integrand -/
theorem integral_weightT (f : ℝ → ℝ) :
    ∫ x in (-1:ℝ)..1, f x * (√(1 - x ^ 2))⁻¹ = ∫ θ in (0:ℝ)..π, f (cos θ) := by
  rw [← integral_measureT_eq_integral_cos, integral_measureT]
  simp only [Real.sqrt_inv]

/-- third kind: `V_n(cos θ) cos(θ/2) = cos((n+½)θ)` -/
theorem chebV_cos (n : ℕ) (θ : ℝ) : chebV n (cos θ) * cos (θ / 2) = cos (((n:ℝ) + 1 / 2) * θ) := by
  induction n using Nat.strong_induction_on with
  | _ n ih =>
    match n with
    | 0 => simp [chebV, chebVW]; ring_nf
    | 1 =>
      obtain ⟨φ, rfl⟩ : ∃ φ, θ = 2 * φ := ⟨θ / 2, by ring⟩
      simp only [chebV, chebVW]
      rw [show 2 * φ / 2 = φ by ring, show (((1:ℕ):ℝ) + 1 / 2) * (2 * φ) = 3 * φ by push_cast; ring, cos_three_mul, cos_two_mul]
      ring
    | n+2 =>
      rw [chebV_succ_succ, sub_mul, mul_assoc, ih (n+1) (by omega), ih n (by omega)]
      push_cast
      have e1 : ((n:ℝ) + 2 + 1 / 2) * θ = ((n:ℝ) + 1 + 1 / 2) * θ + θ := by ring
      have e2 : ((n:ℝ) + 1 / 2) * θ = ((n:ℝ) + 1 + 1 / 2) * θ - θ := by ring
      rw [e1, e2, cos_add, cos_sub]; ring

/-- fourth kind: `W_n(cos θ) sin(θ/2) = sin((n+½)θ)` -/
theorem chebW_cos (n : ℕ) (θ : ℝ) : chebW n (cos θ) * sin (θ / 2) = sin (((n:ℝ) + 1 / 2) * θ) := by
  induction n using Nat.strong_induction_on with
  | _ n ih =>
    match n with
    | 0 => simp [chebW, chebVW]; ring_nf
    | 1 =>
      obtain ⟨φ, rfl⟩ : ∃ φ, θ = 2 * φ := ⟨θ / 2, by ring⟩
      simp only [chebW, chebVW]
      rw [show 2 * φ / 2 = φ by ring, show (((1:ℕ):ℝ) + 1 / 2) * (2 * φ) = 3 * φ by push_cast; ring, sin_three_mul, cos_two_mul]
      have := sin_sq_add_cos_sq φ
      linear_combination (4 * sin φ) * this
    | n+2 =>
      rw [chebW_succ_succ, sub_mul, mul_assoc, ih (n+1) (by omega), ih n (by omega)]
      push_cast
      have e1 : ((n:ℝ) + 2 + 1 / 2) * θ = ((n:ℝ) + 1 + 1 / 2) * θ + θ := by ring
      have e2 : ((n:ℝ) + 1 / 2) * θ = ((n:ℝ) + 1 + 1 / 2) * θ - θ := by ring
      rw [e1, e2, sin_add, sin_sub]; ring


theorem integral_cos_cos_int (p q : ℤ) :
    ∫ θ in (0:ℝ)..π, cos ((p:ℝ) * θ) * cos ((q:ℝ) * θ)
      = ((if p - q = 0 then π else 0) + (if p + q = 0 then π else 0)) / 2 := by
  rw [integral_cos_mul_cos, ← Int.cast_sub, ← Int.cast_add, integral_cos_int_mul', integral_cos_int_mul']

theorem integral_sin_sin_int (p q : ℤ) :
    ∫ θ in (0:ℝ)..π, sin ((p:ℝ) * θ) * sin ((q:ℝ) * θ)
      = ((if p - q = 0 then π else 0) - (if p + q = 0 then π else 0)) / 2 := by
  rw [integral_sin_mul_sin, ← Int.cast_sub, ← Int.cast_add, integral_cos_int_mul', integral_cos_int_mul']

theorem integral_cos_cos_half (n m : ℕ) :
    ∫ θ in (0:ℝ)..π, cos (((n:ℝ) + 1 / 2) * θ) * cos (((m:ℝ) + 1 / 2) * θ) = if n = m then π / 2 else 0 := by
  rw [integral_cos_mul_cos,
    show ((n:ℝ) + 1 / 2) - ((m:ℝ) + 1 / 2) = (((n:ℤ) - (m:ℤ) : ℤ) : ℝ) by push_cast; ring,
    show ((n:ℝ) + 1 / 2) + ((m:ℝ) + 1 / 2) = (((n:ℤ) + (m:ℤ) + 1 : ℤ) : ℝ) by push_cast; ring,
    integral_cos_int_mul', integral_cos_int_mul']
  have h2 : ¬ ((n:ℤ) + (m:ℤ) + 1 = 0) := by omega
  by_cases h : n = m
  · subst h; simp [h2]
  · have h1 : ¬ ((n:ℤ) - (m:ℤ) = 0) := by omega
    simp [h, h1, h2]

theorem integral_sin_sin_half (n m : ℕ) :
    ∫ θ in (0:ℝ)..π, sin (((n:ℝ) + 1 / 2) * θ) * sin (((m:ℝ) + 1 / 2) * θ) = if n = m then π / 2 else 0 := by
  rw [integral_sin_mul_sin,
    show ((n:ℝ) + 1 / 2) - ((m:ℝ) + 1 / 2) = (((n:ℤ) - (m:ℤ) : ℤ) : ℝ) by push_cast; ring,
    show ((n:ℝ) + 1 / 2) + ((m:ℝ) + 1 / 2) = (((n:ℤ) + (m:ℤ) + 1 : ℤ) : ℝ) by push_cast; ring,
    integral_cos_int_mul', integral_cos_int_mul']
  have h2 : ¬ ((n:ℤ) + (m:ℤ) + 1 = 0) := by omega
  by_cases h : n = m
  · subst h; simp [h2]
  · have h1 : ¬ ((n:ℤ) - (m:ℤ) = 0) := by omega
    simp [h, h1, h2]

/-- Chebyshev `T`: `∫_{-1}^{1} T_n T_m (1−x²)^{-1/2} dx = 0` (`n ≠ m`), `π` (`n = m = 0`), `π/2` (`n = m ≥ 1`) -/
theorem chebT_orthogonal (n m : ℕ) :
    ∫ x in (-1:ℝ)..1, (T ℝ n).eval x * (T ℝ m).eval x * (√(1 - x ^ 2))⁻¹
      = if n = m then (if n = 0 then π else π / 2) else 0 := by
  rw [integral_weightT (fun x => (T ℝ n).eval x * (T ℝ m).eval x)]
  simp only [T_real_cos]
  rw [integral_cos_cos_int]
  by_cases h : n = m
  · subst h
    by_cases h0 : n = 0
    · subst h0; simp
    · have : ¬ ((n:ℤ) + (n:ℤ) = 0) := by omega
      simp [h0, this]
  · have h1 : ¬ ((n:ℤ) - (m:ℤ) = 0) := by omega
    have h2 : ¬ ((n:ℤ) + (m:ℤ) = 0) := by omega
    simp [h, h1, h2]

/-- Chebyshev `U`: `∫_{-1}^{1} U_n U_m (1−x²)^{1/2} dx = (π/2) δ_{nm}` -/
theorem chebU_orthogonal (n m : ℕ) :
    ∫ x in (-1:ℝ)..1, (U ℝ n).eval x * (U ℝ m).eval x * √(1 - x ^ 2) = if n = m then π / 2 else 0 := by
  have e : ∀ x : ℝ, (U ℝ n).eval x * (U ℝ m).eval x * √(1 - x ^ 2)
      = ((U ℝ n).eval x * (U ℝ m).eval x * (1 - x ^ 2)) * (√(1 - x ^ 2))⁻¹ := by
    intro x; rw [mul_assoc _ (1 - x ^ 2), ← div_eq_mul_inv, Real.div_sqrt]
  simp only [e]
  rw [integral_weightT (fun x => (U ℝ n).eval x * (U ℝ m).eval x * (1 - x ^ 2))]
  have e2 : ∀ θ : ℝ, (U ℝ n).eval (cos θ) * (U ℝ m).eval (cos θ) * (1 - cos θ ^ 2)
      = sin ((((n:ℤ) + 1 : ℤ) : ℝ) * θ) * sin ((((m:ℤ) + 1 : ℤ) : ℝ) * θ) := by
    intro θ
    have hn := U_real_cos θ n
    have hm := U_real_cos θ m
    push_cast at hn hm ⊢
    rw [← hn, ← hm]
    have := sin_sq_add_cos_sq θ
    linear_combination (-(eval (cos θ) (U ℝ ↑n) * eval (cos θ) (U ℝ ↑m))) * this
  simp only [e2]
  rw [integral_sin_sin_int]
  have h2 : ¬ ((n:ℤ) + 1 + ((m:ℤ) + 1) = 0) := by omega
  by_cases h : n = m
  · subst h; simp [h2]
  · have h1 : ¬ ((n:ℤ) + 1 - ((m:ℤ) + 1) = 0) := by omega
    rw [if_neg h1, if_neg h2, if_neg h]; ring

/-- Chebyshev `V` (third kind): `∫_{-1}^{1} V_n V_m (1+x)(1−x²)^{-1/2} dx = π δ_{nm}`  (weight `((1+x)/(1−x))^{1/2}`) -/
theorem chebV_orthogonal (n m : ℕ) :
    ∫ x in (-1:ℝ)..1, chebV n x * chebV m x * ((1 + x) * (√(1 - x ^ 2))⁻¹) = if n = m then π else 0 := by
  simp only [← mul_assoc]
  rw [integral_weightT (fun x => chebV n x * chebV m x * (1 + x))]
  have e2 : ∀ θ : ℝ, chebV n (cos θ) * chebV m (cos θ) * (1 + cos θ)
      = 2 * (cos (((n:ℝ) + 1 / 2) * θ) * cos (((m:ℝ) + 1 / 2) * θ)) := by
    intro θ
    rw [← chebV_cos, ← chebV_cos]
    have : cos θ = 2 * cos (θ / 2) ^ 2 - 1 := by rw [← cos_two_mul]; ring_nf
    rw [this]; ring
  simp only [e2]
  rw [intervalIntegral.integral_const_mul, integral_cos_cos_half]
  split <;> ring

/-- Chebyshev `W` (fourth kind): `∫_{-1}^{1} W_n W_m (1−x)(1−x²)^{-1/2} dx = π δ_{nm}`  (weight `((1−x)/(1+x))^{1/2}`) -/
theorem chebW_orthogonal (n m : ℕ) :
    ∫ x in (-1:ℝ)..1, chebW n x * chebW m x * ((1 - x) * (√(1 - x ^ 2))⁻¹) = if n = m then π else 0 := by
  simp only [← mul_assoc]
  rw [integral_weightT (fun x => chebW n x * chebW m x * (1 - x))]
  have e2 : ∀ θ : ℝ, chebW n (cos θ) * chebW m (cos θ) * (1 - cos θ)
      = 2 * (sin (((n:ℝ) + 1 / 2) * θ) * sin (((m:ℝ) + 1 / 2) * θ)) := by
    intro θ
    rw [← chebW_cos, ← chebW_cos]
    have : cos θ = 1 - 2 * sin (θ / 2) ^ 2 := by
      have h := cos_two_mul (θ / 2)
      have h' := sin_sq_add_cos_sq (θ / 2)
      rw [show 2 * (θ / 2) = θ by ring] at h
      linarith
    rw [this]; ring
  simp only [e2]
  rw [intervalIntegral.integral_const_mul, integral_sin_sin_half]
  split <;> ring


section weights
variable {x : ℝ}

theorem sqrt_one_sub_sq (h : x ∈ Set.uIcc (-1:ℝ) 1) : √(1 - x) * √(1 + x) = √(1 - x ^ 2) := by
  rw [Set.uIcc_of_le (by norm_num)] at h
  rw [← Real.sqrt_mul (by linarith [h.2])]; congr 1; ring

theorem rpow_half {y : ℝ} (hy : 0 ≤ y) : y ^ ((1:ℝ) / 2) = √y := by rw [Real.sqrt_eq_rpow]
theorem rpow_neg_half {y : ℝ} (hy : 0 ≤ y) : y ^ ((-1:ℝ) / 2) = (√y)⁻¹ := by
  rw [show ((-1:ℝ) / 2) = -((1:ℝ) / 2) by ring, Real.rpow_neg hy, rpow_half hy]

/-- the four Jacobi weights `(1−x)^{±½}(1+x)^{±½}` on `[−1,1]` in terms of `√(1−x²)` -/
theorem weight_mm (h : x ∈ Set.uIcc (-1:ℝ) 1) : (1 - x) ^ ((-1:ℝ) / 2) * (1 + x) ^ ((-1:ℝ) / 2) = (√(1 - x ^ 2))⁻¹ := by
  have h' := h; rw [Set.uIcc_of_le (by norm_num)] at h'
  rw [rpow_neg_half (by linarith [h'.2]), rpow_neg_half (by linarith [h'.1]), ← mul_inv, sqrt_one_sub_sq h]
theorem weight_pp (h : x ∈ Set.uIcc (-1:ℝ) 1) : (1 - x) ^ ((1:ℝ) / 2) * (1 + x) ^ ((1:ℝ) / 2) = √(1 - x ^ 2) := by
  have h' := h; rw [Set.uIcc_of_le (by norm_num)] at h'
  rw [rpow_half (by linarith [h'.2]), rpow_half (by linarith [h'.1]), sqrt_one_sub_sq h]
theorem weight_mp (h : x ∈ Set.uIcc (-1:ℝ) 1) :
    (1 - x) ^ ((-1:ℝ) / 2) * (1 + x) ^ ((1:ℝ) / 2) = (1 + x) * (√(1 - x ^ 2))⁻¹ := by
  have h' := h; rw [Set.uIcc_of_le (by norm_num)] at h'
  rw [rpow_neg_half (by linarith [h'.2]), rpow_half (by linarith [h'.1]), ← sqrt_one_sub_sq h, mul_inv]
  nth_rewrite 1 [← Real.div_sqrt (x := 1 + x)]
  rw [div_eq_mul_inv]; ring
theorem weight_pm (h : x ∈ Set.uIcc (-1:ℝ) 1) :
    (1 - x) ^ ((1:ℝ) / 2) * (1 + x) ^ ((-1:ℝ) / 2) = (1 - x) * (√(1 - x ^ 2))⁻¹ := by
  have h' := h; rw [Set.uIcc_of_le (by norm_num)] at h'
  rw [rpow_half (by linarith [h'.2]), rpow_neg_half (by linarith [h'.1]), ← sqrt_one_sub_sq h, mul_inv]
  nth_rewrite 1 [← Real.div_sqrt (x := 1 - x)]
  rw [div_eq_mul_inv]; ring
end weights

/-- **Jacobi orthogonality at the four Chebyshev parameter pairs**: for `(α, β) ∈ {±½}²` and ALL orders `n ≠ m`,
    `∫_{-1}^{1} (1−x)^α (1+x)^β P_n^{(α,β)}(x) P_m^{(α,β)}(x) dx = 0` (the hand model's `jacobi`, real powers) -/
theorem jacobi_orthogonal_half (n m : ℕ) (hnm : n ≠ m) (a b : ℝ) (ha : a = 1 / 2 ∨ a = -1 / 2) (hb : b = 1 / 2 ∨ b = -1 / 2) :
    ∫ x in (-1:ℝ)..1, ((1 - x) ^ a * (1 + x) ^ b) * jacobi n a b x * jacobi m a b x = 0 := by
  rcases ha with rfl | rfl <;> rcases hb with rfl | rfl
  · -- (½, ½): U
    have := chebU_orthogonal n m
    rw [if_neg hnm] at this
    rw [integral_congr (g := fun x => (pU n * pU m) * ((U ℝ n).eval x * (U ℝ m).eval x * √(1 - x ^ 2)))
      (fun x hx => by simp only [weight_pp hx, jac_U]; ring), intervalIntegral.integral_const_mul, this, mul_zero]
  · -- (½, −½): W
    have := chebW_orthogonal n m
    rw [if_neg hnm] at this
    rw [integral_congr (g := fun x => (pT n * pT m) * (chebW n x * chebW m x * ((1 - x) * (√(1 - x ^ 2))⁻¹)))
      (fun x hx => by simp only [weight_pm hx, jac_W]; ring), intervalIntegral.integral_const_mul, this, mul_zero]
  · -- (−½, ½): V
    have := chebV_orthogonal n m
    rw [if_neg hnm] at this
    rw [integral_congr (g := fun x => (pT n * pT m) * (chebV n x * chebV m x * ((1 + x) * (√(1 - x ^ 2))⁻¹)))
      (fun x hx => by simp only [weight_mp hx, jac_V]; ring), intervalIntegral.integral_const_mul, this, mul_zero]
  · -- (−½, −½): T
    have := chebT_orthogonal n m
    rw [if_neg hnm] at this
    rw [integral_congr (g := fun x => (pT n * pT m) * ((T ℝ n).eval x * (T ℝ m).eval x * (√(1 - x ^ 2))⁻¹))
      (fun x hx => by simp only [weight_mm hx, jac_T]; ring), intervalIntegral.integral_const_mul, this, mul_zero]

end C07L
