import PrysmVerif.Lemmas.C10Base
import Mathlib.Tactic.Linarith
import Mathlib.Tactic.Positivity
import Mathlib.Data.List.Basic
import Mathlib.Algebra.BigOperators.Ring.Finset
import Mathlib.Algebra.Order.BigOperators.Ring.Finset
import Mathlib.Algebra.Order.Field.Basic
/-!
# C10 — coefficient packing, tensordot over the mode axis, masked least squares
-/
set_option linter.unusedSectionVars false
set_option linter.unusedSimpArgs false
namespace C10L
open Model.C10

section Pack
variable {R : Type} [CommRing R] [Div R]

/-- does the sparse list mention mode `(n, m)`? -/
def has (inp : List ((Nat × Int) × R)) (n : Nat) (m : Int) : Bool :=
  inp.any fun e => e.1.1 == n && e.1.2 == m

theorem coefOf_not_has (inp : List ((Nat × Int) × R)) (n : Nat) (m : Int) (h : has inp n m = false) :
    coefOf inp n m = 0 := by
  induction inp with
  | nil => simp [coefOf]
  | cons e rest ih =>
    obtain ⟨⟨n', m'⟩, c⟩ := e
    simp only [has, List.any_cons, Bool.or_eq_false_iff] at h
    obtain ⟨h1, h2⟩ := h
    simp only [coefOf]
    have h2' : (rest.any fun e => e.1.1 == n && e.1.2 == m) = false := h2
    simp only [h2', Bool.false_eq_true, if_false]
    rw [if_neg (by simpa using h1)]
    exact ih h2

theorem radLen_foldl_ge (inp : List ((Nat × Int) × R)) (m : Int) : ∀ acc,
    acc ≤ inp.foldl (fun acc e => if e.1.2 == m then max acc (e.1.1 + 1) else acc) acc := by
  induction inp with
  | nil => intro acc; simp
  | cons e rest ih =>
    intro acc
    simp only [List.foldl_cons]
    split
    · exact le_trans (le_max_left _ _) (ih _)
    · exact ih _

theorem radLen_foldl_has (inp : List ((Nat × Int) × R)) (n : Nat) (m : Int) (h : has inp n m = true) : ∀ acc,
    n + 1 ≤ inp.foldl (fun acc e => if e.1.2 == m then max acc (e.1.1 + 1) else acc) acc := by
  induction inp with
  | nil => simp [has] at h
  | cons e rest ih =>
    intro acc
    simp only [has, List.any_cons, Bool.or_eq_true] at h
    simp only [List.foldl_cons]
    rcases h with h | h
    · simp only [Bool.and_eq_true, beq_iff_eq] at h
      obtain ⟨h1, h2⟩ := h
      have : (e.1.2 == m) = true := by simp [h2]
      simp only [this, if_true]
      refine le_trans ?_ (radLen_foldl_ge rest m _)
      rw [h1]; exact le_max_right _ _
    · exact ih h _

theorem has_lt_radLen (inp : List ((Nat × Int) × R)) (n : Nat) (m : Int) (h : has inp n m = true) :
    n < radLen inp m := radLen_foldl_has inp n m h 0

theorem maxAbsM_foldl_ge (inp : List ((Nat × Int) × R)) : ∀ acc,
    acc ≤ inp.foldl (fun acc e => max acc e.1.2.natAbs) acc := by
  induction inp with
  | nil => intro acc; simp
  | cons e rest ih => intro acc; exact le_trans (le_max_left _ _) (ih _)

theorem maxAbsM_foldl_has (inp : List ((Nat × Int) × R)) (n : Nat) (m : Int) (h : has inp n m = true) : ∀ acc,
    m.natAbs ≤ inp.foldl (fun acc e => max acc e.1.2.natAbs) acc := by
  induction inp with
  | nil => simp [has] at h
  | cons e rest ih =>
    intro acc
    simp only [has, List.any_cons, Bool.or_eq_true] at h
    simp only [List.foldl_cons]
    rcases h with h | h
    · simp only [Bool.and_eq_true, beq_iff_eq] at h
      refine le_trans ?_ (maxAbsM_foldl_ge rest _)
      rw [← h.2]; exact le_max_right _ _
    · exact ih h _

theorem has_le_maxAbsM (inp : List ((Nat × Int) × R)) (n : Nat) (m : Int) (h : has inp n m = true) :
    m.natAbs ≤ maxAbsM inp := maxAbsM_foldl_has inp n m h 0

theorem nth_map_range (f : Nat → R) (L n : Nat) :
    nth ((List.range L).map f) n = if n < L then f n else 0 := by
  unfold nth
  by_cases h : n < L
  · simp [List.getD_eq_getElem?_getD, List.getElem?_map, List.getElem?_range h, h]
  · have : ((List.range L).map f)[n]? = none := by
      rw [List.getElem?_eq_none_iff]; simp; omega
    simp [List.getD_eq_getElem?_getD, this, h]

theorem nth_dense (inp : List ((Nat × Int) × R)) (n : Nat) (m : Int) :
    nth (dense inp m) n = coefOf inp n m := by
  unfold dense
  rw [nth_map_range]
  split
  · rfl
  · rename_i hlt
    cases hh : has inp n m with
    | false => exact (coefOf_not_has inp n m hh).symm
    | true => exact absurd (has_lt_radLen inp n m hh) hlt

theorem getD_map_range {α : Type} (f : Nat → α) (L i : Nat) (d : α) :
    ((List.range L).map f).getD i d = if i < L then f i else d := by
  by_cases h : i < L
  · simp [List.getD_eq_getElem?_getD, List.getElem?_map, List.getElem?_range h, h]
  · have : ((List.range L).map f)[i]? = none := by
      rw [List.getElem?_eq_none_iff]; simp; omega
    simp [List.getD_eq_getElem?_getD, this, h]

/-- **pack round trip**: reading mode `(n, m)` out of `Q2d_nm_c_to_a_b`'s three lists gives the coefficient
the sparse input assigns to it (last assignment wins) and `0` for every mode the input does not mention —
for every input, including those with no `m = 0`, no `m > 0` or no `m < 0` entry. -/
theorem pack_roundtrip (inp : List ((Nat × Int) × R)) (n : Nat) (m : Int) :
    unpack (pack inp) n m = coefOf inp n m := by
  unfold unpack pack
  by_cases h0 : m = 0
  · subst h0; simp [nth_dense]
  · have hb : (m == 0) = false := by simpa using h0
    simp only [hb, Bool.false_eq_true, if_false]
    by_cases hpos : m > 0
    · simp only [hpos, if_true]
      rw [getD_map_range]
      split
      · have : ((m.natAbs - 1 : Nat) : Int) + 1 = m := by omega
        rw [this, nth_dense]
      · rename_i hlt
        cases hh : has inp n m with
        | false => simp [coefOf_not_has inp n m hh]
        | true => have := has_le_maxAbsM inp n m hh; omega
    · simp only [hpos, if_false]
      rw [getD_map_range]
      split
      · have : -(((m.natAbs - 1 : Nat) : Int) + 1) = m := by omega
        rw [this, nth_dense]
      · rename_i hlt
        cases hh : has inp n m with
        | false => simp [coefOf_not_has inp n m hh]
        | true => have := has_le_maxAbsM inp n m hh; omega

/-- shape of the packed lists: as many `(a, b)` slots as the largest `|m|`, each list as long as its
highest radial order requires, nothing when a family is absent -/
theorem pack_shape (inp : List ((Nat × Int) × R)) :
    (pack inp).1.length = radLen inp 0 ∧ (pack inp).2.1.length = maxAbsM inp ∧ (pack inp).2.2.length = maxAbsM inp := by
  simp [pack, dense]
end Pack

section Tdot
variable {R : Type} [CommRing R] [Div R]

theorem wsum_shift (q : Nat → R) (l : List R) : ∀ k, wsum q (k+1) l = wsum (fun n => q (n+1)) k l := by
  induction l with
  | nil => intro k; rfl
  | cons s rest ih => intro k; simp [wsum, ih]

theorem vadd_map_range (mo : List R) (g : Nat → R) (w : R) : ∀ (size off : Nat), mo.length = size →
    vadd (vscale w mo) ((List.range' off size).map g)
      = (List.range' off size).map (fun i => nth mo (i - off) * w + g i) := by
  induction mo with
  | nil => intro size off h; subst h; simp [vadd, vscale]
  | cons a t ih =>
    intro size off h
    obtain ⟨s', rfl⟩ : ∃ s', size = s' + 1 := ⟨t.length, by simpa using h.symm⟩
    have ht : t.length = s' := by simpa using h
    simp only [vscale, List.map_cons, List.range'_succ, vadd]
    congr 1
    · simp
    · have := ih s' (off+1) ht
      simp only [vscale] at this
      rw [this]
      apply List.map_congr_left
      intro i hi
      have : off + 1 ≤ i := by
        rw [List.mem_range'] at hi; obtain ⟨j, _, rfl⟩ := hi; omega
      have e : i - off = (i - (off+1)) + 1 := by omega
      rw [e]; simp

/-- **tensordot over the mode axis = the explicit loop** `Σ_k w_k · M_k`, sample by sample, for every number
of modes and every (flattened) sample count -/
theorem tensordot_sum (size : Nat) (modes : List (List R)) : ∀ (w : List R), modes.length = w.length →
    (∀ mo ∈ modes, mo.length = size) → sumLoop size modes w = tensordot modes w size := by
  induction modes with
  | nil =>
    intro w hw _
    have : w = [] := by cases w <;> simp_all
    subst this
    simp only [sumLoop, tensordot, List.map_nil, wsum]
    symm; rw [List.eq_replicate_iff]; simp
  | cons mo ms ih =>
    intro w hw hm
    cases w with
    | nil => simp at hw
    | cons wk ws =>
      have hlen : mo.length = size := hm mo (by simp)
      have := ih ws (by simpa using hw) (fun m hmm => hm m (by simp [hmm]))
      simp only [sumLoop, this, tensordot, List.map_cons, wsum, List.range_eq_range']
      rw [vadd_map_range mo _ wk size 0 hlen]
      apply List.map_congr_left
      intro i _
      rw [wsum_shift]
      simp
end Tdot

section Lstsq
variable {F : Type} [Field F] [LinearOrder F] [IsStrictOrderedRing F]
variable {ι κ : Type} [Fintype κ]

/-- the cost `lstsq` minimises: squared residual over the samples whose datum is finite (`some`) -/
def lsqCost (V : Finset ι) (M : κ → ι → F) (d : ι → F) (w : κ → F) : F :=
  ∑ i ∈ V, (∑ k, w k * M k i - d i) ^ 2

/-- **least squares inverts synthesis**: if the data equal `Σ_k c_k M_k` on the valid samples `V` and the
modes are linearly independent on `V`, then `c` is the unique minimiser of the masked cost (cost 0). -/
theorem lstsq_recovers (V : Finset ι) (M : κ → ι → F) (d : ι → F) (c : κ → F)
    (hsyn : ∀ i ∈ V, d i = ∑ k, c k * M k i)
    (hindep : ∀ v : κ → F, (∀ i ∈ V, ∑ k, v k * M k i = 0) → v = 0) :
    lsqCost V M d c = 0 ∧ ∀ w, lsqCost V M d w ≤ lsqCost V M d c → w = c := by
  have h0 : lsqCost V M d c = 0 := by
    unfold lsqCost
    apply Finset.sum_eq_zero
    intro i hi
    rw [hsyn i hi]; ring
  refine ⟨h0, ?_⟩
  intro w hw
  rw [h0] at hw
  have hnn : ∀ i ∈ V, 0 ≤ (∑ k, w k * M k i - d i) ^ 2 := fun i _ => sq_nonneg _
  have hz : lsqCost V M d w = 0 := le_antisymm hw (Finset.sum_nonneg hnn)
  have hall := (Finset.sum_eq_zero_iff_of_nonneg hnn).mp hz
  have hv : (fun k => w k - c k) = 0 := by
    apply hindep
    intro i hi
    have := hall i hi
    have e : ∑ k, w k * M k i - d i = 0 := pow_eq_zero_iff (two_ne_zero) |>.mp this
    rw [hsyn i hi] at e
    have : ∑ k, (w k - c k) * M k i = ∑ k, w k * M k i - ∑ k, c k * M k i := by
      rw [← Finset.sum_sub_distrib]; apply Finset.sum_congr rfl; intro k _; ring
    rw [this]; exact e
  funext k
  have := congrFun hv k
  simpa [sub_eq_zero] using this

/-- samples outside the valid set cannot influence the fit: the cost only reads `V` -/
theorem lstsq_ignores_invalid (V : Finset ι) (M M' : κ → ι → F) (d d' : ι → F)
    (hM : ∀ k, ∀ i ∈ V, M k i = M' k i) (hd : ∀ i ∈ V, d i = d' i) (w : κ → F) :
    lsqCost V M d w = lsqCost V M' d' w := by
  unfold lsqCost
  apply Finset.sum_congr rfl
  intro i hi
  rw [hd i hi]
  congr 2
  apply Finset.sum_congr rfl
  intro k _
  rw [hM k i hi]
/-- **normal equations ⇒ least squares**: if `w` satisfies `Aᵀ(A w - d) = 0` on the valid samples, then `w` minimises the masked
cost (this is what the exact rational oracle `lstsqNormal` solves; its output is re-checked against the normal equations at run time) -/
theorem normal_eq_minimises (V : Finset ι) (M : κ → ι → F) (d : ι → F) (w : κ → F)
    (hN : ∀ k, ∑ i ∈ V, M k i * (∑ j, w j * M j i - d i) = 0) (v : κ → F) :
    lsqCost V M d w ≤ lsqCost V M d v := by
  unfold lsqCost
  have key : ∀ i, (∑ k, v k * M k i - d i) ^ 2 =
      (∑ k, w k * M k i - d i) ^ 2 + (∑ k, (v k - w k) * M k i) ^ 2
        + 2 * ((∑ k, (v k - w k) * M k i) * (∑ k, w k * M k i - d i)) := by
    intro i
    have : ∑ k, v k * M k i = ∑ k, w k * M k i + ∑ k, (v k - w k) * M k i := by
      rw [← Finset.sum_add_distrib]; apply Finset.sum_congr rfl; intro k _; ring
    rw [this]; ring
  have cross : ∑ i ∈ V, (∑ k, (v k - w k) * M k i) * (∑ k, w k * M k i - d i) = 0 := by
    have : ∀ i, (∑ k, (v k - w k) * M k i) * (∑ j, w j * M j i - d i)
        = ∑ k, (v k - w k) * (M k i * (∑ j, w j * M j i - d i)) := by
      intro i; rw [Finset.sum_mul]; apply Finset.sum_congr rfl; intro k _; ring
    simp only [this]
    rw [Finset.sum_comm]
    apply Finset.sum_eq_zero
    intro k _
    rw [← Finset.mul_sum, hN k, mul_zero]
  calc ∑ i ∈ V, (∑ k, w k * M k i - d i) ^ 2
      ≤ ∑ i ∈ V, (∑ k, w k * M k i - d i) ^ 2 + ∑ i ∈ V, (∑ k, (v k - w k) * M k i) ^ 2 :=
        le_add_of_nonneg_right (Finset.sum_nonneg (fun i _ => sq_nonneg _))
    _ = ∑ i ∈ V, (∑ k, v k * M k i - d i) ^ 2 := by
        simp only [key, Finset.sum_add_distrib, ← Finset.mul_sum, cross]
        ring
end Lstsq
end C10L
