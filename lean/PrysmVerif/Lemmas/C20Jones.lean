import PrysmVerif.Model.C20
import PrysmVerif.Lemmas.C17Num
import Mathlib.Tactic.Ring
import Mathlib.Tactic.FieldSimp
import Mathlib.Tactic.LinearCombination
import Mathlib.Algebra.Star.Basic
/-!
# C20 — algebra of 2×2 Jones matrices over a field with a star operation (helper lemmas)
-/
namespace C20Jones
open Model.C20 C17Num

variable {K : Type} [Field K]

omit [Field K] in
theorem M22.ext' {x y : M22 K} (ha : x.a = y.a) (hb : x.b = y.b) (hc : x.c = y.c) (hd : x.d = y.d) : x = y := by
  cases x; cases y; simp_all

theorem m_mul_assoc (x y z : M22 K) : (x.mul y).mul z = x.mul (y.mul z) := by
  apply M22.ext' <;> simp only [M22.mul] <;> ring

theorem m_one_mul (x : M22 K) : (M22.one : M22 K).mul x = x := by
  apply M22.ext' <;> simp [M22.mul, M22.one]

theorem m_mul_one (x : M22 K) : x.mul (M22.one : M22 K) = x := by
  apply M22.ext' <;> simp [M22.mul, M22.one]

/-- conjugate transpose -/
def conjT [StarRing K] (x : M22 K) : M22 K := ⟨star x.a, star x.c, star x.b, star x.d⟩

theorem conjT_mul [StarRing K] (x y : M22 K) : conjT (x.mul y) = (conjT y).mul (conjT x) := by
  apply M22.ext' <;> simp only [conjT, M22.mul, star_add, star_mul'] <;> ring

theorem conjT_one [StarRing K] : conjT (M22.one : M22 K) = M22.one := by
  apply M22.ext' <;> simp [conjT, M22.one]

/-- a real rotation: `R(θ)ᴴ = R(-θ)` -/
theorem conjT_rot [StarRing K] (c s : K) (hc : star c = c) (hs : star s = s) : conjT (rot c s) = rot c (-s) := by
  apply M22.ext' <;> simp [conjT, rot, hc, hs]

theorem rot_mul (c s c' s' : K) : (rot c s).mul (rot c' s') = rot (c * c' - s * s') (s * c' + c * s') := by
  apply M22.ext' <;> simp only [rot, M22.mul] <;> ring

theorem rot_neg_mul (c s : K) (h : c ^ 2 + s ^ 2 = 1) : (rot c (-s)).mul (rot c s) = M22.one := by
  apply M22.ext' <;> simp only [rot, M22.mul, M22.one, ofInt_eq] <;> push_cast <;> first | ring1 | linear_combination h

theorem rot_mul_neg (c s : K) (h : c ^ 2 + s ^ 2 = 1) : (rot c s).mul (rot c (-s)) = M22.one := by
  apply M22.ext' <;> simp only [rot, M22.mul, M22.one, ofInt_eq] <;> push_cast <;> first | ring1 | linear_combination h

/-- `R(-θ) X R(θ)` is unitary as soon as `X` is (real `c s`, `c² + s² = 1`) -/
theorem sandwich_unitary [StarRing K] (c s : K) (hc : star c = c) (hs : star s = s) (h : c ^ 2 + s ^ 2 = 1)
    (X : M22 K) (hX : X.mul (conjT X) = M22.one) :
    (sandwich c s X).mul (conjT (sandwich c s X)) = M22.one := by
  have hs' : star (-s) = -s := by simp [hs]
  simp only [sandwich, conjT_mul, conjT_rot c s hc hs, conjT_rot c (-s) hc hs', neg_neg]
  calc ((rot c (-s)).mul X |>.mul (rot c s)).mul ((rot c (-s)).mul ((conjT X).mul (rot c s)))
      = (rot c (-s)).mul (X.mul (((rot c s).mul (rot c (-s))).mul ((conjT X).mul (rot c s)))) := by
        simp only [m_mul_assoc]
    _ = (rot c (-s)).mul ((X.mul (conjT X)).mul (rot c s)) := by
        rw [rot_mul_neg c s h, m_one_mul, m_mul_assoc]
    _ = M22.one := by rw [hX, m_one_mul, rot_neg_mul c s h]

/-- and `Xᴴ X = 1` is inherited in the same way -/
theorem sandwich_unitary' [StarRing K] (c s : K) (hc : star c = c) (hs : star s = s) (h : c ^ 2 + s ^ 2 = 1)
    (X : M22 K) (hX : (conjT X).mul X = M22.one) :
    (conjT (sandwich c s X)).mul (sandwich c s X) = M22.one := by
  have hs' : star (-s) = -s := by simp [hs]
  simp only [sandwich, conjT_mul, conjT_rot c s hc hs, conjT_rot c (-s) hc hs', neg_neg]
  calc ((rot c (-s)).mul ((conjT X).mul (rot c s))).mul ((rot c (-s)).mul X |>.mul (rot c s))
      = (rot c (-s)).mul ((conjT X).mul (((rot c s).mul (rot c (-s))).mul (X.mul (rot c s)))) := by
        simp only [m_mul_assoc]
    _ = (rot c (-s)).mul (((conjT X).mul X).mul (rot c s)) := by
        rw [rot_mul_neg c s h, m_one_mul, m_mul_assoc]
    _ = M22.one := by rw [hX, m_one_mul, rot_neg_mul c s h]

end C20Jones
