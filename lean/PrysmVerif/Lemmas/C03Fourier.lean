import PrysmVerif.Lemmas.C03Basic
import Mathlib.Algebra.Ring.GeomSum
import Mathlib.Algebra.Field.GeomSum
import Mathlib.Algebra.Order.Group.Int
open C03Lemmas
open scoped C01
namespace C03Lemmas
open Model.C03
variable {R V : Type} [Field R] [Field V]

theorem coord_eq (n i : Nat) : (coord n i : R) = ((i : R) - ((n / 2 : Nat) : R)) := by
  have h : ((n : Int) / 2) = ((n / 2 : Nat) : Int) := by omega
  unfold coord
  rw [ofInt_eq, h, Int.cast_sub, Int.cast_natCast, Int.cast_natCast]

theorem mdft1_eq_sum (e : R → V) (n N : Nat) (α s : R) (f : Nat → V) (l : Nat) :
    mdft1 e n N α s f l = ∑ i ∈ Finset.range n, f i * e ((coord n i - s) * (coord N l - s) * α) := by
  simp only [mdft1, sumTo_eq_sum]

theorem F1_eq_sum (e : R → V) (n : Nat) (dx κ : R) (f : Nat → V) (ξ : R) :
    F1 e n dx κ f ξ = ∑ i ∈ Finset.range n, f i * e (coord n i * dx * ξ * κ) := by
  simp only [F1, sumTo_eq_sum]

/-- tilt theorem, one axis -/
theorem F1_tilt (e : R → V) (he : ∀ a b, e (a + b) = e a * e b) (n : Nat) (dx κ k : R) (f : Nat → V) (ξ : R)
    (hn : (n : R) ≠ 0) (hdx : dx ≠ 0) (hκ : κ ≠ 0) :
    F1 e n dx κ (fun i => f i * tilt e n k i) ξ = F1 e n dx κ f (ξ - k / ((n : R) * dx * κ)) := by
  simp only [F1_eq_sum, tilt]
  refine Finset.sum_congr rfl fun i _ => ?_
  rw [mul_assoc, ← he]
  congr 2
  simp only [ofInt_eq, Int.cast_natCast]
  field_simp
  ring

/-- a matrix-DFT sample is a unit phase times the physical integral at the coordinate the route claims -/
theorem mdft1_samples_F (e : R → V) (he : ∀ a b, e (a + b) = e a * e b) (n N : Nat) (α s dx dxo κ : R)
    (f : Nat → V) (l : Nat) (hα : α = dx * dxo * κ) :
    mdft1 e n N α s f l = e (-(s * (coord N l - s) * α)) * F1 e n dx κ f ((coord N l - s) * dxo) := by
  simp only [mdft1_eq_sum, F1_eq_sum, Finset.mul_sum]
  refine Finset.sum_congr rfl fun i _ => ?_
  rw [mul_left_comm, ← he]
  congr 2
  rw [hα]; ring

theorem coord_add (N l p : Nat) : (coord N (l + p) : R) = coord N l + (p : R) := by
  simp [coord]; ring

theorem mdft1_shift_translates (e : R → V) (he : ∀ a b, e (a + b) = e a * e b) (n N : Nat) (α s : R) (p : Nat)
    (f : Nat → V) (l : Nat) :
    mdft1 e n N α (s + p) f (l + p)
      = e (-((p : R) * (coord N l - s) * α)) * mdft1 e n N α s f l := by
  simp only [mdft1_eq_sum, Finset.mul_sum, coord_add]
  refine Finset.sum_congr rfl fun i _ => ?_
  rw [mul_left_comm, ← he]
  congr 2
  ring

/-- zero-pad embedding with the origin on the origin: any sum over the padded axis whose weights depend on the
FFT-aligned coordinate only equals the sum over the original axis -/
theorem sum_padded (n N : Nat) (hnN : n ≤ N) (f : Nat → V) (g : R → V) :
    ∑ i ∈ Finset.range N, padded n N f i * g (coord N i) = ∑ i ∈ Finset.range n, f i * g (coord n i) := by
  have ho : N / 2 - n / 2 + n ≤ N := by omega
  have hle : n / 2 ≤ N / 2 := by omega
  set o := N / 2 - n / 2 with hodef
  have h1 : ∀ i ∈ Finset.range N, padded n N f i * g (coord N i)
      = if o ≤ i ∧ i < o + n then f (i - o) * g (coord n (i - o)) else 0 := by
    intro i _
    simp only [padded, ofInt_eq, Int.cast_zero, ← hodef]
    split
    · rename_i h
      have : (coord N i : R) = coord n (i - o) := by
        rw [coord_eq, coord_eq]
        have h2 : i = (i - o) + o := by omega
        have h3 : N / 2 = n / 2 + o := by omega
        conv_lhs => rw [h2, h3]
        push_cast; ring
      rw [this]
    · simp
  rw [Finset.sum_congr rfl h1, ← Finset.sum_filter]
  have hf : (Finset.range N).filter (fun i => o ≤ i ∧ i < o + n) = Finset.Ico o (o + n) := by
    ext i; simp only [Finset.mem_filter, Finset.mem_range, Finset.mem_Ico]; omega
  rw [hf, Finset.sum_Ico_eq_sum_range]
  simp only [Nat.add_sub_cancel_left]

theorem mdft1_pad_invariant (e : R → V) (n n' N : Nat) (h : n ≤ n') (α s : R) (f : Nat → V) (l : Nat) :
    mdft1 e n' N α s (padded n n' f) l = mdft1 e n N α s f l := by
  simp only [mdft1_eq_sum]
  exact sum_padded n n' h f (fun c => e ((c - s) * (coord N l - s) * α))

theorem mdft1_add (e : R → V) (n N : Nat) (α s : R) (f g : Nat → V) (l : Nat) :
    mdft1 e n N α s (fun i => f i + g i) l = mdft1 e n N α s f l + mdft1 e n N α s g l := by
  simp only [mdft1_eq_sum, add_mul, Finset.sum_add_distrib]

theorem mdft1_smul (e : R → V) (n N : Nat) (α s : R) (a : V) (f : Nat → V) (l : Nat) :
    mdft1 e n N α s (fun i => a * f i) l = a * mdft1 e n N α s f l := by
  simp only [mdft1_eq_sum, Finset.mul_sum, mul_assoc]

theorem mdft1_sum {ι : Type} (t : Finset ι) (e : R → V) (n N : Nat) (α s : R) (a : ι → V) (f : ι → Nat → V) (l : Nat) :
    mdft1 e n N α s (fun i => ∑ j ∈ t, a j * f j i) l = ∑ j ∈ t, a j * mdft1 e n N α s (f j) l := by
  simp only [mdft1_eq_sum, Finset.mul_sum, Finset.sum_mul, mul_assoc]
  rw [Finset.sum_comm]

theorem mdft2_eq_sum (e : R → V) (m n M N : Nat) (αy αx sy sx : R) (norm : V) (f : Nat → Nat → V) (k l : Nat) :
    mdft2 e m n M N αy αx sy sx norm f k l = norm * ∑ j ∈ Finset.range m, ∑ i ∈ Finset.range n,
      f j i * (e ((coord m j - sy) * (coord M k - sy) * αy) * e ((coord n i - sx) * (coord N l - sx) * αx)) := by
  simp only [mdft2, mdft1_eq_sum, Finset.sum_mul]
  congr 1
  refine Finset.sum_congr rfl fun j _ => Finset.sum_congr rfl fun i _ => ?_
  ring

theorem mdft2_transpose (e : R → V) (m n M N : Nat) (αy αx sy sx : R) (norm : V) (f : Nat → Nat → V) (k l : Nat) :
    mdft2 e n m N M αx αy sx sy norm (fun i j => f j i) l k = mdft2 e m n M N αy αx sy sx norm f k l := by
  simp only [mdft2_eq_sum]
  rw [Finset.sum_comm]
  congr 1
  refine Finset.sum_congr rfl fun j _ => Finset.sum_congr rfl fun i _ => ?_
  ring


/-- round trip over a band-complete grid (`α = 1/M` on both legs, same shift): `M` times the identity -/
theorem allpass_1d (e : R → V) (he : ∀ a b, e (a + b) = e a * e b) (he0 : e 0 = 1) (n M : Nat)
    (horth : ∀ d : ℤ, ∑ l ∈ Finset.range M, e ((d : R) * (l : R) / (M : R)) = if (M : ℤ) ∣ d then (M : V) else 0)
    (hn : n ≤ M) (s : R) (f : Nat → V) (i' : Nat) (hi' : i' < n) :
    mdft1 (fun t => e (-t)) M n (1 / (M : R)) s (fun l => mdft1 e n M (1 / (M : R)) s f l) i' = (M : V) * f i' := by
  simp only [mdft1_eq_sum, Finset.sum_mul]
  rw [Finset.sum_comm]
  have key : ∀ i ∈ Finset.range n,
      ∑ l ∈ Finset.range M, f i * e ((coord n i - s) * (coord M l - s) * (1 / (M : R)))
          * e (-((coord M l - s) * (coord n i' - s) * (1 / (M : R))))
        = if i = i' then (M : V) * f i' else 0 := by
    intro i hi
    have hi := Finset.mem_range.mp hi
    have hterm : ∀ l : Nat, f i * e ((coord n i - s) * (coord M l - s) * (1 / (M : R)))
          * e (-((coord M l - s) * (coord n i' - s) * (1 / (M : R))))
        = (f i * e (-((((i : ℤ) - (i' : ℤ) : ℤ) : R) * (((M / 2 : ℕ) : R) + s) * (1 / (M : R)))))
            * e ((((i : ℤ) - (i' : ℤ) : ℤ) : R) * (l : R) / (M : R)) := by
      intro l
      rw [mul_assoc (f i) (e _) (e _), ← he, mul_assoc (f i) (e _) (e _), ← he]
      congr 2
      simp only [coord_eq]
      push_cast
      ring
    rw [Finset.sum_congr rfl (fun l _ => hterm l), ← Finset.mul_sum, horth]
    by_cases hii : i = i'
    · subst hii
      simp [he0, mul_comm]
    · have hnd : ¬ ((M : ℤ) ∣ ((i : ℤ) - (i' : ℤ))) := by
        intro hd
        have := Int.eq_zero_of_abs_lt_dvd hd (by rw [abs_lt]; constructor <;> omega)
        omega
      simp [hnd, hii]
  rw [Finset.sum_congr rfl key, Finset.sum_ite_eq' (Finset.range n) i' (fun _ => (M : V) * f i')]
  simp [hi']

theorem coord_int (N l l' : Nat) (p : ℤ) (h : (l' : ℤ) = (l : ℤ) + p) : (coord N l' : R) = coord N l + (p : R) := by
  simp only [coord, ofInt_eq, h]; push_cast; ring

/-- shift by `p` whole output samples (either sign): element `l + p` of the result with shift `s + p` is a unit phase (the same
for every input sample) times element `l` of the result with shift `s` -/
theorem mdft1_shift_translates_int (e : R → V) (he : ∀ a b, e (a + b) = e a * e b) (n N : Nat) (α s : R) (p : ℤ)
    (f : Nat → V) (l l' : Nat) (h : (l' : ℤ) = (l : ℤ) + p) :
    mdft1 e n N α (s + p) f l' = e (-((p : R) * (coord N l - s) * α)) * mdft1 e n N α s f l := by
  simp only [mdft1_eq_sum, Finset.mul_sum, coord_int N l l' p h]
  refine Finset.sum_congr rfl fun i _ => ?_
  rw [mul_left_comm, ← he]
  congr 2
  ring

theorem mdft2_separable (e : R → V) (m n M N : Nat) (αy αx sy sx : R) (norm : V) (u v : Nat → V) (k l : Nat) :
    mdft2 e m n M N αy αx sy sx norm (fun j i => u j * v i) k l
      = norm * (mdft1 e m M αy sy u k * mdft1 e n N αx sx v l) := by
  simp only [mdft2, mdft1_smul]
  rw [show (fun j => u j * mdft1 e n N αx sx v l) = fun j => mdft1 e n N αx sx v l * u j from funext fun j => mul_comm _ _,
    mdft1_smul]
  ring

/-- a point source on one axis -/
theorem mdft1_delta (e : R → V) (n N : Nat) (α s : R) (a : V) (p l : Nat) (hp : p < n) :
    mdft1 e n N α s (fun i => if i = p then a else 0) l = a * e ((coord n p - s) * (coord N l - s) * α) := by
  rw [mdft1_eq_sum, Finset.sum_eq_single p]
  · simp
  · intro b _ hb; simp [hb]
  · intro h; exact absurd (Finset.mem_range.mpr hp) h

end C03Lemmas
