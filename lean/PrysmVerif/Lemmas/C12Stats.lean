import PrysmVerif.Lemmas.C12Sound
import Mathlib.Algebra.Order.Field.Basic
import Mathlib.Analysis.SpecialFunctions.Sqrt
import Mathlib.Tactic.Linarith
import Mathlib.Tactic.Positivity
import Mathlib.Tactic.FieldSimp
set_option linter.unusedSectionVars false
set_option linter.unusedVariables false
set_option linter.unusedSimpArgs false
/-! # C12 — statistics, piston / least-squares removal over an ordered field (lists of valid samples) -/
namespace C12
open Model.C12

section field
variable {K : Type} [Field K]

theorem ofInt_zero : (Num.ofInt 0 : K) = 0 := by show ((0 : Int) : K) = 0; simp
theorem lenK_eq (l : List K) : lenK l = (l.length : K) := by show (((l.length : Nat) : Int) : K) = _; simp

theorem lsum_nil : lsum ([] : List K) = 0 := ofInt_zero
theorem lsum_cons (v : K) (l : List K) : lsum (v :: l) = v + lsum l := rfl

theorem lsum_map_sub (l : List K) (c : K) : lsum (l.map fun v => v - c) = lsum l - (l.length : K) * c := by
  induction l with
  | nil => simp [lsum_nil]
  | cons v l ih => simp only [List.map_cons, lsum_cons, ih, List.length_cons]; push_cast; ring

theorem lsum_map_sq_sub (l : List K) (c : K) :
    lsum (l.map fun v => (v - c) * (v - c)) = lsum (l.map fun v => v * v) - 2 * c * lsum l + (l.length : K) * c * c := by
  induction l with
  | nil => simp [lsum_nil]
  | cons v l ih => simp only [List.map_cons, lsum_cons, ih, List.length_cons]; push_cast; ring

theorem map_map_sq_sub (l : List K) (c : K) :
    (l.map fun v => v - c).map (fun v => v * v) = l.map fun v => (v - c) * (v - c) := by
  simp [List.map_map, Function.comp_def]

end field

section ordered
variable {K : Type} [Field K] [LinearOrder K] [IsStrictOrderedRing K]

theorem len_pos {l : List K} (h : l ≠ []) : (0 : K) < (l.length : K) := by
  exact_mod_cast List.length_pos_iff.mpr h

/-- mean square = variance + mean² (the identity behind `rms² = std² + mean²`) -/
theorem meanSq_eq_var_add (l : List K) (h : l ≠ []) : meanSq l = var l + mean l * mean l := by
  have hn := (len_pos h).ne'
  simp only [meanSq, var, lenK_eq, List.length_map, map_map_sq_sub, lsum_map_sq_sub, mean]
  field_simp
  ring


theorem two_sumabs_mul_le (d : List K) (a : K) :
    2 * lsum (d.map fun v => |v|) * |a| ≤ lsum (d.map fun v => v * v) + (d.length : K) * (a * a) := by
  induction d with
  | nil => simp [lsum_nil]
  | cons v d ih =>
    simp only [List.map_cons, lsum_cons, List.length_cons]
    push_cast
    have h1 : 2 * |v| * |a| ≤ v * v + a * a := by
      nlinarith [sq_nonneg (|v| - |a|), abs_mul_abs_self v, abs_mul_abs_self a]
    nlinarith

theorem sumabs_sq_le (d : List K) :
    lsum (d.map fun v => |v|) * lsum (d.map fun v => |v|) ≤ (d.length : K) * lsum (d.map fun v => v * v) := by
  induction d with
  | nil => simp [lsum_nil]
  | cons a d ih =>
    simp only [List.map_cons, lsum_cons, List.length_cons]
    push_cast
    have h1 := two_sumabs_mul_le d a
    nlinarith [abs_mul_abs_self a]

/-- `Sa² ≤ std²` -/
theorem sa_sq_le_var (l : List K) (h : l ≠ []) : saWith (fun v => |v|) l * saWith (fun v => |v|) l ≤ var l := by
  have hn := len_pos h
  set d := l.map fun v => v - mean l with hd
  have hS := sumabs_sq_le d
  have hlen : d.length = l.length := by simp [hd]
  have e1 : saWith (fun v => |v|) l = lsum (d.map fun v => |v|) / (l.length : K) := by
    simp [saWith, hd, lenK_eq, List.map_map, Function.comp_def]
  have e2 : var l = lsum (d.map fun v => v * v) / (l.length : K) := by
    simp [var, meanSq, hd, lenK_eq]
  rw [hlen] at hS
  rw [e1, e2, div_mul_div_comm, div_le_div_iff₀ (by positivity) hn]
  nlinarith [mul_le_mul_of_nonneg_right hS hn.le]

theorem lmax_cons_cons (v w : K) (l : List K) :
    lmax (v :: w :: l) = if lmax (w :: l) < v then v else lmax (w :: l) := rfl
theorem lmin_cons_cons (v w : K) (l : List K) :
    lmin (v :: w :: l) = if v < lmin (w :: l) then v else lmin (w :: l) := rfl

theorem le_lmax (l : List K) : ∀ v ∈ l, v ≤ lmax l := by
  induction l with
  | nil => simp
  | cons a l ih =>
    cases l with
    | nil => simp [lmax]
    | cons w l =>
      intro v hv
      rw [lmax_cons_cons]
      rcases List.mem_cons.mp hv with rfl | hv
      · split <;> order
      · have := ih v hv
        split <;> order

theorem lmin_le (l : List K) : ∀ v ∈ l, lmin l ≤ v := by
  induction l with
  | nil => simp
  | cons a l ih =>
    cases l with
    | nil => simp [lmin]
    | cons w l =>
      intro v hv
      rw [lmin_cons_cons]
      rcases List.mem_cons.mp hv with rfl | hv
      · split <;> order
      · have := ih v hv
        split <;> order

theorem lsum_le_of_le (l : List K) (f : K → K) (c : K) (h : ∀ v ∈ l, f v ≤ c) :
    lsum (l.map f) ≤ (l.length : K) * c := by
  induction l with
  | nil => simp [lsum_nil]
  | cons a l ih =>
    simp only [List.map_cons, lsum_cons, List.length_cons]; push_cast
    have := ih (fun v hv => h v (List.mem_cons_of_mem _ hv))
    have := h a (List.mem_cons_self)
    linarith

theorem lsum_ge_of_ge (l : List K) (f : K → K) (c : K) (h : ∀ v ∈ l, c ≤ f v) :
    (l.length : K) * c ≤ lsum (l.map f) := by
  induction l with
  | nil => simp [lsum_nil]
  | cons a l ih =>
    simp only [List.map_cons, lsum_cons, List.length_cons]; push_cast
    have := ih (fun v hv => h v (List.mem_cons_of_mem _ hv))
    have := h a (List.mem_cons_self)
    linarith

theorem mean_le_lmax (l : List K) (h : l ≠ []) : mean l ≤ lmax l := by
  have hn := len_pos h
  have := lsum_le_of_le l id (lmax l) (le_lmax l)
  rw [List.map_id] at this
  rw [mean, lenK_eq, div_le_iff₀ hn]; linarith

theorem lmin_le_mean (l : List K) (h : l ≠ []) : lmin l ≤ mean l := by
  have hn := len_pos h
  have := lsum_ge_of_ge l id (lmin l) (lmin_le l)
  rw [List.map_id] at this
  rw [mean, lenK_eq, le_div_iff₀ hn]; linarith

/-- `std² ≤ PV²` -/
theorem var_le_pv_sq (l : List K) (h : l ≠ []) : var l ≤ pv l * pv l := by
  have hn := len_pos h
  have h1 := mean_le_lmax l h
  have h2 := lmin_le_mean l h
  have key : ∀ v ∈ l, (v - mean l) * (v - mean l) ≤ pv l * pv l := by
    intro v hv
    have a := le_lmax l v hv
    have b := lmin_le l v hv
    simp only [pv]
    nlinarith
  have := lsum_le_of_le l (fun v => (v - mean l) * (v - mean l)) _ key
  have e2 : var l = lsum (l.map fun v => (v - mean l) * (v - mean l)) / (l.length : K) := by
    simp [var, meanSq, lenK_eq, List.map_map, Function.comp_def]
  rw [e2, div_le_iff₀ hn]; linarith

theorem pv_nonneg (l : List K) (h : l ≠ []) : 0 ≤ pv l := by
  have h1 := mean_le_lmax l h
  have h2 := lmin_le_mean l h
  simp only [pv]; linarith

end ordered
section ordered
variable {K : Type} [Field K] [LinearOrder K] [IsStrictOrderedRing K]

theorem validOf_map (d : List (Option K)) (f : K → K) : validOf (d.map (Option.map f)) = (validOf d).map f := by
  induction d with
  | nil => rfl
  | cons a d ih => cases a <;> simp_all [validOf, List.filterMap_cons]

/-- piston removal leaves zero mean over the valid samples -/
theorem mean_removePiston (d : List (Option K)) (h : validOf d ≠ []) : mean (validOf (removePiston d)) = 0 := by
  have hn := (len_pos h).ne'
  simp only [removePiston, validOf_map]
  simp only [mean, lenK_eq, List.length_map, lsum_map_sub]
  field_simp
  ring

/-- piston removal does not touch validity -/
theorem removePiston_valid (d : List (Option K)) : (removePiston d).map Option.isSome = d.map Option.isSome := by
  simp [removePiston, List.map_map, Function.comp_def]

/-! least squares with two columns -/

theorem lsum_map_add (l : List (K × K × K)) (f g : K × K × K → K) :
    lsum (l.map fun p => f p + g p) = lsum (l.map f) + lsum (l.map g) := by
  induction l with
  | nil => simp [lsum_nil]
  | cons a l ih => simp only [List.map_cons, lsum_cons, ih]; ring

theorem lsum_map_smul (l : List (K × K × K)) (c : K) (f : K × K × K → K) :
    lsum (l.map fun p => c * f p) = c * lsum (l.map f) := by
  induction l with
  | nil => simp [lsum_nil]
  | cons a l ih => simp only [List.map_cons, lsum_cons, ih]; ring

theorem sums_removeBoth (l : List (K × K × K)) :
    let S := sums l; let c := fit2 l; let S' := sums (removeBoth l)
    S'.aa = S.aa ∧ S'.ab = S.ab ∧ S'.bb = S.bb ∧
    S'.az = S.az - c.1 * S.aa - c.2 * S.ab ∧ S'.bz = S.bz - c.1 * S.ab - c.2 * S.bb := by
  simp only [sums, removeBoth, List.map_map, Function.comp_def]
  refine ⟨trivial, trivial, trivial, ?_, ?_⟩
  · generalize (fit2 l).1 = c1; generalize (fit2 l).2 = c2
    induction l with
    | nil => simp [lsum_nil]
    | cons a l ih => simp only [List.map_cons, lsum_cons, ih]; ring
  · generalize (fit2 l).1 = c1; generalize (fit2 l).2 = c2
    induction l with
    | nil => simp [lsum_nil]
    | cons a l ih => simp only [List.map_cons, lsum_cons, ih]; ring

theorem sums_removeFirst (l : List (K × K × K)) :
    let S := sums l; let c := fit2 l; let S' := sums (removeFirst l)
    S'.aa = S.aa ∧ S'.ab = S.ab ∧ S'.bb = S.bb ∧
    S'.az = S.az - c.1 * S.aa ∧ S'.bz = S.bz - c.1 * S.ab := by
  simp only [sums, removeFirst, List.map_map, Function.comp_def]
  refine ⟨trivial, trivial, trivial, ?_, ?_⟩
  · generalize (fit2 l).1 = c1
    induction l with
    | nil => simp [lsum_nil]
    | cons a l ih => simp only [List.map_cons, lsum_cons, ih]; ring
  · generalize (fit2 l).1 = c1
    induction l with
    | nil => simp [lsum_nil]
    | cons a l ih => simp only [List.map_cons, lsum_cons, ih]; ring

/-- the fitted coefficients solve the normal equations (when the two columns are independent) -/
theorem fit2_normal (l : List (K × K × K)) (hdet : (sums l).aa * (sums l).bb - (sums l).ab * (sums l).ab ≠ 0) :
    (fit2 l).1 * (sums l).aa + (fit2 l).2 * (sums l).ab = (sums l).az ∧
    (fit2 l).1 * (sums l).ab + (fit2 l).2 * (sums l).bb = (sums l).bz := by
  simp only [fit2]
  constructor
  · rw [div_mul_eq_mul_div, div_mul_eq_mul_div, ← add_div, div_eq_iff hdet]; ring
  · rw [div_mul_eq_mul_div, div_mul_eq_mul_div, ← add_div, div_eq_iff hdet]; ring

/-- tilt removal is idempotent: re-fitting the two removed columns to the result finds nothing -/
theorem fit2_removeBoth (l : List (K × K × K)) (hdet : (sums l).aa * (sums l).bb - (sums l).ab * (sums l).ab ≠ 0) :
    fit2 (removeBoth l) = (0, 0) := by
  obtain ⟨h1, h2, h3, h4, h5⟩ := sums_removeBoth l
  obtain ⟨n1, n2⟩ := fit2_normal l hdet
  have e : fit2 (removeBoth l) =
      (((sums (removeBoth l)).az * (sums (removeBoth l)).bb - (sums (removeBoth l)).bz * (sums (removeBoth l)).ab) /
        ((sums (removeBoth l)).aa * (sums (removeBoth l)).bb - (sums (removeBoth l)).ab * (sums (removeBoth l)).ab),
       ((sums (removeBoth l)).aa * (sums (removeBoth l)).bz - (sums (removeBoth l)).ab * (sums (removeBoth l)).az) /
        ((sums (removeBoth l)).aa * (sums (removeBoth l)).bb - (sums (removeBoth l)).ab * (sums (removeBoth l)).ab)) := rfl
  rw [e, h1, h2, h3, h4, h5]
  have z1 : (sums l).az - (fit2 l).1 * (sums l).aa - (fit2 l).2 * (sums l).ab = 0 := by linarith
  have z2 : (sums l).bz - (fit2 l).1 * (sums l).ab - (fit2 l).2 * (sums l).bb = 0 := by linarith
  rw [z1, z2]; simp

/-- power removal is idempotent: columns `(a, b) = (ρ², 1)`, only the `a` term is removed; re-fitting finds no `a` term -/
theorem fit2_removeFirst (l : List (K × K × K)) (hdet : (sums l).aa * (sums l).bb - (sums l).ab * (sums l).ab ≠ 0) :
    (fit2 (removeFirst l)).1 = 0 := by
  obtain ⟨h1, h2, h3, h4, h5⟩ := sums_removeFirst l
  obtain ⟨n1, n2⟩ := fit2_normal l hdet
  have e : (fit2 (removeFirst l)).1 =
      ((sums (removeFirst l)).az * (sums (removeFirst l)).bb - (sums (removeFirst l)).bz * (sums (removeFirst l)).ab) /
        ((sums (removeFirst l)).aa * (sums (removeFirst l)).bb - (sums (removeFirst l)).ab * (sums (removeFirst l)).ab) := rfl
  rw [e, h1, h2, h3, h4, h5]
  have z1 : (sums l).az - (fit2 l).1 * (sums l).aa = (fit2 l).2 * (sums l).ab := by linarith
  have z2 : (sums l).bz - (fit2 l).1 * (sums l).ab = (fit2 l).2 * (sums l).bb := by linarith
  rw [z1, z2]
  have : (fit2 l).2 * (sums l).ab * (sums l).bb - (fit2 l).2 * (sums l).bb * (sums l).ab = 0 := by ring
  rw [this]; simp

end ordered

/-! real-number versions with the square root -/
noncomputable section
open Real

def rmsR (l : List ℝ) : ℝ := Real.sqrt (meanSq l)
def stdR (l : List ℝ) : ℝ := Real.sqrt (var l)
def saR (l : List ℝ) : ℝ := saWith (fun v => |v|) l

theorem var_nonneg (l : List ℝ) (h : l ≠ []) : 0 ≤ var l :=
  le_trans (mul_self_nonneg _) (sa_sq_le_var l h)

theorem meanSq_nonneg (l : List ℝ) (h : l ≠ []) : 0 ≤ meanSq l := by
  rw [meanSq_eq_var_add l h]; nlinarith [var_nonneg l h, mul_self_nonneg (mean l)]

theorem saR_nonneg (l : List ℝ) (h : l ≠ []) : 0 ≤ saR l := by
  have hn := len_pos h
  have := lsum_ge_of_ge l (fun v => |v - mean l|) 0 (fun v _ => abs_nonneg _)
  simp only [saR, saWith, lenK_eq]
  apply div_nonneg _ hn.le
  simpa using this

end
end C12
