import PrysmVerif.Lemmas.C01Fourier
/-!
# C02 — unitarity from root-of-unity orthogonality

Generic part: a kernel `U k j` whose Gram matrix `Σ_k U k j · conj (U k j')` is the identity preserves energy
(`Σ |U x|² = Σ |x|²`) and is inverted by its conjugate transpose.  Specific part: the Gram matrix of the centred
/ shifted DFT kernel is the identity when the output covers one full period (`α·M = 1`, `n ≤ M`) — derived from
the orthogonality law, which itself is derived from the character laws in `C01Char`.
-/
set_option linter.unusedSectionVars false
set_option linter.unusedVariables false

namespace C01
open Finset Model.C01

variable {R K : Type} [Field R] [CharZero R] [Field K] [CharZero K]

/-! ## generic: Gram = identity ⇒ isometry and left inverse -/

/-- `Eᴴ * E = c • 1` (the Gram matrix of the columns of the kernel is `c` times the identity) -/
def IsGramC {ι κ : Type} [DecidableEq ι] (c : K) (s : Finset ι) (t : Finset κ) (U : κ → ι → K) (cj : K →+* K) : Prop :=
  ∀ j ∈ s, ∀ j' ∈ s, ∑ k ∈ t, U k j * cj (U k j') = if j = j' then c else 0

/-- `Eᴴ * E = 1` -/
abbrev IsGram {ι κ : Type} [DecidableEq ι] (s : Finset ι) (t : Finset κ) (U : κ → ι → K) (cj : K →+* K) : Prop :=
  IsGramC 1 s t U cj

theorem gramC_left_inverse {ι κ : Type} [DecidableEq ι] (c : K) (s : Finset ι) (t : Finset κ) (U : κ → ι → K)
    (cj : K →+* K) (hG : IsGramC c s t U cj) (x : ι → K) (j' : ι) (hj' : j' ∈ s) :
    ∑ k ∈ t, cj (U k j') * ∑ j ∈ s, U k j * x j = c * x j' := by
  have h1 : ∑ k ∈ t, cj (U k j') * ∑ j ∈ s, U k j * x j = ∑ j ∈ s, x j * ∑ k ∈ t, U k j * cj (U k j') := by
    simp only [Finset.mul_sum]
    rw [Finset.sum_comm]
    exact Finset.sum_congr rfl fun j _ => Finset.sum_congr rfl fun k _ => by ring
  rw [h1, Finset.sum_eq_single j']
  · rw [hG j' hj' j' hj', if_pos rfl, mul_comm]
  · intro j hj hne
    rw [hG j hj j' hj', if_neg hne, mul_zero]
  · intro h; exact absurd hj' h

/-- Parseval with a constant: `Σ |U x|² = c · Σ |x|²` -/
theorem gramC_parseval {ι κ : Type} [DecidableEq ι] (c : K) (s : Finset ι) (t : Finset κ) (U : κ → ι → K)
    (cj : K →+* K) (hG : IsGramC c s t U cj) (x : ι → K) :
    ∑ k ∈ t, (∑ j ∈ s, U k j * x j) * cj (∑ j ∈ s, U k j * x j) = c * ∑ j ∈ s, x j * cj (x j) := by
  have h1 : ∀ k ∈ t, (∑ j ∈ s, U k j * x j) * cj (∑ j ∈ s, U k j * x j)
      = ∑ j' ∈ s, cj (x j') * (cj (U k j') * ∑ j ∈ s, U k j * x j) := by
    intro k _
    rw [map_sum, Finset.mul_sum]
    refine Finset.sum_congr rfl fun j' _ => ?_
    rw [map_mul]; ring
  rw [Finset.sum_congr rfl h1, Finset.sum_comm, Finset.mul_sum]
  refine Finset.sum_congr rfl fun j' hj' => ?_
  rw [← Finset.mul_sum, gramC_left_inverse c s t U cj hG x j' hj']; ring

theorem gram_left_inverse {ι κ : Type} [DecidableEq ι] (s : Finset ι) (t : Finset κ) (U : κ → ι → K) (cj : K →+* K)
    (hG : IsGram s t U cj) (x : ι → K) (j' : ι) (hj' : j' ∈ s) :
    ∑ k ∈ t, cj (U k j') * ∑ j ∈ s, U k j * x j = x j' := by
  rw [gramC_left_inverse 1 s t U cj hG x j' hj', one_mul]

/-- Parseval: a kernel with identity Gram matrix preserves `Σ x · conj x` -/
theorem gram_parseval {ι κ : Type} [DecidableEq ι] (s : Finset ι) (t : Finset κ) (U : κ → ι → K) (cj : K →+* K)
    (hG : IsGram s t U cj) (x : ι → K) :
    ∑ k ∈ t, (∑ j ∈ s, U k j * x j) * cj (∑ j ∈ s, U k j * x j) = ∑ j ∈ s, x j * cj (x j) := by
  rw [gramC_parseval 1 s t U cj hG x, one_mul]

/-! ## the DFT kernel over one full period -/

/-- `Σ_{k<M} e(d·(k − c)/M − d·σ) = M·[d = 0]·…` for an integer `|d| < M`: the rotation by `c` and the real offset `σ`
do not matter -/
theorem sum_kernel_full_period {e : R → K} (he : IsChar e) (hf : IsFaithful e) (M : Nat) (hM : 0 < M) (c d : ℤ)
    (hd : ¬ ((M : ℤ) ∣ d) ∨ d = 0) (σ : R) :
    ∑ k ∈ range M, e (((d : R) / (M : R)) * ((((k : ℤ) - c : ℤ) : R) - σ)) = if d = 0 then (M : K) else 0 := by
  have hMR : (M : R) ≠ 0 := Nat.cast_ne_zero.mpr hM.ne'
  let F : ℤ → K := fun u => e ((u : R) * ((d : R) / (M : R)))
  have hper : ∀ u, F (u + M) = F u := by
    intro u
    apply he.congr_int d
    push_cast; field_simp
  have h1 : ∀ k ∈ range M, e (((d : R) / (M : R)) * ((((k : ℤ) - c : ℤ) : R) - σ))
      = e (-(((d : R) / (M : R)) * σ)) * F ((k : ℤ) + (-c)) := by
    intro k _
    rw [← he.add]; congr 1; push_cast; ring
  rw [Finset.sum_congr rfl h1, ← Finset.mul_sum, sum_range_periodic_shift hper (-c)]
  have h2 : ∑ t ∈ range M, F (t : ℤ) = ∑ k ∈ range M, e ((k : R) * ((d : R) / (M : R))) :=
    Finset.sum_congr rfl fun t _ => by simp [F]
  rw [h2, he.ortho hf M hM d]
  by_cases h0 : d = 0
  · subst h0; simp [he.zero]
  · rcases hd with hd | hd
    · rw [if_neg hd, if_neg h0, mul_zero]
    · exact absurd hd h0

/-- Gram matrix of the (shifted) matrix-DFT kernel `nrm α · e(α (x_j − s)(u_k − s))`, `j < n`, `k < M`, on a
band-complete grid: `α M = 1`, `n ≤ M`, `nrm α² = 1/M` -/
theorem basis_gram {e : R → K} (nrm : R → K) (he : IsChar e) (hf : IsFaithful e) (cj : K →+* K) (hc : IsConj cj e nrm)
    (n M : Nat) (hn : n ≤ M) (hM : 0 < M) (α s : R) (hα : α = 1 / (M : R)) (hnrm : nrm α * nrm α = 1 / (M : K)) :
    IsGram (range n) (range M) (fun k j => nrm α * basisEl e n M α s k j) cj := by
  intro j hj j' hj'
  have hj1 := mem_range.1 hj
  have hj2 := mem_range.1 hj'
  have hMK : (M : K) ≠ 0 := Nat.cast_ne_zero.mpr hM.ne'
  have h1 : ∀ k ∈ range M, (nrm α * basisEl e n M α s k j) * cj (nrm α * basisEl e n M α s k j')
      = (1 / (M : K)) * e (((((j : ℤ) - (j' : ℤ) : ℤ) : R) / (M : R)) * ((((k : ℤ) - (M : ℤ) / 2 : ℤ) : R) - s)) := by
    intro k _
    rw [map_mul, hc.nrm_conj]
    unfold basisEl
    rw [hc.e_conj, ← hnrm]
    have : e (α * (((xc n j : R) - s) * ((xc M k : R) - s))) * e (-(α * (((xc n j' : R) - s) * ((xc M k : R) - s))))
        = e (((((j : ℤ) - (j' : ℤ) : ℤ) : R) / (M : R)) * ((((k : ℤ) - (M : ℤ) / 2 : ℤ) : R) - s)) := by
      rw [← he.add]; congr 1
      simp only [xc_eq, xz, hα]; push_cast; ring
    rw [← this]; ring
  rw [Finset.sum_congr rfl h1, ← Finset.mul_sum,
    sum_kernel_full_period he hf M hM ((M : ℤ) / 2) ((j : ℤ) - (j' : ℤ)) ?_ s]
  · by_cases h : j = j'
    · subst h; simp [hMK]
    · rw [if_neg h, if_neg (by omega), mul_zero]
  · by_cases h : j = j'
    · right; omega
    · left
      intro hdvd
      rcases lt_or_gt_of_ne (show (j : ℤ) - j' ≠ 0 by omega) with hneg | hpos
      · have := Int.le_of_dvd (by omega : (0 : ℤ) < -((j : ℤ) - j')) ((Int.dvd_neg).2 hdvd)
        omega
      · have := Int.le_of_dvd hpos hdvd
        omega

end C01
