import PrysmVerif.Model.C13
import Mathlib.Algebra.BigOperators.Ring.Finset
import Mathlib.Data.Real.Basic
import Mathlib.Tactic.Ring
/-!
# C13 — `fftshift` / `ifftshift` are permutations of an axis (closed forms of the index maps)
-/
namespace C13L
open Model.C13 Finset

theorem rotSrc_fftshift_eq (n i : Int) (h0 : 0 ≤ i) (hi : i < n) :
    rotSrc .fftshift n i = if i < n / 2 then i - n / 2 + n else i - n / 2 := by
  show (i - n / 2) % n = _
  split
  · rw [← Int.add_emod_right]; exact Int.emod_eq_of_lt (by omega) (by omega)
  · exact Int.emod_eq_of_lt (by omega) (by omega)

theorem rotSrc_ifftshift_eq (n i : Int) (h0 : 0 ≤ i) (hi : i < n) :
    rotSrc .ifftshift n i = if i + n / 2 < n then i + n / 2 else i + n / 2 - n := by
  show (i + n / 2) % n = _
  split
  · exact Int.emod_eq_of_lt (by omega) (by omega)
  · rw [← Int.sub_emod_right]; exact Int.emod_eq_of_lt (by omega) (by omega)

theorem rotIdx_fftshift (n i : ℕ) (hi : i < n) :
    rotIdx .fftshift n i = if i < n / 2 then i + n - n / 2 else i - n / 2 := by
  unfold rotIdx
  rw [rotSrc_fftshift_eq _ _ (by omega) (by omega)]
  split <;> split <;> omega

theorem rotIdx_ifftshift (n i : ℕ) (hi : i < n) :
    rotIdx .ifftshift n i = if i + n / 2 < n then i + n / 2 else i + n / 2 - n := by
  unfold rotIdx
  rw [rotSrc_ifftshift_eq _ _ (by omega) (by omega)]
  split <;> split <;> omega

theorem rotIdx_none (n i : ℕ) : rotIdx .none n i = i := by
  simp [rotIdx, rotSrc]

/-- the rotation that undoes `R` -/
def rotInv : Rot → Rot
  | .none => .none
  | .fftshift => .ifftshift
  | .ifftshift => .fftshift

theorem rotIdx_lt (R : Rot) (n i : ℕ) (hi : i < n) : rotIdx R n i < n := by
  cases R
  · rw [rotIdx_none]; exact hi
  · rw [rotIdx_fftshift _ _ hi]; split <;> omega
  · rw [rotIdx_ifftshift _ _ hi]; split <;> omega

theorem rotIdx_inv (R : Rot) (n i : ℕ) (hi : i < n) : rotIdx (rotInv R) n (rotIdx R n i) = i := by
  have hlt := rotIdx_lt R n i hi
  cases R
  · simp [rotIdx_none, rotInv]
  · simp only [rotInv]
    rw [rotIdx_ifftshift _ _ hlt, rotIdx_fftshift _ _ hi]
    split <;> split <;> omega
  · simp only [rotInv]
    rw [rotIdx_fftshift _ _ hlt, rotIdx_ifftshift _ _ hi]
    split <;> split <;> omega

theorem rotInv_inv (R : Rot) : rotInv (rotInv R) = R := by cases R <;> rfl

/-- a rotation only permutes the samples of an axis -/
theorem sum_rot (R : Rot) (n : ℕ) (f : ℕ → ℝ) :
    ∑ i ∈ range n, f (rotIdx R n i) = ∑ i ∈ range n, f i := by
  refine sum_nbij' (rotIdx R n) (rotIdx (rotInv R) n) ?_ ?_ ?_ ?_ ?_
  · intro i hi; exact mem_range.mpr (rotIdx_lt R n i (mem_range.mp hi))
  · intro i hi; exact mem_range.mpr (rotIdx_lt _ n i (mem_range.mp hi))
  · intro i hi; exact rotIdx_inv R n i (mem_range.mp hi)
  · intro i hi
    have := rotIdx_inv (rotInv R) n i (mem_range.mp hi)
    rwa [rotInv_inv] at this
  · intro i _; rfl

end C13L
