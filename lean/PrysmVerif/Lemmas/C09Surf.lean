import PrysmVerif.Lemmas.C10Base
import Mathlib.Analysis.SpecialFunctions.Sqrt
import Mathlib.Analysis.SpecialFunctions.Trigonometric.Deriv
import Mathlib.Tactic.Positivity
/-!
# C09 — conic base surfaces of `x/raytracing/surfaces.py`: the slope routines are real derivatives

Statements are over `ℝ` with `Real.sqrt`, `Real.cos`, `Real.sin` and Mathlib's `HasDerivAt`, at every point where
the radicands are positive (i.e. inside the domain of the surface).
-/
set_option linter.unusedSectionVars false
set_option linter.unusedSimpArgs false
namespace C10L
open Model.C10 Model.C09 Real

/-- `a ↦ c a / (1 + √(1 - K a))` -/
theorem kernel_sag (c K A : ℝ) (h : 0 < 1 - K * A) :
    HasDerivAt (fun a => c * a / (1 + √(1 - K * a)))
      (c / (1 + √(1 - K * A)) + c * K * A / (2 * √(1 - K * A) * (1 + √(1 - K * A)) ^ 2)) A := by
  have hφ : 0 < √(1 - K * A) := Real.sqrt_pos.mpr h
  have h1 : HasDerivAt (fun a => 1 - K * a) (-K) A := by
    simpa using ((hasDerivAt_id A).const_mul K).const_sub 1
  have h2 : HasDerivAt (fun a => √(1 - K * a)) (-K / (2 * √(1 - K * A))) A := h1.sqrt h.ne'
  have h3 : HasDerivAt (fun a => 1 + √(1 - K * a)) (-K / (2 * √(1 - K * A))) A := by
    simpa using h2.const_add 1
  have h4 : HasDerivAt (fun a => c * a) c A := by simpa using (hasDerivAt_id A).const_mul c
  have hne : (1 + √(1 - K * A)) ≠ 0 := by positivity
  refine (h4.div h3 hne).congr_deriv ?_
  field_simp
  ring

/-- `a ↦ √(1 - L a) / √(1 - K a)` (with `L = 0`: `1/φ`) -/
theorem kernel_ratio (K L A : ℝ) (h : 0 < 1 - K * A) (hL : 0 < 1 - L * A) :
    HasDerivAt (fun a => √(1 - L * a) / √(1 - K * a))
      (K * √(1 - L * A) / (2 * (√(1 - K * A) * √(1 - K * A) * √(1 - K * A))) - L / (2 * √(1 - K * A) * √(1 - L * A))) A := by
  have hφ : 0 < √(1 - K * A) := Real.sqrt_pos.mpr h
  have hψ : 0 < √(1 - L * A) := Real.sqrt_pos.mpr hL
  have h1 : HasDerivAt (fun a => 1 - K * a) (-K) A := by
    simpa using ((hasDerivAt_id A).const_mul K).const_sub 1
  have h1' : HasDerivAt (fun a => 1 - L * a) (-L) A := by
    simpa using ((hasDerivAt_id A).const_mul L).const_sub 1
  have h2 : HasDerivAt (fun a => √(1 - K * a)) (-K / (2 * √(1 - K * A))) A := h1.sqrt h.ne'
  have h2' : HasDerivAt (fun a => √(1 - L * a)) (-L / (2 * √(1 - L * A))) A := h1'.sqrt hL.ne'
  refine (h2'.div h2 hφ.ne').congr_deriv ?_
  have e : √(1 - K * A) ^ 2 = 1 - K * A := Real.sq_sqrt h.le
  field_simp
  ring

/-! ### composition with the squared axial distance `A` -/

theorem phiRad_eq (c kappa q : ℝ) : phiRad c kappa q = 1 - (1 + kappa) * (c * c) * q := by
  simp [phiRad]
theorem psiRad_eq (c kappa q : ℝ) : psiRad c kappa q = 1 - kappa * (c * c) * q := by
  simp [psiRad]

/-- sag `c A / (1 + φ(A))` along any differentiable `A` -/
theorem sag_comp (c kappa : ℝ) (A : ℝ → ℝ) (A' x : ℝ) (hA : HasDerivAt A A' x) (h : 0 < phiRad c kappa (A x)) :
    HasDerivAt (fun y => conicSag c (A y) (√(phiRad c kappa (A y))))
      ((c / (1 + √(phiRad c kappa (A x)))
        + c * ((1 + kappa) * (c * c)) * A x / (2 * √(phiRad c kappa (A x)) * (1 + √(phiRad c kappa (A x))) ^ 2)) * A') x := by
  rw [phiRad_eq] at h
  have hk := kernel_sag c ((1 + kappa) * (c * c)) (A x) h
  have := hk.comp x hA
  simp only [phiRad_eq, conicSag, ofInt_eq]
  push_cast
  exact this

/-- `ψ(A)/φ(A)` along any differentiable `A` -/
theorem ratio_comp (c kappa : ℝ) (A : ℝ → ℝ) (A' x : ℝ) (hA : HasDerivAt A A' x)
    (h : 0 < phiRad c kappa (A x)) (hL : 0 < psiRad c kappa (A x)) :
    HasDerivAt (fun y => √(psiRad c kappa (A y)) / √(phiRad c kappa (A y)))
      (((1 + kappa) * (c * c) * √(psiRad c kappa (A x))
          / (2 * (√(phiRad c kappa (A x)) * √(phiRad c kappa (A x)) * √(phiRad c kappa (A x))))
        - kappa * (c * c) / (2 * √(phiRad c kappa (A x)) * √(psiRad c kappa (A x)))) * A') x := by
  rw [phiRad_eq] at h
  rw [psiRad_eq] at hL
  have hk := kernel_ratio ((1 + kappa) * (c * c)) (kappa * (c * c)) (A x) h hL
  have := hk.comp x hA
  simp only [phiRad_eq, psiRad_eq]
  exact this

/-- `a ↦ 1 / √(1 - K a)` -/
theorem kernel_inv (K A : ℝ) (h : 0 < 1 - K * A) :
    HasDerivAt (fun a => 1 / √(1 - K * a)) (K / (2 * (√(1 - K * A) * √(1 - K * A) * √(1 - K * A)))) A := by
  have hφ : 0 < √(1 - K * A) := Real.sqrt_pos.mpr h
  have h1 : HasDerivAt (fun a => 1 - K * a) (-K) A := by
    simpa using ((hasDerivAt_id A).const_mul K).const_sub 1
  have h2 : HasDerivAt (fun a => √(1 - K * a)) (-K / (2 * √(1 - K * A))) A := h1.sqrt h.ne'
  refine ((hasDerivAt_const A (1 : ℝ)).div h2 hφ.ne').congr_deriv ?_
  field_simp
  ring

/-- `1/φ(A)` along any differentiable `A` -/
theorem invphi_comp (c kappa : ℝ) (A : ℝ → ℝ) (A' x : ℝ) (hA : HasDerivAt A A' x) (h : 0 < phiRad c kappa (A x)) :
    HasDerivAt (fun y => 1 / √(phiRad c kappa (A y)))
      (((1 + kappa) * (c * c)
          / (2 * (√(phiRad c kappa (A x)) * √(phiRad c kappa (A x)) * √(phiRad c kappa (A x))))) * A') x := by
  rw [phiRad_eq] at h
  have hk := kernel_inv ((1 + kappa) * (c * c)) (A x) h
  have := hk.comp x hA
  simp only [phiRad_eq]
  exact this

theorem hasDerivAt_sq (x : ℝ) : HasDerivAt (fun r : ℝ => r * r) (2 * x) x := by
  have := (hasDerivAt_id' x).mul (hasDerivAt_id' x)
  refine this.congr_deriv ?_
  ring

theorem hasDerivAt_agg_r (s ct x : ℝ) : HasDerivAt (fun r : ℝ => oacAgg r s ct) (2 * x + 2 * s * ct) x := by
  have h1 := hasDerivAt_sq x
  have h2 : HasDerivAt (fun r : ℝ => 2 * s * r * ct) (2 * s * ct) x := by
    have := ((hasDerivAt_id' x).const_mul (2 * s)).mul_const ct
    refine this.congr_deriv ?_
    ring
  have := (h1.add h2).add_const (s * s)
  simp only [oacAgg, ofInt_eq]
  push_cast
  exact this

theorem hasDerivAt_agg_t_cos (r s x : ℝ) :
    HasDerivAt (fun t : ℝ => oacAgg r s (cos t)) (2 * (r * s * (-sin x))) x := by
  have h2 : HasDerivAt (fun t : ℝ => 2 * s * r * cos t) (2 * s * r * (-sin x)) x := (hasDerivAt_cos x).const_mul (2 * s * r)
  have := ((hasDerivAt_const x (r * r)).add h2).add_const (s * s)
  simp only [oacAgg, ofInt_eq]
  push_cast
  refine this.congr_deriv ?_
  ring

theorem hasDerivAt_agg_t_sin (r s x : ℝ) :
    HasDerivAt (fun t : ℝ => oacAgg r s (sin t)) (2 * (r * s * cos x)) x := by
  have h2 : HasDerivAt (fun t : ℝ => 2 * s * r * sin t) (2 * s * r * cos x) x := (hasDerivAt_sin x).const_mul (2 * s * r)
  have := ((hasDerivAt_const x (r * r)).add h2).add_const (s * s)
  simp only [oacAgg, ofInt_eq]
  push_cast
  refine this.congr_deriv ?_
  ring

/-! ### the routines -/

/-- **`sphere_sag_der` / `conic_sag_der`**: `c ρ / φ` is the derivative of the sag `c ρ² / (1 + φ)` -/
theorem conic_sag_der_correct (c kappa rho : ℝ) (h : 0 < phiRad c kappa (rho * rho)) :
    HasDerivAt (fun r => conicSag c (r * r) (√(phiRad c kappa (r * r))))
      (conicSagDer c rho (√(phiRad c kappa (rho * rho)))) rho := by
  have hφ : 0 < √(phiRad c kappa (rho * rho)) := Real.sqrt_pos.mpr h
  have e : √(phiRad c kappa (rho * rho)) ^ 2 = 1 - (1 + kappa) * (c * c) * (rho * rho) := by
    rw [Real.sq_sqrt h.le, phiRad_eq]
  refine (sag_comp c kappa (fun r => r * r) (2 * rho) rho (hasDerivAt_sq rho) h).congr_deriv ?_
  simp only [conicSagDer]
  generalize √(phiRad c kappa (rho * rho)) = φ at hφ e ⊢
  have h1 : (1 + φ) ≠ 0 := by positivity
  field_simp
  linear_combination (c * rho) * e

/-- **`der_direction_cosine_spheroid`**: `(1+k) c² ρ / φ³` is the derivative of `1/φ` -/
theorem dir_cos_der_correct (c k rho : ℝ) (h : 0 < phiRad c k (rho * rho)) :
    HasDerivAt (fun r => 1 / √(phiRad c k (r * r))) (dirCosDer c k rho (√(phiRad c k (rho * rho)))) rho := by
  have hφ : 0 < √(phiRad c k (rho * rho)) := Real.sqrt_pos.mpr h
  refine (invphi_comp c k (fun r => r * r) (2 * rho) rho (hasDerivAt_sq rho) h).congr_deriv ?_
  simp only [dirCosDer, ofInt_eq]
  push_cast
  field_simp

/-- **`off_axis_conic_der`, radial**: the first component is `∂/∂r` of `off_axis_conic_sag` -/
theorem oac_der_r_correct (c kappa r s ct ctp : ℝ) (h : 0 < phiRad c kappa (oacAgg r s ct)) :
    HasDerivAt (fun q => conicSag c (oacAgg q s ct) (√(phiRad c kappa (oacAgg q s ct))))
      (oacDer c kappa r s ct ctp (√(phiRad c kappa (oacAgg r s ct)))).1 r := by
  have hφ : 0 < √(phiRad c kappa (oacAgg r s ct)) := Real.sqrt_pos.mpr h
  refine (sag_comp c kappa (fun q => oacAgg q s ct) _ r (hasDerivAt_agg_r s ct r) h).congr_deriv ?_
  simp only [oacDer, ofInt_eq]
  generalize √(phiRad c kappa (oacAgg r s ct)) = φ at hφ ⊢
  have h1 : (1 + φ) ≠ 0 := by positivity
  push_cast
  field_simp
  try ring

/-- **`off_axis_conic_der`, azimuthal, section shifted along x** (`ct = cos t`) -/
theorem oac_der_t_cos_correct (c kappa r s t : ℝ) (h : 0 < phiRad c kappa (oacAgg r s (cos t))) :
    HasDerivAt (fun q => conicSag c (oacAgg r s (cos q)) (√(phiRad c kappa (oacAgg r s (cos q)))))
      (oacDer c kappa r s (cos t) (-sin t) (√(phiRad c kappa (oacAgg r s (cos t))))).2 t := by
  have hφ : 0 < √(phiRad c kappa (oacAgg r s (cos t))) := Real.sqrt_pos.mpr h
  refine (sag_comp c kappa (fun q => oacAgg r s (cos q)) _ t (hasDerivAt_agg_t_cos r s t) h).congr_deriv ?_
  simp only [oacDer, ofInt_eq]
  generalize √(phiRad c kappa (oacAgg r s (cos t))) = φ at hφ ⊢
  have h1 : (1 + φ) ≠ 0 := by positivity
  push_cast
  field_simp
  try ring

/-- **`off_axis_conic_der`, azimuthal, section shifted along y** (`ct = sin t`) -/
theorem oac_der_t_sin_correct (c kappa r s t : ℝ) (h : 0 < phiRad c kappa (oacAgg r s (sin t))) :
    HasDerivAt (fun q => conicSag c (oacAgg r s (sin q)) (√(phiRad c kappa (oacAgg r s (sin q)))))
      (oacDer c kappa r s (sin t) (cos t) (√(phiRad c kappa (oacAgg r s (sin t))))).2 t := by
  have hφ : 0 < √(phiRad c kappa (oacAgg r s (sin t))) := Real.sqrt_pos.mpr h
  refine (sag_comp c kappa (fun q => oacAgg r s (sin q)) _ t (hasDerivAt_agg_t_sin r s t) h).congr_deriv ?_
  simp only [oacDer, ofInt_eq]
  generalize √(phiRad c kappa (oacAgg r s (sin t))) = φ at hφ ⊢
  have h1 : (1 + φ) ≠ 0 := by positivity
  push_cast
  field_simp
  try ring

/-- **`off_axis_conic_sigma_der`, radial**: `∂/∂r` of `1/σ = ψ/φ` -/
theorem sigma_inv_der_r_correct (c kappa r s ct ctp : ℝ) (h : 0 < phiRad c kappa (oacAgg r s ct))
    (hL : 0 < psiRad c kappa (oacAgg r s ct)) :
    HasDerivAt (fun q => √(psiRad c kappa (oacAgg q s ct)) / √(phiRad c kappa (oacAgg q s ct)))
      (oacSigmaInvDer c kappa r s ct ctp (√(phiRad c kappa (oacAgg r s ct))) (√(psiRad c kappa (oacAgg r s ct)))).1 r := by
  have hφ : 0 < √(phiRad c kappa (oacAgg r s ct)) := Real.sqrt_pos.mpr h
  have hψ : 0 < √(psiRad c kappa (oacAgg r s ct)) := Real.sqrt_pos.mpr hL
  refine (ratio_comp c kappa (fun q => oacAgg q s ct) _ r (hasDerivAt_agg_r s ct r) h hL).congr_deriv ?_
  simp only [oacSigmaInvDer, ofInt_eq]
  generalize √(phiRad c kappa (oacAgg r s ct)) = φ at hφ ⊢
  generalize √(psiRad c kappa (oacAgg r s ct)) = ψ at hψ ⊢
  push_cast
  field_simp
  try ring

theorem sigma_inv_der_t_cos_correct (c kappa r s t : ℝ) (h : 0 < phiRad c kappa (oacAgg r s (cos t)))
    (hL : 0 < psiRad c kappa (oacAgg r s (cos t))) :
    HasDerivAt (fun q => √(psiRad c kappa (oacAgg r s (cos q))) / √(phiRad c kappa (oacAgg r s (cos q))))
      (oacSigmaInvDer c kappa r s (cos t) (-sin t) (√(phiRad c kappa (oacAgg r s (cos t))))
        (√(psiRad c kappa (oacAgg r s (cos t))))).2 t := by
  have hφ : 0 < √(phiRad c kappa (oacAgg r s (cos t))) := Real.sqrt_pos.mpr h
  have hψ : 0 < √(psiRad c kappa (oacAgg r s (cos t))) := Real.sqrt_pos.mpr hL
  refine (ratio_comp c kappa (fun q => oacAgg r s (cos q)) _ t (hasDerivAt_agg_t_cos r s t) h hL).congr_deriv ?_
  simp only [oacSigmaInvDer, ofInt_eq]
  generalize √(phiRad c kappa (oacAgg r s (cos t))) = φ at hφ ⊢
  generalize √(psiRad c kappa (oacAgg r s (cos t))) = ψ at hψ ⊢
  push_cast
  field_simp
  try ring

theorem sigma_inv_der_t_sin_correct (c kappa r s t : ℝ) (h : 0 < phiRad c kappa (oacAgg r s (sin t)))
    (hL : 0 < psiRad c kappa (oacAgg r s (sin t))) :
    HasDerivAt (fun q => √(psiRad c kappa (oacAgg r s (sin q))) / √(phiRad c kappa (oacAgg r s (sin q))))
      (oacSigmaInvDer c kappa r s (sin t) (cos t) (√(phiRad c kappa (oacAgg r s (sin t))))
        (√(psiRad c kappa (oacAgg r s (sin t))))).2 t := by
  have hφ : 0 < √(phiRad c kappa (oacAgg r s (sin t))) := Real.sqrt_pos.mpr h
  have hψ : 0 < √(psiRad c kappa (oacAgg r s (sin t))) := Real.sqrt_pos.mpr hL
  refine (ratio_comp c kappa (fun q => oacAgg r s (sin q)) _ t (hasDerivAt_agg_t_sin r s t) h hL).congr_deriv ?_
  simp only [oacSigmaInvDer, ofInt_eq]
  generalize √(phiRad c kappa (oacAgg r s (sin t))) = φ at hφ ⊢
  generalize √(psiRad c kappa (oacAgg r s (sin t))) = ψ at hψ ⊢
  push_cast
  field_simp
  try ring

/-- `1/σ` as the model writes it: `oacSigma φ ψ = φ/ψ` and `ψ/φ` is its reciprocal -/
theorem oacSigma_inv (phi psi : ℝ) (h : phi ≠ 0) (h' : psi ≠ 0) : 1 / oacSigma phi psi = psi / phi := by
  simp only [oacSigma]; field_simp

/-- **`Q2d_and_der`**: with `z(u)`, `u = ρ/Rn`, the base sag and `1/σ` differentiable, the returned slopes are the
derivatives of the returned sag `z·σ⁻¹ + base` (product rule; the radial one through `u = ρ / Rn`) -/
theorem q2d_and_der_correct (zf sf bf : ℝ → ℝ) (x z' s' b' Rn : ℝ) (hR : Rn ≠ 0)
    (hz : HasDerivAt zf z' (x / Rn)) (hs : HasDerivAt sf s' x) (hb : HasDerivAt bf b' x) (zt st bt : ℝ) :
    HasDerivAt (fun q => zf (q / Rn) * sf q + bf q)
      (q2dAndDer (sf x) (zf (x / Rn)) z' zt s' st (bf x) b' bt Rn).2.1 x := by
  have hu : HasDerivAt (fun q : ℝ => q / Rn) (1 / Rn) x := by
    simpa using (hasDerivAt_id' x).div_const Rn
  have hzu : HasDerivAt (fun q => zf (q / Rn)) (z' * (1 / Rn)) x := hz.comp x hu
  refine ((hzu.mul hs).add hb).congr_deriv ?_
  simp only [q2dAndDer]
  field_simp
  try ring

theorem q2d_and_der_t_correct (zf sf bf : ℝ → ℝ) (x z' s' b' : ℝ)
    (hz : HasDerivAt zf z' x) (hs : HasDerivAt sf s' x) (hb : HasDerivAt bf b' x) (zr sr br Rn : ℝ) :
    HasDerivAt (fun q => zf q * sf q + bf q)
      (q2dAndDer (sf x) (zf x) zr z' sr s' (bf x) br b' Rn).2.2 x := by
  refine ((hz.mul hs).add hb).congr_deriv ?_
  simp only [q2dAndDer]
  ring

/-! ### azimuthal derivatives with the real `cos`, `sin` -/

theorem hasDerivAt_cos_mul (m t : ℝ) : HasDerivAt (fun q => cos (m * q)) (-(m * sin (m * t))) t := by
  have h : HasDerivAt (fun q : ℝ => m * q) m t := by simpa using (hasDerivAt_id' t).const_mul m
  have := (hasDerivAt_cos (m * t)).comp t h
  refine this.congr_deriv ?_
  ring

theorem hasDerivAt_sin_mul (m t : ℝ) : HasDerivAt (fun q => sin (m * q)) (m * cos (m * t)) t := by
  have h : HasDerivAt (fun q : ℝ => m * q) m t := by simpa using (hasDerivAt_id' t).const_mul m
  have := (hasDerivAt_sin (m * t)).comp t h
  refine this.congr_deriv ?_
  ring

/-- **Zernike, azimuthal derivative** (`zernike_nm_der`): `∂/∂t [ρ cos(mt)] = ρ·(-m sin(mt))`, `∂/∂t [ρ sin(kt)] = ρ·(k cos(kt))` -/
theorem zernike_dt_real (rad m t : ℝ) :
    HasDerivAt (fun q => rad * cos (m * q)) (rad * (-m * sin (m * t))) t ∧
    HasDerivAt (fun q => rad * sin (m * q)) (rad * (m * cos (m * t))) t := by
  constructor
  · refine ((hasDerivAt_cos_mul m t).const_mul rad).congr_deriv ?_; ring
  · exact (hasDerivAt_sin_mul m t).const_mul rad

/-- **2D-Q, azimuthal slope of one azimuthal order, real version**: the third component of `q2dTermB` is `∂/∂t` of its
first component when `cos(mt)`, `sin(mt)` are the real functions -/
theorem q2dTermB_dt_real (G : Fam ℝ) (m : ℕ) (da db : List ℝ) (u t : ℝ) :
    HasDerivAt (fun q => (q2dTermB G m (cos ((m : ℝ) * q)) (sin ((m : ℝ) * q)) da db u).1)
      (q2dTermB G m (cos ((m : ℝ) * t)) (sin ((m : ℝ) * t)) da db u).2.2 t := by
  simp only [q2dTermB, npow_eq, ofInt_eq]
  have hc := hasDerivAt_cos_mul (m : ℝ) t
  have hs := hasDerivAt_sin_mul (m : ℝ) t
  have := ((hc.mul_const (q2dRead m (derTable G (u * u) da 0))).add
    (hs.mul_const (q2dRead m (derTable G (u * u) db 0)))).const_mul (u ^ m)
  refine this.congr_deriv ?_
  push_cast
  ring

/-- **`zernike_nm_der`, azimuthal output**: the second component of `zernikeDer`, fed with the real `cos(|m|t)`, `sin(|m|t)`, is
`∂/∂t` of `znorm · r^{|m|} P(2r²-1) · (cos(mt) | sin(|m|t) | 1)` — sign and the `|m|` vs `m` choice included -/
theorem zernikeDer_dt_real [DecidableEq ℝ] (n : ℕ) (m : ℤ) (r zn t : ℝ) :
    HasDerivAt
      (fun q => zn * zernikeRadial n m.natAbs r *
        (if m = 0 then 1 else if m < 0 then sin ((m.natAbs : ℝ) * q) else cos ((m.natAbs : ℝ) * q)))
      (zernikeDer n m r (cos ((m.natAbs : ℝ) * t)) (sin ((m.natAbs : ℝ) * t)) zn).2 t := by
  by_cases h0 : m = 0
  · subst h0
    simp only [zernikeDer, beq_self_eq_true, if_true, ofInt_eq, Int.cast_zero, if_true]
    exact hasDerivAt_const t _
  · have hb : (m == 0) = false := by simpa using h0
    by_cases hneg : m < 0
    · simp only [zernikeDer, hb, Bool.false_eq_true, if_false, h0, hneg, if_true, zernikeRadial, ofInt_eq, npow_eq]
      have := (hasDerivAt_sin_mul (m.natAbs : ℝ) t).const_mul (zn * (r ^ m.natAbs *
        jacobi ((n - m.natAbs) / 2) ((0 : ℤ) : ℝ) (((m.natAbs : ℕ) : ℤ) : ℝ) (((2 : ℤ) : ℝ) * r ^ 2 - ((1 : ℤ) : ℝ))))
      refine this.congr_deriv ?_
      simp only [Int.cast_natCast]
      ring
    · have hm : (m : ℝ) = (m.natAbs : ℝ) := by
        have e : (m.natAbs : ℤ) = m := Int.natAbs_of_nonneg (by omega)
        calc (m : ℝ) = (((m.natAbs : ℕ) : ℤ) : ℝ) := by rw [e]
          _ = (m.natAbs : ℝ) := Int.cast_natCast _
      simp only [zernikeDer, hb, Bool.false_eq_true, if_false, h0, hneg, zernikeRadial, ofInt_eq, npow_eq]
      have := (hasDerivAt_cos_mul (m.natAbs : ℝ) t).const_mul (zn * (r ^ m.natAbs *
        jacobi ((n - m.natAbs) / 2) ((0 : ℤ) : ℝ) (((m.natAbs : ℕ) : ℤ) : ℝ) (((2 : ℤ) : ℝ) * r ^ 2 - ((1 : ℤ) : ℝ))))
      refine this.congr_deriv ?_
      simp only [Int.cast_natCast, hm]
      ring

/-- **`Q2d_and_der`, composed, radial**: for ANY departure `zf` that is differentiable in `u = ρ/Rn` (the 2D-Q sum; its slope is
what `compute_z_zprime_Q2d` returns), the radial slope assembled from `off_axis_conic_sigma_der`, `off_axis_conic_der` and the
product rule is the `ρ`-derivative of `zf(ρ/Rn) · σ⁻¹(ρ, t) + z_base(ρ, t)` -/
theorem q2d_and_der_composed_r (c kappa s ct ctp Rn r z' zt st bt : ℝ) (zf : ℝ → ℝ) (hR : Rn ≠ 0)
    (hz : HasDerivAt zf z' (r / Rn)) (h : 0 < phiRad c kappa (oacAgg r s ct)) (hL : 0 < psiRad c kappa (oacAgg r s ct)) :
    HasDerivAt
      (fun q => zf (q / Rn) * (√(psiRad c kappa (oacAgg q s ct)) / √(phiRad c kappa (oacAgg q s ct)))
        + conicSag c (oacAgg q s ct) (√(phiRad c kappa (oacAgg q s ct))))
      (q2dAndDer (√(psiRad c kappa (oacAgg r s ct)) / √(phiRad c kappa (oacAgg r s ct))) (zf (r / Rn)) z' zt
        (oacSigmaInvDer c kappa r s ct ctp (√(phiRad c kappa (oacAgg r s ct))) (√(psiRad c kappa (oacAgg r s ct)))).1 st
        (conicSag c (oacAgg r s ct) (√(phiRad c kappa (oacAgg r s ct))))
        (oacDer c kappa r s ct ctp (√(phiRad c kappa (oacAgg r s ct)))).1 bt Rn).2.1 r :=
  q2d_and_der_correct zf _ _ r z' _ _ Rn hR hz (sigma_inv_der_r_correct c kappa r s ct ctp h hL)
    (oac_der_r_correct c kappa r s ct ctp h) zt st bt

/-- **`Q2d_and_der`, composed, azimuthal** (section shifted along x; the y case is the same with `sin`, `cos`) -/
theorem q2d_and_der_composed_t_cos (c kappa s r Rn t z' zr sr br : ℝ) (zf : ℝ → ℝ) (hz : HasDerivAt zf z' t)
    (h : 0 < phiRad c kappa (oacAgg r s (cos t))) (hL : 0 < psiRad c kappa (oacAgg r s (cos t))) :
    HasDerivAt
      (fun q => zf q * (√(psiRad c kappa (oacAgg r s (cos q))) / √(phiRad c kappa (oacAgg r s (cos q))))
        + conicSag c (oacAgg r s (cos q)) (√(phiRad c kappa (oacAgg r s (cos q)))))
      (q2dAndDer (√(psiRad c kappa (oacAgg r s (cos t))) / √(phiRad c kappa (oacAgg r s (cos t)))) (zf t) zr z' sr
        (oacSigmaInvDer c kappa r s (cos t) (-sin t) (√(phiRad c kappa (oacAgg r s (cos t)))) (√(psiRad c kappa (oacAgg r s (cos t))))).2
        (conicSag c (oacAgg r s (cos t)) (√(phiRad c kappa (oacAgg r s (cos t))))) br
        (oacDer c kappa r s (cos t) (-sin t) (√(phiRad c kappa (oacAgg r s (cos t))))).2 Rn).2.2 t :=
  q2d_and_der_t_correct zf _ _ t z' _ _ hz (sigma_inv_der_t_cos_correct c kappa r s t h hL)
    (oac_der_t_cos_correct c kappa r s t h) zr sr br Rn

theorem q2d_and_der_composed_t_sin (c kappa s r Rn t z' zr sr br : ℝ) (zf : ℝ → ℝ) (hz : HasDerivAt zf z' t)
    (h : 0 < phiRad c kappa (oacAgg r s (sin t))) (hL : 0 < psiRad c kappa (oacAgg r s (sin t))) :
    HasDerivAt
      (fun q => zf q * (√(psiRad c kappa (oacAgg r s (sin q))) / √(phiRad c kappa (oacAgg r s (sin q))))
        + conicSag c (oacAgg r s (sin q)) (√(phiRad c kappa (oacAgg r s (sin q)))))
      (q2dAndDer (√(psiRad c kappa (oacAgg r s (sin t))) / √(phiRad c kappa (oacAgg r s (sin t)))) (zf t) zr z' sr
        (oacSigmaInvDer c kappa r s (sin t) (cos t) (√(phiRad c kappa (oacAgg r s (sin t)))) (√(psiRad c kappa (oacAgg r s (sin t))))).2
        (conicSag c (oacAgg r s (sin t)) (√(phiRad c kappa (oacAgg r s (sin t))))) br
        (oacDer c kappa r s (sin t) (cos t) (√(phiRad c kappa (oacAgg r s (sin t))))).2 Rn).2.2 t :=
  q2d_and_der_t_correct zf _ _ t z' _ _ hz (sigma_inv_der_t_sin_correct c kappa r s t h hL)
    (oac_der_t_sin_correct c kappa r s t h) zr sr br Rn
end C10L
