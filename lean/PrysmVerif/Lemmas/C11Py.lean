import PrysmVerif.Lemmas.C11Basic
import PrysmVerif.Lemmas.PyArith
import Mathlib.Data.Rat.Floor
import Mathlib.Data.List.Range
import Mathlib.Tactic.FieldSimp
/-!
# C11 — lemmas about the run-time of the translated fragments (`Model.C11.Py`), independent of the
generated text: exact `ceil((b + √D)/2)`, integer-valued rationals, list tables, loops by trajectory.
-/
namespace Model.C11

/-! ### `ceil((b + sqrt D) / 2)` as written by the translator -/

theorem pyCeilDiv_two_le (x t : Int) : pyCeilDiv x 2 ≤ t ↔ x ≤ 2 * t := by
  unfold pyCeilDiv; omega

/-- `⌈(b + ⌈√D⌉)/2⌉ ≤ t ↔ D ≤ (2t - b)²` whenever `2t - b ≥ 0` -/
theorem ceilHalfSqrt_le_iff (D b t : Int) (hD : 0 ≤ D) (ht : 0 ≤ 2 * t - b) :
    pyCeilDiv (b + pyCeilSqrt D) 2 ≤ t ↔ D ≤ (2 * t - b) * (2 * t - b) := by
  rw [pyCeilDiv_two_le]
  unfold pyCeilSqrt
  have g := ceilSqrt_le_iff D.toNat (2 * t - b).toNat
  have e1 : ((D.toNat : Nat) : Int) = D := Int.toNat_of_nonneg hD
  have e2 : (((2 * t - b).toNat : Nat) : Int) = 2 * t - b := Int.toNat_of_nonneg ht
  constructor
  · intro h
    have : ceilSqrt D.toNat ≤ (2 * t - b).toNat := by omega
    have := g.mp this
    have : ((D.toNat : Nat) : Int) ≤ ((2 * t - b).toNat : Int) * ((2 * t - b).toNat : Int) := by exact_mod_cast this
    rwa [e1, e2] at this
  · intro h
    have : D.toNat ≤ (2 * t - b).toNat * (2 * t - b).toNat := by
      have : ((D.toNat : Nat) : Int) ≤ ((2 * t - b).toNat : Int) * ((2 * t - b).toNat : Int) := by rwa [e1, e2]
      exact_mod_cast this
    have := g.mpr this
    omega

theorem pyCeilSqrt_ge_three (D : Int) (h : 9 ≤ D) : 3 ≤ pyCeilSqrt D := by
  unfold pyCeilSqrt
  have := (lt_ceilSqrt_iff D.toNat 2).mpr (by omega)
  omega

/-- the ANSI row: `ceil((-3 + sqrt(9 + 8 j))/2)` is the triangular root of `j` -/
theorem ansi_row (j : Int) (hj : 0 ≤ j) :
    pyCeilDiv ((-3 : Int) + pyCeilSqrt (9 + 8 * j)) 2 = triRoot j.toNat := by
  set n := pyCeilDiv ((-3 : Int) + pyCeilSqrt (9 + 8 * j)) 2 with hn
  have hc := pyCeilSqrt_ge_three (9 + 8 * j) (by omega)
  have hn0 : 0 ≤ n := by rw [hn]; unfold pyCeilDiv; omega
  have a := (ceilHalfSqrt_le_iff (9 + 8 * j) (-3) n (by omega) (by omega)).mp (le_refl _)
  have b := (ceilHalfSqrt_le_iff (9 + 8 * j) (-3) (n - 1) (by omega) (by omega)).not.mp (by omega)
  have t := two_mul_tri n
  symm
  apply triRoot_eq _ n hn0
  · rw [Int.toNat_of_nonneg hj]; nlinarith
  · rw [Int.toNat_of_nonneg hj]; nlinarith

/-- the Noll / XY row: `ceil((-1 + sqrt(1 + 8 j))/2) - 1` is the triangular root of `j - 1` -/
theorem noll_row (j : Int) (hj : 1 ≤ j) :
    pyCeilDiv ((-1 : Int) + pyCeilSqrt (1 + 8 * j)) 2 - 1 = triRoot (j - 1).toNat := by
  set q := pyCeilDiv ((-1 : Int) + pyCeilSqrt (1 + 8 * j)) 2 with hq
  have hc := pyCeilSqrt_ge_three (1 + 8 * j) (by omega)
  have hq1 : 1 ≤ q := by rw [hq]; unfold pyCeilDiv; omega
  have a := (ceilHalfSqrt_le_iff (1 + 8 * j) (-1) q (by omega) (by omega)).mp (le_refl _)
  have b := (ceilHalfSqrt_le_iff (1 + 8 * j) (-1) (q - 1) (by omega) (by omega)).not.mp (by omega)
  have t := two_mul_tri (q - 1)
  symm
  apply triRoot_eq _ (q - 1) (by omega)
  · rw [Int.toNat_of_nonneg (by omega)]; nlinarith
  · rw [Int.toNat_of_nonneg (by omega)]; nlinarith

/-! ### integer-valued rationals -/

theorem Py.int_intCast (a : Int) : Py.int (a : Rat) = a := by
  unfold Py.int; split <;> simp

theorem half_even (a : Int) (h : a % 2 = 0) : (a : Rat) / 2 = ((a / 2 : Int) : Rat) := by
  obtain ⟨k, rfl⟩ : ∃ k, a = 2 * k := ⟨a / 2, by omega⟩
  have : 2 * k / 2 = k := by omega
  rw [this]; push_cast; ring

theorem Py.int_half_even (a : Int) (h : a % 2 = 0) : Py.int ((a : Rat) / 2) = a / 2 := by
  rw [half_even a h, Py.int_intCast]

theorem floor_half (r : Int) : Rat.floor ((r : Rat) / 2) = r / 2 := by
  have := Rat.floor_intCast_div_natCast r 2
  rw [Rat.floor_eq_intFloor]
  simpa using this

theorem Py.modQ_two (r : Int) : Py.modQ (r : Rat) 2 = ((r % 2 : Int) : Rat) := by
  unfold Py.modQ
  rw [floor_half]
  have : r % 2 = r - 2 * (r / 2) := by omega
  rw [this]; push_cast; ring

/-! ### Python list indexing on a table `[g 0, g 1, …, g (len-1)]` -/

def tab (g : Nat → Int) (len : Nat) : List Int := (List.range len).map g

theorem tab_length (g : Nat → Int) (len : Nat) : (tab g len).length = len := by simp [tab]

theorem tab_succ (g : Nat → Int) (len : Nat) : tab g (len + 1) = tab g len ++ [g len] := by
  simp [tab, List.range_succ]

theorem tab_getElem? (g : Nat → Int) (len i : Nat) (h : i < len) : (tab g len)[i]? = some (g i) := by
  simp [tab, List.getElem?_map, List.getElem?_range h]

/-- negative index `res ∈ [-len, -1]` reads entry `len + res` -/
theorem idx_tab_neg (g : Nat → Int) (len : Nat) (res : Int) (h1 : -(len : Int) ≤ res) (h2 : res < 0) :
    Py.idx (tab g len) res = some (g ((len : Int) + res).toNat) := by
  unfold Py.idx
  rw [if_neg (by omega), tab_length, if_pos h1]
  exact tab_getElem? g len _ (by omega)

theorem idx_tab_last (g : Nat → Int) (len : Nat) : Py.idx (tab g (len + 1)) (-1) = some (g len) := by
  have := idx_tab_neg g (len + 1) (-1) (by omega) (by omega)
  rw [this]; congr 2; omega

/-! ### loops by explicit trajectory -/

/-- if the states `f 0, f 1, …` are what the body produces, `for i in range(n)` ends in `f n` -/
theorem forAux_traj {σ : Type} (body : Int → σ → Option σ) (f : Nat → σ) (n : Nat) (i0 : Nat)
    (hb : ∀ i, i < n → body ((i0 + i : Nat) : Int) (f i) = some (f (i + 1))) :
    Py.forAux body n (i0 : Int) (f 0) = some (f n) := by
  induction n generalizing f i0 with
  | zero => rfl
  | succ k ih =>
    unfold Py.forAux
    have h0 := hb 0 (by omega)
    simp only [Nat.add_zero] at h0
    rw [h0, Option.bind_some]
    have := ih (fun i => f (i + 1)) (i0 + 1) (fun i hi => by
      have := hb (i + 1) (by omega)
      have e : i0 + (i + 1) = i0 + 1 + i := by omega
      rw [e] at this; exact this)
    have e : ((i0 : Int) + 1) = ((i0 + 1 : Nat) : Int) := by push_cast; rfl
    rw [e]; exact this

theorem forRange_traj {σ : Type} (body : Int → σ → Option σ) (f : Nat → σ) (n : Int) (N : Nat)
    (hn : n.toNat = N) (hb : ∀ i, i < N → body (i : Int) (f i) = some (f (i + 1))) :
    Py.forRange n body (f 0) = some (f N) := by
  unfold Py.forRange
  rw [hn]
  have := forAux_traj body f N 0 (fun i hi => by simpa using hb i hi)
  simpa using this

/-- a `while` loop whose states follow `f`, whose guard holds on `f 0 … f (N-1)` and fails on `f N`,
    ends in `f N` provided the fuel is at least `N` -/
theorem whileFuel_traj {σ : Type} (cond : σ → Bool) (body : σ → Option σ) (f : Nat → σ) (N fuel : Nat)
    (hN : N ≤ fuel) (hc : ∀ i, i < N → cond (f i) = true) (hb : ∀ i, i < N → body (f i) = some (f (i + 1)))
    (hstop : cond (f N) = false) : Py.whileFuel cond body fuel (f 0) = some (f N) := by
  induction N generalizing f fuel with
  | zero =>
    cases fuel <;> simp [Py.whileFuel, hstop]
  | succ k ih =>
    obtain ⟨fuel', rfl⟩ : ∃ m, fuel = m + 1 := ⟨fuel - 1, by omega⟩
    unfold Py.whileFuel
    rw [if_pos (hc 0 (by omega)), hb 0 (by omega), Option.bind_some]
    exact ih (fun i => f (i + 1)) fuel' (by omega) (fun i hi => hc (i + 1) (by omega))
      (fun i hi => hb (i + 1) (by omega)) hstop

end Model.C11

namespace Model.C11

/-! ### the list built by `noll_to_nm` -/

/-- one pass of the list-building loop of `noll_to_nm` on a table -/
theorem noll_body (g : Nat → Int) (len : Nat) (h1 : g (len + 1) = g len + 2) (h2 : g (len + 2) = g (len + 1)) :
    ((Py.idx (tab g (len + 1)) (-1)).bind fun v3 =>
      (Py.idx (tab g (len + 1) ++ [v3 + 2]) (-1)).bind fun v4 =>
        some (tab g (len + 1) ++ [v3 + 2] ++ [v4])) = some (tab g (len + 3)) := by
  rw [idx_tab_last, Option.bind_some, ← h1, ← tab_succ, idx_tab_last, Option.bind_some, ← h2, ← tab_succ]

/-- entries of the even-row list `[0, 2, 2, 4, 4, …]` -/
def gE (p : Nat) : Int := 2 * (((p : Int) + 1) / 2)
/-- entries of the odd-row list `[1, 1, 3, 3, …]` -/
def gO (p : Nat) : Int := 2 * ((p : Int) / 2) + 1

end Model.C11
