import PrysmVerif.Lemmas.C01Fourier
import PrysmVerif.Lemmas.C03Fourier
/-!
# C03 / C05 — bridge to the executor models of C01

`Model.C01.mdft2` is the triple product `Eout @ f @ Ein` with the bases as `MatrixDFTExecutor._setup_bases` builds them
(parametrised by which component of `shape / samples_out / shift` feeds which axis), `Model.C01.czt2` is the Bluestein
pipeline of `ChirpZTransformExecutor` (chirps, zero-padded FFT convolution of any admissible length, crop, chirp).  C01 proves
`czt2 = mdft2` sample for sample.  Here: with the wiring of the source both ARE the separable sum `Model.C03.mdft2` that the
C03 / C05 theorems speak about (rows get `shift[1]`, columns `shift[0]`).
-/
open C03Lemmas
open scoped C01
namespace C03Lemmas
open Model.C03
variable {R V : Type} [Field R] [CharZero R] [Field V] [CharZero V]

theorem c01_xc_eq (n j : Nat) : (Model.C01.xc n j : R) = coord n j := rfl

theorem c01_mdft1_eq (e : R → V) (nrm : R → V) (n M : Nat) (α s : R) (g : Nat → V) (k : Nat) :
    Model.C01.mdft1 e nrm n M α s g k = nrm α * mdft1 e n M α s g k := by
  simp only [Model.C01.mdft1, Model.C01.basisEl, mdft1, c01_xc_eq]
  congr 2
  funext j
  congr 2
  ring

/-- the matrix-DFT executor model of C01, with the axis wiring of the source, is the separable sum of `Model.C03` -/
theorem c01_mdft2_eq (e : R → V) (nrm : R → V) (m n M N : Nat) (αy αx s0 s1 : R) (f : Nat → Nat → V) (k l : Nat) :
    Model.C01.mdft2 e nrm Model.C01.wiringAxis0 Model.C01.wiringAxis1 (m, n) (M, N) αy αx αy αx (s0, s1) f k l
      = mdft2 e m n M N αy αx s1 s0 (nrm αy * nrm αx) f k l := by
  rw [C01.mdft2_eq_nested, c01_mdft1_eq]
  simp only [c01_mdft1_eq]
  rw [mdft1_smul]
  simp only [mdft2]
  ring

/-- … and so is the chirp-Z executor model (Bluestein through an FFT convolution of any length `≥ n + M − 1`) -/
theorem c01_czt2_eq (e : R → V) (nrm : R → V) (he : C01.IsChar e) (hf : C01.IsFaithful e) (m n M N K' L : Nat)
    (αy αx s0 s1 : R) (f : Array (Array V)) (k l : Nat) (hm : 0 < m) (hn : 0 < n) (hk : k < M) (hl : l < N)
    (hK : m + M ≤ K' + 1) (hL : n + N ≤ L + 1) :
    Model.C01.rd2 (Model.C01.czt2 e nrm Model.C01.wiringAxis0 Model.C01.wiringAxis1 (Model.C01.cztGlue m M K')
        (Model.C01.cztGlue n N L) (m, n) (M, N) (K', L) αy αx (s0, s1) f) k l
      = mdft2 e m n M N αy αx s1 s0 (nrm αy * nrm αx) (Model.C01.rd2 f) k l := by
  rw [C01.czt2_eq_mdft2 nrm he hf m n M N K' L αy αx s0 s1 f k l hm hn hk hl hK hL, c01_mdft2_eq]

/-- `iczt2 = conj ∘ czt2 ∘ conj` is the separable sum with the reflected kernel -/
theorem c01_iczt2_eq (e : R → V) (nrm : R → V) (he : C01.IsChar e) (hf : C01.IsFaithful e) (cj : V →+* V)
    (hc : C01.IsConj cj e nrm) (m n M N K' L : Nat)
    (αy αx s0 s1 : R) (f : Array (Array V)) (k l : Nat) (hm : 0 < m) (hn : 0 < n) (hk : k < M) (hl : l < N)
    (hK : m + M ≤ K' + 1) (hL : n + N ≤ L + 1) :
    Model.C01.rd2 (Model.C01.iczt2 cj e nrm Model.C01.wiringAxis0 Model.C01.wiringAxis1 (Model.C01.cztGlue m M K')
        (Model.C01.cztGlue n N L) (m, n) (M, N) (K', L) αy αx (s0, s1) f) k l
      = mdft2 (fun t => e (-t)) m n M N αy αx s1 s0 (nrm αy * nrm αx) (Model.C01.rd2 f) k l := by
  rw [C01.iczt2_eq_inverse_mdft2 nrm he hf cj hc m n M N K' L αy αx s0 s1 f k l hm hn hk hl hK hL, c01_mdft2_eq]

/-- the textbook sum of C01 at zero shift is the separable sum of `Model.C03` at zero shift -/
theorem c01_spec2_eq (e : R → V) (nrm : R → V) (m n M N : Nat) (αy αx : R) (f : Nat → Nat → V) (k l : Nat) :
    Model.C01.spec2 e nrm m n M N αy αx 0 0 f k l = mdft2 e m n M N αy αx 0 0 (nrm αy * nrm αx) f k l := by
  have h1 : ∀ (n M : Nat) (α : R) (g : Nat → V) (k : Nat),
      Model.C01.spec1 e nrm n M α 0 g k = nrm α * mdft1 e n M α 0 g k := by
    intro n M α g k
    simp only [Model.C01.spec1, mdft1, c01_xc_eq]
    congr 2; funext j; congr 2; ring
  simp only [Model.C01.spec2, h1]
  rw [mdft1_smul]
  simp only [mdft2]
  ring

end C03Lemmas
