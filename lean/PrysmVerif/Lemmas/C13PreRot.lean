import PrysmVerif.Lemmas.C13Dft
/-!
# C13 — a rotation of the data before the transform changes no modulus of the model's spectrum

`cdft (x ∘ rot) = (unit phase) · cdft x` for the index rotations `fftshift` / `ifftshift` / none, hence
`Model.C13.psdRot pre post = Model.C13.psdRot .none post` sample by sample.
-/
namespace C13L
open scoped C13L
open Model.C13 Finset Complex

theorem sum_rot_gen {M : Type*} [AddCommMonoid M] (R : Rot) (n : ℕ) (f : ℕ → M) :
    ∑ i ∈ range n, f (rotIdx R n i) = ∑ i ∈ range n, f i := by
  refine sum_nbij' (rotIdx R n) (rotIdx (rotInv R) n) ?_ ?_ ?_ ?_ ?_
  · intro i hi; exact mem_range.mpr (rotIdx_lt R n i (mem_range.mp hi))
  · intro i hi; exact mem_range.mpr (rotIdx_lt _ n i (mem_range.mp hi))
  · intro i hi; exact rotIdx_inv R n i (mem_range.mp hi)
  · intro i hi
    have := rotIdx_inv (rotInv R) n i (mem_range.mp hi)
    rwa [rotInv_inv] at this
  · intro i _; rfl

/-- the (cyclic) shift that undoes a rotation: `rotIdx R n a + rotShift R n ≡ a (mod n)` -/
def rotShift : Rot → ℕ → ℕ
  | .none, _ => 0
  | .fftshift, n => n / 2
  | .ifftshift, n => n - n / 2

theorem rotIdx_add_shift (R : Rot) (n a : ℕ) (ha : a < n) :
    rotIdx R n a + rotShift R n = a ∨ rotIdx R n a + rotShift R n = a + n := by
  cases R
  · left; simp [rotIdx_none, rotShift]
  · simp only [rotShift]; rw [rotIdx_fftshift _ _ ha]; split <;> omega
  · simp only [rotShift]; rw [rotIdx_ifftshift _ _ ha]; split <;> omega

theorem pow_rot (R : Rot) (n a k : ℕ) (ha : a < n) (ζ : ℂ) (hζ : ζ ^ n = 1) :
    ζ ^ (k * a) = ζ ^ (k * rotShift R n) * ζ ^ (k * rotIdx R n a) := by
  rw [← pow_add, ← mul_add, add_comm]
  rcases rotIdx_add_shift R n a ha with h | h
  · rw [h]
  · rw [h, mul_add, pow_add, mul_comm k n, pow_mul ζ n k, hζ, one_pow, mul_one]

theorem sum_pow_rot (R : Rot) (n k : ℕ) (ζ : ℂ) (hζ : ζ ^ n = 1) (f : ℕ → ℂ) :
    ∑ a ∈ range n, ζ ^ (k * a) * f (rotIdx R n a)
      = ζ ^ (k * rotShift R n) * ∑ b ∈ range n, ζ ^ (k * b) * f b := by
  rw [← sum_rot_gen R n (fun b => ζ ^ (k * b) * f b), mul_sum]
  refine sum_congr rfl fun a ha => ?_
  rw [pow_rot R n a k (mem_range.mp ha) ζ hζ]; ring

theorem cdft_kern (m n : ℕ) (x : ℕ → ℕ → ℝ) (k l : ℕ) :
    cdft m n x k l = ∑ i ∈ range m, zeta m ^ (k * i) * ∑ j ∈ range n, zeta n ^ (l * j) * (x i j : ℂ) := by
  unfold cdft
  refine sum_congr rfl fun i _ => ?_
  rw [mul_sum]
  refine sum_congr rfl fun j _ => ?_
  rw [← kern_exp]; ring

/-- the DFT of a rotated array is a unit phase times the DFT of the array -/
theorem cdft_rot (R : Rot) (m n : ℕ) (hm : m ≠ 0) (hn : n ≠ 0) (x : ℕ → ℕ → ℝ) (k l : ℕ) :
    cdft m n (fun a b => x (rotIdx R m a) (rotIdx R n b)) k l
      = zeta m ^ (k * rotShift R m) * zeta n ^ (l * rotShift R n) * cdft m n x k l := by
  have hzm : zeta m ^ m = 1 := (zeta_primitive m hm).pow_eq_one
  have hzn : zeta n ^ n = 1 := (zeta_primitive n hn).pow_eq_one
  rw [cdft_kern, cdft_kern]
  have inner : ∀ a, ∑ j ∈ range n, zeta n ^ (l * j) * ((x (rotIdx R m a) (rotIdx R n j) : ℝ) : ℂ)
      = zeta n ^ (l * rotShift R n) * ∑ j ∈ range n, zeta n ^ (l * j) * ((x (rotIdx R m a) j : ℝ) : ℂ) :=
    fun a => sum_pow_rot R n l (zeta n) hzn (fun b => ((x (rotIdx R m a) b : ℝ) : ℂ))
  simp only [inner]
  have outer := sum_pow_rot R m k (zeta m) hzm
    (fun a' => zeta n ^ (l * rotShift R n) * ∑ j ∈ range n, zeta n ^ (l * j) * ((x a' j : ℝ) : ℂ))
  rw [outer, mul_sum, mul_sum]
  refine sum_congr rfl fun i _ => ?_
  ring

theorem norm_cdft_rot (R : Rot) (m n : ℕ) (hm : m ≠ 0) (hn : n ≠ 0) (x : ℕ → ℕ → ℝ) (k l : ℕ) :
    ‖cdft m n (fun a b => x (rotIdx R m a) (rotIdx R n b)) k l‖ = ‖cdft m n x k l‖ := by
  rw [cdft_rot R m n hm hn, norm_mul, norm_mul, norm_pow, norm_pow,
    (zeta_primitive m hm).norm'_eq_one hm, (zeta_primitive n hn).norm'_eq_one hn]
  simp

/-- the model's PSD does not depend on the rotation applied before the transform, sample by sample -/
theorem psdRot_pre_irrelevant (pre post : Rot) (m n : ℕ) (hm : m ≠ 0) (hn : n ≠ 0) (dx : ℝ)
    (h w : ℕ → ℕ → ℝ) (i j : ℕ) :
    psdRot pre post Real.cos Real.sin (2 * Real.pi) m n dx h w i j
      = psdRot .none post Real.cos Real.sin (2 * Real.pi) m n dx h w i j := by
  simp only [psdRot, dftPow_eq, rotIdx_none]
  rw [norm_cdft_rot pre m n hm hn (fun a b => h a b * w a b)]

end C13L
