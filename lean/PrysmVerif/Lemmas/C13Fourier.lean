import Mathlib.RingTheory.RootsOfUnity.Complex
import Mathlib.Analysis.Complex.Basic
import Mathlib.Analysis.Complex.Trigonometric
import Mathlib.Algebra.BigOperators.Ring.Finset
import Mathlib.Algebra.BigOperators.Fin
import Mathlib.Algebra.Ring.GeomSum
import Mathlib.Tactic.Ring
import Mathlib.Tactic.FieldSimp
/-!
# C13 — finite Fourier analysis: Parseval from column orthogonality, orthogonality of the DFT kernel
-/
namespace C13L
open Complex Finset ComplexConjugate

theorem parseval_complex {ι κ : Type*} [Fintype ι] [Fintype κ] [DecidableEq ι]
    (W : κ → ι → ℂ) (N : ℂ)
    (hW : ∀ j j', ∑ k, W k j * conj (W k j') = if j = j' then N else 0) (f : ι → ℂ) :
    ∑ k, (∑ j, W k j * f j) * conj (∑ j, W k j * f j) = N * ∑ j, f j * conj (f j) := by
  simp only [map_sum, map_mul, sum_mul_sum]
  rw [sum_comm]
  have : ∀ j, ∑ k, ∑ j', W k j * f j * (conj (W k j') * conj (f j')) = N * (f j * conj (f j)) := by
    intro j
    rw [sum_comm]
    have h2 : ∀ j', ∑ k, W k j * f j * (conj (W k j') * conj (f j'))
        = f j * conj (f j') * (if j = j' then N else 0) := by
      intro j'
      rw [← hW j j', mul_sum]
      refine sum_congr rfl fun k _ => ?_
      ring
    simp only [h2, mul_ite, mul_zero, sum_ite_eq, mem_univ, if_true]
    ring
  simp only [this, mul_sum]

theorem parseval_of_col_orthogonal {ι κ : Type*} [Fintype ι] [Fintype κ] [DecidableEq ι]
    (W : κ → ι → ℂ) (N : ℝ)
    (hW : ∀ j j', ∑ k, W k j * conj (W k j') = if j = j' then (N : ℂ) else 0) (f : ι → ℂ) :
    ∑ k, ‖∑ j, W k j * f j‖ ^ 2 = N * ∑ j, ‖f j‖ ^ 2 := by
  have h := parseval_complex W N hW f
  simp only [mul_conj'] at h
  exact_mod_cast h

end C13L

namespace C13L
open Complex Finset ComplexConjugate

theorem root_col_orthogonal (n : ℕ) (ζ : ℂ) (hζ : IsPrimitiveRoot ζ n) (i i' : Fin n) :
    ∑ k : Fin n, ζ ^ (k.val * i.val) * conj (ζ ^ (k.val * i'.val)) = if i = i' then (n : ℂ) else 0 := by
  have hn : n ≠ 0 := fun h => by subst h; exact i.elim0
  have hnorm : ‖ζ‖ = 1 := hζ.norm'_eq_one hn
  have hconj : conj ζ = ζ⁻¹ := (inv_eq_conj hnorm).symm
  have hζ0 : ζ ≠ 0 := hζ.ne_zero hn
  set x : ℂ := ζ ^ i.val * (ζ⁻¹) ^ i'.val with hx
  have hterm : ∀ k : ℕ, ζ ^ (k * i.val) * conj (ζ ^ (k * i'.val)) = x ^ k := by
    intro k
    rw [map_pow, hconj, pow_mul', pow_mul', hx, mul_pow]
  rw [Fin.sum_univ_eq_sum_range (fun k => ζ ^ (k * i.val) * conj (ζ ^ (k * i'.val))) n]
  simp only [hterm]
  have hxn : x ^ n = 1 := by
    rw [hx, mul_pow, ← pow_mul, ← pow_mul, mul_comm i.val, mul_comm i'.val, pow_mul, pow_mul, inv_pow,
      hζ.pow_eq_one]; simp
  by_cases h : i = i'
  · subst h
    have : x = 1 := by rw [hx, inv_pow]; exact mul_inv_cancel₀ (pow_ne_zero _ hζ0)
    simp [this]
  · rw [if_neg h]
    have hx1 : x ≠ 1 := by
      intro hx1
      apply h
      have : ζ ^ i.val = ζ ^ i'.val := by
        rw [hx, inv_pow] at hx1
        have h2 := pow_ne_zero i'.val hζ0
        field_simp at hx1
        exact hx1
      exact Fin.ext (hζ.pow_inj i.isLt i'.isLt this)
    have hg := geom_sum_mul x n
    rw [hxn, sub_self] at hg
    rcases mul_eq_zero.mp hg with h0 | h0
    · exact h0
    · exact absurd (sub_eq_zero.mp h0) hx1

end C13L

namespace C13L
open Complex Finset ComplexConjugate
/-- the 2-D DFT kernel built from a primitive `m`-th and a primitive `n`-th root of unity -/
noncomputable def kern2 (m n : ℕ) (ζm ζn : ℂ) (q p : Fin m × Fin n) : ℂ :=
  ζm ^ (q.1.val * p.1.val) * ζn ^ (q.2.val * p.2.val)

theorem kern2_col_orthogonal (m n : ℕ) (ζm ζn : ℂ) (hm : IsPrimitiveRoot ζm m) (hn : IsPrimitiveRoot ζn n)
    (p p' : Fin m × Fin n) :
    ∑ q, kern2 m n ζm ζn q p * conj (kern2 m n ζm ζn q p') = if p = p' then (((m * n : ℕ) : ℝ) : ℂ) else 0 := by
  rw [Fintype.sum_prod_type]
  have h : ∀ (a : Fin m) (b : Fin n), kern2 m n ζm ζn (a, b) p * conj (kern2 m n ζm ζn (a, b) p')
      = (ζm ^ (a.val * p.1.val) * conj (ζm ^ (a.val * p'.1.val))) * (ζn ^ (b.val * p.2.val) * conj (ζn ^ (b.val * p'.2.val))) := by
    intro a b
    simp only [kern2, map_mul]
    ring
  simp only [h]
  rw [← sum_mul_sum, root_col_orthogonal m ζm hm, root_col_orthogonal n ζn hn]
  rcases p with ⟨p1, p2⟩
  rcases p' with ⟨q1, q2⟩
  simp only [Prod.mk.injEq]
  by_cases h1 : p1 = q1 <;> by_cases h2 : p2 = q2 <;> simp [h1, h2]

/-- `exp(-2πi/n)` -/
noncomputable def zeta (n : ℕ) : ℂ := exp (-(2 * Real.pi * I / n))

theorem zeta_primitive (n : ℕ) (hn : n ≠ 0) : IsPrimitiveRoot (zeta n) n := by
  unfold zeta
  rw [exp_neg]
  exact (isPrimitiveRoot_exp n hn).inv

/-- `2π (k i / m + l j / n)` -/
noncomputable def ang (m n k l i j : ℕ) : ℝ := 2 * Real.pi * (((k * i : ℕ) : ℝ) / m + ((l * j : ℕ) : ℝ) / n)

theorem kern_exp (m n : ℕ) (k l i j : ℕ) :
    zeta m ^ (k * i) * zeta n ^ (l * j) = exp (-((ang m n k l i j : ℝ) : ℂ) * I) := by
  unfold zeta ang
  rw [← exp_nat_mul, ← exp_nat_mul, ← exp_add]
  congr 1
  push_cast
  ring

end C13L
