import PrysmVerif.Lemmas.C11Py
import Mathlib.Analysis.Real.Sqrt
/-!
# C11 — the exact-integer reading of the floating-point idioms, proved over the real numbers
-/
namespace Model.C11

/-- `ceilSqrt D` is the ceiling of the real square root -/
theorem ceilSqrt_eq_ceil_real (D : Nat) : ⌈Real.sqrt (D : ℝ)⌉ = (ceilSqrt D : Int) := by
  apply eq_of_forall_ge_iff
  intro t
  rw [Int.ceil_le]
  by_cases ht : 0 ≤ t
  · obtain ⟨u, rfl⟩ := Int.eq_ofNat_of_zero_le ht
    rw [Real.sqrt_le_left (by positivity)]
    have := ceilSqrt_le_iff D u
    constructor
    · intro h
      have : D ≤ u * u := by
        have : (D : ℝ) ≤ ((u * u : Nat) : ℝ) := by push_cast; push_cast at h; nlinarith
        exact_mod_cast this
      exact_mod_cast (ceilSqrt_le_iff D u).mpr this
    · intro h
      have : D ≤ u * u := (ceilSqrt_le_iff D u).mp (by exact_mod_cast h)
      have : (D : ℝ) ≤ ((u * u : Nat) : ℝ) := by exact_mod_cast this
      push_cast at this ⊢; nlinarith
  · constructor
    · intro h
      have : (0 : ℝ) ≤ Real.sqrt D := Real.sqrt_nonneg _
      have : (t : ℝ) < 0 := by exact_mod_cast (not_le.mp ht)
      linarith
    · intro h
      have : (0 : Int) ≤ ceilSqrt D := Int.natCast_nonneg _
      omega
end Model.C11

namespace Model.C11
theorem pyCeilDiv_le_iff (y t : Int) (c : Nat) (hc : 0 < c) : pyCeilDiv y c ≤ t ↔ y ≤ t * c := by
  unfold pyCeilDiv
  have hc' : (0 : Int) < c := by exact_mod_cast hc
  constructor
  · intro h
    have : -t ≤ (-y) / c := by omega
    have := (Int.le_ediv_iff_mul_le hc').mp this
    linarith
  · intro h
    have : -t * c ≤ -y := by linarith
    have := (Int.le_ediv_iff_mul_le hc').mpr this
    omega

/-- the translator's reading of `np.ceil((b + np.sqrt(D)) / c)` is exact over the reals -/
theorem ceil_div_sqrt_real (b : Int) (D c : Nat) (hc : 0 < c) :
    ⌈((b : ℝ) + Real.sqrt (D : ℝ)) / (c : ℝ)⌉ = pyCeilDiv (b + pyCeilSqrt (D : Int)) (c : Int) := by
  have hcs : pyCeilSqrt (D : Int) = ⌈Real.sqrt (D : ℝ)⌉ := by
    unfold pyCeilSqrt; rw [ceilSqrt_eq_ceil_real]; simp
  have hc' : (0 : ℝ) < c := by exact_mod_cast hc
  apply eq_of_forall_ge_iff
  intro t
  rw [Int.ceil_le, pyCeilDiv_le_iff _ _ _ hc, hcs, div_le_iff₀ hc']
  have : b + ⌈Real.sqrt (D : ℝ)⌉ ≤ t * c ↔ ⌈Real.sqrt (D : ℝ)⌉ ≤ t * c - b := by omega
  rw [this, Int.ceil_le]
  push_cast
  constructor <;> intro h <;> linarith
end Model.C11

namespace Model.C11

/-- for any real `y`, `⌈(b + y)/c⌉` depends on `y` only through `⌈y⌉` -/
theorem ceil_div_add_real (b : Int) (y : ℝ) (c : Nat) (hc : 0 < c) :
    ⌈((b : ℝ) + y) / (c : ℝ)⌉ = pyCeilDiv (b + ⌈y⌉) (c : Int) := by
  have hc' : (0 : ℝ) < c := by exact_mod_cast hc
  apply eq_of_forall_ge_iff
  intro t
  rw [Int.ceil_le, pyCeilDiv_le_iff _ _ _ hc, div_le_iff₀ hc']
  have : b + ⌈y⌉ ≤ t * c ↔ ⌈y⌉ ≤ t * c - b := by omega
  rw [this, Int.ceil_le]
  push_cast
  constructor <;> intro h <;> linarith

/-- **Correctly rounded square root followed by `ceil` is exact below 2^52.**
`fl` is any rounding with relative error at most `2^-53` (round-to-nearest binary64), monotone, and exact on the integers
up to `2^26`; then `⌈fl(√D)⌉ = ⌈√D⌉` for every natural `D < 2^52`.  (At `D = 2^52 + 1` the statement is false for IEEE
binary64, so the bound is sharp.) -/
theorem float_ceil_sqrt (fl : ℝ → ℝ) (hrel : ∀ x : ℝ, 0 ≤ x → |fl x - x| ≤ x / 2 ^ 53)
    (hmono : Monotone fl) (hint : ∀ z : ℕ, z ≤ 2 ^ 26 → fl (z : ℝ) = z) (D : ℕ) (hD : D < 2 ^ 52) :
    ⌈fl (Real.sqrt (D : ℝ))⌉ = (ceilSqrt D : ℤ) := by
  rcases Nat.eq_zero_or_pos D with h0 | hpos
  · subst h0
    have : ceilSqrt 0 = 0 := by
      have := (ceilSqrt_le_iff 0 0).mpr (by omega); omega
    rw [this]
    simp only [Nat.cast_zero, Real.sqrt_zero]
    have := hint 0 (by positivity)
    simp only [Nat.cast_zero] at this
    rw [this]; simp
  · obtain ⟨k, hk, hlo, hhi⟩ := ceilSqrt_spec D hpos
    rw [hk]
    have hk26 : k < 2 ^ 26 := by
      have : k * k < 2 ^ 26 * 2 ^ 26 := by
        have : (2 : ℕ) ^ 26 * 2 ^ 26 = 2 ^ 52 := by norm_num
        omega
      exact Nat.mul_self_lt_mul_self_iff.mp this
    set x := Real.sqrt (D : ℝ) with hx
    have hx0 : 0 ≤ x := Real.sqrt_nonneg _
    have hxx : x * x = D := Real.mul_self_sqrt (by positivity)
    have hlo' : ((k : ℝ)) * k + 1 ≤ D := by exact_mod_cast hlo
    have hhi' : (D : ℝ) ≤ ((k : ℝ) + 1) * (k + 1) := by exact_mod_cast hhi
    have hD' : (D : ℝ) < 2 ^ 52 := by exact_mod_cast hD
    have hk0 : (0 : ℝ) ≤ k := by positivity
    have hkx : (k : ℝ) < x := by
      by_contra h
      have h := not_lt.mp h
      have : x * x ≤ k * k := by nlinarith
      linarith
    have hxk1 : x ≤ (k : ℝ) + 1 := by
      by_contra h
      have h := not_le.mp h
      have : ((k : ℝ) + 1) * (k + 1) < x * x := by nlinarith
      linarith
    have hxpos : 0 < x := lt_of_le_of_lt hk0 hkx
    -- upper bound: monotone + exact on the integer k + 1
    have hup : fl x ≤ (k : ℝ) + 1 := by
      have := hmono hxk1
      have e := hint (k + 1) (by omega)
      push_cast at e
      rw [e] at this; exact this
    -- lower bound: the gap x - k exceeds the rounding error x / 2^53 because x² < 2^52
    have herr := hrel x hx0
    have hlow : (k : ℝ) < fl x := by
      have h1 : x - x / 2 ^ 53 ≤ fl x := by
        have := abs_le.mp herr; linarith
      have h2 : (x - k) * (2 * x) > 1 := by nlinarith
      have h3 : (x / 2 ^ 53) * (2 * x) < 1 := by
        have : (x / 2 ^ 53) * (2 * x) = (x * x) / 2 ^ 52 := by ring
        rw [this, hxx, div_lt_one (by positivity)]; exact hD'
      have h4 : (x - k - x / 2 ^ 53) * (2 * x) > 0 := by nlinarith
      have h5 : x - k - x / 2 ^ 53 > 0 := by
        by_contra h
        have h := not_lt.mp h
        have : (x - k - x / 2 ^ 53) * (2 * x) ≤ 0 := mul_nonpos_of_nonpos_of_nonneg h (by positivity)
        linarith
      linarith
    rw [Int.ceil_eq_iff]
    push_cast
    constructor <;> linarith

example : ∃ fl : ℝ → ℝ, (∀ x : ℝ, 0 ≤ x → |fl x - x| ≤ x / 2 ^ 53) ∧ Monotone fl ∧ ∀ z : ℕ, z ≤ 2 ^ 26 → fl (z : ℝ) = z :=
  ⟨id, fun x hx => by simp; positivity, monotone_id, fun _ _ => rfl⟩

end Model.C11
