import PrysmVerif.Lemmas.C11Py
import Mathlib.Analysis.Real.Sqrt
/-!
# C11 — the exact-integer reading of the floating-point idioms, proved over the real numbers
-/
namespace Model.C11

/-- `ceilSqrt D` is the ceiling of the real square root -/
theorem ceilSqrt_eq_ceil_real (D : Nat) : ⌈Real.sqrt (D : ℝ)⌉ = (ceilSqrt D : Int) := by
  apply eq_of_forall_ge_iff
  intro t
  rw [Int.ceil_le]
  by_cases ht : 0 ≤ t
  · obtain ⟨u, rfl⟩ := Int.eq_ofNat_of_zero_le ht
    rw [Real.sqrt_le_left (by positivity)]
    have := ceilSqrt_le_iff D u
    constructor
    · intro h
      have : D ≤ u * u := by
        have : (D : ℝ) ≤ ((u * u : Nat) : ℝ) := by push_cast; push_cast at h; nlinarith
        exact_mod_cast this
      exact_mod_cast (ceilSqrt_le_iff D u).mpr this
    · intro h
      have : D ≤ u * u := (ceilSqrt_le_iff D u).mp (by exact_mod_cast h)
      have : (D : ℝ) ≤ ((u * u : Nat) : ℝ) := by exact_mod_cast this
      push_cast at this ⊢; nlinarith
  · constructor
    · intro h
      have : (0 : ℝ) ≤ Real.sqrt D := Real.sqrt_nonneg _
      have : (t : ℝ) < 0 := by exact_mod_cast (not_le.mp ht)
      linarith
    · intro h
      have : (0 : Int) ≤ ceilSqrt D := Int.natCast_nonneg _
      omega
end Model.C11

namespace Model.C11
theorem pyCeilDiv_le_iff (y t : Int) (c : Nat) (hc : 0 < c) : pyCeilDiv y c ≤ t ↔ y ≤ t * c := by
  unfold pyCeilDiv
  have hc' : (0 : Int) < c := by exact_mod_cast hc
  constructor
  · intro h
    have : -t ≤ (-y) / c := by omega
    have := (Int.le_ediv_iff_mul_le hc').mp this
    linarith
  · intro h
    have : -t * c ≤ -y := by linarith
    have := (Int.le_ediv_iff_mul_le hc').mpr this
    omega

/-- the translator's reading of `np.ceil((b + np.sqrt(D)) / c)` is exact over the reals -/
theorem ceil_div_sqrt_real (b : Int) (D c : Nat) (hc : 0 < c) :
    ⌈((b : ℝ) + Real.sqrt (D : ℝ)) / (c : ℝ)⌉ = pyCeilDiv (b + pyCeilSqrt (D : Int)) (c : Int) := by
  have hcs : pyCeilSqrt (D : Int) = ⌈Real.sqrt (D : ℝ)⌉ := by
    unfold pyCeilSqrt; rw [ceilSqrt_eq_ceil_real]; simp
  have hc' : (0 : ℝ) < c := by exact_mod_cast hc
  apply eq_of_forall_ge_iff
  intro t
  rw [Int.ceil_le, pyCeilDiv_le_iff _ _ _ hc, hcs, div_le_iff₀ hc']
  have : b + ⌈Real.sqrt (D : ℝ)⌉ ≤ t * c ↔ ⌈Real.sqrt (D : ℝ)⌉ ≤ t * c - b := by omega
  rw [this, Int.ceil_le]
  push_cast
  constructor <;> intro h <;> linarith
end Model.C11
