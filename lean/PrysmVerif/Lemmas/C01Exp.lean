import PrysmVerif.Lemmas.C01Fourier
import Mathlib.Analysis.SpecialFunctions.Complex.Log
import Mathlib.Analysis.SpecialFunctions.Sqrt
/-!
# C01/C02 — the real thing satisfies the abstract laws (non-vacuity of every hypothesis)

`expKernel t = exp(−2πi t)`, `sqrtNrm a = √a`, complex conjugation.
-/
namespace C01
open Complex

/-- the forward Fourier kernel `t ↦ exp(−2πi t)` -/
noncomputable def expKernel (t : ℝ) : ℂ := Complex.exp (-(2 * Real.pi * Complex.I) * (t : ℂ))

/-- the energy normalisation `a ↦ √a` -/
noncomputable def sqrtNrm (a : ℝ) : ℂ := ((Real.sqrt a : ℝ) : ℂ)

theorem expKernel_isChar : IsChar expKernel where
  add a b := by
    unfold expKernel
    rw [← Complex.exp_add]; congr 1; push_cast; ring
  zero := by simp [expKernel]
  int k := by
    unfold expKernel
    have := Complex.exp_int_mul_two_pi_mul_I (-k)
    rw [← this]; congr 1; push_cast; ring

theorem expKernel_isFaithful : IsFaithful expKernel := by
  intro t ht
  unfold expKernel at ht
  obtain ⟨n, hn⟩ := Complex.exp_eq_one_iff.1 ht
  refine ⟨-n, ?_⟩
  have h2 : (2 * (Real.pi : ℂ) * Complex.I) ≠ 0 := by
    simp [Real.pi_ne_zero, Complex.I_ne_zero]
  have : (t : ℂ) = ((-n : ℤ) : ℂ) := by
    have h4 : (2 * (Real.pi : ℂ) * Complex.I) * (-(t : ℂ)) = (2 * (Real.pi : ℂ) * Complex.I) * (n : ℂ) := by
      rw [mul_comm _ (n : ℂ), ← hn]; ring
    have := mul_left_cancel₀ h2 h4
    push_cast
    linear_combination (-1 : ℂ) * this
  exact_mod_cast this

theorem expKernel_isConj : IsConj (starRingEnd ℂ) expKernel sqrtNrm where
  e_conj t := by
    unfold expKernel
    rw [← Complex.exp_conj]; congr 1
    simp only [map_mul, map_neg, Complex.conj_ofReal, Complex.conj_I, map_ofNat]
    push_cast; ring
  nrm_conj a := by simp [sqrtNrm]
  invol z := by simp

/-- `√a · √a = a` for `a ≥ 0` (the law of `nrm` used by the energy theorems) -/
theorem sqrtNrm_sq (a : ℝ) (ha : 0 ≤ a) : sqrtNrm a * sqrtNrm a = ((a : ℝ) : ℂ) := by
  unfold sqrtNrm
  rw [← Complex.ofReal_mul, Real.mul_self_sqrt ha]

end C01
