import PrysmVerif.Lemmas.C16Expose
/-!
# C16 — safe white-balance limiting: the running-maximum loop over the colour planes
-/
set_option linter.unusedSectionVars false
set_option linter.unusedSimpArgs false

namespace C16L
open Model.C16

variable {K : Type} [Field K] [LinearOrder K] [IsStrictOrderedRing K]

theorem safeStep_eq_max (r mx sat : K) (hr : 1 ≤ r) : safeStep r mx sat = max r (mx / sat) := by
  unfold safeStep
  have e : (Num.ofInt 1 : K) = 1 := by simp [Num.ofInt]
  rw [e]
  split_ifs with h
  · exact (max_eq_right h.2.le).symm
  · rw [not_and_or] at h
    rcases h with h | h
    · exact (max_eq_left ((not_lt.mp h).trans hr)).symm
    · exact (max_eq_left (not_lt.mp h)).symm

/-- a limiting step: from a ratio `r ≥ 1`, looking at a plane moves it to `max r (mx / sat)` -/
def IsMaxStep (step : K → K → K → K) : Prop := ∀ r mx sat, 1 ≤ r → step r mx sat = max r (mx / sat)

theorem safeStep_isMaxStep : IsMaxStep (safeStep : K → K → K → K) := fun r mx sat hr => safeStep_eq_max r mx sat hr

variable {step : K → K → K → K} (hstep : IsMaxStep step)
include hstep

/-- the final ratio dominates the start value and every plane's `max / saturation` -/
theorem safeRatio_ge (l : List (K × K)) (r : K) (hr : 1 ≤ r) :
    r ≤ safeRatio step l r ∧ ∀ p ∈ l, p.1 / p.2 ≤ safeRatio step l r := by
  induction l generalizing r with
  | nil => exact ⟨le_refl _, fun p hp => by simp at hp⟩
  | cons q rest ih =>
    obtain ⟨mx, sat⟩ := q
    have hs : step r mx sat = max r (mx / sat) := hstep r mx sat hr
    have h1 : 1 ≤ step r mx sat := by rw [hs]; exact hr.trans (le_max_left _ _)
    obtain ⟨a, b⟩ := ih (step r mx sat) h1
    refine ⟨?_, ?_⟩
    · show r ≤ safeRatio step rest (step r mx sat)
      exact ((le_max_left _ _).trans (le_of_eq hs.symm)).trans a
    · intro p hp
      show p.1 / p.2 ≤ safeRatio step rest (step r mx sat)
      rcases List.mem_cons.mp hp with rfl | hp
      · exact ((le_max_right _ _).trans (le_of_eq hs.symm)).trans a
      · exact b p hp

/-- nothing above saturation: the ratio stays 1 (the data are not touched) -/
theorem safeRatio_eq_one (l : List (K × K)) (h : ∀ p ∈ l, p.1 / p.2 ≤ 1) : safeRatio step l 1 = 1 := by
  induction l with
  | nil => rfl
  | cons q rest ih =>
    obtain ⟨mx, sat⟩ := q
    have hq : mx / sat ≤ 1 := h (mx, sat) (List.mem_cons_self)
    show safeRatio step rest (step 1 mx sat) = 1
    rw [hstep 1 mx sat (le_refl _), max_eq_left hq]
    exact ih fun p hp => h p (List.mem_cons_of_mem _ hp)

/-- after dividing by the final ratio no inspected plane exceeds its saturation level -/
theorem safe_limits (l : List (K × K)) (p : K × K) (hp : p ∈ l) (hsat : 0 < p.2) :
    p.1 / safeRatio step l 1 ≤ p.2 := by
  obtain ⟨h1, h2⟩ := safeRatio_ge hstep l 1 (le_refl _)
  have hpos : 0 < safeRatio step l 1 := lt_of_lt_of_le one_pos h1
  have := h2 p hp
  rw [div_le_iff₀ hsat] at this
  rw [div_le_iff₀ hpos]
  linarith [mul_comm (safeRatio step l 1) p.2]

end C16L
