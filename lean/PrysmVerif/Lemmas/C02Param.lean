import PrysmVerif.Lemmas.C02Asp
import PrysmVerif.Lemmas.C01Param
/-!
# C02 — the parameterised free-space model (`aspTf2G`, `aspApplyG`, `mdftRoundTripG`): laws that need only "the generated
coefficient is additive in z", and the reference values give back the plain model
-/
set_option linter.unusedSectionVars false
set_option linter.unusedVariables false

namespace C01
open Finset Model.C01 Model.C02

variable {R K : Type} [Field R] [CharZero R] [Field K] [CharZero K]
variable {e : R → K} (nrm : R → K)

/-- additivity in `z` of the coefficient of `π k²` -/
def CoefAdditive (coef : R → R → R) : Prop := ∀ wvl z1 z2, coef wvl (z1 + z2) = coef wvl z1 + coef wvl z2

theorem CoefAdditive.zero {coef : R → R → R} (h : CoefAdditive coef) (wvl : R) : coef wvl 0 = 0 := by
  have := h wvl 0 0
  rw [add_zero] at this
  exact (add_eq_left.mp this.symm)

theorem CoefAdditive.neg {coef : R → R → R} (h : CoefAdditive coef) (wvl z : R) : coef wvl (-z) = -coef wvl z := by
  have := h wvl (-z) z
  rw [neg_add_cancel, h.zero] at this
  exact eq_neg_of_add_eq_zero_left this.symm

theorem aspTf1G_add (he : IsChar e) {coef : R → R → R} (h : CoefAdditive coef) (sg : Int) (s : Nat) (wvl dx z1 z2 : R) (k : Nat) :
    aspTf1G coef sg e s wvl dx (z1 + z2) k = aspTf1G coef sg e s wvl dx z1 k * aspTf1G coef sg e s wvl dx z2 k := by
  unfold aspTf1G
  rw [h, ← (isChar_kernS he sg).add]; congr 1
  simp only [ofInt_eq]; push_cast; ring

theorem aspTf1G_zero (he : IsChar e) {coef : R → R → R} (h : CoefAdditive coef) (sg : Int) (s : Nat) (wvl dx : R) (k : Nat) :
    aspTf1G coef sg e s wvl dx 0 k = 1 := by
  unfold aspTf1G
  rw [h.zero, zero_mul, zero_div, (isChar_kernS he sg).zero]

theorem aspTf1G_conj (cj : K →+* K) (hc : IsConj cj e nrm) {coef : R → R → R} (h : CoefAdditive coef) (sg : Int) (s : Nat)
    (wvl dx z : R) (k : Nat) :
    cj (aspTf1G coef sg e s wvl dx z k) = aspTf1G coef sg e s wvl dx (-z) k := by
  unfold aspTf1G kernS
  rw [hc.e_conj, h.neg]; congr 1; ring

theorem aspTf2G_add (he : IsChar e) {coef : R → R → R} (h : CoefAdditive coef) (sr sc : Int) (ri ci : Nat) (shape : Nat × Nat)
    (wvl dx z1 z2 : R) (p q : Nat) :
    aspTf2G coef sr sc ri ci e shape wvl dx (z1 + z2) p q
      = aspTf2G coef sr sc ri ci e shape wvl dx z1 p q * aspTf2G coef sr sc ri ci e shape wvl dx z2 p q := by
  simp only [aspTf2G, aspTf1G_add he h]; ring

theorem aspTf2G_zero (he : IsChar e) {coef : R → R → R} (h : CoefAdditive coef) (sr sc : Int) (ri ci : Nat) (shape : Nat × Nat)
    (wvl dx : R) (p q : Nat) : aspTf2G coef sr sc ri ci e shape wvl dx 0 p q = 1 := by
  simp only [aspTf2G, aspTf1G_zero he h, mul_one]

theorem aspTf2G_neg (he : IsChar e) {coef : R → R → R} (h : CoefAdditive coef) (sr sc : Int) (ri ci : Nat) (shape : Nat × Nat)
    (wvl dx z : R) (p q : Nat) :
    aspTf2G coef sr sc ri ci e shape wvl dx (-z) p q * aspTf2G coef sr sc ri ci e shape wvl dx z p q = 1 := by
  rw [← aspTf2G_add he h, neg_add_cancel, aspTf2G_zero he h]

theorem aspTf2G_unit (he : IsChar e) (cj : K →+* K) (hc : IsConj cj e nrm) {coef : R → R → R} (h : CoefAdditive coef)
    (sr sc : Int) (ri ci : Nat) (shape : Nat × Nat) (wvl dx z : R) (p q : Nat) :
    cj (aspTf2G coef sr sc ri ci e shape wvl dx z p q) * aspTf2G coef sr sc ri ci e shape wvl dx z p q = 1 := by
  have : cj (aspTf2G coef sr sc ri ci e shape wvl dx z p q) = aspTf2G coef sr sc ri ci e shape wvl dx (-z) p q := by
    simp only [aspTf2G, map_mul, aspTf1G_conj nrm cj hc h]
  rw [this, aspTf2G_neg he h]

theorem aspApplyG_ref (shape : Nat × Nat) (tf : Nat → Nat → K) (f : Array (Array K)) :
    aspApplyG aspOpFlagsRef e nrm shape tf f = aspApply e shape tf f := by
  simp [aspApplyG, aspOpFlagsRef]

theorem mdft2_congr (w0 w1 : AxisWiring) (shp samples : Nat × Nat) (sc0 sc1 a0 a1 : R) (shift : R × R)
    {f g : Nat → Nat → K} (h : ∀ j i, j < shp.1 → i < shp.2 → f j i = g j i) (k l : Nat) :
    mdft2 e nrm w0 w1 shp samples sc0 sc1 a0 a1 shift f k l = mdft2 e nrm w0 w1 shp samples sc0 sc1 a0 a1 shift g k l := by
  simp only [mdft2, sumTo_eq]
  exact Finset.sum_congr rfl fun j hj => Finset.sum_congr rfl fun i hi => by
    rw [h j i (Finset.mem_range.1 hj) (Finset.mem_range.1 hi)]


end C01
