import PrysmVerif.Lemmas.C02Param
import PrysmVerif.Lemmas.C02Energy
/-!
# C02 — the padded FFT route is the unpadded route applied to the padded array
(`focus(f, Q) = focus(pad2d(f, Q), 1)`), from which `unfocus(focus(f, Q), 1) = pad2d(f, Q)` for every padded shape
-/
set_option linter.unusedSectionVars false
namespace C01
open Finset Model.C01 Model.C02

variable {R K : Type} [Field R] [CharZero R] [Field K] [CharZero K]
variable {e : R → K} (nrm : R → K)

theorem tab_congr {n : Nat} {f g : Nat → K} (h : ∀ i, i < n → f i = g i) : tab n f = tab n g := by
  unfold tab
  congr 1
  funext i
  exact h i.val i.isLt

theorem tab2_congr {m n : Nat} {f g : Nat → Nat → K} (h : ∀ j i, j < m → i < n → f j i = g j i) :
    tab2 m n f = tab2 m n g := by
  unfold tab2
  congr 1
  funext j
  exact tab_congr (fun i hi => h j.val i j.isLt hi)

theorem padv_zero_off (n : Nat) (x : Nat → K) (t : Nat) (ht : t < n) : padv n 0 x t = x t := by
  unfold padv
  have : (0 : ℤ) ≤ (t : ℤ) ∧ (t : ℤ) < 0 + (n : ℤ) := by constructor <;> omega
  rw [if_pos this]; simp

/-- `focus(f, Q)` is `focus(pad2d(f, Q), 1)`: the padded route is the unpadded route applied to the padded array -/
theorem fftRoute2_pad_first (shp out : Nat × Nat) (off : Int × Int) (f : Array (Array K)) :
    fftRoute2 e nrm shp out off f = fftRoute2 e nrm out out (0, 0) (pad2 shp out off f) := by
  have hx : tab2 out.1 out.2 (fun u v => padv out.1 (0, 0).1 (fun j => padv out.2 (0, 0).2 (rd2 (pad2 shp out off f) j) v) u)
      = pad2 shp out off f := by
    unfold pad2
    apply tab2_congr
    intro u v hu hv
    rw [padv_zero_off _ _ _ hu, padv_zero_off _ _ _ hv, rd2_tab2_lt _ hu hv]
  unfold fftRoute2
  simp only []
  rw [hx]
  rfl
end C01
