import PrysmVerif.Num
import Mathlib.Algebra.Field.Basic
/-!
# C17 / C20 — every Mathlib field is a `Num` (scoped: open `C17Num` to use it)

The models and the translator output are written against the small class `Num`; to reason about them over
`ℝ`, `ℂ` or an arbitrary field the class is instantiated from the field structure.  The instance is scoped so
that it cannot clash with the same bridge defined for other properties.
-/
namespace C17Num

scoped instance (priority := 100) fieldNum {K : Type} [Field K] : Num K :=
  { ofInt := fun i => (i : K) }

@[simp] theorem ofInt_eq {K : Type} [Field K] (i : Int) : (Num.ofInt i : K) = (i : K) := rfl

/-- float literals of the source (`0.5` is read as the exact rational `1/2`) -/
@[simp] theorem ofFrac_eq {K : Type} [Field K] (p : Int) (q : Nat) : (Num.ofFrac p q : K) = (p : K) / (q : K) := by
  simp [Num.ofFrac]

end C17Num
