import PrysmVerif.Model.C08
import Mathlib.Tactic.Ring
import Mathlib.Tactic.FieldSimp
import Mathlib.Tactic.Linarith
import Mathlib.Tactic.LinearCombination
import Mathlib.Tactic.Positivity
import Mathlib.Algebra.Order.Field.Basic

/-! # C07 — bridge between the `Num`-generic models and Mathlib fields; unfolding lemmas -/
namespace C07L
open Model.C07

scoped instance (priority := 100) fieldNum {K : Type} [Field K] : Num K := { ofInt := fun i => (i : K) }

section
variable {K : Type} [Field K]

@[simp] theorem ofInt_eq (n : Int) : (Num.ofInt n : K) = (n : K) := rfl
@[simp] theorem nat_eq (n : Nat) : (nat n : K) = (n : K) := by simp [nat]
@[simp] theorem int_eq (n : Int) : (int n : K) = (n : K) := rfl
@[simp] theorem ofFrac_eq (p : Int) (q : Nat) : (Num.ofFrac p q : K) = (p : K) / (q : K) := by
  simp [Num.ofFrac]
@[simp] theorem npow_eq (x : K) (n : Nat) : Num.npow x n = x ^ n := by
  induction n with
  | zero => simp [Num.npow]
  | succ n ih => simp [Num.npow, ih, pow_succ]
@[simp] theorem half_eq : (half : K) = 1 / 2 := by simp [half]
@[simp] theorem mhalf_eq : (mhalf : K) = -1 / 2 := by simp [mhalf]

/-! forRange -/
theorem forRange_go_succ {σ} (f : Int → σ → σ) (k : Nat) (i : Int) (s : σ) :
    forRange.go f (k+1) i s = f (i + k) (forRange.go f k i s) := by
  induction k generalizing i s with
  | zero => simp [forRange.go]
  | succ k ih =>
    rw [forRange.go, ih, forRange.go]
    congr 1
    push_cast; ring

theorem forRange_nat {σ} (lo : Int) (k : Nat) (f : Int → σ → σ) (s : σ) :
    forRange lo (lo + k) f s = forRange.go f k lo s := by
  simp [forRange]

theorem forRange_succ {σ} (lo : Int) (k : Nat) (f : Int → σ → σ) (s : σ) :
    forRange lo (lo + (k + 1 : Nat)) f s = f (lo + k) (forRange lo (lo + k) f s) := by
  rw [forRange_nat, forRange_nat, forRange_go_succ]

theorem forRange_zero {σ} (lo : Int) (f : Int → σ → σ) (s : σ) : forRange lo lo f s = s := by
  simp [forRange, forRange.go]

theorem forRange_induct {σ} (P : ℕ → σ → Prop) (lo : ℤ) (f : ℤ → σ → σ) (s : σ) (h0 : P 0 s)
    (hstep : ∀ k s, P k s → P (k+1) (f (lo + k) s)) (k : ℕ) : P k (forRange lo (lo + k) f s) := by
  induction k with
  | zero => simpa [forRange_zero] using h0
  | succ k ih => rw [forRange_succ]; exact hstep k _ ih

/-! Jacobi model unfolding -/
theorem jacobi_zero (a b x : K) : jacobi 0 a b x = 1 := by simp [jacobi, jacPair]
theorem jacobi_one (a b x : K) : jacobi 1 a b x = jacP1 a b x := by simp [jacobi, jacPair]
theorem jacobi_succ_succ (n : Nat) (a b x : K) :
    jacobi (n+2) a b x = jacStep (n+1) a b x (jacobi (n+1) a b x) (jacobi n a b x) := by
  simp [jacobi, jacPair]

theorem jacStep_eq (n : Nat) (a b x p q : K) :
    jacStep n a b x p q =
      ((2 * n + a + b + 1) * (2 * n + a + b + 2) / (2 * (n + 1) * (n + a + b + 1)) * x
        + (a * a - b * b) * (2 * n + a + b + 1) / (2 * (n + 1) * (n + a + b + 1) * (2 * n + a + b))) * p
      - (n + a) * (n + b) * (2 * n + a + b + 2) / ((n + 1) * (n + a + b + 1) * (2 * n + a + b)) * q := by
  simp [jacStep, abc, abcK]

end

end C07L
