import PrysmVerif.Lemmas.C06Adjoint
import Mathlib.Tactic.LinearCombination
import Mathlib.Analysis.SpecialFunctions.ExpDeriv
import Mathlib.Analysis.SpecialFunctions.Log.Deriv
import Mathlib.Analysis.SpecialFunctions.Trigonometric.ArctanDeriv
import Mathlib.Analysis.Calculus.Deriv.Inv
import Mathlib.Tactic.FunProp
/-!
# C06 helper lemmas: the non-linear nodes (softmax, activations, intensity, phase, cost functions)
-/
set_option linter.unusedSectionVars false
set_option linter.unusedVariables false
set_option linter.unusedSimpArgs false
open Model.C06 Finset C06L
namespace C06L

section cx
variable {K : Type} [Field K]
@[simp] theorem cx_add_re (a b : Cx K) : (a + b).re = a.re + b.re := rfl
@[simp] theorem cx_add_im (a b : Cx K) : (a + b).im = a.im + b.im := rfl
@[simp] theorem cx_sub_re (a b : Cx K) : (a - b).re = a.re - b.re := rfl
@[simp] theorem cx_sub_im (a b : Cx K) : (a - b).im = a.im - b.im := rfl
@[simp] theorem cx_mul_re (a b : Cx K) : (a * b).re = a.re * b.re - a.im * b.im := rfl
@[simp] theorem cx_mul_im (a b : Cx K) : (a * b).im = a.re * b.im + a.im * b.re := rfl
@[simp] theorem cx_smul_re (t : K) (a : Cx K) : (Cx.smul t a).re = t * a.re := rfl
@[simp] theorem cx_smul_im (t : K) (a : Cx K) : (Cx.smul t a).im = t * a.im := rfl
@[simp] theorem cx_conj_re (a : Cx K) : (Cx.conj a).re = a.re := rfl
@[simp] theorem cx_conj_im (a : Cx K) : (Cx.conj a).im = -a.im := rfl

/-- intensity node: `Ibar·|E + tδ|²` has linear coefficient `Re⟨2·Ibar·E, δ⟩` in `t` -/
theorem intensity_expand (Ibar t : K) (E δ : Cx K) :
    Ibar * Cx.normSq (E + Cx.smul t δ)
      = Ibar * Cx.normSq E + t * reDot (intensityBack Ibar E) δ + t ^ 2 * (Ibar * Cx.normSq δ) := by
  simp only [Cx.normSq, reDot, intensityBack, cx_add_re, cx_add_im, cx_smul_re, cx_smul_im, ofInt_eq]
  push_cast; ring

/-- phase node: a phase perturbation `dφ` moves `g = A·exp(ikφ)` by `i·k·g·dφ`; pairing with `gbar` gives `k·Im(gbar·conj g)` -/
theorem phase_core (k : K) (gbar g : Cx K) :
    reDot gbar (Cx.smul k ((⟨0, 1⟩ : Cx K) * g)) = phaseBack k gbar g := by
  simp only [reDot, phaseBack, cx_smul_re, cx_smul_im, cx_mul_re, cx_mul_im, cx_conj_re, cx_conj_im]
  ring
end cx

section cost
variable {K : Type} [Field K]

theorem mse_expand (n : Nat) (M D δ : Vec K) (t : K) :
    mseCost n (fun i => M i + t * δ i) D
      = mseCost n M D + t * (∑ i ∈ range n, mseGrad n M D i * δ i)
        + t ^ 2 * ((∑ i ∈ range n, δ i * δ i) * (1 / (n : K))) := by
  simp only [mseCost, mseGrad, sumTo_eq, ofInt_eq]
  push_cast
  have e : ∀ i, (M i + t * δ i - D i) * (M i + t * δ i - D i)
      = (M i - D i) * (M i - D i) + t * (2 * ((M i - D i) * δ i)) + t ^ 2 * (δ i * δ i) := fun i => by ring
  simp only [e, Finset.sum_add_distrib, ← Finset.mul_sum]
  have e2 : ∀ i, 2 * (1 / (n : K)) * (M i - D i) * δ i = (1 / (n : K)) * (2 * ((M i - D i) * δ i)) := fun i => by ring
  simp only [e2, ← Finset.mul_sum]
  ring
end cost

/-- a function that is exactly `a + t b + t² c` has derivative `b` at `0` -/
theorem hasDerivAt_of_quadratic (f : ℝ → ℝ) (a b c : ℝ) (h : ∀ t, f t = a + t * b + t ^ 2 * c) :
    HasDerivAt f b 0 := by
  have hf : f = fun t => a + t * b + t ^ 2 * c := funext h
  rw [hf]
  have h1 : HasDerivAt (fun t : ℝ => a + t * b + t ^ 2 * c) (1 * b + (2 * (0:ℝ) ^ (2 - 1) * 1) * c) 0 :=
    (((hasDerivAt_id (0:ℝ)).mul_const b).const_add a).add (((hasDerivAt_id (0:ℝ)).pow 2).mul_const c)
  simpa using h1
end C06L

namespace C06L
section bgie
variable {K : Type} [Field K]

/-- the cost of `bias_and_gain_invariant_error` with the gain `a` and bias `b` as free variables -/
def bgieC (n : Nat) (I D : Vec K) (a b : K) : K :=
  bgieR n D * ∑ i ∈ range n, (a * I i + b - D i) * (a * I i + b - D i)

theorem bgieCost_eq (n : Nat) (I D : Vec K) :
    bgieCost n I D = bgieC n I D (bgieAlpha n I D) (bgieBeta n I D) := by
  simp only [bgieCost, bgieC, bgieResid, sumTo_eq]

theorem centered_sum (n : Nat) (hn : (n : K) ≠ 0) (u v : Vec K) :
    (∑ i ∈ range n, (u i - (∑ j ∈ range n, u j) / n) * (v i - (∑ j ∈ range n, v j) / n))
      = (∑ i ∈ range n, u i * v i) - (∑ j ∈ range n, u j) * (∑ j ∈ range n, v j) / n := by
  set su := ∑ j ∈ range n, u j with hsu
  set sv := ∑ j ∈ range n, v j with hsv
  have e : ∀ i, (u i - su / n) * (v i - sv / n)
      = u i * v i - (sv / n) * u i - (su / n) * v i + (su / n) * (sv / n) := fun i => by ring
  simp only [e, Finset.sum_add_distrib, Finset.sum_sub_distrib, ← Finset.mul_sum, Finset.sum_const,
    Finset.card_range, nsmul_eq_mul, ← hsu, ← hsv]
  field_simp
  ring

/-- normal equations: with the least-squares gain and bias the residual sums to zero and is orthogonal to `I` -/
theorem bgie_normal (n : Nat) (hn : (n : K) ≠ 0) (I D : Vec K)
    (hden : (∑ i ∈ range n, (I i - (∑ j ∈ range n, I j) / n) * (I i - (∑ j ∈ range n, I j) / n)) ≠ 0) :
    (∑ i ∈ range n, bgieResid n I D i) = 0 ∧ (∑ i ∈ range n, bgieResid n I D i * I i) = 0 := by
  have hα : bgieAlpha n I D * (∑ i ∈ range n, (I i - (∑ j ∈ range n, I j) / n) * (I i - (∑ j ∈ range n, I j) / n))
      = ∑ i ∈ range n, (I i - (∑ j ∈ range n, I j) / n) * (D i - (∑ j ∈ range n, D j) / n) := by
    simp only [bgieAlpha, mean, sumTo_eq, ofInt_eq]; push_cast
    exact div_mul_cancel₀ _ hden
  rw [centered_sum n hn, centered_sum n hn] at hα
  set α := bgieAlpha n I D with hαdef
  have hβ : bgieBeta n I D = ((∑ j ∈ range n, D j) - α * ∑ j ∈ range n, I j) / n := by
    simp only [bgieBeta, mean, sumTo_eq, ofInt_eq, Finset.sum_sub_distrib, ← Finset.mul_sum, ← hαdef]; push_cast
    rfl
  set sI := ∑ j ∈ range n, I j
  set sD := ∑ j ∈ range n, D j
  set sII := ∑ i ∈ range n, I i * I i
  set sID := ∑ i ∈ range n, I i * D i
  constructor
  · simp only [bgieResid, ← hαdef, hβ, Finset.sum_add_distrib, Finset.sum_sub_distrib, ← Finset.mul_sum,
      Finset.sum_const, Finset.card_range, nsmul_eq_mul]
    field_simp
    ring
  · have e : ∀ i, bgieResid n I D i * I i = α * (I i * I i) + bgieBeta n I D * I i - I i * D i := fun i => by
      simp only [bgieResid, ← hαdef]; ring
    simp only [e, Finset.sum_add_distrib, Finset.sum_sub_distrib, ← Finset.mul_sum, hβ]
    have : α * sII = sID - sI * sD / n + α * (sI * sI / n) := by
      have := hα; linear_combination this
    change α * sII + (sD - α * sI) / n * sI - sID = 0
    rw [this]
    field_simp
    ring

/-- so the gain and bias are a stationary point (the minimiser) of the cost: no first-order term -/
theorem bgie_stationary (n : Nat) (hn : (n : K) ≠ 0) (I D : Vec K)
    (hden : (∑ i ∈ range n, (I i - (∑ j ∈ range n, I j) / n) * (I i - (∑ j ∈ range n, I j) / n)) ≠ 0) (s u : K) :
    bgieC n I D (bgieAlpha n I D + s) (bgieBeta n I D + u)
      = bgieC n I D (bgieAlpha n I D) (bgieBeta n I D) + bgieR n D * ∑ i ∈ range n, (s * I i + u) * (s * I i + u) := by
  obtain ⟨h1, h2⟩ := bgie_normal n hn I D hden
  simp only [bgieC]
  have e : ∀ i, ((bgieAlpha n I D + s) * I i + (bgieBeta n I D + u) - D i) * ((bgieAlpha n I D + s) * I i + (bgieBeta n I D + u) - D i)
      = (bgieAlpha n I D * I i + bgieBeta n I D - D i) * (bgieAlpha n I D * I i + bgieBeta n I D - D i)
        + (2 * s) * (bgieResid n I D i * I i) + (2 * u) * bgieResid n I D i + (s * I i + u) * (s * I i + u) := fun i => by
    simp only [bgieResid]; ring
  simp only [e, Finset.sum_add_distrib, ← Finset.mul_sum, h1, h2]
  ring

/-- partial derivative with respect to the data at fixed gain and bias -/
theorem bgie_partial (n : Nat) (I D δ : Vec K) (a b t : K) :
    bgieC n (fun i => I i + t * δ i) D a b
      = bgieC n I D a b + t * (∑ i ∈ range n, (2 * bgieR n D * a * (a * I i + b - D i)) * δ i)
        + t ^ 2 * (bgieR n D * ∑ i ∈ range n, (a * δ i) * (a * δ i)) := by
  simp only [bgieC]
  have e : ∀ i, (a * (I i + t * δ i) + b - D i) * (a * (I i + t * δ i) + b - D i)
      = (a * I i + b - D i) * (a * I i + b - D i) + t * (2 * a * ((a * I i + b - D i) * δ i)) + t ^ 2 * ((a * δ i) * (a * δ i)) := fun i => by ring
  have e2 : ∀ i, (2 * bgieR n D * a * (a * I i + b - D i)) * δ i = bgieR n D * (2 * a * ((a * I i + b - D i) * δ i)) := fun i => by ring
  simp only [e, e2, Finset.sum_add_distrib, ← Finset.mul_sum]
  ring
end bgie
end C06L

namespace C06L

/-- softmax VJP (real analysis): the derivative of `t ↦ Σ_i g_i · softmax(x + tδ)_i` at `0` is `⟨s ⊙ (g − ⟨g,s⟩), δ⟩` -/
theorem softmax_vjp' (n : Nat) (x δ g : Nat → ℝ) :
    HasDerivAt (fun t : ℝ => ∑ i ∈ range n, g i * softmaxFwd Real.exp n (fun j => x j + t * δ j) i)
      (∑ j ∈ range n, softmaxBack n (softmaxFwd Real.exp n x) g j * δ j) 0 := by
  rcases Nat.eq_zero_or_pos n with rfl | hn
  · simp only [Finset.range_zero, Finset.sum_empty]; exact hasDerivAt_const _ _
  set e : ℕ → ℝ := fun i => Real.exp (x i) with he
  set S : ℝ := ∑ j ∈ range n, e j with hS
  have hSpos : 0 < S := Finset.sum_pos (fun j _ => Real.exp_pos _) ⟨0, Finset.mem_range.mpr hn⟩
  have hE : ∀ i, HasDerivAt (fun t : ℝ => Real.exp (x i + t * δ i)) (e i * δ i) 0 := by
    intro i
    have h1 : HasDerivAt (fun t : ℝ => x i + t * δ i) (δ i) 0 := by
      simpa using ((hasDerivAt_id (0:ℝ)).mul_const (δ i)).const_add (x i)
    have := h1.exp
    simpa [he] using this
  have hSum : HasDerivAt (fun t : ℝ => ∑ j ∈ range n, Real.exp (x j + t * δ j)) (∑ j ∈ range n, e j * δ j) 0 :=
    HasDerivAt.fun_sum fun j _ => hE j
  have hS0 : (∑ j ∈ range n, Real.exp (x j + (0:ℝ) * δ j)) = S := by simp [hS, he]
  have hterm : ∀ i, HasDerivAt (fun t : ℝ => g i * (Real.exp (x i + t * δ i) / ∑ j ∈ range n, Real.exp (x j + t * δ j)))
      (g i * ((e i * δ i * S - e i * ∑ j ∈ range n, e j * δ j) / S ^ 2)) 0 := by
    intro i
    have := ((hE i).div hSum (by rw [hS0]; exact hSpos.ne')).const_mul (g i)
    simpa [hS0, he] using this
  have hall := HasDerivAt.fun_sum (u := range n) fun i _ => hterm i
  have hfun : (fun t : ℝ => ∑ i ∈ range n, g i * softmaxFwd Real.exp n (fun j => x j + t * δ j) i)
      = fun t : ℝ => ∑ i ∈ range n, g i * (Real.exp (x i + t * δ i) / ∑ j ∈ range n, Real.exp (x j + t * δ j)) := by
    funext t; simp only [softmaxFwd, sumTo_eq]
  have hSne : S ≠ 0 := hSpos.ne'
  have hval : (∑ j ∈ range n, softmaxBack n (softmaxFwd Real.exp n x) g j * δ j)
      = ∑ i ∈ range n, g i * ((e i * δ i * S - e i * ∑ j ∈ range n, e j * δ j) / S ^ 2) := by
    simp only [softmaxFwd, softmaxBack, sumTo_eq]
    change (∑ j ∈ range n, e j / S * (g j - ∑ i ∈ range n, g i * (e i / S)) * δ j) = _
    set G : ℝ := ∑ i ∈ range n, g i * e i with hG
    set D : ℝ := ∑ j ∈ range n, e j * δ j with hD
    have hin : (∑ i ∈ range n, g i * (e i / S)) = G / S := by
      rw [hG, div_eq_mul_inv, Finset.sum_mul]; exact Finset.sum_congr rfl fun i _ => by ring
    rw [hin]
    have h1 : ∀ j, e j / S * (g j - G / S) * δ j = (e j * g j * δ j) / S - (e j * δ j) * (G / S ^ 2) := by
      intro j; field_simp
    have h2 : ∀ i, g i * ((e i * δ i * S - e i * D) / S ^ 2) = (e i * g i * δ i) / S - (g i * e i) * (D / S ^ 2) := by
      intro i; field_simp
    simp only [h1, h2, Finset.sum_sub_distrib, ← Finset.sum_mul, ← hG, ← hD]
    ring
  rw [hfun, hval]
  exact hall
end C06L

namespace C06L

theorem tanh_deriv' (a x0 y0 x : ℝ) :
    HasDerivAt (fun x => tanhFwd Real.exp a x0 y0 x) (tanhBack Real.exp a x0 y0 x) x := by
  have hfun : (fun x => tanhFwd Real.exp a x0 y0 x)
      = fun x : ℝ => 2 / (1 + Real.exp (-2 * a * (x - x0))) - 1 + y0 := by
    funext x; simp only [tanhFwd, ofInt_eq]; push_cast; ring_nf
  have hu : HasDerivAt (fun x : ℝ => -2 * a * (x - x0)) (-2 * a) x := by
    simpa using ((hasDerivAt_id x).sub_const x0).const_mul (-2 * a)
  have hd : HasDerivAt (fun x : ℝ => 1 + Real.exp (-2 * a * (x - x0))) (Real.exp (-2 * a * (x - x0)) * (-2 * a)) x :=
    hu.exp.const_add 1
  have hpos : (1 + Real.exp (-2 * a * (x - x0))) ≠ 0 := by positivity
  have h := (((hasDerivAt_const x (2:ℝ)).div hd hpos).sub_const 1).add_const y0
  rw [hfun]
  refine h.congr_deriv ?_
  simp only [tanhBack, tanhFwd, ofInt_eq]; push_cast
  field_simp
  ring

theorem arctan_deriv' (a x0 y0 x : ℝ) :
    HasDerivAt (fun x => arctanFwd Real.arctan a x0 y0 x) (arctanBack a x0 x) x := by
  have hu : HasDerivAt (fun x : ℝ => a * (x - x0)) a x := by
    simpa using ((hasDerivAt_id x).sub_const x0).const_mul a
  have h := (hu.arctan).add_const y0
  unfold arctanFwd
  refine h.congr_deriv ?_
  simp only [arctanBack, ofInt_eq]; push_cast
  field_simp
  ring

theorem softplus_deriv' (a x0 y0 x : ℝ) :
    HasDerivAt (fun x => softplusFwd Real.exp Real.log a x0 y0 x) (softplusBack Real.exp a x0 x) x := by
  have hu : HasDerivAt (fun x : ℝ => a * (x - x0)) a x := by
    simpa using ((hasDerivAt_id x).sub_const x0).const_mul a
  have hd : HasDerivAt (fun x : ℝ => 1 + Real.exp (a * (x - x0))) (Real.exp (a * (x - x0)) * a) x :=
    hu.exp.const_add 1
  have hpos : (1 + Real.exp (a * (x - x0))) ≠ 0 := by positivity
  have h := (hd.log hpos).add_const y0
  have hfun : (fun x => softplusFwd Real.exp Real.log a x0 y0 x)
      = fun x : ℝ => Real.log (1 + Real.exp (a * (x - x0))) + y0 := by
    funext x; simp only [softplusFwd, ofInt_eq]; push_cast; rfl
  rw [hfun]
  refine h.congr_deriv ?_
  simp only [softplusBack, ofInt_eq]; push_cast
  have : Real.exp (-a * (x - x0)) = (Real.exp (a * (x - x0)))⁻¹ := by rw [← Real.exp_neg]; ring_nf
  rw [this]
  have hp : Real.exp (a * (x - x0)) ≠ 0 := (Real.exp_pos _).ne'
  field_simp
  ring

theorem sigmoid_deriv' (a x0 y0 x : ℝ) :
    HasDerivAt (fun x => sigmoidFwd Real.exp a x0 y0 x) (sigmoidBack Real.exp a x0 y0 x) x := by
  have hu : HasDerivAt (fun x : ℝ => -a * (x - x0)) (-a) x := by
    simpa using ((hasDerivAt_id x).sub_const x0).const_mul (-a)
  have hd : HasDerivAt (fun x : ℝ => 1 + Real.exp (-a * (x - x0))) (Real.exp (-a * (x - x0)) * (-a)) x :=
    hu.exp.const_add 1
  have hpos : (1 + Real.exp (-a * (x - x0))) ≠ 0 := by positivity
  have h := ((hasDerivAt_const x (1:ℝ)).div hd hpos).add_const y0
  have hfun : (fun x => sigmoidFwd Real.exp a x0 y0 x)
      = fun x : ℝ => 1 / (1 + Real.exp (-a * (x - x0))) + y0 := by
    funext x; simp only [sigmoidFwd, ofInt_eq]; push_cast; rfl
  rw [hfun]
  refine h.congr_deriv ?_
  simp only [sigmoidBack, sigmoidFwd, ofInt_eq]; push_cast
  field_simp
  ring
end C06L
namespace C06L

/-- the (squared) spread of the data that the gain divides by -/
noncomputable def bgieDen (n : Nat) (I : Nat → ℝ) : ℝ :=
  ∑ i ∈ range n, (I i - (∑ j ∈ range n, I j) / n) * (I i - (∑ j ∈ range n, I j) / n)

theorem bgieAlpha_diff (n : Nat) (I D δ : Nat → ℝ) (hden : bgieDen n I ≠ 0) :
    DifferentiableAt ℝ (fun t : ℝ => bgieAlpha n (fun i => I i + t * δ i) D) 0 := by
  simp only [bgieAlpha, mean, sumTo_eq, ofInt_eq]
  have hd : (∑ i ∈ range n, (I i + (0:ℝ) * δ i - (∑ j ∈ range n, (I j + (0:ℝ) * δ j)) / ((n : ℤ) : ℝ)) *
      (I i + (0:ℝ) * δ i - (∑ j ∈ range n, (I j + (0:ℝ) * δ j)) / ((n : ℤ) : ℝ))) ≠ 0 := by
    simpa [bgieDen] using hden
  fun_prop (disch := exact hd)
end C06L
namespace C06L

theorem bgieBeta_diff (n : Nat) (I D δ : Nat → ℝ) (hden : bgieDen n I ≠ 0) :
    DifferentiableAt ℝ (fun t : ℝ => bgieBeta n (fun i => I i + t * δ i) D) 0 := by
  have hA := bgieAlpha_diff n I D δ hden
  simp only [bgieBeta, mean, sumTo_eq, ofInt_eq]
  fun_prop

theorem bgieDen_eventually (n : Nat) (I δ : Nat → ℝ) (hden : bgieDen n I ≠ 0) :
    ∀ᶠ t in nhds (0:ℝ), bgieDen n (fun i => I i + t * δ i) ≠ 0 := by
  have hc : ContinuousAt (fun t : ℝ => bgieDen n (fun i => I i + t * δ i)) 0 := by
    unfold bgieDen; fun_prop
  have h0 : bgieDen n (fun i => I i + (0:ℝ) * δ i) ≠ 0 := by simpa using hden
  exact hc.eventually_ne h0

/-- bias-and-gain-invariant error, full statement: the returned gradient is the derivative of the returned cost
(gain and bias re-estimated at every point), whenever the data are not constant (`bgieDen ≠ 0`) -/
theorem bgie_hasDerivAt (n : Nat) (hn : 0 < n) (I D δ : Nat → ℝ) (hden : bgieDen n I ≠ 0) :
    HasDerivAt (fun t : ℝ => bgieCost n (fun i => I i + t * δ i) D) (∑ i ∈ range n, bgieGrad n I D i * δ i) 0 := by
  have hnK : ((n : ℕ) : ℝ) ≠ 0 := by exact_mod_cast hn.ne'
  set α0 := bgieAlpha n I D with hα0
  set β0 := bgieBeta n I D with hβ0
  let A : ℝ → ℝ := fun t => bgieAlpha n (fun i => I i + t * δ i) D
  let B : ℝ → ℝ := fun t => bgieBeta n (fun i => I i + t * δ i) D
  let P : ℝ → ℝ := fun t => bgieC n (fun i => I i + t * δ i) D α0 β0
  let w : ℕ → ℝ → ℝ := fun i t => (α0 - A t) * (I i + t * δ i) + (β0 - B t)
  let Q : ℝ → ℝ := fun t => ∑ i ∈ range n, w i t * w i t
  -- P is an exact quadratic in t with the right linear coefficient
  have hP : HasDerivAt P (∑ i ∈ range n, bgieGrad n I D i * δ i) 0 := by
    refine hasDerivAt_of_quadratic P (bgieC n I D α0 β0) _
      (bgieR n D * ∑ i ∈ range n, (α0 * δ i) * (α0 * δ i)) (fun t => ?_)
    have h := bgie_partial n I D δ α0 β0 t
    simpa only [bgieGrad, bgieResid, ofInt_eq, Int.cast_ofNat, ← hα0, ← hβ0, P] using h
  -- Q vanishes to second order at 0
  have hA : DifferentiableAt ℝ A 0 := bgieAlpha_diff n I D δ hden
  have hB : DifferentiableAt ℝ B 0 := bgieBeta_diff n I D δ hden
  have hw0 : ∀ i, w i 0 = 0 := by
    intro i
    simp only [w, A, B, zero_mul, add_zero]
    have e : (fun i => I i) = I := rfl
    simp [hα0, hβ0]
  have hw : ∀ i, DifferentiableAt ℝ (w i) 0 := by
    intro i; simp only [w]; fun_prop
  have hQ : HasDerivAt Q 0 0 := by
    have : ∀ i ∈ range n, HasDerivAt (fun t => w i t * w i t) 0 0 := by
      intro i _
      have h : HasDerivAt (fun t => w i t * w i t) (deriv (w i) 0 * w i 0 + w i 0 * deriv (w i) 0) 0 :=
        (hw i).hasDerivAt.mul (hw i).hasDerivAt
      rw [hw0 i, mul_zero, zero_mul, add_zero] at h
      exact h
    have h : HasDerivAt (fun t => ∑ i ∈ range n, w i t * w i t) (∑ i ∈ range n, (0:ℝ)) 0 := HasDerivAt.fun_sum this
    rw [Finset.sum_const_zero] at h
    exact h
  have hPQ : HasDerivAt (fun t => P t - bgieR n D * Q t) (∑ i ∈ range n, bgieGrad n I D i * δ i) 0 := by
    have h : HasDerivAt (fun t => P t - bgieR n D * Q t) ((∑ i ∈ range n, bgieGrad n I D i * δ i) - bgieR n D * 0) 0 :=
      hP.sub (hQ.const_mul (bgieR n D))
    rw [mul_zero, sub_zero] at h
    exact h
  -- near 0 the cost is P − R·Q (stationarity of gain and bias at the perturbed data)
  refine hPQ.congr_of_eventuallyEq ?_
  filter_upwards [bgieDen_eventually n I δ hden] with t ht
  have hs := bgie_stationary n hnK (fun i => I i + t * δ i) D (by simpa [bgieDen] using ht) (α0 - A t) (β0 - B t)
  have e1 : bgieAlpha n (fun i => I i + t * δ i) D + (α0 - A t) = α0 := by simp only [A]; ring
  have e2 : bgieBeta n (fun i => I i + t * δ i) D + (β0 - B t) = β0 := by simp only [B]; ring
  rw [e1, e2] at hs
  rw [bgieCost_eq]
  simp only [P, Q, w]
  linarith [hs]
end C06L
namespace C06L

/-- negative log-likelihood: the returned gradient is the derivative of the returned cost wherever the
logarithms are differentiable (`y_i ≠ 0`, `y_i ≠ 1`) -/
theorem nll_hasDerivAt (n : Nat) (y yhat δ : Nat → ℝ) (hy : ∀ i ∈ range n, y i ≠ 0 ∧ 1 - y i ≠ 0) :
    HasDerivAt (fun t : ℝ => nllCost Real.log n (fun i => y i + t * δ i) yhat)
      (∑ i ∈ range n, nllGrad n y yhat i * δ i) 0 := by
  have hterm : ∀ i ∈ range n, HasDerivAt
      (fun t : ℝ => yhat i * Real.log (y i + t * δ i) + (1 - yhat i) * Real.log (1 - (y i + t * δ i)))
      (yhat i * (δ i / y i) + (1 - yhat i) * (-δ i / (1 - y i))) 0 := by
    intro i hi
    obtain ⟨h1, h2⟩ := hy i hi
    have ha : HasDerivAt (fun t : ℝ => y i + t * δ i) (δ i) 0 := by
      simpa using ((hasDerivAt_id (0:ℝ)).mul_const (δ i)).const_add (y i)
    have hb : HasDerivAt (fun t : ℝ => 1 - (y i + t * δ i)) (-δ i) 0 := by
      simpa using ha.const_sub 1
    have la := ha.log (by simpa using h1)
    have lb := hb.log (by simpa using h2)
    have h : HasDerivAt
        (fun t : ℝ => yhat i * Real.log (y i + t * δ i) + (1 - yhat i) * Real.log (1 - (y i + t * δ i)))
        (yhat i * (δ i / (y i + 0 * δ i)) + (1 - yhat i) * (-δ i / (1 - (y i + 0 * δ i)))) 0 :=
      (la.const_mul (yhat i)).add (lb.const_mul (1 - yhat i))
    simpa using h
  have hsum := HasDerivAt.fun_sum hterm
  have hall := hsum.const_mul (-(1 / (n : ℝ)))
  have hfun : (fun t : ℝ => nllCost Real.log n (fun i => y i + t * δ i) yhat)
      = fun t : ℝ => -(1 / (n : ℝ)) * ∑ i ∈ range n,
          (yhat i * Real.log (y i + t * δ i) + (1 - yhat i) * Real.log (1 - (y i + t * δ i))) := by
    funext t; simp only [nllCost, sumTo_eq, ofInt_eq]; push_cast; rfl
  rw [hfun]
  refine hall.congr_deriv ?_
  simp only [nllGrad, ofInt_eq, Finset.mul_sum]; push_cast
  refine Finset.sum_congr rfl fun i hi => ?_
  obtain ⟨h1, h2⟩ := hy i hi
  field_simp
  ring
end C06L
