import PrysmVerif.Lemmas.C07Field
import Mathlib.RingTheory.Polynomial.Chebyshev
import Mathlib.Algebra.BigOperators.Group.Finset.Basic
/-! # C07 — Jacobi model: value at 1, reflection, Chebyshev `T/U/V/W`, Legendre/Bonnet (all orders) -/
namespace C07L
open Model.C07 Polynomial

section ordered
variable {K : Type} [Field K] [LinearOrder K] [IsStrictOrderedRing K]

theorem jacobi_at_one_succ (a b : K) (ha : -1 < a) (hb : -1 < b) (n : Nat) :
    jacobi (n+1) a b 1 * ((n : K) + 1) = jacobi n a b 1 * (n + a + 1) := by
  induction n using Nat.strong_induction_on with
  | _ n ih =>
    match n with
    | 0 => simp [jacobi_one, jacobi_zero, jacP1]
    | n+1 =>
      have h := ih n (Nat.lt_succ_self n)
      rw [jacobi_succ_succ, jacStep_eq]
      have hn : (0:K) ≤ n := Nat.cast_nonneg n
      have h1 : ((n:K) + 1 + 1) ≠ 0 := by positivity
      have h2 : ((n:K) + 1 + a + b + 1) ≠ 0 := by nlinarith
      have h3 : (2 * ((n:K) + 1) + a + b) ≠ 0 := by nlinarith
      have h4 : ((n:K) + a + 1) ≠ 0 := by nlinarith
      have h5 : ((n:K) + 1) ≠ 0 := by positivity
      have e : jacobi n a b 1 = jacobi (n+1) a b 1 * ((n:K) + 1) / (n + a + 1) := by
        rw [eq_div_iff h4]; exact h.symm
      rw [e]
      push_cast
      field_simp
      ring

/-- `P_n^{(α,β)}(1) = ∏_{k<n} (k+α+1)/(k+1)` -/
theorem jacobi_at_one (a b : K) (ha : -1 < a) (hb : -1 < b) (n : Nat) :
    jacobi n a b 1 = ∏ k ∈ Finset.range n, ((k:K) + a + 1) / ((k:K) + 1) := by
  induction n with
  | zero => simp [jacobi_zero]
  | succ n ih =>
    rw [Finset.prod_range_succ, ← ih]
    have h5 : ((n:K) + 1) ≠ 0 := by positivity
    rw [mul_div_assoc', eq_div_iff h5]
    exact jacobi_at_one_succ a b ha hb n

end ordered

section field
variable {K : Type} [Field K] [CharZero K]

/-- reflection: `P_n^{(α,β)}(−x) = (−1)^n P_n^{(β,α)}(x)` (every `n`, every `α β x`, no side condition) -/
theorem jacobi_reflect (a b x : K) (n : Nat) :
    jacobi n a b (-x) = (-1)^n * jacobi n b a x := by
  induction n using Nat.strong_induction_on with
  | _ n ih =>
    match n with
    | 0 => simp [jacobi_zero]
    | 1 => simp only [jacobi_one, jacP1, nat_eq]; push_cast; field_simp; ring
    | n+2 =>
      rw [jacobi_succ_succ, jacobi_succ_succ, jacStep_eq, jacStep_eq, ih n (by omega), ih (n+1) (by omega)]
      push_cast
      ring
end field
section ordered
set_option linter.unusedSectionVars false
variable {K : Type} [Field K] [LinearOrder K] [IsStrictOrderedRing K]

/-- `P_n^{(−½,±½)}(1) = ∏_{k<n} (2k+1)/(2k+2)` -/
def pT : ℕ → K
  | 0 => 1
  | n+1 => pT n * ((2 * n + 1) / (2 * n + 2))
/-- `P_n^{(½,½)}(1)/(n+1)` -/
def pU : ℕ → K
  | 0 => 1
  | n+1 => pU n * ((2 * n + 3) / (2 * n + 4))

theorem pT_pos (n : ℕ) : 0 < (pT n : K) := by
  induction n with
  | zero => simp [pT]
  | succ n ih => simp only [pT]; positivity
theorem pU_pos (n : ℕ) : 0 < (pU n : K) := by
  induction n with
  | zero => simp [pU]
  | succ n ih => simp only [pU]; positivity

/-- spec of the Chebyshev polynomials of the third and fourth kind (DLMF 18.9: same recurrence as `T`, `U`;
    `V_1 = 2x − 1`, `W_1 = 2x + 1`) -/
def chebVW (p1 : K) (x : K) : ℕ → K × K
  | 0 => (1, p1)
  | n+1 => let p := chebVW p1 x n; (p.2, 2 * x * p.2 - p.1)
def chebV (n : ℕ) (x : K) : K := (chebVW (2 * x - 1) x n).1
def chebW (n : ℕ) (x : K) : K := (chebVW (2 * x + 1) x n).1

theorem chebV_succ_succ (n : ℕ) (x : K) : chebV (n+2) x = 2 * x * chebV (n+1) x - chebV n x := by
  simp [chebV, chebVW]
theorem chebW_succ_succ (n : ℕ) (x : K) : chebW (n+2) x = 2 * x * chebW (n+1) x - chebW n x := by
  simp [chebW, chebVW]

theorem T_eval_succ_succ (n : ℕ) (x : K) :
    (Chebyshev.T K ((n + 2 : ℕ) : ℤ)).eval x
      = 2 * x * (Chebyshev.T K ((n + 1 : ℕ) : ℤ)).eval x - (Chebyshev.T K (n : ℤ)).eval x := by
  have := Chebyshev.T_add_two K (n : ℤ)
  push_cast
  rw [this]; simp
theorem U_eval_succ_succ (n : ℕ) (x : K) :
    (Chebyshev.U K ((n + 2 : ℕ) : ℤ)).eval x
      = 2 * x * (Chebyshev.U K ((n + 1 : ℕ) : ℤ)).eval x - (Chebyshev.U K (n : ℤ)).eval x := by
  have := Chebyshev.U_add_two K (n : ℤ)
  push_cast
  rw [this]; simp

theorem jacStep_eq_of (n : ℕ) (a b x p q s1 s2 d1 d2 d3 na nb ab : K)
    (h1 : 2 * (n:K) + a + b + 1 = s1) (h2 : 2 * (n:K) + a + b + 2 = s2) (h3 : (n:K) + 1 = d1)
    (h4 : (n:K) + a + b + 1 = d2) (h5 : 2 * (n:K) + a + b = d3) (h6 : (n:K) + a = na) (h7 : (n:K) + b = nb)
    (h8 : a * a - b * b = ab) :
    jacStep n a b x p q
      = (s1 * s2 / (2 * d1 * d2) * x + ab * s1 / (2 * d1 * d2 * d3)) * p - na * nb * s2 / (d1 * d2 * d3) * q := by
  rw [jacStep_eq]; subst h1 h2 h3 h4 h5 h6 h7 h8; rfl

theorem jac_T (x : K) (n : ℕ) : jacobi n (-1/2) (-1/2) x = pT n * (Chebyshev.T K n).eval x := by
  induction n using Nat.strong_induction_on with
  | _ n ih =>
    match n with
    | 0 => simp [jacobi_zero, pT]
    | 1 => simp [jacobi_one, jacP1, pT]; ring
    | n+2 =>
      rw [jacobi_succ_succ, ih n (by omega), ih (n+1) (by omega), T_eval_succ_succ,
        jacStep_eq_of (n+1) (-1/2) (-1/2) x _ _ (2*n+2) (2*n+3) (n+2) (n+1) (2*n+1) (n+1/2) (n+1/2) 0
          (by push_cast; ring) (by push_cast; ring) (by push_cast; ring) (by push_cast; ring)
          (by push_cast; ring) (by push_cast; ring) (by push_cast; ring) (by ring)]
      simp only [pT]
      have hn : (0:K) ≤ n := Nat.cast_nonneg n
      have h3 : ((n:K) + 2) ≠ 0 := by positivity
      have h4 : ((n:K) + 1) ≠ 0 := by positivity
      have h5 : (2 * (n:K) + 1) ≠ 0 := by positivity
      have h6 : (2 * (n:K) + 2) ≠ 0 := by positivity
      push_cast
      have h7 : (2 * ((n:K)+1) + 2) ≠ 0 := by positivity
      field_simp
      ring
end ordered

section ordered
set_option linter.unusedSectionVars false
variable {K : Type} [Field K] [LinearOrder K] [IsStrictOrderedRing K]

theorem jac_U (x : K) (n : ℕ) : jacobi n (1/2) (1/2) x = pU n * (Chebyshev.U K n).eval x := by
  induction n using Nat.strong_induction_on with
  | _ n ih =>
    match n with
    | 0 => simp [jacobi_zero, pU]
    | 1 => simp [jacobi_one, jacP1, pU]; ring
    | n+2 =>
      rw [jacobi_succ_succ, ih n (by omega), ih (n+1) (by omega), U_eval_succ_succ,
        jacStep_eq_of (n+1) (1/2) (1/2) x _ _ (2*n+4) (2*n+5) (n+2) (n+3) (2*n+3) (n+3/2) (n+3/2) 0
          (by push_cast; ring) (by push_cast; ring) (by push_cast; ring) (by push_cast; ring)
          (by push_cast; ring) (by push_cast; ring) (by push_cast; ring) (by ring)]
      simp only [pU]
      have hn : (0:K) ≤ n := Nat.cast_nonneg n
      have h3 : ((n:K) + 2) ≠ 0 := by positivity
      have h4 : ((n:K) + 3) ≠ 0 := by positivity
      have h5 : (2 * (n:K) + 3) ≠ 0 := by positivity
      have h6 : (2 * (n:K) + 4) ≠ 0 := by positivity
      push_cast
      have h7 : (2 * ((n:K)+1) + 4) ≠ 0 := by positivity
      have h8 : (2 * ((n:K)+1) + 3) ≠ 0 := by positivity
      field_simp
      ring

theorem jac_V (x : K) (n : ℕ) : jacobi n (-1/2) (1/2) x = pT n * chebV n x := by
  induction n using Nat.strong_induction_on with
  | _ n ih =>
    match n with
    | 0 => simp [jacobi_zero, pT, chebV, chebVW]
    | 1 => simp [jacobi_one, jacP1, pT, chebV, chebVW]; ring
    | n+2 =>
      rw [jacobi_succ_succ, ih n (by omega), ih (n+1) (by omega), chebV_succ_succ,
        jacStep_eq_of (n+1) (-1/2) (1/2) x _ _ (2*n+3) (2*n+4) (n+2) (n+2) (2*n+2) (n+1/2) (n+3/2) 0
          (by push_cast; ring) (by push_cast; ring) (by push_cast; ring) (by push_cast; ring)
          (by push_cast; ring) (by push_cast; ring) (by push_cast; ring) (by ring)]
      simp only [pT]
      have hn : (0:K) ≤ n := Nat.cast_nonneg n
      have h3 : ((n:K) + 2) ≠ 0 := by positivity
      have h6 : (2 * (n:K) + 2) ≠ 0 := by positivity
      push_cast
      have h7 : (2 * ((n:K)+1) + 2) ≠ 0 := by positivity
      field_simp
      ring

theorem jac_W (x : K) (n : ℕ) : jacobi n (1/2) (-1/2) x = pT n * chebW n x := by
  induction n using Nat.strong_induction_on with
  | _ n ih =>
    match n with
    | 0 => simp [jacobi_zero, pT, chebW, chebVW]
    | 1 => simp [jacobi_one, jacP1, pT, chebW, chebVW]; ring
    | n+2 =>
      rw [jacobi_succ_succ, ih n (by omega), ih (n+1) (by omega), chebW_succ_succ,
        jacStep_eq_of (n+1) (1/2) (-1/2) x _ _ (2*n+3) (2*n+4) (n+2) (n+2) (2*n+2) (n+3/2) (n+1/2) 0
          (by push_cast; ring) (by push_cast; ring) (by push_cast; ring) (by push_cast; ring)
          (by push_cast; ring) (by push_cast; ring) (by push_cast; ring) (by ring)]
      simp only [pT]
      have hn : (0:K) ≤ n := Nat.cast_nonneg n
      have h3 : ((n:K) + 2) ≠ 0 := by positivity
      have h6 : (2 * (n:K) + 2) ≠ 0 := by positivity
      push_cast
      have h7 : (2 * ((n:K)+1) + 2) ≠ 0 := by positivity
      field_simp
      ring

theorem chebV_one (n : ℕ) : chebV n (1:K) = 1 := by
  induction n using Nat.strong_induction_on with
  | _ n ih =>
    match n with
    | 0 => simp [chebV, chebVW]
    | 1 => simp [chebV, chebVW]; norm_num
    | n+2 => rw [chebV_succ_succ, ih n (by omega), ih (n+1) (by omega)]; norm_num
theorem chebW_one (n : ℕ) : chebW n (1:K) = 2 * n + 1 := by
  induction n using Nat.strong_induction_on with
  | _ n ih =>
    match n with
    | 0 => simp [chebW, chebVW]
    | 1 => simp [chebW, chebVW]
    | n+2 => rw [chebW_succ_succ, ih n (by omega), ih (n+1) (by omega)]; push_cast; ring

/-- `cheby1` (normalised Jacobi `(−½,−½)`) is Mathlib's Chebyshev `T`, every order, every point -/
theorem cheby1_eq_T (n : ℕ) (x : K) : cheby1 n x = (Chebyshev.T K n).eval x := by
  have hp : (pT n : K) ≠ 0 := (pT_pos n).ne'
  simp only [cheby1, mhalf_eq, nat_eq, Nat.cast_one, jac_T, Chebyshev.T_eval_one, mul_one]
  field_simp

/-- `cheby2` (Jacobi `(½,½)` scaled by `(n+1)/P_n(1)`) is Mathlib's Chebyshev `U` -/
theorem cheby2_eq_U (n : ℕ) (x : K) : cheby2 n x = (Chebyshev.U K n).eval x := by
  have hp : (pU n : K) ≠ 0 := (pU_pos n).ne'
  have hn : ((n:K) + 1) ≠ 0 := by positivity
  simp only [cheby2, half_eq, nat_eq, Nat.cast_one, jac_U, Chebyshev.U_eval_one]
  push_cast
  field_simp

/-- `cheby3` is the Chebyshev polynomial of the third kind `V_n` -/
theorem cheby3_eq_V (n : ℕ) (x : K) : cheby3 n x = chebV n x := by
  have hp : (pT n : K) ≠ 0 := (pT_pos n).ne'
  simp only [cheby3, half_eq, mhalf_eq, nat_eq, Nat.cast_one, jac_V, chebV_one, mul_one]
  field_simp

/-- `cheby4` is the Chebyshev polynomial of the fourth kind `W_n` -/
theorem cheby4_eq_W (n : ℕ) (x : K) : cheby4 n x = chebW n x := by
  have hp : (pT n : K) ≠ 0 := (pT_pos n).ne'
  have hn : (2 * (n:K) + 1) ≠ 0 := by positivity
  simp only [cheby4, half_eq, mhalf_eq, nat_eq, Nat.cast_one, jac_W, chebW_one]
  push_cast
  field_simp

/-- Bonnet's recursion for the Legendre model: `(n+2) P_{n+2} = (2n+3) x P_{n+1} − (n+1) P_n` -/
theorem legendre_bonnet (n : ℕ) (x : K) :
    ((n:K) + 2) * legendre (n+2) x = (2 * n + 3) * x * legendre (n+1) x - (n + 1) * legendre n x := by
  simp only [legendre, nat_eq, Nat.cast_zero]
  rw [jacobi_succ_succ,
    jacStep_eq_of (n+1) 0 0 x _ _ (2*n+3) (2*n+4) (n+2) (n+2) (2*n+2) (n+1) (n+1) 0
      (by push_cast; ring) (by push_cast; ring) (by push_cast; ring) (by push_cast; ring)
      (by push_cast; ring) (by push_cast; ring) (by push_cast; ring) (by ring)]
  have hn : (0:K) ≤ n := Nat.cast_nonneg n
  have h3 : ((n:K) + 2) ≠ 0 := by positivity
  have h6 : (2 * (n:K) + 2) ≠ 0 := by positivity
  field_simp
  ring
theorem legendre_zero (x : K) : legendre 0 x = 1 := by simp [legendre, jacobi_zero]
theorem legendre_one (x : K) : legendre 1 x = x := by simp [legendre, jacobi_one, jacP1]; ring

end ordered
end C07L
