import PrysmVerif.Model.C12
import Mathlib.Data.List.Basic
import Mathlib.Tactic.Linarith
set_option linter.unusedSectionVars false
set_option linter.unusedVariables false
set_option linter.unusedSimpArgs false
/-! # C12 — bounding-box crop on validity matrices -/
namespace C12
open Model.C12

theorem argmaxB_le (l : List Bool) (i : Nat) (hi : i < l.length) (h : l[i] = true) : argmaxB l ≤ i := by
  have hany : l.any id = true := List.any_eq_true.mpr ⟨l[i], List.getElem_mem hi, h⟩
  simp only [argmaxB, hany, if_true]
  by_contra hc
  have := List.not_of_lt_findIdx (p := id) (xs := l) (i := i) (by omega)
  simp [h] at this

theorem argmaxB_spec (l : List Bool) (h : l.any id = true) :
    ∃ hlt : argmaxB l < l.length, l[argmaxB l] = true := by
  simp only [argmaxB, h, if_true]
  have hlt : List.findIdx id l < l.length := List.findIdx_lt_length_of_exists (by simpa using h)
  exact ⟨hlt, by simpa using List.findIdx_getElem (p := id) (xs := l) (w := hlt)⟩

theorem argmaxB_none (l : List Bool) (h : l.any id = false) : argmaxB l = 0 := by
  simp [argmaxB, h]

theorem any_reverse (l : List Bool) : l.reverse.any id = l.any id := by simp

theorem lt_sub_argmaxB_reverse (l : List Bool) (i : Nat) (hi : i < l.length) (h : l[i] = true) :
    i < l.length - argmaxB l.reverse := by
  have hk : l.length - 1 - i < l.reverse.length := by simp; omega
  have hrev : l.reverse[l.length - 1 - i] = true := by
    rw [List.getElem_reverse]
    have : l.length - 1 - (l.length - 1 - i) = i := by omega
    simp [this, h]
  have := argmaxB_le l.reverse _ hk hrev
  omega

theorem last_true (l : List Bool) (h : l.any id = true) :
    ∃ hlt : l.length - argmaxB l.reverse - 1 < l.length, l[l.length - argmaxB l.reverse - 1] = true := by
  obtain ⟨hlt, hv⟩ := argmaxB_spec l.reverse (by rw [any_reverse]; exact h)
  rw [List.getElem_reverse] at hv
  simp only [List.length_reverse] at hlt
  have e : l.length - 1 - argmaxB l.reverse = l.length - argmaxB l.reverse - 1 := by omega
  refine ⟨by omega, ?_⟩
  simp only [e] at hv
  exact hv

/-! rows / columns containing a valid sample -/

/-- with at least one `true`, the leading and the trailing run of `false` together are shorter than the vector -/
theorem margins_lt (l : List Bool) (h : l.any id = true) : argmaxB l + argmaxB l.reverse < l.length := by
  obtain ⟨hlt, hv⟩ := argmaxB_spec l h
  have := lt_sub_argmaxB_reverse l (argmaxB l) hlt hv
  omega

/-- without any `true`, both `argmax` calls return 0 -/
theorem margins_zero (l : List Bool) (h : l.any id = false) : argmaxB l = 0 ∧ argmaxB l.reverse = 0 :=
  ⟨argmaxB_none l h, argmaxB_none _ (by rw [any_reverse]; exact h)⟩

theorem rowAny_length (v : Nat → Nat → Bool) (rows cols : Nat) : (rowAny v rows cols).length = rows := by
  simp [rowAny]
theorem colAny_length (v : Nat → Nat → Bool) (rows cols : Nat) : (colAny v rows cols).length = cols := by
  simp [colAny]

theorem rowAny_get (v : Nat → Nat → Bool) (rows cols i : Nat) (hi : i < (rowAny v rows cols).length) :
    (rowAny v rows cols)[i] = true ↔ ∃ j, j < cols ∧ v i j = true := by
  simp [rowAny]
theorem colAny_get (v : Nat → Nat → Bool) (rows cols j : Nat) (hj : j < (colAny v rows cols).length) :
    (colAny v rows cols)[j] = true ↔ ∃ i, i < rows ∧ v i j = true := by
  simp [colAny]

/-- every valid sample lies inside the crop box -/
theorem cropBox_contains (v : Nat → Nat → Bool) (rows cols r0 r1 c0 c1 : Nat)
    (hb : cropBox v rows cols = some (r0, r1, c0, c1)) (i j : Nat) (hi : i < rows) (hj : j < cols)
    (hv : v i j = true) : r0 ≤ i ∧ i < r1 ∧ c0 ≤ j ∧ j < c1 := by
  simp only [cropBox] at hb
  split at hb
  · cases hb
  · simp only [Option.some.injEq, Prod.mk.injEq] at hb
    obtain ⟨rfl, rfl, rfl, rfl⟩ := hb
    have hri : i < (rowAny v rows cols).length := by rw [rowAny_length]; exact hi
    have hcj : j < (colAny v rows cols).length := by rw [colAny_length]; exact hj
    have hr : (rowAny v rows cols)[i] = true := (rowAny_get v rows cols i hri).mpr ⟨j, hj, hv⟩
    have hc : (colAny v rows cols)[j] = true := (colAny_get v rows cols j hcj).mpr ⟨i, hi, hv⟩
    have a1 := argmaxB_le _ i hri hr
    have a2 := lt_sub_argmaxB_reverse _ i hri hr
    have a3 := argmaxB_le _ j hcj hc
    have a4 := lt_sub_argmaxB_reverse _ j hcj hc
    rw [rowAny_length] at a2
    rw [colAny_length] at a4
    exact ⟨a1, a2, a3, a4⟩

/-- when `crop` does something there is a valid sample, and the box is a non-empty window of the array -/
theorem cropBox_bounds (v : Nat → Nat → Bool) (rows cols r0 r1 c0 c1 : Nat)
    (hb : cropBox v rows cols = some (r0, r1, c0, c1)) :
    r0 < r1 ∧ r1 ≤ rows ∧ c0 < c1 ∧ c1 ≤ cols ∧
    (∃ j, j < cols ∧ v r0 j = true) ∧ (∃ j, j < cols ∧ v (r1 - 1) j = true) ∧
    (∃ i, i < rows ∧ v i c0 = true) ∧ (∃ i, i < rows ∧ v i (c1 - 1) = true) := by
  simp only [cropBox] at hb
  split at hb
  · cases hb
  next hne =>
    simp only [Option.some.injEq, Prod.mk.injEq] at hb
    obtain ⟨rfl, rfl, rfl, rfl⟩ := hb
    -- some row or some column index is non-zero, hence something is valid
    have hanyR : (rowAny v rows cols).any id = true := by
      by_contra hc
      have hc' : (rowAny v rows cols).any id = false := by simpa using hc
      have hcol : (colAny v rows cols).any id = false := by
        rw [Bool.eq_false_iff]; intro hcc
        obtain ⟨hlt, hv⟩ := argmaxB_spec _ hcc
        obtain ⟨i, hi, hvi⟩ := (colAny_get v rows cols _ hlt).mp hv
        have : (rowAny v rows cols).any id = true := by
          apply List.any_eq_true.mpr
          have hri : i < (rowAny v rows cols).length := by rw [rowAny_length]; exact hi
          refine ⟨(rowAny v rows cols)[i], List.getElem_mem hri, ?_⟩
          exact (rowAny_get v rows cols i hri).mpr ⟨_, by rw [colAny_length] at hlt; exact hlt, hvi⟩
        rw [hc'] at this; cases this
      apply hne
      refine ⟨argmaxB_none _ hc', argmaxB_none _ (by rw [any_reverse]; exact hc'), argmaxB_none _ hcol,
        argmaxB_none _ (by rw [any_reverse]; exact hcol)⟩
    obtain ⟨hlt, hv⟩ := argmaxB_spec _ hanyR
    obtain ⟨j0, hj0, hvj0⟩ := (rowAny_get v rows cols _ hlt).mp hv
    have hanyC : (colAny v rows cols).any id = true := by
      apply List.any_eq_true.mpr
      have hcj : j0 < (colAny v rows cols).length := by rw [colAny_length]; exact hj0
      refine ⟨(colAny v rows cols)[j0], List.getElem_mem hcj, ?_⟩
      exact (colAny_get v rows cols j0 hcj).mpr ⟨_, by rw [rowAny_length] at hlt; exact hlt, hvj0⟩
    obtain ⟨hltc, hvc⟩ := argmaxB_spec _ hanyC
    obtain ⟨hlr, hvr⟩ := last_true _ hanyR
    obtain ⟨hlc, hvlc⟩ := last_true _ hanyC
    have b1 := lt_sub_argmaxB_reverse _ _ hlt hv
    have b2 := lt_sub_argmaxB_reverse _ _ hltc hvc
    simp only [rowAny_length] at b1 hlr hvr hlt
    simp only [colAny_length] at b2 hlc hvlc hltc
    refine ⟨b1, Nat.sub_le _ _, b2, Nat.sub_le _ _, (rowAny_get v rows cols _ _).mp hv, ?_, (colAny_get v rows cols _ _).mp hvc, ?_⟩
    · exact (rowAny_get v rows cols _ _).mp hvr
    · exact (colAny_get v rows cols _ _).mp hvlc


theorem argmaxB_zero_of_head (l : List Bool) (h0 : 0 < l.length) (h : l[0] = true) : argmaxB l = 0 :=
  Nat.le_zero.mp (argmaxB_le l 0 h0 h)

theorem argmaxB_reverse_zero_of_last (l : List Bool) (h0 : 0 < l.length) (h : l[l.length - 1] = true) :
    argmaxB l.reverse = 0 := by
  apply argmaxB_zero_of_head _ (by simpa using h0)
  rw [List.getElem_reverse]
  simpa using h

/-- cropping is idempotent: on the cropped array `crop` finds nothing to trim and returns early -/
theorem cropBox_idempotent (v : Nat → Nat → Bool) (rows cols r0 r1 c0 c1 : Nat)
    (hb : cropBox v rows cols = some (r0, r1, c0, c1)) :
    cropBox (fun i j => v (i + r0) (j + c0)) (r1 - r0) (c1 - c0) = none := by
  obtain ⟨h1, h2, h3, h4, ⟨ja, hja, hva⟩, ⟨jb, hjb, hvb⟩, ⟨ia, hia, hvia⟩, ⟨ib, hib, hvib⟩⟩ :=
    cropBox_bounds v rows cols r0 r1 c0 c1 hb
  have ca := cropBox_contains v rows cols r0 r1 c0 c1 hb r0 ja (by omega) hja hva
  have cb := cropBox_contains v rows cols r0 r1 c0 c1 hb (r1 - 1) jb (by omega) hjb hvb
  have cc := cropBox_contains v rows cols r0 r1 c0 c1 hb ia c0 hia (by omega) hvia
  have cd := cropBox_contains v rows cols r0 r1 c0 c1 hb ib (c1 - 1) hib (by omega) hvib
  set v' : Nat → Nat → Bool := fun i j => v (i + r0) (j + c0) with hv'
  have hR0 : 0 < (rowAny v' (r1 - r0) (c1 - c0)).length := by rw [rowAny_length]; omega
  have hC0 : 0 < (colAny v' (r1 - r0) (c1 - c0)).length := by rw [colAny_length]; omega
  have e1 : argmaxB (rowAny v' (r1 - r0) (c1 - c0)) = 0 := by
    apply argmaxB_zero_of_head _ hR0
    refine (rowAny_get v' _ _ 0 hR0).mpr ⟨ja - c0, by omega, ?_⟩
    simp only [hv']; rw [show ja - c0 + c0 = ja by omega, Nat.zero_add]; exact hva
  have e2 : argmaxB (rowAny v' (r1 - r0) (c1 - c0)).reverse = 0 := by
    apply argmaxB_reverse_zero_of_last _ hR0
    refine (rowAny_get v' _ _ _ (by omega)).mpr ⟨jb - c0, by omega, ?_⟩
    simp only [hv', rowAny_length]
    rw [show jb - c0 + c0 = jb by omega, show r1 - r0 - 1 + r0 = r1 - 1 by omega]; exact hvb
  have e3 : argmaxB (colAny v' (r1 - r0) (c1 - c0)) = 0 := by
    apply argmaxB_zero_of_head _ hC0
    refine (colAny_get v' _ _ 0 hC0).mpr ⟨ia - r0, by omega, ?_⟩
    simp only [hv']; rw [show ia - r0 + r0 = ia by omega, Nat.zero_add]; exact hvia
  have e4 : argmaxB (colAny v' (r1 - r0) (c1 - c0)).reverse = 0 := by
    apply argmaxB_reverse_zero_of_last _ hC0
    refine (colAny_get v' _ _ _ (by omega)).mpr ⟨ib - r0, by omega, ?_⟩
    simp only [hv', colAny_length]
    rw [show ib - r0 + r0 = ib by omega, show c1 - c0 - 1 + c0 = c1 - 1 by omega]; exact hvib
  simp only [cropBox, e1, e2, e3, e4, and_self, if_true]

end C12
