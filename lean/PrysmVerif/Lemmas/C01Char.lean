import Mathlib.Algebra.BigOperators.Ring.Finset
import Mathlib.Algebra.BigOperators.Intervals
import Mathlib.Algebra.Field.GeomSum
import Mathlib.Algebra.Field.Basic
import Mathlib.Algebra.CharZero.Defs
import Mathlib.Data.Int.Cast.Lemmas
import Mathlib.Tactic.Ring
import Mathlib.Tactic.FieldSimp
import Mathlib.Tactic.Linarith
/-!
# C01/C02 — characters `e : R → K`, root-of-unity orthogonality, sums of periodic functions

`R`, `K` are fields of characteristic zero (`ℝ` and `ℂ` in the intended reading).  The Fourier kernel is an
abstract map `e` with `e (a+b) = e a * e b`, `e 0 = 1`, `e k = 1` for integer `k`; orthogonality
`Σ_{k<L} e(k d / L) = L·[L ∣ d]` is DERIVED from one more law, faithfulness (`e t = 1 → t ∈ ℤ`).
-/
set_option linter.unusedSectionVars false

namespace C01
open Finset

variable {R K : Type} [Field R] [CharZero R] [Field K] [CharZero K]

/-- the algebraic laws of `t ↦ exp(∓2πi t)` used by the theorems -/
structure IsChar (e : R → K) : Prop where
  add : ∀ a b, e (a + b) = e a * e b
  zero : e 0 = 1
  int : ∀ k : ℤ, e (k : R) = 1

/-- `e t = 1` only at integers -/
def IsFaithful (e : R → K) : Prop := ∀ t, e t = 1 → ∃ k : ℤ, t = (k : R)

namespace IsChar
variable {e : R → K} (he : IsChar e)
include he

theorem ne_zero (a : R) : e a ≠ 0 := by
  intro h
  have := he.add a (-a)
  rw [add_neg_cancel, he.zero, h, zero_mul] at this
  exact one_ne_zero this

theorem neg (a : R) : e (-a) = (e a)⁻¹ := by
  have := he.add a (-a)
  rw [add_neg_cancel, he.zero] at this
  exact eq_inv_of_mul_eq_one_right this.symm

theorem mul_neg_self (a : R) : e a * e (-a) = 1 := by
  rw [← he.add, add_neg_cancel, he.zero]

theorem sub (a b : R) : e (a - b) = e a * e (-b) := by rw [sub_eq_add_neg, he.add]

theorem add_int (a : R) (k : ℤ) : e (a + k) = e a := by rw [he.add, he.int, mul_one]

/-- arguments that differ by an integer give the same value -/
theorem congr_int {a b : R} (k : ℤ) (h : a = b + k) : e a = e b := by rw [h, he.add_int]

theorem nsmul (a : R) (n : ℕ) : e ((n : R) * a) = e a ^ n := by
  induction n with
  | zero => simp [he.zero]
  | succ n ih => rw [Nat.cast_succ, add_mul, one_mul, he.add, ih, pow_succ]

/-- the reflected kernel `t ↦ e (-t)` (inverse transforms) is a character too -/
theorem reflect : IsChar (fun t => e (-t)) where
  add a b := by simp only [neg_add]; exact he.add _ _
  zero := by simp only [neg_zero]; exact he.zero
  int k := by
    have := he.int (-k)
    simpa using this

/-- root-of-unity orthogonality, derived: `Σ_{k<L} e(k·d/L) = L` if `L ∣ d`, else `0` -/
theorem ortho (hf : IsFaithful e) (L : ℕ) (hL : 0 < L) (d : ℤ) :
    ∑ k ∈ range L, e ((k : R) * ((d : R) / (L : R))) = if (L : ℤ) ∣ d then (L : K) else 0 := by
  have hLR : (L : R) ≠ 0 := Nat.cast_ne_zero.mpr hL.ne'
  simp only [he.nsmul]
  split_ifs with hd
  · obtain ⟨q, rfl⟩ := hd
    have : ((((L : ℤ) * q : ℤ) : R)) / (L : R) = (q : R) := by
      push_cast; field_simp
    rw [this, he.int]; simp
  · have hz : e ((d : R) / (L : R)) ≠ 1 := by
      intro h1
      obtain ⟨k, hk⟩ := hf _ h1
      apply hd
      refine ⟨k, ?_⟩
      have : (d : R) = ((L : ℤ) * k : ℤ) := by
        push_cast
        field_simp at hk
        rw [hk]
      exact_mod_cast this
    have hgeo := geom_sum_eq hz L
    rw [hgeo, ← he.nsmul]
    have : (L : R) * ((d : R) / (L : R)) = (d : R) := by field_simp
    rw [this, he.int, sub_self, zero_div]

end IsChar

/-! ## sums of periodic functions over one period -/

theorem periodic_add_mul {f : ℤ → K} {N : ℤ} (hp : ∀ t, f (t + N) = f t) (t q : ℤ) : f (t + N * q) = f t := by
  induction q using Int.induction_on with
  | zero => simp
  | succ q ih => rw [mul_add, mul_one, ← add_assoc, hp, ih]
  | pred q ih =>
    have := hp (t + N * (-(q : ℤ) - 1))
    rw [← ih, ← this]; congr 1; ring

theorem periodic_emod {f : ℤ → K} {N : ℤ} (hp : ∀ t, f (t + N) = f t) (t : ℤ) : f (t % N) = f t := by
  have := periodic_add_mul hp (t % N) (t / N)
  rw [Int.emod_add_mul_ediv] at this
  exact this.symm

/-- a sum over one period does not depend on where the period starts -/
theorem sum_range_periodic_shift {f : ℤ → K} {N : ℕ} (hp : ∀ t, f (t + N) = f t) (c : ℤ) :
    ∑ t ∈ range N, f ((t : ℤ) + c) = ∑ t ∈ range N, f (t : ℤ) := by
  have step : ∀ c : ℤ, ∑ t ∈ range N, f ((t : ℤ) + (c + 1)) = ∑ t ∈ range N, f ((t : ℤ) + c) := by
    intro c
    have h1 := Finset.sum_range_succ (fun t : ℕ => f ((t : ℤ) + c)) N
    have h2 := Finset.sum_range_succ' (fun t : ℕ => f ((t : ℤ) + c)) N
    have e1 : f (((N : ℕ) : ℤ) + c) = f (((0 : ℕ) : ℤ) + c) := by
      have := hp c
      rw [add_comm] at this
      simpa using this
    have e2 : ∀ t : ℕ, f (((t + 1 : ℕ) : ℤ) + c) = f ((t : ℤ) + (c + 1)) := by
      intro t; congr 1; push_cast; ring
    simp only [e2] at h2
    rw [h1] at h2
    rw [e1] at h2
    exact (add_right_cancel h2).symm
  induction c using Int.induction_on with
  | zero => simp
  | succ c ih => rw [step, ih]
  | pred c ih =>
    have := step (-(c : ℤ) - 1)
    rw [show (-(c : ℤ) - 1 + 1) = -(c : ℤ) by ring] at this
    rw [← this, ih]

end C01
