import PrysmVerif.Lemmas.C06Basic
/-!
# C06 helper lemmas: adjoint algebra of the linear building blocks
(matrix products, element-wise masks, pad/crop windows, strided scatter/gather, row/column lifting)
-/
set_option linter.unusedSectionVars false
set_option linter.unusedVariables false
set_option linter.unusedSimpArgs false
open Model.C06 Finset C06L
namespace C06L

theorem sum3_rot {C : Type} [AddCommMonoid C] (a b c : Finset ℕ) (f : ℕ → ℕ → ℕ → C) :
    ∑ i ∈ a, ∑ j ∈ b, ∑ l ∈ c, f i j l = ∑ l ∈ c, ∑ j ∈ b, ∑ i ∈ a, f i j l := by
  rw [Finset.sum_comm]
  have : ∀ j ∈ b, ∑ i ∈ a, ∑ l ∈ c, f i j l = ∑ l ∈ c, ∑ i ∈ a, f i j l := fun j _ => Finset.sum_comm
  rw [Finset.sum_congr rfl this, Finset.sum_comm]

variable {C : Type} [Field C] (conj : C →+* C) (hc : ∀ a, conj (conj a) = a)
include hc

/-- `⟨y, A x⟩ = ⟨Aᴴ y, x⟩` for `A : M×m`, `x : m×n`, `y : M×n` -/
theorem ip2_matmul_left (M m n : Nat) (A x y : Mat C) :
    ip2 conj M n y (matmul m A x) = ip2 conj m n (matmul M (conjT conj A) y) x := by
  simp only [ip2, matmul, conjT, sumTo_eq, map_sum, map_mul, hc, Finset.mul_sum, Finset.sum_mul]
  rw [sum3_rot]
  refine Finset.sum_congr rfl fun l _ => Finset.sum_congr rfl fun j _ => Finset.sum_congr rfl fun i _ => ?_
  ring

/-- `⟨y, x B⟩ = ⟨y Bᴴ, x⟩` for `x : m×n`, `B : n×N`, `y : m×N` -/
theorem ip2_matmul_right (m n N : Nat) (B x y : Mat C) :
    ip2 conj m N y (matmul n x B) = ip2 conj m n (matmul N y (conjT conj B)) x := by
  simp only [ip2, matmul, conjT, sumTo_eq, map_sum, map_mul, hc, Finset.mul_sum, Finset.sum_mul]
  refine Finset.sum_congr rfl fun i _ => ?_
  rw [Finset.sum_comm]
  refine Finset.sum_congr rfl fun l _ => Finset.sum_congr rfl fun j _ => ?_
  ring

/-- `⟨y, m ⊙ x⟩ = ⟨conj m ⊙ y, x⟩` -/
theorem ip2_hadamard (m n : Nat) (k x y : Mat C) :
    ip2 conj m n y (hadamard x k) = ip2 conj m n (fun i j => y i j * conj (k i j)) x := by
  simp only [ip2, hadamard, sumTo_eq, map_mul, hc]
  refine Finset.sum_congr rfl fun i _ => Finset.sum_congr rfl fun j _ => ?_
  ring

omit hc in
theorem matmul_assoc (k l : Nat) (A B D : Mat C) :
    matmul l (matmul k A B) D = matmul k A (matmul l B D) := by
  funext i j
  simp only [matmul, sumTo_eq, Finset.mul_sum, Finset.sum_mul]
  rw [Finset.sum_comm]
  refine Finset.sum_congr rfl fun a _ => Finset.sum_congr rfl fun b _ => ?_
  ring

/-- the matrix triple product: `⟨y, Eo f Ei⟩ = ⟨Eoᴴ (y Eiᴴ), f⟩` (association of `dft2`) -/
theorem dft2_adjoint (M m n N : Nat) (Eo Ei f y : Mat C) :
    ip2 conj M N y (dft2 M m n N Eo f Ei) = ip2 conj m n (dftBack conj M m n N Eo y Ei) f := by
  simp only [dft2, dftBack]
  rw [ip2_matmul_right conj hc, ip2_matmul_left conj hc]

theorem idft2_adjoint (M m n N : Nat) (Eo Ei f y : Mat C) :
    ip2 conj M N y (idft2 M m n N Eo f Ei) = ip2 conj m n (dftBack conj M m n N Eo y Ei) f := by
  simp only [idft2, dftBack]
  rw [ip2_matmul_left conj hc, ip2_matmul_right conj hc, matmul_assoc]
end C06L
namespace C06L
variable {C : Type} [Field C] (conj : C →+* C) (hc : ∀ a, conj (conj a) = a)
include hc

theorem fpm_adjoint' (p0 p1 M0 M1 : Nat) (Eo1 Ei1 mask Eo2 Ei2 x y : Mat C) :
    ip2 conj p0 p1 y (fpmFwd p0 p1 M0 M1 Eo1 Ei1 mask Eo2 Ei2 x)
      = ip2 conj p0 p1 (fpmBack conj 1 true p0 p1 M0 M1 Eo1 Ei1 mask Eo2 Ei2 y) x := by
  unfold fpmFwd fpmBack
  rw [idft2_adjoint conj hc, ip2_hadamard conj hc, dft2_adjoint conj hc]
  simp only [one_mul, if_true]

theorem babinet_adjoint' (m n : Nat) (T B : Mat C → Mat C)
    (hTB : ∀ x y, ip2 conj m n y (T x) = ip2 conj m n (B y) x) (L x y : Mat C) :
    ip2 conj m n y (babinetFwd T L x) = ip2 conj m n (babinetBack conj (-1) B L y) x := by
  have h := hTB x (fun i j => conj (L i j) * y i j)
  simp only [ip2, babinetFwd, babinetBack, sumTo_eq, map_mul, map_add, map_neg, map_one, hc] at h ⊢
  have e1 : ∀ i j, conj (y i j) * (L i j * (x i j - T x i j))
      = L i j * conj (y i j) * x i j - L i j * conj (y i j) * T x i j := fun i j => by ring
  have e2 : ∀ i j, (L i j * conj (y i j) + -1 * conj (B (fun i j => conj (L i j) * y i j) i j)) * x i j
      = L i j * conj (y i j) * x i j - conj (B (fun i j => conj (L i j) * y i j) i j) * x i j := fun i j => by ring
  simp only [e1, e2, Finset.sum_sub_distrib, h]
end C06L
namespace C06L
variable {C : Type} [Field C] (conj : C →+* C) (hc : ∀ a, conj (conj a) = a)
include hc

theorem dftBack_of_scaled_adjoint (m n : Nat) (F1 F2 G1 G2 y : Mat C) (c1 c2 : C)
    (h1 : ∀ i j, G1 i j = c1 * conj (F1 j i)) (h2 : ∀ i j, G2 i j = c2 * conj (F2 j i))
    (hc1 : conj c1 = c1) (hc2 : conj c2 = c2) :
    dftBack conj m m n n G1 y G2 = fun i j => c1 * c2 * dft2 m m n n F1 y F2 i j := by
  funext i j
  simp only [dftBack, dft2, matmul, conjT, sumTo_eq, h1, h2, map_mul, hc, hc1, hc2,
    Finset.mul_sum, Finset.sum_mul]
  rw [Finset.sum_comm]
  refine Finset.sum_congr rfl fun a _ => Finset.sum_congr rfl fun b _ => ?_
  ring

omit hc in
theorem dftBack_scaled (m n : Nat) (F1 F2 G1 G2 W : Mat C) (c1 c2 : C)
    (h1 : ∀ i j, G1 i j = c1 * conj (F1 j i)) (h2 : ∀ i j, G2 i j = c2 * conj (F2 j i)) :
    dftBack conj m m n n F1 (fun i j => c1 * c2 * W i j) F2 = idft2 m m n n G1 W G2 := by
  funext i j
  simp only [dftBack, idft2, matmul, conjT, sumTo_eq, h1, h2, Finset.mul_sum, Finset.sum_mul]
  refine Finset.sum_congr rfl fun a _ => Finset.sum_congr rfl fun b _ => ?_
  ring

theorem filter2_adjoint' (m n : Nat) (F1 F2 G1 G2 H x y : Mat C) (c1 c2 : C)
    (h1 : ∀ i j, G1 i j = c1 * conj (F1 j i)) (h2 : ∀ i j, G2 i j = c2 * conj (F2 j i))
    (hc1 : conj c1 = c1) (hc2 : conj c2 = c2) :
    ip2 conj m n y (filter2 m n F1 F2 G1 G2 H x)
      = ip2 conj m n (filter2 m n F1 F2 G1 G2 (fun i j => conj (H i j)) y) x := by
  unfold filter2
  rw [idft2_adjoint conj hc, ip2_hadamard conj hc, dft2_adjoint conj hc,
    dftBack_of_scaled_adjoint conj hc m n F1 F2 G1 G2 y c1 c2 h1 h2 hc1 hc2]
  have : (fun i j => c1 * c2 * dft2 m m n n F1 y F2 i j * conj (H i j))
      = fun i j => c1 * c2 * (hadamard (dft2 m m n n F1 y F2) (fun i j => conj (H i j))) i j := by
    funext i j; simp only [hadamard]; ring
  rw [this, dftBack_scaled conj m n F1 F2 G1 G2 _ c1 c2 h1 h2]
end C06L

namespace C06L

/-- a sum over a window of `range N` is a sum over `range n` of the shifted summand -/
theorem sum_window {C : Type} [AddCommMonoid C] (N n off : ℕ) (h : off + n ≤ N) (g : ℕ → C) :
    ∑ I ∈ range N, (if off ≤ I ∧ I < off + n then g I else 0) = ∑ i ∈ range n, g (i + off) := by
  rw [← Finset.sum_filter]
  have : (range N).filter (fun I => off ≤ I ∧ I < off + n) = Finset.Ico off (off + n) := by
    ext I; simp only [Finset.mem_filter, Finset.mem_range, Finset.mem_Ico]; omega
  rw [this, Finset.sum_Ico_eq_sum_range, Nat.add_sub_cancel_left]
  exact Finset.sum_congr rfl fun i _ => by rw [Nat.add_comm]

variable {C : Type} [Field C] (conj : C →+* C)

/-- `⟨y, pad x⟩ = ⟨crop y, x⟩` when crop and pad use the same offset and the window fits -/
theorem pad1_crop1_adjoint (n N : Nat) (off : Int) (h0 : 0 ≤ off) (h1 : off + n ≤ N) (x y : Vec C) :
    ip conj N y (pad1 n off x) = ip conj n (crop1 off y) x := by
  obtain ⟨o, rfl⟩ := Int.eq_ofNat_of_zero_le h0
  simp only [ip, pad1, crop1, sumTo_eq, ofInt_eq, Int.cast_zero]
  have e : ∀ I : ℕ, conj (y I) * (if (o : Int) ≤ (I : Int) ∧ (I : Int) < (o : Int) + n then x ((I : Int) - o).toNat else 0)
      = if o ≤ I ∧ I < o + n then conj (y I) * x (I - o) else 0 := by
    intro I
    by_cases hI : o ≤ I ∧ I < o + n
    · have : (o : Int) ≤ (I : Int) ∧ (I : Int) < (o : Int) + n := by omega
      rw [if_pos hI, if_pos this]
      congr 2; omega
    · have : ¬ ((o : Int) ≤ (I : Int) ∧ (I : Int) < (o : Int) + n) := by omega
      rw [if_neg hI, if_neg this, mul_zero]
  simp only [e]
  rw [sum_window N n o (by omega)]
  refine Finset.sum_congr rfl fun i _ => ?_
  have : ((i : Int) + (o : Int)).toNat = i + o := by omega
  rw [this, Nat.add_sub_cancel]
end C06L
namespace C06L
variable {C : Type} [Field C] (conj : C →+* C)

theorem adj_mapRows (m n N : Nat) (A B : Vec C → Vec C)
    (h : ∀ x y, ip conj N y (A x) = ip conj n (B y) x) (X Y : Mat C) :
    ip2 conj m N Y (mapRows A X) = ip2 conj m n (mapRows B Y) X := by
  simp only [ip2, sumTo_eq]
  refine Finset.sum_congr rfl fun i _ => ?_
  have := h (X i) (Y i)
  simpa only [ip, sumTo_eq, mapRows] using this

theorem adj_mapCols (m n N : Nat) (A B : Vec C → Vec C)
    (h : ∀ x y, ip conj N y (A x) = ip conj n (B y) x) (X Y : Mat C) :
    ip2 conj N m Y (mapCols A X) = ip2 conj n m (mapCols B Y) X := by
  simp only [ip2, sumTo_eq]
  rw [Finset.sum_comm, Finset.sum_comm (s := range n)]
  refine Finset.sum_congr rfl fun j _ => ?_
  have := h (fun i' => X i' j) (fun i' => Y i' j)
  simpa only [ip, sumTo_eq, mapCols] using this

theorem pad2_crop2_adjoint (m n M N : Nat) (oy ox : Int) (hy0 : 0 ≤ oy) (hy1 : oy + m ≤ M)
    (hx0 : 0 ≤ ox) (hx1 : ox + n ≤ N) (x y : Mat C) :
    ip2 conj M N y (pad2 m n oy ox x) = ip2 conj m n (crop2 oy ox y) x := by
  unfold pad2 crop2
  rw [adj_mapCols conj N m M _ _ (pad1_crop1_adjoint conj m M oy hy0 hy1),
    adj_mapRows conj m n N _ _ (pad1_crop1_adjoint conj n N ox hx0 hx1)]

/-- strided scatter / gather (`poke_arr[lo:hi:step] = a` and `arr[lo:hi:step]`) -/
theorem scatter1_gather1_adjoint (k N lo step : Nat) (hs : 0 < step) (hfit : lo + (k - 1) * step < N ∨ k = 0)
    (a y : Vec C) :
    ip conj N y (scatter1 k lo step a) = ip conj k (gather1 lo step y) a := by
  simp only [ip, scatter1, gather1, sumTo_eq, ofInt_eq, Int.cast_zero, mul_ite, mul_zero]
  rw [← Finset.sum_filter]
  symm
  apply Finset.sum_bij (fun i _ => lo + i * step)
  · intro i hi
    simp only [Finset.mem_range] at hi
    simp only [Finset.mem_filter, Finset.mem_range]
    have h1 : lo + i * step - lo = i * step := by omega
    refine ⟨?_, by omega, ?_, ?_⟩
    · rcases hfit with h | h
      · have : i * step ≤ (k - 1) * step := Nat.mul_le_mul_right _ (by omega)
        omega
      · omega
    · rw [h1]; exact Nat.mul_mod_left _ _
    · rw [h1, Nat.mul_div_cancel _ hs]; exact hi
  · intro i _ j _ h
    have : i * step = j * step := by omega
    exact Nat.eq_of_mul_eq_mul_right hs this
  · intro I hI
    simp only [Finset.mem_filter, Finset.mem_range] at hI
    refine ⟨(I - lo) / step, by simp only [Finset.mem_range]; exact hI.2.2.2, ?_⟩
    have := Nat.div_add_mod (I - lo) step
    rw [hI.2.2.1] at this
    rw [Nat.mul_comm] at this
    omega
  · intro i hi
    have h1 : lo + i * step - lo = i * step := by omega
    rw [h1, Nat.mul_div_cancel _ hs]
end C06L
namespace C06L
variable {C : Type} [Field C] (conj : C →+* C)

/-- modal sum: `⟨d, Σ_k w_k M_k⟩ = Σ_k (Σ_ij M_k d)_k w_k` for self-conjugate (real) modes -/
theorem modal_adjoint' (k m n : Nat) (modes : Nat → Mat C) (hreal : ∀ l i j, conj (modes l i j) = modes l i j)
    (w : Vec C) (d : Mat C) :
    ip2 conj m n d (modalSum k modes w) = ip conj k (modalBack m n modes d) w := by
  simp only [ip2, ip, modalSum, modalBack, sumTo_eq, map_sum, map_mul, hreal, Finset.mul_sum, Finset.sum_mul]
  rw [sum3_rot, Finset.sum_congr rfl fun l _ => Finset.sum_comm]
  refine Finset.sum_congr rfl fun l _ => Finset.sum_congr rfl fun i _ => Finset.sum_congr rfl fun j _ => ?_
  ring

/-- shifted difference: the kernel form `D i j = [1 ≤ i ≤ n−2]([j = i+1] − [j = i])` -/
theorem diff_adjoint' (n : Nat) (x y : Vec C) :
    ip conj n y (diffFwd n x) = ip conj n (diffBack n y) x := by
  simp only [ip, diffFwd, diffBack, sumTo_eq, ofInt_eq, Int.cast_zero]
  -- split both sides into the `+` part and the `−` part
  have eL : ∀ i, conj (y i) * (if 1 ≤ i ∧ i + 1 < n then x (i + 1) - x i else 0)
      = (if 1 ≤ i ∧ i + 1 < n then conj (y i) * x (i + 1) else 0)
        - (if 1 ≤ i ∧ i + 1 < n then conj (y i) * x i else 0) := by
    intro i; split <;> ring
  have eR : ∀ j, conj ((if 2 ≤ j ∧ j < n then y (j - 1) else 0) - (if 1 ≤ j ∧ j + 1 < n then y j else 0)) * x j
      = (if 2 ≤ j ∧ j < n then conj (y (j - 1)) * x j else 0)
        - (if 1 ≤ j ∧ j + 1 < n then conj (y j) * x j else 0) := by
    intro j; split <;> split <;> simp only [map_sub, map_zero] <;> ring
  simp only [eL, eR, Finset.sum_sub_distrib]
  congr 1
  -- Σ_i [1 ≤ i, i+1 < n] conj(y i) x(i+1)  =  Σ_j [2 ≤ j < n] conj(y (j-1)) x j
  by_cases hn : n < 3
  · rw [Finset.sum_eq_zero, Finset.sum_eq_zero]
    · intro i _; rw [if_neg]; omega
    · intro i _; rw [if_neg]; omega
  · have hL : ∀ i, (if 1 ≤ i ∧ i + 1 < n then conj (y i) * x (i + 1) else 0)
        = (if 1 ≤ i ∧ i < 1 + (n - 2) then conj (y i) * x (i + 1) else 0) := by
      intro i; refine if_congr ?_ rfl rfl; omega
    have hR : ∀ j, (if 2 ≤ j ∧ j < n then conj (y (j - 1)) * x j else 0)
        = (if 2 ≤ j ∧ j < 2 + (n - 2) then conj (y (j - 1)) * x j else 0) := by
      intro j; refine if_congr ?_ rfl rfl; omega
    simp only [hL, hR]
    rw [sum_window n (n - 2) 1 (by omega) (fun i => conj (y i) * x (i + 1)),
      sum_window n (n - 2) 2 (by omega) (fun j => conj (y (j - 1)) * x j)]
    refine Finset.sum_congr rfl fun i _ => ?_
    have : i + 2 - 1 = i + 1 := by omega
    rw [this]
end C06L
namespace C06L
variable {C : Type} [Field C] (conj : C →+* C) (hc : ∀ a, conj (conj a) = a)

/-- multiplication by a self-conjugate (real) scalar is self-adjoint -/
theorem ip2_scale (m n : Nat) (c : C) (hcc : conj c = c) (x y : Mat C) :
    ip2 conj m n y (fun i j => c * x i j) = ip2 conj m n (fun i j => c * y i j) x := by
  simp only [ip2, sumTo_eq, map_mul, hcc]
  refine Finset.sum_congr rfl fun i _ => Finset.sum_congr rfl fun j _ => ?_
  ring

include hc in
theorem ip2_conj_symm (m n : Nat) (a b : Mat C) : conj (ip2 conj m n a b) = ip2 conj m n b a := by
  simp only [ip2, sumTo_eq, map_sum, map_mul, hc]
  refine Finset.sum_congr rfl fun i _ => Finset.sum_congr rfl fun j _ => ?_
  ring

include hc in
/-- `⟨y, crop X⟩ = ⟨pad y, X⟩` -/
theorem crop2_pad2_adjoint (m n M N : Nat) (oy ox : Int) (hy0 : 0 ≤ oy) (hy1 : oy + m ≤ M)
    (hx0 : 0 ≤ ox) (hx1 : ox + n ≤ N) (X y : Mat C) :
    ip2 conj m n y (crop2 oy ox X) = ip2 conj M N (pad2 m n oy ox y) X := by
  rw [← ip2_conj_symm conj hc m n (crop2 oy ox X) y, ← pad2_crop2_adjoint conj m n M N oy ox hy0 hy1 hx0 hx1 y X,
    ip2_conj_symm conj hc]

include hc in
/-- the whole `DM.render` chain (padding geometry) and `render_backprop` are adjoint -/
theorem dm_pad_adjoint (ky kx loy sty lox stx m n M N : Nat) (oy ox : Int)
    (hy0 : 0 ≤ oy) (hy1 : oy + m ≤ M) (hx0 : 0 ≤ ox) (hx1 : ox + n ≤ N)
    (hsy : 0 < sty) (hsx : 0 < stx) (hly : loy + (ky - 1) * sty < m ∨ ky = 0) (hlx : lox + (kx - 1) * stx < n ∨ kx = 0)
    (F1 F2 G1 G2 H : Mat C) (c1 c2 c : C)
    (h1 : ∀ i j, G1 i j = c1 * conj (F1 j i)) (h2 : ∀ i j, G2 i j = c2 * conj (F2 j i))
    (hc1 : conj c1 = c1) (hc2 : conj c2 = c2) (hcc : conj c = c) (a y : Mat C) :
    ip2 conj M N y (dmRenderPad ky kx loy sty lox stx m n oy ox F1 F2 G1 G2 H c a)
      = ip2 conj ky kx (dmBackPad conj loy sty lox stx m n oy ox F1 F2 G1 G2 H c y) a := by
  unfold dmRenderPad dmBackPad
  rw [pad2_crop2_adjoint conj m n M N oy ox hy0 hy1 hx0 hx1, ip2_scale conj m n c hcc,
    filter2_adjoint' conj hc m n F1 F2 G1 G2 H _ _ c1 c2 h1 h2 hc1 hc2]
  unfold scatter2 gather2
  rw [adj_mapCols conj n ky m _ _ (scatter1_gather1_adjoint conj ky m loy sty hsy hly),
    adj_mapRows conj ky kx n _ _ (scatter1_gather1_adjoint conj kx n lox stx hsx hlx)]

include hc in
/-- … and for the cropping geometry (`M ≤ m`, `N ≤ n`) -/
theorem dm_crop_adjoint (ky kx loy sty lox stx m n M N : Nat) (oy ox : Int)
    (hy0 : 0 ≤ oy) (hy1 : oy + M ≤ m) (hx0 : 0 ≤ ox) (hx1 : ox + N ≤ n)
    (hsy : 0 < sty) (hsx : 0 < stx) (hly : loy + (ky - 1) * sty < m ∨ ky = 0) (hlx : lox + (kx - 1) * stx < n ∨ kx = 0)
    (F1 F2 G1 G2 H : Mat C) (c1 c2 c : C)
    (h1 : ∀ i j, G1 i j = c1 * conj (F1 j i)) (h2 : ∀ i j, G2 i j = c2 * conj (F2 j i))
    (hc1 : conj c1 = c1) (hc2 : conj c2 = c2) (hcc : conj c = c) (a y : Mat C) :
    ip2 conj M N y (dmRenderCrop ky kx loy sty lox stx m n oy ox F1 F2 G1 G2 H c a)
      = ip2 conj ky kx (dmBackCrop conj loy sty lox stx m n M N oy ox F1 F2 G1 G2 H c y) a := by
  unfold dmRenderCrop dmBackCrop
  rw [crop2_pad2_adjoint conj hc M N m n oy ox hy0 hy1 hx0 hx1, ip2_scale conj m n c hcc,
    filter2_adjoint' conj hc m n F1 F2 G1 G2 H _ _ c1 c2 h1 h2 hc1 hc2]
  unfold scatter2 gather2
  rw [adj_mapCols conj n ky m _ _ (scatter1_gather1_adjoint conj ky m loy sty hsy hly),
    adj_mapRows conj ky kx n _ _ (scatter1_gather1_adjoint conj kx n lox stx hsx hlx)]
end C06L
