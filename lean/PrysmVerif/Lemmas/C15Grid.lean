import PrysmVerif.Lemmas.C15Ops
/-!
# C15 — the `m × n` grid: `ZMod m × ZMod n`, its kernel from two primitive roots, and the bridge to
the `Nat`-indexed executable model (`Model.C15.conv2`, `cconv2`, the roll index maps)
-/
set_option linter.unusedSectionVars false
set_option linter.unusedSimpArgs false

namespace C15L
open Finset Model.C15

/-- scalar signature of the executable models, on a field -/
scoped instance (priority := 100) fieldNum {K : Type} [Field K] : Num K := { ofInt := fun i => (i : K) }

theorem sumTo_eq {K : Type} [Field K] (n : ℕ) (f : ℕ → K) : Num.sumTo n f = ∑ i ∈ range n, f i := by
  induction n with
  | zero => simp [Num.sumTo, Num.ofInt]
  | succ n ih => rw [Num.sumTo, ih, Finset.sum_range_succ]

theorem sum_zmod {A : Type} [AddCommMonoid A] (n : ℕ) [NeZero n] (F : ZMod n → A) :
    ∑ k : ZMod n, F k = ∑ i ∈ range n, F (i : ZMod n) := by
  obtain ⟨m, rfl⟩ := Nat.exists_eq_succ_of_ne_zero (NeZero.ne n)
  rw [← Fin.sum_univ_eq_sum_range (fun i => F (i : ZMod (m + 1)))]
  refine Finset.sum_congr rfl fun k _ => ?_
  congr 1
  exact (ZMod.natCast_zmod_val k).symm

variable (m n : ℕ) [NeZero m] [NeZero n]

/-- the 2-D DFT kernel `ζm^(k·j) ζn^(l·i)` -/
def gridKernel {K : Type} [Field K] (ζm ζn : K) (hm : IsPrimitiveRoot ζm m) (hn : IsPrimitiveRoot ζn n)
    (cm : (m : K) ≠ 0) (cn : (n : K) ≠ 0) : Kernel (ZMod m × ZMod n) K :=
  (zmodKernel m ζm hm cm).prod (zmodKernel n ζn hn cn)

/-- origin sample `(m // 2, n // 2)` -/
def centre : ZMod m × ZMod n := (((m / 2 : ℕ) : ZMod m), ((n / 2 : ℕ) : ZMod n))

/-- a `Nat`-indexed array read on the grid -/
def lift {A : Type} (f : ℕ → ℕ → A) : ZMod m × ZMod n → A := fun g => f g.1.val g.2.val

theorem val_cast_lt {n : ℕ} [NeZero n] {i : ℕ} (h : i < n) : ((i : ZMod n)).val = i := by
  rw [ZMod.val_natCast, Nat.mod_eq_of_lt h]

theorem cast_convSrc (n : ℕ) [NeZero n] (p q : ℕ) :
    ((convSrc n p q : ℕ) : ZMod n) = (p : ZMod n) - q + ((n / 2 : ℕ) : ZMod n) := by
  unfold convSrc
  have h : q % n ≤ n := (Nat.mod_lt q (Nat.pos_of_ne_zero (NeZero.ne n))).le
  rw [ZMod.natCast_mod, Nat.cast_add, Nat.cast_add, Nat.cast_sub h, ZMod.natCast_self, ZMod.natCast_mod]
  ring

theorem cast_subMod (n : ℕ) [NeZero n] (p q : ℕ) : ((subMod n p q : ℕ) : ZMod n) = (p : ZMod n) - q := by
  unfold subMod
  have h : q % n ≤ n := (Nat.mod_lt q (Nat.pos_of_ne_zero (NeZero.ne n))).le
  rw [ZMod.natCast_mod, Nat.cast_add, Nat.cast_sub h, ZMod.natCast_self, ZMod.natCast_mod]
  ring

theorem cast_fftshiftSrc (n : ℕ) [NeZero n] (i : ℕ) :
    ((fftshiftSrc n i : ℕ) : ZMod n) = (i : ZMod n) - ((n / 2 : ℕ) : ZMod n) := by
  unfold fftshiftSrc
  rw [ZMod.natCast_mod, Nat.cast_add, Nat.cast_sub (Nat.div_le_self n 2), ZMod.natCast_self]
  ring

theorem cast_ifftshiftSrc (n : ℕ) [NeZero n] (i : ℕ) :
    ((ifftshiftSrc n i : ℕ) : ZMod n) = (i : ZMod n) + ((n / 2 : ℕ) : ZMod n) := by
  unfold ifftshiftSrc
  rw [ZMod.natCast_mod, Nat.cast_add]

theorem convSrc_lt (n : ℕ) [NeZero n] (p q : ℕ) : convSrc n p q < n :=
  Nat.mod_lt _ (Nat.pos_of_ne_zero (NeZero.ne n))

theorem val_eq_of_cast {n : ℕ} [NeZero n] {i : ℕ} {z : ZMod n} (hi : i < n) (h : (i : ZMod n) = z) : z.val = i := by
  rw [← h, val_cast_lt hi]

/-- **bridge**: the model's direct double sum is the centred circular convolution on the grid -/
theorem conv2_eq {K : Type} [Field K] (o h : ℕ → ℕ → K) (p q : ℕ) :
    conv2 m n o h p q = cconvC (centre m n) (lift m n o) (lift m n h) ((p : ZMod m), (q : ZMod n)) := by
  simp only [conv2, cconvC, sumTo_eq]
  rw [Fintype.sum_prod_type, sum_zmod]
  refine Finset.sum_congr rfl fun j hj => ?_
  rw [sum_zmod]
  refine Finset.sum_congr rfl fun i hi => ?_
  have hj' := Finset.mem_range.mp hj
  have hi' := Finset.mem_range.mp hi
  simp only [lift, centre, Prod.fst_sub, Prod.snd_sub, Prod.fst_add, Prod.snd_add, val_cast_lt hj', val_cast_lt hi']
  rw [val_eq_of_cast (convSrc_lt m p j) (cast_convSrc m p j), val_eq_of_cast (convSrc_lt n q i) (cast_convSrc n q i)]

/-- **bridge**: the model's origin-at-[0,0] double sum is the circular convolution on the grid -/
theorem cconv2_eq {K : Type} [Field K] (o h : ℕ → ℕ → K) (p q : ℕ) :
    cconv2 m n o h p q = cconv (lift m n o) (lift m n h) ((p : ZMod m), (q : ZMod n)) := by
  simp only [cconv2, cconv, sumTo_eq]
  rw [Fintype.sum_prod_type, sum_zmod]
  refine Finset.sum_congr rfl fun j hj => ?_
  rw [sum_zmod]
  refine Finset.sum_congr rfl fun i hi => ?_
  have hj' := Finset.mem_range.mp hj
  have hi' := Finset.mem_range.mp hi
  simp only [lift, Prod.fst_sub, Prod.snd_sub, val_cast_lt hj', val_cast_lt hi']
  rw [val_eq_of_cast (Nat.mod_lt _ (Nat.pos_of_ne_zero (NeZero.ne m))) (cast_subMod m p j),
    val_eq_of_cast (Nat.mod_lt _ (Nat.pos_of_ne_zero (NeZero.ne n))) (cast_subMod n q i)]
  rfl

theorem total_eq {K : Type} [Field K] (o : ℕ → ℕ → K) : total m n o = ∑ g, lift m n o g := by
  simp only [total, sumTo_eq]
  rw [Fintype.sum_prod_type, sum_zmod]
  refine Finset.sum_congr rfl fun j hj => ?_
  rw [sum_zmod]
  refine Finset.sum_congr rfl fun i hi => ?_
  simp only [lift, val_cast_lt (Finset.mem_range.mp hj), val_cast_lt (Finset.mem_range.mp hi)]

/-- **bridge**: the model's roll index maps are the rotations by `± centre` -/
theorem lift_fftshift {A : Type} (f : ℕ → ℕ → A) :
    shiftBy (centre m n) (lift m n f) = lift m n (fun j i => f (fftshiftSrc m j) (fftshiftSrc n i)) := by
  funext g
  obtain ⟨a, b⟩ := g
  simp only [shiftBy, lift, centre, Prod.fst_sub, Prod.snd_sub]
  have ha : (a.val : ZMod m) = a := ZMod.natCast_zmod_val a
  have hb : (b.val : ZMod n) = b := ZMod.natCast_zmod_val b
  rw [val_eq_of_cast (Nat.mod_lt _ (Nat.pos_of_ne_zero (NeZero.ne m))) ((cast_fftshiftSrc m a.val).trans (by rw [ha])),
    val_eq_of_cast (Nat.mod_lt _ (Nat.pos_of_ne_zero (NeZero.ne n))) ((cast_fftshiftSrc n b.val).trans (by rw [hb]))]
  rfl

theorem lift_ifftshift {A : Type} (f : ℕ → ℕ → A) :
    shiftBy (-(centre m n)) (lift m n f) = lift m n (fun j i => f (ifftshiftSrc m j) (ifftshiftSrc n i)) := by
  funext g
  obtain ⟨a, b⟩ := g
  simp only [shiftBy, lift, centre, Prod.fst_sub, Prod.snd_sub, Prod.fst_neg, Prod.snd_neg, sub_neg_eq_add, Prod.fst_add, Prod.snd_add]
  have ha : (a.val : ZMod m) = a := ZMod.natCast_zmod_val a
  have hb : (b.val : ZMod n) = b := ZMod.natCast_zmod_val b
  rw [val_eq_of_cast (Nat.mod_lt _ (Nat.pos_of_ne_zero (NeZero.ne m))) ((cast_ifftshiftSrc m a.val).trans (by rw [ha])),
    val_eq_of_cast (Nat.mod_lt _ (Nat.pos_of_ne_zero (NeZero.ne n))) ((cast_ifftshiftSrc n b.val).trans (by rw [hb]))]
  rfl

/-- impulse at `(j0, i0)` on `Nat` indices -/
def deltaNat {K : Type} [Field K] (j0 i0 : ℕ) : ℕ → ℕ → K := fun j i => if j = j0 ∧ i = i0 then 1 else 0

theorem lift_deltaNat {K : Type} [Field K] (j0 i0 : ℕ) (hj : j0 < m) (hi : i0 < n) :
    lift m n (deltaNat (K := K) j0 i0) = delta ((j0 : ZMod m), (i0 : ZMod n)) := by
  funext g
  obtain ⟨a, b⟩ := g
  simp only [lift, deltaNat, delta, Prod.mk.injEq]
  have e1 : a.val = j0 ↔ a = (j0 : ZMod m) := by
    constructor
    · intro h; rw [← h, ZMod.natCast_zmod_val]
    · intro h; rw [h, val_cast_lt hj]
  have e2 : b.val = i0 ↔ b = (i0 : ZMod n) := by
    constructor
    · intro h; rw [← h, ZMod.natCast_zmod_val]
    · intro h; rw [h, val_cast_lt hi]
  simp only [e1, e2]

end C15L
