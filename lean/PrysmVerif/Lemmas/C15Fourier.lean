import Mathlib.Algebra.BigOperators.Ring.Finset
import Mathlib.Algebra.BigOperators.Fin
import Mathlib.Algebra.Field.Basic
import Mathlib.Algebra.Ring.GeomSum
import Mathlib.Data.Fintype.BigOperators
import Mathlib.Data.ZMod.Basic
import Mathlib.RingTheory.RootsOfUnity.PrimitiveRoots
import Mathlib.Tactic.Ring
/-!
# C15 — finite Fourier analysis on a finite abelian group, from root-of-unity orthogonality

`G` is the index set of an array (for prysm: `ZMod m × ZMod n`, rows × columns, indices taken
modulo the shape).  A *DFT kernel* on `G` is a symmetric bicharacter `χ : G → G → K` whose sum over
the frequency index vanishes except at the origin (root-of-unity orthogonality).  `fft`/`ifft` are the
DFT sums with that kernel — the contract under which `scipy.fft.fft2 / ifft2` are used.  Everything in
this file is proved for every such kernel; `zmodKernel` / `Kernel.prod` construct it from primitive
roots of unity, i.e. the orthogonality hypothesis is itself proved, not assumed.
-/

set_option linter.unusedSectionVars false
set_option linter.unusedSimpArgs false

namespace C15L

open Finset

variable {G H K : Type} [AddCommGroup G] [Fintype G] [DecidableEq G]
  [AddCommGroup H] [Fintype H] [DecidableEq H] [Field K]

/-- a DFT kernel: `χ k a` reads `exp(-2πi ⟨k,a⟩/N)` -/
structure Kernel (G K : Type) [AddCommGroup G] [Fintype G] [DecidableEq G] [Field K] where
  χ : G → G → K
  add_right : ∀ k a b, χ k (a + b) = χ k a * χ k b
  symm : ∀ k a, χ k a = χ a k
  zero_right : ∀ k, χ k 0 = 1
  orth : ∀ a, ∑ k, χ k a = if a = 0 then (Fintype.card G : K) else 0
  card_ne : (Fintype.card G : K) ≠ 0

namespace Kernel
variable (E : Kernel G K)

theorem add_left (k l a : G) : E.χ (k + l) a = E.χ k a * E.χ l a := by
  rw [E.symm, E.add_right, E.symm a k, E.symm a l]

theorem zero_left (a : G) : E.χ 0 a = 1 := by rw [E.symm, E.zero_right]

theorem mul_neg_right (k a : G) : E.χ k a * E.χ k (-a) = 1 := by
  rw [← E.add_right, add_neg_cancel, E.zero_right]

theorem ne_zero (k a : G) : E.χ k a ≠ 0 := fun h => by
  have := E.mul_neg_right k a
  rw [h, zero_mul] at this
  exact zero_ne_one this

theorem neg_right (k a : G) : E.χ k (-a) = (E.χ k a)⁻¹ :=
  eq_inv_of_mul_eq_one_right (E.mul_neg_right k a)

theorem neg_left (k a : G) : E.χ (-k) a = (E.χ k a)⁻¹ := by
  rw [E.symm, E.neg_right, E.symm]

theorem neg_left_eq_neg_right (k a : G) : E.χ (-k) a = E.χ k (-a) := by
  rw [E.neg_left, E.neg_right]

/-- orthogonality, summed over the sample index instead of the frequency index -/
theorem orth' (k : G) : ∑ a, E.χ k a = if k = 0 then (Fintype.card G : K) else 0 := by
  simp_rw [fun a => E.symm k a]; exact E.orth k

end Kernel

/-! ## transforms, rotations, circular convolutions -/

/-- the DFT sum (contract of `fft2`) -/
def fft (E : Kernel G K) (f : G → K) : G → K := fun k => ∑ a, f a * E.χ k a

/-- the inverse DFT sum (contract of `ifft2`) -/
def ifft (E : Kernel G K) (F : G → K) : G → K :=
  fun a => (Fintype.card G : K)⁻¹ * ∑ k, F k * E.χ k (-a)

/-- cyclic rotation: `shiftBy c f [i] = f [i - c]`.  `fftshift = shiftBy c`, `ifftshift = shiftBy (-c)`
with `c = shape // 2`. -/
def shiftBy {A : Type} (c : G) (f : G → A) : G → A := fun i => f (i - c)

/-- circular convolution -/
def cconv {A : Type} [Mul A] [AddCommMonoid A] (f g : G → A) : G → A := fun p => ∑ q, f q * g (p - q)

/-- circular convolution of arrays whose origin is sample `c` -/
def cconvC {A : Type} [Mul A] [AddCommMonoid A] (c : G) (f g : G → A) : G → A :=
  fun p => ∑ q, f q * g (p - q + c)

/-- unit impulse at `c` -/
def delta {A : Type} [Zero A] [One A] (c : G) : G → A := fun i => if i = c then 1 else 0

@[simp] theorem shiftBy_shiftBy {A : Type} (c d : G) (f : G → A) :
    shiftBy c (shiftBy d f) = shiftBy (c + d) f := by
  funext i; simp only [shiftBy]; congr 1; abel

@[simp] theorem shiftBy_zero {A : Type} (f : G → A) : shiftBy (0 : G) f = f := by
  funext i; simp [shiftBy]

theorem shiftBy_neg_cancel {A : Type} (c : G) (f : G → A) : shiftBy c (shiftBy (-c) f) = f := by simp

theorem shiftBy_cancel_neg {A : Type} (c : G) (f : G → A) : shiftBy (-c) (shiftBy c f) = f := by simp

theorem shiftBy_mul {A : Type} [Mul A] (c : G) (f g : G → A) :
    shiftBy c (f * g) = shiftBy c f * shiftBy c g := rfl

/-- the double sum of a product of characters collapses (orthogonality) -/
theorem sum_char_collapse (E : Kernel G K) (w : G → K) (p : G) :
    (Fintype.card G : K)⁻¹ * ∑ k, ∑ a, w a * E.χ k (a - p) = w p := by
  rw [Finset.sum_comm]
  simp_rw [← Finset.mul_sum, E.orth, sub_eq_zero]
  rw [Finset.sum_eq_single p]
  · simp only [if_true]; field_simp [E.card_ne]
  · intro b _ hb; simp [hb]
  · intro h; exact absurd (Finset.mem_univ p) h

/-- inversion: `ifft (fft f) = f` -/
theorem ifft_fft (E : Kernel G K) (f : G → K) : ifft E (fft E f) = f := by
  funext p
  simp only [ifft, fft]
  rw [← sum_char_collapse E f p]
  congr 1
  refine Finset.sum_congr rfl fun k _ => ?_
  rw [Finset.sum_mul]
  refine Finset.sum_congr rfl fun a _ => ?_
  rw [sub_eq_add_neg, E.add_right]; ring

/-- **convolution theorem**: `ifft (fft f ⊙ fft g)` is the circular convolution of `f` and `g` -/
theorem ifft_fft_mul (E : Kernel G K) (f g : G → K) : ifft E (fft E f * fft E g) = cconv f g := by
  funext p
  simp only [ifft, fft, cconv, Pi.mul_apply]
  have h : ∀ k, (∑ a, f a * E.χ k a) * (∑ b, g b * E.χ k b) * E.χ k (-p)
      = ∑ a, (∑ b, f b * g (a - b)) * E.χ k (a - p) := by
    intro k
    rw [Finset.sum_mul_sum]
    simp_rw [Finset.sum_mul]
    conv_rhs => rw [Finset.sum_comm]
    refine Finset.sum_congr rfl fun x _ => ?_
    rw [← Equiv.sum_comp (Equiv.addRight x) (fun a => f x * g (a - x) * E.χ k (a - p))]
    refine Finset.sum_congr rfl fun b _ => ?_
    simp only [Equiv.coe_addRight, add_sub_cancel_right]
    rw [show b + x - p = x + b + -p by abel, E.add_right, E.add_right]; ring
  simp_rw [h]
  exact sum_char_collapse E (fun a => ∑ b, f b * g (a - b)) p

/-- the same with an arbitrary transfer function `T` in place of `fft g` -/
theorem ifft_fft_mul_tf (E : Kernel G K) (f T : G → K) :
    ifft E (fft E f * T) = cconv f (ifft E T) := by
  funext p
  simp only [ifft, fft, cconv, Pi.mul_apply]
  simp_rw [Finset.mul_sum, Finset.sum_mul]
  rw [Finset.sum_comm]
  refine Finset.sum_congr rfl fun a _ => ?_
  rw [Finset.mul_sum]
  refine Finset.sum_congr rfl fun k _ => ?_
  rw [neg_sub, sub_eq_add_neg, E.add_right]; ring

theorem cconv_comm {A : Type} [CommSemiring A] (f g : G → A) : cconv f g = cconv g f := by
  funext p
  simp only [cconv]
  rw [← Equiv.sum_comp (Equiv.subLeft p)]
  refine Finset.sum_congr rfl fun q _ => ?_
  simp only [Equiv.subLeft_apply, sub_sub_cancel]; ring

/-- rotation equivariance of the circular convolution -/
theorem cconv_shiftBy_left {A : Type} [CommSemiring A] (c : G) (f g : G → A) :
    cconv (shiftBy c f) g = shiftBy c (cconv f g) := by
  funext p
  simp only [cconv, shiftBy]
  rw [← Equiv.sum_comp (Equiv.addRight c)]
  refine Finset.sum_congr rfl fun q _ => ?_
  simp only [Equiv.coe_addRight, add_sub_cancel_right]
  congr 2; abel

theorem cconv_shiftBy_right {A : Type} [CommSemiring A] (c : G) (f g : G → A) :
    cconv f (shiftBy c g) = shiftBy c (cconv f g) := by
  rw [cconv_comm, cconv_shiftBy_left, cconv_comm]

/-- `fftshift (cconv (ifftshift o) (ifftshift h))` is the centred circular convolution -/
theorem shift_cconv_unshift {A : Type} [CommSemiring A] (c : G) (o h : G → A) :
    shiftBy c (cconv (shiftBy (-c) o) (shiftBy (-c) h)) = cconvC c o h := by
  rw [cconv_shiftBy_left, shiftBy_neg_cancel]
  funext p
  simp only [cconv, cconvC, shiftBy, sub_neg_eq_add]

/-! ## laws of the centred circular convolution (any commutative semiring of samples) -/
section laws
variable {A : Type} [CommSemiring A] (c : G)

theorem cconvC_comm (o h : G → A) : cconvC c o h = cconvC c h o := by
  funext p
  simp only [cconvC]
  rw [← Equiv.sum_comp (Equiv.subLeft (p + c))]
  refine Finset.sum_congr rfl fun q _ => ?_
  simp only [Equiv.subLeft_apply]
  rw [mul_comm]; congr 2 <;> abel

theorem cconvC_add_left (o₁ o₂ h : G → A) : cconvC c (o₁ + o₂) h = cconvC c o₁ h + cconvC c o₂ h := by
  funext p; simp only [cconvC, Pi.add_apply, add_mul, Finset.sum_add_distrib]

theorem cconvC_smul_left (a : A) (o h : G → A) :
    cconvC c (fun i => a * o i) h = fun p => a * cconvC c o h p := by
  funext p; simp only [cconvC, Finset.mul_sum, mul_assoc]

theorem cconvC_add_right (o h₁ h₂ : G → A) : cconvC c o (h₁ + h₂) = cconvC c o h₁ + cconvC c o h₂ := by
  funext p; simp only [cconvC, Pi.add_apply, mul_add, Finset.sum_add_distrib]

theorem cconvC_smul_right (a : A) (o h : G → A) :
    cconvC c o (fun i => a * h i) = fun p => a * cconvC c o h p := by
  funext p; simp only [cconvC, Finset.mul_sum]
  refine Finset.sum_congr rfl fun q _ => ?_; ring

/-- a unit impulse `k` samples from the origin translates the object by `k` (cyclically);
`k = 0`: the impulse at the origin is the identity -/
theorem cconvC_delta (k : G) (o : G → A) : cconvC c o (delta (c + k)) = shiftBy k o := by
  funext p
  simp only [cconvC, delta, shiftBy]
  rw [Finset.sum_eq_single (p - k)]
  · rw [if_pos (by abel), mul_one]
  · intro q _ hq
    rw [if_neg, mul_zero]
    intro h; apply hq
    have : p - q = k := by
      have := congrArg (· - c) h; simpa using this
    rw [← this]; abel
  · intro h; exact absurd (Finset.mem_univ _) h

theorem cconvC_delta_origin (o : G → A) : cconvC c o (delta c) = o := by
  have := cconvC_delta c 0 o
  simpa using this

/-- total of the image = total of the object × total of the PSF -/
theorem cconvC_sum (o h : G → A) : ∑ p, cconvC c o h p = (∑ q, o q) * ∑ r, h r := by
  simp only [cconvC]
  rw [Finset.sum_comm, Finset.sum_mul]
  refine Finset.sum_congr rfl fun q _ => ?_
  rw [← Finset.mul_sum]
  congr 1
  rw [← Equiv.sum_comp (Equiv.addRight (q - c))]
  refine Finset.sum_congr rfl fun p _ => ?_
  simp only [Equiv.coe_addRight]; congr 1; abel

end laws

/-! ## kernels from primitive roots of unity -/

/-- product kernel: separable 2-D (N-D) transform -/
def Kernel.prod (E : Kernel G K) (F : Kernel H K) : Kernel (G × H) K where
  χ k a := E.χ k.1 a.1 * F.χ k.2 a.2
  add_right k a b := by simp only [Prod.fst_add, Prod.snd_add, E.add_right, F.add_right]; ring
  symm k a := by rw [E.symm, F.symm]
  zero_right k := by simp [E.zero_right, F.zero_right]
  orth a := by
    rw [Fintype.sum_prod_type]
    simp_rw [← Finset.mul_sum, ← Finset.sum_mul, E.orth, F.orth, Fintype.card_prod, Prod.ext_iff,
      Prod.fst_zero, Prod.snd_zero]
    by_cases h1 : a.1 = 0 <;> by_cases h2 : a.2 = 0 <;> simp [h1, h2]
  card_ne := by
    rw [Fintype.card_prod, Nat.cast_mul]
    exact mul_ne_zero E.card_ne F.card_ne

theorem pow_eq_of_modEq {ζ : K} {n : ℕ} (hζ : ζ ^ n = 1) {a b : ℕ} (h : a ≡ b [MOD n]) : ζ ^ a = ζ ^ b := by
  rw [← Nat.div_add_mod a n, ← Nat.div_add_mod b n, pow_add, pow_add, pow_mul, pow_mul, hζ, one_pow, one_pow,
    show a % n = b % n from h]

/-- 1-D kernel `χ k a = ζ^(k·a)` from a primitive `n`-th root of unity -/
def zmodKernel (n : ℕ) [NeZero n] (ζ : K) (hζ : IsPrimitiveRoot ζ n) (hn : (n : K) ≠ 0) : Kernel (ZMod n) K where
  χ k a := ζ ^ (k.val * a.val)
  add_right k a b := by
    rw [← pow_add, ← mul_add]
    apply pow_eq_of_modEq hζ.pow_eq_one
    rw [ZMod.val_add]
    exact (Nat.mod_modEq _ _).mul_left _
  symm k a := by rw [mul_comm]
  zero_right k := by simp
  orth a := by
    have hsum : ∑ k : ZMod n, ζ ^ (k.val * a.val) = ∑ i ∈ range n, (ζ ^ a.val) ^ i := by
      obtain ⟨m, rfl⟩ := Nat.exists_eq_succ_of_ne_zero (NeZero.ne n)
      rw [← Fin.sum_univ_eq_sum_range (fun i => (ζ ^ a.val) ^ i)]
      refine Finset.sum_congr rfl fun k _ => ?_
      rw [← pow_mul, mul_comm]; rfl
    rw [hsum, ZMod.card]
    by_cases ha : a = 0
    · simp [ha]
    · rw [if_neg ha]
      have hx : ζ ^ a.val ≠ 1 := by
        rw [Ne, hζ.pow_eq_one_iff_dvd]
        intro hd
        have hlt := ZMod.val_lt a
        have hpos : 0 < a.val := Nat.pos_of_ne_zero (by rwa [Ne, ZMod.val_eq_zero])
        exact absurd (Nat.le_of_dvd hpos hd) (not_le.mpr hlt)
      have hg := geom_sum_mul (ζ ^ a.val) n
      rw [← pow_mul, mul_comm a.val n, pow_mul, hζ.pow_eq_one, one_pow, sub_self] at hg
      exact (mul_eq_zero.mp hg).resolve_right (sub_ne_zero.mpr hx)
  card_ne := by rwa [ZMod.card]

end C15L
