import PrysmVerif.PyPrelude
import Mathlib.Data.Rat.Floor
/-! # bridges between core `Rat.floor/ceil`, the Python helpers, and Mathlib's `⌊·⌋ ⌈·⌉` -/

theorem Rat.floor_eq_intFloor (q : ℚ) : q.floor = ⌊q⌋ := rfl

theorem Rat.ceil_eq_intCeil (q : ℚ) : q.ceil = ⌈q⌉ := by
  rw [Rat.ceil_eq_neg_floor_neg]; rfl

/-- `pyCeilDiv a b = ⌈a / b⌉` for `b > 0` -/
theorem pyCeilDiv_eq (a b : Int) (hb : 0 < b) : pyCeilDiv a b = ⌈(a : ℚ) / b⌉ := by
  unfold pyCeilDiv
  obtain ⟨d, rfl⟩ := Int.eq_ofNat_of_zero_le hb.le
  rw [Int.cast_natCast, Rat.ceil_intCast_div_natCast]
